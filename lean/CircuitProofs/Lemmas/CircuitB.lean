import CircuitModel.CircuitOps
import CircuitModel.Logic
import CircuitProofs.Lemmas.Circuit
import CircuitProofs.Props.CircuitCommon
namespace CM
open SpecCircuit Props

theorem alternates_append (p : Bool) (a b : List Bool) :
    alternates p (a ++ b) = (alternates p a && alternates ((a.getLast?).getD p) b) := by
  induction a generalizing p with
  | nil => simp [alternates]
  | cons x xs ih =>
    simp only [List.cons_append, alternates, ih, List.getLast?_cons, Option.getD_some, Bool.and_assoc]

theorem getLast?_append_getD (p : Bool) (a b : List Bool) :
    ((a ++ b).getLast?).getD p = (b.getLast?).getD ((a.getLast?).getD p) := by
  rw [List.getLast?_append]
  cases b.getLast? <;> simp

@[simp] theorem notifs_nil : notifs [] = [] := rfl
@[simp] theorem notifs_append (a b : List Emit) : notifs (a ++ b) = notifs a ++ notifs b := by
  simp [notifs, List.filterMap_append]
@[simp] theorem notifs_run (k t d) : notifs [.run k t d] = [] := rfl
@[simp] theorem notifs_fb (k t d) : notifs [.fb k t d] = [] := rfl
@[simp] theorem notifs_opened (t) : notifs [.opened t] = [true] := rfl
@[simp] theorem notifs_closed (t) : notifs [.closed t] = [false] := rfl
@[simp] theorem runEvents_nil : runEvents [] = [] := rfl
@[simp] theorem runEvents_append (a b : List Emit) : runEvents (a ++ b) = runEvents a ++ runEvents b := by
  simp [runEvents, List.filterMap_append]
@[simp] theorem runEvents_run (k t d) : runEvents [.run k t d] = [(k, t, d)] := rfl
@[simp] theorem runEvents_fb (k t d) : runEvents [.fb k t d] = [] := rfl
@[simp] theorem runEvents_opened (t) : runEvents [.opened t] = [] := rfl
@[simp] theorem runEvents_closed (t) : runEvents [.closed t] = [] := rfl

section
variable {σo σc : Type}

/-- transition summary between two (circuit, observation) pairs -/
structure Tr (s s' : St σo σc) : Prop where
  cfg : s'.1.cfg = s.1.cfg
  ex : ∃ e, s'.2.emits = s.2.emits ++ e ∧ alternates s.1.isOpen (notifs e) = true ∧
        s'.1.isOpen = ((notifs e).getLast?).getD s.1.isOpen ∧
        (s.1.cfg.forcedClosed = true → (∀ t, Emit.opened t ∉ e) ∧ (s'.1.isOpen = true → s.1.isOpen = true))

theorem Tr.refl (s : St σo σc) : Tr s s :=
  ⟨rfl, [], by simp [alternates]⟩

theorem Tr.of_eq {s s' : St σo σc} (h1 : s'.1.cfg = s.1.cfg) (h2 : s'.1.isOpen = s.1.isOpen)
    (h3 : s'.2.emits = s.2.emits) : Tr s s' :=
  ⟨h1, [], by simp [alternates, h2, h3]⟩

theorem Tr.trans {a b c : St σo σc} (h1 : Tr a b) (h2 : Tr b c) : Tr a c := by
  obtain ⟨c1, e1, he1, ha1, hl1, hf1⟩ := h1
  obtain ⟨c2, e2, he2, ha2, hl2, hf2⟩ := h2
  refine ⟨c2.trans c1, e1 ++ e2, ?_, ?_, ?_, ?_⟩
  · rw [he2, he1, List.append_assoc]
  · rw [notifs_append, alternates_append, ha1, ← hl1, ha2]; rfl
  · rw [notifs_append, getLast?_append_getD, ← hl1, hl2]
  · intro hfc
    have hb := hf1 hfc
    have hc := hf2 (by rw [c1]; exact hfc)
    refine ⟨?_, fun h => hb.2 (hc.2 h)⟩
    intro t ht
    rcases List.mem_append.1 ht with h | h
    · exact hb.1 t h
    · exact hc.1 t h
variable (O : OpenerI σo) (C : CloserI σc)

theorem tr_now (s : St σo σc) : Tr s (now s).2 := Tr.of_eq rfl rfl rfl
theorem tr_emitRun (s : St σo σc) (k t d) : Tr s (emitRun O C s k t d) :=
  ⟨rfl, [.run k t d], by simp [emitRun, alternates]⟩
theorem tr_emitFb (s : St σo σc) (k t d) : Tr s (emitFb s k t d) :=
  ⟨rfl, [.fb k t d], by simp [emitFb, alternates]⟩

theorem isOpenEff_false_iff (c : Circ σo σc) :
    isOpenEff c = false ↔ c.cfg.forceOpen = false ∧ (c.cfg.forcedClosed = true ∨ c.isOpen = false) := by
  unfold isOpenEff
  cases c.cfg.forceOpen <;> cases c.cfg.forcedClosed <;> simp

theorem tr_openCircuit (s : St σo σc) (t) : Tr s (openCircuit O C s t) := by
  unfold openCircuit
  split
  · exact Tr.refl s
  · rename_i hfc
    split
    · exact Tr.refl s
    · rename_i hop
      have := (isOpenEff_false_iff s.1).1 (by simpa using hop)
      have ho : s.1.isOpen = false := by
        rcases this.2 with h | h
        · exact absurd h hfc
        · exact h
      exact ⟨rfl, [.opened t], by simp [alternates, ho, hfc]⟩

theorem tr_attemptToOpen (s : St σo σc) (t) : Tr s (attemptToOpen O C s t) := by
  unfold attemptToOpen
  split
  · exact Tr.refl s
  · split
    · exact Tr.refl s
    · have h0 : Tr s (({ s.1 with opener := (O.shouldOpen s.1.opener t).1 }, s.2) : St σo σc) := Tr.of_eq rfl rfl rfl
      show Tr s (if (O.shouldOpen s.1.opener t).2 = true then _ else _)
      split
      · exact h0.trans (tr_openCircuit O C _ t)
      · exact h0

theorem tr_closeCircuit (s : St σo σc) (t) (force : Bool) : Tr s (closeCircuit O C s t force) := by
  unfold closeCircuit
  split
  · exact Tr.refl s
  · rename_i hop
    split
    · exact Tr.refl s
    · rename_i hfo
      have hop' : isOpenEff s.1 = true := by simpa using hop
      have hfo' : s.1.cfg.forceOpen = false := by simpa using hfo
      have hio : s.1.cfg.forcedClosed = false ∧ s.1.isOpen = true := by
        unfold isOpenEff at hop'
        rw [hfo'] at hop'
        cases h : s.1.cfg.forcedClosed <;> simp [h] at hop' ⊢
        exact hop'
      have key : ∀ s1 : St σo σc, Tr s s1 → s1.1.isOpen = true →
          Tr s (({ s1.1 with closer := C.onClosed s1.1.closer t, opener := O.onClosed s1.1.opener t, isOpen := false },
             { s1.2 with emits := s1.2.emits ++ [.closed t] }) : St σo σc) := by
        intro s1 h1 ho
        refine h1.trans ⟨rfl, [.closed t], ?_⟩
        simp [alternates, ho]
      cases force
      · have h0 : Tr s (({ s.1 with closer := (C.shouldClose s.1.closer t).1 }, s.2) : St σo σc) := Tr.of_eq rfl rfl rfl
        show Tr s (if (C.shouldClose s.1.closer t).2 = true then _ else _)
        split
        · exact key _ h0 hio.2
        · exact h0
      · exact key _ (Tr.refl s) hio.2

theorem tr_allowNewRun (s : St σo σc) (t) : Tr s (allowNewRun C s t).1 := by
  unfold allowNewRun
  split
  · exact Tr.refl s
  · split
    · exact Tr.refl s
    · exact Tr.of_eq rfl rfl rfl
section post
variable {O C}
variable {s x : St σo σc}
theorem tr_now' (h : Tr s x) : Tr s (now x).2 := h.trans (tr_now x)
theorem tr_emitRun' {k t d} (h : Tr s x) : Tr s (emitRun O C x k t d) := h.trans (tr_emitRun O C x k t d)
theorem tr_emitFb' {k t d} (h : Tr s x) : Tr s (emitFb x k t d) := h.trans (tr_emitFb x k t d)
theorem tr_openCircuit' {t} (h : Tr s x) : Tr s (openCircuit O C x t) := h.trans (tr_openCircuit O C x t)
theorem tr_attemptToOpen' {t} (h : Tr s x) : Tr s (attemptToOpen O C x t) := h.trans (tr_attemptToOpen O C x t)
theorem tr_closeCircuit' {t f} (h : Tr s x) : Tr s (closeCircuit O C x t f) := h.trans (tr_closeCircuit O C x t f)
theorem tr_allowNewRun' {t} (h : Tr s x) : Tr s (allowNewRun C x t).1 := h.trans (tr_allowNewRun C x t)
theorem tr_mk {c : Circ σo σc} {o : Obs} {a b d e f r rs fa fs rl} (h : Tr s (c, o)) :
    Tr s (⟨c.cfg, c.isOpen, a, b, d, e, f⟩, ⟨o.emits, r, rs, fa, fs, rl⟩) := h.trans (Tr.of_eq rfl rfl rfl)
theorem tr_mk1 {c : Circ σo σc} {o : Obs} {a b d e f} (h : Tr s (c, o)) :
    Tr s (⟨c.cfg, c.isOpen, a, b, d, e, f⟩, o) := h.trans (Tr.of_eq rfl rfl rfl)
theorem tr_mk2 {c : Circ σo σc} {o : Obs} {r rs fa fs rl} (h : Tr s (c, o)) :
    Tr s (c, ⟨o.emits, r, rs, fa, fs, rl⟩) := h.trans (Tr.of_eq rfl rfl rfl)
end post

macro "tr_auto" : tactic => `(tactic|
  repeat (first
    | exact Tr.refl _ | assumption | apply tr_now' | apply tr_emitRun' | apply tr_emitFb' | apply tr_openCircuit'
    | apply tr_attemptToOpen' | apply tr_closeCircuit' | apply tr_allowNewRun' | apply tr_mk | apply tr_mk1 | apply tr_mk2))

theorem tr_classify (s : St σo σc) (ctx sc ret start) : Tr s (classify O C s ctx sc ret start) := by
  unfold classify
  dsimp only
  repeat' split
  all_goals tr_auto


/-! ### `runStep` / `fallbackStep` cut into named stages (definitionally equal to the model) -/

/-- the deferred gauge decrement and context release at the end of `run` -/
def finishRun (s : St σo σc) (derived : Bool) : St σo σc :=
  ({ s.1 with conc := s.1.conc - 1 }, { s.2 with released := if derived then some true else none })

/-- `run` from the invocation of the function on (gauge already incremented, limit not exceeded) -/
def runInvoke (s : St σo σc) (ctx : CallerCtx) (sc : Script) (start : Int) : St σo σc × Res :=
  let seen := derivedSeen s.1.cfg ctx start
  let s0 : St σo σc := ({ s.1 with clock := s.1.clock + sc.adv }, { s.2 with runSeen := some seen })
  match sc.act with
  | .panic v => (finishRun s0 (!seen.sameAsCaller), .panic v)
  | _ => (finishRun (classify O C s0 ctx sc (actValue sc (ctxErrAfter ctx sc)) start) (!seen.sameAsCaller),
          .ret (actValue sc (ctxErrAfter ctx sc)))

/-- `run` after `allowNewRun` said yes -/
def runAdmitted (s : St σo σc) (ctx : CallerCtx) (sc : Script) (start : Int) : St σo σc × Res :=
  let s1 : St σo σc := ({ s.1 with opener := (O.prevent s.1.opener start).1 }, s.2)
  if (O.prevent s.1.opener start).2 then (s1, .ret (some .circuitOpen))
  else
    let s2 : St σo σc := ({ s1.1 with conc := s1.1.conc + 1 }, s1.2)
    if s2.1.cfg.maxConc ≥ 0 ∧ s2.1.conc > s2.1.cfg.maxConc then
      let s3 := emitRun O C s2 .reject start 0
      (({ s3.1 with conc := s3.1.conc - 1 }, s3.2), .ret (some .concLimit))
    else runInvoke O C s2 ctx sc start

theorem runStep_some (s : St σo σc) (ctx : CallerCtx) (sc : Script) :
    runStep O C s ctx (some sc) =
      if !(allowNewRun C (now s).2 s.1.clock).2 then
        (emitRun O C (allowNewRun C (now s).2 s.1.clock).1 .shortCircuit s.1.clock 0, .ret (some .circuitOpen))
      else runAdmitted O C (allowNewRun C (now s).2 s.1.clock).1 ctx sc s.1.clock := rfl

/-- `fallback` from the invocation of the fallback function on -/
def fbInvoke (s : St σo σc) (ctx : CallerCtx) (runSc : Option Script) (err : ErrV) (sc : Script) : St σo σc × Res :=
  let start := s.1.clock
  let s0 : St σo σc := (now s).2
  let s1 : St σo σc := ({ s0.1 with clock := s0.1.clock + sc.adv }, { s0.2 with fbArg := some err, fbSameCtx := true })
  match sc.act with
  | .panic v => (({ s1.1 with concFb := s1.1.concFb - 1 }, s1.2), .panic v)
  | _ =>
    let callerErr := match runSc with
      | some r => if s1.2.runSeen.isSome then ctxErrAfter ctx r else ctx.err
      | none => ctx.err
    let callerErr := match callerErr with | some e => some e | none => if sc.cancelCaller then some .canceled else none
    let r := actValue sc callerErr
    let s2 := (now s1).2
    let total := s1.1.clock - start
    let s3 := match r with
      | some _ => emitFb s2 .failure start total
      | none => emitFb s2 .success start total
    (({ s3.1 with concFb := s3.1.concFb - 1 }, s3.2), .ret r)

theorem fallbackStep_some (s : St σo σc) (ctx : CallerCtx) (runSc : Option Script) (err : ErrV) (sc : Script) :
    fallbackStep s ctx runSc err (some sc) =
      if s.1.cfg.fbDisabled then (s, .ret (some err))
      else
        let s1 : St σo σc := ({ s.1 with concFb := s.1.concFb + 1 }, s.2)
        if s1.1.cfg.fbMaxConc ≥ 0 ∧ s1.1.concFb > s1.1.cfg.fbMaxConc then
          let s2 := emitFb (now s1).2 .reject s1.1.clock 0
          (({ s2.1 with concFb := s2.1.concFb - 1 }, s2.2), .ret (some .concLimit))
        else fbInvoke s1 ctx runSc err sc := rfl


theorem tr_finishRun' {s x : St σo σc} {d} (h : Tr s x) : Tr s (finishRun x d) := h.trans (Tr.of_eq rfl rfl rfl)

theorem tr_runInvoke (s : St σo σc) (ctx sc start) : Tr s (runInvoke O C s ctx sc start).1 := by
  unfold runInvoke
  dsimp only
  split
  · exact tr_finishRun' (Tr.of_eq rfl rfl rfl)
  · refine tr_finishRun' (Tr.trans ?_ (tr_classify O C _ _ _ _ _))
    exact Tr.of_eq rfl rfl rfl

theorem tr_runAdmitted (s : St σo σc) (ctx sc start) : Tr s (runAdmitted O C s ctx sc start).1 := by
  unfold runAdmitted
  dsimp only
  split
  · exact Tr.of_eq rfl rfl rfl
  · split
    · exact ((Tr.of_eq rfl rfl rfl : Tr s _).trans (tr_emitRun O C _ _ _ _)).trans (Tr.of_eq rfl rfl rfl)
    · refine Tr.trans ?_ (tr_runInvoke O C _ _ _ _)
      exact Tr.of_eq rfl rfl rfl

theorem tr_runStep (s : St σo σc) (ctx run) : Tr s (runStep O C s ctx run).1 := by
  cases run with
  | none => exact Tr.refl s
  | some sc =>
    rw [runStep_some]
    split
    · exact tr_emitRun' (tr_allowNewRun' (tr_now s))
    · exact (tr_allowNewRun' (tr_now s)).trans (tr_runAdmitted O C _ _ _ _)

theorem tr_fbInvoke (s : St σo σc) (ctx runSc err sc) : Tr s (fbInvoke s ctx runSc err sc).1 := by
  unfold fbInvoke
  dsimp only
  split
  · exact ((tr_now s).trans (Tr.of_eq rfl rfl rfl)).trans (Tr.of_eq rfl rfl rfl)
  · have h1 : Tr s (now (({ (now s).2.1 with clock := (now s).2.1.clock + sc.adv },
        { (now s).2.2 with fbArg := some err, fbSameCtx := true }) : St σo σc)).2 :=
      tr_now' ((tr_now s).trans (Tr.of_eq rfl rfl rfl))
    split
    · exact (tr_emitFb' h1).trans (Tr.of_eq rfl rfl rfl)
    · exact (tr_emitFb' h1).trans (Tr.of_eq rfl rfl rfl)

theorem tr_fallbackStep (s : St σo σc) (ctx runSc err fb) : Tr s (fallbackStep s ctx runSc err fb).1 := by
  cases fb with
  | none => exact Tr.refl s
  | some sc =>
    rw [fallbackStep_some]
    split
    · exact Tr.refl s
    · dsimp only
      split
      · exact (tr_emitFb' (tr_now' (Tr.of_eq rfl rfl rfl : Tr s _))).trans (Tr.of_eq rfl rfl rfl)
      · refine Tr.trans ?_ (tr_fbInvoke _ _ _ _ _)
        exact Tr.of_eq rfl rfl rfl


/-- `execute` on an enabled circuit: the run step, then (for a non-bad-request error) the fallback step -/
theorem execute_enabled (c : Circ σo σc) (h : c.cfg.disabled = false) (ctx : CallerCtx) (run fb : Option Script) :
    execute O C c ctx run fb =
      match (runStep O C (c, {}) ctx run).2 with
      | .ret none => ((runStep O C (c, {}) ctx run).1.1, (runStep O C (c, {}) ctx run).1.2, .ret none)
      | .ret (some e) =>
        if e.isBad then ((runStep O C (c, {}) ctx run).1.1, (runStep O C (c, {}) ctx run).1.2, .ret (some e))
        else
          ((fallbackStep (runStep O C (c, {}) ctx run).1 ctx run e fb).1.1,
           (fallbackStep (runStep O C (c, {}) ctx run).1 ctx run e fb).1.2,
           (fallbackStep (runStep O C (c, {}) ctx run).1 ctx run e fb).2)
      | other => ((runStep O C (c, {}) ctx run).1.1, (runStep O C (c, {}) ctx run).1.2, other) := by
  unfold execute
  rw [h]
  rfl

theorem execute_disabled_some (c : Circ σo σc) (h : c.cfg.disabled = true) (ctx : CallerCtx) (sc : Script) (fb : Option Script) :
    execute O C c ctx (some sc) fb =
      ({ c with clock := c.clock + sc.adv },
       { runSeen := some { deadline := ctx.deadline, hasVal := ctx.hasVal, err := ctx.err, sameAsCaller := true } },
       match sc.act with
       | .panic v => .panic v
       | _ => .ret (actValue sc (ctxErrAfter ctx sc))) := by
  unfold execute
  rw [h]
  rcases sc with ⟨adv, cc, act⟩
  cases act <;> rfl

theorem execute_disabled_none (c : Circ σo σc) (h : c.cfg.disabled = true) (ctx : CallerCtx) (fb : Option Script) :
    execute O C c ctx none fb = (c, {}, .nilFunc) := by
  unfold execute
  rw [h]
  rfl

theorem tr_execute (c : Circ σo σc) (ctx : CallerCtx) (run fb : Option Script) :
    Tr ((c, {}) : St σo σc) ((execute O C c ctx run fb).1, (execute O C c ctx run fb).2.1) := by
  cases hd : c.cfg.disabled
  · rw [execute_enabled O C c hd]
    have h1 := tr_runStep O C (c, {}) ctx run
    split
    · exact h1
    · split
      · exact h1
      · exact h1.trans (tr_fallbackStep _ _ _ _ _)
    · exact h1
  · cases run with
    | none => rw [execute_disabled_none O C c hd]; exact Tr.refl _
    | some sc => rw [execute_disabled_some O C c hd]; exact Tr.of_eq rfl rfl rfl


/-! ### histories -/

/-- what `Tr` says about an operation started with no observations yet -/
theorem Tr.from_empty {c c' : Circ σo σc} {obs : Obs} (h : Tr ((c, {}) : St σo σc) (c', obs)) :
    c'.cfg = c.cfg ∧ alternates c.isOpen (notifs obs.emits) = true ∧
      c'.isOpen = ((notifs obs.emits).getLast?).getD c.isOpen ∧
      (c.cfg.forcedClosed = true → (∀ t, Emit.opened t ∉ obs.emits) ∧ (c'.isOpen = true → c.isOpen = true)) := by
  obtain ⟨hc, e, he, h1, h2, h3⟩ := h
  have : obs.emits = e := by simpa using he
  subst this
  exact ⟨hc, h1, h2, h3⟩

theorem manualOpen_eq (c : Circ σo σc) : manualOpen O C c = openCircuit O C (now ((c, {}) : St σo σc)).2 c.clock := rfl
theorem manualClose_eq (c : Circ σo σc) : manualClose O C c = closeCircuit O C (now ((c, {}) : St σo σc)).2 c.clock true := rfl

theorem tr_manualOpen (c : Circ σo σc) : Tr ((c, {}) : St σo σc) (manualOpen O C c) := by
  rw [manualOpen_eq]; exact tr_openCircuit' (tr_now _)
theorem tr_manualClose (c : Circ σo σc) : Tr ((c, {}) : St σo σc) (manualClose O C c) := by
  rw [manualClose_eq]; exact tr_closeCircuit' (tr_now _)

/-- every operation of a history continues the alternation and keeps the flag equal to the last notification -/
theorem stepOp_alt (c : Circ σo σc) (op : CircOp σo σc) :
    alternates c.isOpen (notifs (stepOp O C c op).2) = true ∧
      (stepOp O C c op).1.isOpen = ((notifs (stepOp O C c op).2).getLast?).getD c.isOpen := by
  cases op with
  | exec op => have h := (tr_execute O C c op.ctx op.run op.fb).from_empty; exact ⟨h.2.1, h.2.2.1⟩
  | openC => have h := (tr_manualOpen O C c).from_empty; exact ⟨h.2.1, h.2.2.1⟩
  | closeC => have h := (tr_manualClose O C c).from_empty; exact ⟨h.2.1, h.2.2.1⟩
  | setcfg cfg => simp [stepOp, setConfig, alternates]
  | tick d => simp [stepOp, alternates]
  | env f g => simp [stepOp, alternates]

theorem runOps_alt (c : Circ σo σc) (ops : List (CircOp σo σc)) :
    alternates c.isOpen (notifs (runOps O C c ops).2) = true ∧
      (runOps O C c ops).1.isOpen = ((notifs (runOps O C c ops).2).getLast?).getD c.isOpen := by
  induction ops generalizing c with
  | nil => simp [runOps, alternates]
  | cons op ops ih =>
    have h1 := stepOp_alt O C c op
    have h2 := ih (stepOp O C c op).1
    show alternates c.isOpen (notifs ((stepOp O C c op).2 ++ (runOps O C (stepOp O C c op).1 ops).2)) = true ∧
      (runOps O C (stepOp O C c op).1 ops).1.isOpen =
        ((notifs ((stepOp O C c op).2 ++ (runOps O C (stepOp O C c op).1 ops).2)).getLast?).getD c.isOpen
    rw [notifs_append, alternates_append, getLast?_append_getD, ← h1.2, h1.1, h2.1]
    exact ⟨rfl, h2.2⟩


/-! ### the explicit single-operation facts of C09 -/

theorem isOpenEff_now (s : St σo σc) : isOpenEff (now s).2.1 = isOpenEff s.1 := rfl

theorem isOpenEff_of_no_override (c : Circ σo σc) (h1 : c.cfg.forceOpen = false) (h2 : c.cfg.forcedClosed = false) :
    isOpenEff c = c.isOpen := by
  simp [isOpenEff, h1, h2]

theorem isOpenEff_congr {c c' : Circ σo σc} (h1 : c'.cfg = c.cfg) (h2 : c'.isOpen = c.isOpen) :
    isOpenEff c' = isOpenEff c := by
  simp [isOpenEff, h1, h2]

theorem verdictC09_alt_eq (p : Bool) (l : List Bool) : verdictC09.alt p l = alternates p l := by
  induction l generalizing p with
  | nil => rfl
  | cons b r ih => simp [verdictC09.alt, alternates, ih]

theorem manualOpen_noop (c : Circ σo σc) (h : isOpenEff c = true ∨ c.cfg.forcedClosed = true) :
    manualOpen O C c = (now ((c, {}) : St σo σc)).2 := by
  rw [manualOpen_eq]
  unfold openCircuit
  rw [isOpenEff_now]
  show (if c.cfg.forcedClosed = true then _ else if isOpenEff c = true then _ else _) = _
  rcases h with h | h
  · rw [h]; simp
  · rw [h]; simp

theorem manualClose_noop (c : Circ σo σc) (h : isOpenEff c = false ∨ c.cfg.forceOpen = true) :
    manualClose O C c = (now ((c, {}) : St σo σc)).2 := by
  rw [manualClose_eq]
  unfold closeCircuit
  rw [isOpenEff_now]
  show (if (!isOpenEff c) = true then _ else if c.cfg.forceOpen = true then _ else _) = _
  rcases h with h | h
  · rw [h]; simp
  · rw [h]; simp

theorem manualOpen_effective (c : Circ σo σc) (h1 : isOpenEff c = false) (h2 : c.cfg.forcedClosed = false) :
    (manualOpen O C c).2.emits = [.opened c.clock] ∧ (manualOpen O C c).1.isOpen = true := by
  rw [manualOpen_eq]
  unfold openCircuit
  rw [isOpenEff_now]
  show ((if c.cfg.forcedClosed = true then _ else if isOpenEff c = true then _ else _ : St σo σc)).2.emits = _ ∧
    ((if c.cfg.forcedClosed = true then _ else if isOpenEff c = true then _ else _ : St σo σc)).1.isOpen = _
  rw [h1, h2]
  simp [now]

theorem manualClose_effective (c : Circ σo σc) (h1 : isOpenEff c = true) (h2 : c.cfg.forceOpen = false) :
    (manualClose O C c).2.emits = [.closed c.clock] ∧ (manualClose O C c).1.isOpen = false := by
  rw [manualClose_eq]
  unfold closeCircuit
  rw [isOpenEff_now]
  show ((if (!isOpenEff c) = true then _ else if c.cfg.forceOpen = true then _ else _ : St σo σc)).2.emits = _ ∧
    ((if (!isOpenEff c) = true then _ else if c.cfg.forceOpen = true then _ else _ : St σo σc)).1.isOpen = _
  rw [h1, h2]
  simp [now]

end

/-! ### frame facts, fallback cases, refused calls (C01 / C08) -/
section
variable {σo σc : Type} (O : OpenerI σo) (C : CloserI σc)

/-- frame: the per-call invocation records and the gauges are untouched -/
structure Fr (s s' : St σo σc) : Prop where
  runSeen : s'.2.runSeen = s.2.runSeen
  fbArg : s'.2.fbArg = s.2.fbArg
  conc : s'.1.conc = s.1.conc
  concFb : s'.1.concFb = s.1.concFb

theorem Fr.refl (s : St σo σc) : Fr s s := ⟨rfl, rfl, rfl, rfl⟩
theorem Fr.trans {a b c : St σo σc} (h1 : Fr a b) (h2 : Fr b c) : Fr a c :=
  ⟨h2.1.trans h1.1, h2.2.trans h1.2, h2.3.trans h1.3, h2.4.trans h1.4⟩

theorem fr_now (s : St σo σc) : Fr s (now s).2 := ⟨rfl, rfl, rfl, rfl⟩
theorem fr_emitRun (s : St σo σc) (k t d) : Fr s (emitRun O C s k t d) := ⟨rfl, rfl, rfl, rfl⟩
theorem fr_emitFb (s : St σo σc) (k t d) : Fr s (emitFb s k t d) := ⟨rfl, rfl, rfl, rfl⟩
theorem fr_openCircuit (s : St σo σc) (t) : Fr s (openCircuit O C s t) := by
  unfold openCircuit
  repeat' split
  all_goals exact ⟨rfl, rfl, rfl, rfl⟩
theorem fr_attemptToOpen (s : St σo σc) (t) : Fr s (attemptToOpen O C s t) := by
  unfold attemptToOpen
  split
  · exact Fr.refl s
  · split
    · exact Fr.refl s
    · show Fr s (if (O.shouldOpen s.1.opener t).2 = true then _ else _)
      split
      · refine Fr.trans ?_ (fr_openCircuit O C _ t)
        exact ⟨rfl, rfl, rfl, rfl⟩
      · exact ⟨rfl, rfl, rfl, rfl⟩
theorem fr_closeCircuit (s : St σo σc) (t) (force : Bool) : Fr s (closeCircuit O C s t force) := by
  unfold closeCircuit
  split
  · exact Fr.refl s
  · split
    · exact Fr.refl s
    · cases force
      · show Fr s (if (C.shouldClose s.1.closer t).2 = true then _ else _)
        split <;> exact ⟨rfl, rfl, rfl, rfl⟩
      · exact ⟨rfl, rfl, rfl, rfl⟩
theorem fr_allowNewRun (s : St σo σc) (t) : Fr s (allowNewRun C s t).1 := by
  unfold allowNewRun
  repeat' split
  all_goals exact ⟨rfl, rfl, rfl, rfl⟩

section post
variable {O C}
variable {s x : St σo σc}
theorem fr_now' (h : Fr s x) : Fr s (now x).2 := h.trans (fr_now x)
theorem fr_emitRun' {k t d} (h : Fr s x) : Fr s (emitRun O C x k t d) := h.trans (fr_emitRun O C x k t d)
theorem fr_emitFb' {k t d} (h : Fr s x) : Fr s (emitFb x k t d) := h.trans (fr_emitFb x k t d)
theorem fr_openCircuit' {t} (h : Fr s x) : Fr s (openCircuit O C x t) := h.trans (fr_openCircuit O C x t)
theorem fr_attemptToOpen' {t} (h : Fr s x) : Fr s (attemptToOpen O C x t) := h.trans (fr_attemptToOpen O C x t)
theorem fr_closeCircuit' {t f} (h : Fr s x) : Fr s (closeCircuit O C x t f) := h.trans (fr_closeCircuit O C x t f)
theorem fr_allowNewRun' {t} (h : Fr s x) : Fr s (allowNewRun C x t).1 := h.trans (fr_allowNewRun C x t)
end post

macro "fr_auto" : tactic => `(tactic|
  repeat (first
    | exact Fr.refl _ | assumption | apply fr_now' | apply fr_emitRun' | apply fr_emitFb' | apply fr_openCircuit'
    | apply fr_attemptToOpen' | apply fr_closeCircuit' | apply fr_allowNewRun'))

theorem fr_classify (s : St σo σc) (ctx sc ret start) : Fr s (classify O C s ctx sc ret start) := by
  unfold classify
  dsimp only
  repeat' split
  all_goals fr_auto

/-- `allowNewRun` touches only the closer's state -/
theorem allowNewRun_obs (s : St σo σc) (t) : (allowNewRun C s t).1.2 = s.2 := by
  unfold allowNewRun
  repeat' split
  all_goals rfl
theorem allowNewRun_opener (s : St σo σc) (t) : (allowNewRun C s t).1.1.opener = s.1.opener := by
  unfold allowNewRun
  repeat' split
  all_goals rfl
theorem allowNewRun_of_closed (s : St σo σc) (t) (h : isOpenEff s.1 = false) : allowNewRun C s t = (s, true) := by
  unfold allowNewRun
  rw [h]; rfl
theorem allowNewRun_of_forceOpen (s : St σo σc) (t) (h : s.1.cfg.forceOpen = true) : allowNewRun C s t = (s, false) := by
  have : isOpenEff s.1 = true := by simp [isOpenEff, h]
  unfold allowNewRun
  rw [this, h]; rfl
theorem allowNewRun_now (c : Circ σo σc) :
    (allowNewRun C (now ((c, {}) : St σo σc)).2 c.clock).2 = actualAdmission C c := by
  unfold allowNewRun actualAdmission
  rw [isOpenEff_now]
  show (if (!isOpenEff c) = true then _ else if c.cfg.forceOpen = true then _ else _ : St σo σc × Bool).2 = _
  split
  · rfl
  · split <;> rfl


/-! ### the fallback step, case by case -/

theorem fallbackStep_skip (s : St σo σc) (ctx runSc err) (fb : Option Script)
    (h : fb = none ∨ s.1.cfg.fbDisabled = true) : fallbackStep s ctx runSc err fb = (s, .ret (some err)) := by
  cases fb with
  | none => rfl
  | some sc =>
    rcases h with h | h
    · cases h
    · rw [fallbackStep_some, h]; rfl

theorem fallbackStep_throttled (s : St σo σc) (ctx runSc err) (sc : Script) (hd : s.1.cfg.fbDisabled = false)
    (hth : s.1.cfg.fbMaxConc ≥ 0 ∧ s.1.concFb + 1 > s.1.cfg.fbMaxConc) :
    fallbackStep s ctx runSc err (some sc) =
      (({ s.1 with clock := s.1.clock + 1 },
        { s.2 with emits := s.2.emits ++ [.fb .reject s.1.clock 0], readings := s.2.readings ++ [s.1.clock] }),
       .ret (some .concLimit)) := by
  rw [fallbackStep_some, hd]
  dsimp only
  rw [if_neg (by decide), if_pos hth]
  simp [emitFb, now]

theorem fbInvoke_spec (s : St σo σc) (ctx runSc err) (sc : Script) :
    (fbInvoke s ctx runSc err sc).1.2.fbArg = some err ∧
    (fbInvoke s ctx runSc err sc).1.2.runSeen = s.2.runSeen ∧
    runEvents (fbInvoke s ctx runSc err sc).1.2.emits = runEvents s.2.emits ∧
    (fbInvoke s ctx runSc err sc).2 =
      (match sc.act with
       | .panic v => .panic v
       | _ => .ret (fbValue { ctx := ctx, run := runSc, fb := some sc } (if s.2.runSeen.isSome then 1 else 0))) := by
  have key : ∀ cancel : Bool,
      (match (match runSc with
          | some r => if s.2.runSeen.isSome then ctxErrAfter ctx r else ctx.err
          | none => ctx.err) with
        | some e => some e
        | none => if cancel then some CtxErr.canceled else none) =
      (match (match runSc with
          | some r => if (if s.2.runSeen.isSome then 1 else 0) = 0 then ctx.err else ctxErrAfter ctx r
          | none => ctx.err) with
        | some e => some e
        | none => if cancel then some CtxErr.canceled else none) := by
    intro cancel
    cases runSc with
    | none => rfl
    | some r => cases h : s.2.runSeen <;> simp
  unfold fbInvoke
  dsimp only
  cases hact : sc.act with
  | panic v => exact ⟨rfl, rfl, rfl, rfl⟩
  | ret e =>
    dsimp only
    refine ⟨?_, ?_, ?_, ?_⟩
    · split <;> rfl
    · split <;> rfl
    · split <;> simp [emitFb, now]
    · simp only [fbValue, Res.ret.injEq]
      exact congrArg (actValue sc) (key sc.cancelCaller)
  | retCtxErr =>
    dsimp only
    refine ⟨?_, ?_, ?_, ?_⟩
    · split <;> rfl
    · split <;> rfl
    · split <;> simp [emitFb, now]
    · simp only [fbValue, Res.ret.injEq]
      exact congrArg (actValue sc) (key sc.cancelCaller)

theorem fallbackStep_invoked (s : St σo σc) (ctx runSc err) (sc : Script) (hd : s.1.cfg.fbDisabled = false)
    (hth : ¬ (s.1.cfg.fbMaxConc ≥ 0 ∧ s.1.concFb + 1 > s.1.cfg.fbMaxConc)) :
    (fallbackStep s ctx runSc err (some sc)).1.2.fbArg = some err ∧
    (fallbackStep s ctx runSc err (some sc)).2 =
      (match sc.act with
       | .panic v => .panic v
       | _ => .ret (fbValue { ctx := ctx, run := runSc, fb := some sc } (if s.2.runSeen.isSome then 1 else 0))) := by
  rw [fallbackStep_some, hd]
  dsimp only
  rw [if_neg (by decide), if_neg hth]
  have h := fbInvoke_spec (({ s.1 with concFb := s.1.concFb + 1 }, s.2) : St σo σc) ctx runSc err sc
  exact ⟨h.1, h.2.2.2⟩

/-- what no fallback step ever touches -/
theorem fallbackStep_frame (s : St σo σc) (ctx runSc err fb) :
    (fallbackStep s ctx runSc err fb).1.2.runSeen = s.2.runSeen ∧
    runEvents (fallbackStep s ctx runSc err fb).1.2.emits = runEvents s.2.emits := by
  cases fb with
  | none => exact ⟨rfl, rfl⟩
  | some sc =>
    rw [fallbackStep_some]
    split
    · exact ⟨rfl, rfl⟩
    · dsimp only
      split
      · simp [emitFb, now]
      · have h := fbInvoke_spec (({ s.1 with concFb := s.1.concFb + 1 }, s.2) : St σo σc) ctx runSc err sc
        exact ⟨h.2.1, h.2.2.1⟩


/-! ### refused calls -/

/-- the state in which a call refused because of the open state reaches the fallback step -/
def shedState (c : Circ σo σc) : St σo σc :=
  emitRun O C (allowNewRun C (now ((c, {}) : St σo σc)).2 c.clock).1 .shortCircuit c.clock 0

/-- the state in which a call vetoed by the opener reaches the fallback step -/
def vetoState (c : Circ σo σc) : St σo σc :=
  ({ (allowNewRun C (now ((c, {}) : St σo σc)).2 c.clock).1.1 with opener := (O.prevent c.opener c.clock).1 },
   (allowNewRun C (now ((c, {}) : St σo σc)).2 c.clock).1.2)

theorem shedState_obs (c : Circ σo σc) :
    (shedState O C c).2 = { emits := [.run .shortCircuit c.clock 0], readings := [c.clock] } := by
  simp [shedState, emitRun, allowNewRun_obs, now]

theorem vetoState_obs (c : Circ σo σc) : (vetoState O C c).2 = { readings := [c.clock] } := by
  simp [vetoState, allowNewRun_obs, now]

theorem tr_shedState (c : Circ σo σc) : Tr ((c, {}) : St σo σc) (shedState O C c) :=
  tr_emitRun' (tr_allowNewRun' (tr_now _))
theorem fr_shedState (c : Circ σo σc) : Fr ((c, {}) : St σo σc) (shedState O C c) :=
  fr_emitRun' (fr_allowNewRun' (fr_now _))
theorem tr_vetoState (c : Circ σo σc) : Tr ((c, {}) : St σo σc) (vetoState O C c) :=
  (tr_allowNewRun' (tr_now _)).trans (Tr.of_eq rfl rfl rfl)
theorem fr_vetoState (c : Circ σo σc) : Fr ((c, {}) : St σo σc) (vetoState O C c) :=
  (fr_allowNewRun' (fr_now _)).trans ⟨rfl, rfl, rfl, rfl⟩

theorem runStep_shed (c : Circ σo σc) (ctx : CallerCtx) (sc : Script) (h : actualAdmission C c = false) :
    runStep O C (c, {}) ctx (some sc) = (shedState O C c, .ret (some .circuitOpen)) := by
  have ha := allowNewRun_now C c
  rw [h] at ha
  rw [runStep_some]
  show (if (!(allowNewRun C (now ((c, {}) : St σo σc)).2 c.clock).2) = true then _ else _) = _
  rw [ha]
  rfl

theorem runStep_admitted (c : Circ σo σc) (ctx : CallerCtx) (sc : Script) (h : actualAdmission C c = true) :
    runStep O C (c, {}) ctx (some sc) =
      runAdmitted O C (allowNewRun C (now ((c, {}) : St σo σc)).2 c.clock).1 ctx sc c.clock := by
  have ha := allowNewRun_now C c
  rw [h] at ha
  rw [runStep_some]
  show (if (!(allowNewRun C (now ((c, {}) : St σo σc)).2 c.clock).2) = true then _ else _) = _
  rw [ha]
  rfl

theorem runStep_veto (c : Circ σo σc) (ctx : CallerCtx) (sc : Script) (h : actualAdmission C c = true)
    (hp : actualPrevent O c = true) :
    runStep O C (c, {}) ctx (some sc) = (vetoState O C c, .ret (some .circuitOpen)) := by
  rw [runStep_admitted O C c ctx sc h]
  unfold runAdmitted
  dsimp only
  have ho : (allowNewRun C (now ((c, {}) : St σo σc)).2 c.clock).1.1.opener = c.opener := allowNewRun_opener C _ _
  rw [ho]
  have hp' : (O.prevent c.opener c.clock).2 = true := hp
  rw [hp']
  rfl

theorem execute_rejected (c : Circ σo σc) (hd : c.cfg.disabled = false) (ctx : CallerCtx) (run fb : Option Script)
    (S : St σo σc) (h : runStep O C (c, {}) ctx run = (S, .ret (some .circuitOpen))) :
    execute O C c ctx run fb =
      ((fallbackStep S ctx run .circuitOpen fb).1.1, (fallbackStep S ctx run .circuitOpen fb).1.2,
       (fallbackStep S ctx run .circuitOpen fb).2) := by
  rw [execute_enabled O C c hd, h]
  rfl

end

theorem verdictC01_of (cfg : LiveCfg) (adm pv : Bool) (op : ExecOp) (o : ExecObs)
    (h0 : o.runCalls = 0)
    (hres : (o.res = .ret (some .circuitOpen) ∧ o.fbCalls = 0) ∨
            (o.res = .ret (some .concLimit) ∧ o.fbCalls = 0 ∧ op.fb.isSome = true ∧ cfg.fbMaxConc = 0) ∨
            (o.fbCalls = 1 ∧ o.fbArg = some .circuitOpen ∧ ((∃ v, o.res = .panic v) ∨ o.res = .ret (fbValue op 0))))
    (hev : if adm = false then (runEvents o.emits).map (·.1) = [.shortCircuit] else runEvents o.emits = []) :
    verdictC01 cfg (some adm) pv op o = none := by
  unfold verdictC01
  split
  · rfl
  · dsimp only
    split
    · rfl
    · rw [if_neg (by simp [h0])]
      have hfin : (if (some adm == some false) = true then
            if (List.map (fun x => x.fst) (runEvents o.emits) == [Kind.shortCircuit]) = true then none
            else some "open-state rejection must record exactly one short-circuit event"
          else if (runEvents o.emits).isEmpty = true then none else some "vetoed call recorded a run event") = none := by
        cases adm
        · simpa using hev
        · simpa using hev
      rcases hres with ⟨h1, h2⟩ | ⟨h1, h2, h3, h4⟩ | ⟨h1, h2, ⟨v, h3⟩ | h3⟩
      · simpa [h1, h2] using hfin
      · simpa [h1, h2, h3, h4, throttled] using hfin
      · simpa [h1, h2, h3] using hfin
      · rw [h3, h0]
        cases hv : fbValue op 0 with
        | none => simpa [h1, h2] using hfin
        | some e => cases e <;> simpa [h1, h2] using hfin

section
variable {σo σc : Type} (O : OpenerI σo) (C : CloserI σc)

/-- C01 for a call that reaches the fallback step refused, in a state `S` with nothing invoked yet -/
theorem c01_core (c : Circ σo σc) (S : St σo σc) (hS1 : S.2.runSeen = none) (hS2 : S.2.fbArg = none)
    (hS3 : S.1.concFb = 0) (hS4 : S.1.cfg = c.cfg) (adm pv : Bool) (op : ExecOp)
    (hev : if adm = false then (runEvents S.2.emits).map (·.1) = [.shortCircuit] else runEvents S.2.emits = []) :
    verdictC01 c.cfg (some adm) pv op
      (mkObs (fallbackStep S op.ctx op.run .circuitOpen op.fb).1.1 (fallbackStep S op.ctx op.run .circuitOpen op.fb).1.2
        (fallbackStep S op.ctx op.run .circuitOpen op.fb).2 op) = none := by
  have hfr := fallbackStep_frame S op.ctx op.run .circuitOpen op.fb
  apply verdictC01_of
  · show (if (fallbackStep S op.ctx op.run .circuitOpen op.fb).1.2.runSeen.isSome = true then 1 else 0) = 0
    rw [hfr.1, hS1]; rfl
  · show ((fallbackStep S op.ctx op.run .circuitOpen op.fb).2 = _ ∧
        (if (fallbackStep S op.ctx op.run .circuitOpen op.fb).1.2.fbArg.isSome = true then 1 else 0) = 0) ∨
      ((fallbackStep S op.ctx op.run .circuitOpen op.fb).2 = _ ∧
        (if (fallbackStep S op.ctx op.run .circuitOpen op.fb).1.2.fbArg.isSome = true then 1 else 0) = 0 ∧ _ ∧ _) ∨
      ((if (fallbackStep S op.ctx op.run .circuitOpen op.fb).1.2.fbArg.isSome = true then 1 else 0) = 1 ∧
        (fallbackStep S op.ctx op.run .circuitOpen op.fb).1.2.fbArg = _ ∧
        ((∃ v, (fallbackStep S op.ctx op.run .circuitOpen op.fb).2 = .panic v) ∨
          (fallbackStep S op.ctx op.run .circuitOpen op.fb).2 = _))
    by_cases hskip : op.fb = none ∨ S.1.cfg.fbDisabled = true
    · left
      rw [fallbackStep_skip S _ _ _ _ hskip, hS2]
      exact ⟨rfl, rfl⟩
    · have hfb : ∃ sc, op.fb = some sc := by
        cases h : op.fb with
        | none => exact absurd (Or.inl h) hskip
        | some sc => exact ⟨sc, rfl⟩
      obtain ⟨sc, hsc⟩ := hfb
      have hdis : S.1.cfg.fbDisabled = false := by
        cases h : S.1.cfg.fbDisabled with
        | false => rfl
        | true => exact absurd (Or.inr h) hskip
      by_cases hth : S.1.cfg.fbMaxConc ≥ 0 ∧ S.1.concFb + 1 > S.1.cfg.fbMaxConc
      · right; left
        rw [hsc, fallbackStep_throttled S _ _ _ sc hdis hth]
        refine ⟨rfl, ?_, rfl, ?_⟩
        · show (if S.2.fbArg.isSome = true then 1 else 0) = 0
          rw [hS2]; rfl
        · rw [← hS4]; rw [hS3] at hth; omega
      · right; right
        have hinv := fallbackStep_invoked S op.ctx op.run .circuitOpen sc hdis hth
        rw [hsc, hinv.1]
        refine ⟨rfl, rfl, ?_⟩
        rw [hinv.2, hS1]
        have hop : ({ ctx := op.ctx, run := op.run, fb := some sc } : ExecOp) = op := by
          cases op; simp_all
        rw [hop]
        cases sc.act with
        | panic v => exact Or.inl ⟨v, rfl⟩
        | ret e => exact Or.inr rfl
        | retCtxErr => exact Or.inr rfl
  · show (if adm = false then (runEvents (fallbackStep S op.ctx op.run .circuitOpen op.fb).1.2.emits).map (·.1) = [.shortCircuit]
      else runEvents (fallbackStep S op.ctx op.run .circuitOpen op.fb).1.2.emits = [])
    rw [hfr.2]
    exact hev

end

/-! ### C08: verdict under each override, and the model facts feeding it -/

theorem verdictC08_forceOpen (cfg : LiveCfg) (hd : cfg.disabled = false) (hfo : cfg.forceOpen = true)
    (ob pv : Bool) (op : ExecOp) (o : ExecObs) (h1 : ob = true) (h2 : o.openAfter = true)
    (h3 : op.run.isSome = true → o.runCalls = 0) : verdictC08 cfg ob pv op o = none := by
  unfold verdictC08
  simp [hd, hfo, h1, h2]
  exact h3

theorem verdictC08_forcedClosed (cfg : LiveCfg) (hd : cfg.disabled = false) (hfo : cfg.forceOpen = false)
    (hfc : cfg.forcedClosed = true) (ob pv : Bool) (op : ExecOp) (o : ExecObs) (h1 : ob = false)
    (h2 : o.openAfter = false) (h3 : true ∉ notifs o.emits)
    (h4 : op.run.isSome = true → cfg.maxConc ≠ 0 → pv = false → o.runCalls ≠ 0) :
    verdictC08 cfg ob pv op o = none := by
  unfold verdictC08
  simp [hd, hfo, hfc, h1, h2, h3, throttled]
  intro a b c
  cases hpv : pv with
  | true => rfl
  | false => exact absurd b (h4 a c hpv)

theorem verdictC08_disabled (cfg : LiveCfg) (hd : cfg.disabled = true) (ob pv : Bool) (op : ExecOp) (o : ExecObs)
    (h : ∀ sc, op.run = some sc → o.runCalls = 1 ∧ (∃ s, o.seen = some s ∧ s.sameAsCaller = true) ∧ o.fbCalls = 0 ∧
      o.emits = [] ∧ o.res = (match sc.act with | .panic v => .panic v | _ => .ret (runValue op))) :
    verdictC08 cfg ob pv op o = none := by
  unfold verdictC08
  rw [if_pos hd]
  cases hr : op.run with
  | none => rfl
  | some sc =>
    obtain ⟨h1, ⟨s, h2, h2'⟩, h3, h4, h5⟩ := h sc hr
    dsimp only
    rw [if_neg (by simp [h1]), h2]
    dsimp only
    rw [if_neg (by simp [h2']), if_neg (by simp [h3]), if_neg (by simp [h4])]
    rw [if_neg]
    rw [h5]
    unfold runPanics
    rw [hr]
    rcases sc with ⟨adv, cc, act⟩
    cases act <;> simp

section
variable {σo σc : Type} (O : OpenerI σo) (C : CloserI σc)

theorem actualAdmission_forceOpen (c : Circ σo σc) (h : c.cfg.forceOpen = true) : actualAdmission C c = false := by
  simp [actualAdmission, isOpenEff, h]

theorem actualAdmission_of_closed (c : Circ σo σc) (h : isOpenEff c = false) : actualAdmission C c = true := by
  simp [actualAdmission, h]

theorem notifs_no_true (l : List Emit) (h : ∀ t, Emit.opened t ∉ l) : true ∉ notifs l := by
  intro hm
  unfold notifs at hm
  rw [List.mem_filterMap] at hm
  obtain ⟨e, he, hv⟩ := hm
  cases e with
  | opened t => exact h t he
  | closed t => simp at hv
  | run k t d => simp at hv
  | fb k t d => simp at hv

/-- the run function's invocation record after `execute` is the one left by the run step -/
theorem execute_runSeen (c : Circ σo σc) (hd : c.cfg.disabled = false) (ctx : CallerCtx) (run fb : Option Script) :
    (execute O C c ctx run fb).2.1.runSeen = (runStep O C (c, {}) ctx run).1.2.runSeen := by
  rw [execute_enabled O C c hd]
  split
  · rfl
  · split
    · rfl
    · exact (fallbackStep_frame _ _ _ _ _).1
  · rfl

theorem execute_shed_runSeen (c : Circ σo σc) (hd : c.cfg.disabled = false) (ctx : CallerCtx) (sc : Script)
    (fb : Option Script) (h : actualAdmission C c = false) :
    (execute O C c ctx (some sc) fb).2.1.runSeen = none := by
  rw [execute_runSeen O C c hd, runStep_shed O C c ctx sc h]
  show (shedState O C c).2.runSeen = none
  rw [shedState_obs]

theorem runInvoke_runSeen (s : St σo σc) (ctx : CallerCtx) (sc : Script) (start : Int) :
    (runInvoke O C s ctx sc start).1.2.runSeen.isSome = true := by
  unfold runInvoke
  dsimp only
  split
  · rfl
  · show (classify O C _ ctx sc _ start).2.runSeen.isSome = true
    rw [(fr_classify O C _ ctx sc _ start).runSeen]
    rfl

theorem runAdmitted_runSeen (s : St σo σc) (ctx : CallerCtx) (sc : Script) (start : Int)
    (hp : (O.prevent s.1.opener start).2 = false)
    (hth : ¬ (s.1.cfg.maxConc ≥ 0 ∧ s.1.conc + 1 > s.1.cfg.maxConc)) :
    (runAdmitted O C s ctx sc start).1.2.runSeen.isSome = true := by
  unfold runAdmitted
  dsimp only
  rw [hp, if_neg (by decide), if_neg hth]
  exact runInvoke_runSeen O C _ ctx sc start

/-- an admitted, not vetoed, not throttled call runs the function -/
theorem execute_invoked_runSeen (c : Circ σo σc) (hd : c.cfg.disabled = false) (ctx : CallerCtx) (sc : Script)
    (fb : Option Script) (hadm : actualAdmission C c = true) (hpv : actualPrevent O c = false)
    (hth : ¬ (c.cfg.maxConc ≥ 0 ∧ c.conc + 1 > c.cfg.maxConc)) :
    (execute O C c ctx (some sc) fb).2.1.runSeen.isSome = true := by
  rw [execute_runSeen O C c hd, runStep_admitted O C c ctx sc hadm]
  have htr : Tr ((c, {}) : St σo σc) (allowNewRun C (now ((c, {}) : St σo σc)).2 c.clock).1 := tr_allowNewRun' (tr_now _)
  have hfr : Fr ((c, {}) : St σo σc) (allowNewRun C (now ((c, {}) : St σo σc)).2 c.clock).1 := fr_allowNewRun' (fr_now _)
  apply runAdmitted_runSeen
  · rw [allowNewRun_opener]; exact hpv
  · rw [htr.cfg, hfr.conc]; exact hth

end
end CM

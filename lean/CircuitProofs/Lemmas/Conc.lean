import CircuitModel.Conc.Gauge
namespace CM.Conc
end CM.Conc

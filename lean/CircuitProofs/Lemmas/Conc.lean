import CircuitModel.Conc.Gauge
namespace CM.Conc
open CM.Conc.Gauge

/-! ### generic list facts -/

theorem countP_set_add {α : Type} (p : α → Bool) (l : List α) (i : Nat) (a b : α) (h : l[i]? = some a) :
    (l.set i b).countP p + (if p a then 1 else 0) = l.countP p + (if p b then 1 else 0) := by
  induction l generalizing i with
  | nil => simp at h
  | cons x xs ih =>
    cases i with
    | zero =>
      simp at h
      subst h
      simp only [List.set_cons_zero, List.countP_cons]
      omega
    | succ j =>
      simp at h
      have := ih j h
      simp only [List.set_cons_succ, List.countP_cons]
      omega

theorem mem_set_cases {α : Type} (l : List α) (i : Nat) (b x : α) (h : x ∈ l.set i b) : x ∈ l ∨ x = b :=
  List.mem_or_eq_of_mem_set h

theorem length_filter_not {α : Type} (p : α → Bool) (l : List α) :
    (l.filter fun x => !p x).length + l.countP p = l.length := by
  induction l with
  | nil => rfl
  | cons x xs ih =>
    simp only [List.filter_cons, List.countP_cons, List.length_cons]
    cases p x <;> simp <;> omega

theorem countP_filter_not {α : Type} (q p : α → Bool) (l : List α) :
    (l.filter fun x => !p x).countP q + l.countP (fun x => q x && p x) = l.countP q := by
  induction l with
  | nil => rfl
  | cons x xs ih =>
    simp only [List.filter_cons, List.countP_cons]
    cases hp : p x <;> cases hq : q x <;> simp [hq] <;> omega

theorem countP_or_split {α : Type} (q p : α → Bool) (l : List α) :
    l.countP (fun x => q x || p x) = l.countP q + l.countP (fun x => !q x && p x) := by
  induction l with
  | nil => rfl
  | cons x xs ih =>
    simp only [List.countP_cons, ih]
    cases hp : p x <;> cases hq : q x <;> simp <;> omega

theorem countP_and_split {α : Type} (q p : α → Bool) (l : List α) :
    l.countP p = l.countP (fun x => q x && p x) + l.countP (fun x => !q x && p x) := by
  induction l with
  | nil => rfl
  | cons x xs ih =>
    simp only [List.countP_cons, ih]
    cases hp : p x <;> cases hq : q x <;> simp <;> omega

theorem getElem?_set_self_of {α : Type} {l : List α} {i : Nat} {a : α} (b : α) (h : l[i]? = some a) :
    (l.set i b)[i]? = some b := by
  have hi : i < l.length := by
    rcases Nat.lt_or_ge i l.length with h' | h'
    · exact h'
    · rw [List.getElem?_eq_none h'] at h; cases h
  exact List.getElem?_set_self hi

theorem region_filter_length (r : List Entry) (i : Nat) :
    (r.filter (·.tid ≠ i)).length + r.countP (fun e => e.tid == i) = r.length := by
  have : (fun e : Entry => decide (e.tid ≠ i)) = fun e => !(e.tid == i) := by
    funext e; by_cases h : e.tid = i <;> simp [h]
  rw [this]
  exact length_filter_not _ r

theorem region_filter_countP (q : Entry → Bool) (r : List Entry) (i : Nat) :
    (r.filter (·.tid ≠ i)).countP q + r.countP (fun e => q e && e.tid == i) = r.countP q := by
  have : (fun e : Entry => decide (e.tid ≠ i)) = fun e => !(e.tid == i) := by
    funext e; by_cases h : e.tid = i <;> simp [h]
  rw [this]
  exact countP_filter_not q _ r

/-! ### the ordering fact on the ghost region -/

/-- the `j`-th entry (0-based, in increment order) observed at least `k + j + 1` -/
def Good : Nat → List Entry → Prop
  | _, [] => True
  | k, e :: l => ((k : Int) + 1 ≤ e.obs) ∧ Good (k + 1) l

theorem Good.anti {k k' : Nat} {l : List Entry} (h : Good k l) (hk : k' ≤ k) : Good k' l := by
  induction l generalizing k k' with
  | nil => trivial
  | cons e l ih =>
    obtain ⟨h1, h2⟩ := h
    exact ⟨by omega, ih h2 (by omega)⟩

theorem Good.filter {k : Nat} {l : List Entry} (p : Entry → Bool) (h : Good k l) : Good k (l.filter p) := by
  induction l generalizing k with
  | nil => trivial
  | cons e l ih =>
    obtain ⟨h1, h2⟩ := h
    simp only [List.filter_cons]
    split
    · exact ⟨h1, ih h2⟩
    · exact ih (h2.anti (by omega))

theorem Good.map {k : Nat} {l : List Entry} (f : Entry → Entry) (hf : ∀ e, (f e).obs = e.obs) (h : Good k l) :
    Good k (l.map f) := by
  induction l generalizing k with
  | nil => trivial
  | cons e l ih =>
    obtain ⟨h1, h2⟩ := h
    exact ⟨by rw [hf]; exact h1, ih h2⟩

theorem Good.append_one {k : Nat} {l : List Entry} {e : Entry} (h : Good k l)
    (he : (k : Int) + l.length + 1 ≤ e.obs) : Good k (l ++ [e]) := by
  induction l generalizing k with
  | nil => exact ⟨by simpa using he, trivial⟩
  | cons x l ih =>
    obtain ⟨h1, h2⟩ := h
    refine ⟨h1, ih h2 ?_⟩
    simp only [List.length_cons] at he
    omega

theorem Good.bound {k : Nat} {l : List Entry} {m : Int} (h : Good k l)
    (hr : ∀ e ∈ l, e.running = true → e.obs ≤ m) :
    l.countP (·.running) = 0 ∨ (k : Int) + (l.countP (·.running) : Nat) ≤ m := by
  induction l generalizing k with
  | nil => left; rfl
  | cons e l ih =>
    obtain ⟨h1, h2⟩ := h
    have ih' := ih h2 (fun e he => hr e (List.mem_cons_of_mem _ he))
    have he := hr e (List.mem_cons_self ..)
    simp only [List.countP_cons]
    cases hrun : e.running with
    | false =>
      simp only [Bool.false_eq_true, if_false, Nat.add_zero]
      rcases ih' with h0 | h0
      · left; exact h0
      · right; omega
    | true =>
      right
      have := he hrun
      simp only [if_true]
      rcases ih' with h0 | h0
      · rw [h0]; omega
      · omega

/-! ### the gauge invariant -/

/-- the phases between a caller's increment and its decrement -/
def inRegion : Local → Bool
  | .incd _ | .running | .rejecting | .leaving => true
  | _ => false

/-- inside callers that have not yet decremented -/
def inside : Local → Bool
  | .running | .leaving => true
  | _ => false

/-- consistency of a region entry with the local state of its thread -/
def Match (m : Int) (e : Entry) : Local → Prop
  | .incd obs => e.obs = obs ∧ e.running = false
  | .running => e.running = true ∧ (0 ≤ m → e.obs ≤ m)
  | .rejecting => e.running = false
  | .leaving => e.running = true ∧ (0 ≤ m → e.obs ≤ m)
  | _ => False

structure GInv (m : Int) (s : Shared) (ls : List Local) : Prop where
  lim : s.limit = m
  gauge : s.gauge = s.region.length
  good : Good 0 s.region
  mtch : ∀ e ∈ s.region, ∃ l, ls[e.tid]? = some l ∧ Match m e l
  once : ∀ i l, ls[i]? = some l → s.region.countP (fun e => e.tid == i) = if inRegion l then 1 else 0
  len : s.region.length = ls.countP inRegion
  adm : s.region.countP (·.running) = ls.countP inside

theorem GInv.init (m : Int) (n : Nat) : GInv m { limit := m } (List.replicate n .idle) where
  lim := rfl
  gauge := rfl
  good := trivial
  mtch := by simp
  once := by
    intro i l h
    have : l = .idle := by
      have := List.mem_of_getElem? h
      exact List.eq_of_mem_replicate this
    subst this
    rfl
  len := by
    simp [List.countP_replicate, inRegion]
  adm := by
    simp [List.countP_replicate, inside]

/-- every entry of thread `i` matches the local state of thread `i` -/
theorem GInv.mtch_at {m : Int} {s : Shared} {ls : List Local} (h : GInv m s ls) {i : Nat} {l0 : Local}
    (hi : ls[i]? = some l0) {e : Entry} (he : e ∈ s.region) (ht : e.tid = i) : Match m e l0 := by
  obtain ⟨l, hl, hm⟩ := h.mtch e he
  rw [ht, hi] at hl
  cases hl
  exact hm

/-- the number of inside entries of thread `i` -/
theorem GInv.adm_at {m : Int} {s : Shared} {ls : List Local} (h : GInv m s ls) {i : Nat} {l0 : Local}
    (hi : ls[i]? = some l0) :
    s.region.countP (fun e => e.running && e.tid == i) = if inside l0 then 1 else 0 := by
  have hm := fun e he ht => h.mtch_at hi (e := e) he ht
  have ho := h.once i l0 hi
  cases l0 with
  | idle | finished b =>
    simp only [inside, Bool.false_eq_true, if_false]
    rw [List.countP_eq_zero]
    intro e he
    by_cases ht : e.tid = i
    · exact (hm e he ht).elim
    · simp [ht]
  | incd obs =>
    simp only [inside, Bool.false_eq_true, if_false]
    rw [List.countP_eq_zero]
    intro e he
    by_cases ht : e.tid = i
    · have := (hm e he ht).2
      simp [this]
    · simp [ht]
  | rejecting =>
    simp only [inside, Bool.false_eq_true, if_false]
    rw [List.countP_eq_zero]
    intro e he
    by_cases ht : e.tid = i
    · have : e.running = false := hm e he ht
      simp [this]
    · simp [ht]
  | running =>
    simp only [inside, if_true]
    simp only [inRegion, if_true] at ho
    rw [← ho]
    apply List.countP_congr
    intro e he
    by_cases ht : e.tid = i
    · have := (hm e he ht).1
      simp [this]
    · simp [ht]
  | leaving =>
    simp only [inside, if_true]
    simp only [inRegion, if_true] at ho
    rw [← ho]
    apply List.countP_congr
    intro e he
    by_cases ht : e.tid = i
    · have := (hm e he ht).1
      simp [this]
    · simp [ht]

/-- a purely local transition that keeps the phase class (incd → rejecting, running → leaving) -/
theorem GInv.local_step {m : Int} {s : Shared} {ls : List Local} (h : GInv m s ls) {i : Nat} {l0 l1 : Local}
    (hi : ls[i]? = some l0) (hr : inRegion l1 = inRegion l0) (ha : inside l1 = inside l0)
    (hm : ∀ e, Match m e l0 → Match m e l1) : GInv m s (ls.set i l1) where
  lim := h.lim
  gauge := h.gauge
  good := h.good
  mtch := by
    intro e he
    by_cases ht : e.tid = i
    · refine ⟨l1, ?_, hm e (h.mtch_at hi he ht)⟩
      rw [ht]; exact getElem?_set_self_of l1 hi
    · obtain ⟨l, hl, hml⟩ := h.mtch e he
      refine ⟨l, ?_, hml⟩
      rw [List.getElem?_set_ne (fun h' => ht h'.symm)]; exact hl
  once := by
    intro j l hj
    by_cases hji : j = i
    · subst hji
      rw [getElem?_set_self_of l1 hi] at hj
      cases hj
      rw [hr]; exact h.once j l0 hi
    · rw [List.getElem?_set_ne (fun h' => hji h'.symm)] at hj
      exact h.once j l hj
  len := by
    have := countP_set_add inRegion ls i l0 l1 hi
    rw [hr] at this
    rw [h.len]; omega
  adm := by
    have := countP_set_add inside ls i l0 l1 hi
    rw [ha] at this
    rw [h.adm]; omega

/-- idle → incd: the increment -/
theorem GInv.enter_step {m : Int} {s : Shared} {ls : List Local} (h : GInv m s ls) {i : Nat}
    (hi : ls[i]? = some .idle) :
    GInv m { s with gauge := s.gauge + 1,
                    region := s.region ++ [{ tid := i, obs := s.gauge + 1, running := false }] }
      (ls.set i (.incd (s.gauge + 1))) where
  lim := h.lim
  gauge := by
    simp only [List.length_append, List.length_singleton]
    rw [h.gauge]; omega
  good := by
    apply h.good.append_one
    simp only
    rw [h.gauge]; omega
  mtch := by
    intro e he
    simp only [List.mem_append, List.mem_singleton] at he
    rcases he with he | he
    · have ht : e.tid ≠ i := fun ht => (h.mtch_at hi he ht).elim
      obtain ⟨l, hl, hml⟩ := h.mtch e he
      refine ⟨l, ?_, hml⟩
      rw [List.getElem?_set_ne (fun h' => ht h'.symm)]; exact hl
    · subst he
      exact ⟨_, getElem?_set_self_of _ hi, rfl, rfl⟩
  once := by
    intro j l hj
    simp only [List.countP_append, List.countP_singleton]
    by_cases hji : j = i
    · subst hji
      rw [getElem?_set_self_of _ hi] at hj
      cases hj
      have := h.once j .idle hi
      simp [inRegion] at this ⊢
      exact this
    · rw [List.getElem?_set_ne (fun h' => hji h'.symm)] at hj
      have : ((i == j) = true) = False := by simp; exact fun h' => hji h'.symm
      simp only [this, if_false, Nat.add_zero]
      exact h.once j l hj
  len := by
    have := countP_set_add inRegion ls i .idle (.incd (s.gauge + 1)) hi
    simp [inRegion] at this
    simp only [List.length_append, List.length_singleton]
    rw [h.len]; omega
  adm := by
    have := countP_set_add inside ls i .idle (.incd (s.gauge + 1)) hi
    simp [inside] at this
    simp only [List.countP_append, List.countP_singleton]
    rw [h.adm]; simp [this]

/-- incd → running: granting -/
theorem GInv.grant_step {m : Int} {s : Shared} {ls : List Local} (h : GInv m s ls) {i : Nat} {obs : Int}
    (hi : ls[i]? = some (.incd obs)) (hlim : ¬ (s.limit ≥ 0 ∧ obs > s.limit)) :
    GInv m { s with region := s.region.map fun e => if e.tid = i then { e with running := true } else e }
      (ls.set i .running) where
  lim := h.lim
  gauge := by
    simp only [List.length_map]; exact h.gauge
  good := by
    apply h.good.map
    intro e; split <;> rfl
  mtch := by
    intro e' he'
    simp only [List.mem_map] at he'
    obtain ⟨e, he, rfl⟩ := he'
    by_cases ht : e.tid = i
    · simp only [ht, if_true]
      refine ⟨_, getElem?_set_self_of _ hi, rfl, ?_⟩
      have := (h.mtch_at hi he ht).1
      have hl := h.lim
      simp only
      intro hm0
      omega
    · simp only [ht, if_false]
      obtain ⟨l, hl, hml⟩ := h.mtch e he
      refine ⟨l, ?_, hml⟩
      rw [List.getElem?_set_ne (fun h' => ht h'.symm)]; exact hl
  once := by
    intro j l hj
    have hc : (s.region.map fun e => if e.tid = i then { e with running := true } else e).countP
        (fun e => e.tid == j) = s.region.countP (fun e => e.tid == j) := by
      rw [List.countP_map]
      apply List.countP_congr
      intro e _
      simp only [Function.comp]
      split <;> rfl
    simp only
    rw [hc]
    by_cases hji : j = i
    · subst hji
      rw [getElem?_set_self_of _ hi] at hj
      cases hj
      have := h.once j _ hi
      simpa [inRegion] using this
    · rw [List.getElem?_set_ne (fun h' => hji h'.symm)] at hj
      exact h.once j l hj
  len := by
    have := countP_set_add inRegion ls i _ .running hi
    simp [inRegion] at this
    simp only [List.length_map]
    rw [h.len]; omega
  adm := by
    have h1 := countP_set_add inside ls i _ .running hi
    simp [inside] at h1
    have h2 := h.adm_at hi
    have hf : inside (.incd obs) = false := rfl
    rw [hf] at h2
    simp only [Bool.false_eq_true, if_false] at h2
    have h3 := h.once i _ hi
    have hf' : inRegion (.incd obs) = true := rfl
    rw [hf'] at h3
    simp only [if_true] at h3
    have h4 := countP_and_split (fun e : Entry => e.running) (fun e => e.tid == i) s.region
    have h5 := countP_or_split (fun e : Entry => e.running) (fun e => e.tid == i) s.region
    have hc : (s.region.map fun e => if e.tid = i then { e with running := true } else e).countP
        (fun e => e.running) = s.region.countP (fun e => e.running || e.tid == i) := by
      rw [List.countP_map]
      apply List.countP_congr
      intro e _
      simp only [Function.comp]
      by_cases ht : e.tid = i <;> simp [ht]
    simp only
    rw [hc, h5]
    have := h.adm
    omega

/-- rejecting / leaving → finished: the decrement -/
theorem GInv.exit_step {m : Int} {s : Shared} {ls : List Local} (h : GInv m s ls) {i : Nat} {l0 : Local} (b : Bool)
    (hi : ls[i]? = some l0) (hr : inRegion l0 = true) :
    GInv m { s with gauge := s.gauge - 1, region := s.region.filter (·.tid ≠ i) } (ls.set i (.finished b)) where
  lim := h.lim
  gauge := by
    have h1 := region_filter_length s.region i
    have h2 := h.once i l0 hi
    simp only [hr, if_true] at h2
    simp only
    rw [h.gauge]; omega
  good := h.good.filter _
  mtch := by
    intro e he
    simp only [List.mem_filter, decide_eq_true_eq] at he
    obtain ⟨he, ht⟩ := he
    obtain ⟨l, hl, hml⟩ := h.mtch e he
    refine ⟨l, ?_, hml⟩
    rw [List.getElem?_set_ne (fun h' => ht h'.symm)]; exact hl
  once := by
    intro j l hj
    have h1 := region_filter_countP (fun e => e.tid == j) s.region i
    simp only
    by_cases hji : j = i
    · subst hji
      rw [getElem?_set_self_of _ hi] at hj
      cases hj
      simp only [Bool.and_self] at h1
      simp only [inRegion, Bool.false_eq_true, if_false]
      omega
    · rw [List.getElem?_set_ne (fun h' => hji h'.symm)] at hj
      have h2 : s.region.countP (fun e => e.tid == j && e.tid == i) = 0 := by
        rw [List.countP_eq_zero]
        intro e _
        by_cases ht : e.tid = i
        · simp [ht]; exact fun h' => hji h'.symm
        · simp [ht]
      rw [← h.once j l hj]; omega
  len := by
    have h0 := countP_set_add inRegion ls i l0 (.finished b) hi
    have hf : inRegion (.finished b) = false := rfl
    rw [hr, hf] at h0
    simp only [if_true, Bool.false_eq_true, if_false] at h0
    have h1 := region_filter_length s.region i
    have h2 := h.once i l0 hi
    simp only [hr, if_true] at h2
    have := h.len
    simp only
    omega
  adm := by
    have h0 := countP_set_add inside ls i l0 (.finished b) hi
    have hf : inside (.finished b) = false := rfl
    rw [hf] at h0
    simp only [Bool.false_eq_true, if_false, Nat.add_zero] at h0
    have h1 := region_filter_countP (fun e => e.running) s.region i
    have h2 := h.adm_at hi
    have := h.adm
    simp only
    omega

/-- the invariant is preserved by every enabled step of every thread -/
theorem GInv.step {m : Int} {s : Shared} {ls : List Local} (h : GInv m s ls) {i : Nat} {l l' : Local} {s' : Shared}
    (hi : ls[i]? = some l) (hs : Gauge.step i s l = some (s', l')) : GInv m s' (ls.set i l') := by
  cases l with
  | idle =>
    simp only [Gauge.step, Option.some.injEq, Prod.mk.injEq] at hs
    obtain ⟨rfl, rfl⟩ := hs
    exact h.enter_step hi
  | incd obs =>
    simp only [Gauge.step] at hs
    split at hs
    · simp only [Option.some.injEq, Prod.mk.injEq] at hs
      obtain ⟨rfl, rfl⟩ := hs
      exact h.local_step hi rfl rfl (fun e he => he.2)
    · rename_i hlim
      simp only [Option.some.injEq, Prod.mk.injEq] at hs
      obtain ⟨rfl, rfl⟩ := hs
      exact h.grant_step hi hlim
  | running =>
    simp only [Gauge.step, Option.some.injEq, Prod.mk.injEq] at hs
    obtain ⟨rfl, rfl⟩ := hs
    exact h.local_step hi rfl rfl (fun e he => he)
  | rejecting =>
    simp only [Gauge.step, Option.some.injEq, Prod.mk.injEq] at hs
    obtain ⟨rfl, rfl⟩ := hs
    exact h.exit_step false hi rfl
  | leaving =>
    simp only [Gauge.step, Option.some.injEq, Prod.mk.injEq] at hs
    obtain ⟨rfl, rfl⟩ := hs
    exact h.exit_step true hi rfl
  | finished b =>
    simp [Gauge.step] at hs

/-- what the invariant says about the number of callers inside the protected function -/
theorem GInv.inFlight_le {m : Int} {s : Shared} {ls : List Local} (h : GInv m s ls) (hm : 0 ≤ m) :
    ((ls.filter (· == .running)).length : Int) ≤ m := by
  have h1 : (ls.filter (· == .running)).length ≤ ls.countP inside := by
    rw [← List.countP_eq_length_filter]
    apply List.countP_mono_left
    intro l _ hl
    have : l = .running := by simpa using hl
    subst this; rfl
  have h2 : ∀ e ∈ s.region, e.running = true → e.obs ≤ m := by
    intro e he hrun
    obtain ⟨l, _, hml⟩ := h.mtch e he
    cases l with
    | idle | finished b => exact hml.elim
    | incd obs => have := hml.2; simp [hrun] at this
    | rejecting => have : e.running = false := hml; simp [hrun] at this
    | running => exact hml.2 hm
    | leaving => exact hml.2 hm
  have h3 := h.good.bound h2
  have h4 := h.adm
  omega

theorem allFinished_countP {ls : List Local}
    (hq : (ls.all fun l => match l with | .finished _ => true | _ => false) = true) : ls.countP inRegion = 0 := by
  rw [List.countP_eq_zero]
  intro l hl
  have := List.all_eq_true.mp hq l hl
  cases l <;> simp_all [inRegion]

/-! ### negative limit: nobody is refused -/

def NoReject (m : Int) (s : Shared) (ls : List Local) : Prop :=
  s.limit = m ∧ ∀ l ∈ ls, l ≠ .rejecting ∧ l ≠ .finished false

theorem NoReject.init (m : Int) (n : Nat) : NoReject m { limit := m } (List.replicate n .idle) := by
  refine ⟨rfl, ?_⟩
  intro l hl
  have := List.eq_of_mem_replicate hl
  subst this
  exact ⟨by simp, by simp⟩

theorem NoReject.step {m : Int} (hm : m < 0) {s : Shared} {ls : List Local} (h : NoReject m s ls) {i : Nat}
    {l l' : Local} {s' : Shared} (hi : ls[i]? = some l) (hs : Gauge.step i s l = some (s', l')) :
    NoReject m s' (ls.set i l') := by
  obtain ⟨hl, hall⟩ := h
  have hmem : l ∈ ls := List.mem_of_getElem? hi
  have key : s'.limit = m ∧ l' ≠ .rejecting ∧ l' ≠ .finished false := by
    cases l with
    | idle =>
      simp only [Gauge.step, Option.some.injEq, Prod.mk.injEq] at hs
      obtain ⟨rfl, rfl⟩ := hs
      exact ⟨hl, by simp, by simp⟩
    | incd obs =>
      simp only [Gauge.step] at hs
      split at hs
      · rename_i hlim
        omega
      · simp only [Option.some.injEq, Prod.mk.injEq] at hs
        obtain ⟨rfl, rfl⟩ := hs
        exact ⟨hl, by simp, by simp⟩
    | running =>
      simp only [Gauge.step, Option.some.injEq, Prod.mk.injEq] at hs
      obtain ⟨rfl, rfl⟩ := hs
      exact ⟨hl, by simp, by simp⟩
    | rejecting => exact ((hall _ hmem).1 rfl).elim
    | leaving =>
      simp only [Gauge.step, Option.some.injEq, Prod.mk.injEq] at hs
      obtain ⟨rfl, rfl⟩ := hs
      exact ⟨hl, by simp, by simp⟩
    | finished b => simp [Gauge.step] at hs
  refine ⟨key.1, ?_⟩
  intro x hx
  rcases List.mem_or_eq_of_mem_set hx with hx | hx
  · exact hall x hx
  · subst hx; exact key.2

/-! ### limit ≥ number of callers: nobody is refused -/

/-- room for everybody: the limit is at least the number of callers -/
def Roomy (m : Int) (n : Nat) (s : Shared) (ls : List Local) : Prop :=
  GInv m s ls ∧ ls.length = n ∧ (∀ l ∈ ls, l ≠ .rejecting ∧ l ≠ .finished false) ∧
  (∀ obs, Local.incd obs ∈ ls → obs ≤ (n : Int))

theorem Roomy.init (m : Int) (n : Nat) : Roomy m n { limit := m } (List.replicate n .idle) := by
  refine ⟨GInv.init m n, by simp, ?_, ?_⟩
  · intro l hl
    have := List.eq_of_mem_replicate hl
    subst this
    exact ⟨by simp, by simp⟩
  · intro obs h
    have := List.eq_of_mem_replicate h
    cases this

theorem Roomy.step {m : Int} {n : Nat} (hmn : (n : Int) ≤ m) {s : Shared} {ls : List Local} (h : Roomy m n s ls)
    {i : Nat} {l l' : Local} {s' : Shared} (hi : ls[i]? = some l) (hs : Gauge.step i s l = some (s', l')) :
    Roomy m n s' (ls.set i l') := by
  obtain ⟨hG, hlen, hall, hobs⟩ := h
  have hmem : l ∈ ls := List.mem_of_getElem? hi
  have key : l' ≠ .rejecting ∧ l' ≠ .finished false ∧ (∀ obs, l' = .incd obs → obs ≤ (n : Int)) := by
    cases l with
    | idle =>
      simp only [Gauge.step, Option.some.injEq, Prod.mk.injEq] at hs
      obtain ⟨rfl, rfl⟩ := hs
      refine ⟨by simp, by simp, ?_⟩
      intro obs ho
      have ho' : s.gauge + 1 = obs := by simpa using ho
      have h1 := hG.gauge
      have h2 := hG.len
      have h3 : ls.countP inRegion ≤ ls.length := List.countP_le_length
      have h4 : ls.countP inRegion ≠ ls.length := by
        intro heq
        have := (List.countP_eq_length.mp heq) _ hmem
        simp [inRegion] at this
      omega
    | incd obs =>
      simp only [Gauge.step] at hs
      have hle := hobs obs hmem
      have hlim := hG.lim
      split at hs
      · rename_i hc
        omega
      · simp only [Option.some.injEq, Prod.mk.injEq] at hs
        obtain ⟨rfl, rfl⟩ := hs
        exact ⟨by simp, by simp, by simp⟩
    | running =>
      simp only [Gauge.step, Option.some.injEq, Prod.mk.injEq] at hs
      obtain ⟨rfl, rfl⟩ := hs
      exact ⟨by simp, by simp, by simp⟩
    | rejecting => exact ((hall _ hmem).1 rfl).elim
    | leaving =>
      simp only [Gauge.step, Option.some.injEq, Prod.mk.injEq] at hs
      obtain ⟨rfl, rfl⟩ := hs
      exact ⟨by simp, by simp, by simp⟩
    | finished b => simp [Gauge.step] at hs
  refine ⟨hG.step hi hs, by rw [List.length_set]; exact hlen, ?_, ?_⟩
  · intro x hx
    rcases List.mem_or_eq_of_mem_set hx with hx | hx
    · exact hall x hx
    · subst hx; exact ⟨key.1, key.2.1⟩
  · intro obs hx
    rcases List.mem_or_eq_of_mem_set hx with hx | hx
    · exact hobs obs hx
    · exact key.2.2 obs hx.symm

end CM.Conc

/-
  Lemmas/Opener.lean — helper lemmas for property C02 (the built-in openers trip exactly on their documented
  threshold).  Core Lean only.
-/
import CircuitModel.OpenerOps
import CircuitModel.CircuitOps
import CircuitProofs.Lemmas.RC
namespace CM
open SpecC13 SpecC02

/-! ### running an opener -/

theorem oexec_cons (s : OState) (op : OOp) (ops : List OOp) :
    oexec s (op :: ops) = oexec (ostep s op).1 ops := rfl

theorem oexec_nil (s : OState) : oexec s [] = s := rfl

/-! ### bucket indices are monotone in time -/

theorem absIdx_mono {w d t : Int} (hw : 0 < w) (h : d ≤ t) : absIdx w d ≤ absIdx w t := by
  unfold absIdx
  exact Int.toNat_le_toNat (Int.ediv_le_ediv hw h)

/-- newest bucket index presented by an opener history (the analogue of `SpecC13.hi`) -/
def ohi (w : Int) : List OOp → Nat
  | [] => 0
  | op :: h =>
    match op.time with
    | some d => if d < 0 then ohi w h else max (absIdx w d) (ohi w h)
    | none => ohi w h

theorem ohi_cons_time (w : Int) (h : List OOp) (op : OOp) (d : Int) (ht : op.time = some d) :
    ohi w (op :: h) = if d < 0 then ohi w h else max (absIdx w d) (ohi w h) := by
  simp only [ohi, ht]

theorem ohi_cons_none (w : Int) (h : List OOp) (op : OOp) (ht : op.time = none) :
    ohi w (op :: h) = ohi w h := by
  simp only [ohi, ht]

theorem ohi_le_cons (w : Int) (h : List OOp) (op : OOp) : ohi w h ≤ ohi w (op :: h) := by
  cases ht : op.time with
  | none => rw [ohi_cons_none w h op ht]; exact Nat.le_refl _
  | some d => rw [ohi_cons_time w h op d ht]; split <;> omega

/-- in a history all of whose times are `≤ t`, no bucket is newer than the bucket of `t` -/
theorem ohi_le_of_all {w : Int} (hw : 0 < w) (t : Int) : ∀ h : List OOp,
    (h.all fun o => match o.time with | some t' => decide (t' ≤ t) | none => true) = true →
    ohi w h ≤ absIdx w t
  | [], _ => Nat.zero_le _
  | op :: h, hall => by
    rw [List.all_cons, Bool.and_eq_true] at hall
    have ih := ohi_le_of_all hw t h hall.2
    cases ht : op.time with
    | none => rw [ohi_cons_none w h op ht]; exact ih
    | some d =>
      have hd : d ≤ t := by simpa [ht] using hall.1
      have := absIdx_mono hw hd
      rw [ohi_cons_time w h op d ht]; split <;> omega

/-! ### one counter of the hystrix opener against the opener history -/

/-- times of the events since the last transition whose kind is selected, newest first -/
def evs (sel : Kind → Bool) (h : List OOp) : List Int :=
  ((sinceTransition h).filter (fun p => sel p.1)).map (·.2)

theorem evs_ev (sel : Kind → Bool) (h : List OOp) (k : Kind) (t : Int) :
    evs sel (.ev k t :: h) = if sel k then t :: evs sel h else evs sel h := by
  unfold evs
  by_cases hs : sel k = true <;> simp [sinceTransition, hs]

theorem evs_opened (sel : Kind → Bool) (h : List OOp) (t : Int) : evs sel (.opened t :: h) = [] := rfl
theorem evs_closed (sel : Kind → Bool) (h : List OOp) (t : Int) : evs sel (.closed t :: h) = [] := rfl
theorem evs_should (sel : Kind → Bool) (h : List OOp) (t : Int) : evs sel (.should t :: h) = evs sel h := rfl
theorem evs_cfgH (sel : Kind → Bool) (h : List OOp) (p v : Int) : evs sel (.cfgH p v :: h) = evs sel h := rfl
theorem evs_cfgC (sel : Kind → Bool) (h : List OOp) (t : Int) : evs sel (.cfgC t :: h) = evs sel h := rfl

/-- the counter `c` has been driven by some counter history whose live increments are exactly the selected
    events of the opener history `h` since the last transition, and which never saw a newer bucket than `h` did -/
def CInv (n : Nat) (w : Int) (sel : Kind → Bool) (c : RC) (h : List OOp) : Prop :=
  ∃ hc, Inv n w c hc ∧ live hc = evs sel h ∧ hi w hc ≤ ohi w h

theorem CInv.new (n : Nat) (w : Int) (hn : 0 < n) (sel : Kind → Bool) : CInv n w sel (RC.new n w) [] :=
  ⟨[], Inv.new n w hn, rfl, Nat.le_refl _⟩

/-- the counter is not touched and the new op selects no event -/
theorem CInv.skip {n : Nat} {w : Int} {sel : Kind → Bool} {c : RC} {h : List OOp}
    (I : CInv n w sel c h) (op : OOp) (he : evs sel (op :: h) = evs sel h) : CInv n w sel c (op :: h) := by
  obtain ⟨hc, I, hl, hh⟩ := I
  exact ⟨hc, I, by rw [hl, he], Nat.le_trans hh (ohi_le_cons w h op)⟩

theorem CInv.inc {n : Nat} {w : Int} {sel : Kind → Bool} {c : RC} {h : List OOp} (hn : 0 < n)
    (I : CInv n w sel c h) (k : Kind) (t : Int) (hs : sel k = true) :
    CInv n w sel (c.inc t) (.ev k t :: h) := by
  obtain ⟨hc, I, hl, hh⟩ := I
  refine ⟨.inc t :: hc, I.inc hn t, ?_, ?_⟩
  · rw [evs_ev, if_pos hs, ← hl]; rfl
  · rw [hi_cons_time w hc (.inc t) t rfl, ohi_cons_time w h (.ev k t) t rfl]
    split <;> omega

theorem CInv.reset {n : Nat} {w : Int} {sel : Kind → Bool} {c : RC} {h : List OOp} (hn : 0 < n)
    (I : CInv n w sel c h) (op : OOp) (t : Int) (ht : op.time = some t) (he : evs sel (op :: h) = []) :
    CInv n w sel (c.reset t) (op :: h) := by
  obtain ⟨hc, I, _, hh⟩ := I
  refine ⟨.reset t :: hc, I.reset hn t, ?_, ?_⟩
  · rw [he]; rfl
  · rw [hi_cons_time w hc (.reset t) t rfl, ohi_cons_time w h op t ht]
    split <;> omega

theorem CInv.sumAt {n : Nat} {w : Int} {sel : Kind → Bool} {c : RC} {h : List OOp} (hn : 0 < n)
    (I : CInv n w sel c h) (t : Int) : CInv n w sel (c.sumAt t).1 (.should t :: h) := by
  obtain ⟨hc, I, hl, hh⟩ := I
  refine ⟨.sum t :: hc, I.advance hn (.sum t) t rfl rfl rfl, ?_, ?_⟩
  · rw [evs_should, ← hl]; rfl
  · rw [hi_cons_time w hc (.sum t) t rfl, ohi_cons_time w h (.should t) t rfl]
    split <;> omega

/-- the window count of the spec, on the list of events since the last transition -/
theorem win_evs (n : Nat) (w : Int) (sel : Kind → Bool) (L : Nat) (l : List (Kind × Int)) :
    win n ((((l.filter (fun p => sel p.1)).map (·.2)).filter (fun d => decide (0 ≤ d))).map (absIdx w)) L
      = ((l.filter fun (k, d) => sel k && decide (0 ≤ d) && decide (absIdx w d + n > L)).length : Int) := by
  induction l with
  | nil => rfl
  | cons p l ih =>
    obtain ⟨k, d⟩ := p
    by_cases hs : sel k = true
    · by_cases hd : 0 ≤ d
      · by_cases hL : absIdx w d + n > L
        · simp [hs, hd, hL, win_cons, ih]
        · simp [hs, hd, hL, win_cons, ih]
      · simp [hs, hd, ih]
    · simp [hs, ih]

/-- what the counter answers when asked at a time that is not before anything it has seen -/
theorem CInv.read {n : Nat} {w : Int} {sel : Kind → Bool} {c : RC} {h : List OOp} (hn : 0 < n)
    (I : CInv n w sel c h) (t : Int) (ht : 0 ≤ t) (hb : ohi w h ≤ absIdx w t) :
    (c.sumAt t).2 = windowCount n w h t sel := by
  obtain ⟨hc, I, hl, hh⟩ := I
  have I' := I.advance hn (.sum t) t rfl rfl rfl
  show (c.advance t).1.rolling = _
  rw [I'.rel.roll, I'.last, hi_cons_time w hc (.sum t) t rfl, if_neg (by omega), counted_sum]
  have hm : max (absIdx w t) (hi w hc) = absIdx w t := by omega
  rw [hm]
  unfold counted
  rw [hl]
  exact win_evs n w sel (absIdx w t) (sinceTransition h)

/-! ### the hystrix opener -/

theorem HOpener.shouldOpen_fst (o : HOpener) (t : Int) :
    (o.shouldOpen t).1.pct = o.pct ∧ (o.shouldOpen t).1.vol = o.vol ∧
    (o.shouldOpen t).1.attempts = (o.attempts.sumAt t).1 ∧
    ((o.shouldOpen t).1.errors = o.errors ∨ (o.shouldOpen t).1.errors = (o.errors.sumAt t).1) := by
  unfold HOpener.shouldOpen
  simp only
  split
  · exact ⟨rfl, rfl, rfl, Or.inl rfl⟩
  · exact ⟨rfl, rfl, rfl, Or.inr rfl⟩

theorem HOpener.view_spec (o : HOpener) (t : Int) :
    (o.view t).pct = o.pct ∧ (o.view t).vol = o.vol ∧
    (o.view t).attempts = (o.attempts.sumAt t).1 ∧
    ((o.view t).errors = o.errors ∨ (o.view t).errors = (o.errors.sumAt t).1) := by
  unfold HOpener.view
  simp only
  split
  · exact ⟨rfl, rfl, rfl, Or.inl rfl⟩
  · exact ⟨rfl, rfl, rfl, Or.inr rfl⟩

theorem HOpener.shouldOpen_snd (o : HOpener) (t : Int) :
    (o.shouldOpen t).2 =
      if (o.attempts.sumAt t).2 = 0 ∨ (o.attempts.sumAt t).2 < o.vol then false
      else decide ((o.errors.sumAt t).2 * 100 ≥ o.pct * (o.attempts.sumAt t).2) := by
  unfold HOpener.shouldOpen
  simp only
  split <;> rfl

/-- the opener state `o` represents the opener history `h` (newest first) -/
structure HInv (n : Nat) (w pct0 vol0 : Int) (o : HOpener) (h : List OOp) : Prop where
  pct : o.pct = (thresholds pct0 vol0 h).1
  vol : o.vol = (thresholds pct0 vol0 h).2
  att : CInv n w counts o.attempts h
  err : CInv n w isErr o.errors h

theorem HInv.new (n : Nat) (dur pct vol : Int) (hn : 0 < n) :
    HInv n (tdiv dur n) pct vol (HOpener.new n dur pct vol) [] :=
  ⟨rfl, rfl, CInv.new n _ hn counts, CInv.new n _ hn isErr⟩

theorem HInv.step {n : Nat} {w pct0 vol0 : Int} {o : HOpener} {h : List OOp} (hn : 0 < n)
    (I : HInv n w pct0 vol0 o h) (op : OOp) :
    ∃ o', (ostep (.hystrix o) op).1 = .hystrix o' ∧ HInv n w pct0 vol0 o' (op :: h) := by
  cases op with
  | ev k t =>
    refine ⟨o.onRun k t 0, rfl, ?_⟩
    cases k with
    | success => exact ⟨I.pct, I.vol, I.att.inc hn .success t rfl, I.err.skip _ (by rw [evs_ev]; rfl)⟩
    | failure => exact ⟨I.pct, I.vol, I.att.inc hn .failure t rfl, I.err.inc hn .failure t rfl⟩
    | timeout => exact ⟨I.pct, I.vol, I.att.inc hn .timeout t rfl, I.err.inc hn .timeout t rfl⟩
    | badRequest => exact ⟨I.pct, I.vol, I.att.skip _ (by rw [evs_ev]; rfl), I.err.skip _ (by rw [evs_ev]; rfl)⟩
    | interrupt => exact ⟨I.pct, I.vol, I.att.skip _ (by rw [evs_ev]; rfl), I.err.skip _ (by rw [evs_ev]; rfl)⟩
    | reject => exact ⟨I.pct, I.vol, I.att.skip _ (by rw [evs_ev]; rfl), I.err.skip _ (by rw [evs_ev]; rfl)⟩
    | shortCircuit => exact ⟨I.pct, I.vol, I.att.skip _ (by rw [evs_ev]; rfl), I.err.skip _ (by rw [evs_ev]; rfl)⟩
  | opened t =>
    exact ⟨o.resetBoth t, rfl, I.pct, I.vol, I.att.reset hn _ t rfl rfl, I.err.reset hn _ t rfl rfl⟩
  | closed t =>
    exact ⟨o.resetBoth t, rfl, I.pct, I.vol, I.att.reset hn _ t rfl rfl, I.err.reset hn _ t rfl rfl⟩
  | should t =>
    obtain ⟨h1, h2, h3, h4⟩ := HOpener.shouldOpen_fst o t
    refine ⟨(o.shouldOpen t).1, rfl, by rw [h1]; exact I.pct, by rw [h2]; exact I.vol, ?_, ?_⟩
    · rw [h3]; exact I.att.sumAt hn t
    · rcases h4 with h4 | h4
      · rw [h4]; exact I.err.skip _ rfl
      · rw [h4]; exact I.err.sumAt hn t
  | cfgH p v =>
    exact ⟨{ o with pct := p, vol := v }, rfl, rfl, rfl, I.att.skip _ rfl, I.err.skip _ rfl⟩
  | cfgC t =>
    exact ⟨o, rfl, I.pct, I.vol, I.att.skip _ rfl, I.err.skip _ rfl⟩
  | view t =>
    obtain ⟨h1, h2, h3, h4⟩ := HOpener.view_spec o t
    refine ⟨o.view t, rfl, by rw [h1]; exact I.pct, by rw [h2]; exact I.vol, ?_, ?_⟩
    · rw [h3]; exact I.att.sumAt hn t
    · rcases h4 with h4 | h4
      · rw [h4]; exact I.err.skip _ rfl
      · rw [h4]; exact I.err.sumAt hn t

theorem HInv.exec {n : Nat} {w pct0 vol0 : Int} (hn : 0 < n) : ∀ (ops : List OOp) (o : HOpener) (h : List OOp),
    HInv n w pct0 vol0 o h →
    ∃ o', oexec (.hystrix o) ops = .hystrix o' ∧ HInv n w pct0 vol0 o' (ops.reverse ++ h)
  | [], o, h, I => ⟨o, rfl, I⟩
  | op :: ops, o, h, I => by
    obtain ⟨o1, e1, I1⟩ := I.step hn op
    obtain ⟨o2, e2, I2⟩ := HInv.exec hn ops o1 (op :: h) I1
    refine ⟨o2, by rw [oexec_cons, e1, e2], ?_⟩
    rw [List.reverse_cons, List.append_assoc]
    exact I2

/-- the answer of the model in a state representing `h`, asked at a time not before anything in `h` -/
theorem HInv.answer {n : Nat} {w pct0 vol0 : Int} {o : HOpener} {h : List OOp} (hn : 0 < n)
    (I : HInv n w pct0 vol0 o h) (t : Int) (ht : 0 ≤ t) (hb : ohi w h ≤ absIdx w t) :
    (o.shouldOpen t).2 = hystrixShould n w pct0 vol0 h t := by
  rw [HOpener.shouldOpen_snd, I.att.read hn t ht hb, I.err.read hn t ht hb, I.pct, I.vol]
  unfold hystrixShould
  simp only
  generalize windowCount n w h t counts = a
  generalize windowCount n w h t isErr = e
  generalize (thresholds pct0 vol0 h).1 = p
  generalize (thresholds pct0 vol0 h).2 = v
  by_cases h1 : a = 0 ∨ a < v
  · rw [if_pos h1]
    symm
    rw [decide_eq_false_iff_not]
    omega
  · rw [if_neg h1]
    have e1 : e * 100 = 100 * e := Int.mul_comm _ _
    rw [e1]
    by_cases h2 : 100 * e ≥ p * a
    · rw [decide_eq_true h2]; symm; rw [decide_eq_true_iff]; exact ⟨by omega, by omega, h2⟩
    · rw [decide_eq_false h2]; symm; rw [decide_eq_false_iff_not]; exact fun h => h2 h.2.2

/-! ### the consecutive-errors opener -/

theorem consec_step (thr : Int) (h : List OOp) (op : OOp) :
    (ostep (.consec { count := trailingErrors (sinceTransition h), threshold := consecThreshold thr h }) op).1
      = .consec { count := trailingErrors (sinceTransition (op :: h)), threshold := consecThreshold thr (op :: h) } := by
  cases op with
  | ev k t => cases k <;> rfl
  | opened t => rfl
  | closed t => rfl
  | should t => rfl
  | cfgH p v => rfl
  | cfgC t => rfl
  | view t => rfl

theorem consec_exec (thr : Int) : ∀ (ops : List OOp) (h : List OOp),
    oexec (.consec { count := trailingErrors (sinceTransition h), threshold := consecThreshold thr h }) ops
      = .consec { count := trailingErrors (sinceTransition (ops.reverse ++ h)),
                  threshold := consecThreshold thr (ops.reverse ++ h) }
  | [], _ => rfl
  | op :: ops, h => by
    rw [oexec_cons, consec_step, consec_exec thr ops (op :: h), List.reverse_cons, List.append_assoc]
    rfl

/-! ### circuit level: a closed circuit opens exactly when the opener says so -/

section
open SpecCircuit
variable {σo σc : Type} (O : OpenerI σo) (C : CloserI σc)

theorem isOpenEff_eq (c : Circ σo σc) (hfo : c.cfg.forceOpen = false) (hfc : c.cfg.forcedClosed = false) :
    isOpenEff c = c.isOpen := by
  simp [isOpenEff, hfo, hfc]

theorem attemptToOpen_spec (s : St σo σc) (t : Int) (hfo : s.1.cfg.forceOpen = false)
    (hfc : s.1.cfg.forcedClosed = false) (hcl : s.1.isOpen = false) :
    (attemptToOpen O C s t).1.isOpen = (O.shouldOpen s.1.opener t).2 ∧
    ((attemptToOpen O C s t).1.isOpen = true → Emit.opened t ∈ (attemptToOpen O C s t).2.emits) := by
  have he : isOpenEff s.1 = false := by rw [isOpenEff_eq s.1 hfo hfc, hcl]
  unfold attemptToOpen
  rw [if_neg (by simp [hfc]), if_neg (by simp [he])]
  cases h : O.shouldOpen s.1.opener t with
  | mk o ans =>
    cases ans with
    | false => simp [hcl]
    | true => simp [openCircuit, isOpenEff, hfo, hfc, hcl]

/-- the failure / timeout branches of the classification chain: tell everyone, then ask the opener -/
theorem errBranch_spec (s : St σo σc) (k : Kind) (t total : Int) (hfo : s.1.cfg.forceOpen = false)
    (hfc : s.1.cfg.forcedClosed = false) (hcl : s.1.isOpen = false) :
    let s' := emitRun O C s k t total
    let r := if !isOpenEff s'.1 then attemptToOpen O C s' t else s'
    r.1.isOpen = (O.shouldOpen (O.onRun s.1.opener k t total) t).2 ∧
    (r.1.isOpen = true → Emit.opened t ∈ r.2.emits) := by
  intro s' r
  have hfo' : s'.1.cfg.forceOpen = false := hfo
  have hfc' : s'.1.cfg.forcedClosed = false := hfc
  have hcl' : s'.1.isOpen = false := hcl
  have he : isOpenEff s'.1 = false := by rw [isOpenEff_eq s'.1 hfo' hfc', hcl']
  have hr : r = attemptToOpen O C s' t := by simp [r, he]
  rw [hr]
  exact attemptToOpen_spec O C s' t hfo' hfc' hcl'

def isBadRet (ret : Option ErrV) : Bool := match ret with | some e => e.isBad | none => false

/-- the kind the classification chain reports -/
def classKind (cfg : LiveCfg) (ctx : CallerCtx) (sc : Script) (ret : Option ErrV) (start doneT : Int) : Kind :=
  if isBadRet ret then .badRequest
  else if cfg.timeout > 0 ∧ start + cfg.timeout < doneT then .timeout
  else if ret.isSome && (ctxErrAfter ctx sc).isSome && !cfg.ignoreInterrupts &&
      (match ctxErrAfter ctx sc with | some e => cfg.iei.verdict e | none => false) then .interrupt
  else if ret.isSome then .failure
  else .success

theorem classify_eq (s : St σo σc) (ctx : CallerCtx) (sc : Script) (ret : Option ErrV) (start : Int) :
    classify O C s ctx sc ret start =
      (let s2 : St σo σc := (now (now s).2).2
       let doneT := s.1.clock + 1
       let total := s.1.clock - start
       if isBadRet ret then emitRun O C s2 .badRequest doneT total
       else if s.1.cfg.timeout > 0 ∧ start + s.1.cfg.timeout < doneT then
         let s' := emitRun O C s2 .timeout doneT total
         if !isOpenEff s'.1 then attemptToOpen O C s' doneT else s'
       else if ret.isSome && (ctxErrAfter ctx sc).isSome && !s.1.cfg.ignoreInterrupts &&
           (match ctxErrAfter ctx sc with | some e => s.1.cfg.iei.verdict e | none => false) then
         emitRun O C s2 .interrupt doneT total
       else if ret.isSome then
         let s' := emitRun O C s2 .failure doneT total
         if !isOpenEff s'.1 then attemptToOpen O C s' doneT else s'
       else
         let s' := emitRun O C s2 .success doneT total
         if isOpenEff s'.1 then closeCircuit O C s' doneT false else s') := rfl

theorem not_open_spec {r : St σo σc} {k : Kind} {P Q : Prop} (hf : r.1.isOpen = false)
    (hk : k ≠ .failure ∧ k ≠ .timeout) :
    (r.1.isOpen = true ↔ ((k = .failure ∨ k = .timeout) ∧ P)) ∧ (r.1.isOpen = true → Q) := by
  rw [hf]
  refine ⟨⟨fun h => (by cases h), fun h => ?_⟩, fun h => (by cases h)⟩
  rcases h.1 with h | h
  · exact absurd h hk.1
  · exact absurd h hk.2

theorem classify_spec (s : St σo σc) (ctx : CallerCtx) (sc : Script) (ret : Option ErrV) (start : Int)
    (hfo : s.1.cfg.forceOpen = false) (hfc : s.1.cfg.forcedClosed = false) (hcl : s.1.isOpen = false) :
    let doneT := s.1.clock + 1
    let total := s.1.clock - start
    let k := classKind s.1.cfg ctx sc ret start doneT
    let r := classify O C s ctx sc ret start
    (r.1.isOpen = true ↔
      ((k = .failure ∨ k = .timeout) ∧ (O.shouldOpen (O.onRun s.1.opener k doneT total) doneT).2 = true)) ∧
    (r.1.isOpen = true → Emit.opened doneT ∈ r.2.emits) := by
  intro doneT total k r
  let s2 : St σo σc := (now (now s).2).2
  have hfo2 : s2.1.cfg.forceOpen = false := hfo
  have hfc2 : s2.1.cfg.forcedClosed = false := hfc
  have hcl2 : s2.1.isOpen = false := hcl
  have hr0 : r = classify O C s ctx sc ret start := rfl
  have hk0 : k = classKind s.1.cfg ctx sc ret start doneT := rfl
  rw [classify_eq] at hr0
  simp only [classKind] at hk0
  simp only at hr0
  by_cases h1 : isBadRet ret = true
  · rw [if_pos h1] at hr0 hk0
    rw [hr0, hk0]
    exact not_open_spec hcl ⟨by decide, by decide⟩
  · rw [if_neg h1] at hr0 hk0
    by_cases h2 : s.1.cfg.timeout > 0 ∧ start + s.1.cfg.timeout < doneT
    · rw [if_pos h2] at hr0 hk0
      obtain ⟨e1, e2⟩ := errBranch_spec O C s2 .timeout doneT total hfo2 hfc2 hcl2
      rw [hr0, hk0]
      refine ⟨?_, e2⟩
      rw [e1]
      exact ⟨fun h => ⟨Or.inr rfl, h⟩, fun h => h.2⟩
    · rw [if_neg h2] at hr0 hk0
      by_cases h3 : (ret.isSome && (ctxErrAfter ctx sc).isSome && !s.1.cfg.ignoreInterrupts &&
           (match ctxErrAfter ctx sc with | some e => s.1.cfg.iei.verdict e | none => false)) = true
      · rw [if_pos h3] at hr0 hk0
        rw [hr0, hk0]
        exact not_open_spec hcl ⟨by decide, by decide⟩
      · rw [if_neg h3] at hr0 hk0
        by_cases h4 : ret.isSome = true
        · rw [if_pos h4] at hr0 hk0
          obtain ⟨e1, e2⟩ := errBranch_spec O C s2 .failure doneT total hfo2 hfc2 hcl2
          rw [hr0, hk0]
          refine ⟨?_, e2⟩
          rw [e1]
          exact ⟨fun h => ⟨Or.inl rfl, h⟩, fun h => h.2⟩
        · rw [if_neg h4] at hr0 hk0
          have he : isOpenEff (emitRun O C s2 .success doneT total).1 = false := by
            rw [isOpenEff_eq (emitRun O C s2 .success doneT total).1 hfo2 hfc2]; exact hcl2
          rw [he] at hr0
          rw [hr0, hk0]
          exact not_open_spec hcl ⟨by decide, by decide⟩

theorem runStep_allowed_gen (s s1 : St σo σc) (start : Int) (o : σo) (ctx : CallerCtx) (sc : Script)
    (hn : now s = (start, s1)) (h1 : allowNewRun C s1 start = (s1, true))
    (h2 : O.prevent s1.1.opener start = (o, false))
    (hthr : ¬ (s1.1.cfg.maxConc ≥ 0 ∧ s1.1.conc + 1 > s1.1.cfg.maxConc)) (hnp : ∀ v, sc.act ≠ .panic v) :
    let s3 : St σo σc := ({ s1.1 with opener := o, conc := s1.1.conc + 1, clock := s1.1.clock + sc.adv },
      { s1.2 with runSeen := some (derivedSeen s1.1.cfg ctx start) })
    let ret := actValue sc (ctxErrAfter ctx sc)
    let s4 := classify O C s3 ctx sc ret start
    let r := runStep O C s ctx (some sc)
    r.1.1.isOpen = s4.1.isOpen ∧ r.1.2.emits = s4.2.emits ∧ r.2 = .ret ret := by
  intro s3 ret s4 r
  have hr : r = runStep O C s ctx (some sc) := rfl
  simp only [runStep, hn, h1, h2, Bool.not_true, Bool.false_eq_true, if_false, hthr] at hr
  rw [hr]
  exact ⟨rfl, rfl, rfl⟩
theorem fallbackStep_keeps (s : St σo σc) (ctx : CallerCtx) (runSc : Option Script) (err : ErrV) (fb : Option Script) :
    (fallbackStep s ctx runSc err fb).1.1.isOpen = s.1.isOpen ∧
    ∀ e ∈ s.2.emits, e ∈ (fallbackStep s ctx runSc err fb).1.2.emits := by
  unfold fallbackStep
  cases fb with
  | none => exact ⟨rfl, fun e h => h⟩
  | some sc =>
    simp only
    split
    · exact ⟨rfl, fun e h => h⟩
    · split
      · exact ⟨rfl, fun e h => List.mem_append_left _ h⟩
      · split
        · exact ⟨rfl, fun e h => h⟩
        · split
          · exact ⟨rfl, fun e h => List.mem_append_left _ h⟩
          · exact ⟨rfl, fun e h => List.mem_append_left _ h⟩

theorem execute_keeps (c : Circ σo σc) (ctx : CallerCtx) (run fb : Option Script) (hen : c.cfg.disabled = false) :
    (execute O C c ctx run fb).1.isOpen = (runStep O C (c, {}) ctx run).1.1.isOpen ∧
    ∀ e ∈ (runStep O C (c, {}) ctx run).1.2.emits, e ∈ (execute O C c ctx run fb).2.1.emits := by
  unfold execute
  simp only [hen, Bool.false_eq_true, if_false]
  generalize runStep O C (c, {}) ctx run = p
  obtain ⟨s, r⟩ := p
  cases r with
  | ret e =>
    cases e with
    | none => exact ⟨rfl, fun e h => h⟩
    | some e =>
      simp only
      split
      · exact ⟨rfl, fun e h => h⟩
      · exact fallbackStep_keeps s ctx run e fb
  | panic v => exact ⟨rfl, fun e h => h⟩
  | nilFunc => exact ⟨rfl, fun e h => h⟩

theorem classKind_eq (cfg : LiveCfg) (op : ExecOp) (sc : Script) (clock : Int) (hrun : op.run = some sc) :
    classKind cfg op.ctx sc (actValue sc (ctxErrAfter op.ctx sc)) clock (clock + 1 + sc.adv + 1)
      = expectedExecutedKind cfg op sc := by
  have hv : runValue op = actValue sc (ctxErrAfter op.ctx sc) := by simp only [runValue, hrun]
  unfold classKind expectedExecutedKind
  simp only [hv]
  have ht : (cfg.timeout > 0 ∧ clock + cfg.timeout < clock + 1 + sc.adv + 1) ↔ timedOut cfg sc = true := by
    unfold timedOut
    rw [decide_eq_true_iff]
    constructor
    · intro h; exact ⟨h.1, by omega⟩
    · intro h; exact ⟨h.1, by omega⟩
  simp only [ht]
  rfl

/-- C02, circuit level -/
theorem opens_core (c : Circ σo σc) (op : ExecOp) (sc : Script)
    (hen : c.cfg.disabled = false) (hfo : c.cfg.forceOpen = false) (hfc : c.cfg.forcedClosed = false)
    (hclosed : c.isOpen = false) (hrun : op.run = some sc) (hnp : ∀ v, sc.act ≠ .panic v)
    (hpv : O.prevent c.opener c.clock = (c.opener, false))
    (hthr : ¬ (c.cfg.maxConc ≥ 0 ∧ c.conc + 1 > c.cfg.maxConc)) :
    ((execute O C c op.ctx op.run op.fb).1.isOpen = true ↔
      ((expectedExecutedKind c.cfg op sc = .failure ∨ expectedExecutedKind c.cfg op sc = .timeout) ∧
        (O.shouldOpen (O.onRun c.opener (expectedExecutedKind c.cfg op sc) (c.clock + 1 + sc.adv + 1) (sc.adv + 1))
          (c.clock + 1 + sc.adv + 1)).2 = true)) ∧
    ((execute O C c op.ctx op.run op.fb).1.isOpen = true →
      Emit.opened (c.clock + 1 + sc.adv + 1) ∈ (execute O C c op.ctx op.run op.fb).2.1.emits) := by
  obtain ⟨x1, x2⟩ := execute_keeps O C c op.ctx op.run op.fb hen
  rw [hrun] at x1 x2 ⊢
  let s1 : St σo σc := ({ c with clock := c.clock + 1 }, { readings := [] ++ [c.clock] })
  have h1 : allowNewRun C s1 c.clock = (s1, true) := by
    have he : isOpenEff s1.1 = false := by rw [isOpenEff_eq s1.1 hfo hfc]; exact hclosed
    simp only [allowNewRun, he, Bool.not_false, if_true]
  obtain ⟨y1, y2, _⟩ := runStep_allowed_gen O C (c, {}) s1 c.clock c.opener op.ctx sc rfl h1 hpv hthr hnp
  obtain ⟨z1, z2⟩ := classify_spec O C
    (({ s1.1 with opener := c.opener, conc := s1.1.conc + 1, clock := s1.1.clock + sc.adv },
      { s1.2 with runSeen := some (derivedSeen s1.1.cfg op.ctx c.clock) }) : St σo σc)
    op.ctx sc (actValue sc (ctxErrAfter op.ctx sc)) c.clock hfo hfc hclosed
  simp only at y1 y2 z1 z2
  have ht : c.clock + 1 + sc.adv - c.clock = sc.adv + 1 := by omega
  rw [← y1, ← x1, ht] at z1
  rw [← y1, ← x1, ← y2] at z2
  have hk := classKind_eq c.cfg op sc c.clock hrun
  refine ⟨?_, fun h => x2 _ (z2 h)⟩
  rw [← hk]
  exact z1
end
end CM

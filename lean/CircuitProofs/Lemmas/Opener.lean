import CircuitModel.OpenerOps
import CircuitModel.CircuitOps
import CircuitProofs.Lemmas.RC
namespace CM
end CM

/-
  Lemmas/TC.lean — helper lemmas for the TimedCheck model (`CM.TC`) used by Props/C16.lean:
  unfolding lemmas for `run`/`exec`, the reachable-state invariant `TC.WF`, and the simulation relation
  `Sim` between a model state and the spec monitor's `Epoch`.
-/
import CircuitModel.Spec.C16
namespace CM
open CM.SpecC16

/-! ### unfolding `run` / `exec` -/

@[simp] theorem TC.run_nil (c : TC) : c.run [] = [] := rfl

theorem TC.run_cons (c : TC) (op : TCOp) (ops : List TCOp) :
    c.run (op :: ops) = (c.step op).2 :: TC.run (c.step op).1 ops := by
  cases h : c.step op
  simp [TC.run, h]

@[simp] theorem TC.exec_nil (c : TC) : c.exec [] = c := rfl

theorem TC.exec_cons (c : TC) (op : TCOp) (ops : List TCOp) :
    c.exec (op :: ops) = TC.exec (c.step op).1 ops := by
  simp [TC.exec, List.foldl_cons]

/-- a generic induction principle for facts preserved by every step -/
theorem TC.exec_induction (P : TC → Prop) (ok : TCOp → Prop)
    (hstep : ∀ c op, ok op → P c → P (c.step op).1) :
    ∀ (ops : List TCOp) (c : TC), (∀ op ∈ ops, ok op) → P c → P (c.exec ops) := by
  intro ops
  induction ops with
  | nil => intro c _ h; simpa using h
  | cons op ops ih =>
    intro c hall h
    rw [TC.exec_cons]
    apply ih
    · intro op' hop'; exact hall op' (List.mem_cons_of_mem _ hop')
    · exact hstep c op (hall op List.mem_cons_self) h

/-! ### `check` case analysis -/

theorem TC.step_check (c : TC) (t : Int) : c.step (.check t) = ((c.check t).1, .bool (c.check t).2) := by
  cases h : c.check t
  simp [TC.step, h]

theorem TC.check_refused (c : TC) (now : Int) (h : c.fastFail = true ∨ c.nextAfter now = true) :
    c.check now = (c, false) := by
  unfold TC.check
  rcases h with h | h
  · simp [h]
  · by_cases hf : c.fastFail = true <;> simp [hf, h]

theorem TC.check_eligible (c : TC) (now : Int) (hf : c.fastFail = false) (hn : c.nextAfter now = false) :
    c.check now =
      if c.count + 1 ≥ c.allow then (({ c with count := c.count + 1 } : TC).resetOpen now, true)
      else ({ c with count := c.count + 1 }, true) := by
  unfold TC.check
  simp [hf, hn]

theorem TC.check_snd_false_iff (c : TC) (now : Int) :
    (c.check now).2 = false ↔ (c.fastFail = true ∨ c.nextAfter now = true) := by
  constructor
  · intro h
    by_cases hf : c.fastFail = true
    · exact Or.inl hf
    · by_cases hn : c.nextAfter now = true
      · exact Or.inr hn
      · exfalso
        have hf' : c.fastFail = false := by simpa using hf
        have hn' : c.nextAfter now = false := by simpa using hn
        rw [TC.check_eligible c now hf' hn'] at h
        split at h <;> simp at h
  · intro h
    rw [TC.check_refused c now h]

/-- a callback can only clear the fast-fail flag -/
theorem TC.fire_fields (c : TC) (k : Nat) :
    (c.fire k).sleep = c.sleep ∧ (c.fire k).allow = c.allow ∧ (c.fire k).version = c.version ∧
    (c.fire k).nextOpen = c.nextOpen ∧ (c.fire k).count = c.count ∧ (c.fire k).armed = c.armed := by
  unfold TC.fire
  split
  · simp
  · split <;> simp

/-! ### the sleep period: while only in-period ops happen, `nextOpen` stays put -/

theorem TC.step_nextOpen_inside (c : TC) (L : Int) (op : TCOp) (h : c.nextOpen = some L)
    (hs : ∀ t, op ≠ .start t) (hc : ∀ t', op = .check t' → t' < L) : (c.step op).1.nextOpen = some L := by
  cases op with
  | start t => exact absurd rfl (hs t)
  | check t' =>
    have hlt : t' < L := hc t' rfl
    have hna : c.nextAfter t' = true := by simp [TC.nextAfter, h, hlt]
    rw [TC.step_check, TC.check_refused c t' (Or.inr hna)]
    exact h
  | setSleep d => exact h
  | setAllow k => exact h
  | fire k => exact (c.fire_fields k).2.2.2.1.trans h
  | dump => exact h

/-! ### the budget: with a static budget `k`, `0 ≤ count < max 1 k` -/

def TC.Budget (k : Int) (c : TC) : Prop := c.allow = k ∧ 0 ≤ c.count ∧ c.count < max 1 k

theorem TC.Budget.step {k : Int} {c : TC} (h : TC.Budget k c) (op : TCOp) (hop : ∀ j, op ≠ .setAllow j) :
    TC.Budget k (c.step op).1 := by
  obtain ⟨ha, h0, h1⟩ := h
  have hmax : (0 : Int) < max 1 k := by omega
  cases op with
  | start t => exact ⟨ha, Int.le_refl 0, hmax⟩
  | check t =>
    rw [TC.step_check]
    by_cases hr : c.fastFail = true ∨ c.nextAfter t = true
    · rw [TC.check_refused c t hr]; exact ⟨ha, h0, h1⟩
    · have hf : c.fastFail = false := by
        cases hc : c.fastFail <;> simp [hc] at hr ⊢
      have hn : c.nextAfter t = false := by
        cases hc : c.nextAfter t <;> simp [hc] at hr ⊢
      rw [TC.check_eligible c t hf hn]
      split
      · exact ⟨ha, Int.le_refl 0, hmax⟩
      · next hlt =>
        refine ⟨ha, ?_, ?_⟩
        · show 0 ≤ c.count + 1; omega
        · show c.count + 1 < max 1 k; omega
  | setSleep d => exact ⟨ha, h0, h1⟩
  | setAllow j => exact absurd rfl (hop j)
  | fire j =>
    obtain ⟨_, hfa, _, _, hfc, _⟩ := c.fire_fields j
    show (c.fire j).allow = k ∧ 0 ≤ (c.fire j).count ∧ (c.fire j).count < max 1 k
    rw [hfa, hfc]; exact ⟨ha, h0, h1⟩
  | dump => exact ⟨ha, h0, h1⟩

/-! ### reachable-state invariant -/

/-- the version counter equals the number of armings, and the k-th callback captured version k+1 -/
structure TC.WF (c : TC) : Prop where
  ver : c.version = (c.armed.length : Int)
  arm : ∀ k, k < c.armed.length → c.armed[k]? = some ((k : Int) + 1)

theorem TC.WF.init : ({} : TC).WF := ⟨rfl, by intro k hk; simp at hk⟩

theorem TC.WF.of_eq {c c' : TC} (h : c.WF) (hv : c'.version = c.version) (ha : c'.armed = c.armed) : c'.WF := by
  constructor
  · rw [hv, ha]; exact h.ver
  · rw [ha]; exact h.arm

theorem TC.WF.resetOpen {c : TC} (h : c.WF) (now : Int) : (c.resetOpen now).WF := by
  constructor
  · simp [TC.resetOpen, h.ver]
  · intro k hk
    simp only [TC.resetOpen, List.length_append, List.length_singleton] at hk ⊢
    by_cases hk' : k < c.armed.length
    · rw [List.getElem?_append_left hk']; exact h.arm k hk'
    · have : k = c.armed.length := by omega
      subst this
      rw [List.getElem?_append_right (Nat.le_refl _)]
      simp [h.ver]

/-- under the invariant, `fire k` has an effect exactly when `k` is the latest arming -/
theorem TC.WF.fire_eq {c : TC} (h : c.WF) (k : Nat) :
    c.fire k = if k + 1 = c.armed.length then { c with fastFail := false } else c := by
  unfold TC.fire
  by_cases hk : k < c.armed.length
  · rw [h.arm k hk, h.ver]
    by_cases hk' : k + 1 = c.armed.length
    · have : (k : Int) + 1 = (c.armed.length : Int) := by omega
      simp [hk', this]
    · have : ¬ (k : Int) + 1 = (c.armed.length : Int) := by omega
      simp [hk', this]
  · have hnone : c.armed[k]? = none := List.getElem?_eq_none (by omega)
    have : ¬ k + 1 = c.armed.length := by omega
    simp [hnone, this]

theorem TC.WF.fire {c : TC} (h : c.WF) (k : Nat) : (c.fire k).WF := by
  rw [h.fire_eq]
  split
  · exact h.of_eq rfl rfl
  · exact h

theorem TC.WF.check {c : TC} (h : c.WF) (now : Int) : (c.check now).1.WF := by
  by_cases hr : c.fastFail = true ∨ c.nextAfter now = true
  · rw [TC.check_refused c now hr]; exact h
  · have hf : c.fastFail = false := by
      cases hc : c.fastFail <;> simp [hc] at hr ⊢
    have hn : c.nextAfter now = false := by
      cases hc : c.nextAfter now <;> simp [hc] at hr ⊢
    rw [TC.check_eligible c now hf hn]
    have h1 : ({ c with count := c.count + 1 } : TC).WF := h.of_eq rfl rfl
    split
    · exact h1.resetOpen now
    · exact h1

theorem TC.WF.step {c : TC} (h : c.WF) (op : TCOp) : (c.step op).1.WF := by
  cases op with
  | start t => exact h.resetOpen t
  | check t => exact h.check t
  | setSleep d => exact h.of_eq rfl rfl
  | setAllow k => exact h.of_eq rfl rfl
  | fire k => exact h.fire k
  | dump => exact h

theorem TC.WF.exec {c : TC} (h : c.WF) (ops : List TCOp) : (c.exec ops).WF :=
  TC.exec_induction TC.WF (fun _ => True) (fun _ op _ hc => hc.step op) ops c (fun _ _ => trivial) h

/-! ### simulation relation between the model and the spec monitor -/

structure Sim (c : TC) (e : Epoch) : Prop where
  wf : c.WF
  sleep : e.sleep = c.sleep
  allow : e.allow = c.allow
  arm : e.arm = c.nextOpen
  armings : e.armings = c.armed.length
  succ : e.succ = c.count
  ff : c.fastFail = true ↔ (e.arm ≠ none ∧ e.fired = false)

theorem Sim.init : Sim {} {} :=
  ⟨TC.WF.init, rfl, rfl, rfl, rfl, rfl, by simp⟩

theorem Sim.rearm {c : TC} {e : Epoch} (h : Sim c e) (t : Int) : Sim (c.resetOpen t) (e.rearm t) := by
  refine ⟨h.wf.resetOpen t, ?_, ?_, ?_, ?_, ?_, ?_⟩
  · exact h.sleep
  · exact h.allow
  · simp [Epoch.rearm, TC.resetOpen, h.sleep]
  · simp [Epoch.rearm, TC.resetOpen, h.armings]
  · simp [Epoch.rearm, TC.resetOpen]
  · simp [Epoch.rearm, TC.resetOpen]

/-- one step preserves the simulation relation and the monitor has no complaint about it -/
theorem Sim.step {c : TC} {e : Epoch} (h : Sim c e) (op : TCOp) :
    Sim (c.step op).1 (e.next op (c.step op).2) ∧ e.verdict op (c.step op).2 = none := by
  cases op with
  | start t => exact ⟨h.rearm t, rfl⟩
  | setSleep d =>
    exact ⟨⟨h.wf.of_eq rfl rfl, rfl, h.allow, h.arm, h.armings, h.succ, h.ff⟩, rfl⟩
  | setAllow k =>
    exact ⟨⟨h.wf.of_eq rfl rfl, h.sleep, rfl, h.arm, h.armings, h.succ, h.ff⟩, rfl⟩
  | dump => exact ⟨h, rfl⟩
  | fire k =>
    refine ⟨?_, rfl⟩
    show Sim (c.fire k) (if k + 1 = e.armings then { e with fired := true } else e)
    rw [h.wf.fire_eq, h.armings]
    split
    · refine ⟨h.wf.of_eq rfl rfl, h.sleep, h.allow, h.arm, rfl, h.succ, ?_⟩
      simp
    · exact h
  | check t =>
    rw [TC.step_check]
    have hff := h.ff
    have harm := h.arm
    by_cases hr : c.fastFail = true ∨ c.nextAfter t = true
    · rw [TC.check_refused c t hr]
      refine ⟨by simpa [Epoch.next] using h, ?_⟩
      simp only [Epoch.verdict, Epoch.expect]
      cases hn : c.nextOpen with
      | none =>
        rw [hn] at harm
        simp [harm] at hff
        simp [TC.nextAfter, hn, hff] at hr
      | some t0 =>
        rw [hn] at harm
        simp only [harm]
        by_cases hlt : t < t0
        · simp [hlt]
        · have hna : c.nextAfter t = false := by simp [TC.nextAfter, hn, hlt]
          have hf : c.fastFail = true := by simpa [hna] using hr
          have : e.fired = false := (hff.mp hf).2
          simp [hlt, this]
    · have hf : c.fastFail = false := by
        cases hc : c.fastFail <;> simp [hc] at hr ⊢
      have hn : c.nextAfter t = false := by
        cases hc : c.nextAfter t <;> simp [hc] at hr ⊢
      rw [TC.check_eligible c t hf hn]
      have h1 : Sim ({ c with count := c.count + 1 } : TC) ({ e with succ := e.succ + 1 } : Epoch) :=
        ⟨h.wf.of_eq rfl rfl, h.sleep, h.allow, h.arm, h.armings, by simp [h.succ], h.ff⟩
      constructor
      · simp only [Epoch.next, h.succ, h.allow]
        split
        · simpa [h.succ, h.allow] using h1.rearm t
        · simpa [h.succ, h.allow] using h1
      · have hv : e.verdict (.check t) (.bool true) = none := by
          simp only [Epoch.verdict, Epoch.expect]
          cases ha : e.arm with
          | none => simp
          | some t0 =>
            have hlt : ¬ t < t0 := by
              rw [ha] at harm
              simpa [TC.nextAfter, ← harm] using hn
            cases hfi : e.fired <;> simp [hlt]
        split <;> exact hv

/-- the monitor accepts the trace produced from any pair of related states -/
theorem Sim.monitor_run (ops : List TCOp) :
    ∀ (c : TC) (e : Epoch), Sim c e → (monitor e (ops.zip (c.run ops))).all Option.isNone = true := by
  induction ops with
  | nil => intro c e _; simp [monitor]
  | cons op ops ih =>
    intro c e h
    have hs := h.step op
    rw [TC.run_cons, List.zip_cons_cons]
    simp only [monitor, List.all_cons, hs.2, Option.isNone_none, Bool.true_and]
    exact ih _ _ hs.1

end CM

/-
  Lemmas/Exec.lean — invariants of the whole `Execute` (CircuitModel/Conc/Exec.lean), every setting live; used by
  Props/ExecAll.lean.
    * `ex_step_op` / `ex_step_running` / `ex_step_fb`: what one step of an operator (one store), of a call still inside `c.run`,
      and of a call at the kill-switch gate / in Execute's decision / in the fallback phase is (`ex_FbStep`);
    * `ex_proj` / `ex_lift`: the Conc/RunDyn view of a configuration (an operator's stores of ForcedClosed, ForceOpen and the run
      limit ARE RunDyn's operator; its other three stores leave the view alone); every step is a RunDyn step of the view or
      leaves it alone, so every step-invariant of RunDyn (`rd_EInv`, `rd_GInv`, `rd_TInv`) holds of the view;
    * `ex_SInv`: each live setting has its initial value or one an operator of the job list installs;
    * `ex_FInv`: the per-thread invariant (own fallback events, direct calls, which way the thread went at the gate, what
      `c.run` returned, the contract), `ex_Inv` = it and `rd_EInv` of the view together;
    * `ex_BInv` / `ex_LInv`: the bulkhead invariant `GInv` of Lemmas/Conc for the fallback gauge, the ghost region
      existentially bound, read at -1 (pure counting) and at the largest fallback limit ever in force;
    * `ex_progress`, the readouts, the kill switch always on.
-/
import CircuitModel.Conc.Exec
import CircuitProofs.Lemmas.RunDyn
namespace CM.Lemmas.ExecL
open CM.Conc CM.Conc.Exec CM.Conc.Gauge CM.Lemmas.RunEvents CM.Lemmas.RunDynL

/-! ### one step -/

/-- the script a call thread answers from -/
def ex_sc : Run.Job → Run.Script
  | .call sc => sc
  | _ => {}

/-- the RunDyn operator an Exec operator is as far as `c.run` is concerned: its stores of ForcedClosed, ForceOpen and the run
    limit are RunDyn's three stores; the other three (kill switch, Fallback.Disabled, fallback limit) leave `s.r` alone -/
def ex_stage : Nat → Nat
  | 0 => 0
  | 1 => 1
  | 2 => 2
  | 3 => 2
  | _ => 3

def ex_pl : Exec.Local → RunDyn.Local
  | .call l _ _ => .call l
  | .op cfg k => .op cfg.fo cfg.fc cfg.limit (ex_stage k)

/-- an operator's step: one store; the gauges, the events and the ghost list of direct calls are not touched -/
theorem ex_step_op (i : Nat) (s : Exec.Shared) (cfg : OpCfg) (k : Nat) (s' : Exec.Shared) (l' : Exec.Local)
    (h : Exec.step i s (.op cfg k) = some (s', l')) :
    k < 6 ∧ l' = .op cfg (k + 1) ∧ s'.fbGauge = s.fbGauge ∧ s'.fbEvents = s.fbEvents ∧ s'.direct = s.direct ∧
      (s'.disabled = s.disabled ∨ s'.disabled = cfg.dis) ∧ (s'.fbDisabled = s.fbDisabled ∨ s'.fbDisabled = cfg.fbDis) ∧
      (s'.fbLimit = s.fbLimit ∨ s'.fbLimit = cfg.fbLimit) ∧
      (RunDyn.step i s.r (ex_pl (.op cfg k)) = some (s'.r, ex_pl (.op cfg (k + 1))) ∨
        (s'.r = s.r ∧ ex_pl (.op cfg (k + 1)) = ex_pl (.op cfg k))) := by
  match k, h with
  | 0, h =>
    simp only [Exec.step, Option.some.injEq, Prod.mk.injEq] at h
    obtain ⟨rfl, rfl⟩ := h
    exact ⟨by decide, rfl, rfl, rfl, rfl, Or.inl rfl, Or.inl rfl, Or.inl rfl, Or.inl rfl⟩
  | 1, h =>
    simp only [Exec.step, Option.some.injEq, Prod.mk.injEq] at h
    obtain ⟨rfl, rfl⟩ := h
    exact ⟨by decide, rfl, rfl, rfl, rfl, Or.inl rfl, Or.inl rfl, Or.inl rfl, Or.inl rfl⟩
  | 2, h =>
    simp only [Exec.step, Option.some.injEq, Prod.mk.injEq] at h
    obtain ⟨rfl, rfl⟩ := h
    exact ⟨by decide, rfl, rfl, rfl, rfl, Or.inr rfl, Or.inl rfl, Or.inl rfl, Or.inr ⟨rfl, rfl⟩⟩
  | 3, h =>
    simp only [Exec.step, Option.some.injEq, Prod.mk.injEq] at h
    obtain ⟨rfl, rfl⟩ := h
    exact ⟨by decide, rfl, rfl, rfl, rfl, Or.inl rfl, Or.inl rfl, Or.inl rfl, Or.inl rfl⟩
  | 4, h =>
    simp only [Exec.step, Option.some.injEq, Prod.mk.injEq] at h
    obtain ⟨rfl, rfl⟩ := h
    exact ⟨by decide, rfl, rfl, rfl, rfl, Or.inl rfl, Or.inr rfl, Or.inl rfl, Or.inr ⟨rfl, rfl⟩⟩
  | 5, h =>
    simp only [Exec.step, Option.some.injEq, Prod.mk.injEq] at h
    obtain ⟨rfl, rfl⟩ := h
    exact ⟨by decide, rfl, rfl, rfl, rfl, Or.inl rfl, Or.inl rfl, Or.inr rfl, Or.inr ⟨rfl, rfl⟩⟩
  | (_ + 6), h => simp [Exec.step] at h

theorem ex_step_op_isSome (i : Nat) (s : Exec.Shared) (cfg : OpCfg) (k : Nat) (hk : k < 6) :
    (Exec.step i s (.op cfg k)).isSome = true := by
  match k, hk with
  | 0, _ | 1, _ | 2, _ | 3, _ | 4, _ | 5, _ => simp [Exec.step]

/-- a call still inside `c.run` / OpenCircuit / CloseCircuit: a `Run.step`, or the hand-over to Execute's decision -/
theorem ex_step_running (i : Nat) (s : Exec.Shared) (l : Run.Local) (fb : FbScript) (s' : Exec.Shared) (l' : Exec.Local)
    (h : Exec.step i s (.call l fb .running) = some (s', l')) :
    (∃ r, l.pc = .done r ∧ s' = s ∧ l' = .call l fb (.decide r)) ∨
    (∃ sr m, Run.step i s.r l = some (sr, m) ∧ s' = { s with r := sr } ∧ l' = .call m fb .running) := by
  simp only [Exec.step] at h
  split at h
  · rename_i r hr
    simp only [Option.some.injEq, Prod.mk.injEq] at h
    exact Or.inl ⟨r, hr, h.1.symm, h.2.symm⟩
  · simp only [Option.map_eq_some_iff] at h
    obtain ⟨⟨a, b⟩, hab, he⟩ := h
    simp only [Prod.mk.injEq] at he
    exact Or.inr ⟨a, b, hab, he.1.symm, he.2.symm⟩

/-- what the caller gets when the run function is called directly (kill switch on) -/
def ex_passOut (sc : Run.Script) : Out := if sc.panics then .runPanic else if sc.failed then .runErr else .ok

/-- the kill-switch gate, Execute's decision and the fallback phase, transition by transition -/
inductive ex_FbStep (i : Nat) (s : Exec.Shared) (sc : Run.Script) (fb : FbScript) : Exec.Pc → Exec.Shared → Exec.Pc → Prop
  | gateOn : s.disabled = true → ex_FbStep i s sc fb .gate s .passthru
  | gateOff : s.disabled = false → ex_FbStep i s sc fb .gate s .running
  | pass : ex_FbStep i s sc fb .passthru { s with direct := s.direct ++ [i] } (.done (ex_passOut sc))
  | decManual : ex_FbStep i s sc fb (.decide .manual) s (.done .manual)
  | decPanic : ex_FbStep i s sc fb (.decide .panicked) s (.done .runPanic)
  | decOk (r : Run.Res) : r ≠ .manual → r ≠ .panicked → runFailed sc r = false → ex_FbStep i s sc fb (.decide r) s (.done .ok)
  | decBad (r : Run.Res) : r ≠ .manual → r ≠ .panicked → runFailed sc r = true → runBad sc r = true →
      ex_FbStep i s sc fb (.decide r) s (.done .runErr)
  | decNoFb (r : Run.Res) : r ≠ .manual → r ≠ .panicked → runFailed sc r = true → runBad sc r = false → fb.present = false →
      ex_FbStep i s sc fb (.decide r) s (.done .runErr)
  | decFb (r : Run.Res) : r ≠ .manual → r ≠ .panicked → runFailed sc r = true → runBad sc r = false → fb.present = true →
      ex_FbStep i s sc fb (.decide r) s .loadDisabled
  | disabled : s.fbDisabled = true → ex_FbStep i s sc fb .loadDisabled s (.done .runErr)
  | enabled : s.fbDisabled = false → ex_FbStep i s sc fb .loadDisabled s .fbAdd
  | add : ex_FbStep i s sc fb .fbAdd { s with fbGauge := s.fbGauge + 1 } (.fbLoadLimit (s.fbGauge + 1))
  | refuse (obs : Int) : (s.fbLimit ≥ 0 ∧ obs > s.fbLimit) → ex_FbStep i s sc fb (.fbLoadLimit obs) s .fbDeliverReject
  | grant (obs : Int) : ¬ (s.fbLimit ≥ 0 ∧ obs > s.fbLimit) → ex_FbStep i s sc fb (.fbLoadLimit obs) s .fbInvoke
  | reject : ex_FbStep i s sc fb .fbDeliverReject { s with fbEvents := s.fbEvents ++ [(i, .reject)] } (.fbDec .limit)
  | invokePanic : fb.panics = true →
      ex_FbStep i s sc fb .fbInvoke { s with fbEvents := s.fbEvents ++ [(i, .invoked)] } (.fbDec .fbPanic)
  | invokeRet : fb.panics = false →
      ex_FbStep i s sc fb .fbInvoke { s with fbEvents := s.fbEvents ++ [(i, .invoked)] } (.fbDeliver (!fb.fails))
  | deliverOk : ex_FbStep i s sc fb (.fbDeliver true) { s with fbEvents := s.fbEvents ++ [(i, .success)] } (.fbDec .fbOk)
  | deliverErr : ex_FbStep i s sc fb (.fbDeliver false) { s with fbEvents := s.fbEvents ++ [(i, .failure)] } (.fbDec .fbErr)
  | dec (o : Out) : ex_FbStep i s sc fb (.fbDec o) { s with fbGauge := s.fbGauge - 1 } (.done o)

theorem ex_step_fb (i : Nat) (s : Exec.Shared) (l : Run.Local) (fb : FbScript) (pc : Exec.Pc) (s' : Exec.Shared)
    (l' : Exec.Local) (hpc : pc ≠ .running) (h : Exec.step i s (.call l fb pc) = some (s', l')) :
    ∃ pc', l' = .call l fb pc' ∧ ex_FbStep i s (ex_sc l.job) fb pc s' pc' := by
  cases pc with
  | running => exact absurd rfl hpc
  | gate =>
    simp only [Exec.step] at h
    split at h
    · rename_i h1
      simp only [Option.some.injEq, Prod.mk.injEq] at h
      obtain ⟨rfl, rfl⟩ := h
      exact ⟨_, rfl, .gateOn h1⟩
    · rename_i h1
      simp only [Option.some.injEq, Prod.mk.injEq] at h
      obtain ⟨rfl, rfl⟩ := h
      exact ⟨_, rfl, .gateOff (by simpa using h1)⟩
  | passthru =>
    obtain ⟨job, lpc, sw⟩ := l
    cases job <;>
    (simp only [Exec.step, Option.some.injEq, Prod.mk.injEq] at h
     obtain ⟨rfl, rfl⟩ := h
     exact ⟨_, rfl, .pass⟩)
  | decide r =>
    obtain ⟨job, lpc, sw⟩ := l
    cases job <;>
    (simp only [Exec.step, ex_sc] at h ⊢
     cases r with
     | manual =>
       simp only [Option.some.injEq, Prod.mk.injEq] at h
       obtain ⟨rfl, rfl⟩ := h
       exact ⟨_, rfl, .decManual⟩
     | panicked =>
       simp only [Option.some.injEq, Prod.mk.injEq] at h
       obtain ⟨rfl, rfl⟩ := h
       exact ⟨_, rfl, .decPanic⟩
     | shed | rejected | ran k =>
       try simp only at h
       split at h
       · rename_i h1
         simp only [Option.some.injEq, Prod.mk.injEq] at h
         obtain ⟨rfl, rfl⟩ := h
         exact ⟨_, rfl, .decOk _ (by simp) (by simp) (by simpa using h1)⟩
       · rename_i h1
         split at h
         · rename_i h2
           simp only [Option.some.injEq, Prod.mk.injEq] at h
           obtain ⟨rfl, rfl⟩ := h
           exact ⟨_, rfl, .decBad _ (by simp) (by simp) (by simpa using h1) h2⟩
         · rename_i h2
           split at h
           · rename_i h3
             simp only [Option.some.injEq, Prod.mk.injEq] at h
             obtain ⟨rfl, rfl⟩ := h
             exact ⟨_, rfl, .decNoFb _ (by simp) (by simp) (by simpa using h1) (by simpa using h2) (by simpa using h3)⟩
           · rename_i h3
             simp only [Option.some.injEq, Prod.mk.injEq] at h
             obtain ⟨rfl, rfl⟩ := h
             exact ⟨_, rfl, .decFb _ (by simp) (by simp) (by simpa using h1) (by simpa using h2) (by simpa using h3)⟩)
  | loadDisabled =>
    simp only [Exec.step] at h
    split at h
    · rename_i h1
      simp only [Option.some.injEq, Prod.mk.injEq] at h
      obtain ⟨rfl, rfl⟩ := h
      exact ⟨_, rfl, .disabled h1⟩
    · rename_i h1
      simp only [Option.some.injEq, Prod.mk.injEq] at h
      obtain ⟨rfl, rfl⟩ := h
      exact ⟨_, rfl, .enabled (by simpa using h1)⟩
  | fbAdd =>
    simp only [Exec.step, Option.some.injEq, Prod.mk.injEq] at h
    obtain ⟨rfl, rfl⟩ := h
    exact ⟨_, rfl, .add⟩
  | fbLoadLimit obs =>
    simp only [Exec.step] at h
    split at h
    · rename_i h1
      simp only [Option.some.injEq, Prod.mk.injEq] at h
      obtain ⟨rfl, rfl⟩ := h
      exact ⟨_, rfl, .refuse obs h1⟩
    · rename_i h1
      simp only [Option.some.injEq, Prod.mk.injEq] at h
      obtain ⟨rfl, rfl⟩ := h
      exact ⟨_, rfl, .grant obs h1⟩
  | fbDeliverReject =>
    simp only [Exec.step, Option.some.injEq, Prod.mk.injEq] at h
    obtain ⟨rfl, rfl⟩ := h
    exact ⟨_, rfl, .reject⟩
  | fbInvoke =>
    simp only [Exec.step, Option.some.injEq, Prod.mk.injEq] at h
    obtain ⟨rfl, rfl⟩ := h
    cases hp : fb.panics with
    | true => exact ⟨_, by simp, .invokePanic hp⟩
    | false => exact ⟨_, by simp, .invokeRet hp⟩
  | fbDeliver ok =>
    simp only [Exec.step, Option.some.injEq, Prod.mk.injEq] at h
    obtain ⟨rfl, rfl⟩ := h
    cases ok with
    | true => exact ⟨_, by simp, .deliverOk⟩
    | false => exact ⟨_, by simp, .deliverErr⟩
  | fbDec o =>
    simp only [Exec.step, Option.some.injEq, Prod.mk.injEq] at h
    obtain ⟨rfl, rfl⟩ := h
    exact ⟨_, rfl, .dec o⟩
  | done o => simp [Exec.step] at h

/-- past `c.run` every program counter but the last steps, whatever the shared state -/
theorem ex_step_fb_isSome (i : Nat) (s : Exec.Shared) (l : Run.Local) (fb : FbScript) (pc : Exec.Pc)
    (hpc : pc ≠ .running) (hd : ∀ o, pc ≠ .done o) : (Exec.step i s (.call l fb pc)).isSome = true := by
  cases pc with
  | running => exact absurd rfl hpc
  | done o => exact absurd rfl (hd o)
  | decide r =>
    simp only [Exec.step]
    cases r <;> simp only [] <;> (repeat' split) <;> rfl
  | loadDisabled => simp only [Exec.step]; split <;> rfl
  | gate => simp only [Exec.step]; split <;> rfl
  | fbLoadLimit obs => simp only [Exec.step]; split <;> rfl
  | passthru | fbAdd | fbDeliverReject | fbInvoke | fbDeliver ok | fbDec o => simp [Exec.step]

/-! ### the Conc/RunDyn view -/

def ex_proj (c : Config Exec.Shared Exec.Local) : Config Run.Shared RunDyn.Local :=
  { shared := c.shared.r, locals := c.locals.map ex_pl }

def ex_pj : Exec.Job → RunDyn.Job
  | .exec sc _ => .run (.call sc)
  | .open => .run .open
  | .close => .run .close
  | .reconfigure cfg => .reconfigure cfg.fo cfg.fc cfg.limit

theorem ex_proj_init (fo fc io : Bool) (m fm : Int) (fd : Bool) (jobs : List Exec.Job) (dis : Bool) :
    ex_proj (Exec.init fo fc io m fm fd jobs dis) = RunDyn.init fo fc io m (jobs.map ex_pj) := by
  simp only [ex_proj, Exec.init, RunDyn.init, List.map_map]
  congr 1
  apply List.map_congr_left
  intro j _
  cases j <;> rfl

/-- every step is a RunDyn step of the view, or leaves the view alone -/
theorem ex_proj_step (i : Nat) (s : Exec.Shared) (l : Exec.Local) (s' : Exec.Shared) (l' : Exec.Local)
    (h : Exec.step i s l = some (s', l')) :
    RunDyn.step i s.r (ex_pl l) = some (s'.r, ex_pl l') ∨ (s'.r = s.r ∧ ex_pl l' = ex_pl l) := by
  cases l with
  | op cfg k =>
    obtain ⟨_, rfl, _, _, _, _, _, _, h1⟩ := ex_step_op i s cfg k s' l' h
    exact h1
  | call l fb pc =>
    by_cases hpc : pc = .running
    · subst hpc
      rcases ex_step_running i s l fb s' l' h with ⟨r, _, rfl, rfl⟩ | ⟨sr, m, h1, rfl, rfl⟩
      · exact Or.inr ⟨rfl, rfl⟩
      · exact Or.inl (by simp [ex_pl, RunDyn.step, h1])
    · obtain ⟨pc', rfl, hs⟩ := ex_step_fb i s l fb pc s' l' hpc h
      refine Or.inr ⟨?_, rfl⟩
      cases hs <;> rfl

theorem ex_set_same {α : Type} (ls : List α) (i : Nat) (a : α) (h : ls[i]? = some a) : ls.set i a = ls := by
  induction ls generalizing i with
  | nil => rfl
  | cons x r ih =>
    cases i with
    | zero => simp only [List.getElem?_cons_zero, Option.some.injEq] at h; subst h; rfl
    | succ n => simp only [List.getElem?_cons_succ] at h; simp only [List.set_cons_succ, ih n h]

/-- a step-invariant of RunDyn is a step-invariant of the view -/
theorem ex_lift (Inv : Config Run.Shared RunDyn.Local → Prop)
    (hstep : ∀ (c : Config Run.Shared RunDyn.Local) (i : Nat) (l : RunDyn.Local) (s' : Run.Shared) (l' : RunDyn.Local),
      Inv c → c.locals[i]? = some l → RunDyn.step i c.shared l = some (s', l') →
      Inv { shared := s', locals := c.locals.set i l' })
    (c : Config Exec.Shared Exec.Local) (i : Nat) (l : Exec.Local) (s' : Exec.Shared) (l' : Exec.Local)
    (hc : Inv (ex_proj c)) (hl : c.locals[i]? = some l) (hs : Exec.step i c.shared l = some (s', l')) :
    Inv (ex_proj { shared := s', locals := c.locals.set i l' }) := by
  have hpl : (ex_proj c).locals[i]? = some (ex_pl l) := by simp [ex_proj, List.getElem?_map, hl]
  simp only [ex_proj, List.map_set]
  rcases ex_proj_step i _ l s' l' hs with h1 | ⟨h1, h2⟩
  · exact hstep (ex_proj c) i (ex_pl l) s'.r (ex_pl l') hc hpl h1
  · rw [h1, h2, ex_set_same (List.map ex_pl c.locals) i _ hpl]
    exact hc

theorem ex_lift_run (Inv : Config Run.Shared RunDyn.Local → Prop)
    (hstep : ∀ (c : Config Run.Shared RunDyn.Local) (i : Nat) (l : RunDyn.Local) (s' : Run.Shared) (l' : RunDyn.Local),
      Inv c → c.locals[i]? = some l → RunDyn.step i c.shared l = some (s', l') →
      Inv { shared := s', locals := c.locals.set i l' })
    (fo fc io : Bool) (m fm : Int) (fd : Bool) (jobs : List Exec.Job) (dis : Bool)
    (hinit : Inv (RunDyn.init fo fc io m (jobs.map ex_pj))) (sched : List Nat) :
    Inv (ex_proj (run Exec.sys (Exec.init fo fc io m fm fd jobs dis) sched)) :=
  CM.Props.C04.inv_all_schedules Exec.sys (fun c => Inv (ex_proj c))
    (fun c i l s' l' hc hl hs => ex_lift Inv hstep c i l s' l' hc hl hs) sched _
    (by rw [ex_proj_init]; exact hinit)

theorem ex_EInv_run (fo fc io : Bool) (m fm : Int) (fd : Bool) (jobs : List Exec.Job) (dis : Bool) (sched : List Nat) :
    rd_EInv (jobs.map ex_pj) (ex_proj (run Exec.sys (Exec.init fo fc io m fm fd jobs dis) sched)) :=
  ex_lift_run (rd_EInv (jobs.map ex_pj)) (fun c i l s' l' hc hl hs => rd_EInv_step _ c i l s' l' hc hl hs)
    fo fc io m fm fd jobs dis (rd_EInv_init fo fc io m _) sched

theorem ex_GInv_run (fo fc io : Bool) (m fm : Int) (fd : Bool) (jobs : List Exec.Job) (dis : Bool) (sched : List Nat) :
    rd_GInv (ex_proj (run Exec.sys (Exec.init fo fc io m fm fd jobs dis) sched)) :=
  ex_lift_run rd_GInv (fun c i l s' l' hc hl hs => rd_GInv_step c i l s' l' hc hl hs)
    fo fc io m fm fd jobs dis (rd_GInv_init fo fc io m _) sched

theorem ex_TInv_run (fo fc io : Bool) (m fm : Int) (fd : Bool) (jobs : List Exec.Job) (dis : Bool) (sched : List Nat) :
    rd_TInv io (ex_proj (run Exec.sys (Exec.init fo fc io m fm fd jobs dis) sched)) :=
  ex_lift_run (rd_TInv io) (fun c i l s' l' hc hl hs => rd_TInv_step io c i l s' l' hc hl hs)
    fo fc io m fm fd jobs dis (rd_TInv_init fo fc io m _) sched

/-! ### the fallback phase, thread by thread -/

/-- the ghost fallback events of thread `i`, in order -/
def ex_fevs (i : Nat) (evs : List (Nat × FbEv)) : List FbEv := (evs.filter fun e => e.1 == i).map (·.2)

theorem ex_fevs_append_self (i : Nat) (evs : List (Nat × FbEv)) (e : FbEv) :
    ex_fevs i (evs ++ [(i, e)]) = ex_fevs i evs ++ [e] := by
  simp [ex_fevs, List.filter_append]

theorem ex_fevs_append_other (i t : Nat) (evs : List (Nat × FbEv)) (e : FbEv) (h : t ≠ i) :
    ex_fevs i (evs ++ [(t, e)]) = ex_fevs i evs := by
  simp [ex_fevs, List.filter_append, h]

theorem ex_fbEventsOf (c : Config Exec.Shared Exec.Local) (i : Nat) :
    Exec.fbEventsOf c i = (ex_fevs i c.shared.fbEvents).filter fun e => e != .invoked := by
  simp only [Exec.fbEventsOf, ex_fevs]
  induction c.shared.fbEvents with
  | nil => rfl
  | cons x r ih =>
    simp only [List.filter_cons]
    by_cases h1 : x.1 == i <;> by_cases h2 : x.2 != FbEv.invoked <;> simp_all

theorem ex_fbInvokedCount (c : Config Exec.Shared Exec.Local) (i : Nat) :
    Exec.fbInvokedCount c i = ((ex_fevs i c.shared.fbEvents).filter fun e => e == .invoked).length := by
  simp only [Exec.fbInvokedCount, ex_fevs]
  induction c.shared.fbEvents with
  | nil => rfl
  | cons x r ih =>
    simp only [List.filter_cons]
    by_cases h1 : x.1 == i <;> by_cases h2 : x.2 == FbEv.invoked <;> simp_all

/-- the return-value contract (= `contract` of Props/ExecAll) -/
def ex_contract (sc : Run.Script) (fb : FbScript) (mayBeDisabled : Bool) (mayBeLimited : Bool) (r : Run.Res) (o : Out) : Prop :=
  match r with
  | .manual => o = .manual
  | .panicked => o = .runPanic
  | _ =>
    if !runFailed sc r then o = .ok
    else if runBad sc r then o = .runErr
    else if !fb.present then o = .runErr
    else (o = .runErr ∧ mayBeDisabled = true) ∨ (o = .limit ∧ mayBeLimited = true) ∨ (o = .fbPanic ∧ fb.panics = true) ∨
         (o = .fbOk ∧ fb.panics = false ∧ fb.fails = false) ∨ (o = .fbErr ∧ fb.panics = false ∧ fb.fails = true)

/-- values a setting can ever have (= the definitions of Props/ExecAll) -/
def ex_everDisabled (dis : Bool) (jobs : List Exec.Job) : Bool :=
  dis || jobs.any fun j => match j with | .reconfigure cfg => cfg.dis | _ => false
def ex_alwaysDisabled (dis : Bool) (jobs : List Exec.Job) : Bool :=
  dis && jobs.all fun j => match j with | .reconfigure cfg => cfg.dis | _ => true
def ex_everFbDisabled (fd : Bool) (jobs : List Exec.Job) : Bool :=
  fd || jobs.any fun j => match j with | .reconfigure cfg => cfg.fbDis | _ => false
def ex_someFbLimitNonneg (fm : Int) (jobs : List Exec.Job) : Bool :=
  decide (0 ≤ fm) || jobs.any fun j => match j with | .reconfigure cfg => decide (0 ≤ cfg.fbLimit) | _ => false
def ex_largestFbLimit (fm : Int) (jobs : List Exec.Job) : Int :=
  jobs.foldl (fun acc j => match j with | .reconfigure cfg => max acc cfg.fbLimit | _ => acc) fm

theorem ex_ed_job {dis : Bool} {jobs : List Exec.Job} {i : Nat} {cfg : OpCfg} (hj : jobs[i]? = some (.reconfigure cfg))
    (h : cfg.dis = true) : ex_everDisabled dis jobs = true := by
  simp only [ex_everDisabled, Bool.or_eq_true, List.any_eq_true]
  exact Or.inr ⟨_, List.mem_of_getElem? hj, h⟩

theorem ex_efd_job {fd : Bool} {jobs : List Exec.Job} {i : Nat} {cfg : OpCfg} (hj : jobs[i]? = some (.reconfigure cfg))
    (h : cfg.fbDis = true) : ex_everFbDisabled fd jobs = true := by
  simp only [ex_everFbDisabled, Bool.or_eq_true, List.any_eq_true]
  exact Or.inr ⟨_, List.mem_of_getElem? hj, h⟩

theorem ex_sln_job {fm : Int} {jobs : List Exec.Job} {i : Nat} {cfg : OpCfg} (hj : jobs[i]? = some (.reconfigure cfg))
    (h : 0 ≤ cfg.fbLimit) : ex_someFbLimitNonneg fm jobs = true := by
  simp only [ex_someFbLimitNonneg, Bool.or_eq_true, List.any_eq_true]
  exact Or.inr ⟨_, List.mem_of_getElem? hj, by simpa using h⟩

theorem ex_ad_job {dis : Bool} {jobs : List Exec.Job} {i : Nat} {cfg : OpCfg} (hj : jobs[i]? = some (.reconfigure cfg))
    (h : ex_alwaysDisabled dis jobs = true) : cfg.dis = true := by
  simp only [ex_alwaysDisabled, Bool.and_eq_true, List.all_eq_true] at h
  exact h.2 _ (List.mem_of_getElem? hj)

/-- `c.run` handed Execute an error that is not a bad request, and there is a fallback function -/
def ex_pre (sc : Run.Script) (fb : FbScript) (r : Run.Res) : Prop :=
  r ≠ .manual ∧ r ≠ .panicked ∧ runFailed sc r = true ∧ runBad sc r = false ∧ fb.present = true

theorem ex_contract_fb (sc : Run.Script) (fb : FbScript) (mbd mbl : Bool) (r : Run.Res) (o : Out) (hp : ex_pre sc fb r)
    (h : (o = .runErr ∧ mbd = true) ∨ (o = .limit ∧ mbl = true) ∨ (o = .fbPanic ∧ fb.panics = true) ∨
         (o = .fbOk ∧ fb.panics = false ∧ fb.fails = false) ∨ (o = .fbErr ∧ fb.panics = false ∧ fb.fails = true)) :
    ex_contract sc fb mbd mbl r o := by
  obtain ⟨h1, h2, h3, h4, h5⟩ := hp
  cases r <;> simp_all [ex_contract]

/-- everything the fallback phase appends for a call that ends as `o` -/
def ex_outEvs : Out → List FbEv
  | .limit => [.reject]
  | .fbOk => [.invoked, .success]
  | .fbErr => [.invoked, .failure]
  | .fbPanic => [.invoked]
  | _ => []

/-- how often thread `i`'s run function was called directly -/
def ex_dc (i : Nat) (direct : List Nat) : Nat := (direct.filter (· == i)).length

theorem ex_dc_append_self (i : Nat) (d : List Nat) : ex_dc i (d ++ [i]) = ex_dc i d + 1 := by
  simp [ex_dc, List.filter_append]

theorem ex_dc_append_other (i t : Nat) (d : List Nat) (h : t ≠ i) : ex_dc i (d ++ [t]) = ex_dc i d := by
  simp [ex_dc, List.filter_append, h]

theorem ex_outEvs_passOut (sc : Run.Script) : ex_outEvs (ex_passOut sc) = [] := by
  unfold ex_passOut
  split
  · rfl
  · split <;> rfl

theorem ex_passOut_ne_limit (sc : Run.Script) : Out.limit ≠ ex_passOut sc := by
  unfold ex_passOut
  split
  · simp
  · split <;> simp

/-- an OpenCircuit / CloseCircuit thread -/
def ex_man (job : Run.Job) : Prop := ∀ sc, job ≠ .call sc

/-- what a call thread's own fallback events (`evs`) and direct calls (`dc`) are and what it knows, by program counter
    (`lpc` = the Run thread's).  The settings are live, so what a thread knows is in terms of what the settings can EVER be:
    `ED` the kill switch was ever on, `AD` it is always on (then only OpenCircuit / CloseCircuit threads get past the gate),
    `EFD` fallbacks were ever disabled, `SLN` some fallback limit ever in force was ≥ 0 -/
def ex_ok (job : Run.Job) (fb : FbScript) (ED AD EFD SLN : Bool) (lpc : Run.Pc) : Exec.Pc → List FbEv → Nat → Prop
  | .gate, evs, dc => evs = [] ∧ dc = 0 ∧ lpc = .aFO
  | .passthru, evs, dc => evs = [] ∧ dc = 0 ∧ lpc = .aFO ∧ ED = true
  | .running, evs, dc => evs = [] ∧ dc = 0 ∧ (AD = true → ex_man job)
  | .decide r, evs, dc => evs = [] ∧ dc = 0 ∧ lpc = .done r ∧ (AD = true → r = .manual ∧ ex_man job)
  | .loadDisabled, evs, dc | .fbAdd, evs, dc | .fbLoadLimit _, evs, dc | .fbInvoke, evs, dc =>
    evs = [] ∧ dc = 0 ∧ AD = false ∧ ∃ r, lpc = .done r ∧ ex_pre (ex_sc job) fb r
  | .fbDeliverReject, evs, dc =>
    evs = [] ∧ dc = 0 ∧ AD = false ∧ SLN = true ∧ ∃ r, lpc = .done r ∧ ex_pre (ex_sc job) fb r
  | .fbDeliver ok, evs, dc =>
    evs = [.invoked] ∧ dc = 0 ∧ AD = false ∧ ok = !fb.fails ∧ fb.panics = false ∧
      ∃ r, lpc = .done r ∧ ex_pre (ex_sc job) fb r
  | .fbDec o, evs, dc =>
    evs = ex_outEvs o ∧ dc = 0 ∧ AD = false ∧ ∃ r, lpc = .done r ∧ ex_contract (ex_sc job) fb EFD SLN r o
  | .done o, evs, dc =>
    (evs = ex_outEvs o ∧ dc = 0 ∧ (AD = true → ex_man job) ∧ ∃ r, lpc = .done r ∧ ex_contract (ex_sc job) fb EFD SLN r o) ∨
    (ED = true ∧ lpc = .aFO ∧ evs = [] ∧ dc = 1 ∧ o = ex_passOut (ex_sc job))

theorem ex_FbStep_frame (i : Nat) (s : Exec.Shared) (sc : Run.Script) (fb : FbScript) (pc : Exec.Pc) (s' : Exec.Shared)
    (pc' : Exec.Pc) (h : ex_FbStep i s sc fb pc s' pc') :
    s'.r = s.r ∧ s'.fbLimit = s.fbLimit ∧ s'.fbDisabled = s.fbDisabled ∧ s'.disabled = s.disabled ∧
      ∀ j, i ≠ j → ex_fevs j s'.fbEvents = ex_fevs j s.fbEvents ∧ ex_dc j s'.direct = ex_dc j s.direct := by
  cases h <;> refine ⟨rfl, rfl, rfl, rfl, ?_⟩ <;> intro j hj <;>
    first
      | exact ⟨rfl, rfl⟩
      | exact ⟨ex_fevs_append_other j i _ _ hj, rfl⟩
      | exact ⟨rfl, ex_dc_append_other j i _ hj⟩

theorem ex_FbStep_self (i : Nat) (s : Exec.Shared) (job : Run.Job) (fb : FbScript) (ED AD EFD SLN : Bool) (pc : Exec.Pc)
    (s' : Exec.Shared) (pc' : Exec.Pc) (lpc : Run.Pc) (h : ex_FbStep i s (ex_sc job) fb pc s' pc')
    (sd : s.disabled = true → ED = true) (ad : AD = true → s.disabled = true)
    (sfd : s.fbDisabled = true → EFD = true) (sfl : 0 ≤ s.fbLimit → SLN = true)
    (hok : ex_ok job fb ED AD EFD SLN lpc pc (ex_fevs i s.fbEvents) (ex_dc i s.direct)) :
    ex_ok job fb ED AD EFD SLN lpc pc' (ex_fevs i s'.fbEvents) (ex_dc i s'.direct) := by
  have hAD : ∀ r : Run.Res, r ≠ .manual → (AD = true → r = .manual ∧ ex_man job) → AD = false := by
    intro r hr h
    cases hA : AD with
    | false => rfl
    | true => exact absurd (h hA).1 hr
  cases h with
  | gateOn hd => exact ⟨hok.1, hok.2.1, hok.2.2, sd hd⟩
  | gateOff hd => exact ⟨hok.1, hok.2.1, fun e => by rw [ad e] at hd; cases hd⟩
  | pass =>
    obtain ⟨he, hdc, hl, hd⟩ := hok
    exact Or.inr ⟨hd, hl, he, by rw [ex_dc_append_self, hdc], rfl⟩
  | decManual =>
    obtain ⟨he, hdc, hl, hd⟩ := hok
    exact Or.inl ⟨by rw [he]; rfl, hdc, fun e => (hd e).2, _, hl, by simp [ex_contract]⟩
  | decPanic =>
    obtain ⟨he, hdc, hl, hd⟩ := hok
    exact Or.inl ⟨by rw [he]; rfl, hdc, fun e => (hd e).2, _, hl, by simp [ex_contract]⟩
  | decOk r h1 h2 h3 =>
    obtain ⟨he, hdc, hl, hd⟩ := hok
    refine Or.inl ⟨by rw [he]; rfl, hdc, fun e => (hd e).2, _, hl, ?_⟩
    cases r <;> simp_all [ex_contract]
  | decBad r h1 h2 h3 h4 =>
    obtain ⟨he, hdc, hl, hd⟩ := hok
    refine Or.inl ⟨by rw [he]; rfl, hdc, fun e => (hd e).2, _, hl, ?_⟩
    cases r <;> simp_all [ex_contract]
  | decNoFb r h1 h2 h3 h4 h5 =>
    obtain ⟨he, hdc, hl, hd⟩ := hok
    refine Or.inl ⟨by rw [he]; rfl, hdc, fun e => (hd e).2, _, hl, ?_⟩
    cases r <;> simp_all [ex_contract]
  | decFb r h1 h2 h3 h4 h5 =>
    obtain ⟨he, hdc, hl, hd⟩ := hok
    exact ⟨he, hdc, hAD r h1 hd, _, hl, h1, h2, h3, h4, h5⟩
  | disabled hd =>
    obtain ⟨he, hdc, hA, r, hr, hp⟩ := hok
    refine Or.inl ⟨by rw [he]; rfl, hdc, (fun e => by rw [hA] at e; cases e), r, hr, ?_⟩
    exact ex_contract_fb _ fb _ _ r _ hp (Or.inl ⟨rfl, sfd hd⟩)
  | enabled hd => exact hok
  | add => exact hok
  | refuse obs hlim => exact ⟨hok.1, hok.2.1, hok.2.2.1, sfl hlim.1, hok.2.2.2⟩
  | grant obs hlim => exact hok
  | reject =>
    obtain ⟨he, hdc, hA, hm, r, hr, hp⟩ := hok
    refine ⟨by simp only [ex_fevs_append_self, he]; rfl, hdc, hA, r, hr, ?_⟩
    exact ex_contract_fb _ fb _ _ r _ hp (Or.inr (Or.inl ⟨rfl, hm⟩))
  | invokePanic hpn =>
    obtain ⟨he, hdc, hA, r, hr, hp⟩ := hok
    refine ⟨by simp only [ex_fevs_append_self, he]; rfl, hdc, hA, r, hr, ?_⟩
    exact ex_contract_fb _ fb _ _ r _ hp (Or.inr (Or.inr (Or.inl ⟨rfl, hpn⟩)))
  | invokeRet hpn =>
    obtain ⟨he, hdc, hA, r, hr, hp⟩ := hok
    exact ⟨by simp only [ex_fevs_append_self, he]; rfl, hdc, hA, rfl, hpn, r, hr, hp⟩
  | deliverOk =>
    obtain ⟨he, hdc, hA, hf, hpn, r, hr, hp⟩ := hok
    refine ⟨by simp only [ex_fevs_append_self, he]; rfl, hdc, hA, r, hr, ?_⟩
    exact ex_contract_fb _ fb _ _ r _ hp (Or.inr (Or.inr (Or.inr (Or.inl ⟨rfl, hpn, by simpa using hf⟩))))
  | deliverErr =>
    obtain ⟨he, hdc, hA, hf, hpn, r, hr, hp⟩ := hok
    refine ⟨by simp only [ex_fevs_append_self, he]; rfl, hdc, hA, r, hr, ?_⟩
    exact ex_contract_fb _ fb _ _ r _ hp (Or.inr (Or.inr (Or.inr (Or.inr ⟨rfl, hpn, by simpa using hf⟩))))
  | dec o =>
    obtain ⟨he, hdc, hA, hc⟩ := hok
    exact Or.inl ⟨he, hdc, (fun e => by rw [hA] at e; cases e), hc⟩

def ex_jobOf : Exec.Job → Option (Run.Job × FbScript)
  | .exec sc fb => some (.call sc, fb)
  | .open => some (.open, {})
  | .close => some (.close, {})
  | .reconfigure .. => none

def ex_okL (jobs : List Exec.Job) (ED AD EFD SLN : Bool) (i : Nat) (evs : List FbEv) (dc : Nat) :
    Option Exec.Local → Prop
  | some (.call l fb pc) => (jobs[i]?).bind ex_jobOf = some (l.job, fb) ∧ ex_ok l.job fb ED AD EFD SLN l.pc pc evs dc
  | some (.op cfg _) => jobs[i]? = some (.reconfigure cfg) ∧ evs = [] ∧ dc = 0
  | none => evs = [] ∧ dc = 0

/-- each live setting has the initial value or one an operator of the job list installs -/
structure ex_SInv (jobs : List Exec.Job) (dis fd : Bool) (fm : Int) (s : Exec.Shared) : Prop where
  sd : s.disabled = true → ex_everDisabled dis jobs = true
  ad : ex_alwaysDisabled dis jobs = true → s.disabled = true
  sfd : s.fbDisabled = true → ex_everFbDisabled fd jobs = true
  sfl : 0 ≤ s.fbLimit → ex_someFbLimitNonneg fm jobs = true

structure ex_FInv (jobs : List Exec.Job) (dis fd : Bool) (fm : Int) (c : Config Exec.Shared Exec.Local) : Prop where
  S : ex_SInv jobs dis fd fm c.shared
  ok : ∀ i, ex_okL jobs (ex_everDisabled dis jobs) (ex_alwaysDisabled dis jobs) (ex_everFbDisabled fd jobs)
    (ex_someFbLimitNonneg fm jobs) i (ex_fevs i c.shared.fbEvents) (ex_dc i c.shared.direct) c.locals[i]?

theorem ex_FInv_init (fo fc io : Bool) (m fm : Int) (fd : Bool) (jobs : List Exec.Job) (dis : Bool) :
    ex_FInv jobs dis fd fm (Exec.init fo fc io m fm fd jobs dis) := by
  refine ⟨⟨?_, ?_, ?_, ?_⟩, ?_⟩
  · intro h
    simp only [Exec.init] at h
    simp [ex_everDisabled, h]
  · intro h
    simp only [ex_alwaysDisabled, Bool.and_eq_true] at h
    exact h.1
  · intro h
    simp only [Exec.init] at h
    simp [ex_everFbDisabled, h]
  · intro h
    simp only [Exec.init] at h
    simp [ex_someFbLimitNonneg, h]
  · intro i
    simp only [Exec.init, List.getElem?_map]
    cases hj : jobs[i]? with
    | none => simp [ex_okL, ex_fevs, ex_dc]
    | some j =>
      cases j <;> simp [Exec.startLocal, ex_okL, ex_jobOf, ex_ok, ex_fevs, ex_dc, hj, Run.startPc, ex_man]

/-- an OpenCircuit / CloseCircuit thread's `c.run` ends as `manual` -/
theorem ex_man_done (jobs : List RunDyn.Job) (c : Config Exec.Shared Exec.Local) (E : rd_EInv jobs (ex_proj c)) (i : Nat)
    (l : Run.Local) (fb : FbScript) (pc : Exec.Pc) (hl : c.locals[i]? = some (.call l fb pc)) (hm : ex_man l.job) :
    l.pc = .done .manual ∨ ∃ tl, l.pc = .trans tl .manual := by
  have h := E i
  have hpl : (ex_proj c).locals[i]? = some (.call l) := by simp [ex_proj, List.getElem?_map, hl, ex_pl]
  rw [hpl] at h
  obtain ⟨_, hok⟩ := h
  obtain ⟨job, lpc, sw⟩ := l
  cases job with
  | call sc => exact absurd rfl (hm sc)
  | «open» => exact hok.2
  | close => exact hok.2

theorem ex_FInv_step (jobs : List Exec.Job) (dis fd : Bool) (fm : Int) (c : Config Exec.Shared Exec.Local) (i : Nat)
    (l : Exec.Local) (s' : Exec.Shared) (l' : Exec.Local) (jobs' : List RunDyn.Job) (E : rd_EInv jobs' (ex_proj c))
    (I : ex_FInv jobs dis fd fm c) (hl : c.locals[i]? = some l)
    (hs : Exec.step i c.shared l = some (s', l')) : ex_FInv jobs dis fd fm { shared := s', locals := c.locals.set i l' } := by
  have hilt := Call.ccall_lt_of_getElem? hl
  have hi := I.ok i
  rw [hl] at hi
  -- the frame: other threads' events untouched; what remains is the settings and the stepping thread
  suffices h : ex_SInv jobs dis fd fm s' ∧
      (∀ j, i ≠ j → ex_fevs j s'.fbEvents = ex_fevs j c.shared.fbEvents ∧ ex_dc j s'.direct = ex_dc j c.shared.direct) ∧
      ex_okL jobs (ex_everDisabled dis jobs) (ex_alwaysDisabled dis jobs) (ex_everFbDisabled fd jobs)
        (ex_someFbLimitNonneg fm jobs) i (ex_fevs i s'.fbEvents) (ex_dc i s'.direct) (some l') by
    obtain ⟨h1, h3, h4⟩ := h
    refine ⟨h1, ?_⟩
    intro j
    by_cases hij : i = j
    · subst hij
      simp only [List.getElem?_set_self hilt]
      exact h4
    · simp only [List.getElem?_set_ne hij, (h3 j hij).1, (h3 j hij).2]
      exact I.ok j
  cases l with
  | op cfg k =>
    obtain ⟨_, rfl, _, he, hd, h1, h2, h3, _⟩ := ex_step_op i _ cfg k s' l' hs
    have hj := hi.1
    refine ⟨⟨?_, ?_, ?_, ?_⟩, fun _ _ => by rw [he, hd]; exact ⟨rfl, rfl⟩, by rw [he, hd]; exact hi⟩
    · intro h
      rcases h1 with h1 | h1
      · exact I.S.sd (h1 ▸ h)
      · exact ex_ed_job hj (h1 ▸ h)
    · intro h
      rcases h1 with h1 | h1
      · rw [h1]; exact I.S.ad h
      · rw [h1]; exact ex_ad_job hj h
    · intro h
      rcases h2 with h2 | h2
      · exact I.S.sfd (h2 ▸ h)
      · exact ex_efd_job hj (h2 ▸ h)
    · intro h
      rcases h3 with h3 | h3
      · exact I.S.sfl (h3 ▸ h)
      · exact ex_sln_job hj (h3 ▸ h)
  | call l fb pc =>
    by_cases hpc : pc = .running
    · subst hpc
      rcases ex_step_running i _ l fb s' l' hs with ⟨r, hr, rfl, rfl⟩ | ⟨sr, m, h1, rfl, rfl⟩
      · refine ⟨I.S, fun _ _ => ⟨rfl, rfl⟩, hi.1, hi.2.1, hi.2.2.1, hr, ?_⟩
        intro hd
        have hm := hi.2.2.2 hd
        refine ⟨?_, hm⟩
        rcases ex_man_done jobs' c E i l fb _ hl hm with h | ⟨tl, h⟩ <;> rw [hr] at h <;> cases h
        rfl
      · have hjob := (re_step_events i _ _ _ _ h1).1
        refine ⟨⟨I.S.sd, I.S.ad, I.S.sfd, I.S.sfl⟩, fun _ _ => ⟨rfl, rfl⟩, ?_, ?_⟩
        · rw [hjob]; exact hi.1
        · rw [hjob]; exact hi.2
    · obtain ⟨pc', rfl, hst⟩ := ex_step_fb i _ l fb pc s' l' hpc hs
      obtain ⟨_, f1, f2, f0, f3⟩ := ex_FbStep_frame i _ _ fb pc s' pc' hst
      refine ⟨⟨by rw [f0]; exact I.S.sd, by rw [f0]; exact I.S.ad, by rw [f2]; exact I.S.sfd, by rw [f1]; exact I.S.sfl⟩,
        f3, hi.1, ?_⟩
      exact ex_FbStep_self i _ l.job fb _ _ _ _ pc s' pc' l.pc hst I.S.sd I.S.ad I.S.sfd I.S.sfl hi.2

/-- the two invariants together (the fallback-phase one leans on the run events: an OpenCircuit ends as `manual`) -/
structure ex_Inv (jobs : List Exec.Job) (dis fd : Bool) (fm : Int) (c : Config Exec.Shared Exec.Local) : Prop where
  E : rd_EInv (jobs.map ex_pj) (ex_proj c)
  F : ex_FInv jobs dis fd fm c

theorem ex_Inv_run (fo fc io : Bool) (m fm : Int) (fd : Bool) (jobs : List Exec.Job) (dis : Bool) (sched : List Nat) :
    ex_Inv jobs dis fd fm (run Exec.sys (Exec.init fo fc io m fm fd jobs dis) sched) :=
  CM.Props.C04.inv_all_schedules Exec.sys (ex_Inv jobs dis fd fm)
    (fun c i l s' l' hc hl hs =>
      ⟨ex_lift (rd_EInv (jobs.map ex_pj)) (fun c i l s' l' hc hl hs => rd_EInv_step _ c i l s' l' hc hl hs) c i l s' l' hc.E hl hs,
       ex_FInv_step jobs dis fd fm c i l s' l' _ hc.E hc.F hl hs⟩) sched _
    ⟨by rw [ex_proj_init]; exact rd_EInv_init fo fc io m _, ex_FInv_init fo fc io m fm fd jobs dis⟩

theorem ex_FInv_run (fo fc io : Bool) (m fm : Int) (fd : Bool) (jobs : List Exec.Job) (dis : Bool) (sched : List Nat) :
    ex_FInv jobs dis fd fm (run Exec.sys (Exec.init fo fc io m fm fd jobs dis) sched) :=
  (ex_Inv_run fo fc io m fm fd jobs dis sched).F

/-! ### the fallback bulkhead: Lemmas/Conc's `GInv`, the ghost region existentially bound, read at a limit `L` that every
    limit in force stays below (or at a negative `L` = unlimited: then it is a pure counting invariant) -/

def ex_gl : Exec.Pc → Gauge.Local
  | .fbLoadLimit obs => .incd obs
  | .fbDeliverReject => .rejecting
  | .fbInvoke => .running
  | .fbDeliver _ => .leaving
  | .fbDec .limit => .rejecting
  | .fbDec _ => .leaving
  | .done _ => .finished true
  | _ => .idle

def ex_glL : Exec.Local → Gauge.Local
  | .call _ _ pc => ex_gl pc
  | .op .. => .idle

def ex_BInv (L : Int) (c : Config Exec.Shared Exec.Local) : Prop :=
  ∃ region, GInv L { gauge := c.shared.fbGauge, limit := L, region := region } (c.locals.map ex_glL)

theorem ex_BInv_init (L : Int) (fo fc io : Bool) (m fm : Int) (fd : Bool) (jobs : List Exec.Job) (dis : Bool) :
    ex_BInv L (Exec.init fo fc io m fm fd jobs dis) := by
  refine ⟨[], ?_⟩
  have : (jobs.map Exec.startLocal).map ex_glL = List.replicate jobs.length .idle := by
    induction jobs with
    | nil => rfl
    | cons j r ih =>
      simp only [List.map_cons, List.length_cons, List.replicate_succ, ih]
      cases j <;> rfl
  simp only [Exec.init, this]
  exact GInv.init _ _

/-- `hL`: the limit read at a grant is one `L` covers -/
theorem ex_BInv_step (L : Int) (c : Config Exec.Shared Exec.Local) (i : Nat) (l : Exec.Local) (s' : Exec.Shared)
    (l' : Exec.Local) (hL : L < 0 ∨ (0 ≤ c.shared.fbLimit ∧ c.shared.fbLimit ≤ L))
    (I : ex_BInv L c) (hl : c.locals[i]? = some l) (hs : Exec.step i c.shared l = some (s', l')) :
    ex_BInv L { shared := s', locals := c.locals.set i l' } := by
  obtain ⟨reg, G⟩ := I
  have hgl : (c.locals.map ex_glL)[i]? = some (ex_glL l) := by simp [List.getElem?_map, hl]
  simp only [ex_BInv, List.map_set]
  cases l with
  | op cfg k =>
    obtain ⟨_, rfl, hg, _⟩ := ex_step_op i _ cfg k s' l' hs
    rw [hg]
    exact ⟨reg, G.local_step hgl rfl rfl (fun e h => h)⟩
  | call l fb pc =>
    by_cases hpc : pc = .running
    · subst hpc
      rcases ex_step_running i _ l fb s' l' hs with ⟨r, hr, rfl, rfl⟩ | ⟨sr, m, h1, rfl, rfl⟩
      · exact ⟨reg, G.local_step hgl rfl rfl (fun e h => h)⟩
      · exact ⟨reg, G.local_step hgl rfl rfl (fun e h => h)⟩
    · obtain ⟨pc', rfl, hst⟩ := ex_step_fb i _ l fb pc s' l' hpc hs
      simp only [ex_glL] at hgl ⊢
      cases hst with
      | gateOn | gateOff | pass | decManual | decPanic | decOk | decBad | decNoFb | decFb | disabled | enabled | reject | invokePanic
        | invokeRet | deliverOk | deliverErr =>
        exact ⟨reg, G.local_step hgl rfl rfl (fun e h => h)⟩
      | add => exact ⟨_, G.enter_step hgl⟩
      | refuse obs hlim => exact ⟨reg, G.local_step hgl rfl rfl (fun e h => h.2)⟩
      | grant obs hlim => exact ⟨_, G.grant_step hgl (by simp only; omega)⟩
      | dec o =>
        have hr : inRegion (ex_gl (.fbDec o)) = true := by cases o <;> rfl
        exact ⟨_, G.exit_step true hgl hr⟩

/-- the counting reading: no hypothesis on the limits -/
theorem ex_BInv_run (fo fc io : Bool) (m fm : Int) (fd : Bool) (jobs : List Exec.Job) (dis : Bool) (sched : List Nat) :
    ex_BInv (-1) (run Exec.sys (Exec.init fo fc io m fm fd jobs dis) sched) :=
  CM.Props.C04.inv_all_schedules Exec.sys (ex_BInv (-1))
    (fun c i l s' l' hc hl hs => ex_BInv_step (-1) c i l s' l' (Or.inl (by decide)) hc hl hs) sched _
    (ex_BInv_init (-1) fo fc io m fm fd jobs dis)

theorem ex_largest_ge (fm : Int) (jobs : List Exec.Job) : fm ≤ ex_largestFbLimit fm jobs := by
  induction jobs generalizing fm with
  | nil => exact Int.le_refl fm
  | cons j r ih =>
    simp only [ex_largestFbLimit, List.foldl_cons]
    cases j with
    | reconfigure cfg => exact Int.le_trans (Int.le_max_left fm cfg.fbLimit) (ih (max fm cfg.fbLimit))
    | _ => exact ih fm

theorem ex_largest_mem (fm : Int) (jobs : List Exec.Job) (cfg : OpCfg) (h : Exec.Job.reconfigure cfg ∈ jobs) :
    cfg.fbLimit ≤ ex_largestFbLimit fm jobs := by
  induction jobs generalizing fm with
  | nil => simp at h
  | cons j r ih =>
    simp only [List.mem_cons] at h
    rcases h with h | h
    · subst h
      simp only [ex_largestFbLimit, List.foldl_cons]
      exact Int.le_trans (Int.le_max_right fm cfg.fbLimit) (ex_largest_ge (max fm cfg.fbLimit) r)
    · simp only [ex_largestFbLimit, List.foldl_cons]
      exact ih _ h

/-- the bulkhead read at the largest limit ever in force, none of them negative -/
structure ex_LInv (L : Int) (c : Config Exec.Shared Exec.Local) : Prop where
  b : ex_BInv L c
  lim0 : 0 ≤ c.shared.fbLimit
  limL : c.shared.fbLimit ≤ L
  ops : ∀ cfg st, Exec.Local.op cfg st ∈ c.locals → 0 ≤ cfg.fbLimit ∧ cfg.fbLimit ≤ L

theorem ex_LInv_step (L : Int) (c : Config Exec.Shared Exec.Local) (i : Nat) (l : Exec.Local) (s' : Exec.Shared)
    (l' : Exec.Local) (I : ex_LInv L c) (hl : c.locals[i]? = some l) (hs : Exec.step i c.shared l = some (s', l')) :
    ex_LInv L { shared := s', locals := c.locals.set i l' } := by
  have hb := ex_BInv_step L c i l s' l' (Or.inr ⟨I.lim0, I.limL⟩) I.b hl hs
  cases l with
  | op cfg k =>
    have hk := I.ops cfg k (List.mem_of_getElem? hl)
    obtain ⟨_, rfl, _, _, _, _, _, h3, _⟩ := ex_step_op i _ cfg k s' l' hs
    refine ⟨hb, ?_, ?_, ?_⟩
    · rcases h3 with h3 | h3 <;> simp only [h3]
      · exact I.lim0
      · exact hk.1
    · rcases h3 with h3 | h3 <;> simp only [h3]
      · exact I.limL
      · exact hk.2
    · intro cfg' st hmem
      rcases List.mem_or_eq_of_mem_set hmem with hmem | he
      · exact I.ops _ _ hmem
      · cases he; exact hk
  | call l fb pc =>
    have hlim : s'.fbLimit = c.shared.fbLimit := by
      by_cases hpc : pc = .running
      · subst hpc
        rcases ex_step_running i _ l fb s' l' hs with ⟨r, hr, rfl, rfl⟩ | ⟨sr, m, h1, rfl, rfl⟩ <;> rfl
      · obtain ⟨pc', rfl, hst⟩ := ex_step_fb i _ l fb pc s' l' hpc hs
        exact (ex_FbStep_frame i _ _ fb pc s' pc' hst).2.1
    have hl' : ∃ m fb' pc', l' = .call m fb' pc' := by
      by_cases hpc : pc = .running
      · subst hpc
        rcases ex_step_running i _ l fb s' l' hs with ⟨r, hr, rfl, rfl⟩ | ⟨sr, m, h1, rfl, rfl⟩ <;> exact ⟨_, _, _, rfl⟩
      · obtain ⟨pc', rfl, hst⟩ := ex_step_fb i _ l fb pc s' l' hpc hs
        exact ⟨_, _, _, rfl⟩
    refine ⟨hb, by simp only [hlim]; exact I.lim0, by simp only [hlim]; exact I.limL, ?_⟩
    intro cfg' st hmem
    rcases List.mem_or_eq_of_mem_set hmem with hmem | he
    · exact I.ops _ _ hmem
    · obtain ⟨m, fb', pc', e⟩ := hl'
      rw [e] at he; cases he

theorem ex_LInv_run (fo fc io : Bool) (m fm : Int) (fd : Bool) (jobs : List Exec.Job) (dis : Bool) (sched : List Nat)
    (hfm : 0 ≤ fm) (hj : ∀ j ∈ jobs, match j with | .reconfigure cfg => 0 ≤ cfg.fbLimit | _ => True) :
    ex_LInv (ex_largestFbLimit fm jobs) (run Exec.sys (Exec.init fo fc io m fm fd jobs dis) sched) := by
  refine CM.Props.C04.inv_all_schedules Exec.sys (ex_LInv (ex_largestFbLimit fm jobs))
    (fun c i l s' l' hc hl hs => ex_LInv_step _ c i l s' l' hc hl hs) sched _ ?_
  refine ⟨ex_BInv_init _ fo fc io m fm fd jobs dis, hfm, ex_largest_ge fm jobs, ?_⟩
  intro cfg st hmem
  simp only [Exec.init, List.mem_map] at hmem
  obtain ⟨j, hjm, he⟩ := hmem
  cases j with
  | reconfigure cfg' =>
    simp only [Exec.startLocal, Exec.Local.op.injEq] at he
    obtain ⟨rfl, _⟩ := he
    exact ⟨hj _ hjm, ex_largest_mem fm jobs _ hjm⟩
  | _ => simp [Exec.startLocal] at he

theorem ex_fbInFlight_eq (c : Config Exec.Shared Exec.Local) :
    Exec.fbInFlight c = ((c.locals.map ex_glL).filter (· == .running)).length := by
  simp only [Exec.fbInFlight]
  induction c.locals with
  | nil => rfl
  | cons a r ih =>
    simp only [List.map_cons, List.filter_cons]
    cases a with
    | op => simpa [ex_glL] using ih
    | call l fb pc =>
      cases pc with
      | fbDec o => cases o <;> simpa [ex_glL, ex_gl] using ih
      | _ => simpa [ex_glL, ex_gl] using ih

theorem ex_allDone_inRegion (c : Config Exec.Shared Exec.Local) (h : Exec.allDone c = true) :
    (c.locals.map ex_glL).countP inRegion = 0 := by
  rw [List.countP_eq_zero]
  intro g hg
  simp only [List.mem_map] at hg
  obtain ⟨l, hl, rfl⟩ := hg
  have := List.all_eq_true.mp h l hl
  cases l with
  | op => simp [ex_glL, inRegion]
  | call l fb pc => cases pc <;> simp_all [ex_glL, ex_gl, inRegion]

/-! ### the run gauge at quiescence -/

theorem ex_cnt_zero (ls : List RunDyn.Local) (h : ∀ l ∈ ls, rd_wL l = 0) : rd_cnt ls = 0 := by
  induction ls with
  | nil => rfl
  | cons a r ih =>
    simp only [rd_cnt, h a (List.mem_cons_self ..), ih (fun l hl => h l (List.mem_cons_of_mem _ hl))]
    rfl

theorem ex_allDone_cnt (jobs : List Exec.Job) (dis fd : Bool) (fm : Int) (c : Config Exec.Shared Exec.Local)
    (I : ex_FInv jobs dis fd fm c) (h : Exec.allDone c = true) : rd_cnt (c.locals.map ex_pl) = 0 := by
  apply ex_cnt_zero
  intro g hg
  simp only [List.mem_map] at hg
  obtain ⟨l, hl, rfl⟩ := hg
  have hd := List.all_eq_true.mp h l hl
  obtain ⟨i, hi⟩ := List.mem_iff_getElem?.mp hl
  have hok := I.ok i
  rw [hi] at hok
  cases l with
  | op => rfl
  | call l fb pc =>
    cases pc <;> simp at hd
    rcases hok.2 with ⟨_, _, _, r, hr, _⟩ | ⟨_, hr, _⟩ <;> simp [ex_pl, rd_wL, rd_w, rd_holds, hr]

/-! ### progress -/

theorem ex_progress (jobs : List Exec.Job) (dis fd : Bool) (fm : Int) (io : Bool) (c : Config Exec.Shared Exec.Local)
    (F : ex_FInv jobs dis fd fm c) (T : rd_TInv io (ex_proj c)) (hnd : Exec.allDone c = false) :
    ∃ i l, c.locals[i]? = some l ∧ (Exec.step i c.shared l).isSome = true := by
  -- a call thread still inside `c.run` whose Run thread can step, steps
  have hrun : ∀ i l fb, (∀ r, l.pc ≠ .done r) → (Run.step i c.shared.r l).isSome = true →
      (Exec.step i c.shared (.call l fb .running)).isSome = true := by
    intro i l fb hd h
    obtain ⟨job, lpc, sw⟩ := l
    cases lpc with
    | done r => exact absurd rfl (hd r)
    | _ => simpa [Exec.step] using h
  cases hh : c.shared.r.t.holder with
  | some h =>
    obtain ⟨l, tl, after, hl, hpc, hg⟩ := T.held h hh
    simp only [ex_proj, List.getElem?_map, Option.map_eq_some_iff] at hl
    obtain ⟨x, hx, hxl⟩ := hl
    cases x with
    | op => simp [ex_pl] at hxl
    | call l0 fb pc =>
      simp only [ex_pl, RunDyn.Local.call.injEq] at hxl
      subst hxl
      refine ⟨h, _, hx, ?_⟩
      have h1 := TransDyn.td_step_good_isSome io h _ tl hg
      have h2 := re_step_trans_isSome h c.shared.r l0 tl after hpc (Or.inr h1)
      by_cases hp : pc = .running
      · subst hp
        exact hrun h l0 fb (fun r e => by rw [hpc] at e; cases e) h2
      · exfalso
        have hok := F.ok h
        rw [hx] at hok
        have hok2 := hok.2
        rw [hpc] at hok2
        cases pc <;> simp [ex_ok] at hok2 hp
  | none =>
    simp only [Exec.allDone, List.all_eq_false] at hnd
    obtain ⟨l, hm, hpc⟩ := hnd
    obtain ⟨i, hl⟩ := List.mem_iff_getElem?.mp hm
    refine ⟨i, l, hl, ?_⟩
    cases l with
    | op cfg k =>
      have hk : k < 6 := by simpa using hpc
      exact ex_step_op_isSome i _ cfg k hk
    | call l fb pc =>
      by_cases hp : pc = .running
      · subst hp
        by_cases hd : ∃ r, l.pc = .done r
        · obtain ⟨r, hr⟩ := hd
          simp [Exec.step, hr]
        · have hd' : ∀ r, l.pc ≠ .done r := fun r e => hd ⟨r, e⟩
          apply hrun i l fb hd'
          cases hs : Run.step i c.shared.r l with
          | some x => rfl
          | none =>
            rcases re_step_none i _ l hs with ⟨r, hr⟩ | ⟨k, hk⟩
            · exact absurd hr (hd' r)
            · rw [hh] at hk; cases hk
      · apply ex_step_fb_isSome i _ l fb pc hp
        intro o e
        subst e
        simp at hpc

/-! ### reading the theorems off the invariants -/

theorem ex_directCount (c : Config Exec.Shared Exec.Local) (i : Nat) : Exec.directCount c i = ex_dc i c.shared.direct := rfl

theorem ex_outOf {c : Config Exec.Shared Exec.Local} {i : Nat} {o : Out} (h : Exec.outOf c i = some o) :
    ∃ l fb, c.locals[i]? = some (.call l fb (.done o)) := by
  simp only [Exec.outOf] at h
  split at h
  · rename_i l fb o' hl
    simp only [Option.some.injEq] at h
    subst h
    exact ⟨l, fb, hl⟩
  · cases h

theorem ex_runResOf {c : Config Exec.Shared Exec.Local} {i : Nat} {r : Run.Res} (h : Exec.runResOf c i = some r) :
    ∃ l fb pc, c.locals[i]? = some (.call l fb pc) ∧ pc ≠ .running ∧ pc ≠ .gate ∧ pc ≠ .passthru ∧ l.pc = .done r := by
  simp only [Exec.runResOf] at h
  split at h
  · rename_i l fb pc hl
    split at h
    · cases h
    · cases h
    · cases h
    · rename_i h1 h2 h3 hr
      simp only [Option.some.injEq] at h
      subst h
      exact ⟨l, fb, _, hl, fun e => h1 e, fun e => h2 e, fun e => h3 e, hr⟩
    · cases h
  · cases h

theorem ex_runResOf_mk {c : Config Exec.Shared Exec.Local} {i : Nat} {l : Run.Local} {fb : FbScript} {pc : Exec.Pc}
    {r : Run.Res} (hl : c.locals[i]? = some (.call l fb pc)) (hp : pc ≠ .running) (hg : pc ≠ .gate) (hq : pc ≠ .passthru)
    (hr : l.pc = .done r) : Exec.runResOf c i = some r := by
  obtain ⟨job, lpc, sw⟩ := l
  simp only at hr
  subst hr
  cases pc <;> first | exact absurd rfl hp | exact absurd rfl hg | exact absurd rfl hq | simp only [Exec.runResOf, hl]

/-- the job a call thread was given -/
theorem ex_job_exec {jobs : List Exec.Job} {i : Nat} {sc : Run.Script} {fb fb' : FbScript} {j : Run.Job}
    (hj : jobs[i]? = some (.exec sc fb)) (h : (jobs[i]?).bind ex_jobOf = some (j, fb')) : j = .call sc ∧ fb' = fb := by
  rw [hj] at h
  simp only [Option.bind_some, ex_jobOf, Option.some.injEq, Prod.mk.injEq] at h
  exact ⟨h.1.symm, h.2.symm⟩

/-- a finished Execute went one way or the other: straight to its run function, or through the circuit -/
theorem ex_old_or_new (jobs : List Exec.Job) (dis fd : Bool) (fm : Int) (c : Config Exec.Shared Exec.Local)
    (I : ex_Inv jobs dis fd fm c) (i : Nat) (sc : Run.Script) (fb : FbScript) (o : Out)
    (hj : jobs[i]? = some (.exec sc fb)) (ho : Exec.outOf c i = some o) :
    (ex_dc i c.shared.direct = 1 ∧ re_evs i c.shared.r.events = [] ∧ ex_fevs i c.shared.fbEvents = [] ∧
        o = ex_passOut sc ∧ ex_everDisabled dis jobs = true) ∨
    (ex_dc i c.shared.direct = 0 ∧ ∃ r, Exec.runResOf c i = some r ∧
        ex_contract sc fb (ex_everFbDisabled fd jobs) (ex_someFbLimitNonneg fm jobs) r o) := by
  obtain ⟨l, fb', hl⟩ := ex_outOf ho
  have hok := I.F.ok i
  rw [hl] at hok
  obtain ⟨hjob, hok⟩ := hok
  obtain ⟨h1, rfl⟩ := ex_job_exec hj hjob
  rcases hok with ⟨_, hdc, _, r, hr, hc⟩ | ⟨hd, hlpc, he, hdc, hoo⟩
  · rw [h1] at hc
    exact Or.inr ⟨hdc, r, ex_runResOf_mk hl (by simp) (by simp) (by simp) hr, hc⟩
  · rw [h1] at hoo
    refine Or.inl ⟨hdc, ?_, he, hoo, hd⟩
    have hE := I.E i
    have : (ex_proj c).locals[i]? = some (.call l) := by simp [ex_proj, List.getElem?_map, hl, ex_pl]
    rw [this] at hE
    obtain ⟨job, lpc, sw⟩ := l
    simp only at h1 hlpc
    subst h1 hlpc
    exact hE.2

theorem ex_return_value (jobs : List Exec.Job) (dis fd : Bool) (fm : Int) (c : Config Exec.Shared Exec.Local)
    (I : ex_Inv jobs dis fd fm c) (hd : ex_everDisabled dis jobs = false) (i : Nat) (sc : Run.Script) (fb : FbScript) (o : Out)
    (hj : jobs[i]? = some (.exec sc fb)) (ho : Exec.outOf c i = some o) :
    ∃ r, Exec.runResOf c i = some r ∧
      ex_contract sc fb (ex_everFbDisabled fd jobs) (ex_someFbLimitNonneg fm jobs) r o ∧ Exec.directCount c i = 0 := by
  rcases ex_old_or_new jobs dis fd fm c I i sc fb o hj ho with ⟨_, _, _, _, h⟩ | ⟨hdc, r, hr, hc⟩
  · rw [hd] at h; cases h
  · exact ⟨r, hr, hc, hdc⟩

theorem ex_done_events (jobs : List Exec.Job) (dis fd : Bool) (fm : Int) (c : Config Exec.Shared Exec.Local)
    (F : ex_FInv jobs dis fd fm c) (i : Nat) (o : Out) (ho : Exec.outOf c i = some o) :
    ex_fevs i c.shared.fbEvents = ex_outEvs o := by
  obtain ⟨l, fb', hl⟩ := ex_outOf ho
  have hok := F.ok i
  rw [hl] at hok
  rcases hok.2 with ⟨he, _⟩ | ⟨_, _, he, _, ho⟩
  · exact he
  · rw [he, ho, ex_outEvs_passOut]

theorem ex_shapes (jobs : List Exec.Job) (dis fd : Bool) (fm : Int) (c : Config Exec.Shared Exec.Local)
    (F : ex_FInv jobs dis fd fm c) (i : Nat) :
    ex_fevs i c.shared.fbEvents = [] ∨ ex_fevs i c.shared.fbEvents = [.invoked] ∨ ex_fevs i c.shared.fbEvents = [.reject] ∨
      ex_fevs i c.shared.fbEvents = [.invoked, .success] ∨ ex_fevs i c.shared.fbEvents = [.invoked, .failure] := by
  have hok := F.ok i
  have hout : ∀ o, ex_outEvs o = [] ∨ ex_outEvs o = [.invoked] ∨ ex_outEvs o = [.reject] ∨
      ex_outEvs o = [.invoked, .success] ∨ ex_outEvs o = [.invoked, .failure] := by
    intro o; cases o <;> simp [ex_outEvs]
  cases hl : c.locals[i]? with
  | none => rw [hl] at hok; exact Or.inl hok.1
  | some l =>
    rw [hl] at hok
    cases l with
    | op => exact Or.inl hok.2.1
    | call l fb pc =>
      have h2 := hok.2
      cases pc <;> simp only [ex_ok] at h2
      all_goals first
        | exact Or.inl h2.1
        | exact Or.inr (Or.inl h2.1)
        | (rw [h2.1]; exact hout _)
        | (rcases h2 with h2 | h2
           · rw [h2.1]; exact hout _
           · exact Or.inl h2.2.2.1)

theorem ex_contract_quiet (sc : Run.Script) (fb : FbScript) (mbd mbl : Bool) (r : Run.Res) (o : Out)
    (hc : ex_contract sc fb mbd mbl r o)
    (h : runFailed sc r = false ∨ runBad sc r = true ∨ r = .panicked ∨ fb.present = false) :
    ex_outEvs o = [] := by
  rcases h with h | h | h | h <;> cases r <;> simp_all [ex_contract, runFailed, runBad] <;>
    (try (repeat' split at hc)) <;> simp_all [ex_outEvs]

theorem ex_not_consulted (jobs : List Exec.Job) (dis fd : Bool) (fm : Int) (c : Config Exec.Shared Exec.Local)
    (F : ex_FInv jobs dis fd fm c) (i : Nat) (sc : Run.Script) (fb : FbScript) (r : Run.Res)
    (hj : jobs[i]? = some (.exec sc fb)) (hr : Exec.runResOf c i = some r)
    (h : runFailed sc r = false ∨ runBad sc r = true ∨ r = .panicked ∨ fb.present = false) :
    ex_fevs i c.shared.fbEvents = [] := by
  obtain ⟨l, fb', pc, hl, hp, hg, hq, hlpc⟩ := ex_runResOf hr
  have hok := F.ok i
  rw [hl] at hok
  obtain ⟨hjob, hok⟩ := hok
  obtain ⟨h1, rfl⟩ := ex_job_exec hj hjob
  rw [h1, hlpc] at hok
  have hquiet : ∀ o mbd mbl, (∃ r', Run.Pc.done r = .done r' ∧ ex_contract sc fb' mbd mbl r' o) → ex_outEvs o = [] := by
    intro o mbd mbl ⟨r', e, hc⟩
    cases e
    exact ex_contract_quiet sc fb' mbd mbl r o hc h
  cases pc <;> simp only [ex_ok, ex_sc] at hok
  · exact absurd rfl hg
  · exact hok.1
  · exact absurd rfl hp
  · exact hok.1
  · exact hok.1
  · exact hok.1
  · exact hok.1
  · exact hok.1
  · exact hok.1
  · -- delivering: the fallback was invoked, so none of the reasons not to consult it applies
    exfalso
    obtain ⟨_, _, _, _, _, r', e, h2, h3, h4, h5, h6⟩ := hok
    cases e
    rcases h with h | h | h | h <;> simp_all
  · rw [hok.1]; exact hquiet _ _ _ hok.2.2.2
  · rcases hok with hok | hok
    · rw [hok.1]; exact hquiet _ _ _ hok.2.2.2
    · exact hok.2.2.1

theorem ex_limit_may (sc : Run.Script) (fb : FbScript) (mbd mbl : Bool) (r : Run.Res)
    (hc : ex_contract sc fb mbd mbl r .limit) : mbl = true := by
  cases r <;> simp only [ex_contract, reduceCtorEq] at hc <;> (repeat' split at hc) <;> simp_all

theorem ex_never_limit (jobs : List Exec.Job) (dis fd : Bool) (fm : Int) (c : Config Exec.Shared Exec.Local)
    (F : ex_FInv jobs dis fd fm c) (hfm : ex_someFbLimitNonneg fm jobs = false) (i : Nat) : Exec.outOf c i ≠ some .limit := by
  intro ho
  obtain ⟨l, fb', hl⟩ := ex_outOf ho
  have hok := F.ok i
  rw [hl] at hok
  rcases hok.2 with ⟨_, _, _, r, _, hc⟩ | ⟨_, _, _, _, ho⟩
  · have := ex_limit_may _ _ _ _ _ hc
    rw [hfm] at this; cases this
  · exact ex_passOut_ne_limit _ ho

theorem ex_run_events (jobs : List Exec.Job) (c : Config Exec.Shared Exec.Local)
    (E : rd_EInv (jobs.map ex_pj) (ex_proj c)) (i : Nat) (sc : Run.Script) (fb : FbScript) (r : Run.Res)
    (hj : jobs[i]? = some (.exec sc fb)) (hr : Exec.runResOf c i = some r) :
    re_expected sc r (Exec.runEventsOf c i) ∧
    Exec.runInvokedCount c i = (match (generalizing := false) r with | .ran _ | .panicked => 1 | _ => 0) := by
  obtain ⟨l, fb', pc, hl, hp, _, _, hlpc⟩ := ex_runResOf hr
  have hj' : (jobs.map ex_pj)[i]? = some (.run (.call sc)) := by simp [List.getElem?_map, hj, ex_pj]
  have hr' : RunDyn.resultOf (ex_proj c) i = some r := by
    obtain ⟨job, lpc, sw⟩ := l
    simp only at hlpc
    subst hlpc
    simp [RunDyn.resultOf, ex_proj, List.getElem?_map, hl, ex_pl]
  exact rd_exact (jobs.map ex_pj) (ex_proj c) E i sc r hj' hr'

/-! ### the kill switch always on -/

/-- with the kill switch on for good a call thread of an `exec` job never leaves the gate / the direct call -/
theorem ex_kill_exec (jobs : List Exec.Job) (dis fd : Bool) (fm : Int) (c : Config Exec.Shared Exec.Local)
    (F : ex_FInv jobs dis fd fm c) (hA : ex_alwaysDisabled dis jobs = true)
    (i : Nat) (sc : Run.Script) (fb : FbScript) (hj : jobs[i]? = some (.exec sc fb)) :
    ex_fevs i c.shared.fbEvents = [] ∧ ex_dc i c.shared.direct ≤ 1 ∧
      (∀ l fb' pc, c.locals[i]? = some (.call l fb' pc) → l.job = .call sc ∧ l.pc = .aFO) ∧
      ∀ o, Exec.outOf c i = some o → o = ex_passOut sc ∧ ex_dc i c.shared.direct = 1 := by
  have hok := F.ok i
  rw [hA] at hok
  cases hl : c.locals[i]? with
  | none =>
    rw [hl] at hok
    refine ⟨hok.1, by rw [hok.2]; decide, (fun _ _ _ e => by cases e), ?_⟩
    intro o ho; simp [Exec.outOf, hl] at ho
  | some x =>
    rw [hl] at hok
    cases x with
    | op =>
      refine ⟨hok.2.1, by rw [hok.2.2]; decide, (fun _ _ _ e => by cases e), ?_⟩
      intro o ho; simp [Exec.outOf, hl] at ho
    | call l fb' pc =>
      obtain ⟨hjob, hok⟩ := hok
      obtain ⟨h1, rfl⟩ := ex_job_exec hj hjob
      have hnm : ¬ ex_man l.job := fun h => h sc h1
      have key : ex_fevs i c.shared.fbEvents = [] ∧ ex_dc i c.shared.direct ≤ 1 ∧ l.pc = .aFO ∧
          ∀ o, pc = .done o → o = ex_passOut sc ∧ ex_dc i c.shared.direct = 1 := by
        cases pc <;> simp only [ex_ok] at hok
        · exact ⟨hok.1, by rw [hok.2.1]; decide, hok.2.2, fun _ e => by cases e⟩
        · exact ⟨hok.1, by rw [hok.2.1]; decide, hok.2.2.1, fun _ e => by cases e⟩
        · exact absurd (hok.2.2 trivial) hnm
        · exact absurd (hok.2.2.2 trivial).2 hnm
        · exact absurd hok.2.2.1 (by simp)
        · exact absurd hok.2.2.1 (by simp)
        · exact absurd hok.2.2.1 (by simp)
        · exact absurd hok.2.2.1 (by simp)
        · exact absurd hok.2.2.1 (by simp)
        · exact absurd hok.2.2.1 (by simp)
        · exact absurd hok.2.2.1 (by simp)
        · rcases hok with hok | ⟨_, hlpc, he, hdc, ho⟩
          · exact absurd (hok.2.2.1 trivial) hnm
          · refine ⟨he, by rw [hdc]; decide, hlpc, ?_⟩
            intro o e
            cases e
            rw [h1] at ho
            exact ⟨ho, hdc⟩
      refine ⟨key.1, key.2.1, ?_, ?_⟩
      · intro l2 fb2 pc2 e
        cases e
        exact ⟨h1, key.2.2.1⟩
      · intro o ho
        obtain ⟨l2, fb2, hl2⟩ := ex_outOf ho
        rw [hl] at hl2
        cases hl2
        exact key.2.2.2 o rfl

/-- … so it tells the run collectors nothing -/
theorem ex_kill_run_events (jobs : List Exec.Job) (dis fd : Bool) (fm : Int) (c : Config Exec.Shared Exec.Local)
    (I : ex_Inv jobs dis fd fm c) (hA : ex_alwaysDisabled dis jobs = true)
    (i : Nat) (sc : Run.Script) (fb : FbScript) (hj : jobs[i]? = some (.exec sc fb)) :
    re_evs i c.shared.r.events = [] := by
  have hE := I.E i
  obtain ⟨_, _, hK, _⟩ := ex_kill_exec jobs dis fd fm c I.F hA i sc fb hj
  cases hl : c.locals[i]? with
  | none =>
    have : (ex_proj c).locals[i]? = none := by simp [ex_proj, List.getElem?_map, hl]
    rw [this] at hE
    exact hE
  | some x =>
    cases x with
    | op cfg st =>
      have : (ex_proj c).locals[i]? = some (.op cfg.fo cfg.fc cfg.limit (ex_stage st)) := by
        simp [ex_proj, List.getElem?_map, hl, ex_pl]
      rw [this] at hE
      exact hE.2
    | call l fb' pc =>
      have : (ex_proj c).locals[i]? = some (.call l) := by simp [ex_proj, List.getElem?_map, hl, ex_pl]
      rw [this] at hE
      obtain ⟨h1, h2⟩ := hK l fb' pc hl
      obtain ⟨job, lpc, sw⟩ := l
      simp only at h1 h2
      subst h1 h2
      exact hE.2

/-- … and with the kill switch on for good nobody holds a slot of either bulkhead -/
theorem ex_kill_gauges (jobs : List Exec.Job) (dis fd : Bool) (fm : Int) (c : Config Exec.Shared Exec.Local)
    (I : ex_Inv jobs dis fd fm c) (hA : ex_alwaysDisabled dis jobs = true) :
    rd_cnt (c.locals.map ex_pl) = 0 ∧ (c.locals.map ex_glL).countP inRegion = 0 := by
  constructor
  · apply ex_cnt_zero
    intro g hg
    simp only [List.mem_map] at hg
    obtain ⟨l, hl, rfl⟩ := hg
    obtain ⟨i, hi⟩ := List.mem_iff_getElem?.mp hl
    have hok := I.F.ok i
    rw [hi, hA] at hok
    cases l with
    | op => rfl
    | call l fb pc =>
      have hman : ex_man l.job → rd_w l.pc = 0 := by
        intro hm
        rcases ex_man_done _ c I.E i l fb pc hi hm with h | ⟨tl, h⟩ <;> simp [rd_w, rd_holds, h]
      have hafo : l.pc = .aFO → rd_w l.pc = 0 := by intro h; simp [rd_w, rd_holds, h]
      have h2 := hok.2
      simp only [ex_pl, rd_wL]
      cases pc <;> simp only [ex_ok] at h2
      · exact hafo h2.2.2
      · exact hafo h2.2.2.1
      · exact hman (h2.2.2 trivial)
      · exact hman (h2.2.2.2 trivial).2
      · exact absurd h2.2.2.1 (by simp)
      · exact absurd h2.2.2.1 (by simp)
      · exact absurd h2.2.2.1 (by simp)
      · exact absurd h2.2.2.1 (by simp)
      · exact absurd h2.2.2.1 (by simp)
      · exact absurd h2.2.2.1 (by simp)
      · exact absurd h2.2.2.1 (by simp)
      · rcases h2 with h2 | h2
        · exact hman (h2.2.2.1 trivial)
        · exact hafo h2.2.1
  · rw [List.countP_eq_zero]
    intro g hg
    simp only [List.mem_map] at hg
    obtain ⟨l, hl, rfl⟩ := hg
    obtain ⟨i, hi⟩ := List.mem_iff_getElem?.mp hl
    have hok := I.F.ok i
    rw [hi, hA] at hok
    cases l with
    | op => simp [ex_glL, inRegion]
    | call l fb pc =>
      have h2 := hok.2
      cases pc <;> simp only [ex_ok] at h2 <;> first
        | (simp [ex_glL, ex_gl, inRegion]; done)
        | exact absurd h2.2.2.1 (by simp)

end CM.Lemmas.ExecL

/-
  Lemmas/CircuitC.lean — lemmas for C12 (one clock), C07 (context propagation) and C10 (panics).
  `Rel` relates the state before and after one primitive of the circuit model (everything a primitive preserves,
  plus provenance of the callbacks' times); `RunSpec` / `FbSpec` / `ExecSpec` lift it through `runStep`,
  `fallbackStep` and `execute`.
-/
import CircuitModel.CircuitOps
import CircuitModel.Logic
import CircuitProofs.Lemmas.Circuit
namespace CM
open SpecCircuit

def emitOk (rs : List Int) : Emit → Prop
  | .run k t d => t ∈ rs ∧ (k = .reject ∨ k = .shortCircuit ∨ ∃ a ∈ rs, ∃ b ∈ rs, b - a = d)
  | .fb k t d => t ∈ rs ∧ (k = .reject ∨ ∃ a ∈ rs, ∃ b ∈ rs, b - a = d)
  | .opened t => t ∈ rs
  | .closed t => t ∈ rs

def Prov (o : Obs) : Prop := ∀ e ∈ o.emits, emitOk o.readings e

theorem emitOk_mono {rs : List Int} (l : List Int) {e : Emit} (h : emitOk rs e) : emitOk (rs ++ l) e := by
  cases e <;> simp only [emitOk, List.mem_append] at * <;> grind

theorem prov_snoc {o : Obs} {e : Emit} (h : Prov o) (he : emitOk o.readings e) :
    Prov { o with emits := o.emits ++ [e] } := by
  intro x hx
  simp only [List.mem_append, List.mem_singleton] at hx
  rcases hx with hx | rfl
  · exact h x hx
  · exact he

theorem prov_readings {o : Obs} (l : List Int) (h : Prov o) : Prov { o with readings := o.readings ++ l } :=
  fun x hx => emitOk_mono l (h x hx)

theorem isDiffOf_of {rs : List Int} {d a b : Int} (ha : a ∈ rs) (hb : b ∈ rs) (h : b - a = d) : isDiffOf rs d = true := by
  simp only [isDiffOf, List.any_eq_true]
  exact ⟨a, ha, b, hb, by simp [h]⟩

/-- provenance is exactly what the C12 monitor checks -/
theorem verdictC12_of_prov {o : Obs} (h : Prov o) : verdictC12 o.emits o.readings = none := by
  simp only [verdictC12]
  rw [if_neg]
  rw [Bool.not_eq_true, List.any_eq_false]
  intro e he
  have := h e he
  cases e with
  | run k t d =>
    obtain ⟨h1, h2⟩ := this
    rcases h2 with h2 | h2 | ⟨a, ha, b, hb, h2⟩
    · simp [h1, h2]
    · simp [h1, h2]
    · simp [h1, isDiffOf_of ha hb h2]
  | fb k t d =>
    obtain ⟨h1, h2⟩ := this
    rcases h2 with h2 | ⟨a, ha, b, hb, h2⟩
    · simp [h1, h2]
    · simp [h1, isDiffOf_of ha hb h2]
  | opened t => simpa [emitOk] using this
  | closed t => simpa [emitOk] using this

section
variable {σo σc : Type} (O : OpenerI σo) (C : CloserI σc)

structure Rel (s s' : St σo σc) : Prop where
  cfg : s'.1.cfg = s.1.cfg
  conc : s'.1.conc = s.1.conc
  concFb : s'.1.concFb = s.1.concFb
  runSeen : s'.2.runSeen = s.2.runSeen
  released : s'.2.released = s.2.released
  fbArg : s'.2.fbArg = s.2.fbArg
  fbSameCtx : s'.2.fbSameCtx = s.2.fbSameCtx
  fbEv : fbEvents s'.2.emits = fbEvents s.2.emits
  readings : ∃ l, s'.2.readings = s.2.readings ++ l
  prov : Prov s.2 → Prov s'.2

theorem Rel.refl (s : St σo σc) : Rel s s :=
  ⟨rfl, rfl, rfl, rfl, rfl, rfl, rfl, rfl, ⟨[], by simp⟩, id⟩

theorem Rel.trans {s s' s'' : St σo σc} (h : Rel s s') (h' : Rel s' s'') : Rel s s'' := by
  obtain ⟨l, hl⟩ := h.readings
  obtain ⟨l', hl'⟩ := h'.readings
  exact ⟨h'.cfg.trans h.cfg, h'.conc.trans h.conc, h'.concFb.trans h.concFb, h'.runSeen.trans h.runSeen,
    h'.released.trans h.released, h'.fbArg.trans h.fbArg, h'.fbSameCtx.trans h.fbSameCtx, h'.fbEv.trans h.fbEv,
    ⟨l ++ l', by rw [hl', hl, List.append_assoc]⟩, fun p => h'.prov (h.prov p)⟩

theorem Rel.mem {s s' : St σo σc} (h : Rel s s') {t : Int} (ht : t ∈ s.2.readings) : t ∈ s'.2.readings := by
  obtain ⟨l, hl⟩ := h.readings
  rw [hl]; exact List.mem_append_left _ ht

theorem rel_now (s : St σo σc) : Rel s (now s).2 :=
  ⟨rfl, rfl, rfl, rfl, rfl, rfl, rfl, rfl, ⟨[s.1.clock], rfl⟩, fun p => prov_readings _ p⟩

theorem now_mem (s : St σo σc) : (now s).1 ∈ (now s).2.2.readings := by simp [now]

theorem rel_emitRun (s : St σo σc) (k : Kind) (t d : Int) (ht : t ∈ s.2.readings)
    (hd : k = .reject ∨ k = .shortCircuit ∨ ∃ a ∈ s.2.readings, ∃ b ∈ s.2.readings, b - a = d) :
    Rel s (emitRun O C s k t d) :=
  ⟨rfl, rfl, rfl, rfl, rfl, rfl, rfl, by simp [emitRun, fbEvents, List.filterMap_append], ⟨[], by simp [emitRun]⟩,
    fun p => prov_snoc p ⟨ht, hd⟩⟩

theorem rel_openCircuit (s : St σo σc) (t : Int) (ht : t ∈ s.2.readings) : Rel s (openCircuit O C s t) := by
  unfold openCircuit
  split
  · exact Rel.refl s
  split
  · exact Rel.refl s
  exact ⟨rfl, rfl, rfl, rfl, rfl, rfl, rfl, by simp [fbEvents, List.filterMap_append], ⟨[], by simp⟩,
    fun p => prov_snoc p ht⟩

theorem rel_attemptToOpen (s : St σo σc) (t : Int) (ht : t ∈ s.2.readings) : Rel s (attemptToOpen O C s t) := by
  unfold attemptToOpen
  split
  · exact Rel.refl s
  split
  · exact Rel.refl s
  split
  rename_i o ans _
  have h1 : Rel s (({ s.1 with opener := o }, s.2) : St σo σc) := ⟨rfl, rfl, rfl, rfl, rfl, rfl, rfl, rfl, ⟨[], by simp⟩, id⟩
  split
  · exact h1.trans (rel_openCircuit O C _ t ht)
  · exact h1

theorem rel_closeCircuit (s : St σo σc) (t : Int) (f : Bool) (ht : t ∈ s.2.readings) : Rel s (closeCircuit O C s t f) := by
  unfold closeCircuit
  split
  · exact Rel.refl s
  split
  · exact Rel.refl s
  cases f
  · simp only [Bool.false_eq_true, if_false]
    split
    · exact ⟨rfl, rfl, rfl, rfl, rfl, rfl, rfl, by simp [fbEvents, List.filterMap_append], ⟨[], by simp⟩,
        fun p => prov_snoc p ht⟩
    · exact ⟨rfl, rfl, rfl, rfl, rfl, rfl, rfl, rfl, ⟨[], by simp⟩, id⟩
  · simp only [if_true]
    exact ⟨rfl, rfl, rfl, rfl, rfl, rfl, rfl, by simp [fbEvents, List.filterMap_append], ⟨[], by simp⟩,
        fun p => prov_snoc p ht⟩


theorem allowNewRun_obs (s : St σo σc) (t : Int) : (allowNewRun C s t).1.2 = s.2 := by
  unfold allowNewRun; split; · rfl
  split; · rfl
  rfl

theorem allowNewRun_circ (s : St σo σc) (t : Int) :
    (allowNewRun C s t).1.1.cfg = s.1.cfg ∧ (allowNewRun C s t).1.1.isOpen = s.1.isOpen ∧
    (allowNewRun C s t).1.1.conc = s.1.conc ∧ (allowNewRun C s t).1.1.concFb = s.1.concFb ∧
    (allowNewRun C s t).1.1.clock = s.1.clock ∧ (allowNewRun C s t).1.1.opener = s.1.opener := by
  unfold allowNewRun; split; · simp
  split; · simp
  simp

theorem rel_classify (s : St σo σc) (ctx : CallerCtx) (sc : Script) (ret : Option ErrV) (start : Int)
    (hs : start ∈ s.2.readings) : Rel s (classify O C s ctx sc ret start) := by
  unfold classify
  generalize h : now s = p
  obtain ⟨endT, s1⟩ := p
  simp only []
  generalize h' : now s1 = p'
  obtain ⟨doneT, s2⟩ := p'
  simp only []
  have r1 : Rel s s1 := by have := rel_now s; rwa [h] at this
  have r2 : Rel s1 s2 := by have := rel_now s1; rwa [h'] at this
  have m1 : endT ∈ s1.2.readings := by have := now_mem s; rwa [h] at this
  have m2 : doneT ∈ s2.2.readings := by have := now_mem s1; rwa [h'] at this
  have r : Rel s s2 := r1.trans r2
  have e : ∀ k, Rel s2 (emitRun O C s2 k doneT (endT - start)) := fun k =>
    rel_emitRun O C s2 k doneT _ m2 (Or.inr (Or.inr ⟨start, r.mem hs, endT, r2.mem m1, rfl⟩))
  have a : ∀ k, Rel s2 (attemptToOpen O C (emitRun O C s2 k doneT (endT - start)) doneT) := fun k =>
    (e k).trans (rel_attemptToOpen O C _ doneT ((e k).mem m2))
  have cl : ∀ k, Rel s2 (closeCircuit O C (emitRun O C s2 k doneT (endT - start)) doneT false) := fun k =>
    (e k).trans (rel_closeCircuit O C _ doneT false ((e k).mem m2))
  repeat' split
  all_goals first | exact r.trans (e _) | exact r.trans (a _) | exact r.trans (cl _)


/-- `runStep` from the point where the run function is invoked (gauge already incremented) -/
def runInvoke (s : St σo σc) (ctx : CallerCtx) (sc : Script) (start : Int) : St σo σc × Res :=
  let seen := derivedSeen s.1.cfg ctx start
  let rel : Option Bool := if !seen.sameAsCaller then some true else none
  let s5 : St σo σc := ({ s.1 with clock := s.1.clock + sc.adv }, { s.2 with runSeen := some seen })
  match sc.act with
  | .panic v => (({ s5.1 with conc := s5.1.conc - 1 }, { s5.2 with released := rel }), .panic v)
  | _ =>
    let ret := actValue sc (ctxErrAfter ctx sc)
    let cl := classify O C s5 ctx sc ret start
    (({ cl.1 with conc := cl.1.conc - 1 }, { cl.2 with released := rel }), .ret ret)

/-- `runStep` after the open-state check let the call through -/
def runAdmitted (s : St σo σc) (ctx : CallerCtx) (sc : Script) (start : Int) : St σo σc × Res :=
  let p := O.prevent s.1.opener start
  let s3 : St σo σc := ({ s.1 with opener := p.1 }, s.2)
  if p.2 then (s3, .ret (some .circuitOpen))
  else
    let s4 : St σo σc := ({ s3.1 with conc := s3.1.conc + 1 }, s3.2)
    if s4.1.cfg.maxConc ≥ 0 ∧ s4.1.conc > s4.1.cfg.maxConc then
      let s' := emitRun O C s4 .reject start 0
      (({ s'.1 with conc := s'.1.conc - 1 }, s'.2), .ret (some .concLimit))
    else runInvoke O C s4 ctx sc start

theorem runStep_some (s : St σo σc) (ctx : CallerCtx) (sc : Script) : runStep O C s ctx (some sc) =
    (let a := allowNewRun C (now s).2 s.1.clock
     if !a.2 then (emitRun O C a.1 .shortCircuit s.1.clock 0, .ret (some .circuitOpen))
     else runAdmitted O C a.1 ctx sc s.1.clock) := rfl

structure RunSpec (s : St σo σc) (ctx : CallerCtx) (start : Int) (sco : Option Script) (r : St σo σc × Res) : Prop where
  cfg : r.1.1.cfg = s.1.cfg
  conc : r.1.1.conc = s.1.conc
  concFb : r.1.1.concFb = s.1.concFb
  fbArg : r.1.2.fbArg = s.2.fbArg
  fbSameCtx : r.1.2.fbSameCtx = s.2.fbSameCtx
  fbEv : fbEvents r.1.2.emits = fbEvents s.2.emits
  prov : Prov s.2 → Prov r.1.2
  readings : ∃ l, r.1.2.readings = s.2.readings ++ l
  seen : (r.1.2.runSeen = s.2.runSeen ∧ r.1.2.released = s.2.released) ∨
      (∃ sc, sco = some sc ∧ r.1.2.runSeen = some (derivedSeen s.1.cfg ctx start) ∧
        r.1.2.released = (if !(derivedSeen s.1.cfg ctx start).sameAsCaller then some true else none) ∧
        (∀ v, sc.act = .panic v → r.2 = .panic v ∧ r.1.2.emits = s.2.emits ∧ r.1.1.isOpen = s.1.isOpen))

theorem RunSpec.of_rel {s s' : St σo σc} {ctx : CallerCtx} {start : Int} {sco : Option Script} {res : Res}
    (r : Rel s s') : RunSpec s ctx start sco (s', res) :=
  ⟨r.cfg, r.conc, r.concFb, r.fbArg, r.fbSameCtx, r.fbEv, r.prov, r.readings, Or.inl ⟨r.runSeen, r.released⟩⟩

theorem RunSpec.pre {s s1 : St σo σc} {ctx : CallerCtx} {start : Int} {sco : Option Script} {r : St σo σc × Res}
    (h : Rel s s1) (he : s1.2.emits = s.2.emits) (hi : s1.1.isOpen = s.1.isOpen) (hr : RunSpec s1 ctx start sco r) :
    RunSpec s ctx start sco r := by
  obtain ⟨l, hl⟩ := h.readings
  obtain ⟨l', hl'⟩ := hr.readings
  refine ⟨hr.cfg.trans h.cfg, hr.conc.trans h.conc, hr.concFb.trans h.concFb, hr.fbArg.trans h.fbArg,
    hr.fbSameCtx.trans h.fbSameCtx, hr.fbEv.trans h.fbEv, fun p => hr.prov (h.prov p),
    ⟨l ++ l', by rw [hl', hl, List.append_assoc]⟩, ?_⟩
  rcases hr.seen with ⟨h1, h2⟩ | ⟨sc, h1, h2, h3, h4⟩
  · exact Or.inl ⟨h1.trans h.runSeen, h2.trans h.released⟩
  · refine Or.inr ⟨sc, h1, ?_, ?_, fun v hv => ?_⟩
    · rw [h2, h.cfg]
    · rw [h3, h.cfg]
    · obtain ⟨a, b, c⟩ := h4 v hv
      exact ⟨a, b.trans he, c.trans hi⟩

theorem runInvoke_spec (s : St σo σc) (ctx : CallerCtx) (sc : Script) (start : Int) (hm : start ∈ s.2.readings) :
    RunSpec s ctx start (some sc) (runInvoke O C ({ s.1 with conc := s.1.conc + 1 }, s.2) ctx sc start) := by
  unfold runInvoke
  dsimp only
  split
  · rename_i v hv
    refine ⟨rfl, ?_, rfl, rfl, rfl, rfl, id, ⟨[], by simp⟩, Or.inr ⟨sc, rfl, rfl, rfl, fun v' hv' => ?_⟩⟩
    · show s.1.conc + 1 - 1 = s.1.conc
      omega
    · rw [hv] at hv'; cases hv'; exact ⟨rfl, rfl, rfl⟩
  · rename_i hnp
    have rc := rel_classify O C (({ s.1 with conc := s.1.conc + 1, clock := s.1.clock + sc.adv },
      { s.2 with runSeen := some (derivedSeen s.1.cfg ctx start) }) : St σo σc) ctx sc (actValue sc (ctxErrAfter ctx sc)) start hm
    refine ⟨rc.cfg, ?_, rc.concFb, rc.fbArg, rc.fbSameCtx, rc.fbEv, rc.prov, rc.readings,
      Or.inr ⟨sc, rfl, rc.runSeen, rfl, fun v hv => absurd hv (hnp v)⟩⟩
    have := rc.conc
    dsimp only at this ⊢
    omega

theorem runAdmitted_spec (s : St σo σc) (ctx : CallerCtx) (sc : Script) (start : Int) (hm : start ∈ s.2.readings) :
    RunSpec s ctx start (some sc) (runAdmitted O C s ctx sc start) := by
  unfold runAdmitted
  dsimp only
  generalize O.prevent s.1.opener start = p
  have r3 : Rel s (({ s.1 with opener := p.1 }, s.2) : St σo σc) :=
    ⟨rfl, rfl, rfl, rfl, rfl, rfl, rfl, rfl, ⟨[], by simp⟩, id⟩
  split
  · exact RunSpec.of_rel r3
  split
  · have r4 := rel_emitRun O C (({ s.1 with opener := p.1, conc := s.1.conc + 1 }, s.2) : St σo σc) .reject start 0
      hm (Or.inl rfl)
    refine ⟨r4.cfg, ?_, r4.concFb, r4.fbArg, r4.fbSameCtx, r4.fbEv, r4.prov, r4.readings, Or.inl ⟨r4.runSeen, r4.released⟩⟩
    have := r4.conc
    dsimp only at this ⊢
    omega
  · exact RunSpec.pre r3 rfl rfl (runInvoke_spec O C (({ s.1 with opener := p.1 }, s.2) : St σo σc) ctx sc start hm)

theorem runStep_spec (s : St σo σc) (ctx : CallerCtx) (run : Option Script) :
    RunSpec s ctx s.1.clock run (runStep O C s ctx run) ∧
    (∀ sc, run = some sc → ∃ l, (runStep O C s ctx run).1.2.readings = s.2.readings ++ s.1.clock :: l) := by
  cases run with
  | none => exact ⟨RunSpec.of_rel (Rel.refl s), fun _ h => by cases h⟩
  | some sc =>
    rw [runStep_some]
    dsimp only
    have o2 := allowNewRun_obs C (now s).2 s.1.clock
    obtain ⟨c2cfg, c2open, c2conc, c2fb, -, -⟩ := allowNewRun_circ C (now s).2 s.1.clock
    generalize allowNewRun C (now s).2 s.1.clock = a at *
    have r1 : Rel s (now s).2 := rel_now s
    have hr1 : (now s).2.2.readings = s.2.readings ++ [s.1.clock] := rfl
    have r2 : Rel (now s).2 a.1 := ⟨c2cfg, c2conc, c2fb, by rw [o2], by rw [o2], by rw [o2], by rw [o2], by rw [o2],
      ⟨[], by rw [o2]; simp⟩, by rw [o2]; exact id⟩
    have m2 : s.1.clock ∈ a.1.2.readings := r2.mem (now_mem s)
    have key : RunSpec (now s).2 ctx s.1.clock (some sc)
        (if (!a.2) = true then (emitRun O C a.1 .shortCircuit s.1.clock 0, .ret (some .circuitOpen))
         else runAdmitted O C a.1 ctx sc s.1.clock) := by
      split
      · exact RunSpec.of_rel (r2.trans (rel_emitRun O C a.1 _ _ 0 m2 (Or.inr (Or.inl rfl))))
      · exact RunSpec.pre r2 (by rw [o2]) c2open (runAdmitted_spec O C a.1 ctx sc _ m2)
    refine ⟨RunSpec.pre r1 rfl rfl key, fun _ _ => ?_⟩
    obtain ⟨l, hl⟩ := key.readings
    exact ⟨l, by rw [hl, hr1]; simp⟩

structure FbSpec (s : St σo σc) (fb : Option Script) (r : St σo σc × Res) : Prop where
  cfg : r.1.1.cfg = s.1.cfg
  conc : r.1.1.conc = s.1.conc
  concFb : r.1.1.concFb = s.1.concFb
  runSeen : r.1.2.runSeen = s.2.runSeen
  released : r.1.2.released = s.2.released
  fbSameCtx : s.2.fbSameCtx = true → r.1.2.fbSameCtx = true
  prov : Prov s.2 → Prov r.1.2
  readings : ∃ l, r.1.2.readings = s.2.readings ++ l
  arg : r.1.2.fbArg = s.2.fbArg ∨
    (∃ sc, fb = some sc ∧ ∀ v, sc.act = .panic v → r.2 = .panic v ∧ r.1.2.emits = s.2.emits)

theorem fallbackStep_spec (s : St σo σc) (ctx : CallerCtx) (runSc : Option Script) (err : ErrV) (fb : Option Script) :
    FbSpec s fb (fallbackStep s ctx runSc err fb) := by
  cases fb with
  | none => exact ⟨rfl, rfl, rfl, rfl, rfl, id, id, ⟨[], by simp [fallbackStep]⟩, Or.inl rfl⟩
  | some sc =>
    unfold fallbackStep
    dsimp only
    split
    · exact ⟨rfl, rfl, rfl, rfl, rfl, id, id, ⟨[], by simp⟩, Or.inl rfl⟩
    split
    · dsimp only [now, emitFb]
      refine ⟨rfl, rfl, ?_, rfl, rfl, id, fun p => ?_, ⟨[s.1.clock], rfl⟩, Or.inl rfl⟩
      · show s.1.concFb + 1 - 1 = s.1.concFb
        omega
      · exact prov_snoc (prov_readings [s.1.clock] p) ⟨by simp, Or.inl rfl⟩
    dsimp only [now]
    split
    · rename_i v hv
      refine ⟨rfl, rfl, ?_, rfl, rfl, fun _ => rfl, fun p => prov_readings [s.1.clock] p, ⟨[s.1.clock], rfl⟩,
        Or.inr ⟨sc, rfl, fun v' hv' => ?_⟩⟩
      · show s.1.concFb + 1 - 1 = s.1.concFb
        omega
      · rw [hv] at hv'; cases hv'; exact ⟨rfl, rfl⟩
    · rename_i hnp
      have hp : ∀ k, Prov s.2 → Prov { s.2 with
          emits := s.2.emits ++ [.fb k s.1.clock (s.1.clock + 1 + sc.adv - s.1.clock)],
          readings := s.2.readings ++ [s.1.clock] ++ [s.1.clock + 1 + sc.adv] } := fun k p =>
        prov_snoc (prov_readings [s.1.clock + 1 + sc.adv] (prov_readings [s.1.clock] p))
          ⟨by simp, Or.inr ⟨s.1.clock, by simp, s.1.clock + 1 + sc.adv, by simp, rfl⟩⟩
      split
      · dsimp only [emitFb]
        refine ⟨rfl, rfl, ?_, rfl, rfl, fun _ => rfl, hp _, ⟨[s.1.clock, s.1.clock + 1 + sc.adv], by simp⟩,
          Or.inr ⟨sc, rfl, fun v hv => absurd hv (hnp v)⟩⟩
        show s.1.concFb + 1 - 1 = s.1.concFb
        omega
      · dsimp only [emitFb]
        refine ⟨rfl, rfl, ?_, rfl, rfl, fun _ => rfl, hp _, ⟨[s.1.clock, s.1.clock + 1 + sc.adv], by simp⟩,
          Or.inr ⟨sc, rfl, fun v hv => absurd hv (hnp v)⟩⟩
        show s.1.concFb + 1 - 1 = s.1.concFb
        omega

theorem execute_enabled (c : Circ σo σc) (ctx : CallerCtx) (run fb : Option Script) (h : c.cfg.disabled = false) :
    execute O C c ctx run fb =
      (let p := runStep O C (c, {}) ctx run
       match p.2 with
       | .ret none => (p.1.1, p.1.2, .ret none)
       | .ret (some e) =>
         if e.isBad then (p.1.1, p.1.2, .ret (some e))
         else let q := fallbackStep p.1 ctx run e fb; (q.1.1, q.1.2, q.2)
       | other => (p.1.1, p.1.2, other)) := by
  unfold execute
  rw [h]
  rfl

/-- everything the property files need to know about one enabled `execute` -/
structure ExecSpec (c : Circ σo σc) (ctx : CallerCtx) (run fb : Option Script) (r : Circ σo σc × Obs × Res) : Prop where
  prov : Prov r.2.1
  fbSameCtx : r.2.1.fbSameCtx = true
  cfg : r.1.cfg = c.cfg
  conc : r.1.conc = c.conc
  concFb : r.1.concFb = c.concFb
  readings : ∀ sc, run = some sc → ∃ l, r.2.1.readings = c.clock :: l
  seen : (r.2.1.runSeen = none ∧ r.2.1.released = none) ∨
      (∃ sc, run = some sc ∧ r.2.1.runSeen = some (derivedSeen c.cfg ctx c.clock) ∧
        r.2.1.released = (if !(derivedSeen c.cfg ctx c.clock).sameAsCaller then some true else none) ∧
        (∀ v, sc.act = .panic v → r.2.2 = .panic v ∧ r.2.1.emits = [] ∧ r.1.isOpen = c.isOpen))
  arg : r.2.1.fbArg = none ∨
      (∃ sc, fb = some sc ∧ ∀ v, sc.act = .panic v → r.2.2 = .panic v ∧ fbEvents r.2.1.emits = [])

theorem prov_init : Prov ({} : Obs) := fun _ h => by cases h

theorem ExecSpec.of_run {c : Circ σo σc} {ctx : CallerCtx} {run fb : Option Script} {s1 : St σo σc} {res : Res}
    (hs : RunSpec ((c, {}) : St σo σc) ctx c.clock run (s1, res))
    (hrd : ∀ sc, run = some sc → ∃ l, s1.2.readings = ([] : List Int) ++ c.clock :: l) :
    ExecSpec c ctx run fb (s1.1, s1.2, res) :=
  ⟨hs.prov prov_init, hs.fbSameCtx, hs.cfg, hs.conc, hs.concFb, fun sc h => by simpa using hrd sc h, hs.seen,
    Or.inl hs.fbArg⟩

theorem execute_spec (c : Circ σo σc) (ctx : CallerCtx) (run fb : Option Script) (h : c.cfg.disabled = false) :
    ExecSpec c ctx run fb (execute O C c ctx run fb) := by
  rw [execute_enabled O C c ctx run fb h]
  obtain ⟨hs, hrd⟩ := runStep_spec O C ((c, {}) : St σo σc) ctx run
  generalize runStep O C ((c, {}) : St σo σc) ctx run = p at *
  obtain ⟨s1, res⟩ := p
  dsimp only at hs hrd ⊢
  split
  · exact ExecSpec.of_run hs hrd
  · rename_i e
    split
    · exact ExecSpec.of_run hs hrd
    · have hf := fallbackStep_spec s1 ctx run e fb
      generalize fallbackStep s1 ctx run e fb = q at *
      obtain ⟨l', hl'⟩ := hf.readings
      refine ⟨hf.prov (hs.prov prov_init), hf.fbSameCtx hs.fbSameCtx, hf.cfg.trans hs.cfg, hf.conc.trans hs.conc,
        hf.concFb.trans hs.concFb, fun sc h => ?_, ?_, ?_⟩
      · obtain ⟨l, hl⟩ := hrd sc h
        exact ⟨l ++ l', by rw [hl', hl]; simp⟩
      · rcases hs.seen with ⟨h1, h2⟩ | ⟨sc, h1, h2, h3, h4⟩
        · exact Or.inl ⟨hf.runSeen.trans h1, hf.released.trans h2⟩
        · refine Or.inr ⟨sc, h1, hf.runSeen.trans h2, hf.released.trans h3, fun v hv => ?_⟩
          have := (h4 v hv).1
          cases this
      · rcases hf.arg with h1 | ⟨sc, h1, h2⟩
        · exact Or.inl (h1.trans hs.fbArg)
        · refine Or.inr ⟨sc, h1, fun v hv => ⟨(h2 v hv).1, ?_⟩⟩
          rw [(h2 v hv).2]; exact hs.fbEv
  · exact ExecSpec.of_run hs hrd

theorem openCircuit_readings (s : St σo σc) (t : Int) : (openCircuit O C s t).2.readings = s.2.readings := by
  unfold openCircuit
  split
  · rfl
  split <;> rfl

theorem closeCircuit_readings (s : St σo σc) (t : Int) (f : Bool) : (closeCircuit O C s t f).2.readings = s.2.readings := by
  unfold closeCircuit
  split
  · rfl
  split
  · rfl
  cases f
  · simp only [Bool.false_eq_true, if_false]
    split <;> rfl
  · rfl

/-- pass-through mode -/
theorem execute_disabled (c : Circ σo σc) (ctx : CallerCtx) (run fb : Option Script) (h : c.cfg.disabled = true) :
    execute O C c ctx run fb =
      match run with
      | none => (c, {}, .nilFunc)
      | some sc =>
        ({ c with clock := c.clock + sc.adv },
         { runSeen := some { deadline := ctx.deadline, hasVal := ctx.hasVal, err := ctx.err, sameAsCaller := true } },
         match sc.act with | .panic v => .panic v | _ => .ret (actValue sc (ctxErrAfter ctx sc))) := by
  unfold execute
  rw [if_pos h]
  cases run with
  | none => rfl
  | some sc =>
    dsimp only
    cases sc.act <;> rfl

theorem allowNewRun_closed (s : St σo σc) (t : Int) (h : isOpenEff s.1 = false) : allowNewRun C s t = (s, true) := by
  unfold allowNewRun
  rw [h]
  rfl

/-- a panicking run function on a closed circuit with a pure, non-vetoing `Prevent` and a free slot -/
theorem runStep_panic_closed (s : St σo σc) (ctx : CallerCtx) (sc : Script) (v : Nat)
    (hclosed : isOpenEff s.1 = false) (hpure : O.prevent s.1.opener s.1.clock = (s.1.opener, false))
    (hthr : ¬ (s.1.cfg.maxConc ≥ 0 ∧ s.1.conc + 1 > s.1.cfg.maxConc)) (hact : sc.act = .panic v) :
    runStep O C s ctx (some sc) =
      (({ s.1 with conc := s.1.conc + 1 - 1, clock := s.1.clock + 1 + sc.adv },
        { s.2 with readings := s.2.readings ++ [s.1.clock], runSeen := some (derivedSeen s.1.cfg ctx s.1.clock),
                   released := if !(derivedSeen s.1.cfg ctx s.1.clock).sameAsCaller then some true else none }),
       .panic v) := by
  have h1 : allowNewRun C (now s).2 s.1.clock = ((now s).2, true) := allowNewRun_closed C _ _ hclosed
  have hp : O.prevent (now s).2.1.opener s.1.clock = (s.1.opener, false) := hpure
  have ht : ¬ ((now s).2.1.cfg.maxConc ≥ 0 ∧ (now s).2.1.conc + 1 > (now s).2.1.cfg.maxConc) := hthr
  rw [runStep_some]
  dsimp only
  rw [h1]
  dsimp only [Bool.not_true, Bool.false_eq_true, if_false]
  unfold runAdmitted
  dsimp only
  rw [hp]
  dsimp only [Bool.false_eq_true, if_false]
  rw [if_neg ht]
  unfold runInvoke
  dsimp only
  rw [hact]
  rfl
end

theorem runPanics_iff {op : ExecOp} {sc : Script} (h : op.run = some sc) (v : Nat) :
    runPanics op = some v ↔ sc.act = .panic v := by
  obtain ⟨adv, cc, act⟩ := sc
  cases act <;> simp [runPanics, h]

theorem fbPanics_iff {op : ExecOp} {sc : Script} (h : op.fb = some sc) (v : Nat) :
    fbPanics op = some v ↔ sc.act = .panic v := by
  obtain ⟨adv, cc, act⟩ := sc
  cases act <;> simp [fbPanics, h]

end CM

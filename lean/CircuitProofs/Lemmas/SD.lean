/-
  Lemmas/SD.lean — facts about SortedDurations (CircuitModel/RollingPercentile.lean, namespace SD) used by
  Props/C15Percentile.lean: element access on ascending lists, the interpolation step, the rounded absolute index.
-/
import CircuitModel.Spec.C15
import CircuitProofs.Lemmas.F64
namespace CM
open F64

theorem wrap64_id {x : Int} (h1 : -9223372036854775808 ≤ x) (h2 : x ≤ 9223372036854775807) : wrap64 x = x := by
  unfold wrap64; dsimp only; split_ifs <;> omega

namespace SD

/-- element access with a default (the default is never reached in the lemmas below) -/
def nth (s : List Int) (i : Nat) : Int := s.getD i 0

theorem getElem?_eq_nth {s : List Int} {i : Nat} (h : i < s.length) : s[i]? = some (nth s i) := by
  simp [nth, List.getD_eq_getElem?_getD, List.getElem?_eq_getElem h]

theorem nth_mem {s : List Int} {i : Nat} (h : i < s.length) : nth s i ∈ s := by
  have : nth s i = s[i] := by simp [nth, List.getD_eq_getElem?_getD, List.getElem?_eq_getElem h]
  rw [this]; exact List.getElem_mem h

theorem nth_le_nth {s : List Int} (hs : s.Pairwise (· ≤ ·)) {i j : Nat} (hij : i ≤ j) (hj : j < s.length) :
    nth s i ≤ nth s j := by
  rcases lt_or_eq_of_le hij with h | h
  · have := List.pairwise_iff_getElem.mp hs i j (by omega) hj h
    simpa [nth, List.getD_eq_getElem?_getD, List.getElem?_eq_getElem hj,
      List.getElem?_eq_getElem (show i < s.length by omega)] using this
  · subst h; exact le_refl _

theorem min_eq_nth {s : List Int} (hne : s ≠ []) : SD.min s = nth s 0 := by
  cases s with
  | nil => exact absurd rfl hne
  | cons x t => simp [SD.min, nth]

theorem max_eq_nth {s : List Int} (hne : s ≠ []) : SD.max s = nth s (s.length - 1) := by
  have hlen : 0 < s.length := List.length_pos_iff.mpr hne
  unfold SD.max
  rw [List.getLast?_eq_getElem?, getElem?_eq_nth (by omega)]

theorem mem_le_max {s : List Int} (hs : s.Pairwise (· ≤ ·)) {y : Int} (hy : y ∈ s) : y ≤ SD.max s := by
  have hne : s ≠ [] := List.ne_nil_of_mem hy
  obtain ⟨i, hi, rfl⟩ := List.getElem_of_mem hy
  rw [max_eq_nth hne]
  have : s[i] = nth s i := by simp [nth, List.getD_eq_getElem?_getD, List.getElem?_eq_getElem hi]
  rw [this]; exact nth_le_nth hs (by omega) (by omega)

theorem min_le_mem {s : List Int} (hs : s.Pairwise (· ≤ ·)) {y : Int} (hy : y ∈ s) : SD.min s ≤ y := by
  have hne : s ≠ [] := List.ne_nil_of_mem hy
  obtain ⟨i, hi, rfl⟩ := List.getElem_of_mem hy
  rw [min_eq_nth hne]
  have : s[i] = nth s i := by simp [nth, List.getD_eq_getElem?_getD, List.getElem?_eq_getElem hi]
  rw [this]; exact nth_le_nth hs (by omega) hi

/-! ### the interpolation step -/

/-- `first + int64(float64(second - first) * weight)` before the final wrap -/
def ival (F S : Int) (w : Rat) : Int := F + toInt (mul (ofInt (wrap64 (S - F))) w)

theorem ival_eq {F S : Int} (h0 : F ≤ S) (h1 : S - F ≤ 2^53) (w : Rat) :
    ival F S w = F + toInt (rne (((S - F : Int) : ℚ) * w)) := by
  unfold ival mul ofInt
  rw [wrap64_id (by omega) (by omega), rne_int _ (by rw [abs_of_nonneg (by omega)]; exact h1)]

theorem ival_bounds {F S : Int} (h0 : F ≤ S) (h1 : S - F ≤ 2^53) {w : Rat} (hw0 : 0 ≤ w) (hw1 : w ≤ 1) :
    F ≤ ival F S w ∧ ival F S w ≤ S := by
  rw [ival_eq h0 h1]
  have hd : (0:ℚ) ≤ ((S - F : Int) : ℚ) := by exact_mod_cast (by omega : 0 ≤ S - F)
  have hm0 : 0 ≤ rne (((S - F : Int) : ℚ) * w) := rne_nonneg (mul_nonneg hd hw0)
  have hm1 : rne (((S - F : Int) : ℚ) * w) ≤ ((S - F : Int) : ℚ) :=
    rne_le_int (by rw [abs_of_nonneg (by omega)]; exact h1) (by nlinarith)
  have t0 := toInt_nonneg hm0
  have t1 := toInt_le_of_le_int hm0 hm1
  constructor <;> omega

theorem ival_mono {F S : Int} (h0 : F ≤ S) (h1 : S - F ≤ 2^53) {w₁ w₂ : Rat} (hw0 : 0 ≤ w₁) (hw : w₁ ≤ w₂) :
    ival F S w₁ ≤ ival F S w₂ := by
  rw [ival_eq h0 h1, ival_eq h0 h1]
  have hd : (0:ℚ) ≤ ((S - F : Int) : ℚ) := by exact_mod_cast (by omega : 0 ≤ S - F)
  have hm0 : 0 ≤ rne (((S - F : Int) : ℚ) * w₁) := rne_nonneg (mul_nonneg hd hw0)
  have hm : rne (((S - F : Int) : ℚ) * w₁) ≤ rne (((S - F : Int) : ℚ) * w₂) :=
    rne_mono (mul_le_mul_of_nonneg_left hw hd)
  have := toInt_mono_nonneg hm0 hm
  omega

/-! ### `percentile` through the absolute index -/

/-- the rounded absolute index `p/100 * float64(n-1)` -/
def pabs (n : Nat) (p : Rat) : Rat := F64.mul (F64.div p 100) (F64.ofInt ((n : Int) - 1))

/-- the interpolation branch of `percentile` as a function of the absolute index -/
def interp (s : List Int) (a : Rat) : Option Int :=
  match s[a.floor.toNat]?, s[a.ceil.toNat]? with
  | some first, some second =>
    if a.floor < 0 then none else
    some (wrap64 (first + toInt (F64.mul (ofInt (wrap64 (second - first))) (F64.sub a (a.floor : Rat)))))
  | _, _ => none

theorem percentile_fin_eq (x0 x1 : Int) (rest : List Int) (p : Rat) (h0 : ¬ p ≤ 0) (h1 : ¬ p ≥ 100) :
    percentile (x0 :: x1 :: rest) (.fin p) = interp (x0 :: x1 :: rest) (pabs (x0 :: x1 :: rest).length p) := by
  simp only [percentile, if_neg h0, if_neg h1]
  rfl

/-- the guard of the property file (`CM.Props.C15.Exact` unfolds to this) -/
def Guard (s : List Int) : Prop :=
  s.Pairwise (· ≤ ·) ∧ (∀ x ∈ s, -(4503599627370496 : Int) ≤ x ∧ x ≤ 4503599627370496) ∧ s.length < 9007199254740992

/-! ### the absolute index -/

theorem pabs_eq {n : Nat} (h1 : 1 ≤ n) (h2 : n < 9007199254740992) (p : Rat) :
    pabs n p = rne (rne (p / 100) * (((n : Int) - 1 : Int) : ℚ)) := by
  unfold pabs F64.mul F64.div ofInt
  rw [rne_int _ (by rw [abs_of_nonneg (by omega)]; omega)]

theorem pabs_nonneg {n : Nat} (h1 : 1 ≤ n) (h2 : n < 9007199254740992) {p : Rat} (hp : 0 ≤ p) : 0 ≤ pabs n p := by
  rw [pabs_eq h1 h2]
  apply rne_nonneg
  apply mul_nonneg (rne_nonneg (div_nonneg hp (by norm_num)))
  exact_mod_cast (by omega : (0:Int) ≤ (n:Int) - 1)

theorem pabs_le {n : Nat} (h1 : 1 ≤ n) (h2 : n < 9007199254740992) {p : Rat} (hp : p ≤ 100) :
    pabs n p ≤ (((n : Int) - 1 : Int) : ℚ) := by
  rw [pabs_eq h1 h2]
  apply rne_le_int (by rw [abs_of_nonneg (by omega)]; omega)
  have hr1 : rne (p / 100) ≤ 1 := rne_le_one (by rw [div_le_one (by norm_num)]; exact hp)
  have hn : (0:ℚ) ≤ (((n : Int) - 1 : Int) : ℚ) := by exact_mod_cast (by omega : (0:Int) ≤ (n:Int) - 1)
  nlinarith

theorem pabs_mono {n : Nat} (h1 : 1 ≤ n) (h2 : n < 9007199254740992) {p q : Rat} (hpq : p ≤ q) :
    pabs n p ≤ pabs n q := by
  rw [pabs_eq h1 h2, pabs_eq h1 h2]
  apply rne_mono
  have hn : (0:ℚ) ≤ (((n : Int) - 1 : Int) : ℚ) := by exact_mod_cast (by omega : (0:Int) ≤ (n:Int) - 1)
  exact mul_le_mul_of_nonneg_right (rne_mono (div_le_div_of_nonneg_right hpq (by norm_num))) hn

/-! ### floor and ceiling of an index in range -/

theorem floor_nonneg {a : Rat} (h : 0 ≤ a) : 0 ≤ a.floor := by
  rw [Rat.le_floor_iff]; simpa using h

theorem floor_le_ceil (a : Rat) : a.floor ≤ a.ceil := by
  have h1 := Rat.floor_le a
  have h2 := @Rat.le_ceil a
  have : (a.floor : ℚ) ≤ (a.ceil : ℚ) := le_trans h1 h2
  exact_mod_cast this

theorem ceil_le_floor_succ (a : Rat) : a.ceil ≤ a.floor + 1 := by
  have h1 := @Rat.ceil_lt a
  have h2 := lt_floor_add_one' a
  have : (a.ceil : ℚ) < ((a.floor + 2 : Int) : ℚ) := by push_cast; linarith
  have : a.ceil < a.floor + 2 := by exact_mod_cast this
  omega

theorem ceil_le_of_le {a : Rat} {k : Int} (h : a ≤ k) : a.ceil ≤ k := Rat.ceil_le_iff.mpr h

theorem ceil_mono {a b : Rat} (h : a ≤ b) : a.ceil ≤ b.ceil :=
  Rat.ceil_le_iff.mpr (le_trans h Rat.le_ceil)

/-- the weight `abs - floor(abs)` after rounding lies in [0,1] -/
theorem weight_bounds (a : Rat) : 0 ≤ F64.sub a (a.floor : Rat) ∧ F64.sub a (a.floor : Rat) ≤ 1 := by
  unfold F64.sub
  have h1 := Rat.floor_le a
  have h2 := lt_floor_add_one' a
  exact ⟨rne_nonneg (by linarith), rne_le_one (by linarith)⟩

/-! ### the interpolated value -/

/-- interpolated value at absolute index `a` (before the final wrap) -/
def pv (s : List Int) (a : Rat) : Int :=
  ival (nth s a.floor.toNat) (nth s a.ceil.toNat) (F64.sub a (a.floor : Rat))

theorem nth_bounds {s : List Int} (hs : Guard s) {i : Nat} (hi : i < s.length) :
    -(4503599627370496 : Int) ≤ nth s i ∧ nth s i ≤ 4503599627370496 := hs.2.1 _ (nth_mem hi)

theorem idx_facts {s : List Int} {a : Rat} (h0 : 0 ≤ a) (h1 : a ≤ (((s.length : Int) - 1 : Int) : ℚ)) :
    a.floor.toNat ≤ a.ceil.toNat ∧ a.ceil.toNat < s.length ∧ 0 ≤ a.floor := by
  have f0 := floor_nonneg h0
  have fc := floor_le_ceil a
  have c1 := ceil_le_of_le h1
  omega

theorem pv_bounds {s : List Int} (hs : Guard s) {a : Rat} (h0 : 0 ≤ a) (h1 : a ≤ (((s.length : Int) - 1 : Int) : ℚ)) :
    nth s a.floor.toNat ≤ pv s a ∧ pv s a ≤ nth s a.ceil.toNat := by
  obtain ⟨i1, i2, i3⟩ := idx_facts h0 h1
  have hle := nth_le_nth hs.1 i1 i2
  have b1 := nth_bounds hs (show a.floor.toNat < s.length by omega)
  have b2 := nth_bounds hs i2
  obtain ⟨w0, w1⟩ := weight_bounds a
  exact ival_bounds hle (by omega) w0 w1

theorem interp_eq {s : List Int} (hs : Guard s) {a : Rat} (h0 : 0 ≤ a) (h1 : a ≤ (((s.length : Int) - 1 : Int) : ℚ)) :
    interp s a = some (pv s a) := by
  obtain ⟨i1, i2, i3⟩ := idx_facts h0 h1
  obtain ⟨p1, p2⟩ := pv_bounds hs h0 h1
  have b1 := nth_bounds hs (show a.floor.toNat < s.length by omega)
  have b2 := nth_bounds hs i2
  unfold interp
  rw [getElem?_eq_nth (show a.floor.toNat < s.length by omega), getElem?_eq_nth i2]
  dsimp only
  rw [if_neg (by omega)]
  have : wrap64 (pv s a) = pv s a := wrap64_id (by omega) (by omega)
  exact congrArg some this

theorem pv_mono {s : List Int} (hs : Guard s) {a b : Rat} (h0 : 0 ≤ a) (hab : a ≤ b)
    (h1 : b ≤ (((s.length : Int) - 1 : Int) : ℚ)) : pv s a ≤ pv s b := by
  have hb0 : 0 ≤ b := le_trans h0 hab
  have ha1 : a ≤ (((s.length : Int) - 1 : Int) : ℚ) := le_trans hab h1
  obtain ⟨ia1, ia2, ia3⟩ := idx_facts h0 ha1
  obtain ⟨ib1, ib2, ib3⟩ := idx_facts hb0 h1
  obtain ⟨pa1, pa2⟩ := pv_bounds hs h0 ha1
  obtain ⟨pb1, pb2⟩ := pv_bounds hs hb0 h1
  by_cases hc : a.ceil ≤ b.floor
  · have := nth_le_nth hs.1 (show a.ceil.toNat ≤ b.floor.toNat by omega) (show b.floor.toNat < s.length by omega)
    omega
  · have hfl : a.floor ≤ b.floor := Rat.floor_monotone hab
    have hce : a.ceil ≤ b.ceil := ceil_mono hab
    have ha := ceil_le_floor_succ a
    have hb := ceil_le_floor_succ b
    have e1 : a.floor = b.floor := by omega
    have e2 : a.ceil = b.ceil := by omega
    unfold pv
    rw [e1, e2]
    have hle := nth_le_nth hs.1 ib1 ib2
    have b1 := nth_bounds hs (show b.floor.toNat < s.length by omega)
    have b2 := nth_bounds hs ib2
    apply ival_mono hle (by omega)
    · rw [← e1]; exact (weight_bounds a).1
    · unfold F64.sub; apply rne_mono; linarith

/-! ### mean -/

theorem length_mul_le_sum {l : List Int} {c : Int} (h : ∀ y ∈ l, c ≤ y) : (l.length : Int) * c ≤ l.sum := by
  induction l with
  | nil => simp
  | cons x t ih =>
    have h1 := ih (fun y hy => h y (List.mem_cons_of_mem _ hy))
    have h2 := h x (List.mem_cons_self ..)
    simp only [List.length_cons, List.sum_cons]
    push_cast
    linarith

theorem sum_le_length_mul {l : List Int} {c : Int} (h : ∀ y ∈ l, y ≤ c) : l.sum ≤ (l.length : Int) * c := by
  induction l with
  | nil => simp
  | cons x t ih =>
    have h1 := ih (fun y hy => h y (List.mem_cons_of_mem _ hy))
    have h2 := h x (List.mem_cons_self ..)
    simp only [List.length_cons, List.sum_cons]
    push_cast
    linarith

theorem tdiv_bounds {a lo hi n : Int} (hn : 0 < n) (h1 : n * lo ≤ a) (h2 : a ≤ n * hi) :
    lo ≤ Int.tdiv a n ∧ Int.tdiv a n ≤ hi := by
  rcases le_or_gt 0 a with ha | ha
  · rw [Int.tdiv_eq_ediv_of_nonneg ha]
    exact ⟨Int.le_ediv_of_mul_le hn (by linarith), Int.ediv_le_of_le_mul hn (by linarith)⟩
  · have e : a.tdiv n = -((-a) / n) := by
      rw [← Int.tdiv_eq_ediv_of_nonneg (by omega), Int.neg_tdiv, neg_neg]
    rw [e]
    have u1 : (-a) / n ≤ -lo := Int.ediv_le_of_le_mul hn (by linarith)
    have u2 : -hi ≤ (-a) / n := Int.le_ediv_of_mul_le hn (by linarith)
    constructor <;> omega

theorem mean_bounds {s : List Int} (hsorted : s.Pairwise (· ≤ ·)) (hne : s ≠ [])
    (hsum : -(9223372036854775808 : Int) ≤ s.sum ∧ s.sum ≤ 9223372036854775807) :
    SD.min s ≤ SD.mean s ∧ SD.mean s ≤ SD.max s := by
  have hlen : 0 < s.length := List.length_pos_iff.mpr hne
  unfold SD.mean
  rw [if_neg (by omega), wrap64_id hsum.1 hsum.2]
  unfold tdiv
  exact tdiv_bounds (by exact_mod_cast hlen)
    (length_mul_le_sum (fun y hy => min_le_mem hsorted hy))
    (sum_le_length_mul (fun y hy => mem_le_max hsorted hy))

/-! ### `percentile` as a total function of p on guarded samples of length ≥ 2 -/

theorem min_le_max {s : List Int} (hs : s.Pairwise (· ≤ ·)) (hne : s ≠ []) : SD.min s ≤ SD.max s := by
  have hlen : 0 < s.length := List.length_pos_iff.mpr hne
  rw [min_eq_nth hne, max_eq_nth hne]
  exact nth_le_nth hs (by omega) (by omega)

theorem percentile_fin_le_zero (s : List Int) (hne : s ≠ []) {p : Rat} (hp : p ≤ 0) :
    percentile s (.fin p) = some (SD.min s) := by
  match s, hne with
  | [x], _ => rfl
  | x0 :: x1 :: rest, _ => simp only [percentile, if_pos hp, SD.min]

theorem percentile_ninf (s : List Int) (hne : s ≠ []) : percentile s .ninf = some (SD.min s) := by
  match s, hne with
  | [x], _ => rfl
  | x0 :: x1 :: rest, _ => rfl

theorem percentile_fin_ge_hundred (s : List Int) (hne : s ≠ []) {p : Rat} (hp : 100 ≤ p) :
    percentile s (.fin p) = some (SD.max s) := by
  match s, hne with
  | [x], _ => rfl
  | x0 :: x1 :: rest, _ =>
    have h0 : ¬ p ≤ 0 := by intro h; linarith
    simp only [percentile, if_neg h0, if_pos (show p ≥ 100 from hp)]

theorem percentile_pinf (s : List Int) (hne : s ≠ []) : percentile s .pinf = some (SD.max s) := by
  match s, hne with
  | [x], _ => rfl
  | x0 :: x1 :: rest, _ => rfl

/-- the answer for a guarded sample of at least two elements -/
def PV (s : List Int) (p : Rat) : Int :=
  if p ≤ 0 then SD.min s else if p ≥ 100 then SD.max s else pv s (pabs s.length p)

theorem percentile_eq_PV {s : List Int} (hs : Guard s) (hlen : 2 ≤ s.length) (p : Rat) :
    percentile s (.fin p) = some (PV s p) := by
  have hne : s ≠ [] := by intro h; subst h; simp at hlen
  unfold PV
  split_ifs with h0 h1
  · exact percentile_fin_le_zero s hne h0
  · exact percentile_fin_ge_hundred s hne h1
  · match s, hlen with
    | x0 :: x1 :: rest, _ =>
      rw [percentile_fin_eq x0 x1 rest p h0 h1]
      exact interp_eq hs (pabs_nonneg (by omega) hs.2.2 (le_of_lt (not_le.mp h0)))
        (pabs_le (by omega) hs.2.2 (le_of_lt (not_le.mp h1)))

theorem PV_between {s : List Int} (hs : Guard s) (hlen : 2 ≤ s.length) (p : Rat) :
    SD.min s ≤ PV s p ∧ PV s p ≤ SD.max s := by
  have hne : s ≠ [] := by intro h; subst h; simp at hlen
  have hmm := min_le_max hs.1 hne
  unfold PV
  split_ifs with h0 h1
  · exact ⟨le_refl _, hmm⟩
  · exact ⟨hmm, le_refl _⟩
  · have a0 := pabs_nonneg (n := s.length) (by omega) hs.2.2 (le_of_lt (not_le.mp h0))
    have a1 := pabs_le (n := s.length) (by omega) hs.2.2 (le_of_lt (not_le.mp h1))
    obtain ⟨i1, i2, i3⟩ := idx_facts a0 a1
    obtain ⟨b1, b2⟩ := pv_bounds hs a0 a1
    rw [min_eq_nth hne, max_eq_nth hne]
    have c1 := nth_le_nth hs.1 (Nat.zero_le (pabs s.length p).floor.toNat)
      (show (pabs s.length p).floor.toNat < s.length by omega)
    have c2 := nth_le_nth hs.1 (show (pabs s.length p).ceil.toNat ≤ s.length - 1 by omega)
      (show s.length - 1 < s.length by omega)
    constructor <;> omega

theorem PV_mono {s : List Int} (hs : Guard s) (hlen : 2 ≤ s.length) {p q : Rat} (hpq : p ≤ q) :
    PV s p ≤ PV s q := by
  by_cases h0 : p ≤ 0
  · have : PV s p = SD.min s := by unfold PV; rw [if_pos h0]
    rw [this]; exact (PV_between hs hlen q).1
  · have hq0 : ¬ q ≤ 0 := by intro h; exact h0 (le_trans hpq h)
    by_cases h1 : q ≥ 100
    · have : PV s q = SD.max s := by unfold PV; rw [if_neg hq0, if_pos h1]
      rw [this]; exact (PV_between hs hlen p).2
    · have hp1 : ¬ p ≥ 100 := by intro h; exact h1 (le_trans h hpq)
      unfold PV
      rw [if_neg h0, if_neg hp1, if_neg hq0, if_neg h1]
      exact pv_mono hs (pabs_nonneg (by omega) hs.2.2 (le_of_lt (not_le.mp h0)))
        (pabs_mono (by omega) hs.2.2 hpq)
        (pabs_le (by omega) hs.2.2 (le_of_lt (not_le.mp h1)))

end SD
end CM

/-
  Lemmas/RC.lean — helper lemmas for property C13 (RollingCounter refines the history-based spec).
  Core Lean only.
-/
import CircuitModel.Spec.C13
namespace CM
open SpecC13

/-! ### modular arithmetic -/

/-- two distinct naturals less than `n` apart lie in different residue classes -/
theorem mod_ne_of_window {n a b : Nat} (h1 : a < b) (h2 : b < a + n) : a % n ≠ b % n := by
  intro h
  have h0 : (b - a) % n = 0 := Nat.sub_mod_eq_zero_of_mod_eq h.symm
  have hd : n ∣ b - a := Nat.dvd_of_mod_eq_zero h0
  have := Nat.le_of_dvd (by omega) hd
  omega

/-- every residue class is hit by an element of any `n` consecutive naturals -/
theorem exists_window_rep {n : Nat} (L : Nat) {i : Nat} (hn : 0 < n) (hi : i < n) :
    ∃ v, L < v ∧ v ≤ L + n ∧ v % n = i := by
  have hr : (L + 1) % n < n := Nat.mod_lt _ hn
  have hq := Nat.div_add_mod (L + 1) n
  have hx := Nat.mod_lt (i + n - (L + 1) % n) hn
  have hqx := Nat.div_add_mod (i + n - (L + 1) % n) n
  refine ⟨L + 1 + (i + n - (L + 1) % n) % n, by omega, by omega, ?_⟩
  -- (i + n - r) % n is `i - r` or `i + n - r`
  by_cases hlt : (L + 1) % n ≤ i
  · have e1 : (i + n - (L + 1) % n) % n = i - (L + 1) % n := by
      have : i + n - (L + 1) % n = (i - (L + 1) % n) + n := by omega
      rw [this, Nat.add_mod_right, Nat.mod_eq_of_lt (by omega)]
    have e2 : L + 1 + (i - (L + 1) % n) = i + n * ((L + 1) / n) := by omega
    rw [e1, e2, Nat.add_mul_mod_self_left, Nat.mod_eq_of_lt hi]
  · have e1 : (i + n - (L + 1) % n) % n = i + n - (L + 1) % n := Nat.mod_eq_of_lt (by omega)
    have e2 : L + 1 + (i + n - (L + 1) % n) = i + n * ((L + 1) / n + 1) := by
      rw [Nat.mul_add]; omega
    rw [e1, e2, Nat.add_mul_mod_self_left, Nat.mod_eq_of_lt hi]

/-- the slot index computed by `GetBuckets` -/
theorem gb_idx {n L i : Nat} (hn : 0 < n) (hi : i < n) :
    (if L % n < i then L % n + n - i else L % n - i) = (L + n - i) % n := by
  have hr := Nat.mod_lt L hn
  have hq := Nat.div_add_mod L n
  split
  · have e : L + n - i = (L % n + n - i) + n * (L / n) := by omega
    rw [e, Nat.add_mul_mod_self_left]
    exact (Nat.mod_eq_of_lt (by omega)).symm
  · have e : L + n - i = (L % n - i) + n * (L / n + 1) := by rw [Nat.mul_add]; omega
    rw [e, Nat.add_mul_mod_self_left]
    exact (Nat.mod_eq_of_lt (by omega)).symm

/-! ### lists of integers -/

theorem getD_set_self {l : List Int} {i : Nat} (h : i < l.length) (a d : Int) :
    (l.set i a).getD i d = a := by
  rw [List.getD_eq_getElem?_getD, List.getElem?_set_self h]; rfl

theorem getD_set_ne {l : List Int} {i j : Nat} (h : i ≠ j) (a d : Int) :
    (l.set i a).getD j d = l.getD j d := by
  rw [List.getD_eq_getElem?_getD, List.getElem?_set_ne h, ← List.getD_eq_getElem?_getD]

theorem sum_set_zero (l : List Int) (i : Nat) : (l.set i 0).sum = l.sum - l.getD i 0 := by
  induction l generalizing i with
  | nil => simp
  | cons a l ih =>
    cases i with
    | zero => simp; omega
    | succ i => simp only [List.set_cons_succ, List.sum_cons, ih, List.getD_cons_succ]; omega

theorem sum_set (l : List Int) (i : Nat) (a : Int) (h : i < l.length) :
    (l.set i a).sum = l.sum - l.getD i 0 + a := by
  induction l generalizing i with
  | nil => simp at h
  | cons b l ih =>
    cases i with
    | zero => simp; omega
    | succ i =>
      have h' : i < l.length := by simpa using h
      simp only [List.set_cons_succ, List.sum_cons, ih i h', List.getD_cons_succ]; omega

theorem sum_eq_zero_of_getD (l : List Int) (h : ∀ i, i < l.length → l.getD i 0 = 0) : l.sum = 0 := by
  induction l with
  | nil => rfl
  | cons a l ih =>
    have h0 : a = 0 := by simpa using h 0 (by simp)
    have hl : ∀ i, i < l.length → l.getD i 0 = 0 := fun i hi => by
      simpa using h (i + 1) (by simpa using hi)
    simp [h0, ih hl]

theorem sum_map_zero {α} (l : List α) (f : α → Int) (h : ∀ x ∈ l, f x = 0) : (l.map f).sum = 0 := by
  induction l with
  | nil => rfl
  | cons a l ih =>
    simp only [List.map_cons, List.sum_cons, h a (by simp)]
    rw [ih (fun x hx => h x (by simp [hx]))]; rfl

/-! ### counting -/

/-- occurrences of `e` -/
def cnt (l : List Nat) (e : Nat) : Int := ((l.filter (fun x => x = e)).length : Int)

/-- occurrences of the bucket whose *virtual* index (`e + n`) is `v` -/
def vcnt (n : Nat) (l : List Nat) (v : Nat) : Int := if v < n then 0 else cnt l (v - n)

/-- events in the window of `n` buckets ending at `L` (given that none is newer than `L`) -/
def win (n : Nat) (l : List Nat) (L : Nat) : Int := ((l.filter (fun e => e + n > L)).length : Int)

theorem cnt_nil (e : Nat) : cnt [] e = 0 := rfl
theorem win_nil (n L : Nat) : win n [] L = 0 := rfl
theorem vcnt_nil (n v : Nat) : vcnt n [] v = 0 := by simp [vcnt, cnt_nil]

theorem cnt_cons (a : Nat) (l : List Nat) (e : Nat) :
    cnt (a :: l) e = cnt l e + (if a = e then 1 else 0) := by
  unfold cnt
  by_cases h : a = e <;> simp [h]

theorem win_cons (n a : Nat) (l : List Nat) (L : Nat) :
    win n (a :: l) L = win n l L + (if a + n > L then 1 else 0) := by
  unfold win
  by_cases h : a + n > L <;> simp [h]

theorem cnt_eq_zero {l : List Nat} {e : Nat} (h : ∀ x ∈ l, x ≠ e) : cnt l e = 0 := by
  induction l with
  | nil => rfl
  | cons a l ih =>
    rw [cnt_cons, ih (fun x hx => h x (by simp [hx])), if_neg (h a (by simp))]; rfl

theorem win_eq_zero {n : Nat} {l : List Nat} {L : Nat} (h : ∀ e ∈ l, e + n ≤ L) : win n l L = 0 := by
  induction l with
  | nil => rfl
  | cons a l ih =>
    have := h a (by simp)
    rw [win_cons, ih (fun x hx => h x (by simp [hx])), if_neg (by omega)]; rfl

theorem vcnt_add_right (n : Nat) (l : List Nat) (e : Nat) : vcnt n l (e + n) = cnt l e := by
  unfold vcnt
  rw [if_neg (by omega), Nat.add_sub_cancel]

theorem vcnt_eq_zero {n : Nat} {l : List Nat} {v : Nat} (h : ∀ e ∈ l, e + n < v) : vcnt n l v = 0 := by
  unfold vcnt
  split
  · rfl
  · exact cnt_eq_zero (fun x hx => by have := h x hx; omega)

/-- moving the window one bucket forward drops exactly the bucket that falls out -/
theorem win_succ (n : Nat) (l : List Nat) (L : Nat) : win n l L = win n l (L + 1) + vcnt n l (L + 1) := by
  induction l with
  | nil => simp [win_nil, vcnt_nil]
  | cons a l ih =>
    rw [win_cons, win_cons, ih]
    unfold vcnt
    by_cases hL : L + 1 < n
    · simp only [if_pos hL]
      split <;> split <;> omega
    · simp only [if_neg hL]
      rw [cnt_cons]
      split <;> split <;> split <;> omega

/-! ### the ring / history relation -/

/-- the ring of `c` holds, for the window of `n` buckets ending at `c.last`, exactly the multiset `l` of event
    bucket indices.  Slots are addressed by the virtual index `v = e + n`, so that every slot of the ring is the
    image of exactly one `v` with `c.last < v ≤ c.last + n` (buckets "before 0" hold 0). -/
structure Rel (n : Nat) (w : Int) (l : List Nat) (c : RC) : Prop where
  hn : c.n = n
  hw : c.w = w
  len : c.buckets.length = n
  slot : ∀ v, c.last < v → v ≤ c.last + n → c.buckets.getD (v % n) 0 = vcnt n l v
  roll : c.rolling = win n l c.last
  rsum : c.rolling = c.buckets.sum
  bound : ∀ e ∈ l, e ≤ c.last

theorem Rel.new (n : Nat) (w : Int) (hn : 0 < n) : Rel n w [] (RC.new n w) := by
  refine ⟨rfl, rfl, by simp [RC.new], ?_, rfl, ?_, by simp⟩
  · intro v _ _
    have : v % n < n := Nat.mod_lt _ hn
    simp [RC.new, vcnt_nil, List.getD_eq_getElem?_getD, this]
  · simp [RC.new]

/-- every slot is empty once the window has moved past all events -/
theorem Rel.slots_zero {n : Nat} {w : Int} {l : List Nat} {c : RC} (hn : 0 < n) (R : Rel n w l c)
    (h : ∀ e ∈ l, e + n ≤ c.last) (i : Nat) (hi : i < n) : c.buckets.getD i 0 = 0 := by
  obtain ⟨v, h1, h2, h3⟩ := exists_window_rep c.last hn hi
  rw [← h3, R.slot v h1 h2]
  exact vcnt_eq_zero (fun e he => by have := h e he; omega)

/-- one trip of the `Advance` loop -/
theorem Rel.roll_step {n : Nat} {w : Int} {l : List Nat} {c : RC} (hn : 0 < n) (R : Rel n w l c) :
    Rel n w l ({ c with last := c.last + 1 }.clear ((c.last + 1) % c.n)) := by
  have hmod : (c.last + 1) % c.n = (c.last + 1) % n := by rw [R.hn]
  rw [hmod]
  have hidx : (c.last + 1) % n < c.buckets.length := by rw [R.len]; exact Nat.mod_lt _ hn
  refine ⟨R.hn, R.hw, ?_, ?_, ?_, ?_, ?_⟩
  · simp [RC.clear, R.len]
  · intro v h1 h2
    simp only [RC.clear] at h1 h2 ⊢
    by_cases hv : v = c.last + 1 + n
    · subst hv
      rw [Nat.add_mod_right, getD_set_self hidx, vcnt_add_right, cnt_eq_zero]
      intro x hx; have := R.bound x hx; omega
    · have hne : (c.last + 1) % n ≠ v % n := mod_ne_of_window (by omega) (by omega)
      rw [getD_set_ne hne]
      exact R.slot v (by omega) (by omega)
  · simp only [RC.clear]
    rw [R.roll, R.slot (c.last + 1) (by omega) (by omega), win_succ]; omega
  · simp only [RC.clear]; rw [sum_set_zero, R.rsum]
  · intro e he; have := R.bound e he; simp only [RC.clear]; omega

/-- the whole loop with trip count `k` -/
theorem Rel.rollLoop {n : Nat} {w : Int} {l : List Nat} (hn : 0 < n) (abs : Nat) :
    ∀ (k : Nat) (c : RC), Rel n w l c → c.last ≤ abs →
      Rel n w l (c.rollLoop abs k) ∧ (c.rollLoop abs k).total = c.total ∧
      (c.rollLoop abs k).last = min abs (c.last + k)
  | 0, c, R, h => ⟨R, rfl, by simp only [RC.rollLoop]; omega⟩
  | k + 1, c, R, h => by
    simp only [RC.rollLoop]
    split
    · next hlt =>
      obtain ⟨R', ht, hl⟩ := Rel.rollLoop hn abs k _ (R.roll_step hn) (by simp only [RC.clear]; omega)
      refine ⟨R', ?_, ?_⟩
      · rw [ht]; rfl
      · rw [hl]; simp only [RC.clear]; omega
    · exact ⟨R, rfl, by omega⟩

/-- the final `CompareAndSwap(lastAbsVal, absIndex)` -/
theorem Rel.jump {n : Nat} {w : Int} {l : List Nat} {c : RC} (hn : 0 < n) (R : Rel n w l c) (abs : Nat)
    (h : c.last = abs ∨ (c.last ≤ abs ∧ ∀ e ∈ l, e + n ≤ c.last)) :
    Rel n w l { c with last := abs } := by
  rcases h with h | ⟨h1, h2⟩
  · subst h
    exact ⟨R.hn, R.hw, R.len, R.slot, R.roll, R.rsum, R.bound⟩
  · refine ⟨R.hn, R.hw, R.len, ?_, ?_, R.rsum, ?_⟩
    · intro v hv1 hv2
      simp only at hv1 hv2 ⊢
      rw [R.slots_zero hn h2 _ (Nat.mod_lt _ hn)]
      exact (vcnt_eq_zero (fun e he => by have := h2 e he; omega)).symm
    · show c.rolling = win n l abs
      rw [R.roll, win_eq_zero h2, win_eq_zero (fun e he => by have := h2 e he; omega)]
    · intro e he; have := h2 e he; show e ≤ abs; omega

/-- `Advance` keeps the relation, moves `last` to the newest index seen and returns the slot of the event
    unless the event is before the start or fell out of the window. -/
theorem Rel.advance {n : Nat} {w : Int} {l : List Nat} {c : RC} (hn : 0 < n) (R : Rel n w l c) (d : Int) :
    Rel n w l (c.advance d).1 ∧ (c.advance d).1.total = c.total ∧
    (c.advance d).1.last = (if d < 0 then c.last else max (absIdx w d) c.last) ∧
    (c.advance d).2 = (if d < 0 then none else
      if absIdx w d + n ≤ max (absIdx w d) c.last then none else some (absIdx w d % n)) := by
  have h0 : ¬ n = 0 := by omega
  by_cases hd : d < 0
  · have e : c.advance d = (c, none) := by simp only [RC.advance, R.hn, if_neg h0, if_pos hd]
    rw [e, if_pos hd, if_pos hd]; exact ⟨R, rfl, rfl, rfl⟩
  simp only [if_neg hd]
  by_cases h1 : absIdx w d = c.last
  · have e : c.advance d = (c, some (absIdx w d % n)) := by
      simp only [RC.advance, R.hn, R.hw, if_neg h0, if_neg hd, if_pos h1]
    rw [e]
    refine ⟨R, rfl, ?_, ?_⟩
    · show c.last = _; omega
    · rw [if_neg (by omega)]
  by_cases h2 : absIdx w d < c.last
  · by_cases h3 : c.last - absIdx w d ≥ n
    · have e : c.advance d = (c, none) := by
        simp only [RC.advance, R.hn, R.hw, if_neg h0, if_neg hd, if_neg h1, if_pos h2, if_pos h3]
      rw [e]
      refine ⟨R, rfl, ?_, ?_⟩
      · show c.last = _; omega
      · rw [if_pos (by omega)]
    · have e : c.advance d = (c, some (absIdx w d % n)) := by
        simp only [RC.advance, R.hn, R.hw, if_neg h0, if_neg hd, if_neg h1, if_pos h2, if_neg h3]
      rw [e]
      refine ⟨R, rfl, ?_, ?_⟩
      · show c.last = _; omega
      · rw [if_neg (by omega)]
  have e : c.advance d =
      ({ c.rollLoop (absIdx w d) n with last := absIdx w d }, some (absIdx w d % n)) := by
    simp only [RC.advance, R.hn, R.hw, if_neg h0, if_neg hd, if_neg h1, if_neg h2]
  rw [e]
  obtain ⟨R', ht, hl⟩ := Rel.rollLoop hn (absIdx w d) n c R (by omega)
  refine ⟨?_, ht, ?_, ?_⟩
  · apply R'.jump hn
    by_cases h4 : absIdx w d ≤ c.last + n
    · left; omega
    · right
      refine ⟨by omega, fun e he => ?_⟩
      have := R.bound e he; omega
  · show absIdx w d = _; omega
  · rw [if_neg (by omega)]

theorem vcnt_cons_ne {n a v : Nat} (l : List Nat) (h : v ≠ a + n) : vcnt n (a :: l) v = vcnt n l v := by
  unfold vcnt
  split
  · rfl
  · rw [cnt_cons, if_neg (by omega)]; omega

/-- an `Inc` that lands inside the window -/
theorem Rel.bump {n : Nat} {w : Int} {l : List Nat} {c : RC} (hn : 0 < n) (R : Rel n w l c) (a : Nat)
    (h1 : a ≤ c.last) (h2 : c.last < a + n) :
    Rel n w (a :: l)
      { c with buckets := c.buckets.set (a % n) (c.buckets.getD (a % n) 0 + 1), rolling := c.rolling + 1 } := by
  have hidx : a % n < c.buckets.length := by rw [R.len]; exact Nat.mod_lt _ hn
  have hs := R.slot (a + n) (by omega) (by omega)
  rw [Nat.add_mod_right] at hs
  refine ⟨R.hn, R.hw, ?_, ?_, ?_, ?_, ?_⟩
  · show (c.buckets.set _ _).length = n
    rw [List.length_set, R.len]
  · intro v hv1 hv2
    simp only at hv1 hv2 ⊢
    by_cases hv : v = a + n
    · subst hv
      rw [Nat.add_mod_right, getD_set_self hidx, hs, vcnt_add_right, vcnt_add_right, cnt_cons, if_pos rfl]
    · have hne : a % n ≠ v % n := by
        rcases Nat.lt_or_gt_of_ne hv with hlt | hgt
        · have := mod_ne_of_window (n := n) hlt (by omega)
          rw [Nat.add_mod_right] at this
          exact fun e => this e.symm
        · have := mod_ne_of_window (n := n) hgt (by omega)
          rw [Nat.add_mod_right] at this
          exact this
      rw [getD_set_ne hne, vcnt_cons_ne l hv]
      exact R.slot v hv1 hv2
  · show c.rolling + 1 = win n (a :: l) c.last
    rw [win_cons, if_pos (by omega), R.roll]
  · show c.rolling + 1 = (c.buckets.set _ _).sum
    rw [sum_set _ _ _ hidx, R.rsum]; omega
  · intro e he
    show e ≤ c.last
    rcases List.mem_cons.mp he with rfl | he
    · exact h1
    · exact R.bound e he

/-- an `Inc` that is older than the window -/
theorem Rel.stale {n : Nat} {w : Int} {l : List Nat} {c : RC} (R : Rel n w l c) (a : Nat)
    (h : a + n ≤ c.last) : Rel n w (a :: l) c := by
  refine ⟨R.hn, R.hw, R.len, ?_, ?_, R.rsum, ?_⟩
  · intro v hv1 hv2
    rw [vcnt_cons_ne l (by omega)]
    exact R.slot v hv1 hv2
  · rw [win_cons, if_neg (by omega), R.roll]; omega
  · intro e he
    rcases List.mem_cons.mp he with rfl | he
    · omega
    · exact R.bound e he

theorem getD_set_zero_self (l : List Int) (i : Nat) : (l.set i 0).getD i 0 = 0 := by
  by_cases h : i < l.length
  · exact getD_set_self h 0 0
  · rw [List.getD_eq_getElem?_getD, List.getElem?_eq_none (by simp; omega)]; rfl

theorem clearAll_spec (c : RC) (h : c.rolling = c.buckets.sum) : ∀ k,
    (c.clearAll k).n = c.n ∧ (c.clearAll k).w = c.w ∧ (c.clearAll k).last = c.last ∧
    (c.clearAll k).total = c.total ∧ (c.clearAll k).buckets.length = c.buckets.length ∧
    (c.clearAll k).rolling = (c.clearAll k).buckets.sum ∧
    ∀ i, i < k → (c.clearAll k).buckets.getD i 0 = 0
  | 0 => ⟨rfl, rfl, rfl, rfl, rfl, h, fun i hi => by omega⟩
  | k + 1 => by
    obtain ⟨h1, h2, h3, h4, h5, h6, h7⟩ := clearAll_spec c h k
    simp only [RC.clearAll, RC.clear]
    refine ⟨h1, h2, h3, h4, by rw [List.length_set, h5], by rw [sum_set_zero, h6], ?_⟩
    intro i hi
    by_cases hik : i = k
    · subst hik; exact getD_set_zero_self _ _
    · rw [getD_set_ne (fun e => hik e.symm)]; exact h7 i (by omega)

/-- `Reset` after its `Advance` -/
theorem Rel.clearAll {n : Nat} {w : Int} {l : List Nat} {c : RC} (hn : 0 < n) (R : Rel n w l c) :
    Rel n w [] (c.clearAll c.n) ∧ (c.clearAll c.n).last = c.last ∧ (c.clearAll c.n).total = c.total := by
  obtain ⟨h1, h2, h3, h4, h5, h6, h7⟩ := clearAll_spec c R.rsum c.n
  have h7 : ∀ i, i < n → (c.clearAll c.n).buckets.getD i 0 = 0 :=
    fun i hi => h7 i (by rw [R.hn]; exact hi)
  have hz : (c.clearAll c.n).buckets.sum = 0 :=
    sum_eq_zero_of_getD _ (fun i hi => h7 i (by rw [h5, R.len] at hi; exact hi))
  refine ⟨⟨h1.trans R.hn, h2.trans R.hw, h5.trans R.len, ?_, ?_, h6, by simp⟩, h3, h4⟩
  · intro v _ _
    rw [vcnt_nil]; exact h7 _ (Nat.mod_lt _ hn)
  · rw [h6, hz, win_nil]

/-- the list `GetBuckets` reads off the ring -/
theorem Rel.buckets_eq {n : Nat} {w : Int} {l : List Nat} {c : RC} (hn : 0 < n) (R : Rel n w l c) :
    ((List.range n).map fun i =>
        let idx := if c.last % n < i then c.last % n + n - i else c.last % n - i
        c.buckets.getD idx 0) =
      (List.range n).map fun i => if i ≤ c.last then cnt l (c.last - i) else 0 := by
  apply List.map_congr_left
  intro i hi
  have hi : i < n := List.mem_range.mp hi
  simp only
  rw [gb_idx hn hi, R.slot (c.last + n - i) (by omega) (by omega)]
  unfold vcnt
  by_cases h : i ≤ c.last
  · rw [if_neg (by omega), if_pos h]
    congr 1; omega
  · rw [if_pos (by omega), if_neg h]

theorem Rel.getBuckets {n : Nat} {w : Int} {l : List Nat} {c : RC} (hn : 0 < n) (d : Int)
    (R : Rel n w l (c.advance d).1) :
    c.getBuckets d = ((c.advance d).1,
      some ((List.range n).map fun i =>
        if i ≤ (c.advance d).1.last then cnt l ((c.advance d).1.last - i) else 0)) := by
  have h0 : ¬ n = 0 := by omega
  rw [← R.buckets_eq hn]
  simp only [RC.getBuckets, R.hn, if_neg h0]

/-! ### facts about histories (spec level) -/

theorem hi_cons_time (w : Int) (h : List RCOp) (op : RCOp) (d : Int) (ht : opTime op = some d) :
    hi w (op :: h) = if d < 0 then hi w h else max (absIdx w d) (hi w h) := by
  simp only [hi, ht]

theorem hi_cons_none (w : Int) (h : List RCOp) (op : RCOp) (ht : opTime op = none) :
    hi w (op :: h) = hi w h := by
  simp only [hi, ht]

theorem hi_le_cons (w : Int) (h : List RCOp) (op : RCOp) : hi w h ≤ hi w (op :: h) := by
  cases ht : opTime op with
  | none => rw [hi_cons_none w h op ht]; exact Nat.le_refl _
  | some d => rw [hi_cons_time w h op d ht]; split <;> omega

theorem counted_inc (w : Int) (h : List RCOp) (d : Int) :
    counted w (.inc d :: h) = if d < 0 then counted w h else absIdx w d :: counted w h := by
  by_cases hd : d < 0
  · have : ¬ (0 ≤ d) := by omega
    simp [counted, live, hd, this]
  · have : 0 ≤ d := by omega
    simp [counted, live, hd, this]

theorem counted_reset (w : Int) (h : List RCOp) (d : Int) : counted w (.reset d :: h) = [] := rfl
theorem counted_sum (w : Int) (h : List RCOp) (d : Int) : counted w (.sum d :: h) = counted w h := rfl
theorem counted_bk (w : Int) (h : List RCOp) (d : Int) : counted w (.bk d :: h) = counted w h := rfl
theorem counted_total (w : Int) (h : List RCOp) : counted w (.total :: h) = counted w h := rfl
theorem counted_json (w : Int) (h : List RCOp) : counted w (.json :: h) = counted w h := rfl

/-- no counted event is newer than the newest bucket seen -/
theorem counted_le_hi (w : Int) (h : List RCOp) : ∀ e ∈ counted w h, e ≤ hi w h := by
  induction h with
  | nil => intro e he; simp [counted, live] at he
  | cons op h ih =>
    have hle := hi_le_cons w h op
    cases op with
    | inc d =>
      rw [counted_inc]
      by_cases hd : d < 0
      · rw [if_pos hd]; intro e he; have := ih e he; omega
      · rw [if_neg hd, hi_cons_time w h (.inc d) d rfl, if_neg hd]
        intro e he
        rcases List.mem_cons.mp he with rfl | he
        · omega
        · have := ih e he; omega
    | reset d => intro e he; simp [counted_reset] at he
    | sum d => rw [counted_sum]; intro e he; have := ih e he; omega
    | bk d => rw [counted_bk]; intro e he; have := ih e he; omega
    | total => rw [counted_total]; intro e he; have := ih e he; omega
    | json => rw [counted_json]; intro e he; have := ih e he; omega

theorem sum_eq_win (n : Nat) (w : Int) (h : List RCOp) : SpecC13.sum n w h = win n (counted w h) (hi w h) := rfl

theorem bucketsAt_eq (n : Nat) (w : Int) (h : List RCOp) :
    bucketsAt n w h = (List.range n).map fun i =>
      if i ≤ hi w h then cnt (counted w h) (hi w h - i) else 0 := rfl

/-- the window count is the sum of the per-bucket counts -/
theorem win_eq_sum_range (l : List Nat) (H : Nat) (hb : ∀ e ∈ l, e ≤ H) : ∀ n : Nat,
    win n l H = ((List.range n).map fun i => if i ≤ H then cnt l (H - i) else 0).sum
  | 0 => by
    rw [win_eq_zero (fun e he => by have := hb e he; omega)]; rfl
  | n + 1 => by
    rw [List.range_succ, List.map_append, List.sum_append_int, ← win_eq_sum_range l H hb n]
    simp only [List.map_cons, List.map_nil, List.sum_cons, List.sum_nil, Int.add_zero]
    -- `win (n+1) l H = win n l H + #{e | e + n = H}`
    clear hb
    induction l with
    | nil => simp [win_nil, cnt_nil]
    | cons a l ih =>
      rw [win_cons, win_cons, ih]
      by_cases hH : n ≤ H
      · simp only [if_pos hH, cnt_cons]
        split <;> split <;> split <;> omega
      · simp only [if_neg hH]
        split <;> split <;> omega

/-! ### the simulation -/

/-- model state `c` represents history `h` (newest first) -/
structure Inv (n : Nat) (w : Int) (c : RC) (h : List RCOp) : Prop where
  rel : Rel n w (counted w h) c
  last : c.last = hi w h
  total : c.total = incs h

theorem Inv.new (n : Nat) (w : Int) (hn : 0 < n) : Inv n w (RC.new n w) [] :=
  ⟨Rel.new n w hn, rfl, rfl⟩

/-- an operation that only presents a time: `RollingSumAt`, `GetBuckets` -/
theorem Inv.advance {n : Nat} {w : Int} {c : RC} {h : List RCOp} (hn : 0 < n) (I : Inv n w c h)
    (op : RCOp) (d : Int) (ht : opTime op = some d) (hc : counted w (op :: h) = counted w h)
    (hi' : incs (op :: h) = incs h) : Inv n w (c.advance d).1 (op :: h) := by
  obtain ⟨R, htot, hl, _⟩ := I.rel.advance hn d
  refine ⟨by rw [hc]; exact R, ?_, by rw [htot, hi', I.total]⟩
  rw [hl, hi_cons_time w h op d ht, I.last]

theorem Inv.reset {n : Nat} {w : Int} {c : RC} {h : List RCOp} (hn : 0 < n) (I : Inv n w c h) (d : Int) :
    Inv n w (c.reset d) (.reset d :: h) := by
  obtain ⟨R, htot, hl, _⟩ := I.rel.advance hn d
  obtain ⟨R', hl', htot'⟩ := R.clearAll hn
  refine ⟨by rw [counted_reset]; exact R', ?_, ?_⟩
  · show ((c.advance d).1.clearAll (c.advance d).1.n).last = _
    rw [hl', hl, hi_cons_time w h (.reset d) d rfl, I.last]
  · show ((c.advance d).1.clearAll (c.advance d).1.n).total = _
    rw [htot', htot, I.total]; rfl

theorem Inv.inc {n : Nat} {w : Int} {c : RC} {h : List RCOp} (hn : 0 < n) (I : Inv n w c h) (d : Int) :
    Inv n w (c.inc d) (.inc d :: h) := by
  have R0 : Rel n w (counted w h) { c with total := c.total + 1 } :=
    ⟨I.rel.hn, I.rel.hw, I.rel.len, I.rel.slot, I.rel.roll, I.rel.rsum, I.rel.bound⟩
  have hlen : ¬ c.buckets.length = 0 := by rw [I.rel.len]; omega
  obtain ⟨R, htot, hl, hr⟩ := R0.advance hn d
  simp only [RC.inc, if_neg hlen]
  generalize RC.advance { c with total := c.total + 1 } d = p at R htot hl hr ⊢
  obtain ⟨c1, r⟩ := p
  simp only at R htot hl hr ⊢
  rw [I.last] at hl
  have hhi := hi_cons_time w h (.inc d) d rfl
  have htot' : c1.total = incs (.inc d :: h) := by rw [htot, I.total]; rfl
  by_cases hd : d < 0
  · rw [if_pos hd] at hl hr hhi
    subst hr
    refine ⟨?_, by rw [hl, hhi], htot'⟩
    rw [counted_inc, if_pos hd]; exact R
  · rw [if_neg hd] at hl hr hhi
    by_cases hs : absIdx w d + n ≤ max (absIdx w d) (hi w h)
    · rw [I.last, if_pos hs] at hr
      subst hr
      refine ⟨?_, by rw [hl, hhi], htot'⟩
      rw [counted_inc, if_neg hd]
      exact R.stale _ (by omega)
    · rw [I.last, if_neg hs] at hr
      subst hr
      refine ⟨?_, by show c1.last = _; rw [hl, hhi], htot'⟩
      rw [counted_inc, if_neg hd]
      exact R.bump hn _ (by omega) (by omega)

theorem Inv.step {n : Nat} {w : Int} {c : RC} {h : List RCOp} (hn : 0 < n) (I : Inv n w c h) (op : RCOp) :
    Inv n w (c.step op).1 (op :: h) ∧ (c.step op).2 = out n w h op := by
  cases op with
  | inc d => exact ⟨I.inc hn d, rfl⟩
  | reset d => exact ⟨I.reset hn d, rfl⟩
  | total => exact ⟨⟨I.rel, I.last, I.total⟩, by show RCOut.int c.total = _; rw [I.total]; rfl⟩
  | json => exact ⟨⟨I.rel, I.last, I.total⟩, rfl⟩
  | sum d =>
    have I' := I.advance hn (.sum d) d rfl rfl rfl
    refine ⟨I', ?_⟩
    show RCOut.int (c.advance d).1.rolling = RCOut.int (SpecC13.sum n w (.sum d :: h))
    rw [sum_eq_win, I'.rel.roll, I'.last]
  | bk d =>
    have I' := I.advance hn (.bk d) d rfl rfl rfl
    have hg := I'.rel.getBuckets hn d
    simp only [RC.step, hg]
    refine ⟨I', ?_⟩
    show RCOut.ints _ = RCOut.ints (bucketsAt n w (.bk d :: h))
    rw [bucketsAt_eq, I'.last]

/-- the ring-buffer model started in a state representing `h` answers as the spec does -/
theorem Inv.run {n : Nat} {w : Int} (hn : 0 < n) : ∀ (ops : List RCOp) (c : RC) (h : List RCOp),
    Inv n w c h → c.run ops = runFrom n w h ops
  | [], _, _, _ => rfl
  | op :: ops, c, h, I => by
    obtain ⟨I', ho⟩ := I.step hn op
    show (c.step op).2 :: RC.run (c.step op).1 ops = out n w h op :: runFrom n w (op :: h) ops
    rw [ho, Inv.run hn ops _ _ I']

theorem panic_not_mem_runFrom (n : Nat) (w : Int) : ∀ (ops : List RCOp) (h : List RCOp),
    RCOut.panic ∉ runFrom n w h ops
  | [], _ => by simp [runFrom]
  | op :: ops, h => by
    have ih := panic_not_mem_runFrom n w ops (op :: h)
    simp only [runFrom, List.mem_cons, not_or]
    refine ⟨?_, ih⟩
    cases op <;> simp [out]

/-! ### `buckets.length` is invariant without any side condition -/

theorem clear_length (c : RC) (i : Nat) : (c.clear i).buckets.length = c.buckets.length := by
  simp [RC.clear]

theorem clear_n (c : RC) (i : Nat) : (c.clear i).n = c.n := rfl

theorem rollLoop_length (abs : Nat) : ∀ (k : Nat) (c : RC),
    (c.rollLoop abs k).buckets.length = c.buckets.length ∧ (c.rollLoop abs k).n = c.n
  | 0, _ => ⟨rfl, rfl⟩
  | k + 1, c => by
    simp only [RC.rollLoop]
    split
    · obtain ⟨h1, h2⟩ := rollLoop_length abs k ({ c with last := c.last + 1 }.clear ((c.last + 1) % c.n))
      exact ⟨h1.trans (clear_length _ _), h2⟩
    · exact ⟨rfl, rfl⟩

theorem advance_length (c : RC) (d : Int) :
    (c.advance d).1.buckets.length = c.buckets.length ∧ (c.advance d).1.n = c.n := by
  obtain ⟨h1, h2⟩ := rollLoop_length (absIdx c.w d) c.n c
  simp only [RC.advance]
  split
  · exact ⟨rfl, rfl⟩
  split
  · exact ⟨rfl, rfl⟩
  split
  · exact ⟨rfl, rfl⟩
  split
  · split <;> exact ⟨rfl, rfl⟩
  · exact ⟨h1, h2⟩

theorem clearAll_length (c : RC) : ∀ k, (c.clearAll k).buckets.length = c.buckets.length ∧ (c.clearAll k).n = c.n
  | 0 => ⟨rfl, rfl⟩
  | k + 1 => by
    obtain ⟨h1, h2⟩ := clearAll_length c k
    simp only [RC.clearAll]
    exact ⟨(clear_length _ _).trans h1, h2⟩

theorem inc_length (c : RC) (d : Int) :
    (c.inc d).buckets.length = c.buckets.length ∧ (c.inc d).n = c.n := by
  obtain ⟨h1, h2⟩ := advance_length { c with total := c.total + 1 } d
  simp only [RC.inc]
  split
  · exact ⟨rfl, rfl⟩
  · generalize RC.advance { c with total := c.total + 1 } d = p at h1 h2 ⊢
    obtain ⟨c1, r⟩ := p
    cases r with
    | none => exact ⟨h1, h2⟩
    | some idx => exact ⟨by simp only [List.length_set]; exact h1, h2⟩

theorem step_length (c : RC) (op : RCOp) :
    (c.step op).1.buckets.length = c.buckets.length ∧ (c.step op).1.n = c.n := by
  cases op with
  | inc d => exact inc_length c d
  | sum d => exact advance_length c d
  | bk d =>
    have h := advance_length c d
    have e : (c.step (.bk d)).1 = (c.advance d).1 := by
      by_cases hz : (c.advance d).1.n = 0
      · simp only [RC.step, RC.getBuckets, if_pos hz]
      · simp only [RC.step, RC.getBuckets, if_neg hz]
    rw [e]; exact h
  | reset d =>
    obtain ⟨h1, h2⟩ := advance_length c d
    obtain ⟨h3, h4⟩ := clearAll_length (c.advance d).1 (c.advance d).1.n
    exact ⟨h3.trans h1, h4.trans h2⟩
  | total => exact ⟨rfl, rfl⟩
  | json => exact ⟨rfl, rfl⟩

theorem exec_length : ∀ (ops : List RCOp) (c : RC), (c.exec ops).buckets.length = c.buckets.length
  | [], _ => rfl
  | op :: ops, c => by
    show (RC.exec (c.step op).1 ops).buckets.length = _
    rw [exec_length ops, (step_length c op).1]

end CM

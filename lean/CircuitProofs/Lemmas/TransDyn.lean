/-
  Lemmas/TransDyn.lean — invariants of the transitions racing live override changes (CircuitModel/Conc/TransDyn.lean),
  used by Props/C09Dyn.lean.  The invariant `td_Inv` does not mention the override flags at all:
    * `td_Good`: what the lock holder knows about the state flag and the log at each program point;
    * `td_Inv`: alternation, mutual exclusion, flag = last notification when the lock is free; `td_Inv_step`;
    * `td_oldStep` / `td_oldSys`: the step function BEFORE the repair of D16 (two loads of one override per decision).
-/
import CircuitModel.Conc.TransDyn
import CircuitProofs.Lemmas.Trans
namespace CM.Conc.TransDyn
open CM.Conc

/-! ### the lock holder, without the override flags -/

/-- what the holder of the lock knows at each program point — nothing about ForceOpen / ForcedClosed -/
def td_Good (io : Bool) (s : Trans.Shared) (l : Trans.Local) : Prop :=
  match l.pc, l.job with
  | .start, _ => False
  | .done, _ => False
  | .guard1, _ => s.isOpen = Trans.lastN io s
  | .isOpenFO, _ => s.isOpen = Trans.lastN io s
  | .isOpenFC, _ => s.isOpen = Trans.lastN io s
  | .isOpenFlag, _ => s.isOpen = Trans.lastN io s
  | .guard2, _ => s.isOpen = Trans.lastN io s
  | .decide, .open => s.isOpen = Trans.lastN io s
  | .decide, .close _ _ => s.isOpen = true ∧ Trans.lastN io s = true
  | .notify, .open => s.isOpen = false ∧ Trans.lastN io s = false
  | .notify, .close _ _ => s.isOpen = true ∧ Trans.lastN io s = true
  | .store, .open => Trans.lastN io s = true ∧ s.isOpen = false
  | .store, .close _ _ => Trans.lastN io s = false ∧ s.isOpen = true
  | .unlock, _ => s.isOpen = Trans.lastN io s

/-- `td_Good` reads only the state flag and the log -/
theorem td_Good_congr (io : Bool) (s s' : Trans.Shared) (l : Trans.Local) (h1 : s'.isOpen = s.isOpen) (h2 : s'.log = s.log)
    (hg : td_Good io s l) : td_Good io s' l := by
  obtain ⟨job, pc⟩ := l
  cases pc <;> cases job <;> simp only [td_Good, Trans.lastN, h1, h2] at hg ⊢ <;> exact hg

/-- one step of the lock holder -/
theorem td_step_holder (io : Bool) (i : Nat) (s s' : Trans.Shared) (l l' : Trans.Local)
    (halt : Trans.alternates io s.log = true) (hg : td_Good io s l) (hs : Trans.step i s l = some (s', l')) :
    Trans.alternates io s'.log = true ∧
    ((s'.holder = s.holder ∧ td_Good io s' l') ∨ (s'.holder = none ∧ l'.pc = .done ∧ s'.isOpen = Trans.lastN io s')) := by
  obtain ⟨job, pc⟩ := l
  cases pc <;> cases job <;> simp only [Trans.step, td_Good, Trans.lastN] at hs hg ⊢
  all_goals (try split at hs)
  all_goals (try split at hs)
  all_goals (try simp only [Option.some.injEq, Prod.mk.injEq] at hs)
  all_goals (try (obtain ⟨rfl, rfl⟩ := hs))
  all_goals (simp_all [Trans.alternates_append])

/-- taking the lock -/
theorem td_step_start (io : Bool) (i : Nat) (s s' : Trans.Shared) (l l' : Trans.Local) (hpc : l.pc = .start)
    (hs : Trans.step i s l = some (s', l')) :
    s.holder = none ∧ s' = { s with holder := some i } ∧ (s.isOpen = Trans.lastN io s → td_Good io s' l') := by
  obtain ⟨job, pc⟩ := l
  simp only at hpc; subst hpc
  simp only [Trans.step] at hs
  split at hs
  · rename_i hn
    simp only [Option.some.injEq, Prod.mk.injEq] at hs
    obtain ⟨rfl, rfl⟩ := hs
    refine ⟨by simpa using hn, rfl, ?_⟩
    cases job <;> simp [td_Good, Trans.lastN]
  · simp at hs

/-- the lock holder is never blocked -/
theorem td_step_good_isSome (io : Bool) (i : Nat) (s : Trans.Shared) (l : Trans.Local) (hg : td_Good io s l) :
    (Trans.step i s l).isSome = true := by
  obtain ⟨job, pc⟩ := l
  cases pc <;> cases job <;> simp only [Trans.step, td_Good] at hg ⊢ <;> (try split) <;> simp_all

/-- an operator's store touches neither the log, nor the state flag, nor the mutex -/
theorem td_step_op (tid : Nat) (s : Trans.Shared) (fo fc : Bool) (k : Nat) (s' : Trans.Shared) (l' : Local)
    (h : step tid s (.op fo fc k) = some (s', l')) :
    s'.log = s.log ∧ s'.isOpen = s.isOpen ∧ s'.holder = s.holder ∧ ∃ k', l' = .op fo fc k' := by
  match k, h with
  | 0, h =>
    simp only [step, Option.some.injEq, Prod.mk.injEq] at h
    obtain ⟨rfl, rfl⟩ := h
    exact ⟨rfl, rfl, rfl, _, rfl⟩
  | 1, h =>
    simp only [step, Option.some.injEq, Prod.mk.injEq] at h
    obtain ⟨rfl, rfl⟩ := h
    exact ⟨rfl, rfl, rfl, _, rfl⟩
  | (_ + 2), h => simp [step] at h

theorem td_step_tr (tid : Nat) (s : Trans.Shared) (l : Trans.Local) (s' : Trans.Shared) (l' : Local)
    (h : step tid s (.tr l) = some (s', l')) : ∃ m, l' = .tr m ∧ Trans.step tid s l = some (s', m) := by
  simp only [step, Option.map_eq_some_iff] at h
  obtain ⟨⟨a, b⟩, hab, he⟩ := h
  simp only [Prod.mk.injEq] at he
  obtain ⟨rfl, rfl⟩ := he
  exact ⟨b, rfl, hab⟩

/-! ### the global invariant -/

structure td_Inv (io : Bool) (c : Config Trans.Shared Local) : Prop where
  alt : Trans.alternates io c.shared.log = true
  /-- mutual exclusion: a transition thread that does not hold the lock is outside the critical section -/
  idle : ∀ j l, c.locals[j]? = some (.tr l) → c.shared.holder ≠ some j → l.pc = .start ∨ l.pc = .done
  /-- the holder is a transition thread, and knows `td_Good` -/
  held : ∀ i, c.shared.holder = some i → ∃ l, c.locals[i]? = some (.tr l) ∧ td_Good io c.shared l
  free : c.shared.holder = none → c.shared.isOpen = Trans.lastN io c.shared

theorem td_Inv_init (fo fc io : Bool) (jobs : List Job) : td_Inv io (init fo fc io jobs) := by
  refine ⟨rfl, ?_, ?_, ?_⟩
  · intro j l hl _
    simp only [init, List.getElem?_map, Option.map_eq_some_iff] at hl
    obtain ⟨a, _, ha⟩ := hl
    cases a with
    | trans j' => simp only [startLocal, Local.tr.injEq] at ha; subst ha; exact Or.inl rfl
    | setFlags a b => simp [startLocal] at ha
  · intro i hi; simp [init] at hi
  · intro _; simp [init, Trans.lastN]

theorem td_Inv_step (io : Bool) (c : Config Trans.Shared Local) (i : Nat) (l : Local) (s' : Trans.Shared) (l' : Local)
    (I : td_Inv io c) (hl : c.locals[i]? = some l) (hs : step i c.shared l = some (s', l')) :
    td_Inv io { shared := s', locals := c.locals.set i l' } := by
  have hi : i < c.locals.length := (List.getElem?_eq_some_iff.1 hl).1
  cases l with
  | op fo fc k =>
    obtain ⟨h1, h2, h3, k', rfl⟩ := td_step_op i _ fo fc k s' l' hs
    refine ⟨by simpa only [h1] using I.alt, ?_, ?_, ?_⟩
    · intro j lj hj hne
      by_cases hij : i = j
      · subst hij
        simp [List.getElem?_set_self hi] at hj
      · simp only [List.getElem?_set_ne hij] at hj
        exact I.idle j lj hj (by simpa only [h3] using hne)
    · intro k hk
      simp only [h3] at hk
      obtain ⟨lk, hlk, hg⟩ := I.held k hk
      have hik : i ≠ k := by intro e; subst e; rw [hl] at hlk; cases hlk
      exact ⟨lk, by simpa only [List.getElem?_set_ne hik] using hlk, td_Good_congr io _ _ lk h2 h1 hg⟩
    · intro hn
      simp only [h3] at hn
      simpa only [Trans.lastN, h1, h2] using I.free hn
  | tr l =>
    obtain ⟨m, rfl, hs'⟩ := td_step_tr i _ l s' l' hs
    clear hs
    have hs := hs'
    clear hs'
    cases hh : c.shared.holder with
    | none =>
      rcases I.idle i l hl (by simp [hh]) with hpc | hpc
      · obtain ⟨_, rfl, hg⟩ := td_step_start io i _ _ _ _ hpc hs
        refine ⟨I.alt, ?_, ?_, ?_⟩
        · intro j lj hj hne
          have hij : i ≠ j := by intro e; subst e; simp at hne
          simp only [List.getElem?_set_ne hij] at hj
          exact I.idle j lj hj (by simp [hh])
        · intro k hk
          simp only [Option.some.injEq] at hk
          subst hk
          exact ⟨m, by simp [hi], hg (I.free hh)⟩
        · intro h; simp at h
      · rw [Trans.step_done i _ l hpc] at hs; cases hs
    | some h =>
      by_cases e : i = h
      · subst e
        obtain ⟨lh, hlh, hg⟩ := I.held i hh
        rw [hl] at hlh; cases hlh
        obtain ⟨h3, h4⟩ := td_step_holder io i _ _ _ _ I.alt hg hs
        rcases h4 with ⟨h5, h6⟩ | ⟨h5, h6, h7⟩
        · refine ⟨h3, ?_, ?_, ?_⟩
          · intro j lj hj hne
            have hij : i ≠ j := by intro e; subst e; simp [h5, hh] at hne
            simp only [List.getElem?_set_ne hij] at hj
            exact I.idle j lj hj (by simp [hh, hij])
          · intro k hk
            simp only [h5, hh, Option.some.injEq] at hk
            subst hk
            exact ⟨m, by simp [hi], h6⟩
          · intro hn; simp [h5, hh] at hn
        · refine ⟨h3, ?_, ?_, ?_⟩
          · intro j lj hj _
            by_cases hij : i = j
            · subst hij
              simp only [List.getElem?_set_self hi, Option.some.injEq, Local.tr.injEq] at hj
              subst hj; exact Or.inr h6
            · simp only [List.getElem?_set_ne hij] at hj
              exact I.idle j lj hj (by simp [hh, hij])
          · intro k hk; simp [h5] at hk
          · intro _; exact h7
      · have hpc := I.idle i l hl (by simp [hh]; exact fun e' => e e'.symm)
        rw [Trans.step_idle i _ l hpc (by simp [hh])] at hs; cases hs

theorem td_Inv_run (fo fc io : Bool) (jobs : List Job) (sched : List Nat) :
    td_Inv io (run sys (init fo fc io jobs) sched) :=
  Trans.run_inv_tr sys (td_Inv io) (fun c i l s' l' I hl hs => td_Inv_step io c i l s' l' I hl hs) _
    (td_Inv_init fo fc io jobs) sched

/-- a finished thread does not hold the lock -/
theorem td_Inv_quiescent (io : Bool) (c : Config Trans.Shared Local) (I : td_Inv io c) (hq : quiescent c = true) :
    c.shared.holder = none := by
  cases hh : c.shared.holder with
  | none => rfl
  | some h =>
    obtain ⟨l, hl, hg⟩ := I.held h hh
    have hm : Local.tr l ∈ c.locals := List.mem_of_getElem? hl
    have hd : l.pc = .done := by
      have := (List.all_eq_true.1 hq) _ hm
      simpa using this
    obtain ⟨job, pc⟩ := l
    simp only at hd; subst hd
    cases job <;> simp [td_Good] at hg

theorem td_Inv_progress (io : Bool) (c : Config Trans.Shared Local) (I : td_Inv io c) (hq : quiescent c = false) :
    ∃ i l, c.locals[i]? = some l ∧ (step i c.shared l).isSome = true := by
  cases hh : c.shared.holder with
  | some h =>
    obtain ⟨l, hl, hg⟩ := I.held h hh
    refine ⟨h, .tr l, hl, ?_⟩
    have := td_step_good_isSome io h _ l hg
    simpa [step] using this
  | none =>
    have hq' := hq
    simp only [quiescent, List.all_eq_false] at hq'
    obtain ⟨l, hm, hnd⟩ := hq'
    obtain ⟨i, hl⟩ := List.mem_iff_getElem?.1 hm
    refine ⟨i, l, hl, ?_⟩
    cases l with
    | tr l =>
      rcases I.idle i l hl (by simp [hh]) with hpc | hpc
      · have := Trans.step_start_isSome i _ l hpc hh
        simpa [step] using this
      · simp [hpc] at hnd
    | op fo fc k =>
      have hk : k < 2 := by simpa using hnd
      match k, hk with
      | 0, _ => simp [step]
      | 1, _ => simp [step]

/-! ### the transitions before the repair of D16 -/

/-- the step function BEFORE the repair: `IsOpen()` loaded ForceOpen, then ForcedClosed, then the flag — so `openCircuit`
    read ForcedClosed a second time after its guard, and `close` read ForceOpen a second time (`guard2`) -/
def td_oldStep (tid : Nat) (s : Trans.Shared) (l : Trans.Local) : Option (Trans.Shared × Trans.Local) :=
  let goUnlock : Option (Trans.Shared × Trans.Local) := some (s, { l with pc := .unlock })
  match l.pc with
  | .start => if s.holder.isNone then some ({ s with holder := some tid }, { l with pc := match l.job with | .open => .guard1 | .close _ _ => .isOpenFO }) else none
  | .guard1 => if s.forcedClosed then goUnlock else some (s, { l with pc := .isOpenFO })
  | .isOpenFO =>
    if s.forceOpen then (match l.job with | .open => goUnlock | .close _ _ => some (s, { l with pc := .guard2 }))
    else some (s, { l with pc := .isOpenFC })
  | .isOpenFC =>
    if s.forcedClosed then (match l.job with | .open => some (s, { l with pc := .notify }) | .close _ _ => goUnlock)
    else some (s, { l with pc := .isOpenFlag })
  | .isOpenFlag =>
    (match l.job with
     | .open => if s.isOpen then goUnlock else some (s, { l with pc := .notify })
     | .close _ _ => if s.isOpen then some (s, { l with pc := .guard2 }) else goUnlock)
  | .guard2 => if s.forceOpen then goUnlock else some (s, { l with pc := .decide })
  | .decide => (match l.job with | .close f a => if f || a then some (s, { l with pc := .notify }) else goUnlock | .open => goUnlock)
  | .notify => some ({ s with log := s.log ++ [match l.job with | .open => true | .close _ _ => false] }, { l with pc := .store })
  | .store => some ({ s with isOpen := match l.job with | .open => true | .close _ _ => false }, { l with pc := .unlock })
  | .unlock => some ({ s with holder := none }, { l with pc := .done })
  | .done => none

/-- the old transitions with the same operator threads -/
def td_oldStepDyn (tid : Nat) (s : Trans.Shared) : Local → Option (Trans.Shared × Local)
  | .tr l => (td_oldStep tid s l).map fun p => (p.1, .tr p.2)
  | .op fo fc 0 => some ({ s with forcedClosed := fc }, .op fo fc 1)
  | .op fo fc 1 => some ({ s with forceOpen := fo }, .op fo fc 2)
  | .op _ _ _ => none

def td_oldSys : Sys Trans.Shared Local := { step := td_oldStepDyn }

end CM.Conc.TransDyn

/-
  Lemmas/ConsStream.lean — helper lemmas for the stream-record part of property C20: the fallback analogues of
  `rolling_getR` / `sums_snd`, and the record `All.streamCounts` builds once its four lists are known.
-/
import CircuitProofs.Lemmas.Cons
namespace CM.Cons
open CM CM.SpecC13 CM.SpecC20

theorem cstr_fbTimesOf_filter_length (k : FbKind) (p : Int → Bool) (l : List (FbKind × Int)) :
    ((fbTimesOf k l).filter p).length = (l.filter fun (k', t) => k' == k && p t).length := by
  induction l with
  | nil => rfl
  | cons x l ih =>
    obtain ⟨k', t⟩ := x
    unfold fbTimesOf at ih ⊢
    by_cases hk : (k' == k) = true
    · by_cases hp : p t = true
      · simp [hk, hp, ih]
      · simp [hk, hp, ih]
    · simp [hk, ih]

theorem cstr_mem_fbTimesOf {k : FbKind} {t : Int} {emits : List Emit} (h : t ∈ fbTimesOf k (emits.filterMap fbOf)) :
    ∃ d, Emit.fb k t d ∈ emits := by
  unfold fbTimesOf at h
  obtain ⟨⟨k', t'⟩, hx, rfl⟩ := List.mem_map.mp h
  obtain ⟨hx, hk⟩ := List.mem_filter.mp hx
  obtain ⟨e, he, hr⟩ := List.mem_filterMap.mp hx
  have hk' : k' = k := by simpa using hk
  subst hk'
  cases e with
  | fb k'' t'' d'' =>
    simp only [fbOf_fb, Option.some.injEq, Prod.mk.injEq] at hr
    obtain ⟨rfl, rfl⟩ := hr
    exact ⟨_, he⟩
  | run _ _ _ => simp at hr
  | opened _ => simp at hr
  | closed _ => simp at hr

/-- the rolling sum of the fallback counter of kind `k`, read at a `now` that no delivered fallback event is after -/
theorem cstr_rolling_getF (k : FbKind) (n : Nat) (dur : Int) (pn : Nat) (pdur : Int) (psize : Nat) (mh : Int)
    (hn : 0 < n) (hw : 0 < tdiv dur n) (emits : List Emit) (now : Int) (h0 : 0 ≤ now)
    (hle : ∀ k t d, Emit.fb k t d ∈ emits → t ≤ now) :
    ((getF k ((All.new n dur pn pdur psize mh).feed emits).fb).sumAt now).2
      = fbRolling n (tdiv dur n) (emits.foldl Hist.add {}) k now := by
  unfold fbRolling
  rw [feed_getF, hist_fb]
  show ((incAll (getF k (FbStats.new n dur)) _).sumAt now).2 = _
  rw [getF_new, incAll_read hn hw now h0, cstr_fbTimesOf_filter_length]
  · congr 2
    apply List.filter_congr
    rintro ⟨k', t⟩ _
    simp only [Bool.and_assoc]
  · intro t ht
    obtain ⟨d, hd⟩ := cstr_mem_fbTimesOf ht
    exact hle k t d hd

theorem cstr_fb_sums_snd (f : FbStats) (now : Int) :
    (f.sums now).2 = fbKinds.map fun k => ((getF k f).sumAt now).2 := rfl

theorem cstr_fb_totals_eq (f : FbStats) :
    [f.successes.total, f.rejects.total, f.failures.total] = fbKinds.map fun k => (getF k f).total := rfl

/-- the record `collectCommandMetrics` builds, once the four lists it reads are known pointwise -/
theorem cstr_streamCounts_of (a : All) (now : Int) (isOpen : Bool) (r : Kind → Int) (tt : Kind → Int)
    (fr : FbKind → Int) (ft : FbKind → Int)
    (h1 : (a.run.sums now).2 = kinds.map r) (h2 : a.run.totals = kinds.map tt)
    (h3 : (a.fb.sums now).2 = fbKinds.map fr)
    (h4 : [a.fb.successes.total, a.fb.rejects.total, a.fb.failures.total] = fbKinds.map ft) :
    a.streamCounts now isOpen =
      { requestCount := r .success + r .failure + r .timeout + r .interrupt,
        errorCount := r .failure + r .timeout,
        rollS := r .success, rollRej := r .reject, rollF := r .failure, rollSC := r .shortCircuit, rollT := r .timeout,
        rollBad := r .badRequest + r .interrupt,
        cntS := tt .success, cntRej := tt .reject, cntF := tt .failure, cntSC := tt .shortCircuit,
        cntT := tt .timeout, cntBad := tt .badRequest + tt .interrupt,
        fbRollS := fr .success, fbRollRej := fr .reject, fbRollF := fr .failure,
        fbCntS := ft .success, fbCntRej := ft .reject, fbCntF := ft .failure,
        isOpen := isOpen } := by
  have h4' : a.fb.successes.total = ft .success ∧ a.fb.rejects.total = ft .reject ∧ a.fb.failures.total = ft .failure := by
    simpa [fbKinds] using h4
  obtain ⟨e1, e2, e3⟩ := h4'
  unfold All.streamCounts
  simp only [h1, h2, h3, e1, e2, e3]
  rfl

end CM.Cons

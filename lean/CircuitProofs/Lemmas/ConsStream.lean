import CircuitProofs.Lemmas.Cons
namespace CM.Cons
end CM.Cons

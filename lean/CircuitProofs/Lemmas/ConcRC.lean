import CircuitModel.Conc.RC
import CircuitProofs.Lemmas.Conc
namespace CM.Conc
end CM.Conc

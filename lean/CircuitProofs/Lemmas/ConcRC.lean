/-
  Lemmas/ConcRC.lean — invariants of the small-step rolling-counter model (CircuitModel/Conc/RC.lean), used by
  Props/C14.lean.  Structure:
    * `run_inv`: an invariant preserved by every step holds after every schedule;
    * `SR`: the step function as a relation with one constructor per branch (`step_spec`);
    * per-step "delta" lemmas `sr_*`, one per invariant component;
    * the global invariants `Inv`, `InvP`, `InvNR` and their preservation.
-/
import CircuitModel.Conc.RC
import CircuitProofs.Lemmas.Conc
namespace CM.Conc
open CM.Conc.RC

/-! ### generic -/

theorem run_inv {σ loc : Type} (S : Sys σ loc) (I : Config σ loc → Prop)
    (hstep : ∀ (c : Config σ loc) (i : Nat) (l : loc) (s' : σ) (l' : loc), I c → c.locals[i]? = some l →
      S.step i c.shared l = some (s', l') → I { shared := s', locals := c.locals.set i l' })
    (c : Config σ loc) (h : I c) (sched : List Nat) : I (run S c sched) := by
  induction sched generalizing c with
  | nil => exact h
  | cons i rest ih =>
    simp only [run]
    split
    · exact ih c h
    · rename_i l hl
      split
      · exact ih c h
      · rename_i s' l' hs
        exact ih _ (hstep c i l s' l' h hl hs)

theorem run_app {σ loc : Type} (S : Sys σ loc) (c : Config σ loc) (a b : List Nat) :
    run S c (a ++ b) = run S (run S c a) b := by
  induction a generalizing c with
  | nil => rfl
  | cons i rest ih =>
    simp only [List.cons_append, run]
    split
    · exact ih c
    · split
      · exact ih c
      · exact ih _

/-! ### lists -/

theorem sum_map_set {α : Type} (f : α → Int) : ∀ (ls : List α) (i : Nat) (l l' : α), ls[i]? = some l →
    ((ls.set i l').map f).sum = (ls.map f).sum - f l + f l'
  | [], i, l, l', h => by simp at h
  | x :: xs, 0, l, l', h => by
    simp at h; subst h; simp; omega
  | x :: xs, i+1, l, l', h => by
    simp at h
    have ih := sum_map_set f xs i l l' h
    simp only [List.set_cons_succ, List.map_cons, List.sum_cons, ih]; omega

theorem sum_set (bs : List Int) (i : Nat) (v : Int) (h : i < bs.length) :
    (bs.set i v).sum = bs.sum - bs.getD i 0 + v := by
  have h1 : bs[i]? = some (bs.getD i 0) := by simp [List.getD_eq_getElem?_getD, h]
  have := sum_map_set id bs i _ v h1
  simpa using this

theorem getD_nonneg (bs : List Int) (i : Nat) (h : ∀ b ∈ bs, 0 ≤ b) : 0 ≤ bs.getD i 0 := by
  rw [List.getD_eq_getElem?_getD]
  cases hb : bs[i]? with
  | none => simp
  | some b => simpa using h b (List.mem_of_getElem? hb)

theorem set_nonneg (bs : List Int) (i : Nat) (v : Int) (h : ∀ b ∈ bs, 0 ≤ b) (hv : 0 ≤ v) :
    ∀ b ∈ bs.set i v, 0 ≤ b := by
  intro b hb
  rcases List.mem_or_eq_of_mem_set hb with hb | rfl
  · exact h b hb
  · exact hv

theorem mem_set_cases_rc {α : Type} (ls : List α) (i : Nat) (l l' x : α) (hi : ls[i]? = some l) (hx : x ∈ ls) :
    x = l ∨ x ∈ ls.set i l' := by
  rcases List.mem_iff_getElem.mp hx with ⟨j, hj, rfl⟩
  by_cases hij : i = j
  · subst hij
    left
    rw [List.getElem?_eq_getElem hj] at hi
    exact Option.some.inj hi
  · right
    apply List.mem_iff_getElem.mpr
    refine ⟨j, by simpa using hj, ?_⟩
    simp [hij]

theorem sum_map_zero {α : Type} (f : α → Int) (ls : List α) (h : ∀ x ∈ ls, f x = 0) : (ls.map f).sum = 0 := by
  induction ls with
  | nil => rfl
  | cons x xs ih =>
    simp only [List.map_cons, List.sum_cons]
    rw [h x (by simp), ih (fun y hy => h y (by simp [hy]))]; rfl

theorem sum_nonneg (bs : List Int) (h : ∀ b ∈ bs, 0 ≤ b) : 0 ≤ bs.sum := by
  induction bs with
  | nil => exact Int.le_refl 0
  | cons x xs ih =>
    simp only [List.sum_cons]
    have h1 := h x (by simp)
    have h2 := ih (fun y hy => h y (by simp [hy]))
    omega

theorem sum_replicate_zero (n : Nat) : (List.replicate n (0 : Int)).sum = 0 := by
  induction n with
  | zero => rfl
  | succ k ih => simp [List.replicate_succ, ih]

theorem cast_sum_map {α : Type} (f : α → Nat) (ls : List α) :
    (((ls.map f).sum : Nat) : Int) = (ls.map (fun x => (f x : Int))).sum := by
  induction ls with
  | nil => rfl
  | cons x xs ih => simp [ih]

theorem le_foldl_max (xs : List Nat) (m a : Nat) (h : a ≤ m ∨ a ∈ xs) : a ≤ xs.foldl max m := by
  induction xs generalizing m with
  | nil => simpa using h
  | cons x xs ih =>
    simp only [List.foldl_cons]
    apply ih
    rcases h with h | h
    · left; omega
    · rcases List.mem_cons.mp h with rfl | h
      · left; omega
      · right; exact h

theorem foldl_max_le (xs : List Nat) (m b : Nat) (hm : m ≤ b) (h : ∀ a ∈ xs, a ≤ b) : xs.foldl max m ≤ b := by
  induction xs generalizing m with
  | nil => simpa using hm
  | cons x xs ih =>
    simp only [List.foldl_cons]
    apply ih
    · have := h x (by simp); omega
    · intro a ha; exact h a (by simp [ha])

/-! ### the step function as a relation -/

def opIncN : Op → Nat
  | .inc _ => 1
  | _ => 0

def opCont : Op → Cont
  | .inc _ => .inc
  | .sumAt _ => .sumAt
  | .getBuckets _ => .getBuckets
  | .reset _ => .reset

def bumpReq (m : Nat) : Option Nat → Nat
  | some a => max m a
  | none => m

/-- `step` as a relation: one constructor per branch of the model -/
inductive SR (s : Shared) (l : Local) (s' : Shared) (l' : Local) : Prop
  | op (o : Op) (rest : List Op) (hpc : l.pc = .next) (hp : l.prog = o :: rest)
      (hs : s' = { s with total := s.total + (opIncN o : Int) })
      (hl : l' = { l with prog := rest, pc := enterAdvance o.req (opCont o),
                          incsStarted := l.incsStarted + opIncN o, maxReq := bumpReq l.maxReq o.req })
  | loadHit (abs : Nat) (k : Cont) (hpc : l.pc = .advLoad abs k) (hle : abs ≤ s.last)
      (hs : s' = s)
      (hl : l' = { l with sawLast := max l.sawLast s.last, pc := afterAdvance k (some (abs % s.n)) })
  | loadOld (abs : Nat) (k : Cont) (hpc : l.pc = .advLoad abs k) (hlt : abs < s.last)
      (hs : s' = s)
      (hl : l' = { l with sawLast := max l.sawLast s.last, pc := afterAdvance k none })
  | loadNew (abs : Nat) (k : Cont) (hpc : l.pc = .advLoad abs k) (hgt : s.last < abs)
      (hs : s' = s)
      (hl : l' = { l with sawLast := max l.sawLast s.last,
                          pc := if 0 < s.n then .advCas abs s.last 0 k else .advFinalCas abs s.last k })
  | casOk (abs lastVal i : Nat) (k : Cont) (hpc : l.pc = .advCas abs lastVal i k) (heq : s.last = lastVal)
      (hs : s' = { s with last := lastVal + 1 })
      (hl : l' = { l with pc := .advSwap abs (lastVal + 1) i k })
  | casFail (abs lastVal i : Nat) (k : Cont) (hpc : l.pc = .advCas abs lastVal i k) (hne : s.last ≠ lastVal)
      (hs : s' = s)
      (hl : l' = { l with pc := .advLoad abs k })
  | swap (abs lastVal i : Nat) (k : Cont) (hpc : l.pc = .advSwap abs lastVal i k)
      (hs : s' = { s with buckets := s.buckets.set (lastVal % s.n) 0 })
      (hl : l' = { l with pc := .advDec abs lastVal i (s.buckets.getD (lastVal % s.n) 0) k })
  | dec (abs lastVal i : Nat) (x : Int) (k : Cont) (hpc : l.pc = .advDec abs lastVal i x k)
      (hs : s' = { s with rolling := s.rolling - x })
      (hl : l' = { l with pc := if i + 1 < s.n ∧ lastVal < abs then .advCas abs lastVal (i + 1) k
                                else .advFinalCas abs lastVal k })
  | finalCas (abs lastVal : Nat) (k : Cont) (hpc : l.pc = .advFinalCas abs lastVal k)
      (hs : s' = if s.last = lastVal then { s with last := abs } else s)
      (hl : l' = { l with pc := .advLoad abs k })
  | incBucket (idx : Nat) (hpc : l.pc = .incBucket idx)
      (hs : s' = { s with buckets := s.buckets.set idx (s.buckets.getD idx 0 + 1) })
      (hl : l' = { l with pc := .incRolling })
  | incRolling (hpc : l.pc = .incRolling)
      (hs : s' = { s with rolling := s.rolling + 1 })
      (hl : l' = { l with pc := .next })
  | sumLoad (hpc : l.pc = .sumLoad) (hs : s' = s) (hl : l' = { l with pc := .next })
  | gbLast (hpc : l.pc = .gbLast) (hs : s' = s)
      (hl : l' = { l with pc := if 0 < s.n then .gbLoad (s.last % s.n) 0 else .next,
                          sawLast := max l.sawLast s.last })
  | gbLoad (startIdx i : Nat) (hpc : l.pc = .gbLoad startIdx i) (hs : s' = s)
      (hl : l' = { l with pc := if i + 1 < s.n then .gbLoad startIdx (i + 1) else .next })
  | rsSwap (i : Nat) (hpc : l.pc = .rsSwap i) (hi : i < s.n)
      (hs : s' = { s with buckets := s.buckets.set i 0 })
      (hl : l' = { l with pc := .rsDec i (s.buckets.getD i 0) })
  | rsDone (i : Nat) (hpc : l.pc = .rsSwap i) (hi : ¬ i < s.n) (hs : s' = s) (hl : l' = { l with pc := .next })
  | rsDec (i : Nat) (x : Int) (hpc : l.pc = .rsDec i x)
      (hs : s' = { s with rolling := s.rolling - x })
      (hl : l' = { l with pc := .rsSwap (i + 1) })

theorem step_spec (tid : Nat) (s s' : Shared) (l l' : Local) (h : step tid s l = some (s', l')) :
    SR s l s' l' := by
  cases hpc : l.pc with
  | next =>
    cases hp : l.prog with
    | nil => simp [step, hpc, hp] at h
    | cons o rest =>
      cases o with
      | inc r =>
        simp only [step, hpc, hp, Option.some.injEq, Prod.mk.injEq] at h
        refine SR.op (.inc r) rest hpc hp ?_ ?_
        · rw [← h.1]; simp [opIncN]
        · rw [← h.2]; cases r <;> simp [opIncN, opCont, Op.req, bumpReq]
      | sumAt r =>
        simp only [step, hpc, hp, Option.some.injEq, Prod.mk.injEq] at h
        refine SR.op (.sumAt r) rest hpc hp ?_ ?_
        · rw [← h.1]; simp [opIncN]
        · rw [← h.2]; cases r <;> simp [opIncN, opCont, Op.req, bumpReq]
      | getBuckets r =>
        simp only [step, hpc, hp, Option.some.injEq, Prod.mk.injEq] at h
        refine SR.op (.getBuckets r) rest hpc hp ?_ ?_
        · rw [← h.1]; simp [opIncN]
        · rw [← h.2]; cases r <;> simp [opIncN, opCont, Op.req, bumpReq]
      | reset r =>
        simp only [step, hpc, hp, Option.some.injEq, Prod.mk.injEq] at h
        refine SR.op (.reset r) rest hpc hp ?_ ?_
        · rw [← h.1]; simp [opIncN]
        · rw [← h.2]; cases r <;> simp [opIncN, opCont, Op.req, bumpReq]
  | advLoad abs k =>
    simp only [step, hpc] at h
    by_cases h1 : abs = s.last
    · simp only [h1, if_true, Option.some.injEq, Prod.mk.injEq] at h
      exact SR.loadHit abs k hpc (by omega) h.1.symm (by rw [← h.2, ← h1])
    · by_cases h2 : abs < s.last
      · by_cases h3 : s.last - abs ≥ s.n
        · simp only [h1, h2, h3, if_true, if_false, Option.some.injEq, Prod.mk.injEq] at h
          exact SR.loadOld abs k hpc h2 h.1.symm h.2.symm
        · simp only [h1, h2, h3, if_true, if_false, Option.some.injEq, Prod.mk.injEq] at h
          exact SR.loadHit abs k hpc (by omega) h.1.symm h.2.symm
      · simp only [h1, h2, if_false, Option.some.injEq, Prod.mk.injEq] at h
        exact SR.loadNew abs k hpc (by omega) h.1.symm h.2.symm
  | advCas abs lastVal i k =>
    simp only [step, hpc] at h
    by_cases h1 : s.last = lastVal
    · simp only [h1, if_true, Option.some.injEq, Prod.mk.injEq] at h
      exact SR.casOk abs lastVal i k hpc h1 h.1.symm h.2.symm
    · simp only [h1, if_false, Option.some.injEq, Prod.mk.injEq] at h
      exact SR.casFail abs lastVal i k hpc h1 h.1.symm h.2.symm
  | advSwap abs lastVal i k =>
    simp only [step, hpc, Option.some.injEq, Prod.mk.injEq] at h
    exact SR.swap abs lastVal i k hpc h.1.symm h.2.symm
  | advDec abs lastVal i x k =>
    simp only [step, hpc, Option.some.injEq, Prod.mk.injEq] at h
    exact SR.dec abs lastVal i x k hpc h.1.symm h.2.symm
  | advFinalCas abs lastVal k =>
    simp only [step, hpc, Option.some.injEq, Prod.mk.injEq] at h
    exact SR.finalCas abs lastVal k hpc h.1.symm h.2.symm
  | incBucket idx =>
    simp only [step, hpc, Option.some.injEq, Prod.mk.injEq] at h
    exact SR.incBucket idx hpc h.1.symm h.2.symm
  | incRolling =>
    simp only [step, hpc, Option.some.injEq, Prod.mk.injEq] at h
    exact SR.incRolling hpc h.1.symm h.2.symm
  | sumLoad =>
    simp only [step, hpc, Option.some.injEq, Prod.mk.injEq] at h
    exact SR.sumLoad hpc h.1.symm h.2.symm
  | gbLast =>
    simp only [step, hpc, Option.some.injEq, Prod.mk.injEq] at h
    exact SR.gbLast hpc h.1.symm h.2.symm
  | gbLoad startIdx i =>
    simp only [step, hpc, Option.some.injEq, Prod.mk.injEq] at h
    exact SR.gbLoad startIdx i hpc h.1.symm h.2.symm
  | rsSwap i =>
    simp only [step, hpc] at h
    by_cases h1 : i < s.n
    · simp only [h1, if_true, Option.some.injEq, Prod.mk.injEq] at h
      exact SR.rsSwap i hpc h1 h.1.symm h.2.symm
    · simp only [h1, if_false, Option.some.injEq, Prod.mk.injEq] at h
      exact SR.rsDone i hpc h1 h.1.symm h.2.symm
  | rsDec i x =>
    simp only [step, hpc, Option.some.injEq, Prod.mk.injEq] at h
    exact SR.rsDec i x hpc h.1.symm h.2.symm

/-! ### functions of the program counter -/

/-- what a thread at this pc still owes the rolling sum -/
def owesPc : Pc → Int
  | .advDec _ _ _ x _ => -x
  | .rsDec _ x => -x
  | .incRolling => 1
  | _ => 0

def kInc : Cont → Int
  | .inc => 1
  | _ => 0

/-- 1 iff the thread is inside an Inc whose `totalSum.Add(1)` is done but whose bucket `Add(1)` is still to come -/
def preInc : Pc → Int
  | .advLoad _ k => kInc k
  | .advCas _ _ _ k => kInc k
  | .advSwap _ _ _ k => kInc k
  | .advDec _ _ _ _ k => kInc k
  | .advFinalCas _ _ k => kInc k
  | .incBucket _ => 1
  | _ => 0

/-- the index the thread is currently advancing to (0 outside Advance) -/
def curAbs : Pc → Nat
  | .advLoad a _ => a
  | .advCas a _ _ _ => a
  | .advSwap a _ _ _ => a
  | .advDec a _ _ _ _ => a
  | .advFinalCas a _ _ => a
  | _ => 0

/-- well-formedness of the values a pc carries -/
def WPc (n : Nat) : Pc → Prop
  | .advCas abs lastVal _ _ => lastVal < abs
  | .advSwap abs lastVal _ _ => lastVal ≤ abs
  | .advDec abs lastVal _ _ _ => lastVal ≤ abs
  | .advFinalCas abs lastVal _ => lastVal ≤ abs
  | .incBucket idx => idx < n
  | _ => True

theorem kInc_nonneg (k : Cont) : 0 ≤ kInc k := by cases k <;> simp [kInc]

@[simp] theorem owesPc_after (k : Cont) (x : Option Nat) : owesPc (afterAdvance k x) = 0 := by
  cases k <;> cases x <;> rfl
@[simp] theorem owesPc_enter (r : Option Nat) (k : Cont) : owesPc (enterAdvance r k) = 0 := by
  cases r
  · exact owesPc_after k none
  · rfl
@[simp] theorem preInc_after_some (k : Cont) (i : Nat) : preInc (afterAdvance k (some i)) = kInc k := by
  cases k <;> rfl
@[simp] theorem preInc_after_none (k : Cont) : preInc (afterAdvance k none) = 0 := by
  cases k <;> rfl
@[simp] theorem preInc_enter_some (a : Nat) (k : Cont) : preInc (enterAdvance (some a) k) = kInc k := rfl
@[simp] theorem preInc_enter_none (k : Cont) : preInc (enterAdvance none k) = 0 := by
  simp [enterAdvance]
@[simp] theorem curAbs_after (k : Cont) (x : Option Nat) : curAbs (afterAdvance k x) = 0 := by
  cases k <;> cases x <;> rfl
@[simp] theorem curAbs_enter_some (a : Nat) (k : Cont) : curAbs (enterAdvance (some a) k) = a := rfl
@[simp] theorem curAbs_enter_none (k : Cont) : curAbs (enterAdvance none k) = 0 := by
  simp [enterAdvance]
theorem WPc_after_some (n : Nat) (k : Cont) (i : Nat) (h : i < n) : WPc n (afterAdvance k (some i)) := by
  cases k <;> simp [afterAdvance, WPc, h]
@[simp] theorem WPc_after_none (n : Nat) (k : Cont) : WPc n (afterAdvance k none) := by
  cases k <;> simp [afterAdvance, WPc]
@[simp] theorem WPc_enter (n : Nat) (r : Option Nat) (k : Cont) : WPc n (enterAdvance r k) := by
  cases r
  · exact WPc_after_none n k
  · exact True.intro

/-! ### per-step lemmas -/

section delta
variable {s s' : Shared} {l l' : Local}

theorem sr_n (h : SR s l s' l') : s'.n = s.n := by
  cases h <;> subst_vars <;> try rfl
  case finalCas => split <;> rfl

theorem sr_len (h : SR s l s' l') : s'.buckets.length = s.buckets.length := by
  cases h <;> subst_vars <;> try simp
  case finalCas => split <;> rfl

theorem sr_W (h : SR s l s' l') (hn : 0 < s.n) (hW : WPc s.n l.pc) : WPc s.n l'.pc := by
  cases h <;> subst_vars <;> dsimp only
  case op => exact WPc_enter _ _ _
  case loadHit abs k hpc hle => exact WPc_after_some _ _ _ (Nat.mod_lt _ hn)
  case loadOld => exact WPc_after_none _ _
  case loadNew abs k hpc hgt => simp only [hn, if_true]; exact hgt
  case casOk abs i k hpc => rw [hpc] at hW; exact hW
  case casFail => exact True.intro
  case swap abs lastVal i k hpc => rw [hpc] at hW; exact hW
  case dec abs lastVal i x k hpc =>
    rw [hpc] at hW
    split
    · rename_i h; exact h.2
    · exact hW
  case finalCas => exact True.intro
  case incBucket => exact True.intro
  case incRolling => exact True.intro
  case sumLoad => exact True.intro
  case gbLast hpc => split <;> exact True.intro
  case gbLoad a i hpc => split <;> exact True.intro
  case rsSwap => exact True.intro
  case rsDone => exact True.intro
  case rsDec => exact True.intro

theorem sr_nonneg (h : SR s l s' l') (hb : ∀ b ∈ s.buckets, 0 ≤ b) : ∀ b ∈ s'.buckets, 0 ≤ b := by
  cases h <;> subst_vars <;> (try dsimp only) <;> try exact hb
  case swap => exact set_nonneg _ _ _ hb (Int.le_refl 0)
  case finalCas => split <;> exact hb
  case incBucket idx hpc => exact set_nonneg _ _ _ hb (by have := getD_nonneg s.buckets idx hb; omega)
  case rsSwap => exact set_nonneg _ _ _ hb (Int.le_refl 0)

theorem sr_total (h : SR s l s' l') : s'.total - (l'.incsStarted : Int) = s.total - (l.incsStarted : Int) := by
  cases h <;> subst_vars <;> (try dsimp only) <;> try rfl
  case op => omega
  case finalCas => split <;> rfl

theorem sr_cons (h : SR s l s' l') (hn : 0 < s.n) (hlen : s.buckets.length = s.n) (hW : WPc s.n l.pc) :
    s'.rolling + owesPc l'.pc - s'.buckets.sum = s.rolling + owesPc l.pc - s.buckets.sum := by
  cases h <;> subst_vars <;> (try dsimp only) <;> (repeat' split) <;>
    (try simp only [*, owesPc_after, owesPc_enter]) <;> (try simp only [owesPc]) <;> (try omega)
  case swap abs lastVal i k hpc =>
    rw [sum_set _ _ _ (by rw [hlen]; exact Nat.mod_lt _ hn)]; omega
  case incBucket idx hpc =>
    rw [hpc] at hW
    rw [sum_set _ _ _ (by rw [hlen]; exact hW)]; omega
  case rsSwap i hpc hi =>
    rw [sum_set _ _ _ (by rw [hlen]; exact hi)]; omega

theorem preInc_enter_op (o : Op) : preInc (enterAdvance o.req (opCont o)) ≤ (opIncN o : Int) := by
  cases o with
  | inc r => cases r <;> simp [Op.req, opCont, opIncN, kInc]
  | sumAt r => cases r <;> simp [Op.req, opCont, opIncN, kInc]
  | getBuckets r => cases r <;> simp [Op.req, opCont, opIncN, kInc]
  | reset r => cases r <;> simp [Op.req, opCont, opIncN, kInc]

/-- Σ buckets never exceeds (Inc calls started) − (Inc calls that have not yet reached their bucket) -/
theorem sr_slack (h : SR s l s' l') (hn : 0 < s.n) (hlen : s.buckets.length = s.n) (hW : WPc s.n l.pc)
    (hb : ∀ b ∈ s.buckets, 0 ≤ b) :
    s'.buckets.sum + preInc l'.pc - (l'.incsStarted : Int) ≤ s.buckets.sum + preInc l.pc - (l.incsStarted : Int) := by
  cases h <;> subst_vars <;> (try dsimp only) <;> (repeat' split) <;>
    (try simp only [*, preInc_after_some, preInc_after_none]) <;> (try simp only [preInc]) <;> (try omega)
  case op o rest hpc hp =>
    have := preInc_enter_op o
    simp only [preInc] at this; omega
  case loadOld abs k hpc hlt => have := kInc_nonneg k; omega
  case swap abs lastVal i k hpc =>
    rw [sum_set _ _ _ (by rw [hlen]; exact Nat.mod_lt _ hn)]
    have := getD_nonneg s.buckets (lastVal % s.n) hb; omega
  case incBucket idx hpc =>
    rw [hpc] at hW
    rw [sum_set _ _ _ (by rw [hlen]; exact hW)]; omega
  case rsSwap i hpc hi =>
    rw [sum_set _ _ _ (by rw [hlen]; exact hi)]
    have := getD_nonneg s.buckets i hb; omega

def isInc : Op → Bool
  | .inc _ => true
  | _ => false

def countInc (p : List Op) : Nat := (p.filter isInc).length

theorem countInc_cons (o : Op) (rest : List Op) : countInc (o :: rest) = opIncN o + countInc rest := by
  cases o <;> simp [countInc, isInc, opIncN, List.filter_cons] <;> omega

theorem sr_count (h : SR s l s' l') :
    l'.incsStarted + countInc l'.prog = l.incsStarted + countInc l.prog := by
  cases h <;> subst_vars <;> (try dsimp only)
  case op o rest hpc hp => rw [hp, countInc_cons]; omega

theorem sr_mono (h : SR s l s' l') (hW : WPc s.n l.pc) : s.last ≤ s'.last := by
  cases h <;> subst_vars <;> (try dsimp only) <;> (try exact Nat.le_refl _)
  case casOk => omega
  case finalCas abs lastVal k hpc =>
    rw [hpc] at hW
    split
    · rename_i h; rw [h]; exact hW
    · exact Nat.le_refl _

theorem sr_prog_sub (h : SR s l s' l') : ∀ o ∈ l'.prog, o ∈ l.prog := by
  cases h <;> subst_vars <;> (try dsimp only) <;> (try exact fun o ho => ho)
  case op o rest hpc hp => intro o' ho'; rw [hp]; exact List.mem_cons_of_mem _ ho'

theorem curAbs_enter_req (r : Option Nat) (k : Cont) : curAbs (enterAdvance r k) = r.getD 0 := by
  cases r <;> simp

theorem sr_curAbs (h : SR s l s' l') :
    curAbs l'.pc = curAbs l.pc ∨ curAbs l'.pc = 0 ∨ ∃ o ∈ l.prog, o.req = some (curAbs l'.pc) := by
  cases h <;> subst_vars <;> (try dsimp only) <;> (repeat' split) <;>
    (try simp only [*, curAbs_after]) <;> (try simp only [curAbs]) <;> (try simp; done)
  case op o rest hpc hp =>
    cases hr : o.req with
    | none => right; left; exact curAbs_enter_none _
    | some a => right; right; exact ⟨o, by simp, by rw [hr]; rfl⟩

theorem sr_last_le (h : SR s l s' l') (hW : WPc s.n l.pc) : s'.last = s.last ∨ s'.last ≤ curAbs l.pc := by
  cases h <;> subst_vars <;> (try dsimp only) <;> (try exact Or.inl rfl)
  case casOk abs i k hpc => rw [hpc] at hW ⊢; right; exact hW
  case finalCas abs lastVal k hpc =>
    rw [hpc]
    split
    · right; exact Nat.le_refl _
    · left; rfl

def ReqsLe (M : Nat) (l : Local) : Prop := (∀ o ∈ l.prog, ∀ a, o.req = some a → a ≤ M) ∧ curAbs l.pc ≤ M

theorem sr_bound (h : SR s l s' l') (hW : WPc s.n l.pc) (M : Nat) (hB : ReqsLe M l) (hlast : s.last ≤ M) :
    ReqsLe M l' ∧ s'.last ≤ M := by
  refine ⟨⟨fun o ho a ha => hB.1 o (sr_prog_sub h o ho) a ha, ?_⟩, ?_⟩
  · rcases sr_curAbs h with h1 | h1 | ⟨o, ho, hr⟩
    · rw [h1]; exact hB.2
    · rw [h1]; exact Nat.zero_le _
    · exact hB.1 o ho _ hr
  · rcases sr_last_le h hW with h1 | h1
    · rw [h1]; exact hlast
    · exact Nat.le_trans h1 hB.2

/-- request `a` is still pending in thread `l`: it is being advanced to, or it is still in the program -/
def pend (l : Local) (a : Nat) : Prop := a ≤ curAbs l.pc ∨ ∃ o ∈ l.prog, o.req = some a

theorem sr_curAbs_keep (h : SR s l s' l') : curAbs l.pc ≤ curAbs l'.pc ∨ curAbs l.pc ≤ s'.last := by
  cases h <;> subst_vars <;> (try dsimp only) <;> (repeat' split) <;>
    (try simp only [*, curAbs_after]) <;> (try simp only [curAbs]) <;> (try simp; done)
  case loadHit => omega
  case loadOld => omega

theorem sr_prog_keep (h : SR s l s' l') :
    ∀ o ∈ l.prog, o ∈ l'.prog ∨ ∀ a, o.req = some a → a ≤ curAbs l'.pc := by
  cases h <;> subst_vars <;> (try dsimp only) <;> (try exact fun o ho => Or.inl ho)
  case op o rest hpc hp =>
    intro o' ho'
    rw [hp] at ho'
    rcases List.mem_cons.mp ho' with rfl | ho'
    · right; intro a ha; rw [ha]; exact Nat.le_refl _
    · left; exact ho'

theorem sr_pend (h : SR s l s' l') (a : Nat) (hp : pend l a) : a ≤ s'.last ∨ pend l' a := by
  rcases hp with hp | ⟨o, ho, hr⟩
  · rcases sr_curAbs_keep h with h1 | h1
    · right; left; omega
    · left; omega
  · rcases sr_prog_keep h o ho with h1 | h1
    · right; right; exact ⟨o, h1, hr⟩
    · right; left; exact h1 a hr

end delta

/-! ### global invariants -/

/-- the program-independent invariant -/
structure Inv (n : Nat) (c : Config Shared Local) : Prop where
  hn : c.shared.n = n
  len : c.shared.buckets.length = n
  W : ∀ l ∈ c.locals, WPc n l.pc
  nonneg : ∀ b ∈ c.shared.buckets, 0 ≤ b
  cons : c.shared.rolling + (c.locals.map (fun l => owesPc l.pc)).sum = c.shared.buckets.sum
  total : c.shared.total = (c.locals.map (fun l => (l.incsStarted : Int))).sum
  slack : c.shared.buckets.sum + (c.locals.map (fun l => preInc l.pc)).sum ≤
    (c.locals.map (fun l => (l.incsStarted : Int))).sum

theorem Inv.step {n : Nat} (hn0 : 0 < n) {c : Config Shared Local} (hI : Inv n c) {i : Nat} {l l' : Local}
    {s' : Shared} (hi : c.locals[i]? = some l) (hs : RC.step i c.shared l = some (s', l')) :
    Inv n { shared := s', locals := c.locals.set i l' } := by
  have hr := step_spec i c.shared s' l l' hs
  have hl : l ∈ c.locals := List.mem_of_getElem? hi
  have hW : WPc c.shared.n l.pc := by rw [hI.hn]; exact hI.W l hl
  have hn1 : 0 < c.shared.n := by rw [hI.hn]; exact hn0
  have hlen : c.shared.buckets.length = c.shared.n := by rw [hI.hn]; exact hI.len
  refine ⟨?_, ?_, ?_, ?_, ?_, ?_, ?_⟩
  · show s'.n = n
    rw [sr_n hr]; exact hI.hn
  · show s'.buckets.length = n
    rw [sr_len hr]; exact hI.len
  · intro x hx
    rcases List.mem_or_eq_of_mem_set hx with hx | rfl
    · exact hI.W x hx
    · have := sr_W hr hn1 hW; rwa [hI.hn] at this
  · exact sr_nonneg hr hI.nonneg
  · show s'.rolling + ((c.locals.set i l').map _).sum = s'.buckets.sum
    rw [sum_map_set _ _ _ _ _ hi]
    have h1 := sr_cons hr hn1 hlen hW
    have h2 := hI.cons
    omega
  · show s'.total = ((c.locals.set i l').map _).sum
    rw [sum_map_set _ _ _ _ _ hi]
    have h1 := sr_total hr
    have h2 := hI.total
    omega
  · show s'.buckets.sum + ((c.locals.set i l').map _).sum ≤ ((c.locals.set i l').map _).sum
    rw [sum_map_set _ _ _ _ _ hi, sum_map_set _ _ _ _ _ hi]
    have h1 := sr_slack hr hn1 hlen hW hI.nonneg
    have h2 := hI.slack
    omega

theorem Inv.init (n : Nat) (progs : List (List Op)) : Inv n (RC.init n progs) := by
  have hpc : ∀ l ∈ (RC.init n progs).locals, l.pc = .next ∧ l.incsStarted = 0 := by
    intro l hl
    simp only [RC.init, List.mem_map] at hl
    rcases hl with ⟨p, _, rfl⟩
    exact ⟨rfl, rfl⟩
  have hb : ∀ b ∈ (RC.init n progs).shared.buckets, b = 0 := by
    intro b hb
    simp only [RC.init] at hb
    exact (List.mem_replicate.mp hb).2
  have hsum : (RC.init n progs).shared.buckets.sum = 0 := sum_replicate_zero n
  have h1 : ((RC.init n progs).locals.map (fun l => owesPc l.pc)).sum = 0 :=
    sum_map_zero _ _ (fun l hl => by rw [(hpc l hl).1]; rfl)
  have h2 : ((RC.init n progs).locals.map (fun l => preInc l.pc)).sum = 0 :=
    sum_map_zero _ _ (fun l hl => by rw [(hpc l hl).1]; rfl)
  have h3 : ((RC.init n progs).locals.map (fun l => (l.incsStarted : Int))).sum = 0 :=
    sum_map_zero _ _ (fun l hl => by rw [(hpc l hl).2]; rfl)
  refine ⟨rfl, ?_, ?_, ?_, ?_, ?_, ?_⟩
  · simp [RC.init]
  · intro l hl; rw [(hpc l hl).1]; exact True.intro
  · intro b hb'; rw [hb b hb']; exact Int.le_refl 0
  · rw [h1, hsum]; rfl
  · rw [h3]; rfl
  · rw [h2, h3, hsum]; exact Int.le_refl 0

theorem Inv.run {n : Nat} (hn0 : 0 < n) (progs : List (List Op)) (sched : List Nat) :
    Inv n (CM.Conc.run sys (RC.init n progs) sched) :=
  run_inv sys (Inv n) (fun _ _ _ _ _ hI hi hs => Inv.step hn0 hI hi hs) _ (Inv.init n progs) sched

/-- the invariant that refers to the threads' programs -/
structure InvP (n : Nat) (progs : List (List Op)) (c : Config Shared Local) : Prop where
  inv : Inv n c
  count : (c.locals.map (fun l => ((l.incsStarted + countInc l.prog : Nat) : Int))).sum = (incCount progs : Nat)
  bound : ∀ l ∈ c.locals, ReqsLe (maxRequested progs) l
  lastB : c.shared.last ≤ maxRequested progs
  cover : ∀ a, (∃ o ∈ progs.flatten, o.req = some a) → a ≤ c.shared.last ∨ ∃ l ∈ c.locals, pend l a

theorem InvP.step {n : Nat} (hn0 : 0 < n) {progs : List (List Op)} {c : Config Shared Local} (hI : InvP n progs c)
    {i : Nat} {l l' : Local} {s' : Shared} (hi : c.locals[i]? = some l)
    (hs : RC.step i c.shared l = some (s', l')) :
    InvP n progs { shared := s', locals := c.locals.set i l' } := by
  have hr := step_spec i c.shared s' l l' hs
  have hl : l ∈ c.locals := List.mem_of_getElem? hi
  have hW : WPc c.shared.n l.pc := by rw [hI.inv.hn]; exact hI.inv.W l hl
  have hilt : i < c.locals.length := by
    rcases List.getElem?_eq_some_iff.mp hi with ⟨h, _⟩; exact h
  have hb := sr_bound hr hW _ (hI.bound l hl) hI.lastB
  refine ⟨Inv.step hn0 hI.inv hi hs, ?_, ?_, hb.2, ?_⟩
  · show ((c.locals.set i l').map _).sum = _
    rw [sum_map_set _ _ _ _ _ hi]
    have h1 := sr_count hr
    have h2 := hI.count
    omega
  · intro x hx
    rcases List.mem_or_eq_of_mem_set hx with hx | rfl
    · exact hI.bound x hx
    · exact hb.1
  · intro a ha
    show a ≤ s'.last ∨ ∃ x ∈ c.locals.set i l', pend x a
    rcases hI.cover a ha with h1 | ⟨x, hx, hp⟩
    · left; exact Nat.le_trans h1 (sr_mono hr hW)
    · rcases mem_set_cases_rc c.locals i l l' x hi hx with rfl | hx'
      · rcases sr_pend hr a hp with h2 | h2
        · left; exact h2
        · right; exact ⟨l', List.mem_set hilt l', h2⟩
      · right; exact ⟨x, hx', hp⟩

theorem incCount_eq (progs : List (List Op)) : incCount progs = (progs.map countInc).sum := by
  unfold incCount countInc
  congr 2

theorem req_le_maxRequested (progs : List (List Op)) (o : Op) (ho : o ∈ progs.flatten) (a : Nat)
    (ha : o.req = some a) : a ≤ maxRequested progs := by
  unfold maxRequested
  apply le_foldl_max
  right
  exact List.mem_filterMap.mpr ⟨o, ho, ha⟩

theorem InvP.init (n : Nat) (progs : List (List Op)) : InvP n progs (RC.init n progs) := by
  refine ⟨Inv.init n progs, ?_, ?_, Nat.zero_le _, ?_⟩
  · show ((progs.map fun p => ({ prog := p } : Local)).map _).sum = _
    rw [List.map_map, incCount_eq, cast_sum_map]
    congr 2
    funext p
    simp
  · intro l hl
    simp only [RC.init, List.mem_map] at hl
    rcases hl with ⟨p, hp, rfl⟩
    refine ⟨?_, Nat.zero_le _⟩
    intro o ho a ha
    exact req_le_maxRequested progs o (List.mem_flatten_of_mem hp ho) a ha
  · rintro a ⟨o, ho, ha⟩
    right
    rcases List.mem_flatten.mp ho with ⟨p, hp, hop⟩
    exact ⟨{ prog := p }, List.mem_map_of_mem hp, Or.inr ⟨o, hop, ha⟩⟩

theorem InvP.run {n : Nat} (hn0 : 0 < n) (progs : List (List Op)) (sched : List Nat) :
    InvP n progs (CM.Conc.run sys (RC.init n progs) sched) :=
  run_inv sys (InvP n progs) (fun _ _ _ _ _ hI hi hs => InvP.step hn0 hI hi hs) _ (InvP.init n progs) sched

/-- from any configuration satisfying `Inv`, no schedule moves `last` backwards -/
theorem last_mono_run {n : Nat} (hn0 : 0 < n) (c : Config Shared Local) (hI : Inv n c) (sched : List Nat) :
    c.shared.last ≤ (CM.Conc.run sys c sched).shared.last := by
  have := run_inv sys (fun c' => Inv n c' ∧ c.shared.last ≤ c'.shared.last)
    (fun c' i l s' l' hI' hi hs => by
      refine ⟨Inv.step hn0 hI'.1 hi hs, Nat.le_trans hI'.2 ?_⟩
      have hr := step_spec i c'.shared s' l l' hs
      have hW : WPc c'.shared.n l.pc := by rw [hI'.1.hn]; exact hI'.1.W l (List.mem_of_getElem? hi)
      exact sr_mono hr hW) c ⟨hI, Nat.le_refl _⟩ sched
  exact this.2

theorem quiescent_iff (c : Config Shared Local) :
    quiescent c = true ↔ ∀ l ∈ c.locals, l.prog = [] ∧ l.pc = .next := by
  simp [quiescent, List.all_eq_true]

/-! ### the no-roll, no-reset case -/

def okPc : Pc → Prop
  | .next => True
  | .incBucket _ => True
  | .incRolling => True
  | .sumLoad => True
  | .gbLast => True
  | .gbLoad _ _ => True
  | .advLoad abs k => abs = 0 ∧ k ≠ .reset
  | _ => False

def okOp (o : Op) : Prop := (o.req = none ∨ o.req = some 0) ∧ ∀ r, o ≠ .reset r

def isWin : Op → Bool
  | .inc (some _) => true
  | _ => false

def winN (o : Op) : Nat := if isWin o then 1 else 0

def countW (p : List Op) : Nat := (p.filter isWin).length

def winCount (progs : List (List Op)) : Nat := (progs.flatten.filter isWin).length

theorem countW_cons (o : Op) (rest : List Op) : countW (o :: rest) = winN o + countW rest := by
  unfold countW winN
  rw [List.filter_cons]
  split <;> simp <;> omega

theorem preInc_enter_win (o : Op) : preInc (enterAdvance o.req (opCont o)) = (winN o : Int) := by
  cases o with
  | inc r => cases r <;> simp [Op.req, opCont, winN, isWin, kInc]
  | sumAt r => cases r <;> simp [Op.req, opCont, winN, isWin, kInc]
  | getBuckets r => cases r <;> simp [Op.req, opCont, winN, isWin, kInc]
  | reset r => cases r <;> simp [Op.req, opCont, winN, isWin, kInc]

theorem okPc_enter_op (o : Op) (h : okOp o) : okPc (enterAdvance o.req (opCont o)) := by
  rcases h with ⟨h1, h2⟩
  cases o with
  | inc r =>
    rcases h1 with h1 | h1 <;> simp only [Op.req] at h1 <;> subst h1
    · exact True.intro
    · exact ⟨rfl, by simp [opCont]⟩
  | sumAt r =>
    rcases h1 with h1 | h1 <;> simp only [Op.req] at h1 <;> subst h1
    · exact True.intro
    · exact ⟨rfl, by simp [opCont]⟩
  | getBuckets r =>
    rcases h1 with h1 | h1 <;> simp only [Op.req] at h1 <;> subst h1
    · exact True.intro
    · exact ⟨rfl, by simp [opCont]⟩
  | reset r => exact absurd rfl (h2 r)

theorem okPc_after_some (k : Cont) (i : Nat) (h : k ≠ .reset) : okPc (afterAdvance k (some i)) := by
  cases k
  · exact True.intro
  · exact True.intro
  · exact True.intro
  · exact absurd rfl h

section deltaNR
variable {s s' : Shared} {l l' : Local}

theorem sr_nr_last (h : SR s l s' l') (h0 : s.last = 0) (hok : okPc l.pc) : s'.last = 0 := by
  cases h <;> subst_vars <;> (try dsimp only) <;> (try exact h0)
  case casOk abs i k hpc => rw [hpc] at hok; exact hok.elim
  case finalCas abs lastVal k hpc => rw [hpc] at hok; exact hok.elim

theorem sr_nr_ok (h : SR s l s' l') (h0 : s.last = 0) (hok : okPc l.pc) (hops : ∀ o ∈ l.prog, okOp o) :
    okPc l'.pc := by
  cases h <;> subst_vars <;> (try dsimp only)
  case op o rest hpc hp => exact okPc_enter_op o (hops o (by rw [hp]; simp))
  case loadHit abs k hpc hle => rw [hpc] at hok; exact okPc_after_some k _ hok.2
  case loadOld abs k hpc hlt => omega
  case loadNew abs k hpc hgt => rw [hpc] at hok; have := hok.1; omega
  case casOk abs i k hpc => rw [hpc] at hok; exact hok.elim
  case casFail abs lastVal i k hpc hne => rw [hpc] at hok; exact hok.elim
  case swap abs lastVal i k hpc => rw [hpc] at hok; exact hok.elim
  case dec abs lastVal i x k hpc => rw [hpc] at hok; exact hok.elim
  case finalCas abs lastVal k hpc => rw [hpc] at hok; exact hok.elim
  case incBucket => exact True.intro
  case incRolling => exact True.intro
  case sumLoad => exact True.intro
  case gbLast => split <;> exact True.intro
  case gbLoad => split <;> exact True.intro
  case rsSwap i hpc hi => rw [hpc] at hok; exact hok.elim
  case rsDone i hpc hi => exact True.intro
  case rsDec i x hpc => rw [hpc] at hok; exact hok.elim

theorem sr_nr_sum (h : SR s l s' l') (hn : 0 < s.n) (hlen : s.buckets.length = s.n) (hW : WPc s.n l.pc)
    (h0 : s.last = 0) (hok : okPc l.pc) :
    s'.buckets.sum + (preInc l'.pc + (countW l'.prog : Int)) = s.buckets.sum + (preInc l.pc + (countW l.prog : Int)) := by
  cases h <;> subst_vars <;> (try dsimp only) <;> (repeat' split) <;>
    (try simp only [*, preInc_after_some, preInc_after_none]) <;> (try simp only [preInc]) <;> (try omega)
  case op o rest hpc hp =>
    have := preInc_enter_win o
    simp only [preInc] at this
    rw [countW_cons]; omega
  case swap abs lastVal i k hpc => rw [hpc] at hok; exact hok.elim
  case incBucket idx hpc =>
    rw [hpc] at hW
    rw [sum_set _ _ _ (by rw [hlen]; exact hW)]; omega
  case rsSwap i hpc hi => rw [hpc] at hok; exact hok.elim

end deltaNR

structure InvNR (progs : List (List Op)) (c : Config Shared Local) : Prop where
  last0 : c.shared.last = 0
  ok : ∀ l ∈ c.locals, okPc l.pc ∧ ∀ o ∈ l.prog, okOp o
  sumW : c.shared.buckets.sum + (c.locals.map (fun l => preInc l.pc + (countW l.prog : Int))).sum =
    (winCount progs : Nat)

theorem InvNR.step {n : Nat} (hn0 : 0 < n) {progs : List (List Op)} {c : Config Shared Local} (hI : Inv n c)
    (hN : InvNR progs c) {i : Nat} {l l' : Local} {s' : Shared} (hi : c.locals[i]? = some l)
    (hs : RC.step i c.shared l = some (s', l')) :
    InvNR progs { shared := s', locals := c.locals.set i l' } := by
  have hr := step_spec i c.shared s' l l' hs
  have hl : l ∈ c.locals := List.mem_of_getElem? hi
  have hW : WPc c.shared.n l.pc := by rw [hI.hn]; exact hI.W l hl
  have hn1 : 0 < c.shared.n := by rw [hI.hn]; exact hn0
  have hlen : c.shared.buckets.length = c.shared.n := by rw [hI.hn]; exact hI.len
  have hok := hN.ok l hl
  refine ⟨sr_nr_last hr hN.last0 hok.1, ?_, ?_⟩
  · intro x hx
    rcases List.mem_or_eq_of_mem_set hx with hx | rfl
    · exact hN.ok x hx
    · exact ⟨sr_nr_ok hr hN.last0 hok.1 hok.2, fun o ho => hok.2 o (sr_prog_sub hr o ho)⟩
  · show s'.buckets.sum + ((c.locals.set i l').map _).sum = _
    rw [sum_map_set _ _ _ _ _ hi]
    have h1 := sr_nr_sum hr hn1 hlen hW hN.last0 hok.1
    have h2 := hN.sumW
    omega

theorem winCount_eq (progs : List (List Op)) : winCount progs = (progs.map countW).sum := by
  unfold winCount countW
  induction progs with
  | nil => rfl
  | cons p ps ih =>
    simp only [List.flatten_cons, List.filter_append, List.length_append, List.map_cons, List.sum_cons, ih]

theorem InvNR.init (n : Nat) (progs : List (List Op)) (hops : ∀ o ∈ progs.flatten, okOp o) :
    InvNR progs (RC.init n progs) := by
  refine ⟨rfl, ?_, ?_⟩
  · intro l hl
    simp only [RC.init, List.mem_map] at hl
    rcases hl with ⟨p, hp, rfl⟩
    exact ⟨True.intro, fun o ho => hops o (List.mem_flatten_of_mem hp ho)⟩
  · show (List.replicate n (0 : Int)).sum + ((progs.map fun p => ({ prog := p } : Local)).map _).sum = _
    rw [sum_replicate_zero, List.map_map, winCount_eq, cast_sum_map]
    simp only [Int.zero_add]
    congr 2
    funext p
    simp [preInc]

theorem InvNR.run {n : Nat} (hn0 : 0 < n) (progs : List (List Op)) (hops : ∀ o ∈ progs.flatten, okOp o)
    (sched : List Nat) :
    InvNR progs (CM.Conc.run sys (RC.init n progs) sched) := by
  have := run_inv sys (fun c => Inv n c ∧ InvNR progs c)
    (fun _ _ _ _ _ hI hi hs => ⟨Inv.step hn0 hI.1 hi hs, InvNR.step hn0 hI.1 hI.2 hi hs⟩) _
    ⟨Inv.init n progs, InvNR.init n progs hops⟩ sched
  exact this.2

end CM.Conc

/-
  Lemmas/Closer.lean — helper lemmas for the hystrix closer model (`CM.HCloser`, `CM.clstep`, `CM.clexec`) used by
  Props/C03.lean: unfolding lemmas, the gate-is-a-TimedCheck refinement, the ShouldClose bookkeeping invariant and
  the span bound for non-decreasing start readings.
-/
import CircuitModel.CloserOps
import CircuitProofs.Lemmas.TC
namespace CM
open CM.SpecC03

/-! ### unfolding `clstep` / `clexec` -/

theorem clstep_allow (c : HCloser) (t : Int) :
    clstep c (.allow t) = ({ c with tc := (c.tc.check t).1 }, some (c.tc.check t).2) := by
  cases h : c.tc.check t
  simp [clstep, h]

@[simp] theorem clexec_nil (c : HCloser) : clexec c [] = c := rfl

theorem clexec_cons (c : HCloser) (op : ClOp) (ops : List ClOp) :
    clexec c (op :: ops) = clexec (clstep c op).1 ops := by
  simp [clexec, List.foldl_cons]

theorem clexec_snoc (c : HCloser) (ops : List ClOp) (op : ClOp) :
    clexec c (ops ++ [op]) = (clstep (clexec c ops) op).1 := by
  simp [clexec, List.foldl_append]

theorem TC.exec_append (c : TC) (a b : List TCOp) : c.exec (a ++ b) = (c.exec a).exec b := by
  simp [TC.exec, List.foldl_append]

theorem HCloser.onRun_tc (c : HCloser) (k : Kind) (t d : Int) : (c.onRun k t d).tc = c.tc := by
  cases k <;> rfl

theorem HCloser.onRun_required (c : HCloser) (k : Kind) (t d : Int) : (c.onRun k t d).required = c.required := by
  cases k <;> rfl

/-! ### the gate is a TimedCheck -/

theorem clstep_tc (c : HCloser) (op : ClOp) : (clstep c op).1.tc = c.tc.exec (toTC op) := by
  cases op with
  | ev k t => exact c.onRun_tc k t 0
  | opened t => rfl
  | closed t => rfl
  | allow t =>
    rw [clstep_allow]
    show (c.tc.check t).1 = (c.tc.step (.check t)).1
    rw [TC.step_check]
  | shouldClose t => rfl
  | fire k => rfl
  | cfg s h r => rfl

theorem clexec_tc (c : HCloser) (ops : List ClOp) : (clexec c ops).tc = c.tc.exec (ops.flatMap toTC) := by
  induction ops generalizing c with
  | nil => rfl
  | cons op ops ih =>
    rw [clexec_cons, ih, List.flatMap_cons, TC.exec_append, clstep_tc]

/-! ### ShouldClose bookkeeping -/

theorem clstep_succ_required (c : HCloser) (req0 : Int) (h : List ClOp) (op : ClOp)
    (hs : c.succ = succSince h) (hr : c.required = required req0 h) :
    (clstep c op).1.succ = succSince (op :: h) ∧ (clstep c op).1.required = required req0 (op :: h) := by
  cases op with
  | ev k t =>
    refine ⟨?_, ?_⟩
    · cases k <;> simp [clstep, HCloser.onRun, succSince, hs]
    · rw [show (clstep c (.ev k t)).1 = c.onRun k t 0 from rfl, HCloser.onRun_required]
      exact hr
  | opened t => exact ⟨rfl, hr⟩
  | closed t => exact ⟨rfl, hr⟩
  | allow t =>
    rw [clstep_allow]
    exact ⟨hs, hr⟩
  | shouldClose t => exact ⟨hs, hr⟩
  | fire k => exact ⟨hs, hr⟩
  | cfg s h' r => exact ⟨hs, rfl⟩

theorem clexec_succ_required_gen (req0 : Int) (ops : List ClOp) :
    ∀ (c : HCloser) (h : List ClOp), c.succ = succSince h → c.required = required req0 h →
      (clexec c ops).succ = succSince (ops.reverse ++ h) ∧
      (clexec c ops).required = required req0 (ops.reverse ++ h) := by
  induction ops with
  | nil => intro c h hs hr; exact ⟨hs, hr⟩
  | cons op ops ih =>
    intro c h hs hr
    have hstep := clstep_succ_required c req0 h op hs hr
    rw [clexec_cons, List.reverse_cons, List.append_assoc, List.singleton_append]
    exact ih _ _ hstep.1 hstep.2

theorem clexec_succ_required (sleep half req : Int) (ops : List ClOp) :
    (clexec (HCloser.init sleep half req) ops).succ = succSince ops.reverse ∧
    (clexec (HCloser.init sleep half req) ops).required = required req ops.reverse := by
  have h := clexec_succ_required_gen req ops (HCloser.init sleep half req) [] rfl rfl
  simpa using h

/-! ### sorted lists, `sortAsc`, `spanViolated` -/

theorem insertAsc_of_le (x : Int) (l : List Int) (h : ∀ y ∈ l, x ≤ y) : insertAsc x l = x :: l := by
  cases l with
  | nil => rfl
  | cons y ys => simp [insertAsc, h y List.mem_cons_self]

theorem sortAsc_of_pairwise (l : List Int) (h : l.Pairwise (· ≤ ·)) : sortAsc l = l := by
  induction l with
  | nil => rfl
  | cons x xs ih =>
    rw [List.pairwise_cons] at h
    simp [sortAsc, ih h.2, insertAsc_of_le x xs h.1]

theorem pairwise_of_nonDecreasing : ∀ (l : List Int), nonDecreasing l = true → l.Pairwise (· ≤ ·)
  | [], _ => List.Pairwise.nil
  | [a], _ => by simp
  | a :: b :: r, h => by
    simp only [nonDecreasing, Bool.and_eq_true, decide_eq_true_eq] at h
    have ih := pairwise_of_nonDecreasing (b :: r) h.2
    refine List.pairwise_cons.mpr ⟨?_, ih⟩
    rw [List.pairwise_cons] at ih
    intro y hy
    rcases List.mem_cons.mp hy with rfl | hy
    · exact h.1
    · exact Int.le_trans h.1 (ih.1 y hy)

/-- any element and the one `k` places later are at least `D` apart -/
def Spaced (D : Int) (k : Nat) (l : List Int) : Prop :=
  ∀ i a b, l[i]? = some a → l[i + k]? = some b → D ≤ b - a

theorem Spaced.nil (D : Int) (k : Nat) : Spaced D k [] := by
  intro i a b ha; simp at ha

theorem spanViolated_false_of (D : Int) (k : Nat) (l : List Int) (hs : l.Pairwise (· ≤ ·))
    (hsp : Spaced D k l) : spanViolated D k l = false := by
  unfold spanViolated
  rw [sortAsc_of_pairwise l hs]
  simp only [List.any_eq_false]
  intro i _
  split
  · next a b ha hb =>
    have := hsp i a b ha hb
    simp only [decide_eq_true_eq]; omega
  · simp

/-- appending an admission `t`: the element `k` places before it lies in `pre` because fewer than `k` admissions
    (`cur`) happened since the last re-arming -/
theorem Spaced.snoc {D : Int} {k : Nat} {pre cur : List Int} {t : Int}
    (h : Spaced D k (pre ++ cur)) (hcur : cur.length < k) (hpre : ∀ a ∈ pre, a ≤ t - D) :
    Spaced D k (pre ++ cur ++ [t]) := by
  intro i a b ha hb
  by_cases hlt : i + k < (pre ++ cur).length
  · rw [List.getElem?_append_left hlt] at hb
    rw [List.getElem?_append_left (by omega)] at ha
    exact h i a b ha hb
  · have hlen : i + k < (pre ++ cur ++ [t]).length := by
      apply Classical.byContradiction
      intro hge
      rw [List.getElem?_eq_none (by omega)] at hb
      cases hb
    simp only [List.length_append, List.length_cons, List.length_nil] at hlt hlen
    have hik : i + k = (pre ++ cur).length := by simp only [List.length_append]; omega
    rw [List.getElem?_append_right (by omega), hik] at hb
    simp at hb
    subst hb
    have hi : i < pre.length := by omega
    rw [List.append_assoc, List.getElem?_append_left hi] at ha
    have := hpre a (List.mem_of_getElem? ha)
    omega

/-! ### the span bound for non-decreasing start readings -/

/-- the timestamps of the successful Allow calls, oldest first (Props/C03 `admitted`) -/
def admittedL (c : HCloser) : List ClOp → List Int
  | [] => []
  | op :: ops =>
    let r := clstep c op
    match op, r.2 with
    | .allow t, some true => t :: admittedL r.1 ops
    | _, _ => admittedL r.1 ops

def allowTimesL : List ClOp → List Int
  | [] => []
  | .allow t :: ops => t :: allowTimesL ops
  | _ :: ops => allowTimesL ops

def staticOpL : ClOp → Bool
  | .opened _ => false
  | .closed _ => false
  | .cfg _ _ _ => false
  | _ => true

theorem admittedL_allow (c : HCloser) (t : Int) (ops : List ClOp) :
    admittedL c (.allow t :: ops) =
      if (c.tc.check t).2 = true then t :: admittedL { c with tc := (c.tc.check t).1 } ops
      else admittedL { c with tc := (c.tc.check t).1 } ops := by
  simp only [admittedL, clstep_allow]
  cases (c.tc.check t).2 <;> simp

theorem maxOne_pos (x : Int) : 0 < maxOne x := by
  unfold maxOne; split <;> omega

/-- gate state vs. the admissions so far: `pre` = admissions up to and including the last re-arming one,
    `cur` = admissions since, `L` = the instant before which the gate refuses -/
structure SpanInv (D : Int) (k : Nat) (c : TC) (pre cur : List Int) (L : Int) : Prop where
  sleep : c.sleep = D
  kdef : maxOne c.allow = k
  next : c.nextOpen = some L
  cnt : (cur.length : Int) = c.count
  lt : c.count < max 1 c.allow
  pre_le : ∀ a ∈ pre, a ≤ L - D
  spaced : Spaced D k (pre ++ cur)

theorem SpanInv.cur_lt {D : Int} {k : Nat} {c : TC} {pre cur : List Int} {L : Int}
    (h : SpanInv D k c pre cur L) : cur.length < k := by
  have h1 := h.kdef
  have h2 := h.cnt
  have h3 := h.lt
  unfold maxOne at h1
  split at h1 <;> omega

theorem SpanInv.of_eq {D : Int} {k : Nat} {c c' : TC} {pre cur : List Int} {L : Int}
    (h : SpanInv D k c pre cur L) (h1 : c'.sleep = c.sleep) (h2 : c'.allow = c.allow)
    (h3 : c'.nextOpen = c.nextOpen) (h4 : c'.count = c.count) : SpanInv D k c' pre cur L :=
  ⟨h1 ▸ h.sleep, h2 ▸ h.kdef, h3 ▸ h.next, h4 ▸ h.cnt, by rw [h4, h2]; exact h.lt, h.pre_le, h.spaced⟩

theorem span_gen (D : Int) (k : Nat) :
    ∀ (ops : List ClOp) (c : HCloser) (pre cur : List Int) (L : Int),
      (∀ op ∈ ops, staticOpL op = true) → SpanInv D k c.tc pre cur L →
      (pre ++ cur ++ allowTimesL ops).Pairwise (· ≤ ·) →
      Spaced D k (pre ++ cur ++ admittedL c ops) ∧ (pre ++ cur ++ admittedL c ops).Pairwise (· ≤ ·) := by
  intro ops
  induction ops with
  | nil =>
    intro c pre cur L _ hinv hpw
    simp only [admittedL, allowTimesL, List.append_nil] at hpw ⊢
    exact ⟨hinv.spaced, hpw⟩
  | cons op ops ih =>
    intro c pre cur L hst hinv hpw
    have hst' : ∀ op' ∈ ops, staticOpL op' = true := fun op' h => hst op' (List.mem_cons_of_mem _ h)
    have hop := hst op List.mem_cons_self
    cases op with
    | opened t => simp [staticOpL] at hop
    | closed t => simp [staticOpL] at hop
    | cfg s h r => simp [staticOpL] at hop
    | ev kd t =>
      have hinv' : SpanInv D k (c.onRun kd t 0).tc pre cur L := by rw [HCloser.onRun_tc]; exact hinv
      exact ih (c.onRun kd t 0) pre cur L hst' hinv' hpw
    | shouldClose t => exact ih c pre cur L hst' hinv hpw
    | fire j =>
      obtain ⟨f1, f2, _, f4, f5, _⟩ := c.tc.fire_fields j
      exact ih { c with tc := c.tc.fire j } pre cur L hst' (hinv.of_eq f1 f2 f4 f5) hpw
    | allow t =>
      rw [admittedL_allow]
      have hpw2 : (pre ++ cur ++ t :: allowTimesL ops).Pairwise (· ≤ ·) := hpw
      by_cases hr : c.tc.fastFail = true ∨ c.tc.nextAfter t = true
      · rw [TC.check_refused c.tc t hr]
        simp only [Bool.false_eq_true, if_false]
        refine ih _ pre cur L hst' hinv ?_
        exact hpw2.sublist (List.Sublist.append_left (List.sublist_cons_self t _) _)
      · have hf : c.tc.fastFail = false := by
          cases hc : c.tc.fastFail <;> simp [hc] at hr ⊢
        have hn : c.tc.nextAfter t = false := by
          cases hc : c.tc.nextAfter t <;> simp [hc] at hr ⊢
        have hLt : L ≤ t := by
          have := hn
          simp only [TC.nextAfter, hinv.next, decide_eq_false_iff_not] at this
          omega
        have hle : ∀ a ∈ pre ++ cur, a ≤ t := fun a ha =>
          (List.pairwise_append.mp hpw2).2.2 a ha t List.mem_cons_self
        have hsp : Spaced D k (pre ++ cur ++ [t]) :=
          Spaced.snoc hinv.spaced hinv.cur_lt
            (fun a ha => by have := hinv.pre_le a ha; omega)
        have hpw3 : (pre ++ cur ++ [t] ++ allowTimesL ops).Pairwise (· ≤ ·) := by
          simpa [List.append_assoc] using hpw2
        rw [TC.check_eligible c.tc t hf hn]
        by_cases hge : c.tc.count + 1 ≥ c.tc.allow
        · simp only [hge, if_true]
          have hinv' : SpanInv D k (({ c.tc with count := c.tc.count + 1 } : TC).resetOpen t)
              (pre ++ cur ++ [t]) [] (t + D) := by
            refine ⟨hinv.sleep, hinv.kdef, ?_, rfl, ?_, ?_, ?_⟩
            · show some (t + c.tc.sleep) = some (t + D)
              rw [hinv.sleep]
            · show (0 : Int) < max 1 c.tc.allow
              omega
            · intro a ha
              rcases List.mem_append.mp ha with ha | ha
              · have := hle a ha; omega
              · have : a = t := by simpa using ha
                omega
            · simpa using hsp
          have := ih { c with tc := ({ c.tc with count := c.tc.count + 1 } : TC).resetOpen t }
            (pre ++ cur ++ [t]) [] (t + D) hst' hinv' (by simpa using hpw3)
          simpa [List.append_assoc] using this
        · simp only [hge, if_false]
          have hinv' : SpanInv D k ({ c.tc with count := c.tc.count + 1 } : TC) pre (cur ++ [t]) L := by
            refine ⟨hinv.sleep, hinv.kdef, hinv.next, ?_, ?_, hinv.pre_le, ?_⟩
            · show ((cur ++ [t]).length : Int) = c.tc.count + 1
              have := hinv.cnt
              simp only [List.length_append, List.length_singleton]
              omega
            · show c.tc.count + 1 < max 1 c.tc.allow
              omega
            · simpa [List.append_assoc] using hsp
          have := ih { c with tc := ({ c.tc with count := c.tc.count + 1 } : TC) }
            pre (cur ++ [t]) L hst' hinv' (by simpa [List.append_assoc] using hpw3)
          simpa [List.append_assoc] using this

/-- the span bound after a transition at `T`, static settings, non-decreasing readings -/
theorem span_after_transition (c : HCloser) (T : Int) (ops : List ClOp)
    (hstatic : ∀ op ∈ ops, staticOpL op = true) (hmono : nonDecreasing (allowTimesL ops) = true) :
    spanViolated c.tc.sleep (maxOne c.tc.allow) (admittedL (c.transition T) ops) = false := by
  have hinv : SpanInv c.tc.sleep (maxOne c.tc.allow) (c.transition T).tc [] [] (T + c.tc.sleep) := by
    refine ⟨rfl, rfl, rfl, rfl, ?_, ?_, Spaced.nil _ _⟩
    · show (0 : Int) < max 1 c.tc.allow
      omega
    · intro a ha; simp at ha
  have h := span_gen c.tc.sleep (maxOne c.tc.allow) ops (c.transition T) [] [] (T + c.tc.sleep) hstatic hinv
    (by simpa using pairwise_of_nonDecreasing _ hmono)
  simp only [List.append_nil, List.nil_append] at h
  exact spanViolated_false_of _ _ _ h.2 h.1

end CM

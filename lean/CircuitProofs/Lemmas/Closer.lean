import CircuitModel.CloserOps
import CircuitProofs.Lemmas.TC
namespace CM
end CM

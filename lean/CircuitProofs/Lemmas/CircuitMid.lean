import CircuitModel.CircuitMid
namespace CM
end CM

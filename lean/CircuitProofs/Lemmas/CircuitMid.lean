import CircuitModel.CircuitMid
namespace CM
section
variable {σo σc : Type} (O : OpenerI σo) (C : CloserI σc)

/-! ### no reconfiguration: the extended model is the model -/

theorem cmid_classifyAt_eq (s : St σo σc) (ctx : CallerCtx) (sc : Script) (ret : Option ErrV) (start : Int) :
    classifyAt O C s ctx sc ret start s.1.cfg.timeout = classify O C s ctx sc ret start := by
  rfl

theorem cmid_runStepMid_none (s : St σo σc) (ctx : CallerCtx) (run : Option Script) :
    runStepMid O C s ctx run none = runStep O C s ctx run := by
  cases run with
  | none => rfl
  | some sc => rfl

theorem cmid_executeMid_none (c : Circ σo σc) (ctx : CallerCtx) (run fb : Option Script) :
    executeMid O C c ctx run fb none = execute O C c ctx run fb := by
  cases run <;> rfl

/-! ### changing only the timeout commutes with everything that does not read it -/

def cmid_setTo (t' : Int) (s : St σo σc) : St σo σc :=
  ({ s.1 with cfg := { s.1.cfg with timeout := t' } }, s.2)

theorem cmid_setTo_now (t' : Int) (s : St σo σc) :
    now (cmid_setTo t' s) = ((now s).1, cmid_setTo t' (now s).2) := rfl

theorem cmid_setTo_emitRun (t' : Int) (s : St σo σc) (k : Kind) (t d : Int) :
    emitRun O C (cmid_setTo t' s) k t d = cmid_setTo t' (emitRun O C s k t d) := rfl

theorem cmid_setTo_emitFb (t' : Int) (s : St σo σc) (k : FbKind) (t d : Int) :
    emitFb (cmid_setTo t' s) k t d = cmid_setTo t' (emitFb s k t d) := rfl

theorem cmid_setTo_isOpenEff (t' : Int) (s : St σo σc) :
    isOpenEff (cmid_setTo t' s).1 = isOpenEff s.1 := rfl

theorem cmid_setTo_openCircuit (t' : Int) (s : St σo σc) (t : Int) :
    openCircuit O C (cmid_setTo t' s) t = cmid_setTo t' (openCircuit O C s t) := by
  unfold openCircuit
  rw [cmid_setTo_isOpenEff]
  show (if s.1.cfg.forcedClosed = true then _ else _) = _
  split
  · rfl
  · split <;> rfl

theorem cmid_setTo_attemptToOpen (t' : Int) (s : St σo σc) (t : Int) :
    attemptToOpen O C (cmid_setTo t' s) t = cmid_setTo t' (attemptToOpen O C s t) := by
  unfold attemptToOpen
  rw [cmid_setTo_isOpenEff]
  show (if s.1.cfg.forcedClosed = true then _ else _) = _
  split
  · rfl
  · split
    · rfl
    · have e : (cmid_setTo t' s).1.opener = s.1.opener := rfl
      rw [e]
      generalize O.shouldOpen s.1.opener t = p
      obtain ⟨o, ans⟩ := p
      cases ans
      · rfl
      · exact cmid_setTo_openCircuit O C t' ({ s.1 with opener := o }, s.2) t

theorem cmid_setTo_closeCircuit (t' : Int) (s : St σo σc) (t : Int) (force : Bool) :
    closeCircuit O C (cmid_setTo t' s) t force = cmid_setTo t' (closeCircuit O C s t force) := by
  unfold closeCircuit
  rw [cmid_setTo_isOpenEff]
  split
  · rfl
  · show (if s.1.cfg.forceOpen = true then _ else _) = _
    split
    · rfl
    · cases force
      · have e : (cmid_setTo t' s).1.closer = s.1.closer := rfl
        rw [e]
        generalize C.shouldClose s.1.closer t = p
        obtain ⟨c, a⟩ := p
        cases a <;> rfl
      · rfl

theorem cmid_setTo_allowNewRun (t' : Int) (s : St σo σc) (t : Int) :
    allowNewRun C (cmid_setTo t' s) t = (cmid_setTo t' (allowNewRun C s t).1, (allowNewRun C s t).2) := by
  unfold allowNewRun
  rw [cmid_setTo_isOpenEff]
  split
  · rfl
  · show (if s.1.cfg.forceOpen = true then _ else _) = _
    split
    · rfl
    · have e : (cmid_setTo t' s).1.closer = s.1.closer := rfl
      rw [e]
      generalize C.allow s.1.closer t = p
      obtain ⟨c, a⟩ := p
      rfl

theorem cmid_setTo_ii (t' : Int) (s : St σo σc) :
    (cmid_setTo t' s).1.cfg.ignoreInterrupts = s.1.cfg.ignoreInterrupts := rfl
theorem cmid_setTo_iei (t' : Int) (s : St σo σc) : (cmid_setTo t' s).1.cfg.iei = s.1.cfg.iei := rfl

/-- the classification chain after the two clock readings -/
def cmid_tail (s : St σo σc) (ctx : CallerCtx) (sc : Script) (ret : Option ErrV) (start toAtStart doneT total : Int) :
    St σo σc :=
  if (match ret with | some e => e.isBad | none => false) then emitRun O C s .badRequest doneT total
  else if toAtStart > 0 ∧ start + toAtStart < doneT then
    let s := emitRun O C s .timeout doneT total
    if !isOpenEff s.1 then attemptToOpen O C s doneT else s
  else
    let callerErr := ctxErrAfter ctx sc
    if ret.isSome && callerErr.isSome && !s.1.cfg.ignoreInterrupts &&
        (match callerErr with | some e => s.1.cfg.iei.verdict e | none => false) then
      emitRun O C s .interrupt doneT total
    else if ret.isSome then
      let s := emitRun O C s .failure doneT total
      if !isOpenEff s.1 then attemptToOpen O C s doneT else s
    else
      let s := emitRun O C s .success doneT total
      if isOpenEff s.1 then closeCircuit O C s doneT false else s

theorem cmid_classifyAt_tail (s : St σo σc) (ctx : CallerCtx) (sc : Script) (ret : Option ErrV) (start toAtStart : Int) :
    classifyAt O C s ctx sc ret start toAtStart =
      cmid_tail O C (now (now s).2).2 ctx sc ret start toAtStart (now (now s).2).1 ((now s).1 - start) := rfl

theorem cmid_setTo_tail (t' : Int) (s : St σo σc) (ctx : CallerCtx) (sc : Script) (ret : Option ErrV)
    (start toAtStart doneT total : Int) :
    cmid_tail O C (cmid_setTo t' s) ctx sc ret start toAtStart doneT total =
      cmid_setTo t' (cmid_tail O C s ctx sc ret start toAtStart doneT total) := by
  unfold cmid_tail
  simp only [cmid_setTo_ii, cmid_setTo_iei, cmid_setTo_emitRun, cmid_setTo_isOpenEff, cmid_setTo_attemptToOpen,
    cmid_setTo_closeCircuit, apply_ite (cmid_setTo t')]

theorem cmid_setTo_classifyAt (t' : Int) (s : St σo σc) (ctx : CallerCtx) (sc : Script) (ret : Option ErrV)
    (start toAtStart : Int) :
    classifyAt O C (cmid_setTo t' s) ctx sc ret start toAtStart =
      cmid_setTo t' (classifyAt O C s ctx sc ret start toAtStart) := by
  rw [cmid_classifyAt_tail, cmid_classifyAt_tail]
  exact cmid_setTo_tail O C t' (now (now s).2).2 ctx sc ret start toAtStart (now (now s).2).1 ((now s).1 - start)

/-! ### the fallback in stages -/

/-- the fallback refused for concurrency (its slot taken and given back) -/
def cmid_fbReject (s : St σo σc) : St σo σc :=
  let s2 := emitFb (now s).2 .reject (now s).1 0
  ({ s2.1 with concFb := s2.1.concFb - 1 }, s2.2)

/-- the fallback once let in (its concurrency slot taken); `seen` = the run function was invoked -/
def cmid_fbBody (s : St σo σc) (seen : Bool) (ctx : CallerCtx) (runSc : Option Script) (err : ErrV) (sc : Script) :
    St σo σc × Res :=
  let (start, s) := now s
  let s : St σo σc := ({ s.1 with clock := s.1.clock + sc.adv }, { s.2 with fbArg := some err, fbSameCtx := true })
  match sc.act with
  | .panic v => (({ s.1 with concFb := s.1.concFb - 1 }, s.2), .panic v)
  | _ =>
    let callerErr := match runSc with
      | some r => if seen then ctxErrAfter ctx r else ctx.err
      | none => ctx.err
    let callerErr := match callerErr with | some e => some e | none => if sc.cancelCaller then some .canceled else none
    let r := actValue sc callerErr
    let (endT, s) := now s
    let total := endT - start
    let s := match r with
      | some _ => emitFb s .failure start total
      | none => emitFb s .success start total
    (({ s.1 with concFb := s.1.concFb - 1 }, s.2), .ret r)

theorem cmid_fallbackStep_some (s : St σo σc) (ctx : CallerCtx) (runSc : Option Script) (err : ErrV) (sc : Script) :
    fallbackStep s ctx runSc err (some sc) =
      if s.1.cfg.fbDisabled then (s, .ret (some err))
      else if s.1.cfg.fbMaxConc ≥ 0 ∧ s.1.concFb + 1 > s.1.cfg.fbMaxConc then
        (cmid_fbReject ({ s.1 with concFb := s.1.concFb + 1 }, s.2), .ret (some .concLimit))
      else cmid_fbBody ({ s.1 with concFb := s.1.concFb + 1 }, s.2) s.2.runSeen.isSome ctx runSc err sc := by
  rfl

theorem cmid_setTo_fbBody (t' : Int) (s : St σo σc) (seen : Bool) (ctx : CallerCtx) (runSc : Option Script)
    (err : ErrV) (sc : Script) :
    cmid_fbBody (cmid_setTo t' s) seen ctx runSc err sc =
      (cmid_setTo t' (cmid_fbBody s seen ctx runSc err sc).1, (cmid_fbBody s seen ctx runSc err sc).2) := by
  unfold cmid_fbBody
  cases hact : sc.act
  · dsimp only
    generalize actValue sc _ = r
    cases r <;> rfl
  · dsimp only
    generalize actValue sc _ = r
    cases r <;> rfl
  · rfl

theorem cmid_setTo_fallbackStep (t' : Int) (s : St σo σc) (ctx : CallerCtx) (runSc : Option Script) (err : ErrV)
    (fb : Option Script) :
    fallbackStep (cmid_setTo t' s) ctx runSc err fb =
      (cmid_setTo t' (fallbackStep s ctx runSc err fb).1, (fallbackStep s ctx runSc err fb).2) := by
  cases fb with
  | none => rfl
  | some sc =>
    rw [cmid_fallbackStep_some, cmid_fallbackStep_some]
    show (if s.1.cfg.fbDisabled = true then _ else _) = _
    split
    · rfl
    · show (if s.1.cfg.fbMaxConc ≥ 0 ∧ s.1.concFb + 1 > s.1.cfg.fbMaxConc then _ else _) = _
      split
      · rfl
      · exact cmid_setTo_fbBody t' ({ s.1 with concFb := s.1.concFb + 1 }, s.2) s.2.runSeen.isSome ctx runSc err sc

/-! ### the run in stages -/

/-- the state in which the run function returns, given the state `s` in which it is invoked (slot taken) -/
def cmid_invoke (s : St σo σc) (ctx : CallerCtx) (sc : Script) (start : Int) (mid : Option LiveCfg) : St σo σc :=
  ({ s.1 with clock := s.1.clock + sc.adv, cfg := mid.getD s.1.cfg },
   { s.2 with runSeen := some (derivedSeen s.1.cfg ctx start) })

/-- giving the slot back and releasing the derived context -/
def cmid_finish (s : St σo σc) (derived : Bool) : St σo σc :=
  ({ s.1 with conc := s.1.conc - 1 }, { s.2 with released := if derived then some true else none })

/-- the run once let in and not throttled -/
def cmid_runBody (s : St σo σc) (ctx : CallerCtx) (sc : Script) (start : Int) (mid : Option LiveCfg) :
    St σo σc × Res :=
  let derived := !(derivedSeen s.1.cfg ctx start).sameAsCaller
  match sc.act with
  | .panic v => (cmid_finish (cmid_invoke s ctx sc start mid) derived, .panic v)
  | _ =>
    (cmid_finish (classifyAt O C (cmid_invoke s ctx sc start mid) ctx sc (actValue sc (ctxErrAfter ctx sc)) start
        s.1.cfg.timeout) derived,
      .ret (actValue sc (ctxErrAfter ctx sc)))

/-- the run refused for concurrency -/
def cmid_runReject (s : St σo σc) (start : Int) : St σo σc :=
  let s2 := emitRun O C s .reject start 0
  ({ s2.1 with conc := s2.1.conc - 1 }, s2.2)

theorem cmid_runStepMid_some (s : St σo σc) (ctx : CallerCtx) (sc : Script) (mid : Option LiveCfg) :
    runStepMid O C s ctx (some sc) mid =
      (let start := s.1.clock
       let p := allowNewRun C (now s).2 start
       if !p.2 then (emitRun O C p.1 .shortCircuit start 0, .ret (some .circuitOpen))
       else
         let q := O.prevent p.1.1.opener start
         if q.2 then (({ p.1.1 with opener := q.1 }, p.1.2), .ret (some .circuitOpen))
         else
           let s2 : St σo σc := ({ p.1.1 with opener := q.1, conc := p.1.1.conc + 1 }, p.1.2)
           if s2.1.cfg.maxConc ≥ 0 ∧ s2.1.conc > s2.1.cfg.maxConc then
             (cmid_runReject O C s2 start, .ret (some .concLimit))
           else cmid_runBody O C s2 ctx sc start mid) := by
  rfl

/-- the tail of Execute after `run` returned -/
def cmid_execTail (p : St σo σc × Res) (ctx : CallerCtx) (run fb : Option Script) : Circ σo σc × Obs × Res :=
  match p.2 with
  | .ret none => (p.1.1, p.1.2, .ret none)
  | .ret (some e) =>
    if e.isBad then (p.1.1, p.1.2, .ret (some e))
    else ((fallbackStep p.1 ctx run e fb).1.1, (fallbackStep p.1 ctx run e fb).1.2, (fallbackStep p.1 ctx run e fb).2)
  | other => (p.1.1, p.1.2, other)

theorem cmid_executeMid_enabled (c : Circ σo σc) (ctx : CallerCtx) (run fb : Option Script) (mid : Option LiveCfg)
    (h : c.cfg.disabled = false) :
    executeMid O C c ctx run fb mid = cmid_execTail (runStepMid O C (c, {}) ctx run mid) ctx run fb := by
  unfold executeMid
  rw [if_neg (by rw [h]; exact Bool.false_ne_true)]
  rfl

/-! ### a change of the timeout alone is invisible to the call in flight -/

theorem cmid_allowNewRun_frame (s : St σo σc) (t : Int) :
    (allowNewRun C s t).1.1.cfg = s.1.cfg ∧ (allowNewRun C s t).1.2 = s.2 := by
  unfold allowNewRun
  split
  · exact ⟨rfl, rfl⟩
  · split
    · exact ⟨rfl, rfl⟩
    · exact ⟨rfl, rfl⟩

theorem cmid_runBody_timeout (s : St σo σc) (ctx : CallerCtx) (sc : Script) (start t' : Int) :
    cmid_runBody O C s ctx sc start (some { s.1.cfg with timeout := t' }) =
      (cmid_setTo t' (cmid_runBody O C s ctx sc start none).1, (cmid_runBody O C s ctx sc start none).2) := by
  unfold cmid_runBody
  have e : cmid_invoke s ctx sc start (some { s.1.cfg with timeout := t' }) =
      cmid_setTo t' (cmid_invoke s ctx sc start none) := rfl
  rw [e]
  cases sc.act
  · dsimp only
    rw [cmid_setTo_classifyAt]
    rfl
  · dsimp only
    rw [cmid_setTo_classifyAt]
    rfl
  · rfl

theorem cmid_runStepMid_timeout (s : St σo σc) (ctx : CallerCtx) (run : Option Script) (t' : Int) :
    (runStepMid O C s ctx run (some { s.1.cfg with timeout := t' })).2 = (runStep O C s ctx run).2 ∧
    ((runStepMid O C s ctx run (some { s.1.cfg with timeout := t' })).1 = (runStep O C s ctx run).1 ∨
     (runStepMid O C s ctx run (some { s.1.cfg with timeout := t' })).1 = cmid_setTo t' (runStep O C s ctx run).1) := by
  rw [← cmid_runStepMid_none]
  cases run with
  | none => exact ⟨rfl, Or.inl rfl⟩
  | some sc =>
    rw [cmid_runStepMid_some, cmid_runStepMid_some]
    dsimp only
    split
    · exact ⟨rfl, Or.inl rfl⟩
    · split
      · exact ⟨rfl, Or.inl rfl⟩
      · split
        · exact ⟨rfl, Or.inl rfl⟩
        · have hc : (allowNewRun C (now s).2 s.1.clock).1.1.cfg = s.1.cfg :=
            (cmid_allowNewRun_frame C (now s).2 s.1.clock).1
          have key : ∀ s2 : St σo σc, s2.1.cfg = s.1.cfg →
              (cmid_runBody O C s2 ctx sc s.1.clock (some { s.1.cfg with timeout := t' })).2 =
                (cmid_runBody O C s2 ctx sc s.1.clock none).2 ∧
              ((cmid_runBody O C s2 ctx sc s.1.clock (some { s.1.cfg with timeout := t' })).1 =
                (cmid_runBody O C s2 ctx sc s.1.clock none).1 ∨
               (cmid_runBody O C s2 ctx sc s.1.clock (some { s.1.cfg with timeout := t' })).1 =
                cmid_setTo t' (cmid_runBody O C s2 ctx sc s.1.clock none).1) := by
            intro s2 h
            rw [← h, cmid_runBody_timeout]
            exact ⟨rfl, Or.inr rfl⟩
          exact key _ hc

theorem cmid_execute_enabled (c : Circ σo σc) (ctx : CallerCtx) (run fb : Option Script) (h : c.cfg.disabled = false) :
    execute O C c ctx run fb = cmid_execTail (runStep O C (c, {}) ctx run) ctx run fb := by
  rw [← cmid_executeMid_none, cmid_executeMid_enabled O C c ctx run fb none h, cmid_runStepMid_none]

theorem cmid_setTo_execTail (t' : Int) (s : St σo σc) (r : Res) (ctx : CallerCtx) (run fb : Option Script) :
    cmid_execTail (cmid_setTo t' s, r) ctx run fb =
      ((cmid_setTo t' ((cmid_execTail (s, r) ctx run fb).1, (cmid_execTail (s, r) ctx run fb).2.1)).1,
        (cmid_execTail (s, r) ctx run fb).2.1, (cmid_execTail (s, r) ctx run fb).2.2) := by
  unfold cmid_execTail
  cases r with
  | ret e =>
    cases e with
    | none => rfl
    | some e =>
      dsimp only
      split
      · rfl
      · rw [cmid_setTo_fallbackStep]
        rfl
  | panic v => rfl
  | nilFunc => rfl

theorem cmid_timeout_invisible (c : Circ σo σc) (ctx : CallerCtx) (run fb : Option Script) (t' : Int) :
    (executeMid O C c ctx run fb (some { c.cfg with timeout := t' })).2 = (execute O C c ctx run fb).2 ∧
    ((executeMid O C c ctx run fb (some { c.cfg with timeout := t' })).1 = (execute O C c ctx run fb).1 ∨
     (executeMid O C c ctx run fb (some { c.cfg with timeout := t' })).1 =
       { (execute O C c ctx run fb).1 with cfg := { (execute O C c ctx run fb).1.cfg with timeout := t' } }) := by
  cases h : c.cfg.disabled
  · rw [cmid_executeMid_enabled O C c ctx run fb _ h, cmid_execute_enabled O C c ctx run fb h]
    have h12 : (runStepMid O C (c, {}) ctx run (some { c.cfg with timeout := t' })).2 = (runStep O C (c, {}) ctx run).2 ∧
        ((runStepMid O C (c, {}) ctx run (some { c.cfg with timeout := t' })).1 = (runStep O C (c, {}) ctx run).1 ∨
         (runStepMid O C (c, {}) ctx run (some { c.cfg with timeout := t' })).1 =
           cmid_setTo t' (runStep O C (c, {}) ctx run).1) :=
      cmid_runStepMid_timeout O C (c, {}) ctx run t'
    generalize runStepMid O C (c, {}) ctx run (some { c.cfg with timeout := t' }) = x at h12 ⊢
    generalize runStep O C (c, {}) ctx run = y at h12 ⊢
    obtain ⟨xs, xr⟩ := x
    obtain ⟨ys, yr⟩ := y
    obtain ⟨h2, h1⟩ := h12
    dsimp only at h1 h2
    subst h2
    rcases h1 with h1 | h1
    · subst h1
      exact ⟨rfl, Or.inl rfl⟩
    · subst h1
      rw [cmid_setTo_execTail]
      exact ⟨rfl, Or.inr rfl⟩
  · unfold executeMid execute
    rw [if_pos h, if_pos h]
    cases run with
    | none => exact ⟨rfl, Or.inl rfl⟩
    | some sc =>
      dsimp only
      cases sc.act <;> exact ⟨rfl, Or.inr rfl⟩

/-! ### what nothing but the invocation itself changes -/

/-- `s'` has the settings and the run observation of `s`; under ForceOpen it has no new Closed notification, under
    ForcedClosed no new Opened notification -/
def cmid_Fr (s s' : St σo σc) : Prop :=
  s'.1.cfg = s.1.cfg ∧ s'.2.runSeen = s.2.runSeen ∧
  (s.1.cfg.forceOpen = true → ∀ t, Emit.closed t ∈ s'.2.emits → Emit.closed t ∈ s.2.emits) ∧
  (s.1.cfg.forcedClosed = true → ∀ t, Emit.opened t ∈ s'.2.emits → Emit.opened t ∈ s.2.emits)

theorem cmid_Fr_refl (s : St σo σc) : cmid_Fr s s := ⟨rfl, rfl, fun _ _ h => h, fun _ _ h => h⟩

theorem cmid_Fr_trans {s s' s'' : St σo σc} (h : cmid_Fr s s') (h' : cmid_Fr s' s'') : cmid_Fr s s'' := by
  obtain ⟨a, b, c, d⟩ := h
  obtain ⟨a', b', c', d'⟩ := h'
  refine ⟨a'.trans a, b'.trans b, fun hf t ht => c hf t (c' (by rw [a]; exact hf) t ht),
    fun hf t ht => d hf t (d' (by rw [a]; exact hf) t ht)⟩

theorem cmid_Fr_of_eq {s s' : St σo σc} (h1 : s'.1.cfg = s.1.cfg) (h2 : s'.2.runSeen = s.2.runSeen)
    (h3 : s'.2.emits = s.2.emits) : cmid_Fr s s' :=
  ⟨h1, h2, fun _ _ h => h3 ▸ h, fun _ _ h => h3 ▸ h⟩

theorem cmid_Fr_now (s : St σo σc) : cmid_Fr s (now s).2 := cmid_Fr_of_eq rfl rfl rfl

theorem cmid_Fr_emitRun (s : St σo σc) (k : Kind) (t d : Int) : cmid_Fr s (emitRun O C s k t d) := by
  refine ⟨rfl, rfl, fun _ t' h => ?_, fun _ t' h => ?_⟩
  · have h' : Emit.closed t' ∈ s.2.emits ++ [Emit.run k t d] := h
    simpa using h'
  · have h' : Emit.opened t' ∈ s.2.emits ++ [Emit.run k t d] := h
    simpa using h'

theorem cmid_Fr_emitFb (s : St σo σc) (k : FbKind) (t d : Int) : cmid_Fr s (emitFb s k t d) := by
  refine ⟨rfl, rfl, fun _ t' h => ?_, fun _ t' h => ?_⟩
  · have h' : Emit.closed t' ∈ s.2.emits ++ [Emit.fb k t d] := h
    simpa using h'
  · have h' : Emit.opened t' ∈ s.2.emits ++ [Emit.fb k t d] := h
    simpa using h'

theorem cmid_Fr_openCircuit (s : St σo σc) (t : Int) : cmid_Fr s (openCircuit O C s t) := by
  unfold openCircuit
  split
  · exact cmid_Fr_refl s
  · rename_i hfc
    split
    · exact cmid_Fr_refl s
    · refine ⟨rfl, rfl, fun _ t' h => ?_, fun hf => absurd hf hfc⟩
      have h' : Emit.closed t' ∈ s.2.emits ++ [Emit.opened t] := h
      simpa using h'

theorem cmid_Fr_attemptToOpen (s : St σo σc) (t : Int) : cmid_Fr s (attemptToOpen O C s t) := by
  unfold attemptToOpen
  split
  · exact cmid_Fr_refl s
  · split
    · exact cmid_Fr_refl s
    · generalize O.shouldOpen s.1.opener t = p
      obtain ⟨o, ans⟩ := p
      cases ans
      · exact cmid_Fr_of_eq rfl rfl rfl
      · exact cmid_Fr_trans (s' := ({ s.1 with opener := o }, s.2)) (cmid_Fr_of_eq rfl rfl rfl)
          (cmid_Fr_openCircuit O C ({ s.1 with opener := o }, s.2) t)

theorem cmid_Fr_closeCircuit (s : St σo σc) (t : Int) (force : Bool) : cmid_Fr s (closeCircuit O C s t force) := by
  unfold closeCircuit
  split
  · exact cmid_Fr_refl s
  · split
    · exact cmid_Fr_refl s
    · rename_i hfo
      have key : ∀ c : σc, cmid_Fr s
          ({ s.1 with closer := C.onClosed c t, opener := O.onClosed s.1.opener t, isOpen := false },
            { s.2 with emits := s.2.emits ++ [.closed t] }) := by
        intro c
        refine ⟨rfl, rfl, fun hf => absurd hf hfo, fun _ t' h => ?_⟩
        have h' : Emit.opened t' ∈ s.2.emits ++ [Emit.closed t] := h
        simpa using h'
      cases force
      · generalize C.shouldClose s.1.closer t = p
        obtain ⟨c, a⟩ := p
        cases a
        · exact cmid_Fr_of_eq rfl rfl rfl
        · exact key c
      · exact key s.1.closer

theorem cmid_Fr_ite (b : Prop) [Decidable b] (s x y : St σo σc) (hx : cmid_Fr s x) (hy : cmid_Fr s y) :
    cmid_Fr s (if b then x else y) := by
  split
  · exact hx
  · exact hy

theorem cmid_Fr_tail (s : St σo σc) (ctx : CallerCtx) (sc : Script) (ret : Option ErrV)
    (start toAtStart doneT total : Int) : cmid_Fr s (cmid_tail O C s ctx sc ret start toAtStart doneT total) := by
  have ha : ∀ k, cmid_Fr s (if (!isOpenEff (emitRun O C s k doneT total).1) = true
      then attemptToOpen O C (emitRun O C s k doneT total) doneT else emitRun O C s k doneT total) := fun k =>
    cmid_Fr_ite _ _ _ _ (cmid_Fr_trans (cmid_Fr_emitRun O C s k doneT total) (cmid_Fr_attemptToOpen O C _ doneT))
      (cmid_Fr_emitRun O C s k doneT total)
  unfold cmid_tail
  apply cmid_Fr_ite
  · exact cmid_Fr_emitRun O C s _ doneT total
  apply cmid_Fr_ite
  · exact ha _
  apply cmid_Fr_ite
  · exact cmid_Fr_emitRun O C s _ doneT total
  apply cmid_Fr_ite
  · exact ha _
  apply cmid_Fr_ite
  · exact cmid_Fr_trans (cmid_Fr_emitRun O C s _ doneT total) (cmid_Fr_closeCircuit O C _ doneT false)
  · exact cmid_Fr_emitRun O C s _ doneT total

theorem cmid_Fr_classifyAt (s : St σo σc) (ctx : CallerCtx) (sc : Script) (ret : Option ErrV) (start toAtStart : Int) :
    cmid_Fr s (classifyAt O C s ctx sc ret start toAtStart) := by
  rw [cmid_classifyAt_tail]
  exact cmid_Fr_trans (s' := (now (now s).2).2) (cmid_Fr_of_eq rfl rfl rfl) (cmid_Fr_tail O C _ ctx sc ret start toAtStart _ _)

theorem cmid_Fr_fbReject (s : St σo σc) : cmid_Fr s (cmid_fbReject s) := by
  unfold cmid_fbReject
  exact cmid_Fr_trans (s' := (now s).2) (cmid_Fr_now s)
    (cmid_Fr_trans (cmid_Fr_emitFb (now s).2 .reject (now s).1 0) (cmid_Fr_of_eq rfl rfl rfl))

theorem cmid_Fr_fbBody (s : St σo σc) (seen : Bool) (ctx : CallerCtx) (runSc : Option Script) (err : ErrV)
    (sc : Script) : cmid_Fr s (cmid_fbBody s seen ctx runSc err sc).1 := by
  unfold cmid_fbBody
  cases hact : sc.act
  · dsimp only
    generalize actValue sc _ = r
    cases r
    · exact cmid_Fr_trans (cmid_Fr_trans (cmid_Fr_of_eq rfl rfl rfl) (cmid_Fr_emitFb _ .success _ _)) (cmid_Fr_of_eq rfl rfl rfl)
    · exact cmid_Fr_trans (cmid_Fr_trans (cmid_Fr_of_eq rfl rfl rfl) (cmid_Fr_emitFb _ .failure _ _)) (cmid_Fr_of_eq rfl rfl rfl)
  · dsimp only
    generalize actValue sc _ = r
    cases r
    · exact cmid_Fr_trans (cmid_Fr_trans (cmid_Fr_of_eq rfl rfl rfl) (cmid_Fr_emitFb _ .success _ _)) (cmid_Fr_of_eq rfl rfl rfl)
    · exact cmid_Fr_trans (cmid_Fr_trans (cmid_Fr_of_eq rfl rfl rfl) (cmid_Fr_emitFb _ .failure _ _)) (cmid_Fr_of_eq rfl rfl rfl)
  · exact cmid_Fr_of_eq rfl rfl rfl

theorem cmid_Fr_fallbackStep (s : St σo σc) (ctx : CallerCtx) (runSc : Option Script) (err : ErrV)
    (fb : Option Script) : cmid_Fr s (fallbackStep s ctx runSc err fb).1 := by
  cases fb with
  | none => exact cmid_Fr_refl s
  | some sc =>
    rw [cmid_fallbackStep_some]
    split
    · exact cmid_Fr_refl s
    · split
      · exact cmid_Fr_trans (s' := ({ s.1 with concFb := s.1.concFb + 1 }, s.2)) (cmid_Fr_of_eq rfl rfl rfl)
          (cmid_Fr_fbReject _)
      · exact cmid_Fr_trans (s' := ({ s.1 with concFb := s.1.concFb + 1 }, s.2)) (cmid_Fr_of_eq rfl rfl rfl)
          (cmid_Fr_fbBody _ _ ctx runSc err sc)


/-! ### the two paths of a call: the function ran, or it did not -/

/-- the run function was not invoked between `s` and `r` -/
def cmid_NotRan (s r : St σo σc) : Prop := r.2.runSeen = none ∧ r.1.cfg = s.1.cfg

/-- the run function was invoked between `s` and `r`, no event before it, the settings replaced by `m` -/
def cmid_Ran (m : LiveCfg) (s r : St σo σc) : Prop :=
  ∃ X : St σo σc, X.1.cfg = m ∧ X.2.runSeen.isSome = true ∧ X.2.emits = s.2.emits ∧ cmid_Fr X r

theorem cmid_NotRan_Fr {s r r' : St σo σc} (h : cmid_NotRan s r) (f : cmid_Fr r r') : cmid_NotRan s r' :=
  ⟨f.2.1.trans h.1, f.1.trans h.2⟩

theorem cmid_Ran_Fr {m : LiveCfg} {s r r' : St σo σc} (h : cmid_Ran m s r) (f : cmid_Fr r r') : cmid_Ran m s r' := by
  obtain ⟨X, a, b, c, d⟩ := h
  exact ⟨X, a, b, c, cmid_Fr_trans d f⟩

theorem cmid_runBody_Ran (s : St σo σc) (ctx : CallerCtx) (sc : Script) (start : Int) (m : LiveCfg) :
    cmid_Ran m s (cmid_runBody O C s ctx sc start (some m)).1 := by
  unfold cmid_runBody
  cases sc.act
  · exact ⟨cmid_invoke s ctx sc start (some m), rfl, rfl, rfl,
      cmid_Fr_trans (cmid_Fr_classifyAt O C _ ctx sc _ start _) (cmid_Fr_of_eq rfl rfl rfl)⟩
  · exact ⟨cmid_invoke s ctx sc start (some m), rfl, rfl, rfl,
      cmid_Fr_trans (cmid_Fr_classifyAt O C _ ctx sc _ start _) (cmid_Fr_of_eq rfl rfl rfl)⟩
  · exact ⟨cmid_invoke s ctx sc start (some m), rfl, rfl, rfl, cmid_Fr_of_eq rfl rfl rfl⟩

theorem cmid_runStepMid_cases (s : St σo σc) (ctx : CallerCtx) (run : Option Script) (m : LiveCfg)
    (hs : s.2.runSeen = none) :
    cmid_NotRan s (runStepMid O C s ctx run (some m)).1 ∨ cmid_Ran m s (runStepMid O C s ctx run (some m)).1 := by
  cases run with
  | none => exact Or.inl ⟨hs, rfl⟩
  | some sc =>
    rw [cmid_runStepMid_some]
    dsimp only
    obtain ⟨hc, ho⟩ := cmid_allowNewRun_frame C (now s).2 s.1.clock
    generalize allowNewRun C (now s).2 s.1.clock = p at hc ho ⊢
    obtain ⟨⟨pc, po⟩, pa⟩ := p
    dsimp only at hc ho ⊢
    have hc' : pc.cfg = s.1.cfg := hc
    have hr : po.runSeen = none := by rw [ho]; exact hs
    have he : po.emits = s.2.emits := by rw [ho]; rfl
    split
    · exact Or.inl ⟨hr, hc'⟩
    · split
      · exact Or.inl ⟨hr, hc'⟩
      · split
        · exact Or.inl ⟨hr, hc'⟩
        · right
          obtain ⟨X, a, b, c, d⟩ := cmid_runBody_Ran O C
            (({ pc with opener := (O.prevent pc.opener s.1.clock).1, conc := pc.conc + 1 }, po) : St σo σc)
            ctx sc s.1.clock m
          exact ⟨X, a, b, c.trans he, d⟩

theorem cmid_execTail_Fr (p : St σo σc × Res) (ctx : CallerCtx) (run fb : Option Script) :
    cmid_Fr p.1 ((cmid_execTail p ctx run fb).1, (cmid_execTail p ctx run fb).2.1) := by
  obtain ⟨s, r⟩ := p
  unfold cmid_execTail
  cases r with
  | ret e =>
    cases e with
    | none => exact cmid_Fr_refl s
    | some e =>
      dsimp only
      split
      · exact cmid_Fr_refl s
      · exact cmid_Fr_fallbackStep s ctx run e fb
  | panic v => exact cmid_Fr_refl s
  | nilFunc => exact cmid_Fr_refl s

theorem cmid_executeMid_cases (c : Circ σo σc) (ctx : CallerCtx) (run fb : Option Script) (m : LiveCfg)
    (hen : c.cfg.disabled = false) :
    cmid_NotRan ((c, {}) : St σo σc)
        ((executeMid O C c ctx run fb (some m)).1, (executeMid O C c ctx run fb (some m)).2.1) ∨
      cmid_Ran m ((c, {}) : St σo σc)
        ((executeMid O C c ctx run fb (some m)).1, (executeMid O C c ctx run fb (some m)).2.1) := by
  rw [cmid_executeMid_enabled O C c ctx run fb _ hen]
  have f := cmid_execTail_Fr (runStepMid O C (c, {}) ctx run (some m)) ctx run fb
  rcases cmid_runStepMid_cases O C ((c, {}) : St σo σc) ctx run m rfl with h | h
  · exact Or.inl (cmid_NotRan_Fr h f)
  · exact Or.inr (cmid_Ran_Fr h f)

theorem cmid_forceOpen_never_closes (c : Circ σo σc) (ctx : CallerCtx) (run fb : Option Script) (m : LiveCfg)
    (hen : c.cfg.disabled = false) (hfo : m.forceOpen = true)
    (hseen : (executeMid O C c ctx run fb (some m)).2.1.runSeen.isSome = true) (t : Int) :
    Emit.closed t ∉ (executeMid O C c ctx run fb (some m)).2.1.emits := by
  rcases cmid_executeMid_cases O C c ctx run fb m hen with h | h
  · have h1 : (executeMid O C c ctx run fb (some m)).2.1.runSeen = none := h.1
    rw [h1] at hseen
    exact absurd hseen (by decide)
  · obtain ⟨X, a, _, e, f⟩ := h
    intro hmem
    have := f.2.2.1 (by rw [a]; exact hfo) t hmem
    rw [e] at this
    exact absurd this (by simp)

theorem cmid_forcedClosed_never_opens (c : Circ σo σc) (ctx : CallerCtx) (run fb : Option Script) (m : LiveCfg)
    (hen : c.cfg.disabled = false) (hfc : m.forcedClosed = true)
    (hseen : (executeMid O C c ctx run fb (some m)).2.1.runSeen.isSome = true) (t : Int) :
    Emit.opened t ∉ (executeMid O C c ctx run fb (some m)).2.1.emits := by
  rcases cmid_executeMid_cases O C c ctx run fb m hen with h | h
  · have h1 : (executeMid O C c ctx run fb (some m)).2.1.runSeen = none := h.1
    rw [h1] at hseen
    exact absurd hseen (by decide)
  · obtain ⟨X, a, _, e, f⟩ := h
    intro hmem
    have := f.2.2.2 (by rw [a]; exact hfc) t hmem
    rw [e] at this
    exact absurd this (by simp)

theorem cmid_settings_take_effect (c : Circ σo σc) (ctx : CallerCtx) (run fb : Option Script) (m : LiveCfg)
    (hen : c.cfg.disabled = false) :
    (executeMid O C c ctx run fb (some m)).1.cfg =
      (if (executeMid O C c ctx run fb (some m)).2.1.runSeen.isSome then m else c.cfg) := by
  rcases cmid_executeMid_cases O C c ctx run fb m hen with h | h
  · have h1 : (executeMid O C c ctx run fb (some m)).2.1.runSeen = none := h.1
    rw [h1]
    exact h.2
  · obtain ⟨X, a, b, _, f⟩ := h
    have h1 : (executeMid O C c ctx run fb (some m)).2.1.runSeen = X.2.runSeen := f.2.1
    rw [h1, b, if_pos rfl]
    exact f.1.trans a


end
end CM

import CircuitModel.Conc.GoWrap
namespace CM.Conc.GoWrap
end CM.Conc.GoWrap

import CircuitModel.Conc.GoWrap
namespace CM.Conc.GoWrap

/-- where the function's outcome currently is -/
def Phase (s : State) : Prop :=
  -- P0: not delivered yet
  (s.workerDone = false ∧ s.resCh = none ∧ s.panCh = none ∧ s.lost = [] ∧ s.waiterDone = false ∧
    (s.caller = none ∨ s.caller = some .ctxErr)) ∨
  -- P1: in its channel
  (s.workerDone = true ∧ s.lost = [] ∧ s.waiterDone = false ∧ (s.caller = none ∨ s.caller = some .ctxErr) ∧
    ((∃ e, s.sc.outcome = .ret e ∧ s.resCh = some e ∧ s.panCh = none) ∨
     (∃ v, s.sc.outcome = .panic v ∧ s.panCh = some v ∧ s.resCh = none))) ∨
  -- P2: taken by the caller
  (s.workerDone = true ∧ s.resCh = none ∧ s.panCh = none ∧ s.lost = [] ∧ s.waiterDone = false ∧
    s.caller = some (.fn s.sc.outcome)) ∨
  -- P3: taken by the waiter
  (s.workerDone = true ∧ s.resCh = none ∧ s.panCh = none ∧ s.lost = [s.sc.outcome] ∧ s.waiterDone = true ∧
    s.waiterSpawned = true)

/-- the inductive invariant of the reachable states of scenario `sc` -/
structure Inv (sc : Scenario) (s : State) : Prop where
  sc_eq : s.sc = sc
  wd_fin : s.workerDone = true → s.fnFinished = true
  ctxErr : s.caller = some .ctxErr → s.ctxDone = true ∧ s.waiterSpawned = s.sc.lostErrors
  spawn : s.waiterSpawned = true → s.sc.lostErrors = true ∧ s.caller = some .ctxErr
  phase : Phase s

theorem inv_init (sc : Scenario) : Inv sc (init sc) := by
  refine ⟨rfl, ?_, ?_, ?_, ?_⟩ <;> simp [init, Phase]

theorem inv_step {sc : Scenario} {s s' : State} {a : Actor} (hi : Inv sc s) (h : step s a = some s') :
    Inv sc s' := by
  obtain ⟨h1, h2, h3, h4, h5⟩ := hi
  cases a
  case envCtx =>
    simp only [step] at h
    split at h
    · cases h
      exact ⟨h1, h2, fun hc => ⟨rfl, (h3 hc).2⟩, h4, h5⟩
    · cases h
  case envFn =>
    simp only [step] at h
    split at h
    · cases h
      exact ⟨h1, fun _ => rfl, h3, h4, h5⟩
    · cases h
  case worker =>
    simp only [step] at h
    split at h
    next hc =>
      have hwd : s.workerDone = false := by simpa using hc.2
      have hp0 : s.resCh = none ∧ s.panCh = none ∧ s.lost = [] ∧ s.waiterDone = false ∧
          (s.caller = none ∨ s.caller = some .ctxErr) := by
        rcases h5 with h | h | h | h
        · exact h.2
        all_goals (rw [hwd] at h; exact absurd h.1 (by simp))
      split at h
      next e ho =>
        cases h
        refine ⟨h1, fun _ => hc.1, h3, h4, ?_⟩
        exact Or.inr (Or.inl ⟨rfl, hp0.2.2.1, hp0.2.2.2.1, hp0.2.2.2.2, Or.inl ⟨e, ho, rfl, hp0.2.1⟩⟩)
      next v ho =>
        cases h
        refine ⟨h1, fun _ => hc.1, h3, h4, ?_⟩
        exact Or.inr (Or.inl ⟨rfl, hp0.2.2.1, hp0.2.2.2.1, hp0.2.2.2.2, Or.inr ⟨v, ho, rfl, hp0.1⟩⟩)
    · cases h
  case callerCtx =>
    simp only [step] at h
    split at h
    next hc =>
      cases h
      have hcn : s.caller = none := by simpa using hc.1
      refine ⟨h1, h2, fun _ => ⟨hc.2, rfl⟩, fun hw => ⟨hw, rfl⟩, ?_⟩
      rcases h5 with h | h | h | h
      · exact Or.inl ⟨h.1, h.2.1, h.2.2.1, h.2.2.2.1, h.2.2.2.2.1, Or.inr rfl⟩
      · exact Or.inr (Or.inl ⟨h.1, h.2.1, h.2.2.1, Or.inr rfl, h.2.2.2.2⟩)
      · rw [hcn] at h; exact absurd h.2.2.2.2.2 (by simp)
      · have := (h4 h.2.2.2.2.2).2; rw [hcn] at this; exact absurd this (by simp)
    · cases h
  case callerRes =>
    simp only [step] at h
    split at h
    next e hcn hr =>
      cases h
      refine ⟨h1, h2, fun hx => by simp at hx, ?_, ?_⟩
      · intro hw
        have := (h4 hw).2; rw [hcn] at this; exact absurd this (by simp)
      · rcases h5 with h | h | h | h
        · rw [hr] at h; exact absurd h.2.1 (by simp)
        · rcases h.2.2.2.2 with ⟨e', ho, hr', hp⟩ | ⟨v, ho, hp, hr'⟩
          · rw [hr] at hr'; cases hr'
            exact Or.inr (Or.inr (Or.inl ⟨h.1, rfl, hp, h.2.1, h.2.2.1, by simp [ho]⟩))
          · rw [hr] at hr'; cases hr'
        · rw [hr] at h; exact absurd h.2.1 (by simp)
        · rw [hr] at h; exact absurd h.2.1 (by simp)
    · cases h
  case callerPan =>
    simp only [step] at h
    split at h
    next v hcn hp =>
      cases h
      refine ⟨h1, h2, fun hx => by simp at hx, ?_, ?_⟩
      · intro hw
        have := (h4 hw).2; rw [hcn] at this; exact absurd this (by simp)
      · rcases h5 with h | h | h | h
        · rw [hp] at h; exact absurd h.2.2.1 (by simp)
        · rcases h.2.2.2.2 with ⟨e, ho, hr', hp'⟩ | ⟨v', ho, hp', hr'⟩
          · rw [hp] at hp'; cases hp'
          · rw [hp] at hp'; cases hp'
            exact Or.inr (Or.inr (Or.inl ⟨h.1, hr', rfl, h.2.1, h.2.2.1, by simp [ho]⟩))
        · rw [hp] at h; exact absurd h.2.2.1 (by simp)
        · rw [hp] at h; exact absurd h.2.2.1 (by simp)
    · cases h
  case waiterRes =>
    simp only [step] at h
    split at h
    next hc =>
      split at h
      next e hr =>
        cases h
        refine ⟨h1, h2, h3, h4, ?_⟩
        rcases h5 with h | h | h | h
        · rw [hr] at h; exact absurd h.2.1 (by simp)
        · rcases h.2.2.2.2 with ⟨e', ho, hr', hp⟩ | ⟨v, ho, hp, hr'⟩
          · rw [hr] at hr'; cases hr'
            exact Or.inr (Or.inr (Or.inr ⟨h.1, rfl, hp, by simp [h.2.1, ho], rfl, hc.1⟩))
          · rw [hr] at hr'; cases hr'
        · rw [hr] at h; exact absurd h.2.1 (by simp)
        · rw [hr] at h; exact absurd h.2.1 (by simp)
      · cases h
    · cases h
  case waiterPan =>
    simp only [step] at h
    split at h
    next hc =>
      split at h
      next v hp =>
        cases h
        refine ⟨h1, h2, h3, h4, ?_⟩
        rcases h5 with h | h | h | h
        · rw [hp] at h; exact absurd h.2.2.1 (by simp)
        · rcases h.2.2.2.2 with ⟨e, ho, hr', hp'⟩ | ⟨v', ho, hp', hr'⟩
          · rw [hp] at hp'; cases hp'
          · rw [hp] at hp'; cases hp'
            exact Or.inr (Or.inr (Or.inr ⟨h.1, hr', rfl, by simp [h.2.1, ho], rfl, hc.1⟩))
        · rw [hp] at h; exact absurd h.2.2.1 (by simp)
        · rw [hp] at h; exact absurd h.2.2.1 (by simp)
      · cases h
    · cases h

theorem inv_run_of {sc : Scenario} (sched : List Actor) : ∀ {s : State}, Inv sc s → Inv sc (run s sched) := by
  induction sched with
  | nil => intro s hi; exact hi
  | cons a rest ih =>
    intro s hi
    simp only [run]
    split
    next s' h => exact ih (inv_step hi h)
    next => exact ih hi

theorem inv_run (sc : Scenario) (sched : List Actor) : Inv sc (run (init sc) sched) :=
  inv_run_of sched (inv_init sc)

/-- the eight facts of quiescence -/
theorem quiescent_iff (s : State) : quiescent s = true ↔ ∀ a, step s a = none := by
  constructor
  · intro h a
    simp only [quiescent, actors, List.all_cons, List.all_nil, Bool.and_true, Bool.and_eq_true,
      Option.isNone_iff_eq_none] at h
    cases a
    · exact h.1
    · exact h.2.1
    · exact h.2.2.1
    · exact h.2.2.2.1
    · exact h.2.2.2.2.1
    · exact h.2.2.2.2.2.1
    · exact h.2.2.2.2.2.2.1
    · exact h.2.2.2.2.2.2.2
  · intro h
    simp [quiescent, actors, h]

theorem worker_done_of_quiescent {s : State} (hq : ∀ a, step s a = none) (hf : s.fnFinished = true) :
    s.workerDone = true := by
  cases hwd : s.workerDone
  · have := hq .worker
    simp only [step, hf, hwd] at this
    cases ho : s.sc.outcome <;> simp [ho] at this
  · rfl

/-- an outcome sitting in its channel is always taken: by the caller if it has not returned yet, else by the
    waiter (which exists as soon as GoLostErrors is configured) -/
theorem in_channel_not_quiescent {sc : Scenario} {s : State} (hi : Inv sc s) (hq : ∀ a, step s a = none)
    (hcfg : s.sc.lostErrors = true ∨ s.waiterSpawned = true)
    (h : s.workerDone = true ∧ s.lost = [] ∧ s.waiterDone = false ∧ (s.caller = none ∨ s.caller = some .ctxErr) ∧
      ((∃ e, s.sc.outcome = .ret e ∧ s.resCh = some e ∧ s.panCh = none) ∨
       (∃ v, s.sc.outcome = .panic v ∧ s.panCh = some v ∧ s.resCh = none))) : False := by
  obtain ⟨_, _, hwd, hc, hch⟩ := h
  rcases hc with hc | hc
  · rcases hch with ⟨e, _, hr, _⟩ | ⟨v, _, hp, _⟩
    · have := hq .callerRes
      simp [step, hc, hr] at this
    · have := hq .callerPan
      simp [step, hc, hp] at this
  · have hws : s.waiterSpawned = true := by
      rcases hcfg with hl | hw
      · rw [(hi.ctxErr hc).2]; exact hl
      · exact hw
    rcases hch with ⟨e, _, hr, _⟩ | ⟨v, _, hp, _⟩
    · have := hq .waiterRes
      simp [step, hws, hwd, hr] at this
    · have := hq .waiterPan
      simp [step, hws, hwd, hp] at this

end CM.Conc.GoWrap

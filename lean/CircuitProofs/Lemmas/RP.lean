/-
  Lemmas/RP.lean — helper lemmas for property C15 (RollingPercentile snapshot refines the history-based spec).
  Core Lean only.
-/
import CircuitModel.Spec.C15
import CircuitProofs.Lemmas.RC
namespace CM
open SpecC15

/-! ### insertion sort -/

theorem insertSorted_perm (x : Int) : ∀ l : List Int, (insertSorted x l).Perm (x :: l)
  | [] => List.Perm.refl _
  | y :: ys => by
    simp only [insertSorted]
    split
    · exact List.Perm.refl _
    · exact ((insertSorted_perm x ys).cons y).trans (List.Perm.swap x y ys)

theorem isort_perm : ∀ l : List Int, (isort l).Perm l
  | [] => List.Perm.refl _
  | x :: xs => (insertSorted_perm x (isort xs)).trans ((isort_perm xs).cons x)

theorem insertSorted_pairwise (x : Int) : ∀ l : List Int, l.Pairwise (· ≤ ·) →
    (insertSorted x l).Pairwise (· ≤ ·)
  | [], _ => by simp [insertSorted]
  | y :: ys, h => by
    simp only [insertSorted]
    split
    · next hxy =>
      refine List.pairwise_cons.mpr ⟨?_, h⟩
      intro z hz
      rcases List.mem_cons.mp hz with rfl | hz
      · exact hxy
      · exact Int.le_trans hxy (List.rel_of_pairwise_cons h hz)
    · next hxy =>
      refine List.pairwise_cons.mpr ⟨?_, insertSorted_pairwise x ys h.tail⟩
      intro z hz
      have hz' := (insertSorted_perm x ys).subset hz
      rcases List.mem_cons.mp hz' with rfl | hz'
      · omega
      · exact List.rel_of_pairwise_cons h hz'

theorem isort_pairwise : ∀ l : List Int, (isort l).Pairwise (· ≤ ·)
  | [] => List.Pairwise.nil
  | x :: xs => insertSorted_pairwise x _ (isort_pairwise xs)

theorem isort_eq_of_perm {l₁ l₂ : List Int} (h : l₁.Perm l₂) : isort l₁ = isort l₂ :=
  List.Perm.eq_of_pairwise (le := (· ≤ ·)) (fun _ _ _ _ h1 h2 => Int.le_antisymm h1 h2)
    (isort_pairwise l₁) (isort_pairwise l₂)
    ((isort_perm l₁).trans (h.trans (isort_perm l₂).symm))

/-! ### one circular buffer -/

/-- slot `s` has received exactly the samples `xs` (oldest first) since it was last cleared -/
structure SlotInv (size : Nat) (s : DSlot) (xs : List Int) : Prop where
  hsize : s.size = size
  hlen : s.arr.length = size
  hcur : 0 < size → s.cur = xs.length
  harr : ∀ i, i < xs.length → xs.length ≤ i + size → s.arr[i % size]? = xs[i]?

theorem SlotInv.new (size : Nat) : SlotInv size (DSlot.new size) [] :=
  ⟨rfl, by simp [DSlot.new], fun _ => rfl, fun i hi => by simp at hi⟩

theorem SlotInv.clear {size : Nat} {s : DSlot} {xs : List Int} (I : SlotInv size s xs) :
    SlotInv size s.clear [] :=
  ⟨I.hsize, I.hlen, fun _ => rfl, fun i hi => by simp at hi⟩

theorem SlotInv.add {size : Nat} {s : DSlot} {xs : List Int} (I : SlotInv size s xs) (d : Int) :
    SlotInv size (s.add d) (xs ++ [d]) := by
  by_cases hz : size = 0
  · have : s.add d = s := by simp only [DSlot.add, I.hsize, hz, if_pos]
    rw [this]
    exact ⟨I.hsize, I.hlen, fun h => by omega, fun i h1 h2 => by omega⟩
  have hpos : 0 < size := by omega
  have hc := I.hcur hpos
  have e : s.add d = { s with cur := s.cur + 1, arr := s.arr.set (s.cur % s.size) d } := by
    simp only [DSlot.add, I.hsize, if_neg hz]
  rw [e]
  refine ⟨I.hsize, by simp only [List.length_set]; exact I.hlen, fun _ => by simp [hc], ?_⟩
  intro i h1 h2
  simp only [List.length_append, List.length_cons, List.length_nil] at h1 h2
  simp only [I.hsize, hc]
  by_cases hi : i = xs.length
  · subst hi
    have hlt : xs.length % size < s.arr.length := by rw [I.hlen]; exact Nat.mod_lt _ hpos
    rw [List.getElem?_set_self hlt]
    simp
  · have hne : xs.length % size ≠ i % size := fun h =>
      mod_ne_of_window (n := size) (a := i) (b := xs.length) (by omega) (by omega) h.symm
    rw [List.getElem?_set_ne hne, I.harr i (by omega) (by omega), List.getElem?_append_left (by omega)]

theorem takeLast_nil {α} (k : Nat) : takeLast k ([] : List α) = [] := by simp [takeLast]

theorem takeLast_length {α} (k : Nat) (l : List α) : (takeLast k l).length ≤ k := by
  simp only [takeLast, List.length_drop]; omega

/-- what `durations` returns is a rotation of the last `size` samples -/
theorem SlotInv.durations_perm {size : Nat} {s : DSlot} {xs : List Int} (I : SlotInv size s xs) :
    s.durations.Perm (takeLast size xs) := by
  by_cases hz : size = 0
  · have : s.durations = [] := by simp [DSlot.durations, I.hsize, hz]
    rw [this]
    have : takeLast size xs = [] := by simp [takeLast, hz]
    rw [this]
  have hpos : 0 < size := by omega
  have hc := I.hcur hpos
  simp only [DSlot.durations, takeLast, I.hsize, hc]
  by_cases hk : xs.length ≤ size
  · have e : s.arr.take (min xs.length size) = xs.drop (xs.length - size) := by
      apply List.ext_getElem?
      intro i
      rw [Nat.min_eq_left hk, Nat.sub_eq_zero_of_le hk, List.drop_zero, List.getElem?_take]
      split
      · next hi =>
        have := I.harr i hi (by omega)
        rwa [Nat.mod_eq_of_lt (by omega)] at this
      · next hi => rw [List.getElem?_eq_none (by omega)]
    rw [e]
  · have hk : size < xs.length := by omega
    have e1 : s.arr.take (min xs.length size) = s.arr := by
      rw [Nat.min_eq_right (by omega), ← I.hlen, List.take_length]
    rw [e1]
    let m := (xs.length - size) % size
    have hm : m < size := Nat.mod_lt _ hpos
    have e2 : xs.drop (xs.length - size) = s.arr.drop m ++ s.arr.take m := by
      apply List.ext_getElem?
      intro j
      rw [List.getElem?_drop]
      by_cases hj : j < size
      · have hq := Nat.div_add_mod (xs.length - size) size
        rw [← I.harr (xs.length - size + j) (by omega) (by omega)]
        by_cases hj2 : j < size - m
        · rw [List.getElem?_append_left (by rw [List.length_drop, I.hlen]; exact hj2),
            List.getElem?_drop]
          congr 1
          have : xs.length - size + j = (m + j) + size * ((xs.length - size) / size) := by
            show _ = ((xs.length - size) % size + j) + _
            omega
          rw [this, Nat.add_mul_mod_self_left, Nat.mod_eq_of_lt (by omega)]
        · rw [List.getElem?_append_right (by rw [List.length_drop, I.hlen]; omega),
            List.length_drop, I.hlen, List.getElem?_take, if_pos (by omega)]
          congr 1
          have : xs.length - size + j = (j - (size - m)) + size * ((xs.length - size) / size + 1) := by
            rw [Nat.mul_add]
            show _ = (j - (size - (xs.length - size) % size)) + _
            omega
          rw [this, Nat.add_mul_mod_self_left, Nat.mod_eq_of_lt (by omega)]
      · rw [List.getElem?_eq_none (by omega), List.getElem?_eq_none]
        simp only [List.length_append, List.length_drop, List.length_take, I.hlen]
        omega
    rw [e2]
    exact (List.perm_append_comm (l₁ := s.arr.take m) (l₂ := s.arr.drop m)).symm.trans
      (by rw [List.take_append_drop]) |>.symm
/-! ### per-bucket sample lists -/

/-- durations (oldest first) of the live samples of the bucket whose *virtual* index (`e + n`) is `v` -/
def vAll (n : Nat) (l : List (Nat × Int)) (v : Nat) : List Int :=
  if v < n then [] else (l.filter (fun x => x.1 = v - n)).map (·.2)

theorem vAll_nil (n v : Nat) : vAll n [] v = [] := by simp [vAll]

theorem vAll_eq_nil {n : Nat} {l : List (Nat × Int)} {v : Nat} (h : ∀ x ∈ l, x.1 + n < v) :
    vAll n l v = [] := by
  unfold vAll
  split
  · rfl
  · rw [List.filter_eq_nil_iff.mpr]
    · rfl
    · intro x hx
      have := h x hx
      simp only [decide_eq_true_eq]; omega

theorem vAll_append_ne {n a v : Nat} (l : List (Nat × Int)) (d : Int) (h : v ≠ a + n) :
    vAll n (l ++ [(a, d)]) v = vAll n l v := by
  unfold vAll
  split
  · rfl
  · have : ¬ a = v - n := by omega
    simp [List.filter_append, this]

theorem vAll_append_self (n a : Nat) (l : List (Nat × Int)) (d : Int) :
    vAll n (l ++ [(a, d)]) (a + n) = vAll n l (a + n) ++ [d] := by
  unfold vAll
  rw [if_neg (by omega), if_neg (by omega), Nat.add_sub_cancel]
  simp [List.filter_append]

/-! ### clearing slots -/

def clr (sl : List DSlot) (i : Nat) : List DSlot :=
  match sl[i]? with
  | some s => sl.set i s.clear
  | none => sl

theorem clearSlot_eq (r : RP) (i : Nat) : r.clearSlot i = { r with slots := clr r.slots i } := by
  unfold RP.clearSlot clr
  cases r.slots[i]? <;> rfl

theorem foldl_clearSlot : ∀ (cs : List Nat) (r : RP),
    cs.foldl RP.clearSlot r = { r with slots := cs.foldl clr r.slots }
  | [], _ => rfl
  | c :: cs, r => by
    rw [List.foldl_cons, List.foldl_cons, foldl_clearSlot cs, clearSlot_eq]

theorem clr_length (sl : List DSlot) (i : Nat) : (clr sl i).length = sl.length := by
  unfold clr
  split
  · exact List.length_set
  · rfl

theorem clr_getElem? (sl : List DSlot) (i j : Nat) :
    (clr sl i)[j]? = if i = j then sl[j]?.map DSlot.clear else sl[j]? := by
  unfold clr
  split
  · next s hs =>
    obtain ⟨hlt, hget⟩ := List.getElem?_eq_some_iff.mp hs
    rw [List.getElem?_set]
    split
    · next hij => subst hij; simp [hlt, hget]
    · rfl
  · next hs =>
    split
    · next hij => subst hij; rw [hs]; rfl
    · rfl

theorem foldl_clr_length : ∀ (cs : List Nat) (sl : List DSlot), (cs.foldl clr sl).length = sl.length
  | [], _ => rfl
  | c :: cs, sl => by rw [List.foldl_cons, foldl_clr_length cs, clr_length]

theorem foldl_clr_range (sl : List DSlot) : ∀ (k j : Nat),
    ((List.range k).foldl clr sl)[j]? = if j < k then sl[j]?.map DSlot.clear else sl[j]?
  | 0, j => by simp
  | k + 1, j => by
    rw [List.range_succ, List.foldl_append, List.foldl_cons, List.foldl_nil, clr_getElem?,
      foldl_clr_range sl k j]
    by_cases h : k = j
    · subst h; rw [if_pos rfl, if_neg (by omega), if_pos (by omega)]
    · rw [if_neg h]
      by_cases h2 : j < k
      · rw [if_pos h2, if_pos (by omega)]
      · rw [if_neg h2, if_neg (by omega)]

/-! ### the ring / history relation -/

/-- the ring `sl` with newest index `L` holds, for the window of `n` buckets ending at `L`, the live samples `l`;
    slots are addressed by virtual index as in `Rel` of Lemmas/RC.lean -/
structure RRel (n size : Nat) (l : List (Nat × Int)) (L : Nat) (sl : List DSlot) : Prop where
  len : sl.length = n
  slot : ∀ v, L < v → v ≤ L + n → ∃ s, sl[v % n]? = some s ∧ SlotInv size s (vAll n l v)
  bound : ∀ x ∈ l, x.1 ≤ L

theorem RRel.new (n size : Nat) (hn : 0 < n) : RRel n size [] 0 (List.replicate n (DSlot.new size)) := by
  refine ⟨by simp, ?_, by simp⟩
  intro v _ _
  refine ⟨DSlot.new size, ?_, by rw [vAll_nil]; exact SlotInv.new size⟩
  rw [List.getElem?_replicate, if_pos (Nat.mod_lt _ hn)]

/-- every slot is empty once the window has moved past all samples -/
theorem RRel.slots_empty {n size : Nat} {l : List (Nat × Int)} {L : Nat} {sl : List DSlot} (hn : 0 < n)
    (R : RRel n size l L sl) (h : ∀ x ∈ l, x.1 + n ≤ L) (i : Nat) (hi : i < n) :
    ∃ s, sl[i]? = some s ∧ SlotInv size s [] := by
  obtain ⟨v, h1, h2, h3⟩ := exists_window_rep L hn hi
  obtain ⟨s, hs, I⟩ := R.slot v h1 h2
  rw [h3] at hs
  rw [vAll_eq_nil (fun x hx => by have := h x hx; omega)] at I
  exact ⟨s, hs, I⟩

/-- one trip of the `Advance` loop -/
theorem RRel.roll_step {n size : Nat} {l : List (Nat × Int)} {L : Nat} {sl : List DSlot}
    (R : RRel n size l L sl) : RRel n size l (L + 1) (clr sl ((L + 1) % n)) := by
  refine ⟨by rw [clr_length, R.len], ?_, fun x hx => by have := R.bound x hx; omega⟩
  intro v h1 h2
  rw [clr_getElem?]
  by_cases hv : v = L + 1 + n
  · subst hv
    obtain ⟨s, hs, I⟩ := R.slot (L + 1) (by omega) (by omega)
    rw [Nat.add_mod_right, if_pos rfl, hs]
    refine ⟨s.clear, rfl, ?_⟩
    rw [vAll_eq_nil (fun x hx => by have := R.bound x hx; omega)]
    exact I.clear
  · have hne : (L + 1) % n ≠ v % n := mod_ne_of_window (by omega) (by omega)
    rw [if_neg hne]
    exact R.slot v (by omega) (by omega)

/-- the whole loop with trip count `k` -/
theorem RRel.loop {n size : Nat} {l : List (Nat × Int)} (hn : 0 < n) (abs : Nat) :
    ∀ (k L : Nat) (sl : List DSlot), RRel n size l L sl → L ≤ abs →
      RRel n size l (min abs (L + k)) ((ringClears n L abs k).foldl clr sl)
  | 0, L, sl, R, h => by
    have : min abs (L + 0) = L := by omega
    rw [this]; exact R
  | k + 1, L, sl, R, h => by
    simp only [ringClears]
    split
    · next hlt =>
      have := RRel.loop hn abs k (L + 1) _ R.roll_step (by omega)
      have e : min abs (L + (k + 1)) = min abs (L + 1 + k) := by omega
      rw [e, List.foldl_cons]; exact this
    · have : min abs (L + (k + 1)) = L := by omega
      rw [this]; exact R

/-- the final `CompareAndSwap(lastAbsVal, absIndex)` -/
theorem RRel.jump {n size : Nat} {l : List (Nat × Int)} {L : Nat} {sl : List DSlot} (hn : 0 < n)
    (R : RRel n size l L sl) (abs : Nat) (h : L = abs ∨ (L ≤ abs ∧ ∀ x ∈ l, x.1 + n ≤ L)) :
    RRel n size l abs sl := by
  rcases h with h | ⟨h1, h2⟩
  · subst h; exact R
  · refine ⟨R.len, ?_, fun x hx => by have := h2 x hx; omega⟩
    intro v hv1 _
    obtain ⟨s, hs, I⟩ := R.slots_empty hn h2 (v % n) (Nat.mod_lt _ hn)
    refine ⟨s, hs, ?_⟩
    rw [vAll_eq_nil (fun x hx => by have := h2 x hx; omega)]
    exact I

/-- `Advance` (as a plan) keeps the relation, moves the newest index and returns the slot of the sample unless the
    sample is before the start or fell out of the window -/
theorem RRel.plan {n size : Nat} {l : List (Nat × Int)} {L : Nat} {sl : List DSlot} (hn : 0 < n)
    (R : RRel n size l L sl) (w d : Int) :
    RRel n size l (ringPlan n w L d).1 ((ringPlan n w L d).2.1.foldl clr sl) ∧
    (ringPlan n w L d).1 = (if d < 0 then L else max (absIdx w d) L) ∧
    (ringPlan n w L d).2.2 = (if d < 0 then none else
      if absIdx w d + n ≤ max (absIdx w d) L then none else some (absIdx w d % n)) := by
  have h0 : ¬ n = 0 := by omega
  by_cases hd : d < 0
  · have e : ringPlan n w L d = (L, [], none) := by simp only [ringPlan, if_neg h0, if_pos hd]
    rw [e, if_pos hd, if_pos hd]; exact ⟨R, rfl, rfl⟩
  simp only [if_neg hd]
  by_cases h1 : absIdx w d = L
  · have e : ringPlan n w L d = (L, [], some (absIdx w d % n)) := by
      simp only [ringPlan, if_neg h0, if_neg hd, if_pos h1]
    rw [e]
    exact ⟨R, by show L = _; omega, by rw [if_neg (by omega)]⟩
  by_cases h2 : absIdx w d < L
  · by_cases h3 : L - absIdx w d ≥ n
    · have e : ringPlan n w L d = (L, [], none) := by
        simp only [ringPlan, if_neg h0, if_neg hd, if_neg h1, if_pos h2, if_pos h3]
      rw [e]
      exact ⟨R, by show L = _; omega, by rw [if_pos (by omega)]⟩
    · have e : ringPlan n w L d = (L, [], some (absIdx w d % n)) := by
        simp only [ringPlan, if_neg h0, if_neg hd, if_neg h1, if_pos h2, if_neg h3]
      rw [e]
      exact ⟨R, by show L = _; omega, by rw [if_neg (by omega)]⟩
  have e : ringPlan n w L d = (absIdx w d, ringClears n L (absIdx w d) n, some (absIdx w d % n)) := by
    simp only [ringPlan, if_neg h0, if_neg hd, if_neg h1, if_neg h2]
  rw [e]
  have R' := RRel.loop hn (absIdx w d) n L sl R (by omega)
  refine ⟨?_, by show absIdx w d = _; omega, by rw [if_neg (by omega)]⟩
  apply R'.jump hn
  by_cases h4 : absIdx w d ≤ L + n
  · left; omega
  · right
    exact ⟨by omega, fun x hx => by have := R.bound x hx; omega⟩

/-- an `AddDuration` that lands inside the window -/
theorem RRel.bump {n size : Nat} {l : List (Nat × Int)} {L : Nat} {sl : List DSlot}
    (R : RRel n size l L sl) (a : Nat) (dur : Int) (h1 : a ≤ L) (h2 : L < a + n) :
    ∃ s, sl[a % n]? = some s ∧ RRel n size (l ++ [(a, dur)]) L (sl.set (a % n) (s.add dur)) := by
  obtain ⟨s, hs, I⟩ := R.slot (a + n) (by omega) (by omega)
  rw [Nat.add_mod_right] at hs
  have hlt : a % n < sl.length := (List.getElem?_eq_some_iff.mp hs).1
  refine ⟨s, hs, by rw [List.length_set]; exact R.len, ?_, ?_⟩
  · intro v hv1 hv2
    by_cases hv : v = a + n
    · subst hv
      rw [Nat.add_mod_right, List.getElem?_set_self hlt, vAll_append_self]
      exact ⟨_, rfl, I.add dur⟩
    · have hne : a % n ≠ v % n := by
        rcases Nat.lt_or_gt_of_ne hv with hlt | hgt
        · have := mod_ne_of_window (n := n) hlt (by omega)
          rw [Nat.add_mod_right] at this
          exact fun e => this e.symm
        · have := mod_ne_of_window (n := n) hgt (by omega)
          rw [Nat.add_mod_right] at this
          exact this
      rw [List.getElem?_set_ne hne, vAll_append_ne l dur hv]
      exact R.slot v hv1 hv2
  · intro x hx
    rcases List.mem_append.mp hx with hx | hx
    · exact R.bound x hx
    · simp only [List.mem_singleton] at hx
      subst hx; exact h1

/-- an `AddDuration` that is older than the window -/
theorem RRel.stale {n size : Nat} {l : List (Nat × Int)} {L : Nat} {sl : List DSlot}
    (R : RRel n size l L sl) (a : Nat) (dur : Int) (h : a + n ≤ L) : RRel n size (l ++ [(a, dur)]) L sl := by
  refine ⟨R.len, ?_, ?_⟩
  · intro v hv1 hv2
    rw [vAll_append_ne l dur (by omega)]
    exact R.slot v hv1 hv2
  · intro x hx
    rcases List.mem_append.mp hx with hx | hx
    · exact R.bound x hx
    · simp only [List.mem_singleton] at hx
      subst hx; show a ≤ L; omega

/-- `Reset` after its `Advance` -/
theorem RRel.clearAll {n size : Nat} {l : List (Nat × Int)} {L : Nat} {sl : List DSlot} (hn : 0 < n)
    (R : RRel n size l L sl) : RRel n size [] L ((List.range n).foldl clr sl) := by
  refine ⟨by rw [foldl_clr_length, R.len], ?_, by simp⟩
  intro v h1 h2
  obtain ⟨s, hs, I⟩ := R.slot v h1 h2
  rw [foldl_clr_range, if_pos (Nat.mod_lt _ hn), hs, vAll_nil]
  exact ⟨s.clear, rfl, I.clear⟩

/-! ### reading the ring: slot order versus window order -/

/-- the slots of the window `L, L-1, …, L-n+1` (as virtual indices `L+n-i`) are all the slots, each once -/
theorem window_perm (n L : Nat) (hn : 0 < n) :
    ((List.range n).map (fun i => (L + n - i) % n)).Perm (List.range n) := by
  rw [List.perm_ext_iff_of_nodup ?_ List.nodup_range]
  · intro a
    simp only [List.mem_map, List.mem_range]
    constructor
    · rintro ⟨i, _, rfl⟩; exact Nat.mod_lt _ hn
    · intro ha
      obtain ⟨v, h1, h2, h3⟩ := exists_window_rep L hn ha
      refine ⟨L + n - v, by omega, ?_⟩
      rw [← h3]; congr 1; omega
  · rw [List.Nodup, List.pairwise_map]
    refine List.Pairwise.imp_of_mem ?_ List.nodup_range
    intro a b ha hb hab
    have ha := List.mem_range.mp ha
    have hb := List.mem_range.mp hb
    rcases Nat.lt_or_gt_of_ne hab with h | h
    · exact fun e => mod_ne_of_window (n := n) (a := L + n - b) (b := L + n - a) (by omega) (by omega) e.symm
    · exact mod_ne_of_window (n := n) (a := L + n - a) (b := L + n - b) (by omega) (by omega)

theorem flatten_map_perm {α β} (a b : α → List β) : ∀ (l : List α), (∀ x ∈ l, (a x).Perm (b x)) →
    (l.map a).flatten.Perm (l.map b).flatten
  | [], _ => List.Perm.refl _
  | x :: l, h => by
    simp only [List.map_cons, List.flatten_cons]
    exact (h x (by simp)).append (flatten_map_perm a b l (fun y hy => h y (by simp [hy])))

theorem flatten_filter_map {α β} (p : α → Bool) (f : α → List β) : ∀ (l : List α),
    ((l.filter p).map f).flatten = (l.map (fun x => if p x then f x else [])).flatten
  | [] => rfl
  | x :: l => by
    cases hp : p x
    · simp [hp, flatten_filter_map p f l]
    · simp [hp, flatten_filter_map p f l]

theorem map_getElem?_range {α β} (f : α → β) (d : β) (l : List α) :
    l.map f = (List.range l.length).map (fun j => (l[j]?.map f).getD d) := by
  apply List.ext_getElem?
  intro j
  rw [List.getElem?_map, List.getElem?_map]
  by_cases hj : j < l.length
  · rw [List.getElem?_range hj, List.getElem?_eq_getElem hj]
    simp only [Option.map_some, List.getElem?_eq_getElem hj, Option.getD_some]
  · rw [List.getElem?_eq_none (by omega), List.getElem?_eq_none (by simp; omega)]; rfl

/-- what `SortedDurations` flattens (slot order) is a permutation of what the specification flattens (window order) -/
theorem RRel.flatten_perm {n size : Nat} {l : List (Nat × Int)} {L : Nat} {sl : List DSlot} (hn : 0 < n)
    (R : RRel n size l L sl) :
    ((sl.map DSlot.durations).flatten).Perm
      ((((List.range n).filter (fun i => i ≤ L)).map
        (fun i => takeLast size ((l.filter (fun x => x.1 = L - i)).map (·.2)))).flatten) := by
  rw [flatten_filter_map, map_getElem?_range DSlot.durations [] sl, R.len]
  refine ((window_perm n L hn).symm.map _).flatten.trans ?_
  rw [List.map_map]
  apply flatten_map_perm
  intro i hi
  have hi := List.mem_range.mp hi
  obtain ⟨s, hs, I⟩ := R.slot (L + n - i) (by omega) (by omega)
  simp only [Function.comp, hs, Option.map_some, Option.getD_some]
  refine I.durations_perm.trans ?_
  unfold vAll
  by_cases h : i ≤ L
  · rw [if_neg (by omega)]
    simp only [h, decide_true, if_true]
    have : L + n - i - n = L - i := by omega
    rw [this]
  · rw [if_pos (by omega), takeLast_nil]
    simp [h]

/-! ### facts about histories (spec level) -/

theorem hi_cons (w : Int) (h : List RPOp) (op : RPOp) :
    hi w (op :: h) = if opTime op < 0 then hi w h else max (absIdx w (opTime op)) (hi w h) := rfl

theorem live_add (w : Int) (h : List RPOp) (dur d : Int) :
    live w (.add dur d :: h) = if d < 0 then live w h else live w h ++ [(absIdx w d, dur)] := rfl
theorem live_snap (w : Int) (h : List RPOp) (d : Int) : live w (.snap d :: h) = live w h := rfl
theorem live_reset (w : Int) (h : List RPOp) (d : Int) : live w (.reset d :: h) = [] := rfl

/-! ### the simulation -/

/-- model state `r` represents history `h` (newest first) -/
structure RInv (n : Nat) (w : Int) (size : Nat) (r : RP) (h : List RPOp) : Prop where
  hn : r.n = n
  hw : r.w = w
  rel : RRel n size (live w h) r.last r.slots
  last : r.last = hi w h

theorem RInv.new (n : Nat) (w : Int) (size : Nat) (hn : 0 < n) : RInv n w size (RP.new n w size) [] :=
  ⟨rfl, rfl, RRel.new n size hn, rfl⟩

theorem advance_eq (r : RP) (d : Int) :
    r.advance d = ({ r with last := (ringPlan r.n r.w r.last d).1,
                            slots := (ringPlan r.n r.w r.last d).2.1.foldl clr r.slots },
                   (ringPlan r.n r.w r.last d).2.2) := by
  unfold RP.advance
  generalize ringPlan r.n r.w r.last d = p
  obtain ⟨a, b, c⟩ := p
  simp only [foldl_clearSlot]

theorem RInv.advance_spec {n : Nat} {w : Int} {size : Nat} {r : RP} {h : List RPOp} (hn : 0 < n)
    (I : RInv n w size r h) (d : Int) :
    (r.advance d).1.n = n ∧ (r.advance d).1.w = w ∧
    RRel n size (live w h) (r.advance d).1.last (r.advance d).1.slots ∧
    (r.advance d).1.last = (if d < 0 then hi w h else max (absIdx w d) (hi w h)) ∧
    (r.advance d).2 = (if d < 0 then none else
      if absIdx w d + n ≤ max (absIdx w d) (hi w h) then none else some (absIdx w d % n)) := by
  obtain ⟨R, hl, hr⟩ := I.rel.plan hn w d
  rw [advance_eq, I.hn, I.hw]
  refine ⟨rfl, rfl, R, ?_, ?_⟩
  · show (ringPlan n w r.last d).1 = _
    rw [hl, I.last]
  · show (ringPlan n w r.last d).2.2 = _
    rw [hr, I.last]

/-- an operation that only presents a time: `SnapshotAt` -/
theorem RInv.time {n : Nat} {w : Int} {size : Nat} {r : RP} {h : List RPOp} (hn : 0 < n)
    (I : RInv n w size r h) (op : RPOp) (hc : live w (op :: h) = live w h) :
    RInv n w size (r.advance (opTime op)).1 (op :: h) := by
  obtain ⟨h1, h2, R, hl, _⟩ := I.advance_spec hn (opTime op)
  exact ⟨h1, h2, by rw [hc]; exact R, by rw [hl, hi_cons]⟩

theorem RInv.reset {n : Nat} {w : Int} {size : Nat} {r : RP} {h : List RPOp} (hn : 0 < n)
    (I : RInv n w size r h) (d : Int) : RInv n w size (r.reset d) (.reset d :: h) := by
  obtain ⟨h1, h2, R, hl, _⟩ := I.advance_spec hn d
  have e : r.reset d = { (r.advance d).1 with
      slots := (List.range (r.advance d).1.n).foldl clr (r.advance d).1.slots } := by
    simp only [RP.reset, foldl_clearSlot]
  rw [e, h1]
  exact ⟨h1, h2, by rw [live_reset]; exact R.clearAll hn, by rw [hi_cons]; exact hl⟩

theorem RInv.add {n : Nat} {w : Int} {size : Nat} {r : RP} {h : List RPOp} (hn : 0 < n)
    (I : RInv n w size r h) (dur d : Int) : RInv n w size (r.add dur d) (.add dur d :: h) := by
  have hlen : ¬ r.slots.length = 0 := by rw [I.rel.len]; omega
  obtain ⟨h1, h2, R, hl, hr⟩ := I.advance_spec hn d
  simp only [RP.add, if_neg hlen]
  generalize r.advance d = p at h1 h2 R hl hr ⊢
  obtain ⟨r1, o⟩ := p
  simp only at h1 h2 R hl hr ⊢
  have hhi : hi w (.add dur d :: h) = if d < 0 then hi w h else max (absIdx w d) (hi w h) := hi_cons w h _
  by_cases hd : d < 0
  · rw [if_pos hd] at hl hr hhi
    subst hr
    exact ⟨h1, h2, by rw [live_add, if_pos hd]; exact R, by rw [hl, hhi]⟩
  · rw [if_neg hd] at hl hr hhi
    by_cases hs : absIdx w d + n ≤ max (absIdx w d) (hi w h)
    · rw [if_pos hs] at hr
      subst hr
      refine ⟨h1, h2, ?_, by rw [hl, hhi]⟩
      rw [live_add, if_neg hd]
      exact R.stale _ _ (by omega)
    · rw [if_neg hs] at hr
      subst hr
      obtain ⟨s, hs', R'⟩ := R.bump (absIdx w d) dur (by omega) (by omega)
      simp only [hs']
      refine ⟨h1, h2, ?_, by show r1.last = _; rw [hl, hhi]⟩
      rw [live_add, if_neg hd]
      exact R'

theorem snapshot_eq (n : Nat) (w : Int) (size : Nat) (h : List RPOp) :
    SpecC15.snapshot n w size h = isort ((((List.range n).filter (fun i => i ≤ hi w h)).map
      (fun i => takeLast size (((live w h).filter (fun x => x.1 = hi w h - i)).map (·.2)))).flatten) := rfl

theorem RInv.snap {n : Nat} {w : Int} {size : Nat} {r : RP} {h : List RPOp} (hn : 0 < n)
    (I : RInv n w size r h) (d : Int) :
    RInv n w size (r.snapshot d).1 (.snap d :: h) ∧
    (r.snapshot d).2 = SpecC15.snapshot n w size (.snap d :: h) := by
  have hlen : ¬ r.slots.length = 0 := by rw [I.rel.len]; omega
  have I' := I.time hn (.snap d) (live_snap w h d)
  have e : r.snapshot d = ((r.advance d).1,
      isort (((r.advance d).1.slots.map DSlot.durations).flatten)) := by
    simp only [RP.snapshot, if_neg hlen]
  rw [e]
  refine ⟨I', ?_⟩
  rw [snapshot_eq, ← I'.last]
  exact isort_eq_of_perm (I'.rel.flatten_perm hn)

theorem RInv.step {n : Nat} {w : Int} {size : Nat} {r : RP} {h : List RPOp} (hn : 0 < n)
    (I : RInv n w size r h) (op : RPOp) :
    RInv n w size (r.step op).1 (op :: h) ∧ (r.step op).2 = out n w size h op := by
  cases op with
  | add dur d => exact ⟨I.add hn dur d, rfl⟩
  | reset d => exact ⟨I.reset hn d, rfl⟩
  | snap d =>
    obtain ⟨I', ho⟩ := I.snap hn d
    refine ⟨I', ?_⟩
    show RPOut.ints (r.snapshot d).2 = RPOut.ints (SpecC15.snapshot n w size (.snap d :: h))
    rw [ho]

/-- the ring model started in a state representing `h` answers as the spec does -/
theorem RInv.run {n : Nat} {w : Int} {size : Nat} (hn : 0 < n) :
    ∀ (ops : List RPOp) (r : RP) (h : List RPOp), RInv n w size r h → r.run ops = runFrom n w size h ops
  | [], _, _, _ => rfl
  | op :: ops, r, h, I => by
    obtain ⟨I', ho⟩ := I.step hn op
    show (r.step op).2 :: RP.run (r.step op).1 ops = out n w size h op :: runFrom n w size (op :: h) ops
    rw [ho, RInv.run hn ops _ _ I']

/-! ### stale samples (spec level) -/

theorem bucketSample_length (w : Int) (size : Nat) (h : List RPOp) (e : Nat) :
    (bucketSample w size h e).length ≤ size := takeLast_length _ _

/-- a sample added to another bucket does not change this bucket's sample -/
theorem bucketSample_add_ne (w : Int) (size : Nat) (h : List RPOp) (dur d : Int) (e : Nat) (hd : ¬ d < 0)
    (hne : absIdx w d ≠ e) : bucketSample w size (.add dur d :: h) e = bucketSample w size h e := by
  unfold bucketSample
  rw [live_add, if_neg hd]
  simp [List.filter_append, hne]

theorem snapshot_add_stale (n : Nat) (w : Int) (size : Nat) (h : List RPOp) (dur d : Int)
    (hstale : d < 0 ∨ absIdx w d + n ≤ hi w h) :
    SpecC15.snapshot n w size (.add dur d :: h) = SpecC15.snapshot n w size h := by
  by_cases hd : d < 0
  · have e1 : hi w (.add dur d :: h) = hi w h := by
      rw [hi_cons]; exact if_pos hd
    have e2 : live w (.add dur d :: h) = live w h := by rw [live_add, if_pos hd]
    simp only [snapshot_eq, e1, e2]
  · have hs : absIdx w d + n ≤ hi w h := by
      rcases hstale with h' | h'
      · exact absurd h' hd
      · exact h'
    have e1 : hi w (.add dur d :: h) = hi w h := by
      rw [hi_cons]
      show (if d < 0 then _ else max (absIdx w d) (hi w h)) = _
      rw [if_neg hd]; omega
    unfold SpecC15.snapshot
    rw [e1]
    congr 2
    apply List.map_congr_left
    intro i hi
    simp only [List.mem_filter, List.mem_range, decide_eq_true_eq] at hi
    exact bucketSample_add_ne w size h dur d _ hd (by omega)

end CM

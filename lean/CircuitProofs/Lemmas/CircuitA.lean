import CircuitModel.CircuitOps
import CircuitModel.Logic
import CircuitProofs.Lemmas.Circuit
namespace CM
open SpecCircuit

/-! ### event filters distribute over append -/
theorem runEvents_append (a b : List Emit) : runEvents (a ++ b) = runEvents a ++ runEvents b := by
  simp [runEvents, List.filterMap_append]
theorem fbEvents_append (a b : List Emit) : fbEvents (a ++ b) = fbEvents a ++ fbEvents b := by
  simp [fbEvents, List.filterMap_append]
theorem notifs_append (a b : List Emit) : notifs (a ++ b) = notifs a ++ notifs b := by
  simp [notifs, List.filterMap_append]

@[simp] theorem runEvents_nil : runEvents [] = [] := rfl
@[simp] theorem fbEvents_nil : fbEvents [] = [] := rfl
@[simp] theorem runEvents_run (k : Kind) (t d : Int) : runEvents [.run k t d] = [(k, t, d)] := rfl
@[simp] theorem runEvents_fb (k : FbKind) (t d : Int) : runEvents [.fb k t d] = [] := rfl
@[simp] theorem runEvents_opened (t : Int) : runEvents [.opened t] = [] := rfl
@[simp] theorem runEvents_closed (t : Int) : runEvents [.closed t] = [] := rfl
@[simp] theorem fbEvents_run (k : Kind) (t d : Int) : fbEvents [.run k t d] = [] := rfl
@[simp] theorem fbEvents_fb (k : FbKind) (t d : Int) : fbEvents [.fb k t d] = [(k, t, d)] := rfl
@[simp] theorem fbEvents_opened (t : Int) : fbEvents [.opened t] = [] := rfl
@[simp] theorem fbEvents_closed (t : Int) : fbEvents [.closed t] = [] := rfl

section
variable {σo σc : Type} (O : OpenerI σo) (C : CloserI σc)

/-- `s'` differs from `s` only in the logic states, the open flag and appended notifications -/
def NExt (s s' : St σo σc) : Prop :=
  s'.1.cfg = s.1.cfg ∧ s'.1.conc = s.1.conc ∧ s'.1.concFb = s.1.concFb ∧ s'.1.clock = s.1.clock ∧
  s'.2.runSeen = s.2.runSeen ∧ s'.2.fbArg = s.2.fbArg ∧
  runEvents s'.2.emits = runEvents s.2.emits ∧ fbEvents s'.2.emits = fbEvents s.2.emits

theorem NExt.refl (s : St σo σc) : NExt s s := by simp [NExt]

theorem openCircuit_ext (s : St σo σc) (t : Int) : NExt s (openCircuit O C s t) := by
  unfold openCircuit
  split
  · exact NExt.refl s
  · split
    · exact NExt.refl s
    · simp [NExt, runEvents_append, fbEvents_append]

theorem attemptToOpen_ext (s : St σo σc) (t : Int) : NExt s (attemptToOpen O C s t) := by
  unfold attemptToOpen
  split
  · exact NExt.refl s
  · split
    · exact NExt.refl s
    · simp only []
      split
      · have h := openCircuit_ext O C ({ s.1 with opener := (O.shouldOpen s.1.opener t).1 }, s.2) t
        simpa [NExt] using h
      · simp [NExt]

theorem closeCircuit_ext (s : St σo σc) (t : Int) (force : Bool) : NExt s (closeCircuit O C s t force) := by
  unfold closeCircuit
  split
  · exact NExt.refl s
  · split
    · exact NExt.refl s
    · cases force
      · by_cases h : (C.shouldClose s.1.closer t).2 = true <;> simp [NExt, h, runEvents_append, fbEvents_append]
      · simp [NExt, runEvents_append, fbEvents_append]

def isBadO : Option ErrV → Bool
  | some e => e.isBad
  | none => false

def ieiO (iei : IEI) : Option CtxErr → Bool
  | some e => iei.verdict e
  | none => false

def interruptCond (cfg : LiveCfg) (ctx : CallerCtx) (sc : Script) (ret : Option ErrV) : Bool :=
  ret.isSome && (ctxErrAfter ctx sc).isSome && !cfg.ignoreInterrupts && ieiO cfg.iei (ctxErrAfter ctx sc)

/-- the kind `classify` reports, as a function of the configuration and the clock readings -/
def classKind (cfg : LiveCfg) (ctx : CallerCtx) (sc : Script) (ret : Option ErrV) (start doneT : Int) : Kind :=
  if isBadO ret then .badRequest
  else if cfg.timeout > 0 ∧ start + cfg.timeout < doneT then .timeout
  else if interruptCond cfg ctx sc ret then .interrupt
  else if ret.isSome then .failure else .success

/-- `classify` after its two clock readings -/
def classifyTail (s : St σo σc) (ctx : CallerCtx) (sc : Script) (ret : Option ErrV) (start doneT total : Int) : St σo σc :=
  if isBadO ret then emitRun O C s .badRequest doneT total
  else if s.1.cfg.timeout > 0 ∧ start + s.1.cfg.timeout < doneT then
    let s := emitRun O C s .timeout doneT total
    if !isOpenEff s.1 then attemptToOpen O C s doneT else s
  else if interruptCond s.1.cfg ctx sc ret then emitRun O C s .interrupt doneT total
  else if ret.isSome then
    let s := emitRun O C s .failure doneT total
    if !isOpenEff s.1 then attemptToOpen O C s doneT else s
  else
    let s := emitRun O C s .success doneT total
    if isOpenEff s.1 then closeCircuit O C s doneT false else s

theorem classify_eq (s : St σo σc) (ctx : CallerCtx) (sc : Script) (ret : Option ErrV) (start : Int) :
    classify O C s ctx sc ret start =
      classifyTail O C (now (now s).2).2 ctx sc ret start (s.1.clock + 1) (s.1.clock - start) := rfl

/-- what one run event does to the observable part of the state -/
def RExt (s s' : St σo σc) (k : Kind) (t d : Int) : Prop :=
  s'.1.cfg = s.1.cfg ∧ s'.1.conc = s.1.conc ∧ s'.1.concFb = s.1.concFb ∧ s'.1.clock = s.1.clock ∧
  s'.2.runSeen = s.2.runSeen ∧ s'.2.fbArg = s.2.fbArg ∧
  runEvents s'.2.emits = runEvents s.2.emits ++ [(k, t, d)] ∧ fbEvents s'.2.emits = fbEvents s.2.emits

theorem emitRun_ext (s : St σo σc) (k : Kind) (t d : Int) : RExt s (emitRun O C s k t d) k t d := by
  simp [RExt, emitRun, runEvents_append, fbEvents_append]

theorem RExt.trans_n {s s' s'' : St σo σc} {k t d} (h : RExt s s' k t d) (h' : NExt s' s'') : RExt s s'' k t d := by
  obtain ⟨a1, a2, a3, a4, a5, a6, a7, a8⟩ := h
  obtain ⟨b1, b2, b3, b4, b5, b6, b7, b8⟩ := h'
  exact ⟨b1.trans a1, b2.trans a2, b3.trans a3, b4.trans a4, b5.trans a5, b6.trans a6, b7.trans a7, b8.trans a8⟩

theorem ite_attempt_ext (b : Bool) (s : St σo σc) (t : Int) :
    NExt s (if b = true then attemptToOpen O C s t else s) := by
  cases b
  · exact NExt.refl s
  · exact attemptToOpen_ext O C s t

theorem ite_close_ext (b : Bool) (s : St σo σc) (t : Int) :
    NExt s (if b = true then closeCircuit O C s t false else s) := by
  cases b
  · exact NExt.refl s
  · exact closeCircuit_ext O C s t false

theorem classifyTail_ext (s : St σo σc) (ctx : CallerCtx) (sc : Script) (ret : Option ErrV) (start doneT total : Int) :
    RExt s (classifyTail O C s ctx sc ret start doneT total) (classKind s.1.cfg ctx sc ret start doneT) doneT total := by
  unfold classifyTail classKind
  by_cases h1 : isBadO ret = true
  · simp only [h1, if_true]
    exact emitRun_ext O C _ _ _ _
  simp only [h1]
  by_cases h2 : s.1.cfg.timeout > 0 ∧ start + s.1.cfg.timeout < doneT
  · simp only [h2, and_self, if_true]
    exact (emitRun_ext O C _ _ _ _).trans_n (ite_attempt_ext O C _ _ _)
  simp only [h2, if_false]
  by_cases h3 : interruptCond s.1.cfg ctx sc ret = true
  · simp only [h3, if_true]
    exact emitRun_ext O C _ _ _ _
  simp only [h3]
  by_cases h4 : ret.isSome = true
  · simp only [h4, if_true]
    exact (emitRun_ext O C _ _ _ _).trans_n (ite_attempt_ext O C _ _ _)
  simp only [h4]
  exact (emitRun_ext O C _ _ _ _).trans_n (ite_close_ext O C _ _ _)

/-- `runStep` after admission and Prevent: concurrency gate, invocation, classification -/
def runAdmitted (s : St σo σc) (ctx : CallerCtx) (sc : Script) (start : Int) : St σo σc × Res :=
  let s : St σo σc := ({ s.1 with conc := s.1.conc + 1 }, s.2)
  if s.1.cfg.maxConc ≥ 0 ∧ s.1.conc > s.1.cfg.maxConc then
    let s := emitRun O C s .reject start 0
    (({ s.1 with conc := s.1.conc - 1 }, s.2), .ret (some .concLimit))
  else
    let seen := derivedSeen s.1.cfg ctx start
    let derived := !seen.sameAsCaller
    let s : St σo σc := ({ s.1 with clock := s.1.clock + sc.adv }, { s.2 with runSeen := some seen })
    let after := ctxErrAfter ctx sc
    match sc.act with
    | .panic v =>
      (({ s.1 with conc := s.1.conc - 1 }, { s.2 with released := if derived then some true else none }), .panic v)
    | _ =>
      let ret := actValue sc after
      let s := classify O C s ctx sc ret start
      (({ s.1 with conc := s.1.conc - 1 }, { s.2 with released := if derived then some true else none }), .ret ret)

theorem runStep_some (s : St σo σc) (ctx : CallerCtx) (sc : Script) :
    runStep O C s ctx (some sc) =
      if !(allowNewRun C (now s).2 s.1.clock).2 then
        (emitRun O C (allowNewRun C (now s).2 s.1.clock).1 .shortCircuit s.1.clock 0, .ret (some .circuitOpen))
      else if (O.prevent (allowNewRun C (now s).2 s.1.clock).1.1.opener s.1.clock).2 then
        (({ (allowNewRun C (now s).2 s.1.clock).1.1 with
              opener := (O.prevent (allowNewRun C (now s).2 s.1.clock).1.1.opener s.1.clock).1 },
          (allowNewRun C (now s).2 s.1.clock).1.2), .ret (some .circuitOpen))
      else
        runAdmitted O C ({ (allowNewRun C (now s).2 s.1.clock).1.1 with
              opener := (O.prevent (allowNewRun C (now s).2 s.1.clock).1.1.opener s.1.clock).1 },
          (allowNewRun C (now s).2 s.1.clock).1.2) ctx sc s.1.clock := rfl


/-- the admission answer `runStep` computes -/
def runAdm (s : St σo σc) : Bool := (allowNewRun C (now s).2 s.1.clock).2
/-- the Prevent answer `runStep` obtains -/
def runPv (s : St σo σc) : Bool := (O.prevent s.1.opener s.1.clock).2

theorem runAdm_eq (c : Circ σo σc) (obs : Obs) : runAdm C (c, obs) = actualAdmission C c := by
  unfold runAdm actualAdmission allowNewRun now isOpenEff
  simp only []
  repeat' (first | rfl | split)

theorem runPv_eq (c : Circ σo σc) (obs : Obs) : runPv O (c, obs) = actualPrevent O c := rfl

theorem allowNewRun_now_frame (s : St σo σc) (t : Int) :
    (allowNewRun C (now s).2 t).1.2.emits = s.2.emits ∧ (allowNewRun C (now s).2 t).1.2.runSeen = s.2.runSeen ∧
    (allowNewRun C (now s).2 t).1.2.fbArg = s.2.fbArg ∧ (allowNewRun C (now s).2 t).1.1.cfg = s.1.cfg ∧
    (allowNewRun C (now s).2 t).1.1.conc = s.1.conc ∧ (allowNewRun C (now s).2 t).1.1.concFb = s.1.concFb ∧
    (allowNewRun C (now s).2 t).1.1.clock = s.1.clock + 1 ∧ (allowNewRun C (now s).2 t).1.1.opener = s.1.opener := by
  unfold allowNewRun now
  simp only []
  split
  · simp
  · split <;> simp

/-- observable effect of the run step: frame conditions plus the run function's view and the run events added -/
def Post (s s' : St σo σc) (seen : Option Seen) (evs : List (Kind × Int × Int)) : Prop :=
  s'.1.cfg = s.1.cfg ∧ s'.1.conc = s.1.conc ∧ s'.1.concFb = s.1.concFb ∧
  s'.2.fbArg = s.2.fbArg ∧ fbEvents s'.2.emits = fbEvents s.2.emits ∧
  s'.2.runSeen = seen ∧ runEvents s'.2.emits = runEvents s.2.emits ++ evs

theorem runStep_notAdmitted (s : St σo σc) (ctx : CallerCtx) (sc : Script) (ha : runAdm C s = false) :
    Post s (runStep O C s ctx (some sc)).1 s.2.runSeen [(.shortCircuit, s.1.clock, 0)] ∧
    (runStep O C s ctx (some sc)).2 = .ret (some .circuitOpen) := by
  rw [runStep_some]
  unfold runAdm at ha
  obtain ⟨f1, f2, f3, f4, f5, f6, f7, f8⟩ := allowNewRun_now_frame C s s.1.clock
  generalize allowNewRun C (now s).2 s.1.clock = a at *
  simp only [ha, Bool.not_false, if_true]
  simp [Post, emitRun, f1, f2, f3, f4, f5, f6, runEvents_append, fbEvents_append]

theorem runStep_vetoed (s : St σo σc) (ctx : CallerCtx) (sc : Script) (ha : runAdm C s = true)
    (hp : runPv O s = true) :
    Post s (runStep O C s ctx (some sc)).1 s.2.runSeen [] ∧
    (runStep O C s ctx (some sc)).2 = .ret (some .circuitOpen) := by
  rw [runStep_some]
  unfold runAdm at ha
  unfold runPv at hp
  obtain ⟨f1, f2, f3, f4, f5, f6, f7, f8⟩ := allowNewRun_now_frame C s s.1.clock
  generalize allowNewRun C (now s).2 s.1.clock = a at *
  simp only [ha, Bool.not_true, Bool.false_eq_true, if_false, f8, hp, if_true]
  simp [Post, f1, f2, f3, f4, f5, f6]

/-- `s2` is `s` up to logic state, clock and readings -/
def Same (s s2 : St σo σc) : Prop :=
  s2.1.cfg = s.1.cfg ∧ s2.1.conc = s.1.conc ∧ s2.1.concFb = s.1.concFb ∧
  s2.2.emits = s.2.emits ∧ s2.2.runSeen = s.2.runSeen ∧ s2.2.fbArg = s.2.fbArg

theorem Post.of_same {s s2 s' : St σo σc} {seen evs} (h : Same s s2) (p : Post s2 s' seen evs) : Post s s' seen evs := by
  obtain ⟨a1, a2, a3, a4, a5, a6⟩ := h
  obtain ⟨b1, b2, b3, b4, b5, b6, b7⟩ := p
  exact ⟨b1.trans a1, b2.trans a2, b3.trans a3, b4.trans a6, by rw [b5, a4], b6, by rw [b7, a4]⟩

theorem runStep_admitted (s : St σo σc) (ctx : CallerCtx) (sc : Script) (ha : runAdm C s = true)
    (hp : runPv O s = false) :
    ∃ s2 : St σo σc, Same s s2 ∧ s2.1.clock = s.1.clock + 1 ∧
      runStep O C s ctx (some sc) = runAdmitted O C s2 ctx sc s.1.clock := by
  rw [runStep_some]
  unfold runAdm at ha
  unfold runPv at hp
  obtain ⟨f1, f2, f3, f4, f5, f6, f7, f8⟩ := allowNewRun_now_frame C s s.1.clock
  generalize allowNewRun C (now s).2 s.1.clock = a at *
  simp only [ha, Bool.not_true, Bool.false_eq_true, if_false, f8, hp]
  exact ⟨({ a.1.1 with opener := (O.prevent s.1.opener s.1.clock).1 }, a.1.2), ⟨f4, f5, f6, f1, f2, f3⟩, f7, rfl⟩

theorem runAdmitted_throttled (s : St σo σc) (ctx : CallerCtx) (sc : Script) (start : Int)
    (h : s.1.cfg.maxConc ≥ 0 ∧ s.1.conc + 1 > s.1.cfg.maxConc) :
    Post s (runAdmitted O C s ctx sc start).1 s.2.runSeen [(.reject, start, 0)] ∧
    (runAdmitted O C s ctx sc start).2 = .ret (some .concLimit) := by
  unfold runAdmitted
  simp only [h, and_self, if_true]
  simp [Post, emitRun, runEvents_append, fbEvents_append, Int.add_sub_cancel]

theorem runAdmitted_panic (s : St σo σc) (ctx : CallerCtx) (sc : Script) (start : Int) (v : Nat)
    (h : ¬ (s.1.cfg.maxConc ≥ 0 ∧ s.1.conc + 1 > s.1.cfg.maxConc)) (hact : sc.act = .panic v) :
    Post s (runAdmitted O C s ctx sc start).1 (some (derivedSeen s.1.cfg ctx start)) [] ∧
    (runAdmitted O C s ctx sc start).2 = .panic v := by
  unfold runAdmitted
  simp only [h, if_false, hact]
  simp [Post, Int.add_sub_cancel]

theorem runAdmitted_ret (s : St σo σc) (ctx : CallerCtx) (sc : Script) (start : Int)
    (h : ¬ (s.1.cfg.maxConc ≥ 0 ∧ s.1.conc + 1 > s.1.cfg.maxConc)) (hact : ∀ v, sc.act ≠ .panic v) :
    Post s (runAdmitted O C s ctx sc start).1 (some (derivedSeen s.1.cfg ctx start))
      [(classKind s.1.cfg ctx sc (actValue sc (ctxErrAfter ctx sc)) start (s.1.clock + sc.adv + 1),
        s.1.clock + sc.adv + 1, s.1.clock + sc.adv - start)] ∧
    (runAdmitted O C s ctx sc start).2 = .ret (actValue sc (ctxErrAfter ctx sc)) := by
  unfold runAdmitted
  simp only [h, if_false]
  have key : ∀ (s' : St σo σc) (d : Option Bool),
      RExt (now (now (({ s.1 with conc := s.1.conc + 1, clock := s.1.clock + sc.adv } : Circ σo σc),
        ({ s.2 with runSeen := some (derivedSeen s.1.cfg ctx start) } : Obs))).2).2 s'
        (classKind s.1.cfg ctx sc (actValue sc (ctxErrAfter ctx sc)) start (s.1.clock + sc.adv + 1))
        (s.1.clock + sc.adv + 1) (s.1.clock + sc.adv - start) →
      Post s (({ s'.1 with conc := s'.1.conc - 1 } : Circ σo σc), ({ s'.2 with released := d } : Obs))
        (some (derivedSeen s.1.cfg ctx start))
        [(classKind s.1.cfg ctx sc (actValue sc (ctxErrAfter ctx sc)) start (s.1.clock + sc.adv + 1),
          s.1.clock + sc.adv + 1, s.1.clock + sc.adv - start)] := by
    intro s' d hr
    obtain ⟨a1, a2, a3, a4, a5, a6, a7, a8⟩ := hr
    simp only [now] at a1 a2 a3 a4 a5 a6 a7 a8
    simp [Post, a1, a2, a3, a5, a6, a7, a8, Int.add_sub_cancel]
  cases hact' : sc.act with
  | panic v => exact absurd hact' (hact v)
  | ret e =>
    simp only [classify_eq]
    exact ⟨key _ _ (classifyTail_ext O C _ _ _ _ _ _ _), trivial⟩
  | retCtxErr =>
    simp only [classify_eq]
    exact ⟨key _ _ (classifyTail_ext O C _ _ _ _ _ _ _), trivial⟩
/-- observable effect of the fallback step -/
def FPost (s s' : St σo σc) (arg : Option ErrV) (evs : List (FbKind × Int × Int)) : Prop :=
  s'.2.runSeen = s.2.runSeen ∧ s'.2.fbArg = arg ∧ runEvents s'.2.emits = runEvents s.2.emits ∧
  fbEvents s'.2.emits = fbEvents s.2.emits ++ evs

theorem fallbackStep_none (s : St σo σc) (ctx : CallerCtx) (runSc : Option Script) (err : ErrV) :
    fallbackStep s ctx runSc err none = (s, .ret (some err)) := rfl

theorem fallbackStep_disabled (s : St σo σc) (ctx : CallerCtx) (runSc : Option Script) (err : ErrV) (sc : Script)
    (h : s.1.cfg.fbDisabled = true) :
    fallbackStep s ctx runSc err (some sc) = (s, .ret (some err)) := by
  unfold fallbackStep
  simp only [h, if_true]

theorem fallbackStep_throttled (s : St σo σc) (ctx : CallerCtx) (runSc : Option Script) (err : ErrV) (sc : Script)
    (h : s.1.cfg.fbDisabled = false) (ht : s.1.cfg.fbMaxConc ≥ 0 ∧ s.1.concFb + 1 > s.1.cfg.fbMaxConc) :
    FPost s (fallbackStep s ctx runSc err (some sc)).1 s.2.fbArg [(.reject, s.1.clock, 0)] ∧
    (fallbackStep s ctx runSc err (some sc)).2 = .ret (some .concLimit) := by
  unfold fallbackStep
  simp only [h, Bool.false_eq_true, if_false, ht, and_self, if_true]
  simp [FPost, now, emitFb, runEvents_append, fbEvents_append]

theorem fallbackStep_panic (s : St σo σc) (ctx : CallerCtx) (runSc : Option Script) (err : ErrV) (sc : Script) (v : Nat)
    (h : s.1.cfg.fbDisabled = false) (ht : ¬ (s.1.cfg.fbMaxConc ≥ 0 ∧ s.1.concFb + 1 > s.1.cfg.fbMaxConc))
    (hact : sc.act = .panic v) :
    FPost s (fallbackStep s ctx runSc err (some sc)).1 (some err) [] ∧
    (fallbackStep s ctx runSc err (some sc)).2 = .panic v := by
  unfold fallbackStep
  simp only [h, Bool.false_eq_true, if_false, ht, hact]
  simp [FPost, now]

/-- the fallback's return value as the model computes it -/
def fbRetM (ctx : CallerCtx) (runSc : Option Script) (invoked : Bool) (sc : Script) : Option ErrV :=
  actValue sc
    (match (match runSc with
        | some r => if invoked then ctxErrAfter ctx r else ctx.err
        | none => ctx.err) with
      | some e => some e
      | none => if sc.cancelCaller then some .canceled else none)

theorem fbRetM_eq (ctx : CallerCtx) (runSc : Option Script) (invoked : Bool) (sc : Script) :
    fbRetM ctx runSc invoked sc = fbValue ⟨ctx, runSc, some sc⟩ (if invoked then 1 else 0) := by
  cases runSc <;> cases invoked <;> rfl

def emitFbRes (s : St σo σc) (r : Option ErrV) (start total : Int) : St σo σc :=
  match r with
  | some _ => emitFb s .failure start total
  | none => emitFb s .success start total

/-- the part of `fallbackStep` that invokes the fallback -/
def fallbackInvoke (s : St σo σc) (ctx : CallerCtx) (runSc : Option Script) (err : ErrV) (sc : Script) : St σo σc × Res :=
  let start := s.1.clock
  let s : St σo σc := ({ s.1 with clock := s.1.clock + 1 + sc.adv },
    { s.2 with readings := s.2.readings ++ [s.1.clock], fbArg := some err, fbSameCtx := true })
  match sc.act with
  | .panic v => (({ s.1 with concFb := s.1.concFb - 1 }, s.2), .panic v)
  | _ =>
    let r := fbRetM ctx runSc s.2.runSeen.isSome sc
    let s1 := emitFbRes (now s).2 r start (s.1.clock - start)
    (({ s1.1 with concFb := s1.1.concFb - 1 }, s1.2), .ret r)

theorem fallbackStep_invoke (s : St σo σc) (ctx : CallerCtx) (runSc : Option Script) (err : ErrV) (sc : Script)
    (h : s.1.cfg.fbDisabled = false) (ht : ¬ (s.1.cfg.fbMaxConc ≥ 0 ∧ s.1.concFb + 1 > s.1.cfg.fbMaxConc)) :
    fallbackStep s ctx runSc err (some sc) =
      fallbackInvoke ({ s.1 with concFb := s.1.concFb + 1 }, s.2) ctx runSc err sc := by
  unfold fallbackStep
  simp only [h, Bool.false_eq_true, if_false, ht]
  rfl

theorem emitFbRes_post (s : St σo σc) (r : Option ErrV) (start total : Int) :
    FPost s (emitFbRes s r start total) s.2.fbArg [(if r.isSome then .failure else .success, start, total)] := by
  cases r <;> simp [emitFbRes, FPost, emitFb, runEvents_append, fbEvents_append]

theorem fallbackStep_ret (s : St σo σc) (ctx : CallerCtx) (runSc : Option Script) (err : ErrV) (sc : Script)
    (h : s.1.cfg.fbDisabled = false) (ht : ¬ (s.1.cfg.fbMaxConc ≥ 0 ∧ s.1.concFb + 1 > s.1.cfg.fbMaxConc))
    (hact : ∀ v, sc.act ≠ .panic v) :
    ∃ t d, FPost s (fallbackStep s ctx runSc err (some sc)).1 (some err)
      [(if (fbValue ⟨ctx, runSc, some sc⟩ (if s.2.runSeen.isSome then 1 else 0)).isSome then .failure else .success, t, d)] ∧
    (fallbackStep s ctx runSc err (some sc)).2 = .ret (fbValue ⟨ctx, runSc, some sc⟩ (if s.2.runSeen.isSome then 1 else 0)) := by
  rw [fallbackStep_invoke s ctx runSc err sc h ht, ← fbRetM_eq]
  unfold fallbackInvoke
  cases hact' : sc.act with
  | panic v => exact absurd hact' (hact v)
  | ret e =>
    simp only []
    refine ⟨s.1.clock, s.1.clock + 1 + sc.adv - s.1.clock, ?_, trivial⟩
    have := emitFbRes_post (now (({ s.1 with concFb := s.1.concFb + 1, clock := s.1.clock + 1 + sc.adv } : Circ σo σc),
      ({ s.2 with readings := s.2.readings ++ [s.1.clock], fbArg := some err, fbSameCtx := true } : Obs))).2
      (fbRetM ctx runSc s.2.runSeen.isSome sc) s.1.clock (s.1.clock + 1 + sc.adv - s.1.clock)
    obtain ⟨a1, a2, a3, a4⟩ := this
    exact ⟨a1, a2, a3, a4⟩
  | retCtxErr =>
    simp only []
    refine ⟨s.1.clock, s.1.clock + 1 + sc.adv - s.1.clock, ?_, trivial⟩
    have := emitFbRes_post (now (({ s.1 with concFb := s.1.concFb + 1, clock := s.1.clock + 1 + sc.adv } : Circ σo σc),
      ({ s.2 with readings := s.2.readings ++ [s.1.clock], fbArg := some err, fbSameCtx := true } : Obs))).2
      (fbRetM ctx runSc s.2.runSeen.isSome sc) s.1.clock (s.1.clock + 1 + sc.adv - s.1.clock)
    obtain ⟨a1, a2, a3, a4⟩ := this
    exact ⟨a1, a2, a3, a4⟩
/-- `execute` after the run step -/
def execTail (p : St σo σc × Res) (ctx : CallerCtx) (run fb : Option Script) : Circ σo σc × Obs × Res :=
  match p.2 with
  | .ret none => (p.1.1, p.1.2, .ret none)
  | .ret (some e) =>
    if e.isBad then (p.1.1, p.1.2, .ret (some e))
    else ((fallbackStep p.1 ctx run e fb).1.1, (fallbackStep p.1 ctx run e fb).1.2, (fallbackStep p.1 ctx run e fb).2)
  | other => (p.1.1, p.1.2, other)

theorem execute_enabled (c : Circ σo σc) (ctx : CallerCtx) (run fb : Option Script) (h : c.cfg.disabled = false) :
    execute O C c ctx run fb = execTail (runStep O C (c, {}) ctx run) ctx run fb := by
  unfold execute
  simp only [h, Bool.false_eq_true, if_false]
  rfl

theorem execTail_retNone (s : St σo σc) (ctx : CallerCtx) (run fb : Option Script) :
    execTail (s, .ret none) ctx run fb = (s.1, s.2, .ret none) := rfl
theorem execTail_panic (s : St σo σc) (v : Nat) (ctx : CallerCtx) (run fb : Option Script) :
    execTail (s, .panic v) ctx run fb = (s.1, s.2, .panic v) := rfl
theorem execTail_bad (s : St σo σc) (e : ErrV) (ctx : CallerCtx) (run fb : Option Script) (h : e.isBad = true) :
    execTail (s, .ret (some e)) ctx run fb = (s.1, s.2, .ret (some e)) := by
  simp [execTail, h]
theorem execTail_fb (s : St σo σc) (e : ErrV) (ctx : CallerCtx) (run fb : Option Script) (h : e.isBad = false) :
    execTail (s, .ret (some e)) ctx run fb =
      ((fallbackStep s ctx run e fb).1.1, (fallbackStep s ctx run e fb).1.2, (fallbackStep s ctx run e fb).2) := by
  simp [execTail, h]

/-- the four ways the fallback stage can go, in terms of what the caller observes -/
inductive FbCase (cfg : LiveCfg) (op : ExecOp) (n : Nat) (e : ErrV)
    (fev0 : List (FbKind × Int × Int)) : Option ErrV → List (FbKind × Int × Int) → Res → Prop
  | skipped (h : (op.fb.isSome && !cfg.fbDisabled) = false) : FbCase cfg op n e fev0 none fev0 (.ret (some e))
  | throttled (h : (op.fb.isSome && !cfg.fbDisabled) = true) (ht : cfg.fbMaxConc = 0) (t d : Int) :
      FbCase cfg op n e fev0 none (fev0 ++ [(.reject, t, d)]) (.ret (some .concLimit))
  | panicked (h : (op.fb.isSome && !cfg.fbDisabled) = true) (ht : cfg.fbMaxConc ≠ 0) (v : Nat)
      (hp : fbPanics op = some v) : FbCase cfg op n e fev0 (some e) fev0 (.panic v)
  | returned (h : (op.fb.isSome && !cfg.fbDisabled) = true) (ht : cfg.fbMaxConc ≠ 0)
      (hp : fbPanics op = none) (t d : Int) :
      FbCase cfg op n e fev0 (some e)
        (fev0 ++ [(if (fbValue op n).isSome then .failure else .success, t, d)]) (.ret (fbValue op n))

theorem fbPanics_some (ctx : CallerCtx) (run : Option Script) (sc : Script) (v : Nat) (h : sc.act = .panic v) :
    fbPanics ⟨ctx, run, some sc⟩ = some v := by
  cases sc with | mk adv cc act => cases h; rfl

theorem fbPanics_none (ctx : CallerCtx) (run : Option Script) (sc : Script) (h : ∀ v, sc.act ≠ .panic v) :
    fbPanics ⟨ctx, run, some sc⟩ = none := by
  cases sc with | mk adv cc act => cases act <;> first | rfl | exact absurd rfl (h _)

theorem fallback_stage (s : St σo σc) (ctx : CallerCtx) (run fb : Option Script) (e : ErrV)
    (hq : s.1.concFb = 0) (ha : s.2.fbArg = none) :
    (fallbackStep s ctx run e fb).1.2.runSeen = s.2.runSeen ∧
    runEvents (fallbackStep s ctx run e fb).1.2.emits = runEvents s.2.emits ∧
    FbCase s.1.cfg ⟨ctx, run, fb⟩ (if s.2.runSeen.isSome then 1 else 0) e (fbEvents s.2.emits)
      (fallbackStep s ctx run e fb).1.2.fbArg (fbEvents (fallbackStep s ctx run e fb).1.2.emits)
      (fallbackStep s ctx run e fb).2 := by
  cases fb with
  | none =>
    rw [fallbackStep_none, ha]
    exact ⟨rfl, rfl, .skipped rfl⟩
  | some sc =>
    by_cases hd : s.1.cfg.fbDisabled = true
    · rw [fallbackStep_disabled s ctx run e sc hd, ha]
      exact ⟨rfl, rfl, .skipped (by simp [hd])⟩
    have hd' : s.1.cfg.fbDisabled = false := by simpa using hd
    have hen : ((some sc).isSome && !s.1.cfg.fbDisabled) = true := by simp [hd']
    by_cases ht : s.1.cfg.fbMaxConc ≥ 0 ∧ s.1.concFb + 1 > s.1.cfg.fbMaxConc
    · obtain ⟨⟨a1, a2, a3, a4⟩, a5⟩ := fallbackStep_throttled s ctx run e sc hd' ht
      rw [a1, a2, a3, a4, a5, ha]
      exact ⟨rfl, rfl, .throttled hen (by omega) _ _⟩
    have ht' : s.1.cfg.fbMaxConc ≠ 0 := by omega
    by_cases hp : ∃ v, sc.act = .panic v
    · obtain ⟨v, hv⟩ := hp
      obtain ⟨⟨a1, a2, a3, a4⟩, a5⟩ := fallbackStep_panic s ctx run e sc v hd' ht hv
      rw [a1, a2, a3, a4, a5, List.append_nil]
      exact ⟨rfl, rfl, .panicked hen ht' v (fbPanics_some ctx run sc v hv)⟩
    · have hp' : ∀ v, sc.act ≠ .panic v := fun v hv => hp ⟨v, hv⟩
      obtain ⟨t, d, ⟨a1, a2, a3, a4⟩, a5⟩ := fallbackStep_ret s ctx run e sc hd' ht hp'
      rw [a1, a2, a3, a4, a5]
      exact ⟨rfl, rfl, .returned hen ht' (fbPanics_none ctx run sc hp') t d⟩

theorem classKind_aux (cfg : LiveCfg) (ret : Option ErrV) (ce : Option CtxErr) (start adv : Int) :
    (if isBadO ret then Kind.badRequest
      else if cfg.timeout > 0 ∧ start + cfg.timeout < start + 1 + adv + 1 then .timeout
      else if (ret.isSome && ce.isSome && !cfg.ignoreInterrupts && ieiO cfg.iei ce) then .interrupt
      else if ret.isSome then .failure else .success) =
    (if (match ret with | some e => e.isBad | none => false) then Kind.badRequest
      else if decide (cfg.timeout > 0 ∧ cfg.timeout < adv + 2) then .timeout
      else if ret.isSome && ce.isSome && !cfg.ignoreInterrupts &&
          (match ce with | some e => cfg.iei.verdict e | none => false) then .interrupt
      else if ret.isSome then .failure else .success) := by
  have : (cfg.timeout > 0 ∧ start + cfg.timeout < start + 1 + adv + 1) ↔ (cfg.timeout > 0 ∧ cfg.timeout < adv + 2) := by
    omega
  cases ret <;> cases ce <;> simp [isBadO, ieiO, this]

theorem classKind_expected (cfg : LiveCfg) (ctx : CallerCtx) (sc : Script) (fb : Option Script) (start : Int) :
    classKind cfg ctx sc (actValue sc (ctxErrAfter ctx sc)) start (start + 1 + sc.adv + 1) =
      expectedExecutedKind cfg ⟨ctx, some sc, fb⟩ sc :=
  classKind_aux cfg (actValue sc (ctxErrAfter ctx sc)) (ctxErrAfter ctx sc) start sc.adv

theorem runPanics_some (ctx : CallerCtx) (fb : Option Script) (sc : Script) (v : Nat) (h : sc.act = .panic v) :
    runPanics ⟨ctx, some sc, fb⟩ = some v := by
  cases sc with | mk adv cc act => cases h; rfl

theorem runPanics_none (ctx : CallerCtx) (fb : Option Script) (sc : Script) (h : ∀ v, sc.act ≠ .panic v) :
    runPanics ⟨ctx, some sc, fb⟩ = none := by
  cases sc with | mk adv cc act => cases act <;> first | rfl | exact absurd rfl (h _)

/-- the five ways the run stage can go for a supplied run function, in terms of what the caller observes;
    `thr` = the concurrency gate is exhausted (sequentially: `MaxConcurrentRequests = 0`) -/
inductive RunCase (cfg : LiveCfg) (adm pv : Bool) (op : ExecOp) (sc : Script) (thr : Prop) :
    Bool → List (Kind × Int × Int) → Res → Prop
  | shortCircuit (ha : adm = false) (t d : Int) :
      RunCase cfg adm pv op sc thr false [(.shortCircuit, t, d)] (.ret (some .circuitOpen))
  | vetoed (ha : adm = true) (hp : pv = true) : RunCase cfg adm pv op sc thr false [] (.ret (some .circuitOpen))
  | throttled (ha : adm = true) (hp : pv = false) (ht : thr) (t d : Int) :
      RunCase cfg adm pv op sc thr false [(.reject, t, d)] (.ret (some .concLimit))
  | panicked (ha : adm = true) (hp : pv = false) (ht : ¬ thr) (v : Nat) (hv : runPanics op = some v) :
      RunCase cfg adm pv op sc thr true [] (.panic v)
  | returned (ha : adm = true) (hp : pv = false) (ht : ¬ thr) (hv : runPanics op = none) (t d : Int) :
      RunCase cfg adm pv op sc thr true [(expectedExecutedKind cfg op sc, t, d)] (.ret (runValue op))

theorem RunCase.congr {cfg : LiveCfg} {adm pv : Bool} {op : ExecOp} {sc : Script} {thr thr' : Prop}
    {seen : Bool} {evs : List (Kind × Int × Int)} {r : Res} (h : thr ↔ thr')
    (hc : RunCase cfg adm pv op sc thr seen evs r) : RunCase cfg adm pv op sc thr' seen evs r := by
  cases hc with
  | shortCircuit ha t d => exact .shortCircuit ha t d
  | vetoed ha hp => exact .vetoed ha hp
  | throttled ha hp ht t d => exact .throttled ha hp (h.mp ht) t d
  | panicked ha hp ht v hv => exact .panicked ha hp (fun x => ht (h.mpr x)) v hv
  | returned ha hp ht hv t d => exact .returned ha hp (fun x => ht (h.mpr x)) hv t d

theorem run_stage (c : Circ σo σc) (ctx : CallerCtx) (sc : Script) (fb : Option Script) :
    (runStep O C (c, {}) ctx (some sc)).1.1.cfg = c.cfg ∧
    (runStep O C (c, {}) ctx (some sc)).1.1.concFb = c.concFb ∧
    (runStep O C (c, {}) ctx (some sc)).1.2.fbArg = none ∧
    fbEvents (runStep O C (c, {}) ctx (some sc)).1.2.emits = [] ∧
    RunCase c.cfg (actualAdmission C c) (actualPrevent O c) ⟨ctx, some sc, fb⟩ sc
      (c.cfg.maxConc ≥ 0 ∧ c.conc + 1 > c.cfg.maxConc)
      (runStep O C (c, {}) ctx (some sc)).1.2.runSeen.isSome
      (runEvents (runStep O C (c, {}) ctx (some sc)).1.2.emits)
      (runStep O C (c, {}) ctx (some sc)).2 := by
  rw [← runAdm_eq C c {}, ← runPv_eq O c {}]
  cases ha : runAdm C ((c, {}) : St σo σc) with
  | false =>
    obtain ⟨⟨a1, a2, a3, a4, a5, a6, a7⟩, a8⟩ := runStep_notAdmitted O C (c, {}) ctx sc ha
    rw [a1, a3, a4, a5, a6, a7, a8]
    exact ⟨rfl, rfl, rfl, rfl, .shortCircuit rfl _ _⟩
  | true =>
    cases hp : runPv O ((c, {}) : St σo σc) with
    | true =>
      obtain ⟨⟨a1, a2, a3, a4, a5, a6, a7⟩, a8⟩ := runStep_vetoed O C (c, {}) ctx sc ha hp
      rw [a1, a3, a4, a5, a6, a7, a8]
      exact ⟨rfl, rfl, rfl, rfl, .vetoed rfl rfl⟩
    | false =>
      obtain ⟨s2, hs, hclk, heq⟩ := runStep_admitted O C (c, {}) ctx sc ha hp
      rw [heq]
      obtain ⟨b1, b2, b3, b4, b5, b6⟩ := hs
      by_cases ht : s2.1.cfg.maxConc ≥ 0 ∧ s2.1.conc + 1 > s2.1.cfg.maxConc
      · obtain ⟨hpost, a8⟩ := runAdmitted_throttled O C s2 ctx sc c.clock ht
        obtain ⟨a1, a2, a3, a4, a5, a6, a7⟩ := hpost.of_same ⟨b1, b2, b3, b4, b5, b6⟩
        rw [a1, a3, a4, a5, a6, a7, a8, b5]
        refine ⟨rfl, rfl, rfl, rfl, .throttled rfl rfl ?_ _ _⟩
        simpa only [b1, b2] using ht
      have ht' : ¬ (c.cfg.maxConc ≥ 0 ∧ c.conc + 1 > c.cfg.maxConc) := by
        simpa only [b1, b2] using ht
      by_cases hv : ∃ v, sc.act = .panic v
      · obtain ⟨v, hv⟩ := hv
        obtain ⟨hpost, a8⟩ := runAdmitted_panic O C s2 ctx sc c.clock v ht hv
        obtain ⟨a1, a2, a3, a4, a5, a6, a7⟩ := hpost.of_same ⟨b1, b2, b3, b4, b5, b6⟩
        rw [a1, a3, a4, a5, a6, a7, a8]
        exact ⟨rfl, rfl, rfl, rfl, .panicked rfl rfl ht' v (runPanics_some ctx fb sc v hv)⟩
      · have hv' : ∀ v, sc.act ≠ .panic v := fun v h => hv ⟨v, h⟩
        obtain ⟨hpost, a8⟩ := runAdmitted_ret O C s2 ctx sc c.clock ht hv'
        obtain ⟨a1, a2, a3, a4, a5, a6, a7⟩ := hpost.of_same ⟨b1, b2, b3, b4, b5, b6⟩
        rw [a1, a3, a4, a5, a6, a7, a8]
        refine ⟨rfl, rfl, rfl, rfl, ?_⟩
        have hk := classKind_expected c.cfg ctx sc fb c.clock
        simp only [] at hclk
        rw [b1, hclk]
        simp only []
        rw [hk]
        exact .returned rfl rfl ht' (runPanics_none ctx fb sc hv') _ _
/-- Observational characterisation of `execute` on an enabled, quiescent circuit with a supplied run function:
    the run stage goes one of five ways (`RunCase`); a non-bad error from it goes through the fallback stage
    (`FbCase`), anything else is returned as is. -/
theorem exec_cases (c : Circ σo σc) (ctx : CallerCtx) (sc : Script) (fb : Option Script)
    (hq1 : c.conc = 0) (hq2 : c.concFb = 0) (hen : c.cfg.disabled = false) :
    ∃ (seen : Bool) (evs : List (Kind × Int × Int)) (res1 : Res) (arg : Option ErrV)
      (fevs : List (FbKind × Int × Int)) (res : Res),
      RunCase c.cfg (actualAdmission C c) (actualPrevent O c) ⟨ctx, some sc, fb⟩ sc (c.cfg.maxConc = 0)
        seen evs res1 ∧
      (execute O C c ctx (some sc) fb).2.1.runSeen.isSome = seen ∧
      runEvents (execute O C c ctx (some sc) fb).2.1.emits = evs ∧
      (execute O C c ctx (some sc) fb).2.1.fbArg = arg ∧
      fbEvents (execute O C c ctx (some sc) fb).2.1.emits = fevs ∧
      (execute O C c ctx (some sc) fb).2.2 = res ∧
      ((∃ e, res1 = .ret (some e) ∧ e.isBad = false ∧
          FbCase c.cfg ⟨ctx, some sc, fb⟩ (if seen then 1 else 0) e [] arg fevs res) ∨
       ((∀ e, res1 = .ret (some e) → e.isBad = true) ∧ arg = none ∧ fevs = [] ∧ res = res1)) := by
  rw [execute_enabled O C c ctx (some sc) fb hen]
  obtain ⟨h1, h2, h3, h4, hcase⟩ := run_stage O C c ctx sc fb
  replace hcase := hcase.congr (thr' := c.cfg.maxConc = 0) (by omega)
  generalize runStep O C (c, {}) ctx (some sc) = p at *
  obtain ⟨s, r⟩ := p
  simp only [] at h1 h2 h3 h4 hcase
  cases r with
  | ret oe =>
    cases oe with
    | none =>
      rw [execTail_retNone]
      exact ⟨_, _, _, _, _, _, hcase, rfl, rfl, rfl, rfl, rfl, .inr ⟨(fun e h => by cases h), h3, h4, rfl⟩⟩
    | some e =>
      by_cases hb : e.isBad = true
      · rw [execTail_bad s e ctx (some sc) fb hb]
        exact ⟨_, _, _, _, _, _, hcase, rfl, rfl, rfl, rfl, rfl,
          .inr ⟨(fun e' h => by cases h; exact hb), h3, h4, rfl⟩⟩
      · have hb' : e.isBad = false := by simpa using hb
        rw [execTail_fb s e ctx (some sc) fb hb']
        obtain ⟨g1, g2, g3⟩ := fallback_stage s ctx (some sc) fb e (h2.trans hq2) h3
        rw [h1, h4] at g3
        exact ⟨_, _, _, _, _, _, hcase, congrArg _ g1, g2, rfl, rfl, rfl, .inl ⟨e, rfl, hb', g3⟩⟩
  | panic v =>
    rw [execTail_panic]
    exact ⟨_, _, _, _, _, _, hcase, rfl, rfl, rfl, rfl, rfl, .inr ⟨(fun e h => by cases h), h3, h4, rfl⟩⟩
  | nilFunc =>
    exact ⟨_, _, _, _, _, _, hcase, rfl, rfl, rfl, rfl, rfl, .inr ⟨(fun e h => by cases h), h3, h4, rfl⟩⟩
/-- the fallback step never touches what the run function saw nor the run events (no quiescence needed) -/
theorem fallbackStep_frame (s : St σo σc) (ctx : CallerCtx) (run fb : Option Script) (e : ErrV) :
    (fallbackStep s ctx run e fb).1.2.runSeen = s.2.runSeen ∧
    runEvents (fallbackStep s ctx run e fb).1.2.emits = runEvents s.2.emits := by
  cases fb with
  | none => exact ⟨rfl, rfl⟩
  | some sc =>
    by_cases hd : s.1.cfg.fbDisabled = true
    · rw [fallbackStep_disabled s ctx run e sc hd]
      exact ⟨rfl, rfl⟩
    have hd' : s.1.cfg.fbDisabled = false := by simpa using hd
    by_cases ht : s.1.cfg.fbMaxConc ≥ 0 ∧ s.1.concFb + 1 > s.1.cfg.fbMaxConc
    · obtain ⟨⟨a1, a2, a3, a4⟩, a5⟩ := fallbackStep_throttled s ctx run e sc hd' ht
      exact ⟨a1, a3⟩
    by_cases hp : ∃ v, sc.act = .panic v
    · obtain ⟨v, hv⟩ := hp
      obtain ⟨⟨a1, a2, a3, a4⟩, a5⟩ := fallbackStep_panic s ctx run e sc v hd' ht hv
      exact ⟨a1, a3⟩
    · have hp' : ∀ v, sc.act ≠ .panic v := fun v hv => hp ⟨v, hv⟩
      obtain ⟨t, d, ⟨a1, a2, a3, a4⟩, a5⟩ := fallbackStep_ret s ctx run e sc hd' ht hp'
      exact ⟨a1, a3⟩

theorem execTail_frame (p : St σo σc × Res) (ctx : CallerCtx) (run fb : Option Script) :
    (execTail p ctx run fb).2.1.runSeen = p.1.2.runSeen ∧
    runEvents (execTail p ctx run fb).2.1.emits = runEvents p.1.2.emits := by
  obtain ⟨s, r⟩ := p
  cases r with
  | ret oe =>
    cases oe with
    | none => exact ⟨rfl, rfl⟩
    | some e =>
      by_cases hb : e.isBad = true
      · rw [execTail_bad s e ctx run fb hb]; exact ⟨rfl, rfl⟩
      · rw [execTail_fb s e ctx run fb (by simpa using hb)]
        exact fallbackStep_frame s ctx run fb e
  | panic v => exact ⟨rfl, rfl⟩
  | nilFunc => exact ⟨rfl, rfl⟩

/-- enabled circuit, supplied run function that does not panic, no veto: exactly one run event (any state) -/
theorem execute_one_run_event (c : Circ σo σc) (ctx : CallerCtx) (sc : Script) (fb : Option Script)
    (hen : c.cfg.disabled = false) (hnp : ∀ v, sc.act ≠ .panic v)
    (hveto : ¬ (actualAdmission C c = true ∧ actualPrevent O c = true)) :
    (runEvents (execute O C c ctx (some sc) fb).2.1.emits).length = 1 := by
  rw [execute_enabled O C c ctx (some sc) fb hen, (execTail_frame _ ctx (some sc) fb).2]
  obtain ⟨_, _, _, _, hcase⟩ := run_stage O C c ctx sc fb
  generalize runEvents (runStep O C (c, {}) ctx (some sc)).1.2.emits = evs at hcase
  generalize (runStep O C (c, {}) ctx (some sc)).1.2.runSeen.isSome = seen at hcase
  generalize (runStep O C (c, {}) ctx (some sc)).2 = r at hcase
  cases hcase with
  | shortCircuit ha t d => rfl
  | vetoed ha hp => exact absurd ⟨ha, hp⟩ hveto
  | throttled ha hp ht t d => rfl
  | panicked ha hp ht v hv =>
    rw [runPanics_none ctx fb sc hnp] at hv
    cases hv
  | returned ha hp ht hv t d => rfl

/-- a bad request returned by an invoked run function is returned unchanged and the fallback is not invoked -/
theorem execute_bad_request (c : Circ σo σc) (ctx : CallerCtx) (sc : Script) (fb : Option Script) (e : ErrV)
    (hen : c.cfg.disabled = false) (hbad : e.isBad = true) (hval : runValue ⟨ctx, some sc, fb⟩ = some e)
    (hinv : (execute O C c ctx (some sc) fb).2.1.runSeen.isSome = true) :
    (execute O C c ctx (some sc) fb).2.1.fbArg = none ∧ (execute O C c ctx (some sc) fb).2.2 = .ret (some e) := by
  rw [execute_enabled O C c ctx (some sc) fb hen] at hinv ⊢
  rw [(execTail_frame _ ctx (some sc) fb).1] at hinv
  obtain ⟨_, _, h3, _, hcase⟩ := run_stage O C c ctx sc fb
  generalize runStep O C (c, {}) ctx (some sc) = p at *
  obtain ⟨s, r⟩ := p
  simp only [] at h3 hcase hinv
  rw [hinv] at hcase
  generalize runEvents s.2.emits = evs at hcase
  cases hcase with
  | panicked ha hp ht v hv =>
    have : sc.act = .panic v := by
      cases sc with | mk adv cc act => cases act <;> simp_all [runPanics]
    simp [runValue, actValue, this] at hval
  | returned ha hp ht hv t d =>
    rw [hval, execTail_bad s e ctx (some sc) fb hbad]
    exact ⟨h3, rfl⟩
end

/-! ### the C05 verdict on the characterised outcome -/
theorem c05_pure (cfg : LiveCfg) (adm pv : Bool) (ctx : CallerCtx) (sc : Script) (fb : Option Script) (o : ExecObs)
    (thr : Prop)
    (hen : cfg.disabled = false) (hfan : o.fanOk = true)
    (seen : Bool) (evs : List (Kind × Int × Int)) (res1 : Res) (arg : Option ErrV)
    (fevs : List (FbKind × Int × Int)) (res : Res)
    (hrc : RunCase cfg adm pv ⟨ctx, some sc, fb⟩ sc thr seen evs res1)
    (h1 : o.runCalls = if seen then 1 else 0) (h2 : runEvents o.emits = evs) (h4 : fbEvents o.emits = fevs)
    (hfb : (∃ e, res1 = .ret (some e) ∧ e.isBad = false ∧
          FbCase cfg ⟨ctx, some sc, fb⟩ (if seen then 1 else 0) e [] arg fevs res) ∨
       ((∀ e, res1 = .ret (some e) → e.isBad = true) ∧ arg = none ∧ fevs = [] ∧ res = res1)) :
    verdictC05 cfg (some adm) pv ⟨ctx, some sc, fb⟩ o = none := by
  cases hrc with
  | shortCircuit ha t d =>
    rcases hfb with ⟨e, he, hb, hfc⟩ | ⟨hbad, _, hf, _⟩
    · cases he
      cases hfc with
      | skipped h =>
        simp at h
        simp [verdictC05, hen, hfan, h1, h2, h4, ha, ErrV.isBad]
        intros; simp_all
      | throttled h ht t' d' =>
        simp at h
        simp [verdictC05, hen, hfan, h1, h2, h4, ha, throttled, ht, h, ErrV.isBad]
      | panicked h ht v hp =>
        simp at h
        simp [verdictC05, hen, hfan, h1, h2, h4, ha, throttled, ht, h, hp, ErrV.isBad]
      | returned h ht hp t' d' =>
        simp at h
        simp [verdictC05, hen, hfan, h1, h2, h4, ha, throttled, ht, h, hp, ErrV.isBad]
    · exact absurd (hbad _ rfl) (by decide)
  | vetoed ha hp =>
    simp [verdictC05, hen, hfan, h1, h2, ha, hp]
  | throttled ha hp ht t d =>
    rcases hfb with ⟨e, he, hb, hfc⟩ | ⟨hbad, _, hf, _⟩
    · cases he
      cases hfc with
      | skipped h =>
        simp at h
        simp [verdictC05, hen, hfan, h1, h2, h4, ha, hp, ErrV.isBad]
        intros; simp_all
      | throttled h ht t' d' =>
        simp at h
        simp [verdictC05, hen, hfan, h1, h2, h4, ha, hp, throttled, ht, h, ErrV.isBad]
      | panicked h ht v hp' =>
        simp at h
        simp [verdictC05, hen, hfan, h1, h2, h4, ha, hp, throttled, ht, h, hp', ErrV.isBad]
      | returned h ht hp' t' d' =>
        simp at h
        simp [verdictC05, hen, hfan, h1, h2, h4, ha, hp, throttled, ht, h, hp', ErrV.isBad]
    · exact absurd (hbad _ rfl) (by decide)
  | panicked ha hp ht v hv =>
    simp [verdictC05, hen, hv, h1]
  | returned ha hp ht hv t d =>
    rcases hfb with ⟨e, he, hb, hfc⟩ | ⟨hbad, _, hf, _⟩
    · have he' : runValue ⟨ctx, some sc, fb⟩ = some e := by injection he
      cases hfc with
      | skipped h =>
        simp at h
        simp [verdictC05, hen, hfan, h1, h2, h4, ha, hp, hv, he', hb]
        intros; simp_all
      | throttled h ht t' d' =>
        simp at h
        simp [verdictC05, hen, hfan, h1, h2, h4, ha, hp, hv, he', hb, throttled, ht, h]
      | panicked h ht v hp' =>
        simp at h
        simp [verdictC05, hen, hfan, h1, h2, h4, ha, hp, hv, he', hb, throttled, ht, h, hp']
      | returned h ht hp' t' d' =>
        simp at h
        simp [verdictC05, hen, hfan, h1, h2, h4, ha, hp, hv, he', hb, throttled, ht, h, hp']
    · cases hrv : runValue ⟨ctx, some sc, fb⟩ with
      | none => simp [verdictC05, hen, hfan, h1, h2, h4, ha, hp, hv, hrv, hf]
      | some e =>
        have hb := hbad e (by rw [hrv])
        simp [verdictC05, hen, hfan, h1, h2, h4, ha, hp, hv, hrv, hf, hb]

/-! ### the C06 verdict and the nil characterisation on the characterised outcome -/
set_option linter.unusedSimpArgs false in
theorem c06_pure (cfg : LiveCfg) (adm pv : Bool) (ctx : CallerCtx) (sc : Script) (fb : Option Script) (o : ExecObs)
    (thr : Prop) (hen : cfg.disabled = false)
    (seen : Bool) (evs : List (Kind × Int × Int)) (res1 : Res) (arg : Option ErrV)
    (fevs : List (FbKind × Int × Int)) (res : Res)
    (hrc : RunCase cfg adm pv ⟨ctx, some sc, fb⟩ sc thr seen evs res1)
    (h1 : o.runCalls = if seen then 1 else 0) (h3 : o.fbArg = arg)
    (h3' : o.fbCalls = if arg.isSome then 1 else 0) (h5 : o.res = res)
    (hfb : (∃ e, res1 = .ret (some e) ∧ e.isBad = false ∧
          FbCase cfg ⟨ctx, some sc, fb⟩ (if seen then 1 else 0) e [] arg fevs res) ∨
       ((∀ e, res1 = .ret (some e) → e.isBad = true) ∧ arg = none ∧ fevs = [] ∧ res = res1)) :
    verdictC06 cfg ⟨ctx, some sc, fb⟩ o = none := by
  cases hrc with
  | shortCircuit ha t d =>
    rcases hfb with ⟨e, he, hb, hfc⟩ | ⟨hbad, _, hf, _⟩
    · cases he
      cases hfc with
      | skipped h =>
        simp at h
        simp [verdictC06, hen, h1, h3, h3', h5, isPanic, isRejection]
        intros; simp_all
      | throttled h ht t' d' =>
        simp at h
        simp [verdictC06, hen, h1, h3, h3', h5, isPanic, isRejection, throttled, ht, h]
      | panicked h ht v hp =>
        simp [verdictC06, hen, h1, h3, h3', h5, isPanic]
      | returned h ht hp t' d' =>
        simp at h
        simp [verdictC06, hen, h1, h3, h3', h5, isPanic, isRejection, throttled, ht, h]
    · exact absurd (hbad _ rfl) (by decide)
  | vetoed ha hp =>
    rcases hfb with ⟨e, he, hb, hfc⟩ | ⟨hbad, _, hf, _⟩
    · cases he
      cases hfc with
      | skipped h =>
        simp at h
        simp [verdictC06, hen, h1, h3, h3', h5, isPanic, isRejection]
        intros; simp_all
      | throttled h ht t' d' =>
        simp at h
        simp [verdictC06, hen, h1, h3, h3', h5, isPanic, isRejection, throttled, ht, h]
      | panicked h ht v hp =>
        simp [verdictC06, hen, h1, h3, h3', h5, isPanic]
      | returned h ht hp t' d' =>
        simp at h
        simp [verdictC06, hen, h1, h3, h3', h5, isPanic, isRejection, throttled, ht, h]
    · exact absurd (hbad _ rfl) (by decide)
  | throttled ha hp ht t d =>
    rcases hfb with ⟨e, he, hb, hfc⟩ | ⟨hbad, _, hf, _⟩
    · cases he
      cases hfc with
      | skipped h =>
        simp at h
        simp [verdictC06, hen, h1, h3, h3', h5, isPanic, isRejection]
        intros; simp_all
      | throttled h ht t' d' =>
        simp at h
        simp [verdictC06, hen, h1, h3, h3', h5, isPanic, isRejection, throttled, ht, h]
      | panicked h ht v hp =>
        simp [verdictC06, hen, h1, h3, h3', h5, isPanic]
      | returned h ht hp t' d' =>
        simp at h
        simp [verdictC06, hen, h1, h3, h3', h5, isPanic, isRejection, throttled, ht, h]
    · exact absurd (hbad _ rfl) (by decide)
  | panicked ha hp ht v hv =>
    rcases hfb with ⟨e, he, hb, hfc⟩ | ⟨hbad, ha', hf, hr⟩
    · cases he
    · simp [verdictC06, h1, h3', ha', h5, hr, isPanic]
  | returned ha hp ht hv t d =>
    rcases hfb with ⟨e, he, hb, hfc⟩ | ⟨hbad, ha', hf, hr⟩
    · have he' : runValue ⟨ctx, some sc, fb⟩ = some e := by injection he
      cases hfc with
      | skipped h =>
        simp at h
        simp [verdictC06, hen, h1, h3, h3', h5, isPanic, he', hb]
        intros; simp_all
      | throttled h ht t' d' =>
        simp at h
        simp [verdictC06, hen, h1, h3, h3', h5, isPanic, he', hb, throttled, ht, h]
      | panicked h ht v hp =>
        simp [verdictC06, hen, h1, h3, h3', h5, isPanic]
      | returned h ht hp t' d' =>
        simp at h
        simp [verdictC06, hen, h1, h3, h3', h5, isPanic, he', hb, throttled, ht, h]
    · subst ha' hr
      cases hrv : runValue ⟨ctx, some sc, fb⟩ with
      | none => simp [verdictC06, hen, h1, h3, h3', h5, isPanic, hrv]
      | some e =>
        have hb := hbad e (by rw [hrv])
        simp [verdictC06, hen, h1, h3, h3', h5, isPanic, hrv, hb]

theorem nil_pure (cfg : LiveCfg) (adm pv : Bool) (ctx : CallerCtx) (sc : Script) (fb : Option Script) (o : ExecObs)
    (thr : Prop)
    (seen : Bool) (evs : List (Kind × Int × Int)) (res1 : Res) (arg : Option ErrV)
    (fevs : List (FbKind × Int × Int)) (res : Res)
    (hrc : RunCase cfg adm pv ⟨ctx, some sc, fb⟩ sc thr seen evs res1)
    (h1 : o.runCalls = if seen then 1 else 0)
    (h3' : o.fbCalls = if arg.isSome then 1 else 0) (h5 : o.res = res)
    (hfb : (∃ e, res1 = .ret (some e) ∧ e.isBad = false ∧
          FbCase cfg ⟨ctx, some sc, fb⟩ (if seen then 1 else 0) e [] arg fevs res) ∨
       ((∀ e, res1 = .ret (some e) → e.isBad = true) ∧ arg = none ∧ fevs = [] ∧ res = res1)) :
    o.res = .ret none ↔
      ((⟨ctx, some sc, fb⟩ : ExecOp).run = none ∨
       (o.runCalls = 1 ∧ (runPanics ⟨ctx, some sc, fb⟩).isNone ∧ runValue ⟨ctx, some sc, fb⟩ = none) ∨
       (o.fbCalls = 1 ∧ (fbPanics ⟨ctx, some sc, fb⟩).isNone ∧ fbValue ⟨ctx, some sc, fb⟩ o.runCalls = none)) := by
  cases hrc with
  | shortCircuit ha t d =>
    rcases hfb with ⟨e, he, hb, hfc⟩ | ⟨hbad, _, hf, _⟩
    · cases he
      cases hfc with
      | skipped h => simp [h1, h3', h5]
      | throttled h ht t' d' => simp [h1, h3', h5]
      | panicked h ht v hp => simp [h1, h3', h5, hp]
      | returned h ht hp t' d' => simp [h1, h3', h5, hp]
    · exact absurd (hbad _ rfl) (by decide)
  | vetoed ha hp =>
    rcases hfb with ⟨e, he, hb, hfc⟩ | ⟨hbad, _, hf, _⟩
    · cases he
      cases hfc with
      | skipped h => simp [h1, h3', h5]
      | throttled h ht t' d' => simp [h1, h3', h5]
      | panicked h ht v hp => simp [h1, h3', h5, hp]
      | returned h ht hp t' d' => simp [h1, h3', h5, hp]
    · exact absurd (hbad _ rfl) (by decide)
  | throttled ha hp ht t d =>
    rcases hfb with ⟨e, he, hb, hfc⟩ | ⟨hbad, _, hf, _⟩
    · cases he
      cases hfc with
      | skipped h => simp [h1, h3', h5]
      | throttled h ht t' d' => simp [h1, h3', h5]
      | panicked h ht v hp => simp [h1, h3', h5, hp]
      | returned h ht hp t' d' => simp [h1, h3', h5, hp]
    · exact absurd (hbad _ rfl) (by decide)
  | panicked ha hp ht v hv =>
    rcases hfb with ⟨e, he, hb, hfc⟩ | ⟨hbad, ha', hf, hr⟩
    · cases he
    · simp [h1, h3', ha', h5, hr, hv]
  | returned ha hp ht hv t d =>
    rcases hfb with ⟨e, he, hb, hfc⟩ | ⟨hbad, ha', hf, hr⟩
    · have he' : runValue ⟨ctx, some sc, fb⟩ = some e := by injection he
      cases hfc with
      | skipped h => simp [h1, h3', h5, he']
      | throttled h ht t' d' => simp [h1, h3', h5, he']
      | panicked h ht v hp => simp [h1, h3', h5, hp, he']
      | returned h ht hp t' d' => simp [h1, h3', h5, hp, he']
    · simp [h1, h3', ha', h5, hr, hv]

/-! ### fan-out: the recording (scripted) logic receives exactly the non-fallback callbacks -/

/-- the callbacks that go to closer and opener: everything but fallback events -/
def nonFb (l : List Emit) : List Emit := l.filter (fun e => match e with | .fb _ _ _ => false | _ => true)

theorem nonFb_append (a b : List Emit) : nonFb (a ++ b) = nonFb a ++ nonFb b := by simp [nonFb]
@[simp] theorem nonFb_nil : nonFb [] = [] := rfl
@[simp] theorem nonFb_run (k : Kind) (t d : Int) : nonFb [.run k t d] = [.run k t d] := rfl
@[simp] theorem nonFb_fb (k : FbKind) (t d : Int) : nonFb [.fb k t d] = [] := rfl
@[simp] theorem nonFb_opened (t : Int) : nonFb [.opened t] = [.opened t] := rfl
@[simp] theorem nonFb_closed (t : Int) : nonFb [.closed t] = [.closed t] := rfl

/-- both recording logs are the initial logs extended by the non-fallback callbacks delivered so far -/
def LogInv (so : ScriptedO) (sc : ScriptedC) (s : St OState CState) : Prop :=
  ∃ so' sc', s.1.opener = .scripted so' ∧ s.1.closer = .scripted sc' ∧
    so'.log = so.log ++ nonFb s.2.emits ∧ sc'.log = sc.log ++ nonFb s.2.emits

variable {so : ScriptedO} {sc : ScriptedC}

theorem LogInv.of_eq {s s' : St OState CState} (h : LogInv so sc s) (ho : s'.1.opener = s.1.opener)
    (hc : s'.1.closer = s.1.closer) (he : s'.2.emits = s.2.emits) : LogInv so sc s' := by
  obtain ⟨so', sc', h1, h2, h3, h4⟩ := h
  exact ⟨so', sc', ho.trans h1, hc.trans h2, by rw [he]; exact h3, by rw [he]; exact h4⟩

theorem emitRun_inv {s : St OState CState} (h : LogInv so sc s) (k : Kind) (t d : Int) :
    LogInv so sc (emitRun openerI closerI s k t d) := by
  obtain ⟨so', sc', h1, h2, h3, h4⟩ := h
  refine ⟨{ so' with log := so'.log ++ [.run k t d] }, { sc' with log := sc'.log ++ [.run k t d] }, ?_, ?_, ?_, ?_⟩
  · simp [emitRun, h1, openerI]
  · simp [emitRun, h2, closerI]
  · simp [emitRun, h3, nonFb_append]
  · simp [emitRun, h4, nonFb_append]

theorem emitFb_inv {s : St OState CState} (h : LogInv so sc s) (k : FbKind) (t d : Int) :
    LogInv so sc (emitFb s k t d) := by
  obtain ⟨so', sc', h1, h2, h3, h4⟩ := h
  refine ⟨so', sc', h1, h2, ?_, ?_⟩
  · simp [emitFb, h3, nonFb_append]
  · simp [emitFb, h4, nonFb_append]

theorem openCircuit_inv {s : St OState CState} (h : LogInv so sc s) (t : Int) :
    LogInv so sc (openCircuit openerI closerI s t) := by
  unfold openCircuit
  split
  · exact h
  · split
    · exact h
    · obtain ⟨so', sc', h1, h2, h3, h4⟩ := h
      refine ⟨{ so' with log := so'.log ++ [.opened t] }, { sc' with log := sc'.log ++ [.opened t] }, ?_, ?_, ?_, ?_⟩
      · simp [h1, openerI]
      · simp [h2, closerI]
      · simp [h3, nonFb_append]
      · simp [h4, nonFb_append]

theorem attemptToOpen_inv {s : St OState CState} (h : LogInv so sc s) (t : Int) :
    LogInv so sc (attemptToOpen openerI closerI s t) := by
  unfold attemptToOpen
  split
  · exact h
  · split
    · exact h
    · have h' : LogInv so sc (({ s.1 with opener := (openerI.shouldOpen s.1.opener t).1 }, s.2) : St OState CState) := by
        obtain ⟨so', sc', h1, h2, h3, h4⟩ := h
        exact ⟨so', sc', by simp [h1, openerI], h2, h3, h4⟩
      simp only []
      split
      · exact openCircuit_inv h' t
      · exact h'

theorem closeCircuit_inv {s : St OState CState} (h : LogInv so sc s) (t : Int) (force : Bool) :
    LogInv so sc (closeCircuit openerI closerI s t force) := by
  unfold closeCircuit
  split
  · exact h
  · split
    · exact h
    · obtain ⟨so', sc', h1, h2, h3, h4⟩ := h
      cases force
      · by_cases hs : (closerI.shouldClose s.1.closer t).2 = true
        · simp only [Bool.false_eq_true, if_false, hs, if_true]
          refine ⟨{ so' with log := so'.log ++ [.closed t] }, { sc' with log := sc'.log ++ [.closed t] }, ?_, ?_, ?_, ?_⟩
          · simp [h1, openerI]
          · simp [h2, closerI]
          · simp [h3, nonFb_append]
          · simp [h4, nonFb_append]
        · simp only [Bool.false_eq_true, if_false, hs]
          exact ⟨so', sc', h1, by simp [h2, closerI], h3, h4⟩
      · simp only [if_true]
        refine ⟨{ so' with log := so'.log ++ [.closed t] }, { sc' with log := sc'.log ++ [.closed t] }, ?_, ?_, ?_, ?_⟩
        · simp [h1, openerI]
        · simp [h2, closerI]
        · simp [h3, nonFb_append]
        · simp [h4, nonFb_append]

theorem allowNewRun_inv {s : St OState CState} (h : LogInv so sc s) (t : Int) :
    LogInv so sc (allowNewRun closerI s t).1 := by
  unfold allowNewRun
  split
  · exact h
  · split
    · exact h
    · obtain ⟨so', sc', h1, h2, h3, h4⟩ := h
      exact ⟨so', sc', h1, by simp [h2, closerI], h3, h4⟩


theorem classifyTail_inv {s : St OState CState} (h : LogInv so sc s) (ctx : CallerCtx) (scr : Script)
    (ret : Option ErrV) (start doneT total : Int) :
    LogInv so sc (classifyTail openerI closerI s ctx scr ret start doneT total) := by
  have ha : ∀ (b : Bool) (s' : St OState CState), LogInv so sc s' →
      LogInv so sc (if b = true then attemptToOpen openerI closerI s' doneT else s') := by
    intro b s' h'; cases b
    · exact h'
    · exact attemptToOpen_inv h' doneT
  have hc : ∀ (b : Bool) (s' : St OState CState), LogInv so sc s' →
      LogInv so sc (if b = true then closeCircuit openerI closerI s' doneT false else s') := by
    intro b s' h'; cases b
    · exact h'
    · exact closeCircuit_inv h' doneT false
  unfold classifyTail
  by_cases h1 : isBadO ret = true
  · simp only [h1, if_true]
    exact emitRun_inv h _ _ _
  simp only [h1]
  by_cases h2 : s.1.cfg.timeout > 0 ∧ start + s.1.cfg.timeout < doneT
  · simp only [h2, and_self, if_true]
    exact ha _ _ (emitRun_inv h _ _ _)
  simp only [h2, if_false]
  by_cases h3 : interruptCond s.1.cfg ctx scr ret = true
  · simp only [h3, if_true]
    exact emitRun_inv h _ _ _
  simp only [h3]
  by_cases h4 : ret.isSome = true
  · simp only [h4, if_true]
    exact ha _ _ (emitRun_inv h _ _ _)
  simp only [h4]
  exact hc _ _ (emitRun_inv h _ _ _)

theorem classify_inv {s : St OState CState} (h : LogInv so sc s) (ctx : CallerCtx) (scr : Script)
    (ret : Option ErrV) (start : Int) :
    LogInv so sc (classify openerI closerI s ctx scr ret start) := by
  rw [classify_eq]
  exact classifyTail_inv (h.of_eq (s' := (now (now s).2).2) rfl rfl rfl) ctx scr ret start _ _

theorem runAdmitted_inv {s : St OState CState} (h : LogInv so sc s) (ctx : CallerCtx) (scr : Script) (start : Int) :
    LogInv so sc (runAdmitted openerI closerI s ctx scr start).1 := by
  unfold runAdmitted
  by_cases ht : s.1.cfg.maxConc ≥ 0 ∧ s.1.conc + 1 > s.1.cfg.maxConc
  · simp only [ht, and_self, if_true]
    exact (emitRun_inv (s := (({ s.1 with conc := s.1.conc + 1 } : Circ OState CState), s.2))
      (h.of_eq rfl rfl rfl) .reject start 0).of_eq rfl rfl rfl
  simp only [ht, if_false]
  cases hact : scr.act with
  | panic v => exact h.of_eq rfl rfl rfl
  | ret e =>
    exact (classify_inv (s := (({ s.1 with conc := s.1.conc + 1, clock := s.1.clock + scr.adv } : Circ OState CState),
      ({ s.2 with runSeen := some (derivedSeen s.1.cfg ctx start) } : Obs))) (h.of_eq rfl rfl rfl) ctx scr _ start).of_eq
      rfl rfl rfl
  | retCtxErr =>
    exact (classify_inv (s := (({ s.1 with conc := s.1.conc + 1, clock := s.1.clock + scr.adv } : Circ OState CState),
      ({ s.2 with runSeen := some (derivedSeen s.1.cfg ctx start) } : Obs))) (h.of_eq rfl rfl rfl) ctx scr _ start).of_eq
      rfl rfl rfl

theorem runStep_inv {s : St OState CState} (h : LogInv so sc s) (ctx : CallerCtx) (run : Option Script) :
    LogInv so sc (runStep openerI closerI s ctx run).1 := by
  cases run with
  | none => exact h
  | some scr =>
    rw [runStep_some]
    have ha : LogInv so sc (allowNewRun closerI (now s).2 s.1.clock).1 :=
      allowNewRun_inv (h.of_eq (s' := (now s).2) rfl rfl rfl) _
    generalize allowNewRun closerI (now s).2 s.1.clock = a at *
    have hp : LogInv so sc (({ a.1.1 with opener := (openerI.prevent a.1.1.opener s.1.clock).1 }, a.1.2) :
        St OState CState) := by
      obtain ⟨so', sc', h1, h2, h3, h4⟩ := ha
      exact ⟨so', sc', by simp [h1, openerI], h2, h3, h4⟩
    cases a.2
    · simp only [Bool.not_false, if_true]
      exact emitRun_inv ha _ _ _
    · simp only [Bool.not_true, Bool.false_eq_true, if_false]
      split
      · exact hp
      · exact runAdmitted_inv hp ctx scr _

theorem emitFbRes_inv {s : St OState CState} (h : LogInv so sc s) (r : Option ErrV) (start total : Int) :
    LogInv so sc (emitFbRes s r start total) := by
  cases r
  · exact emitFb_inv h _ _ _
  · exact emitFb_inv h _ _ _

theorem fallbackStep_inv {s : St OState CState} (h : LogInv so sc s) (ctx : CallerCtx) (run : Option Script)
    (e : ErrV) (fb : Option Script) :
    LogInv so sc (fallbackStep s ctx run e fb).1 := by
  cases fb with
  | none => exact h
  | some scr =>
    by_cases hd : s.1.cfg.fbDisabled = true
    · rw [fallbackStep_disabled s ctx run e scr hd]; exact h
    have hd' : s.1.cfg.fbDisabled = false := by simpa using hd
    by_cases ht : s.1.cfg.fbMaxConc ≥ 0 ∧ s.1.concFb + 1 > s.1.cfg.fbMaxConc
    · unfold fallbackStep
      simp only [hd', Bool.false_eq_true, if_false, ht, and_self, if_true]
      exact (emitFb_inv (s := (now (({ s.1 with concFb := s.1.concFb + 1 } : Circ OState CState), s.2)).2)
        (h.of_eq rfl rfl rfl) .reject _ 0).of_eq rfl rfl rfl
    rw [fallbackStep_invoke s ctx run e scr hd' ht]
    unfold fallbackInvoke
    cases hact : scr.act with
    | panic v => exact h.of_eq rfl rfl rfl
    | ret e' =>
      simp only []
      exact (emitFbRes_inv (h.of_eq (s' := (now (({ s.1 with concFb := s.1.concFb + 1, clock := s.1.clock + 1 + scr.adv } : Circ OState CState),
        ({ s.2 with readings := s.2.readings ++ [s.1.clock], fbArg := some e, fbSameCtx := true } : Obs))).2) rfl rfl rfl) _ _ _).of_eq rfl rfl rfl
    | retCtxErr =>
      simp only []
      exact (emitFbRes_inv (h.of_eq (s' := (now (({ s.1 with concFb := s.1.concFb + 1, clock := s.1.clock + 1 + scr.adv } : Circ OState CState),
        ({ s.2 with readings := s.2.readings ++ [s.1.clock], fbArg := some e, fbSameCtx := true } : Obs))).2) rfl rfl rfl) _ _ _).of_eq rfl rfl rfl

theorem execTail_inv {p : St OState CState × Res} (h : LogInv so sc p.1) (ctx : CallerCtx) (run fb : Option Script) :
    LogInv so sc ((execTail p ctx run fb).1, (execTail p ctx run fb).2.1) := by
  obtain ⟨s, r⟩ := p
  cases r with
  | ret oe =>
    cases oe with
    | none => exact h
    | some e =>
      by_cases hb : e.isBad = true
      · rw [execTail_bad s e ctx run fb hb]; exact h
      · rw [execTail_fb s e ctx run fb (by simpa using hb)]
        exact fallbackStep_inv h ctx run e fb
  | panic v => exact h
  | nilFunc => exact h

theorem execute_inv (c : Circ OState CState) (h : LogInv so sc (c, {})) (ctx : CallerCtx) (run fb : Option Script) :
    LogInv so sc ((execute openerI closerI c ctx run fb).1, (execute openerI closerI c ctx run fb).2.1) := by
  by_cases hdis : c.cfg.disabled = true
  · unfold execute
    simp only [hdis, if_true]
    cases run with
    | none => exact h
    | some scr =>
      simp only []
      cases hact : scr.act <;> exact h.of_eq rfl rfl rfl
  · rw [execute_enabled openerI closerI c ctx run fb (by simpa using hdis)]
    exact execTail_inv (runStep_inv h ctx run) ctx run fb

end CM

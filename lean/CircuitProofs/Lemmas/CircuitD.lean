import CircuitModel.CircuitOps
import CircuitModel.Logic
import CircuitProofs.Props.CircuitCommon
namespace CM
end CM

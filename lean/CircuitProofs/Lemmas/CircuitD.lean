/-
  Lemmas/CircuitD.lean — helper lemmas for Props/C03Circuit.lean: an open circuit closes exactly when the closer,
  told of a successful probe, says so (the mirror image of `opens_core` in Lemmas/Opener.lean), and nothing closes
  a circuit while ForceOpen is set.  Core Lean only.
-/
import CircuitModel.CircuitOps
import CircuitModel.Logic
import CircuitProofs.Props.CircuitCommon
import CircuitProofs.Lemmas.Opener
import CircuitProofs.Lemmas.CircuitB
namespace CM
open SpecCircuit CM.Props

section
variable {σo σc : Type} (O : OpenerI σo) (C : CloserI σc)

/-! ### closing: an open circuit closes exactly when the closer says so -/

/-- `close(ctx, now, false)` on an open, not overridden circuit: ask the closer, close iff it says yes -/
theorem closeCircuit_spec (s : St σo σc) (t : Int) (hfo : s.1.cfg.forceOpen = false)
    (hfc : s.1.cfg.forcedClosed = false) (hop : s.1.isOpen = true) :
    ((closeCircuit O C s t false).1.isOpen = false ↔ (C.shouldClose s.1.closer t).2 = true) ∧
    ((closeCircuit O C s t false).1.isOpen = false → Emit.closed t ∈ (closeCircuit O C s t false).2.emits) := by
  have he : isOpenEff s.1 = true := by rw [isOpenEff_eq s.1 hfo hfc, hop]
  unfold closeCircuit
  rw [if_neg (by simp [he]), if_neg (by simp [hfo])]
  cases h : C.shouldClose s.1.closer t with
  | mk cl ans =>
    cases ans with
    | false => simp [hop]
    | true => simp

/-- the success branch of the classification chain: tell everyone, then ask the closer -/
theorem okBranch_spec (s : St σo σc) (t total : Int) (hfo : s.1.cfg.forceOpen = false)
    (hfc : s.1.cfg.forcedClosed = false) (hop : s.1.isOpen = true) :
    let s' := emitRun O C s .success t total
    let r := if isOpenEff s'.1 then closeCircuit O C s' t false else s'
    (r.1.isOpen = false ↔ (C.shouldClose (C.onRun s.1.closer .success t total) t).2 = true) ∧
    (r.1.isOpen = false → Emit.closed t ∈ r.2.emits) := by
  intro s' r
  have hfo' : s'.1.cfg.forceOpen = false := hfo
  have hfc' : s'.1.cfg.forcedClosed = false := hfc
  have hop' : s'.1.isOpen = true := hop
  have he : isOpenEff s'.1 = true := by rw [isOpenEff_eq s'.1 hfo' hfc', hop']
  have hr : r = closeCircuit O C s' t false := by simp [r, he]
  rw [hr]
  exact closeCircuit_spec O C s' t hfo' hfc' hop'

/-- the failure / timeout branches on an open circuit: the opener is not even asked -/
theorem errBranch_open (s : St σo σc) (k : Kind) (t total : Int) (hfo : s.1.cfg.forceOpen = false)
    (hfc : s.1.cfg.forcedClosed = false) (hop : s.1.isOpen = true) :
    (if !isOpenEff (emitRun O C s k t total).1 then attemptToOpen O C (emitRun O C s k t total) t
      else emitRun O C s k t total).1.isOpen = true := by
  have he : isOpenEff (emitRun O C s k t total).1 = true := by
    rw [isOpenEff_eq (emitRun O C s k t total).1 hfo hfc]; exact hop
  rw [he]
  exact hop

theorem not_closed_spec {r : St σo σc} {k : Kind} {P Q : Prop} (ht : r.1.isOpen = true) (hk : k ≠ .success) :
    (r.1.isOpen = false ↔ (k = .success ∧ P)) ∧ (r.1.isOpen = false → Q) := by
  rw [ht]
  exact ⟨⟨fun h => (by cases h), fun h => absurd h.1 hk⟩, fun h => (by cases h)⟩

theorem classify_close_spec (s : St σo σc) (ctx : CallerCtx) (sc : Script) (ret : Option ErrV) (start : Int)
    (hfo : s.1.cfg.forceOpen = false) (hfc : s.1.cfg.forcedClosed = false) (hop : s.1.isOpen = true) :
    let doneT := s.1.clock + 1
    let total := s.1.clock - start
    let k := classKind s.1.cfg ctx sc ret start doneT
    let r := classify O C s ctx sc ret start
    (r.1.isOpen = false ↔
      (k = .success ∧ (C.shouldClose (C.onRun s.1.closer .success doneT total) doneT).2 = true)) ∧
    (r.1.isOpen = false → Emit.closed doneT ∈ r.2.emits) := by
  intro doneT total k r
  let s2 : St σo σc := (now (now s).2).2
  have hfo2 : s2.1.cfg.forceOpen = false := hfo
  have hfc2 : s2.1.cfg.forcedClosed = false := hfc
  have hop2 : s2.1.isOpen = true := hop
  have hr0 : r = classify O C s ctx sc ret start := rfl
  have hk0 : k = classKind s.1.cfg ctx sc ret start doneT := rfl
  rw [classify_eq] at hr0
  simp only [classKind] at hk0
  simp only at hr0
  by_cases h1 : isBadRet ret = true
  · rw [if_pos h1] at hr0 hk0
    rw [hr0, hk0]
    exact not_closed_spec hop (by decide)
  · rw [if_neg h1] at hr0 hk0
    by_cases h2 : s.1.cfg.timeout > 0 ∧ start + s.1.cfg.timeout < doneT
    · rw [if_pos h2] at hr0 hk0
      rw [hr0, hk0]
      exact not_closed_spec (errBranch_open O C s2 .timeout doneT total hfo2 hfc2 hop2) (by decide)
    · rw [if_neg h2] at hr0 hk0
      -- (the matcher of the interrupt test is file-local, so abstract the whole test instead of restating it)
      generalize (ret.isSome && (ctxErrAfter ctx sc).isSome && !s.1.cfg.ignoreInterrupts && _) = b at hr0 hk0
      cases b
      · rw [if_neg Bool.false_ne_true] at hr0 hk0
        by_cases h4 : ret.isSome = true
        · rw [if_pos h4] at hr0 hk0
          rw [hr0, hk0]
          exact not_closed_spec (errBranch_open O C s2 .failure doneT total hfo2 hfc2 hop2) (by decide)
        · rw [if_neg h4] at hr0 hk0
          obtain ⟨e1, e2⟩ := okBranch_spec O C s2 doneT total hfo2 hfc2 hop2
          rw [hr0, hk0]
          refine ⟨?_, e2⟩
          rw [e1]
          exact ⟨fun h => ⟨rfl, h⟩, fun h => h.2⟩
      · rw [if_pos (rfl : true = true)] at hr0 hk0
        rw [hr0, hk0]
        exact not_closed_spec hop (by decide)

/-- `run` when the closer admitted the call (its state may have changed), Prevent did not veto, no throttling and
    no panic: what remains is the classification chain -/
theorem runStep_allowed_gen2 (s s1 s2 : St σo σc) (start : Int) (o : σo) (ctx : CallerCtx) (sc : Script)
    (hn : now s = (start, s1)) (h1 : allowNewRun C s1 start = (s2, true))
    (h2 : O.prevent s2.1.opener start = (o, false))
    (hthr : ¬ (s2.1.cfg.maxConc ≥ 0 ∧ s2.1.conc + 1 > s2.1.cfg.maxConc)) (hnp : ∀ v, sc.act ≠ .panic v) :
    let s3 : St σo σc := ({ s2.1 with opener := o, conc := s2.1.conc + 1, clock := s2.1.clock + sc.adv },
      { s2.2 with runSeen := some (derivedSeen s2.1.cfg ctx start) })
    let ret := actValue sc (ctxErrAfter ctx sc)
    let s4 := classify O C s3 ctx sc ret start
    let r := runStep O C s ctx (some sc)
    r.1.1.isOpen = s4.1.isOpen ∧ r.1.2.emits = s4.2.emits ∧ r.2 = .ret ret := by
  intro s3 ret s4 r
  have hr : r = runStep O C s ctx (some sc) := rfl
  simp only [runStep, hn, h1, h2, Bool.not_true, Bool.false_eq_true, if_false, hthr] at hr
  rw [hr]
  exact ⟨rfl, rfl, rfl⟩

/-- C03, circuit level -/
theorem closes_core (c : Circ σo σc) (op : ExecOp) (sc : Script)
    (hen : c.cfg.disabled = false) (hfo : c.cfg.forceOpen = false) (hfc : c.cfg.forcedClosed = false)
    (hopen : c.isOpen = true) (hrun : op.run = some sc) (hnp : ∀ v, sc.act ≠ .panic v)
    (hallow : (C.allow c.closer c.clock).2 = true)
    (hpv : O.prevent c.opener c.clock = (c.opener, false))
    (hthr : ¬ (c.cfg.maxConc ≥ 0 ∧ c.conc + 1 > c.cfg.maxConc)) :
    ((execute O C c op.ctx op.run op.fb).1.isOpen = false ↔
      (expectedExecutedKind c.cfg op sc = .success ∧
        (C.shouldClose (C.onRun (C.allow c.closer c.clock).1 .success (c.clock + 1 + sc.adv + 1) (sc.adv + 1))
          (c.clock + 1 + sc.adv + 1)).2 = true)) ∧
    ((execute O C c op.ctx op.run op.fb).1.isOpen = false →
      Emit.closed (c.clock + 1 + sc.adv + 1) ∈ (execute O C c op.ctx op.run op.fb).2.1.emits) := by
  obtain ⟨x1, x2⟩ := execute_keeps O C c op.ctx op.run op.fb hen
  rw [hrun] at x1 x2 ⊢
  let s1 : St σo σc := ({ c with clock := c.clock + 1 }, { readings := [] ++ [c.clock] })
  let s2 : St σo σc := ({ s1.1 with closer := (C.allow c.closer c.clock).1 }, s1.2)
  have h1 : allowNewRun C s1 c.clock = (s2, true) := by
    have he : isOpenEff s1.1 = true := by rw [isOpenEff_eq s1.1 hfo hfc]; exact hopen
    have hfo1 : s1.1.cfg.forceOpen = false := hfo
    unfold allowNewRun
    rw [if_neg (by simp [he]), if_neg (by simp [hfo1])]
    show (({ s1.1 with closer := (C.allow c.closer c.clock).1 }, s1.2), (C.allow c.closer c.clock).2) = (s2, true)
    rw [hallow]
  obtain ⟨y1, y2, _⟩ := runStep_allowed_gen2 O C (c, {}) s1 s2 c.clock c.opener op.ctx sc rfl h1 hpv hthr hnp
  obtain ⟨z1, z2⟩ := classify_close_spec O C
    (({ s2.1 with opener := c.opener, conc := s2.1.conc + 1, clock := s2.1.clock + sc.adv },
      { s2.2 with runSeen := some (derivedSeen s2.1.cfg op.ctx c.clock) }) : St σo σc)
    op.ctx sc (actValue sc (ctxErrAfter op.ctx sc)) c.clock hfo hfc hopen
  simp only at y1 y2 z1 z2
  have ht : c.clock + 1 + sc.adv - c.clock = sc.adv + 1 := by omega
  rw [← y1, ← x1, ht] at z1
  rw [← y1, ← x1, ← y2] at z2
  have hk := classKind_eq c.cfg op sc c.clock hrun
  refine ⟨?_, fun h => x2 _ (z2 h)⟩
  rw [← hk]
  exact z1

/-! ### ForceOpen: nothing closes the circuit -/

/-- a fallback step delivers fallback events only -/
theorem fallbackStep_emits (s : St σo σc) (ctx : CallerCtx) (runSc : Option Script) (err : ErrV) (fb : Option Script) :
    ∀ e ∈ (fallbackStep s ctx runSc err fb).1.2.emits, e ∈ s.2.emits ∨ ∃ k t d, e = Emit.fb k t d := by
  unfold fallbackStep
  cases fb with
  | none => exact fun e h => Or.inl h
  | some sc =>
    simp only
    split
    · exact fun e h => Or.inl h
    · split
      · intro e h
        simp only [emitFb, now, List.mem_append, List.mem_singleton] at h
        rcases h with h | h
        · exact Or.inl h
        · exact Or.inr ⟨_, _, _, h⟩
      · split
        · exact fun e h => Or.inl h
        · split
          · intro e h
            simp only [emitFb, now, List.mem_append, List.mem_singleton] at h
            rcases h with h | h
            · exact Or.inl h
            · exact Or.inr ⟨_, _, _, h⟩
          · intro e h
            simp only [emitFb, now, List.mem_append, List.mem_singleton] at h
            rcases h with h | h
            · exact Or.inl h
            · exact Or.inr ⟨_, _, _, h⟩

theorem isOpenEff_forceOpen (c : Circ σo σc) (h : c.cfg.forceOpen = true) : isOpenEff c = true := by
  simp [isOpenEff, h]

/-- under ForceOpen an Execute delivers no Closed notification and does not touch the flag -/
theorem execute_forceOpen (c : Circ σo σc) (h : c.cfg.forceOpen = true) (ctx : CallerCtx) (run fb : Option Script) :
    (∀ t, Emit.closed t ∉ (execute O C c ctx run fb).2.1.emits) ∧ (execute O C c ctx run fb).1.isOpen = c.isOpen := by
  cases hd : c.cfg.disabled with
  | true =>
    cases run with
    | none => rw [execute_disabled_none O C c hd]; exact ⟨fun t ht => (by cases ht), rfl⟩
    | some sc => rw [execute_disabled_some O C c hd]; exact ⟨fun t ht => (by cases ht), rfl⟩
  | false =>
    cases run with
    | none =>
      rw [execute_enabled O C c hd]
      exact ⟨fun t ht => (by cases ht), rfl⟩
    | some sc =>
      have hs := runStep_shed O C c ctx sc (actualAdmission_forceOpen C c h)
      rw [execute_rejected O C c hd ctx (some sc) fb _ hs]
      have hobs := shedState_obs O C c
      have hio : (shedState O C c).1.isOpen = c.isOpen := by
        unfold shedState
        rw [allowNewRun_of_forceOpen C _ _ (by exact h)]
        rfl
      obtain ⟨k1, _⟩ := fallbackStep_keeps (shedState O C c) ctx (some sc) .circuitOpen fb
      refine ⟨?_, by rw [k1, hio]⟩
      intro t ht
      rcases fallbackStep_emits (shedState O C c) ctx (some sc) .circuitOpen fb _ ht with h' | ⟨k, t', d, h'⟩
      · rw [hobs] at h'
        simp at h'
      · cases h'

theorem manualOpen_forceOpen (c : Circ σo σc) (h : c.cfg.forceOpen = true) :
    (manualOpen O C c).2.emits = [] ∧ (manualOpen O C c).1.isOpen = c.isOpen := by
  rw [manualOpen_noop O C c (Or.inl (isOpenEff_forceOpen c h))]
  exact ⟨rfl, rfl⟩

theorem manualClose_forceOpen (c : Circ σo σc) (h : c.cfg.forceOpen = true) :
    (manualClose O C c).2.emits = [] ∧ (manualClose O C c).1.isOpen = c.isOpen := by
  rw [manualClose_noop O C c (Or.inr h)]
  exact ⟨rfl, rfl⟩

/-- while ForceOpen is set no operation other than a reconfiguration delivers Closed or clears the flag -/
theorem stepOp_forceOpen (c : Circ σo σc) (h : c.cfg.forceOpen = true) (op : CircOp σo σc)
    (hop : ∀ cfg, op ≠ .setcfg cfg) :
    (∀ t, Emit.closed t ∉ (stepOp O C c op).2) ∧ (stepOp O C c op).1.isOpen = c.isOpen := by
  cases op with
  | exec eop => exact execute_forceOpen O C c h eop.ctx eop.run eop.fb
  | openC =>
    obtain ⟨a, b⟩ := manualOpen_forceOpen O C c h
    refine ⟨fun t ht => ?_, b⟩
    have ht' : Emit.closed t ∈ (manualOpen O C c).2.emits := ht
    rw [a] at ht'
    cases ht'
  | closeC =>
    obtain ⟨a, b⟩ := manualClose_forceOpen O C c h
    refine ⟨fun t ht => ?_, b⟩
    have ht' : Emit.closed t ∈ (manualClose O C c).2.emits := ht
    rw [a] at ht'
    cases ht'
  | setcfg cfg => exact absurd rfl (hop cfg)
  | tick d => exact ⟨fun t ht => (by cases ht), rfl⟩
  | env f g => exact ⟨fun t ht => (by cases ht), rfl⟩

end
end CM

/-
  Lemmas/RunDynC08.lean — invariants behind Props/RunDynC08.lean: once every operator has finished (`Settled`) nobody
  stores an override flag any more, so the two flags are constants of every run; with the flags constant, the path a
  call that starts afterwards takes through the admission is determined (`Q1`, `Q2`, `Q4`), and with either override on
  every transition attempt is `Trans.Quiet` (`FInv`).
-/
import CircuitModel.Conc.RunDyn
import CircuitProofs.Lemmas.RunDyn
import CircuitProofs.Lemmas.Trans
namespace CM.Lemmas.RunDynC08L
open CM.Conc CM.Lemmas.RunEvents CM.Lemmas.RunDynL

/-- every operator has finished -/
def Settled (c : Config Run.Shared RunDyn.Local) : Prop :=
  ∀ fo fc m k, RunDyn.Local.op fo fc m k ∈ c.locals → 3 ≤ k

/-- the same, as the Boolean check Props/RunDynC08.lean states it with -/
def settledB (c : Config Run.Shared RunDyn.Local) : Bool :=
  c.locals.all fun l => match l with | .op _ _ _ k => decide (3 ≤ k) | .call _ => true

theorem settledB_Settled (c : Config Run.Shared RunDyn.Local) (h : settledB c = true) : Settled c := by
  intro fo fc m k hmem
  simp only [settledB, List.all_eq_true] at h
  simpa using h _ hmem

/-- a transition never writes the override flags -/
theorem trans_step_flags (i : Nat) (s s' : Trans.Shared) (l l' : Trans.Local) (h : Trans.step i s l = some (s', l')) :
    s'.forceOpen = s.forceOpen ∧ s'.forcedClosed = s.forcedClosed := by
  obtain ⟨job, pc⟩ := l
  cases pc <;> cases job <;> simp only [Trans.step] at h
  all_goals (try split at h)
  all_goals (try split at h)
  all_goals (try simp only [Option.some.injEq, Prod.mk.injEq, reduceCtorEq] at h)
  all_goals (try (obtain ⟨rfl, rfl⟩ := h))
  all_goals simp_all

/-- … nor does any other step of a call -/
theorem run_step_flags (i : Nat) (s s' : Run.Shared) (l l' : Run.Local) (h : Run.step i s l = some (s', l')) :
    s'.t.forceOpen = s.t.forceOpen ∧ s'.t.forcedClosed = s.t.forcedClosed := by
  by_cases hpc : ∃ tl after, l.pc = .trans tl after
  · obtain ⟨tl, after, hpc⟩ := hpc
    rcases re_step_trans i s s' l l' tl after hpc h with ⟨_, rfl, rfl⟩ | ⟨_, t', tl', ht, rfl, rfl⟩
    · exact ⟨rfl, rfl⟩
    · exact trans_step_flags i _ _ _ _ ht
  · have := (re_step_plain i s s' l l' (fun tl after e => hpc ⟨tl, after, e⟩) h).1
    rw [this]; exact ⟨rfl, rfl⟩

/-- once settled, the only steps are steps of calls, and the configuration stays settled -/
theorem settled_step (c : Config Run.Shared RunDyn.Local) (i : Nat) (l : RunDyn.Local) (s' : Run.Shared)
    (l' : RunDyn.Local) (hS : Settled c) (hl : c.locals[i]? = some l) (hs : RunDyn.step i c.shared l = some (s', l')) :
    ∃ m m', l = .call m ∧ l' = .call m' ∧ Run.step i c.shared m = some (s', m') ∧
      Settled { shared := s', locals := c.locals.set i l' } := by
  cases l with
  | op fo fc m k =>
    have hk := hS fo fc m k (List.mem_of_getElem? hl)
    obtain ⟨k', rfl⟩ := Nat.exists_eq_add_of_le' hk
    simp [RunDyn.step] at hs
  | call m =>
    obtain ⟨m', rfl, hs'⟩ := rd_step_call i _ m s' l' hs
    refine ⟨m, m', rfl, rfl, hs', ?_⟩
    intro fo fc n k hmem
    rcases List.mem_or_eq_of_mem_set hmem with hmem | he
    · exact hS _ _ _ _ hmem
    · cases he

/-! ### one thread, constant flags -/

def ThrInv (fo fc : Bool) (i : Nat) (Q : Run.Local → List Run.Ev → Prop) (c : Config Run.Shared RunDyn.Local) : Prop :=
  Settled c ∧ c.shared.t.forceOpen = fo ∧ c.shared.t.forcedClosed = fc ∧
    ∃ l, c.locals[i]? = some (.call l) ∧ Q l (re_evs i c.shared.events)

theorem ThrInv_step (fo fc : Bool) (i : Nat) (Q : Run.Local → List Run.Ev → Prop)
    (hQ : ∀ s s' l l', s.t.forceOpen = fo → s.t.forcedClosed = fc → Run.step i s l = some (s', l') →
      Q l (re_evs i s.events) → Q l' (re_evs i s'.events))
    (c : Config Run.Shared RunDyn.Local) (j : Nat) (l : RunDyn.Local) (s' : Run.Shared) (l' : RunDyn.Local)
    (I : ThrInv fo fc i Q c) (hl : c.locals[j]? = some l) (hs : RunDyn.step j c.shared l = some (s', l')) :
    ThrInv fo fc i Q { shared := s', locals := c.locals.set j l' } := by
  obtain ⟨hS, hfo, hfc, li, hli, hq⟩ := I
  obtain ⟨m, m', rfl, rfl, hs', hS'⟩ := settled_step c j _ s' _ hS hl hs
  obtain ⟨h1, h2⟩ := run_step_flags j _ _ _ _ hs'
  refine ⟨hS', h1.trans hfo, h2.trans hfc, ?_⟩
  have hjlt := (List.getElem?_eq_some_iff.1 hl).1
  by_cases hji : j = i
  · subst hji
    rw [hl] at hli
    simp only [Option.some.injEq, RunDyn.Local.call.injEq] at hli
    subst hli
    exact ⟨m', by simp [List.getElem?_set_self hjlt], hQ _ _ _ _ hfo hfc hs' hq⟩
  · refine ⟨li, by simpa [List.getElem?_set_ne hji] using hli, ?_⟩
    simp only
    rw [re_step_other j i _ _ _ _ hs' hji]; exact hq

theorem ThrInv_run (fo fc : Bool) (i : Nat) (Q : Run.Local → List Run.Ev → Prop)
    (hQ : ∀ s s' l l', s.t.forceOpen = fo → s.t.forcedClosed = fc → Run.step i s l = some (s', l') →
      Q l (re_evs i s.events) → Q l' (re_evs i s'.events))
    (c : Config Run.Shared RunDyn.Local) (sched : List Nat) (I : ThrInv fo fc i Q c) :
    ThrInv fo fc i Q (run RunDyn.sys c sched) :=
  CM.Props.C04.inv_all_schedules RunDyn.sys (ThrInv fo fc i Q)
    (fun c j l s' l' hc hl hs => ThrInv_step fo fc i Q hQ c j l s' l' hc hl hs) sched c I

/-! ### facts about `re_evs` -/


theorem mem_re_evs (i : Nat) (evs : List (Nat × Run.Ev)) (e : Run.Ev) : e ∈ re_evs i evs ↔ (i, e) ∈ evs := by
  simp only [re_evs, List.mem_map, List.mem_filter, beq_iff_eq]
  constructor
  · rintro ⟨⟨a, b⟩, ⟨hm, rfl⟩, rfl⟩; exact hm
  · intro h; exact ⟨(i, e), ⟨h, rfl⟩, rfl⟩

theorem re_evs_eq_nil (i : Nat) (evs : List (Nat × Run.Ev)) (h : ∀ e, (i, e) ∉ evs) : re_evs i evs = [] := by
  cases hr : re_evs i evs with
  | nil => rfl
  | cons a r =>
    exfalso
    exact h a ((mem_re_evs i evs a).1 (by rw [hr]; exact List.mem_cons_self))

theorem re_evs_nil_iff (i : Nat) (evs : List (Nat × Run.Ev)) : (∀ e, (i, e) ∉ evs) ↔ re_evs i evs = [] := by
  constructor
  · exact re_evs_eq_nil i evs
  · intro h e hm
    have := (mem_re_evs i evs e).2 hm
    rw [h] at this; cases this

/-- a call that has not taken its first step and has no events yet -/
theorem thrInv_start (fo fc : Bool) (Q : Run.Local → List Run.Ev → Prop) (c : Config Run.Shared RunDyn.Local) (i : Nat)
    (sc : Run.Script) (hs : Settled c) (hfo : c.shared.t.forceOpen = fo) (hfc : c.shared.t.forcedClosed = fc)
    (hl : c.locals[i]? = some (.call { job := .call sc, pc := .aFO })) (hev : ∀ e, (i, e) ∉ c.shared.events)
    (hQ : Q { job := .call sc, pc := .aFO } []) : ThrInv fo fc i Q c :=
  ⟨hs, hfo, hfc, _, hl, by rw [re_evs_eq_nil i _ hev]; exact hQ⟩

/-! ### ForceOpen on: the call is short-circuited -/

def q1 : Run.Pc → List Run.Ev → Prop
  | .aFO, evs | .gFO, evs | .deliverShort, evs => evs = []
  | .done r, evs => r = .shed ∧ evs = [.shortCircuit]
  | _, _ => False

def Q1 (sc : Run.Script) (l : Run.Local) (evs : List Run.Ev) : Prop := l.job = .call sc ∧ q1 l.pc evs

theorem Q1_step (i : Nat) (sc : Run.Script) (s s' : Run.Shared) (l l' : Run.Local) (hfo : s.t.forceOpen = true)
    (h : Run.step i s l = some (s', l')) (hq : Q1 sc l (re_evs i s.events)) : Q1 sc l' (re_evs i s'.events) := by
  obtain ⟨job, pc, sw⟩ := l
  obtain ⟨hj, hq⟩ := hq
  simp only at hj hq; subst hj
  cases pc <;> simp only [q1] at hq <;> (try exact hq.elim)
  all_goals simp only [Run.step, hfo, ↓reduceIte, Option.some.injEq, Prod.mk.injEq, reduceCtorEq] at h
  all_goals (try (obtain ⟨rfl, rfl⟩ := h))
  all_goals simp_all [Q1, q1, re_evs_append_self]

/-! ### ForcedClosed on, ForceOpen off: the call is never short-circuited -/

def q2 (sc : Run.Script) : Run.Pc → Prop
  | .aFlag | .gFO | .askAllow | .deliverShort => False
  | .vetoed => sc.prevent = true
  | .trans _ after => after ≠ .shed
  | .gaugeDec r => r ≠ .shed
  | .done r => r = .shed → sc.prevent = true
  | _ => True

def Q2 (sc : Run.Script) (l : Run.Local) (evs : List Run.Ev) : Prop :=
  l.job = .call sc ∧ Run.Ev.shortCircuit ∉ evs ∧ q2 sc l.pc

theorem Q2_step (i : Nat) (sc : Run.Script) (s s' : Run.Shared) (l l' : Run.Local) (hfo : s.t.forceOpen = false)
    (hfc : s.t.forcedClosed = true)
    (h : Run.step i s l = some (s', l')) (hq : Q2 sc l (re_evs i s.events)) : Q2 sc l' (re_evs i s'.events) := by
  by_cases hpc : ∃ tl after, l.pc = .trans tl after
  · obtain ⟨tl, after, hpc⟩ := hpc
    obtain ⟨job, pc, sw⟩ := l
    simp only at hpc; subst hpc
    rcases re_step_trans i s s' _ l' tl after rfl h with ⟨_, rfl, rfl⟩ | ⟨_, t', tl', _, rfl, rfl⟩
    · cases after <;> simp_all [Q2, q2, re_fin]
    · by_cases hd : tl'.pc = .done
      · cases after <;> simp_all [Q2, q2, re_fin]
      · cases after <;> simp_all [Q2, q2]
  · obtain ⟨job, pc, sw⟩ := l
    obtain ⟨hj, hev, hq⟩ := hq
    simp only at hj hev hq; subst hj
    cases pc <;> simp only [q2] at hq <;> (try exact hq.elim)
    all_goals simp only [Run.step, hfo, hfc, Bool.false_eq_true, ↓reduceIte] at h
    all_goals (try split at h)
    all_goals (try split at h)
    all_goals (try simp only [Option.some.injEq, Prod.mk.injEq, reduceCtorEq] at h)
    all_goals (try (obtain ⟨rfl, rfl⟩ := h))
    all_goals (try (exact absurd ⟨_, _, rfl⟩ hpc))
    all_goals (try split)
    all_goals simp_all [Q2, q2, re_evs_append_self]

/-! ### both overrides off: invoked only if the state flag, the closer and the opener let it -/

def A4 (sc : Run.Script) (sw : Option Bool) : Prop := sw = some false ∨ (sw = some true ∧ sc.allow = true)

def q4 (sc : Run.Script) (sw : Option Bool) : Run.Pc → List Run.Ev → Prop
  | .aFO, evs | .aFC, evs | .aFlag, evs => Run.Ev.invoked ∉ evs
  | .gFO, _ | .askAllow, _ => sw = some true
  | .askPrevent, _ => A4 sc sw
  | .gaugeAdd, _ | .loadLimit _, _ | .invoke, _ => A4 sc sw ∧ sc.prevent = false
  | _, _ => True

def Q4 (sc : Run.Script) (l : Run.Local) (evs : List Run.Ev) : Prop :=
  l.job = .call sc ∧ (Run.Ev.invoked ∈ evs → A4 sc l.sawOpen ∧ sc.prevent = false) ∧ q4 sc l.sawOpen l.pc evs

theorem Q4_step (i : Nat) (sc : Run.Script) (s s' : Run.Shared) (l l' : Run.Local) (hfo : s.t.forceOpen = false)
    (hfc : s.t.forcedClosed = false)
    (h : Run.step i s l = some (s', l')) (hq : Q4 sc l (re_evs i s.events)) : Q4 sc l' (re_evs i s'.events) := by
  by_cases hpc : ∃ tl after, l.pc = .trans tl after
  · obtain ⟨tl, after, hpc⟩ := hpc
    obtain ⟨job, pc, sw⟩ := l
    simp only at hpc; subst hpc
    rcases re_step_trans i s s' _ l' tl after rfl h with ⟨_, rfl, rfl⟩ | ⟨_, t', tl', _, rfl, rfl⟩
    · cases after <;> simp_all [Q4, q4, re_fin]
    · by_cases hd : tl'.pc = .done
      · cases after <;> simp_all [Q4, q4, re_fin]
      · cases after <;> simp_all [Q4, q4]
  · obtain ⟨job, pc, sw⟩ := l
    obtain ⟨hj, hev, hq⟩ := hq
    simp only at hj hev hq; subst hj
    cases pc <;> simp only [q4] at hq
    all_goals simp only [Run.step, hfo, hfc, Bool.false_eq_true, ↓reduceIte] at h
    all_goals (try split at h)
    all_goals (try split at h)
    all_goals (try simp only [Option.some.injEq, Prod.mk.injEq, reduceCtorEq] at h)
    all_goals (try (obtain ⟨rfl, rfl⟩ := h))
    all_goals (try (exact absurd ⟨_, _, rfl⟩ hpc))
    all_goals (try split)
    all_goals simp_all [Q4, q4, A4, re_evs_append_self]

/-! ### either override on: every transition attempt is quiet -/

def FInv (fo fc : Bool) (log : List Bool) (io : Bool) (c : Config Run.Shared RunDyn.Local) : Prop :=
  Settled c ∧ c.shared.t.forceOpen = fo ∧ c.shared.t.forcedClosed = fc ∧ c.shared.t.log = log ∧ c.shared.t.isOpen = io ∧
    ∀ l tl after, RunDyn.Local.call l ∈ c.locals → l.pc = .trans tl after → Trans.Quiet fo fc tl

theorem quiet_start (fo fc : Bool) (tl : Trans.Local) (h : tl.pc = .start) : Trans.Quiet fo fc tl := by
  obtain ⟨job, pc⟩ := tl
  simp only at h; subst h
  cases job <;> simp [Trans.Quiet]

theorem FInv_step (fo fc : Bool) (hov : fo = true ∨ fc = true) (log : List Bool) (io : Bool)
    (c : Config Run.Shared RunDyn.Local) (j : Nat) (l : RunDyn.Local) (s' : Run.Shared) (l' : RunDyn.Local)
    (I : FInv fo fc log io c) (hl : c.locals[j]? = some l) (hs : RunDyn.step j c.shared l = some (s', l')) :
    FInv fo fc log io { shared := s', locals := c.locals.set j l' } := by
  obtain ⟨hS, hfo, hfc, hlog, hio, hq⟩ := I
  obtain ⟨m, m', rfl, rfl, hs', hS'⟩ := settled_step c j _ s' _ hS hl hs
  by_cases hpc : ∃ tl after, m.pc = .trans tl after
  · obtain ⟨tl, after, hpc⟩ := hpc
    have hqt := hq m tl after (List.mem_of_getElem? hl) hpc
    rcases re_step_trans j _ s' m m' tl after hpc hs' with ⟨_, rfl, rfl⟩ | ⟨_, t', tl', ht, rfl, rfl⟩
    · refine ⟨hS', hfo, hfc, hlog, hio, ?_⟩
      intro x tlx ax hx hpx
      rcases List.mem_or_eq_of_mem_set hx with hx | he
      · exact hq x tlx ax hx hpx
      · simp only [RunDyn.Local.call.injEq] at he
        subst he
        cases after <;> simp [re_fin] at hpx
    · obtain ⟨h1, h2, h3, h4, h5⟩ := Trans.step_quiet fo fc hov j _ _ tl tl' hfo hfc hqt ht
      refine ⟨hS', h1.trans hfo, h2.trans hfc, h3.trans hlog, h4.trans hio, ?_⟩
      intro x tlx ax hx hpx
      rcases List.mem_or_eq_of_mem_set hx with hx | he
      · exact hq x tlx ax hx hpx
      · simp only [RunDyn.Local.call.injEq] at he
        subst he
        by_cases hd : tl'.pc = .done
        · simp only [hd, beq_self_eq_true, ↓reduceIte] at hpx
          cases after <;> simp [re_fin] at hpx
        · have hd' : (tl'.pc == Trans.Pc.done) = false := by simpa using hd
          simp only [hd', Bool.false_eq_true, ↓reduceIte, Run.Pc.trans.injEq] at hpx
          obtain ⟨rfl, _⟩ := hpx
          exact h5
  · have hpc' : ∀ tl after, m.pc ≠ .trans tl after := fun tl after e => hpc ⟨tl, after, e⟩
    have hp := re_step_plain j _ s' m m' hpc' hs'
    refine ⟨hS', by rw [hp.1]; exact hfo, by rw [hp.1]; exact hfc, by rw [hp.1]; exact hlog, by rw [hp.1]; exact hio, ?_⟩
    intro x tlx ax hx hpx
    rcases List.mem_or_eq_of_mem_set hx with hx | he
    · exact hq x tlx ax hx hpx
    · simp only [RunDyn.Local.call.injEq] at he
      subst he
      exact quiet_start fo fc tlx (rd_step_plain_start j _ s' m _ hpc' hs' tlx ax hpx)

theorem FInv_run (fo fc : Bool) (hov : fo = true ∨ fc = true) (log : List Bool) (io : Bool)
    (c : Config Run.Shared RunDyn.Local) (sched : List Nat) (I : FInv fo fc log io c) :
    FInv fo fc log io (run RunDyn.sys c sched) :=
  CM.Props.C04.inv_all_schedules RunDyn.sys (FInv fo fc log io)
    (fun c j l s' l' hc hl hs => FInv_step fo fc hov log io c j l s' l' hc hl hs) sched c I

end CM.Lemmas.RunDynC08L

/-
  Lemmas/RunEvents.lean — invariants of the whole-call small-step model (CircuitModel/Conc/Run.lean) used by the third
  group of Props/RunAll.lean (exactly the right run events, at most one event ever, silent manual threads, no deadlock).
    * `re_evs`: the ghost events of ONE thread, in order; `runEventsOf` / `invokedCount` are filters of it;
    * `re_ok`: what that sub-list is, as a function of the thread's job and program counter;
    * `re_step_trans` / `re_step_plain` / `re_step_self`: one step of a thread;
    * `re_Inv`: the per-thread invariant (job never changes, own events as `re_ok` says, no events of absent threads);
    * `re_Hold`: the holder of transitionMu is inside its critical section; `re_no_deadlock`.
-/
import CircuitModel.Conc.Run
import CircuitProofs.Props.C04
import CircuitProofs.Lemmas.ConcCall
namespace CM.Lemmas.RunEvents
open CM.Conc CM.Conc.Run

/-! ### the events of one thread -/

/-- the ghost events of thread `i`, in order -/
def re_evs (i : Nat) (evs : List (Nat × Run.Ev)) : List Run.Ev := (evs.filter fun e => e.1 == i).map (·.2)

theorem re_evs_nil (i : Nat) : re_evs i [] = [] := rfl

theorem re_evs_append_self (i : Nat) (evs : List (Nat × Run.Ev)) (e : Run.Ev) :
    re_evs i (evs ++ [(i, e)]) = re_evs i evs ++ [e] := by
  simp [re_evs, List.filter_append]

theorem re_evs_append_other (i t : Nat) (evs : List (Nat × Run.Ev)) (e : Run.Ev) (h : t ≠ i) :
    re_evs i (evs ++ [(t, e)]) = re_evs i evs := by
  simp [re_evs, List.filter_append, h]

theorem re_runEventsOf (c : Config Run.Shared Run.Local) (i : Nat) :
    runEventsOf c i = (re_evs i c.shared.events).filter fun e => e != .invoked && e != .vetoed := by
  simp only [runEventsOf, re_evs]
  induction c.shared.events with
  | nil => rfl
  | cons x r ih =>
    simp only [List.filter_cons]
    by_cases h1 : x.1 == i <;> by_cases h2 : x.2 != Ev.invoked <;> by_cases h3 : x.2 != Ev.vetoed <;>
      simp_all

theorem re_invokedCount (c : Config Run.Shared Run.Local) (i : Nat) :
    invokedCount c i = ((re_evs i c.shared.events).filter fun e => e == .invoked).length := by
  simp only [invokedCount, re_evs]
  induction c.shared.events with
  | nil => rfl
  | cons x r ih =>
    simp only [List.filter_cons]
    by_cases h1 : x.1 == i <;> by_cases h2 : x.2 == Ev.invoked <;> simp_all

/-! ### what a thread's events are, by job and program counter -/

/-- the events of a call that ends (or is about to end, the gauge still to be decremented) as `r` -/
def re_resOk (sc : Run.Script) : Run.Res → List Run.Ev → Prop
  | .shed, evs => evs = [.shortCircuit] ∨ (evs = [.vetoed] ∧ sc.prevent = true)
  | .rejected, evs => evs = [.reject]
  | .ran k, evs => evs = [.invoked, .ran k] ∧ k = sc.kind ∧ sc.panics = false
  | .panicked, evs => evs = [.invoked] ∧ sc.panics = true
  | .manual, _ => False

def re_callOk (sc : Run.Script) : Run.Pc → List Run.Ev → Prop
  | .aFO, evs | .aFC, evs | .aFlag, evs | .gFO, evs | .askAllow, evs | .deliverShort, evs | .askPrevent, evs
  | .gaugeAdd, evs | .loadLimit _, evs | .deliverReject, evs | .invoke, evs => evs = []
  | .vetoed, evs => evs = [] ∧ sc.prevent = true
  | .classify, evs => evs = [.invoked] ∧ sc.panics = false
  | .deliver k, evs => evs = [.invoked] ∧ k = sc.kind ∧ sc.panics = false
  | .pFO k, evs | .pFC k, evs | .pFlag k, evs | .oFC k, evs | .oFO k, evs | .oFC2 k, evs | .oFlag k, evs
  | .askShouldOpen k, evs => re_resOk sc (.ran k) evs
  | .trans _ after, evs => (∃ k, after = .ran k) ∧ re_resOk sc after evs
  | .gaugeDec r, evs => re_resOk sc r evs
  | .done r, evs => re_resOk sc r evs

def re_manualOk (pc : Run.Pc) (evs : List Run.Ev) : Prop :=
  evs = [] ∧ (pc = .done .manual ∨ ∃ tl, pc = .trans tl .manual)

def re_ok : Run.Job → Run.Pc → List Run.Ev → Prop
  | .call sc, pc, evs => re_callOk sc pc evs
  | .open, pc, evs => re_manualOk pc evs
  | .close, pc, evs => re_manualOk pc evs

/-! ### one step of a thread -/

/-- where a thread goes once its transition has returned -/
def re_fin : Run.Res → Run.Pc
  | .manual => .done .manual
  | r => .gaugeDec r

/-- a step inside the transition -/
theorem re_step_trans (i : Nat) (s s' : Run.Shared) (l l' : Run.Local) (tl : Trans.Local) (after : Run.Res)
    (hpc : l.pc = .trans tl after) (h : step i s l = some (s', l')) :
    (tl.pc = .done ∧ s' = s ∧ l' = { l with pc := re_fin after }) ∨
    (tl.pc ≠ .done ∧ ∃ t' tl', Trans.step i s.t tl = some (t', tl') ∧ s' = { s with t := t' } ∧
      l' = { l with pc := if tl'.pc == .done then re_fin after else .trans tl' after }) := by
  obtain ⟨job, pc, sw⟩ := l
  simp only at hpc; subst hpc
  simp only [step] at h
  split at h
  · rename_i hd
    simp only [Option.some.injEq, Prod.mk.injEq] at h
    refine Or.inl ⟨hd, h.1.symm, ?_⟩
    rw [← h.2]; cases after <;> rfl
  · rename_i hd
    split at h
    · rename_i t' tl' ht
      simp only [Option.some.injEq, Prod.mk.injEq] at h
      refine Or.inr ⟨hd, t', tl', ht, h.1.symm, ?_⟩
      rw [← h.2]; cases after <;> rfl
    · simp at h

/-- a step outside the transition leaves the transition state alone and appends at most one event, the thread's own -/
theorem re_step_plain (i : Nat) (s s' : Run.Shared) (l l' : Run.Local) (hpc : ∀ tl after, l.pc ≠ .trans tl after)
    (h : step i s l = some (s', l')) :
    s'.t = s.t ∧ l'.job = l.job ∧ (s'.events = s.events ∨ ∃ e, s'.events = s.events ++ [(i, e)]) := by
  obtain ⟨job, pc, sw⟩ := l
  cases pc <;> simp only [step] at h
  all_goals (try split at h)
  all_goals (try split at h)
  all_goals (try simp only [Option.some.injEq, Prod.mk.injEq, reduceCtorEq] at h)
  all_goals (try (obtain ⟨rfl, rfl⟩ := h))
  all_goals (try (exact absurd rfl (hpc _ _)))
  all_goals simp

/-- events are only appended, and only the stepping thread's own; its job never changes -/
theorem re_step_events (i : Nat) (s s' : Run.Shared) (l l' : Run.Local) (h : step i s l = some (s', l')) :
    l'.job = l.job ∧ (s'.events = s.events ∨ ∃ e, s'.events = s.events ++ [(i, e)]) := by
  by_cases hpc : ∃ tl after, l.pc = .trans tl after
  · obtain ⟨tl, after, hpc⟩ := hpc
    rcases re_step_trans i s s' l l' tl after hpc h with ⟨_, rfl, rfl⟩ | ⟨_, t', tl', _, rfl, rfl⟩ <;> simp
  · exact (re_step_plain i s s' l l' (fun tl after e => hpc ⟨tl, after, e⟩) h).2

/-- steps of other threads do not touch thread `j`'s events -/
theorem re_step_other (i j : Nat) (s s' : Run.Shared) (l l' : Run.Local) (h : step i s l = some (s', l'))
    (hne : i ≠ j) : re_evs j s'.events = re_evs j s.events := by
  rcases (re_step_events i s s' l l' h).2 with he | ⟨e, he⟩
  · rw [he]
  · rw [he, re_evs_append_other j i _ e hne]

/-- the stepping thread: its own events after the step are what its new program counter calls for (inside a transition) -/
theorem re_step_self_trans (i : Nat) (s s' : Run.Shared) (l l' : Run.Local) (tl : Trans.Local) (after : Run.Res)
    (hpc : l.pc = .trans tl after) (h : step i s l = some (s', l')) (hok : re_ok l.job l.pc (re_evs i s.events)) :
    re_ok l'.job l'.pc (re_evs i s'.events) := by
  obtain ⟨job, pc, sw⟩ := l
  simp only at hpc; subst hpc
  rcases re_step_trans i s s' _ l' tl after rfl h with ⟨_, rfl, rfl⟩ | ⟨_, t', tl', _, rfl, rfl⟩
  · cases job <;> cases after <;> simp_all [re_ok, re_callOk, re_manualOk, re_resOk, re_fin]
  · by_cases hd : tl'.pc = .done
    · cases job <;> cases after <;> simp_all [re_ok, re_callOk, re_manualOk, re_resOk, re_fin]
    · cases job <;> cases after <;> simp_all [re_ok, re_callOk, re_manualOk, re_resOk]

/-- … and outside a transition -/
theorem re_step_self_plain (i : Nat) (s s' : Run.Shared) (l l' : Run.Local) (hpc : ∀ tl after, l.pc ≠ .trans tl after)
    (h : step i s l = some (s', l')) (hok : re_ok l.job l.pc (re_evs i s.events)) :
    re_ok l'.job l'.pc (re_evs i s'.events) := by
  obtain ⟨job, pc, sw⟩ := l
  cases job with
  | call sc =>
    cases pc <;> simp only [step] at h
    all_goals (try split at h)
    all_goals (try split at h)
    all_goals (try simp only [Option.some.injEq, Prod.mk.injEq, reduceCtorEq] at h)
    all_goals (try (obtain ⟨rfl, rfl⟩ := h))
    all_goals (try (exact absurd rfl (hpc _ _)))
    all_goals (try split)
    all_goals simp_all [re_ok, re_callOk, re_resOk, re_evs_append_self]
  | «open» =>
    rcases hok.2 with hd | ⟨tl, hd⟩ <;> simp only at hd <;> subst hd
    · simp [step] at h
    · exact absurd rfl (hpc _ _)
  | close =>
    rcases hok.2 with hd | ⟨tl, hd⟩ <;> simp only at hd <;> subst hd
    · simp [step] at h
    · exact absurd rfl (hpc _ _)

theorem re_step_self (i : Nat) (s s' : Run.Shared) (l l' : Run.Local)
    (h : step i s l = some (s', l')) (hok : re_ok l.job l.pc (re_evs i s.events)) :
    re_ok l'.job l'.pc (re_evs i s'.events) := by
  by_cases hpc : ∃ tl after, l.pc = .trans tl after
  · obtain ⟨tl, after, hpc⟩ := hpc
    exact re_step_self_trans i s s' l l' tl after hpc h hok
  · exact re_step_self_plain i s s' l l' (fun tl after e => hpc ⟨tl, after, e⟩) h hok

/-! ### the per-thread invariant -/

/-- every thread still has the job it was given and its own events are what its program counter calls for; a thread
    that does not exist has no events -/
def re_Inv (jobs : List Run.Job) (c : Config Run.Shared Run.Local) : Prop :=
  ∀ i, match c.locals[i]? with
    | some l => jobs[i]? = some l.job ∧ re_ok l.job l.pc (re_evs i c.shared.events)
    | none => re_evs i c.shared.events = []

theorem re_Inv_init (fo fc io : Bool) (m : Int) (jobs : List Run.Job) : re_Inv jobs (init fo fc io m jobs) := by
  intro i
  simp only [init, List.getElem?_map]
  cases hj : jobs[i]? with
  | none => simp [re_evs]
  | some j =>
    cases j <;> simp [startPc, re_ok, re_callOk, re_manualOk, re_evs]

theorem re_Inv_step (jobs : List Run.Job) (c : Config Run.Shared Run.Local) (i : Nat) (l : Run.Local)
    (s' : Run.Shared) (l' : Run.Local) (h : re_Inv jobs c) (hl : c.locals[i]? = some l)
    (hs : step i c.shared l = some (s', l')) : re_Inv jobs { shared := s', locals := c.locals.set i l' } := by
  have hilt := Call.ccall_lt_of_getElem? hl
  intro j
  have hj := h j
  by_cases hji : j = i
  · subst hji
    simp only [List.getElem?_set_self hilt]
    rw [hl] at hj
    simp only at hj
    exact ⟨by rw [(re_step_events j _ _ _ _ hs).1]; exact hj.1, re_step_self j _ _ _ _ hs hj.2⟩
  · simp only [List.getElem?_set_ne (fun e => hji e.symm)]
    rw [re_step_other i j _ _ _ _ hs (fun e => hji e.symm)]
    exact hj

theorem re_Inv_run (fo fc io : Bool) (m : Int) (jobs : List Run.Job) (sched : List Nat) :
    re_Inv jobs (run sys (init fo fc io m jobs) sched) :=
  CM.Props.C04.inv_all_schedules sys (re_Inv jobs) (fun c i l s' l' hc hl hs => re_Inv_step jobs c i l s' l' hc hl hs)
    sched _ (re_Inv_init fo fc io m jobs)

/-! ### reading the theorems off the invariant -/

theorem re_resultOf {c : Config Run.Shared Run.Local} {i : Nat} {r : Run.Res} (h : resultOf c i = some r) :
    ∃ l, c.locals[i]? = some l ∧ l.pc = .done r := by
  simp only [resultOf] at h
  split at h
  · rename_i job r' sw hl
    simp only [Option.some.injEq] at h
    subst h
    exact ⟨_, hl, rfl⟩
  · cases h

/-- what the run collectors must have been told about a call that ended as `r` (= `expectedEvents` of Props/RunAll) -/
def re_expected (sc : Run.Script) : Run.Res → List Run.Ev → Prop
  | .shed, evs => evs = [.shortCircuit] ∨ (evs = [] ∧ sc.prevent = true)
  | .rejected, evs => evs = [.reject]
  | .ran k, evs => evs = [.ran k] ∧ k = sc.kind ∧ sc.panics = false
  | .panicked, evs => evs = [] ∧ sc.panics = true
  | .manual, _ => False

theorem re_exact (jobs : List Run.Job) (c : Config Run.Shared Run.Local) (h : re_Inv jobs c) (i : Nat)
    (sc : Run.Script) (r : Run.Res) (hj : jobs[i]? = some (.call sc)) (hr : resultOf c i = some r) :
    re_expected sc r (runEventsOf c i) ∧
    invokedCount c i = (match (generalizing := false) r with | .ran _ | .panicked => 1 | _ => 0) := by
  obtain ⟨l, hl, hpc⟩ := re_resultOf hr
  have hi := h i
  rw [hl] at hi
  obtain ⟨job, pc, sw⟩ := l
  simp only at hpc hi
  subst hpc
  obtain ⟨hjob, hok⟩ := hi
  rw [hj] at hjob
  simp only [Option.some.injEq] at hjob
  subst hjob
  rw [re_runEventsOf, re_invokedCount]
  simp only [re_ok, re_callOk] at hok
  clear hr hl
  cases r with
  | shed =>
    rcases hok with hok | ⟨hok, hp⟩
    · rw [hok]; simp [re_expected]
    · rw [hok]; simp [re_expected, hp]
  | rejected => rw [hok]; simp [re_expected]
  | ran k =>
    obtain ⟨hok, hk, hp⟩ := hok
    rw [hok]
    simp [re_expected, ← hk, hp]
  | panicked =>
    obtain ⟨hok, hp⟩ := hok
    rw [hok]
    simp [re_expected, hp]
  | manual => exact hok.elim

/-- the possible shapes of a thread's events -/
theorem re_ok_shapes (j : Run.Job) (pc : Run.Pc) (evs : List Run.Ev) (h : re_ok j pc evs) :
    evs = [] ∨ evs = [.invoked] ∨ (∃ k, evs = [.invoked, .ran k]) ∨ evs = [.reject] ∨ evs = [.shortCircuit] ∨
      evs = [.vetoed] := by
  cases j with
  | call sc =>
    simp only [re_ok] at h
    have hres : ∀ r, re_resOk sc r evs → evs = [] ∨ evs = [.invoked] ∨ (∃ k, evs = [.invoked, .ran k]) ∨
        evs = [.reject] ∨ evs = [.shortCircuit] ∨ evs = [.vetoed] := by
      intro r hr
      cases r <;> simp only [re_resOk] at hr
      · rcases hr with hr | hr
        · exact Or.inr (Or.inr (Or.inr (Or.inr (Or.inl hr))))
        · exact Or.inr (Or.inr (Or.inr (Or.inr (Or.inr hr.1))))
      · exact Or.inr (Or.inr (Or.inr (Or.inl hr)))
      · exact Or.inr (Or.inr (Or.inl ⟨_, hr.1⟩))
      · exact Or.inr (Or.inl hr.1)
    cases pc <;> simp only [re_callOk] at h
    all_goals first
      | exact Or.inl h
      | exact Or.inl h.1
      | exact Or.inr (Or.inl h.1)
      | exact hres _ h
      | exact hres _ h.2
  | «open» => exact Or.inl h.1
  | close => exact Or.inl h.1

theorem re_at_most_one (jobs : List Run.Job) (c : Config Run.Shared Run.Local) (h : re_Inv jobs c) (i : Nat) :
    (runEventsOf c i).length ≤ 1 ∧ invokedCount c i ≤ 1 := by
  rw [re_runEventsOf, re_invokedCount]
  have hi := h i
  have hshape : re_evs i c.shared.events = [] ∨ re_evs i c.shared.events = [.invoked] ∨
      (∃ k, re_evs i c.shared.events = [.invoked, .ran k]) ∨ re_evs i c.shared.events = [.reject] ∨
      re_evs i c.shared.events = [.shortCircuit] ∨ re_evs i c.shared.events = [.vetoed] := by
    cases hl : c.locals[i]? with
    | none => rw [hl] at hi; exact Or.inl hi
    | some l => rw [hl] at hi; exact re_ok_shapes _ _ _ hi.2
  rcases hshape with e | e | ⟨k, e⟩ | e | e | e <;> rw [e] <;> simp

theorem re_manual_silent (jobs : List Run.Job) (c : Config Run.Shared Run.Local) (h : re_Inv jobs c) (i : Nat)
    (hj : jobs[i]? = some .open ∨ jobs[i]? = some .close) :
    runEventsOf c i = [] ∧ invokedCount c i = 0 := by
  rw [re_runEventsOf, re_invokedCount]
  have hi := h i
  have he : re_evs i c.shared.events = [] := by
    cases hl : c.locals[i]? with
    | none => rw [hl] at hi; exact hi
    | some l =>
      rw [hl] at hi
      obtain ⟨job, pc, sw⟩ := l
      obtain ⟨hjob, hok⟩ := hi
      simp only at hjob hok
      rcases hj with hj | hj <;> rw [hj] at hjob <;> simp only [Option.some.injEq] at hjob <;> subst hjob <;>
        exact hok.1
  rw [he]; exact ⟨rfl, rfl⟩

/-! ### no deadlock: the holder of transitionMu is inside its critical section and can always go on -/

def re_Hold (c : Config Run.Shared Run.Local) : Prop :=
  ∀ h, c.shared.t.holder = some h →
    ∃ l tl after, c.locals[h]? = some l ∧ l.pc = .trans tl after ∧ tl.pc ≠ .start ∧ tl.pc ≠ .done

theorem re_Hold_step (c : Config Run.Shared Run.Local) (i : Nat) (l : Run.Local) (s' : Run.Shared) (l' : Run.Local)
    (h : re_Hold c) (hl : c.locals[i]? = some l) (hs : step i c.shared l = some (s', l')) :
    re_Hold { shared := s', locals := c.locals.set i l' } := by
  have hilt := Call.ccall_lt_of_getElem? hl
  intro k hk
  simp only at hk ⊢
  by_cases hpc : ∃ tl after, l.pc = .trans tl after
  · obtain ⟨tl, after, hpc⟩ := hpc
    rcases re_step_trans i _ s' l l' tl after hpc hs with ⟨hd, rfl, rfl⟩ | ⟨hd, t', tl', ht, rfl, rfl⟩
    · obtain ⟨lk, tlk, ak, hlk, hpk, hk1, hk2⟩ := h k hk
      by_cases hki : k = i
      · subst hki
        rw [hl] at hlk; cases hlk
        rw [hpc] at hpk; cases hpk
        exact absurd hd hk2
      · exact ⟨lk, tlk, ak, by rw [List.getElem?_set_ne (fun e => hki e.symm)]; exact hlk, hpk, hk1, hk2⟩
    · simp only at hk
      rcases Call.ccall_tstep_holder _ _ _ _ _ ht with ⟨_, _, hh, h1, h2⟩ | ⟨_, hh, h1, h2⟩ | hh
      · rw [hh] at hk; cases hk
        refine ⟨_, tl', after, List.getElem?_set_self hilt, ?_, h1, h2⟩
        simp [h2]
      · rw [hh] at hk
        obtain ⟨lk, tlk, ak, hlk, hpk, hk1, hk2⟩ := h k hk
        by_cases hki : k = i
        · subst hki
          refine ⟨_, tl', after, List.getElem?_set_self hilt, ?_, h1, h2⟩
          simp [h2]
        · exact ⟨lk, tlk, ak, by rw [List.getElem?_set_ne (fun e => hki e.symm)]; exact hlk, hpk, hk1, hk2⟩
      · rw [hh] at hk; cases hk
  · have hp := re_step_plain i _ s' l l' (fun tl after e => hpc ⟨tl, after, e⟩) hs
    rw [hp.1] at hk
    obtain ⟨lk, tlk, ak, hlk, hpk, hk1, hk2⟩ := h k hk
    by_cases hki : k = i
    · subst hki
      rw [hl] at hlk; cases hlk
      exact absurd ⟨tlk, ak, hpk⟩ hpc
    · exact ⟨lk, tlk, ak, by rw [List.getElem?_set_ne (fun e => hki e.symm)]; exact hlk, hpk, hk1, hk2⟩

theorem re_Hold_init (fo fc io : Bool) (m : Int) (jobs : List Run.Job) : re_Hold (init fo fc io m jobs) := by
  intro h hh
  simp [init] at hh

theorem re_Hold_run (fo fc io : Bool) (m : Int) (jobs : List Run.Job) (sched : List Nat) :
    re_Hold (run sys (init fo fc io m jobs) sched) :=
  CM.Props.C04.inv_all_schedules sys re_Hold (fun c i l s' l' hc hl hs => re_Hold_step c i l s' l' hc hl hs)
    sched _ (re_Hold_init fo fc io m jobs)

/-- inside the transition a thread steps whenever the transition does -/
theorem re_step_trans_isSome (i : Nat) (s : Run.Shared) (l : Run.Local) (tl : Trans.Local) (after : Run.Res)
    (hpc : l.pc = .trans tl after) (h : tl.pc = .done ∨ (Trans.step i s.t tl).isSome = true) :
    (step i s l).isSome = true := by
  obtain ⟨job, pc, sw⟩ := l
  simp only at hpc; subst hpc
  by_cases hd : tl.pc = .done
  · simp [step, hd]
  · rcases h with h | h
    · exact absurd h hd
    · cases ht : Trans.step i s.t tl with
      | none => rw [ht] at h; cases h
      | some x =>
        simp only [step, ht]
        split <;> rfl

/-- the holder of transitionMu can step -/
theorem re_step_mid_isSome (i : Nat) (s : Run.Shared) (l : Run.Local) (tl : Trans.Local) (after : Run.Res)
    (hpc : l.pc = .trans tl after) (h1 : tl.pc ≠ .start) (h2 : tl.pc ≠ .done) : (step i s l).isSome = true :=
  re_step_trans_isSome i s l tl after hpc (Or.inr (Call.ccall_tstep_mid_isSome i s.t tl h1 h2))

/-- a thread that cannot step has returned or waits for transitionMu -/
theorem re_step_none (i : Nat) (s : Run.Shared) (l : Run.Local) (h : step i s l = none) :
    (∃ r, l.pc = .done r) ∨ ∃ k, s.t.holder = some k := by
  by_cases hpc : ∃ tl after, l.pc = .trans tl after
  · obtain ⟨tl, after, hpc⟩ := hpc
    refine Or.inr ?_
    cases hh : s.t.holder with
    | some k => exact ⟨k, rfl⟩
    | none =>
      exfalso
      have : (step i s l).isSome = true := by
        apply re_step_trans_isSome i s l tl after hpc
        by_cases hd : tl.pc = .done
        · exact Or.inl hd
        · by_cases h1 : tl.pc = .start
          · exact Or.inr (Call.ccall_tstep_start_isSome i s.t tl h1 hh)
          · exact Or.inr (Call.ccall_tstep_mid_isSome i s.t tl h1 hd)
      rw [h] at this; cases this
  · obtain ⟨job, pc, sw⟩ := l
    cases pc <;> simp only [step] at h
    all_goals (try split at h)
    all_goals (try split at h)
    all_goals (try simp only [reduceCtorEq] at h)
    all_goals (try (exact Or.inl ⟨_, rfl⟩))
    all_goals exact absurd ⟨_, _, rfl⟩ hpc

theorem re_no_deadlock (c : Config Run.Shared Run.Local) (h : re_Hold c) (hnd : allDone c = false) :
    ∃ i l, c.locals[i]? = some l ∧ (step i c.shared l).isSome = true := by
  simp only [allDone, List.all_eq_false] at hnd
  obtain ⟨l, hm, hpc⟩ := hnd
  obtain ⟨i, hl⟩ := List.mem_iff_getElem?.mp hm
  cases hs : step i c.shared l with
  | some x => exact ⟨i, l, hl, by rw [hs]; rfl⟩
  | none =>
    rcases re_step_none i _ l hs with ⟨r, hd⟩ | ⟨k, hk⟩
    · simp [hd] at hpc
    · obtain ⟨lk, tlk, ak, hlk, hpk, hk1, hk2⟩ := h k hk
      exact ⟨k, lk, hlk, re_step_mid_isSome k _ lk tlk ak hpk hk1 hk2⟩

end CM.Lemmas.RunEvents

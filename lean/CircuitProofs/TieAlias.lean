/-
  TieAlias.lean — `tie_theorem <name> := <theorem>`: declares, in the current namespace, a THEOREM with exactly the
  statement of an existing theorem and that theorem as its proof.  Used by Props/CnnTie.lean to list, under the
  property's namespace (where `#audit` looks), the tie theorems proved in CircuitProofs/GoTie/* about the code
  regenerated from the Go source.  Adds no axiom: the kernel checks the new declaration like any other.
-/
import Lean
open Lean Elab Command

elab doc?:(docComment)? "tie_theorem " n:ident " := " t:ident : command => do
  let tgt ← liftCoreM <| realizeGlobalConstNoOverloadWithInfo t
  let ci ← getConstInfo tgt
  unless ci matches .thmInfo _ do
    throwErrorAt t "{tgt} is not a theorem"
  let name := (← getCurrNamespace) ++ n.getId
  let decl := Declaration.thmDecl { name, levelParams := ci.levelParams, type := ci.type,
                                    value := mkConst tgt (ci.levelParams.map mkLevelParam) }
  liftCoreM <| addDecl decl
  liftTermElabM <| Lean.Elab.addDeclarationRangesFromSyntax name (← getRef) n
  if let some doc := doc? then
    liftTermElabM <| addDocString name .missing doc

/-
  Audit.lean — `#audit <namespace>`: prints one line per theorem declared (with a source position) in the
  namespace:  AUDIT <name> [<axiom>,<axiom>,...]
  The list of obligations is discovered from the environment, not declared by the check.
-/
import Lean
open Lean Elab Command

elab "#audit " ns:ident : command => do
  let env ← getEnv
  let prefix_ := ns.getId
  let mut names : Array Name := #[]
  for (n, ci) in env.constants.toList do
    if prefix_.isPrefixOf n && n != prefix_ then
      match ci with
      | .thmInfo _ =>
        if (← findDeclarationRanges? n).isSome && !n.isInternal then
          names := names.push n
      | _ => pure ()
  let sorted := names.qsort (fun a b => a.toString < b.toString)
  for n in sorted do
    let axs ← Lean.collectAxioms n
    let axs := axs.qsort (fun a b => a.toString < b.toString)
    logInfo m!"AUDIT {n} [{",".intercalate (axs.toList.map toString)}]"

/- Props/C16.lean — property C16: all theorems live in namespace CM.Props.C16, split over two files. -/
import CircuitProofs.Props.C16Tie
import CircuitProofs.Props.C16Seq
import CircuitProofs.Props.C16Conc

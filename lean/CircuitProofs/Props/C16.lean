import CircuitModel.Spec.C16
namespace CM.Props.C16
theorem placeholder : ({} : TC).count = 0 := rfl
end CM.Props.C16

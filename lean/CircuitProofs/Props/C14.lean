import CircuitModel.Basic
namespace CM.Props.C14
theorem placeholder : True := trivial
end CM.Props.C14

/-
  Props/C14.lean — lock-free counters conserve counts under every interleaving.
  All theorems: ANY number of threads, ANY programs of Inc / RollingSumAt / GetBuckets / Reset with any requested
  bucket indices (incl. pre-start times), EVERY schedule of the individual atomic steps.
-/
import CircuitProofs.Props.C14Tie
import CircuitModel.Conc.RC
import CircuitProofs.Lemmas.ConcRC
namespace CM.Props.C14
open CM.Conc CM.Conc.RC

/-- pending effects: a thread between a bucket Swap(0) and the matching rollingSum.Add(-x) still owes -x; a thread
    between buckets[idx].Add(1) and rollingSum.Add(1) still owes +1 -/
def owes (l : Local) : Int :=
  match l.pc with
  | .advDec _ _ _ x _ => -x
  | .rsDec _ x => -x
  | .incRolling => 1
  | _ => 0

/-- CONSERVATION, at every instant of every schedule: rollingSum + (what threads still owe it) = Σ buckets,
    every bucket is ≥ 0, and totalSum = number of Inc calls started -/
theorem conservation (n : Nat) (hn : 0 < n) (progs : List (List Op)) (sched : List Nat) :
    let c := run sys (init n progs) sched
    c.shared.rolling + (c.locals.map owes).sum = c.shared.buckets.sum ∧
    (∀ b ∈ c.shared.buckets, 0 ≤ b) ∧ c.shared.buckets.length = n ∧
    c.shared.total = ((c.locals.map (·.incsStarted)).sum : Nat) := by
  intro c
  have hI : Inv n c := Inv.run hn progs sched
  have howes : (c.locals.map owes) = c.locals.map (fun l => owesPc l.pc) := by
    congr 1
  refine ⟨?_, hI.nonneg, hI.len, ?_⟩
  · rw [howes]; exact hI.cons
  · rw [cast_sum_map]; exact hI.total

/-- QUIESCENCE (all operations have returned): TotalSum = number of Inc calls, rolling sum = Σ buckets,
    0 ≤ rolling sum ≤ number of Inc calls -/
theorem quiescent_counts (n : Nat) (hn : 0 < n) (progs : List (List Op)) (sched : List Nat)
    (hq : quiescent (run sys (init n progs) sched) = true) :
    let c := run sys (init n progs) sched
    c.shared.total = (incCount progs : Nat) ∧ c.shared.rolling = c.shared.buckets.sum ∧
    0 ≤ c.shared.rolling ∧ c.shared.rolling ≤ (incCount progs : Nat) := by
  intro c
  have hP : InvP n progs c := InvP.run hn progs sched
  have hI := hP.inv
  have hQ := (quiescent_iff c).mp hq
  have h1 : (c.locals.map (fun l => owesPc l.pc)).sum = 0 :=
    sum_map_zero _ _ (fun l hl => by rw [(hQ l hl).2]; rfl)
  have h2 : (c.locals.map (fun l => preInc l.pc)).sum = 0 :=
    sum_map_zero _ _ (fun l hl => by rw [(hQ l hl).2]; rfl)
  have h3 : (c.locals.map (fun l => ((l.incsStarted + countInc l.prog : Nat) : Int))) =
      c.locals.map (fun l => (l.incsStarted : Int)) := by
    apply List.map_congr_left
    intro l hl
    rw [(hQ l hl).1]; rfl
  have h4 := hP.count
  rw [h3] at h4
  have h5 := hI.cons
  have h6 := hI.slack
  have h7 := hI.total
  have h8 : 0 ≤ c.shared.buckets.sum := sum_nonneg _ hI.nonneg
  refine ⟨?_, ?_, ?_, ?_⟩ <;> omega

/-- the newest index only moves forward and never beyond the largest index requested so far -/
theorem last_bounded (n : Nat) (hn : 0 < n) (progs : List (List Op)) (sched : List Nat) :
    (run sys (init n progs) sched).shared.last ≤ maxRequested progs := by
  exact (InvP.run hn progs sched).lastB

theorem last_monotone (n : Nat) (hn : 0 < n) (progs : List (List Op)) (sched sched' : List Nat) :
    (run sys (init n progs) sched).shared.last ≤ (run sys (init n progs) (sched ++ sched')).shared.last := by
  rw [run_app]
  exact last_mono_run hn _ (Inv.run hn progs sched) sched'

/-- at quiescence the ring's newest index EQUALS the largest index requested -/
theorem quiescent_last_is_max (n : Nat) (hn : 0 < n) (progs : List (List Op)) (sched : List Nat)
    (hq : quiescent (run sys (init n progs) sched) = true) :
    (run sys (init n progs) sched).shared.last = maxRequested progs := by
  have hP : InvP n progs (run sys (init n progs) sched) := InvP.run hn progs sched
  have hQ := (quiescent_iff _).mp hq
  apply Nat.le_antisymm hP.lastB
  unfold maxRequested
  apply foldl_max_le _ _ _ (Nat.zero_le _)
  intro a ha
  rcases List.mem_filterMap.mp ha with ⟨o, ho, hr⟩
  rcases hP.cover a ⟨o, ho, hr⟩ with h | ⟨l, hl, hp⟩
  · exact h
  · rcases hp with hp | ⟨o', ho', _⟩
    · rw [(hQ l hl).2] at hp
      exact Nat.le_trans hp (Nat.zero_le _)
    · rw [(hQ l hl).1] at ho'
      cases ho'

/-- when no operation has to roll the window (every requested index is 0, the initial newest index) and nobody
    resets, the rolling sum at quiescence is EXACTLY the number of in-window Inc calls -/
def inWindowIncs (progs : List (List Op)) : Nat :=
  (progs.flatten.filter fun o => match o with | .inc (some _) => true | _ => false).length

theorem no_roll_exact (n : Nat) (hn : 0 < n) (progs : List (List Op)) (sched : List Nat)
    (hnoroll : ∀ o ∈ progs.flatten, o.req = none ∨ o.req = some 0)
    (hnoreset : ∀ o ∈ progs.flatten, ∀ r, o ≠ .reset r)
    (hq : quiescent (run sys (init n progs) sched) = true) :
    (run sys (init n progs) sched).shared.rolling = (inWindowIncs progs : Nat) := by
  have hops : ∀ o ∈ progs.flatten, okOp o := fun o ho => ⟨hnoroll o ho, hnoreset o ho⟩
  have hN := InvNR.run hn progs hops sched
  have hI : Inv n (run sys (init n progs) sched) := Inv.run hn progs sched
  have hQ := (quiescent_iff _).mp hq
  have h1 : ((run sys (init n progs) sched).locals.map (fun l => owesPc l.pc)).sum = 0 :=
    sum_map_zero _ _ (fun l hl => by rw [(hQ l hl).2]; rfl)
  have h2 : ((run sys (init n progs) sched).locals.map
      (fun l => preInc l.pc + (countW l.prog : Int))).sum = 0 :=
    sum_map_zero _ _ (fun l hl => by rw [(hQ l hl).2, (hQ l hl).1]; rfl)
  have h3 := hN.sumW
  have h4 := hI.cons
  have h5 : inWindowIncs progs = winCount progs := by
    unfold inWindowIncs winCount
    congr 2
  rw [h5]
  omega

/-- every pending-Inc marker is 0 or 1 -/
theorem preInc_nonneg (p : Pc) : 0 ≤ preInc p := by
  have hk : ∀ k : Cont, 0 ≤ kInc k := by intro k; cases k <;> simp [kInc]
  cases p <;> simp [preInc] <;> exact hk _

/-- NEVER MORE THAN HAPPENED, at every instant of every schedule (not only at quiescence): the buckets together never
    hold more than the number of Inc calls begun so far, i.e. 0 ≤ Σ buckets ≤ TotalSum — a reader that sums the
    ring in the middle of any race cannot see an event that was not reported -/
theorem window_le_total_always (n : Nat) (hn : 0 < n) (progs : List (List Op)) (sched : List Nat) :
    let c := run sys (init n progs) sched
    0 ≤ c.shared.buckets.sum ∧ c.shared.buckets.sum ≤ c.shared.total := by
  intro c
  have hI : Inv n c := Inv.run hn progs sched
  have h0 : 0 ≤ (c.locals.map (fun l => preInc l.pc)).sum := by
    apply sum_nonneg
    intro b hb
    rcases List.mem_map.mp hb with ⟨l, _, rfl⟩
    exact preInc_nonneg _
  have h1 := hI.slack
  have h2 := hI.total
  have h3 : 0 ≤ c.shared.buckets.sum := sum_nonneg _ hI.nonneg
  exact ⟨h3, by omega⟩

/-- non-vacuity: two threads racing the roll-over from bucket 0 to bucket 1 of a 2-bucket ring -/
example : quiescent (run sys (init 2 [[.inc (some 0), .inc (some 1)], [.inc (some 1)]])
    [0,0,0,0, 1,1, 0,0, 1, 0,0,0,0,0,0,0, 1,1,1,1,1,1,1,1,1]) = true := by decide

end CM.Props.C14

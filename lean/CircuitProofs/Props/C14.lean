/-
  Props/C14.lean — lock-free counters conserve counts under every interleaving.
  All theorems: ANY number of threads, ANY programs of Inc / RollingSumAt / GetBuckets / Reset with any requested
  bucket indices (incl. pre-start times), EVERY schedule of the individual atomic steps.
-/
import CircuitModel.Conc.RC
import CircuitProofs.Lemmas.ConcRC
namespace CM.Props.C14
open CM.Conc CM.Conc.RC

/-- pending effects: a thread between a bucket Swap(0) and the matching rollingSum.Add(-x) still owes -x; a thread
    between buckets[idx].Add(1) and rollingSum.Add(1) still owes +1 -/
def owes (l : Local) : Int :=
  match l.pc with
  | .advDec _ _ _ x _ => -x
  | .rsDec _ x => -x
  | .incRolling => 1
  | _ => 0

/-- CONSERVATION, at every instant of every schedule: rollingSum + (what threads still owe it) = Σ buckets,
    every bucket is ≥ 0, and totalSum = number of Inc calls started -/
theorem conservation (n : Nat) (hn : 0 < n) (progs : List (List Op)) (sched : List Nat) :
    let c := run sys (init n progs) sched
    c.shared.rolling + (c.locals.map owes).sum = c.shared.buckets.sum ∧
    (∀ b ∈ c.shared.buckets, 0 ≤ b) ∧ c.shared.buckets.length = n ∧
    c.shared.total = ((c.locals.map (·.incsStarted)).sum : Nat) := by
  sorry

/-- QUIESCENCE (all operations have returned): TotalSum = number of Inc calls, rolling sum = Σ buckets,
    0 ≤ rolling sum ≤ number of Inc calls -/
theorem quiescent_counts (n : Nat) (hn : 0 < n) (progs : List (List Op)) (sched : List Nat)
    (hq : quiescent (run sys (init n progs) sched) = true) :
    let c := run sys (init n progs) sched
    c.shared.total = (incCount progs : Nat) ∧ c.shared.rolling = c.shared.buckets.sum ∧
    0 ≤ c.shared.rolling ∧ c.shared.rolling ≤ (incCount progs : Nat) := by
  sorry

/-- the newest index only moves forward and never beyond the largest index requested so far -/
theorem last_bounded (n : Nat) (hn : 0 < n) (progs : List (List Op)) (sched : List Nat) :
    (run sys (init n progs) sched).shared.last ≤ maxRequested progs := by
  sorry

theorem last_monotone (n : Nat) (hn : 0 < n) (progs : List (List Op)) (sched sched' : List Nat) :
    (run sys (init n progs) sched).shared.last ≤ (run sys (init n progs) (sched ++ sched')).shared.last := by
  sorry

/-- at quiescence the ring's newest index EQUALS the largest index requested -/
theorem quiescent_last_is_max (n : Nat) (hn : 0 < n) (progs : List (List Op)) (sched : List Nat)
    (hq : quiescent (run sys (init n progs) sched) = true) :
    (run sys (init n progs) sched).shared.last = maxRequested progs := by
  sorry

/-- when no operation has to roll the window (every requested index is 0, the initial newest index) and nobody
    resets, the rolling sum at quiescence is EXACTLY the number of in-window Inc calls -/
def inWindowIncs (progs : List (List Op)) : Nat :=
  (progs.flatten.filter fun o => match o with | .inc (some _) => true | _ => false).length

theorem no_roll_exact (n : Nat) (hn : 0 < n) (progs : List (List Op)) (sched : List Nat)
    (hnoroll : ∀ o ∈ progs.flatten, o.req = none ∨ o.req = some 0)
    (hnoreset : ∀ o ∈ progs.flatten, ∀ r, o ≠ .reset r)
    (hq : quiescent (run sys (init n progs) sched) = true) :
    (run sys (init n progs) sched).shared.rolling = (inWindowIncs progs : Nat) := by
  sorry

/-- non-vacuity: two threads racing the roll-over from bucket 0 to bucket 1 of a 2-bucket ring -/
example : quiescent (run sys (init 2 [[.inc (some 0), .inc (some 1)], [.inc (some 1)]])
    [0,0,0,0, 1,1, 0,0, 1, 0,0,0,0,0,0,0, 1,1,1,1,1,1,1,1,1]) = true := by decide

end CM.Props.C14

/-
  Props/C20Stream.lean — C20, third sentence: each hystrix event-stream record is computed from the same numbers
  (requestCount = successes+failures+timeouts+interrupts, errorCount = failures+timeouts, per-kind rolling and total
  counts) together with the circuit's current IsOpen value; plus the fallback rolling sums.
-/
import CircuitModel.Spec.C20
import CircuitProofs.Lemmas.Cons
import CircuitProofs.Lemmas.ConsStream
import CircuitProofs.Props.C20Base
namespace CM.Props.C20
open CM CM.Cons CM.SpecC20

/-- FALLBACK ROLLING SUMS, ANY ORDER: after any history of delivered callbacks, in any timestamp order, read at a time
    not before anything delivered: each fallback kind's rolling sum is the number of fallback events of that kind
    inside the window ending at `now` -/
theorem fb_rolling_eq_windowed_any_order (n : Nat) (dur : Int) (pn : Nat) (pdur : Int) (psize : Nat) (mh : Int) (hn : 0 < n)
    (hw : 0 < tdiv dur n) (emits : List Emit) (now : Int) (h0 : 0 ≤ now) (hle : ∀ e ∈ emits, emitTime e ≤ now) :
    let a := (All.new n dur pn pdur psize mh).feed emits
    (a.fb.sums now).2 = fbKinds.map (fun k => fbRolling n (tdiv dur n) (histOf emits) k now) := by
  intro a
  rw [cstr_fb_sums_snd]
  apply List.map_congr_left
  intro k _
  exact cstr_rolling_getF k n dur pn pdur psize mh hn hw emits now h0 (fun k t d h => hle _ h)

/-- THE STREAM RECORD IS COMPUTED FROM WHAT HAPPENED: for every window configuration and every history of delivered
    callbacks (any timestamp order, read not before anything delivered), the record `collectCommandMetrics` builds —
    requestCount, errorCount, the six rolling and six total run counts (bad requests and interrupts share a field), the
    three rolling and three total fallback counts, and IsOpen — is exactly the record the property describes, computed
    from the history alone -/
theorem stream_record_correct (n : Nat) (dur : Int) (pn : Nat) (pdur : Int) (psize : Nat) (mh : Int) (hn : 0 < n)
    (hw : 0 < tdiv dur n) (emits : List Emit) (now : Int) (isOpen : Bool) (h0 : 0 ≤ now) (hle : ∀ e ∈ emits, emitTime e ≤ now) :
    ((All.new n dur pn pdur psize mh).feed emits).streamCounts now isOpen
      = streamSpec n (tdiv dur n) (histOf emits) now isOpen := by
  have h1 := rolling_eq_windowed_any_order n dur pn pdur psize mh hn hw emits now h0 hle
  have h2 := totals_eq_counts n dur pn pdur psize mh emits
  have h3 := fb_rolling_eq_windowed_any_order n dur pn pdur psize mh hn hw emits now h0 hle
  exact cstr_streamCounts_of _ now isOpen _ _ _ _ h1 h2.1 h3 h2.2

/-- so, in particular, the record's request and error counts are the sums the property names -/
theorem stream_request_and_error_counts (n : Nat) (dur : Int) (pn : Nat) (pdur : Int) (psize : Nat) (mh : Int) (hn : 0 < n)
    (hw : 0 < tdiv dur n) (emits : List Emit) (now : Int) (isOpen : Bool) (h0 : 0 ≤ now) (hle : ∀ e ∈ emits, emitTime e ≤ now) :
    let r := ((All.new n dur pn pdur psize mh).feed emits).streamCounts now isOpen
    let h := histOf emits
    let w := tdiv dur n
    r.requestCount = rolling n w h .success now + rolling n w h .failure now + rolling n w h .timeout now + rolling n w h .interrupt now ∧
    r.errorCount = rolling n w h .failure now + rolling n w h .timeout now ∧
    r.cntBad = total h .badRequest + total h .interrupt ∧ r.isOpen = isOpen := by
  intro r h w
  have hr : r = streamSpec n (tdiv dur n) (histOf emits) now isOpen :=
    stream_record_correct n dur pn pdur psize mh hn hw emits now isOpen h0 hle
  rw [hr]
  exact ⟨rfl, rfl, rfl, rfl⟩

/-- non-vacuity: two successes, a failure, an interrupt that has rolled out of the window, one rejected fallback -/
example :
    let emits : List Emit := [.run .interrupt 0 1, .run .success 95 1, .run .failure 96 2, .fb .reject 96 0, .run .success 99 1]
    let r := ((All.new 10 100 2 100 4 50).feed emits).streamCounts 105 true
    r.requestCount = 3 ∧ r.errorCount = 1 ∧ r.rollBad = 0 ∧ r.cntBad = 1 ∧ r.fbRollRej = 1 ∧ r.fbCntRej = 1 ∧ r.isOpen = true := by
  decide

end CM.Props.C20

import CircuitModel.Conc.RunDyn
import CircuitProofs.GoTie.I_Core
namespace CM.Props.RunDynView
open CM.Conc CM.Conc.RunDyn

/-- a call thread of the reconfiguration system alone against an oracle IS that thread of the static system `Run.sys`
    alone against the same oracle: its steps are `Run.step` -/
theorem soloAll_call (i : Nat) (envs : List (Run.Shared → Run.Shared)) (s : Run.Shared) (l : Run.Local) :
    soloAll RunDyn.sys i envs s (.call l) = ((soloAll Run.sys i envs s l).1, .call (soloAll Run.sys i envs s l).2) := by
  induction envs generalizing s l with
  | nil => rfl
  | cons e r ih =>
    simp only [soloAll, RunDyn.sys, RunDyn.step, Run.sys]
    cases h : Run.step i (e s) l with
    | none => simpa [RunDyn.sys, Run.sys] using ih (e s) l
    | some q => simpa [RunDyn.sys, Run.sys] using ih q.1 q.2

/-- every schedule of calls racing operators, seen from one call thread, is a solo run of THE STATIC MODEL'S thread against
    some oracle (the operators' stores are oracle moves) — the runs the K6 ties `I_Run` / `I_Call` quantify over -/
theorem call_thread_view (sched : List Nat) (i : Nat) (c : Config Run.Shared RunDyn.Local) (l : Run.Local)
    (h : c.locals[i]? = some (.call l)) :
    ∃ (envs : List (Run.Shared → Run.Shared)) (last : Run.Shared → Run.Shared),
      (run RunDyn.sys c sched).shared = last (soloAll Run.sys i envs c.shared l).1 ∧
      (run RunDyn.sys c sched).locals[i]? = some (.call (soloAll Run.sys i envs c.shared l).2) := by
  obtain ⟨envs, last, h1, h2⟩ := CM.GoTie.ICore.thread_view RunDyn.sys sched i c (.call l) h
  exact ⟨envs, last, by rw [h1, soloAll_call], by rw [h2, soloAll_call]⟩

end CM.Props.RunDynView

/-
  Props/C09Dyn.lean — C09 with override changes RACING the transitions (Conc/TransDyn): any number of threads among
  OpenCircuit / CloseCircuit / failing calls / succeeding probes and any number of operators storing new override flags at
  arbitrary moments, every schedule.  The notifications strictly alternate and the state flag is the last notification
  whenever the transition mutex is free — whatever the flags do.  (Before the repair of D16 this was false: see
  `old_model_duplicates_opened` for the schedule on the old step function.)
-/
import CircuitModel.Conc.TransDyn
import CircuitProofs.Lemmas.Trans
import CircuitProofs.Lemmas.TransDyn
namespace CM.Props.C09
open CM.Conc CM.Conc.TransDyn

/-- alternation and flag = last notification under arbitrary live override changes -/
theorem alternate_under_override_changes (fo fc io : Bool) (jobs : List TransDyn.Job) (sched : List Nat) :
    let c := run TransDyn.sys (TransDyn.init fo fc io jobs) sched
    Trans.alternates io c.shared.log = true ∧
    (c.shared.holder = none → c.shared.isOpen = (c.shared.log.getLast?).getD io) := by
  intro c
  have I := td_Inv_run fo fc io jobs sched
  exact ⟨I.alt, I.free⟩

theorem quiescent_flag_is_last_notification_dyn (fo fc io : Bool) (jobs : List TransDyn.Job) (sched : List Nat)
    (hq : TransDyn.quiescent (run TransDyn.sys (TransDyn.init fo fc io jobs) sched) = true) :
    let c := run TransDyn.sys (TransDyn.init fo fc io jobs) sched
    c.shared.isOpen = (c.shared.log.getLast?).getD io ∧ c.shared.holder = none := by
  intro c
  have I := td_Inv_run fo fc io jobs sched
  have hn := td_Inv_quiescent io _ I hq
  exact ⟨I.free hn, hn⟩

/-- the operators announce nothing themselves: the log grows only by transition threads' `notify` steps -/
theorem operators_notify_nobody (tid : Nat) (s : Trans.Shared) (fo fc : Bool) (k : Nat) (s' : Trans.Shared) (l' : TransDyn.Local)
    (h : TransDyn.step tid s (.op fo fc k) = some (s', l')) : s'.log = s.log ∧ s'.isOpen = s.isOpen ∧ s'.holder = s.holder := by
  obtain ⟨h1, h2, h3, _⟩ := td_step_op tid s fo fc k s' l' h
  exact ⟨h1, h2, h3⟩

theorem transitions_never_deadlock_dyn (fo fc io : Bool) (jobs : List TransDyn.Job) (sched : List Nat) :
    let c := run TransDyn.sys (TransDyn.init fo fc io jobs) sched
    TransDyn.quiescent c = false → ∃ i l, c.locals[i]? = some l ∧ (TransDyn.step i c.shared l).isSome := by
  intro c hq
  exact td_Inv_progress io c (td_Inv_run fo fc io jobs sched) hq

/-! non-vacuity: the schedule of D16 — OpenCircuit on an open circuit, ForcedClosed switched on between its guard and its
    next load — announces nothing now -/
def d16jobs : List TransDyn.Job := [.trans .open, .setFlags false true]
def d16sched : List Nat := [0, 0, 1, 1, 0, 0, 0, 0, 0]
example : (run TransDyn.sys (TransDyn.init false false true d16jobs) d16sched).shared.log = [] := by decide
example : TransDyn.quiescent (run TransDyn.sys (TransDyn.init false false true d16jobs) d16sched) = true := by decide
/-- and an opening that does happen while the operator switches ForceOpen on and off again -/
example : (run TransDyn.sys (TransDyn.init false false false [.trans .open, .setFlags true false, .setFlags false false]) [0, 0, 0, 1, 1, 0, 2, 2, 0, 0, 0]).shared.log = [true] := by decide

/-- THE DEFECT THE REPAIR REMOVED (D16), on the step function before the repair (`td_oldStep`: `IsOpen()` loads
    ForcedClosed again after `openCircuit`'s guard): OpenCircuit on a circuit that is ALREADY OPEN, an operator switching
    ForcedClosed on between the guard and the second load — and a second Opened is announced, breaking the alternation -/
theorem old_model_duplicates_opened :
    (run td_oldSys (TransDyn.init false false true d16jobs) [0, 0, 1, 0, 0, 0]).shared.log = [true] ∧
    Trans.alternates true [true] = false := by decide

end CM.Props.C09

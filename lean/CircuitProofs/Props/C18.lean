/-
  Props/C18.lean — Go returns promptly and surfaces every outcome exactly once.
  All theorems: EVERY scenario (any outcome incl. panic values, context ending or not, before/after/simultaneous,
  with and without GoLostErrors, function finishing or never returning) and EVERY schedule of the actors.
  Partial by nature: channel / select / goroutine semantics are modelled, and the tie to the code is outcome-level
  (real goroutines under the real Go scheduler, orders forced by the harness) — plus the structural tie of
  Props/C18Prog.lean: the concurrency structure of today's gowrapper.go, regenerated on every run, is the program this
  model was written for (same namespace, so its theorems are audited with these).
-/
import CircuitModel.Conc.GoWrap
import CircuitProofs.Lemmas.GoWrap
import CircuitProofs.Props.C18Prog
namespace CM.Props.C18
open CM.Conc.GoWrap

/-- PROMPT RETURN: as soon as the context has ended or the function's outcome sits in a channel, the caller has an
    enabled step — it never has to wait for a function that does not return -/
theorem caller_enabled (sc : Scenario) (sched : List Actor) :
    let s := run (init sc) sched
    s.caller.isNone → (s.ctxDone ∨ s.resCh.isSome ∨ s.panCh.isSome) →
    (step s .callerCtx).isSome ∨ (step s .callerRes).isSome ∨ (step s .callerPan).isSome := by
  intro s hn h
  have hcn : s.caller = none := by simpa using hn
  rcases h with h | h | h
  · left; simp [step, hcn, h]
  · right; left
    obtain ⟨e, he⟩ := Option.isSome_iff_exists.mp h
    simp [step, hcn, he]
  · right; right
    obtain ⟨v, hv⟩ := Option.isSome_iff_exists.mp h
    simp [step, hcn, hv]

/-- and every such step makes the wrapper return (or re-panic) at once -/
theorem caller_step_returns (s s' : State) (a : Actor) (ha : a = .callerCtx ∨ a = .callerRes ∨ a = .callerPan)
    (h : step s a = some s') : s'.caller.isSome := by
  rcases ha with rfl | rfl | rfl
  · simp only [step] at h
    split at h
    · cases h; rfl
    · cases h
  · simp only [step] at h
    split at h
    · cases h; rfl
    · cases h
  · simp only [step] at h
    split at h
    · cases h; rfl
    · cases h

/-- WHAT THE CALLER GETS: the function's own outcome (same error object / same panic value, on the caller's
    goroutine), or the context's error — the latter only if the context has ended -/
theorem result_allowed (sc : Scenario) (sched : List Actor) :
    let s := run (init sc) sched
    (s.caller = some (.fn sc.outcome) ∧ s.fnFinished) ∨ (s.caller = some .ctxErr ∧ s.ctxDone) ∨ s.caller = none := by
  intro s
  have hi : Inv sc s := inv_run sc sched
  have hsc := hi.sc_eq
  rcases hi.phase with h | h | h | h
  · rcases h.2.2.2.2.2 with hc | hc
    · exact Or.inr (Or.inr hc)
    · exact Or.inr (Or.inl ⟨hc, (hi.ctxErr hc).1⟩)
  · rcases h.2.2.2.1 with hc | hc
    · exact Or.inr (Or.inr hc)
    · exact Or.inr (Or.inl ⟨hc, (hi.ctxErr hc).1⟩)
  · exact Or.inl ⟨by rw [← hsc]; exact h.2.2.2.2.2, hi.wd_fin h.1⟩
  · have hc := (hi.spawn h.2.2.2.2.2).2
    exact Or.inr (Or.inl ⟨hc, (hi.ctxErr hc).1⟩)

/-- AT MOST ONCE: the outcome is surfaced at most once, as the wrapper's own result/panic or through GoLostErrors,
    and whatever GoLostErrors is told is the function's outcome -/
theorem at_most_once (sc : Scenario) (sched : List Actor) :
    let s := run (init sc) sched
    surfaced s ≤ 1 ∧ (∀ o ∈ s.lost, o = sc.outcome) ∧ (sc.lostErrors = false → s.lost = []) := by
  intro s
  have hi : Inv sc s := inv_run sc sched
  have hsc := hi.sc_eq
  rcases hi.phase with h | h | h | h
  · have hl := h.2.2.2.1
    refine ⟨?_, by simp [hl], fun _ => hl⟩
    rcases h.2.2.2.2.2 with hc | hc <;> simp [surfaced, hc, hl]
  · have hl := h.2.1
    refine ⟨?_, by simp [hl], fun _ => hl⟩
    rcases h.2.2.2.1 with hc | hc <;> simp [surfaced, hc, hl]
  · have hl := h.2.2.2.1
    refine ⟨?_, by simp [hl], fun _ => hl⟩
    simp [surfaced, h.2.2.2.2.2, hl]
  · have hl := h.2.2.2.1
    have hw := hi.spawn h.2.2.2.2.2
    refine ⟨?_, by simp [hl, hsc], ?_⟩
    · simp [surfaced, hw.2, hl]
    · intro hf; rw [hsc, hf] at hw; exact absurd hw.1 (by simp)

/-- EXACTLY ONCE when GoLostErrors is configured: at quiescence, if the function finished, its outcome has been
    surfaced exactly once -/
theorem exactly_once_if_configured (sc : Scenario) (sched : List Actor)
    (hq : quiescent (run (init sc) sched) = true) (hl : sc.lostErrors = true) (hf : (run (init sc) sched).fnFinished = true) :
    surfaced (run (init sc) sched) = 1 := by
  have hi : Inv sc (run (init sc) sched) := inv_run sc sched
  generalize run (init sc) sched = s at hq hf hi
  have hsc := hi.sc_eq
  have hq := (quiescent_iff s).mp hq
  have hwd : s.workerDone = true := worker_done_of_quiescent hq hf
  rcases hi.phase with h | h | h | h
  · rw [hwd] at h; exact absurd h.1 (by simp)
  · exfalso
    exact in_channel_not_quiescent hi hq (by rw [hsc]; exact Or.inl hl) h
  · simp [surfaced, h.2.2.2.2.2, h.2.2.2.1]
  · have hw := hi.spawn h.2.2.2.2.2
    simp [surfaced, hw.2, h.2.2.2.1]

/-- the worker never blocks: when the function has finished, delivering the outcome is always possible (the
    capacity-1 channel it sends into is empty) -/
theorem worker_never_blocks (sc : Scenario) (sched : List Actor) :
    let s := run (init sc) sched
    s.fnFinished = true → s.workerDone = false → (step s .worker).isSome ∧ s.resCh = none ∧ s.panCh = none := by
  intro s hf hwd
  have hi : Inv sc s := inv_run sc sched
  refine ⟨?_, ?_⟩
  · simp only [step, hf, hwd]
    cases s.sc.outcome <;> simp
  · rcases hi.phase with h | h | h | h
    · exact ⟨h.2.1, h.2.2.1⟩
    all_goals (rw [hwd] at h; exact absurd h.1 (by simp))

/-- NO HELPER OUTLIVES THE FUNCTION: at quiescence, once the function has finished, the worker is done, and the
    waiter — if one was started — is done too -/
theorem helpers_terminate (sc : Scenario) (sched : List Actor)
    (hq : quiescent (run (init sc) sched) = true) (hf : (run (init sc) sched).fnFinished = true) :
    let s := run (init sc) sched
    s.workerDone = true ∧ (s.waiterSpawned = true → s.waiterDone = true) := by
  intro s
  have hi : Inv sc s := inv_run sc sched
  have hq := (quiescent_iff s).mp hq
  have hwd : s.workerDone = true := worker_done_of_quiescent hq hf
  refine ⟨hwd, fun hw => ?_⟩
  rcases hi.phase with h | h | h | h
  · rw [hwd] at h; exact absurd h.1 (by simp)
  · exfalso
    exact in_channel_not_quiescent hi hq (Or.inr hw) h
  · have hc := (hi.spawn hw).2
    rw [h.2.2.2.2.2] at hc; exact absurd hc (by simp)
  · exact h.2.2.2.2.1

/-- the waiter is started only when the context ended first AND GoLostErrors is configured -/
theorem waiter_only_if_needed (sc : Scenario) (sched : List Actor) :
    let s := run (init sc) sched
    s.waiterSpawned = true → sc.lostErrors = true ∧ s.caller = some .ctxErr := by
  intro s hw
  have hi : Inv sc s := inv_run sc sched
  have := hi.spawn hw
  rw [hi.sc_eq] at this
  exact this

/-- non-vacuity: the context ends first, the function later panics: Go returned the context's error and the panic
    value reaches GoLostErrors, once -/
example : let s := run (init { outcome := .panic 7, lostErrors := true }) [.envCtx, .callerCtx, .envFn, .worker, .waiterPan]
    s.caller = some .ctxErr ∧ s.lost = [.panic 7] ∧ quiescent s = true := by decide

end CM.Props.C18

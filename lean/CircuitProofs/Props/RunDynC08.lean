/-
  Props/RunDynC08.lean — C08's "every override takes effect for all calls that start after SetConfigThreadSafe returns",
  for EVERY schedule of whole calls, OpenCircuit / CloseCircuit and operators (Conc/RunDyn).  "After it returned" is: no
  operator has a store pending (`settled`) — the flags can no longer change — and the thread in question has not taken
  its first step.  The configuration `c` the statements start from is ARBITRARY (any state of the gauge, the mutex, the
  other threads — whatever was going on when the operator returned), not only a reachable one.
-/
import CircuitModel.Conc.RunDyn
import CircuitProofs.Props.RunDynAll
import CircuitProofs.Lemmas.RunDynC08
namespace CM.Props.RunDynC08
open CM.Conc CM.Conc.RunDyn
open CM.Lemmas.RunEvents CM.Lemmas.RunDynL CM.Lemmas.RunDynC08L

/-- every operator has finished: nobody will store a flag or a limit any more -/
def settled (c : Config Run.Shared RunDyn.Local) : Bool :=
  c.locals.all fun l => match l with | .op _ _ _ k => decide (3 ≤ k) | .call _ => true

/-- a thread that has not taken its first step -/
def fresh (l : RunDyn.Local) : Bool :=
  match l with | .call l => l.pc == Run.startPc l.job && l.sawOpen == none | .op .. => false

def finished (l : RunDyn.Local) : Bool :=
  match l with | .call l => (match l.pc with | .done _ => true | _ => false) | .op _ _ _ k => decide (3 ≤ k)

/-- ForceOpen: a call that starts after the override is in force is never invoked, whatever the others do; when it
    ends it was shed and told the collectors one short-circuit -/
theorem force_open_binds_later_calls (c : Config Run.Shared RunDyn.Local) (sched : List Nat) (i : Nat) (sc : Run.Script)
    (hs : settled c = true) (hfo : c.shared.t.forceOpen = true)
    (hl : c.locals[i]? = some (.call { job := .call sc, pc := .aFO }))
    (hev : ∀ e, (i, e) ∉ c.shared.events) :
    let c' := run RunDyn.sys c sched
    (i, Run.Ev.invoked) ∉ c'.shared.events ∧
    (∀ r, RunDyn.resultOf c' i = some r → r = .shed ∧ RunDyn.eventsOf c' i = [.shortCircuit]) := by
  intro c'
  have I := ThrInv_run true c.shared.t.forcedClosed i (Q1 sc)
    (fun s s' l l' h1 _ h hq => Q1_step i sc s s' l l' h1 h hq) c sched
    (thrInv_start _ _ _ c i sc (settledB_Settled c hs) hfo rfl hl hev ⟨rfl, rfl⟩)
  obtain ⟨_, _, _, l, hli, hj, hq⟩ := I
  refine ⟨?_, ?_⟩
  · intro hm
    have hm' : Run.Ev.invoked ∈ re_evs i (run RunDyn.sys c sched).shared.events := (mem_re_evs i _ _).2 hm
    obtain ⟨job, pc, sw⟩ := l
    cases pc <;> simp only [q1] at hq <;> (try exact hq.elim)
    all_goals first
      | (rw [hq] at hm'; cases hm')
      | (rw [hq.2] at hm'; simp at hm')
  · intro r hr
    obtain ⟨l2, hl2, hpc⟩ := rd_resultOf hr
    rw [hli] at hl2
    simp only [Option.some.injEq, RunDyn.Local.call.injEq] at hl2
    subst hl2
    rw [hpc] at hq
    simp only [q1] at hq
    refine ⟨hq.1, ?_⟩
    rw [rd_eventsOf, hq.2]
    rfl

/-- ForcedClosed (ForceOpen off): a call that starts after the override is in force is never short-circuited — it gets
    past the open state whatever that is and whatever the others do (the opener's veto and the bulkhead still apply) -/
theorem forced_closed_admits_later_calls (c : Config Run.Shared RunDyn.Local) (sched : List Nat) (i : Nat) (sc : Run.Script)
    (hs : settled c = true) (hfo : c.shared.t.forceOpen = false) (hfc : c.shared.t.forcedClosed = true)
    (hl : c.locals[i]? = some (.call { job := .call sc, pc := .aFO }))
    (hev : ∀ e, (i, e) ∉ c.shared.events) :
    let c' := run RunDyn.sys c sched
    (i, Run.Ev.shortCircuit) ∉ c'.shared.events ∧
    (∀ r, RunDyn.resultOf c' i = some r → r ≠ .shed ∨ sc.prevent = true) := by
  intro c'
  have I := ThrInv_run false true i (Q2 sc)
    (fun s s' l l' h1 h2 h hq => Q2_step i sc s s' l l' h1 h2 h hq) c sched
    (thrInv_start _ _ _ c i sc (settledB_Settled c hs) hfo hfc hl hev ⟨rfl, by simp, trivial⟩)
  obtain ⟨_, _, _, l, hli, hj, hne, hq⟩ := I
  refine ⟨fun hm => hne ((mem_re_evs i _ _).2 hm), ?_⟩
  intro r hr
  obtain ⟨l2, hl2, hpc⟩ := rd_resultOf hr
  rw [hli] at hl2
  simp only [Option.some.injEq, RunDyn.Local.call.injEq] at hl2
  subst hl2
  rw [hpc] at hq
  simp only [q2] at hq
  by_cases hr' : r = .shed
  · exact Or.inr (hq hr')
  · exact Or.inl hr'

/-- either override freezes the underlying state for everything that starts after it is in force: if every thread is
    fresh or finished and the transition mutex is free, no Opened / Closed is ever announced and the state flag never
    changes — by calls that fail or succeed, by OpenCircuit, by CloseCircuit, in any interleaving -/
theorem override_freezes_later_transitions (c : Config Run.Shared RunDyn.Local) (sched : List Nat)
    (hs : settled c = true) (hov : c.shared.t.forceOpen = true ∨ c.shared.t.forcedClosed = true)
    (hh : c.shared.t.holder = none)
    (hall : ∀ l ∈ c.locals, fresh l = true ∨ finished l = true) :
    let c' := run RunDyn.sys c sched
    c'.shared.t.log = c.shared.t.log ∧ c'.shared.t.isOpen = c.shared.t.isOpen := by
  intro c'
  have _ := hh   -- not needed: with an override on, every transition attempt is quiet whoever holds the mutex
  have hF : FInv c.shared.t.forceOpen c.shared.t.forcedClosed c.shared.t.log c.shared.t.isOpen c := by
    refine ⟨settledB_Settled c hs, rfl, rfl, rfl, rfl, ?_⟩
    intro l tl after hmem hpc
    apply quiet_start
    obtain ⟨job, pc, sw⟩ := l
    simp only at hpc; subst hpc
    rcases hall _ hmem with hf | hf
    · simp only [fresh, Bool.and_eq_true, beq_iff_eq] at hf
      cases job <;> simp only [Run.startPc, reduceCtorEq, Run.Pc.trans.injEq] at hf
      all_goals (obtain ⟨⟨rfl, _⟩, _⟩ := hf)
      all_goals rfl
    · simp [finished] at hf
  have I := FInv_run _ _ hov _ _ c sched hF
  exact ⟨I.2.2.2.1, I.2.2.2.2.1⟩

/-- with both overrides off (cleared), what a later call sees is the underlying state: it is invoked only if it read the
    state flag as closed, or as open and the closer admitted it — and the opener did not veto it -/
theorem cleared_overrides_resume_state (c : Config Run.Shared RunDyn.Local) (sched : List Nat) (i : Nat) (sc : Run.Script)
    (hs : settled c = true) (hfo : c.shared.t.forceOpen = false) (hfc : c.shared.t.forcedClosed = false)
    (hl : c.locals[i]? = some (.call { job := .call sc, pc := .aFO }))
    (hev : ∀ e, (i, e) ∉ c.shared.events) :
    let c' := run RunDyn.sys c sched
    (i, Run.Ev.invoked) ∈ c'.shared.events →
    ∃ l, c'.locals[i]? = some (.call l) ∧ sc.prevent = false ∧
      (l.sawOpen = some false ∨ (l.sawOpen = some true ∧ sc.allow = true)) := by
  intro c' hm
  have I := ThrInv_run false false i (Q4 sc)
    (fun s s' l l' h1 h2 h hq => Q4_step i sc s s' l l' h1 h2 h hq) c sched
    (thrInv_start _ _ _ c i sc (settledB_Settled c hs) hfo hfc hl hev ⟨rfl, by simp, by simp [q4]⟩)
  obtain ⟨_, _, _, l, hli, hj, himp, hq⟩ := I
  obtain ⟨hA, hp⟩ := himp ((mem_re_evs i _ _).2 hm)
  exact ⟨l, hli, hp, hA⟩

/-! non-vacuity: an operator switches ForceOpen on while a call is in flight; a call starting afterwards meets the premises -/
def jobs1 : List RunDyn.Job := [.run (.call {}), .reconfigure true false 5, .run (.call {}), .run .open]
def c1 : Config Run.Shared RunDyn.Local := run RunDyn.sys (RunDyn.init false false false 5 jobs1) [0, 0, 0, 0, 0, 0, 0, 1, 1, 1]
example : settled c1 = true ∧ c1.shared.t.forceOpen = true ∧ c1.locals[2]? = some (.call { job := .call {}, pc := .aFO }) ∧
    (∀ e, (2, e) ∉ c1.shared.events) := by
  refine ⟨by decide +kernel, by decide +kernel, by decide +kernel, ?_⟩
  rw [re_evs_nil_iff]
  decide +kernel
example : RunDyn.resultOf (run RunDyn.sys c1 (List.replicate 10 2)) 2 = some .shed := by decide +kernel
/-- … and a configuration in which everybody is fresh or finished, with the override on and the mutex free -/
def c2 : Config Run.Shared RunDyn.Local := run RunDyn.sys (RunDyn.init false false false 5 [.reconfigure false true 5, .run (.call { failed := true, shouldOpen := true }), .run .open]) [0, 0, 0]
example : settled c2 = true ∧ c2.shared.t.forcedClosed = true ∧ c2.shared.t.holder = none ∧ (∀ l ∈ c2.locals, fresh l = true ∨ finished l = true) := by decide +kernel
example : (run RunDyn.sys c2 (List.replicate 30 1 ++ List.replicate 10 2)).shared.t.log = [] ∧ RunDyn.allDone (run RunDyn.sys c2 (List.replicate 30 1 ++ List.replicate 10 2)) = true := by decide +kernel

end CM.Props.RunDynC08

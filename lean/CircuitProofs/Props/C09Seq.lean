/-
  Props/C09.lean — Opened/Closed notifications mirror real transitions one-to-one (histories; the racing-transition
  part under schedules is Conc/Trans).
-/
import CircuitProofs.Props.CircuitCommon
import CircuitProofs.Lemmas.CircuitB
namespace CM.Props.C09
open CM CM.SpecCircuit CM.Props

/-- MAIN, over all histories and all logic: starting from a closed circuit, after ANY history of calls (any outcome),
    OpenCircuit, CloseCircuit, override changes, clock steps and arbitrary outside interference with the logic's
    state, the notifications delivered strictly alternate starting with Opened, and the underlying flag is true
    exactly when the last notification was Opened. -/
theorem notifications_alternate {σo σc : Type} (O : OpenerI σo) (C : CloserI σc) (c0 : Circ σo σc)
    (h0 : c0.isOpen = false) (ops : List (CircOp σo σc)) :
    let r := runOps O C c0 ops
    alternates false (notifs r.2) = true ∧ r.1.isOpen = ((notifs r.2).getLast?).getD false := by
  intro r
  have h := runOps_alt O C c0 ops
  rw [h0] at h
  exact h

/-- so when no override is in force IsOpen() is true exactly when the last notification was Opened -/
theorem flag_tracks_last {σo σc : Type} (O : OpenerI σo) (C : CloserI σc) (c0 : Circ σo σc)
    (h0 : c0.isOpen = false) (ops : List (CircOp σo σc)) :
    let r := runOps O C c0 ops
    r.1.cfg.forceOpen = false → r.1.cfg.forcedClosed = false →
    isOpenEff r.1 = ((notifs r.2).getLast?).getD false := by
  intro r h1 h2
  have h := runOps_alt O C c0 ops
  rw [h0] at h
  rw [isOpenEff_of_no_override r.1 h1 h2]
  exact h.2

/-- calls that change nothing notify nobody -/
theorem noop_open_silent {σo σc : Type} (O : OpenerI σo) (C : CloserI σc) (c : Circ σo σc)
    (h : isOpenEff c = true ∨ c.cfg.forcedClosed = true) :
    (manualOpen O C c).2.emits = [] ∧ (manualOpen O C c).1.isOpen = c.isOpen := by
  rw [manualOpen_noop O C c h]
  exact ⟨rfl, rfl⟩
theorem noop_close_silent {σo σc : Type} (O : OpenerI σo) (C : CloserI σc) (c : Circ σo σc)
    (h : isOpenEff c = false ∨ c.cfg.forceOpen = true) :
    (manualClose O C c).2.emits = [] ∧ (manualClose O C c).1.isOpen = c.isOpen := by
  rw [manualClose_noop O C c h]
  exact ⟨rfl, rfl⟩

/-- and the calls that do change something notify exactly once -/
theorem effective_open_notifies_once {σo σc : Type} (O : OpenerI σo) (C : CloserI σc) (c : Circ σo σc)
    (h1 : isOpenEff c = false) (h2 : c.cfg.forcedClosed = false) :
    (manualOpen O C c).2.emits = [.opened c.clock] ∧ (manualOpen O C c).1.isOpen = true := by
  exact manualOpen_effective O C c h1 h2
theorem effective_close_notifies_once {σo σc : Type} (O : OpenerI σo) (C : CloserI σc) (c : Circ σo σc)
    (h1 : isOpenEff c = true) (h2 : c.cfg.forceOpen = false) :
    (manualClose O C c).2.emits = [.closed c.clock] ∧ (manualClose O C c).1.isOpen = false := by
  exact manualClose_effective O C c h1 h2

/-- per-call form used by the run-time monitor: one Execute passes the C09 verdict -/
theorem c09_exec_holds {σo σc : Type} (O : OpenerI σo) (C : CloserI σc) (c : Circ σo σc) (op : ExecOp) :
    let o := execObs O C c op
    verdictC09 c.cfg (some c.isOpen) o.emits o.openAfter true = none := by
  intro o
  have h := (tr_execute O C c op.ctx op.run op.fb).from_empty
  obtain ⟨hcfg, halt, hlast, -⟩ := h
  have hem : o.emits = (execute O C c op.ctx op.run op.fb).2.1.emits := rfl
  have hoa : o.openAfter = isOpenEff (execute O C c op.ctx op.run op.fb).1 := rfl
  unfold verdictC09
  simp only [verdictC09_alt_eq, Option.getD_some, hem, hoa, halt]
  by_cases hno : c.cfg.forceOpen = false ∧ c.cfg.forcedClosed = false
  · rw [isOpenEff_of_no_override _ (by rw [hcfg]; exact hno.1) (by rw [hcfg]; exact hno.2), hlast]
    simp
  · simp only [Bool.not_eq_true', bne_iff_ne, ne_eq]
    have hn : ¬ (c.cfg.forceOpen = false ∧ c.cfg.forcedClosed = false ∧ c.cfg.disabled = false ∧
        ¬ isOpenEff (execute O C c op.ctx op.run op.fb).1 =
          ((notifs (execute O C c op.ctx op.run op.fb).2.1.emits).getLast?).getD c.isOpen) :=
      fun hh => hno ⟨hh.1, hh.2.1⟩
    simp [hn]

example : (notifs (runOps openerI closerI ({ opener := .never, closer := .never } : Circ OState CState)
    [.openC, .openC, .closeC, .closeC, .openC]).2) = [true, false, true] := by decide

end CM.Props.C09

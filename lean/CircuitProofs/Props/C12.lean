/- Props/C12.lean — property C12: all theorems live in namespace CM.Props.C12, split over two files. -/
import CircuitProofs.Props.C12Tie
import CircuitProofs.Props.C12Base
import CircuitProofs.Props.C12Ordered

/-
  Props/C12.lean — one clock: every timestamp and duration comes from the configured TimeKeeper.
  In the model the only source of time is `now` (a TimeKeeper reading, recorded in `Obs.readings`); these theorems
  show that every time handed to opener, closer and collectors — on every entry point — is such a reading taken
  during that very call, and every duration the difference of two of them.
-/
import CircuitProofs.Props.CircuitCommon
import CircuitProofs.Lemmas.Circuit
namespace CM.Props.C12
open CM CM.SpecCircuit CM.Props

theorem execute_timestamps_are_readings {σo σc : Type} (O : OpenerI σo) (C : CloserI σc) (c : Circ σo σc) (op : ExecOp) :
    let r := execute O C c op.ctx op.run op.fb
    verdictC12 r.2.1.emits r.2.1.readings = none := by
  sorry

theorem openCircuit_timestamps_are_readings {σo σc : Type} (O : OpenerI σo) (C : CloserI σc) (c : Circ σo σc) :
    let r := manualOpen O C c
    verdictC12 r.2.emits r.2.readings = none ∧ r.2.readings = [c.clock] := by
  sorry

theorem closeCircuit_timestamps_are_readings {σo σc : Type} (O : OpenerI σo) (C : CloserI σc) (c : Circ σo σc) :
    let r := manualClose O C c
    verdictC12 r.2.emits r.2.readings = none ∧ r.2.readings = [c.clock] := by
  sorry

/-- the times handed to the open/close logic's queries are readings of this call too: Allow and Prevent get the
    start reading (the clock value when the call began) -/
theorem queries_use_the_start_reading {σo σc : Type} (O : OpenerI σo) (C : CloserI σc) (c : Circ σo σc) (op : ExecOp)
    (sc : Script) (hen : c.cfg.disabled = false) (hrun : op.run = some sc) :
    (execute O C c op.ctx op.run op.fb).2.1.readings.head? = some c.clock := by
  sorry

example : verdictC12 [.opened 77] [3] ≠ none := by decide   -- the monitor does reject a foreign timestamp

end CM.Props.C12

/-
  Props/RunAll.lean — theorems about the WHOLE-CALL small-step model (Conc/Run: admission + bulkhead + invocation +
  classification + delivery + transitions, any number of concurrent callers plus OpenCircuit / CloseCircuit threads),
  for EVERY schedule.  (1) Every step of the model FROM A WELL-FORMED LOCAL STATE (`rp_wf`: the kinds embedded in the program counter are the
  script's; holds initially, preserved by every step — the statement for arbitrary locals is false and was refuted by
  the proof agent) is a step of Conc/Call resp. Conc/Gauge on its projection, or leaves the projection unchanged — so every schedule of it projects onto a schedule of theirs (`call_view`, `gauge_view`) and
  their all-schedule theorems hold of it (C04, C01).  (2) Proved directly: each call ends with exactly the run events
  its outcome calls for, whatever the others do — one short-circuit, one rejection, the one event of the kind the
  classification precedence yields, and NOTHING for a call whose function panicked (C05, C10, C04, C01 for all schedules).
-/
import CircuitModel.Conc.Run
import CircuitProofs.Props.C04
import CircuitProofs.Props.C01Conc
import CircuitProofs.Lemmas.RunProj
import CircuitProofs.Lemmas.RunEvents
namespace CM.Props.RunAll
open CM.Conc CM.Conc.Run

/-! ### simulation, generically -/

/-- if every step of a system R is, through an abstraction, a step of A by the same thread or nothing, then every
    schedule of R is, through the abstraction, a schedule of A -/
theorem sim_schedule {σR locR σA locA : Type} (R : Sys σR locR) (A : Sys σA locA) (absS : σR → σA) (absL : locR → locA)
    (hstep : ∀ i s l s' l', R.step i s l = some (s', l') →
      A.step i (absS s) (absL l) = some (absS s', absL l') ∨ (absS s' = absS s ∧ absL l' = absL l))
    (sched : List Nat) (c : Config σR locR) :
    ∃ sched', run A { shared := absS c.shared, locals := c.locals.map absL } sched' =
      { shared := absS (run R c sched).shared, locals := (run R c sched).locals.map absL } :=
  CM.Lemmas.RunProj.rp_sim_schedule R A absS absL hstep sched c

/-- `step_call` is FALSE for local states no run reaches (`CM.Lemmas.RunProj.rp_step_call_false`); it holds of every
    well-formed local state (`rp_wf`: true of `init`, preserved by `step` — `rp_wf_init`, `rp_wf_step`) -/
theorem step_call_wf (i : Nat) (s : Shared) (l : Local) (s' : Shared) (l' : Local)
    (hw : CM.Lemmas.RunProj.rp_wf l) (h : step i s l = some (s', l')) :
    CM.Lemmas.RunProj.rp_wf l' ∧
    (Call.step i (toCallShared s) (toCallLocal l) = some (toCallShared s', toCallLocal l') ∨
      (toCallShared s' = toCallShared s ∧ toCallLocal l' = toCallLocal l)) :=
  ⟨CM.Lemmas.RunProj.rp_wf_step i s l s' l' hw h, CM.Lemmas.RunProj.rp_step_call i s l s' l' hw h⟩

/-- `step_gauge` is FALSE for local states no run reaches (`CM.Lemmas.RunProj.rp_step_gauge_false`); it holds of every
    well-formed local state -/
theorem step_gauge_wf (i : Nat) (s : Shared) (l : Local) (s' : Shared) (l' : Local)
    (hw : CM.Lemmas.RunProj.rp_wf l) (h : step i s l = some (s', l')) :
    CM.Lemmas.RunProj.rp_wf l' ∧
    (Gauge.step i (toGaugeShared s) (toGaugeLocal l) = some (toGaugeShared s', toGaugeLocal l') ∨
      (toGaugeShared s' = toGaugeShared s ∧ toGaugeLocal l' = toGaugeLocal l)) :=
  ⟨CM.Lemmas.RunProj.rp_wf_step i s l s' l' hw h, CM.Lemmas.RunProj.rp_step_gauge i s l s' l' hw h⟩

/-- `call_view` is FALSE for configurations with ill-formed locals (`CM.Lemmas.RunProj.rp_call_view_false`); it holds
    of every configuration all of whose locals are well-formed — in particular of everything reachable from `init`
    (`call_view_init`) -/
theorem call_view_wf (c : Config Shared Local) (hc : ∀ l ∈ c.locals, CM.Lemmas.RunProj.rp_wf l) (sched : List Nat) :
    (∀ l ∈ (run sys c sched).locals, CM.Lemmas.RunProj.rp_wf l) ∧
    ∃ sched', run Call.sys (toCall c) sched' = toCall (run sys c sched) :=
  ⟨(CM.Lemmas.RunProj.rp_views c hc sched).1, CM.Lemmas.RunProj.rp_call_view c hc sched⟩

/-- `gauge_view` is FALSE for configurations with ill-formed locals (`CM.Lemmas.RunProj.rp_gauge_view_false`); it holds
    of every configuration all of whose locals are well-formed — in particular of everything reachable from `init`
    (`gauge_view_init`) -/
theorem gauge_view_wf (c : Config Shared Local) (hc : ∀ l ∈ c.locals, CM.Lemmas.RunProj.rp_wf l) (sched : List Nat) :
    (∀ l ∈ (run sys c sched).locals, CM.Lemmas.RunProj.rp_wf l) ∧
    ∃ sched', run Gauge.sys (toGauge c) sched' = toGauge (run sys c sched) :=
  ⟨(CM.Lemmas.RunProj.rp_views c hc sched).1, CM.Lemmas.RunProj.rp_gauge_view c hc sched⟩

theorem init_call (fo fc io : Bool) (m : Int) (jobs : List Run.Job) :
    toCall (init fo fc io m jobs) = Call.init fo fc io (jobs.map toCallJob) :=
  CM.Lemmas.RunProj.rp_init_call fo fc io m jobs

theorem init_gauge (fo fc io : Bool) (m : Int) (jobs : List Run.Job) :
    toGauge (init fo fc io m jobs) = Gauge.init m jobs.length :=
  CM.Lemmas.RunProj.rp_init_gauge fo fc io m jobs

/-- every schedule of the whole-call model FROM `init` is, seen through `toCall`, a schedule of Conc/Call from its `init` -/
theorem call_view_init (fo fc io : Bool) (m : Int) (jobs : List Run.Job) (sched : List Nat) :
    ∃ sched', run Call.sys (Call.init fo fc io (jobs.map toCallJob)) sched' = toCall (run sys (init fo fc io m jobs) sched) :=
  CM.Lemmas.RunProj.rp_call_reach fo fc io m jobs sched

theorem gauge_view_init (fo fc io : Bool) (m : Int) (jobs : List Run.Job) (sched : List Nat) :
    ∃ sched', run Gauge.sys (Gauge.init m jobs.length) sched' = toGauge (run sys (init fo fc io m jobs) sched) :=
  CM.Lemmas.RunProj.rp_gauge_reach fo fc io m jobs sched

/-! ### C04 for whole calls, every schedule (lifted through `gauge_view`) -/

theorem inflight_le_limit (fo fc io : Bool) (m : Int) (hm : 0 ≤ m) (jobs : List Run.Job) (sched : List Nat) :
    (inFlight (run sys (init fo fc io m jobs) sched) : Int) ≤ m :=
  CM.Lemmas.RunProj.rp_inflight_le_limit fo fc io m hm jobs sched

theorem limit_zero_invokes_nobody (fo fc io : Bool) (jobs : List Run.Job) (sched : List Nat) :
    inFlight (run sys (init fo fc io 0 jobs) sched) = 0 :=
  CM.Lemmas.RunProj.rp_limit_zero_invokes_nobody fo fc io jobs sched

theorem negative_unlimited (fo fc io : Bool) (m : Int) (hm : m < 0) (jobs : List Run.Job) (sched : List Nat) (i : Nat) :
    resultOf (run sys (init fo fc io m jobs) sched) i ≠ some Run.Res.rejected :=
  CM.Lemmas.RunProj.rp_negative_unlimited fo fc io m hm jobs sched i

/-- whole calls, every schedule: a limit at least the number of callers refuses NOBODY (no call ends `rejected`,
    whatever the circuit state, the overrides and the other calls do) -/
theorem large_limit_never_rejects (fo fc io : Bool) (m : Int) (jobs : List Run.Job) (hm : (jobs.length : Int) ≤ m)
    (sched : List Nat) (i : Nat) :
    resultOf (run sys (init fo fc io m jobs) sched) i ≠ some Run.Res.rejected :=
  CM.Lemmas.RunProj.rp_large_limit_never_rejects fo fc io m jobs hm sched i

/-- once every call has returned — by return, refusal or PANIC — the gauge reads zero -/
theorem quiescent_gauge_zero (fo fc io : Bool) (m : Int) (jobs : List Run.Job) (sched : List Nat)
    (hq : allDone (run sys (init fo fc io m jobs) sched) = true) : (run sys (init fo fc io m jobs) sched).shared.gauge = 0 :=
  CM.Lemmas.RunProj.rp_quiescent_gauge_zero fo fc io m jobs sched hq

theorem gauge_never_negative (fo fc io : Bool) (m : Int) (jobs : List Run.Job) (sched : List Nat) :
    0 ≤ (run sys (init fo fc io m jobs) sched).shared.gauge :=
  CM.Lemmas.RunProj.rp_gauge_never_negative fo fc io m jobs sched

/-! ### C01 for whole calls, every schedule (lifted through `call_view`) -/

theorem force_open_invokes_nobody (fc io : Bool) (m : Int) (jobs : List Run.Job) (sched : List Nat) (i : Nat) :
    (i, Run.Ev.invoked) ∉ (run sys (init true fc io m jobs) sched).shared.events :=
  CM.Lemmas.RunProj.rp_force_open_invokes_nobody fc io m jobs sched i

/-- a run function is invoked only for a call that read the circuit as closed, or as open and was admitted by the closer
    with ForceOpen off — and was not vetoed -/
theorem invoked_only_if_admitted (fo fc io : Bool) (m : Int) (jobs : List Run.Job) (sched : List Nat) (i : Nat) :
    let c := run sys (init fo fc io m jobs) sched
    (i, Run.Ev.invoked) ∈ c.shared.events →
    ∃ sc l, jobs[i]? = some (.call sc) ∧ c.locals[i]? = some l ∧ sc.prevent = false ∧
      (l.sawOpen = some false ∨ (l.sawOpen = some true ∧ sc.allow = true ∧ fo = false)) :=
  CM.Lemmas.RunProj.rp_invoked_only_if_admitted fo fc io m jobs sched i

/-- an open circuit whose closer admits nobody, with nobody closing it, sheds everything and stays open -/
theorem open_circuit_invokes_nobody (fo : Bool) (m : Int) (jobs : List Run.Job) (sched : List Nat)
    (hadm : jobs.all (fun j => match j with | .call sc => !sc.allow | _ => true) = true)
    (hnc : jobs.all (· != .close) = true) :
    let c := run sys (init fo false true m jobs) sched
    (∀ i, (i, Run.Ev.invoked) ∉ c.shared.events) ∧ c.shared.t.isOpen = true :=
  CM.Lemmas.RunProj.rp_open_circuit_invokes_nobody fo m jobs sched hadm hnc

/-! ### exactly the right run events, for every schedule (C05, C10, C04, C01) — proved on this model directly -/

/-- what the run collectors must have been told about a call that ended as `r` -/
def expectedEvents (sc : Run.Script) : Run.Res → List Run.Ev → Prop
  | .shed, evs => evs = [.shortCircuit] ∨ (evs = [] ∧ sc.prevent = true)
  | .rejected, evs => evs = [.reject]
  | .ran k, evs => evs = [.ran k] ∧ k = sc.kind ∧ sc.panics = false
  | .panicked, evs => evs = [] ∧ sc.panics = true
  | .manual, _ => False

theorem exactly_the_right_events (fo fc io : Bool) (m : Int) (jobs : List Run.Job) (sched : List Nat) (i : Nat) (sc : Run.Script) (r : Run.Res) :
    let c := run sys (init fo fc io m jobs) sched
    jobs[i]? = some (.call sc) → resultOf c i = some r →
    expectedEvents sc r (runEventsOf c i) ∧
    invokedCount c i = (match r with | .ran _ | .panicked => 1 | _ => 0) := by
  intro c hj hr
  obtain ⟨h1, h2⟩ := CM.Lemmas.RunEvents.re_exact jobs c (CM.Lemmas.RunEvents.re_Inv_run fo fc io m jobs sched) i sc r hj hr
  refine ⟨?_, h2⟩
  cases r <;> exact h1

/-- … and while a call is still under way it has been told about at most once, and its function invoked at most once -/
theorem at_most_one_event_ever (fo fc io : Bool) (m : Int) (jobs : List Run.Job) (sched : List Nat) (i : Nat) :
    let c := run sys (init fo fc io m jobs) sched
    (runEventsOf c i).length ≤ 1 ∧ invokedCount c i ≤ 1 := by
  intro c
  exact CM.Lemmas.RunEvents.re_at_most_one jobs c (CM.Lemmas.RunEvents.re_Inv_run fo fc io m jobs sched) i

/-- OpenCircuit / CloseCircuit threads tell the run collectors nothing -/
theorem manual_threads_silent (fo fc io : Bool) (m : Int) (jobs : List Run.Job) (sched : List Nat) (i : Nat)
    (hj : jobs[i]? = some .open ∨ jobs[i]? = some .close) :
    let c := run sys (init fo fc io m jobs) sched
    runEventsOf c i = [] ∧ invokedCount c i = 0 := by
  intro c
  exact CM.Lemmas.RunEvents.re_manual_silent jobs c (CM.Lemmas.RunEvents.re_Inv_run fo fc io m jobs sched) i hj

/-- no schedule deadlocks: while somebody has not returned, somebody can step (the transition mutex is the only thing
    anybody ever waits for, and its holder can always go on) -/
theorem never_deadlocks (fo fc io : Bool) (m : Int) (jobs : List Run.Job) (sched : List Nat) :
    let c := run sys (init fo fc io m jobs) sched
    allDone c = false → ∃ i l, c.locals[i]? = some l ∧ (step i c.shared l).isSome := by
  intro c hnd
  exact CM.Lemmas.RunEvents.re_no_deadlock c (CM.Lemmas.RunEvents.re_Hold_run fo fc io m jobs sched) hnd

/-! non-vacuity: limit 1, two callers and an OpenCircuit; the second caller is refused while the first is inside and
    panics; everything returns, the gauge reads zero, the panicking call left no run event -/
def jobs0 : List Run.Job := [.call { panics := true }, .call {}, .open]
def sched0 : List Nat := [0, 0, 0, 0, 0, 1, 1, 1, 1, 1, 1, 1, 0, 0, 2, 2, 2, 2, 2, 2, 2, 2, 1, 0]
example : allDone (run sys (init false false false 1 jobs0) sched0) = true := by decide
example : resultOf (run sys (init false false false 1 jobs0) sched0) 0 = some Run.Res.panicked ∧
    resultOf (run sys (init false false false 1 jobs0) sched0) 1 = some Run.Res.rejected := by decide
example : runEventsOf (run sys (init false false false 1 jobs0) sched0) 0 = [] := by decide

end CM.Props.RunAll

import CircuitModel.Spec.C13
namespace CM.Props.C13
theorem placeholder : (RC.new 1 1).n = 1 := rfl
end CM.Props.C13

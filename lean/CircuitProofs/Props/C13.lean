/-
  Props/C13.lean — property C13: RollingCounter is an exact sliding-window counter for any timestamp order.
  Property theorems only (helper lemmas live in CircuitProofs/Lemmas/RC.lean).
-/
import CircuitProofs.Props.C13Tie
import CircuitModel.Spec.C13
import CircuitProofs.Lemmas.RC
namespace CM.Props.C13
open CM CM.SpecC13

/-- REFINEMENT (the main theorem).  For every positive bucket count and width and every finite sequence of
    Inc / RollingSumAt / GetBuckets / Reset / TotalSum / JSON round-trip with arbitrary (non-monotonic, negative,
    far-future) timestamps, the ring-buffer model answers exactly what the history-based specification dictates. -/
theorem refines (n : Nat) (w : Int) (hn : 0 < n) (hw : 0 < w) (ops : List RCOp) :
    (RC.new n w).run ops = SpecC13.run n w ops := by
  have _ := hw
  exact Inv.run hn ops (RC.new n w) [] (Inv.new n w hn)

/-- no timestamp makes any operation panic -/
theorem never_panics (n : Nat) (w : Int) (hn : 0 < n) (hw : 0 < w) (ops : List RCOp) :
    RCOut.panic ∉ (RC.new n w).run ops := by
  rw [refines n w hn hw ops]
  exact panic_not_mem_runFrom n w ops []

/-- presenting any operation (in particular one with an older time) never moves the window back -/
theorem window_never_moves_back (w : Int) (h : List RCOp) (op : RCOp) : hi w h ≤ hi w (op :: h) := by
  exact hi_le_cons w h op

/-- an Inc stamped before the start, or older than the window, changes neither the rolling sum nor any bucket
    (it is counted in TotalSum only) -/
theorem stale_only_in_total (n : Nat) (w : Int) (h : List RCOp) (d : Int)
    (hstale : d < 0 ∨ absIdx w d + n ≤ hi w h) :
    sum n w (.inc d :: h) = sum n w h ∧ bucketsAt n w (.inc d :: h) = bucketsAt n w h ∧
    incs (.inc d :: h) = incs h + 1 := by
  refine ⟨?_, ?_, rfl⟩
  · rw [sum_eq_win, sum_eq_win, counted_inc, hi_cons_time w h (.inc d) d rfl]
    by_cases hd : d < 0
    · rw [if_pos hd, if_pos hd]
    · rw [if_neg hd, if_neg hd]
      have hs : absIdx w d + n ≤ hi w h := by omega
      have hm : max (absIdx w d) (hi w h) = hi w h := by omega
      rw [hm, win_cons, if_neg (by omega)]; omega
  · rw [bucketsAt_eq, bucketsAt_eq, counted_inc, hi_cons_time w h (.inc d) d rfl]
    by_cases hd : d < 0
    · rw [if_pos hd, if_pos hd]
    · rw [if_neg hd, if_neg hd]
      have hs : absIdx w d + n ≤ hi w h := by omega
      have hm : max (absIdx w d) (hi w h) = hi w h := by omega
      rw [hm]
      apply List.map_congr_left
      intro i hmem
      have hlt : i < n := List.mem_range.mp hmem
      simp only [cnt_cons]
      split
      · rw [if_neg (by omega)]; omega
      · rfl

/-- Reset empties the window and leaves TotalSum alone -/
theorem reset_empties_window_keeps_total (n : Nat) (w : Int) (h : List RCOp) (d : Int) :
    sum n w (.reset d :: h) = 0 ∧ bucketsAt n w (.reset d :: h) = List.replicate n 0 ∧
    incs (.reset d :: h) = incs h := by
  refine ⟨?_, ?_, rfl⟩
  · rw [sum_eq_win, counted_reset, win_nil]
  · rw [bucketsAt_eq, counted_reset]
    simp only [cnt_nil, ite_self]
    rw [List.map_const', List.length_range]

/-- the rolling sum is the sum of the buckets GetBuckets reports (spec level; by `refines` also for the model) -/
theorem sum_eq_sum_buckets (n : Nat) (w : Int) (h : List RCOp) :
    sum n w h = (bucketsAt n w h).sum := by
  rw [sum_eq_win, bucketsAt_eq]
  exact win_eq_sum_range _ _ (counted_le_hi w h) n

/-- the model's bucket list always has NumBuckets entries, whatever happened (so no index is ever out of range) -/
theorem buckets_length (n : Nat) (w : Int) (ops : List RCOp) :
    ((RC.new n w).exec ops).buckets.length = n := by
  rw [exec_length]
  simp [RC.new]

/-- non-vacuity: a concrete history with roll-over, a stale event, a pre-start event and a reset -/
example : (RC.new 4 1000000).run
      [.inc 10000000, .inc 2000000, .inc (-5), .sum 10000000, .bk 11000000, .reset 11000000, .inc 11000001, .sum 0, .total]
    = [.ok, .ok, .ok, .int 1, .ints [0, 1, 0, 0], .ok, .ok, .int 1, .int 4] := by decide

/-- the Inc calls since the last Reset are among the Inc calls -/
theorem live_length_le_incs (h : List RCOp) : ((live h).length : Int) ≤ incs h ∧ 0 ≤ incs h := by
  induction h with
  | nil => simp [live, incs]
  | cons op h ih =>
    cases op <;> simp only [live, incs, List.length_cons, List.length_nil] <;> omega

/-- the window never reports more than happened: for EVERY history (any timestamps, any order, Resets and JSON
    round-trips anywhere) 0 ≤ rolling sum ≤ TotalSum (spec level; by `refines` also what the ring-buffer model answers) -/
theorem sum_le_total (n : Nat) (w : Int) (h : List RCOp) : 0 ≤ sum n w h ∧ sum n w h ≤ incs h := by
  have h1 := live_length_le_incs h
  have h2 : ((counted w h).filter (fun e => e + n > hi w h)).length ≤ (counted w h).length := List.length_filter_le _ _
  have h3 : (counted w h).length ≤ (live h).length := by
    unfold counted
    rw [List.length_map]
    exact List.length_filter_le _ _
  unfold sum
  omega
end CM.Props.C13

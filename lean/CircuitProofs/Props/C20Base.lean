/-
  Props/C20.lean — metric consumers agree with what happened.
  The consumers are functions of the callbacks the circuit delivers (C05: exactly one per attempt, of the right kind,
  identically to every collector), so "any history of calls" is any list of delivered callbacks.
-/
import CircuitModel.Spec.C20
import CircuitProofs.Lemmas.Cons
namespace CM.Props.C20
open CM CM.Cons CM.SpecC20

/-- the history record the specification keeps is just the delivered callbacks -/
def histOf (emits : List Emit) : Hist := emits.foldl Hist.add {}

/-- TOTALS: after ANY history, for every window/percentile configuration, each run kind's TotalSum is the number of
    events of that kind, and likewise for the three fallback kinds -/
theorem totals_eq_counts (n : Nat) (dur : Int) (pn : Nat) (pdur : Int) (psize : Nat) (mh : Int) (emits : List Emit) :
    let a := (All.new n dur pn pdur psize mh).feed emits
    a.run.totals = kinds.map (total (histOf emits)) ∧
    [a.fb.successes.total, a.fb.rejects.total, a.fb.failures.total] = fbKinds.map (fbTotal (histOf emits)) := by
  intro a
  refine ⟨?_, ?_⟩
  · rw [totals_eq]
    apply List.map_congr_left
    intro k _
    exact total_getR k n dur pn pdur psize mh emits
  · show fbKinds.map (fun k => (getF k a.fb).total) = _
    apply List.map_congr_left
    intro k _
    exact total_getF k n dur pn pdur psize mh emits

/-- the times of a history are non-negative, non-decreasing and not after `now` (the harness's clock; one
    unambiguous window) -/
def emitTime : Emit → Int
  | .run _ t _ | .fb _ t _ | .opened t | .closed t => t
def monotoneUpTo (now : Int) : List Emit → Bool
  | [] => decide (0 ≤ now)
  | e :: rest => decide (0 ≤ emitTime e) && (rest.all fun e' => decide (emitTime e ≤ emitTime e')) && decide (emitTime e ≤ now) && monotoneUpTo now rest

/-- ROLLING SUMS: for such histories, each kind's rolling sum read at `now` is the number of events of that kind
    inside the window ending at `now` -/
theorem rolling_eq_windowed (n : Nat) (dur : Int) (pn : Nat) (pdur : Int) (psize : Nat) (mh : Int) (hn : 0 < n)
    (hw : 0 < tdiv dur n) (emits : List Emit) (now : Int) (hmono : monotoneUpTo now emits = true) :
    let a := (All.new n dur pn pdur psize mh).feed emits
    (a.run.sums now).2 = kinds.map (fun k => rolling n (tdiv dur n) (histOf emits) k now) := by
  intro a
  have key : ∀ l : List Emit, monotoneUpTo now l = true → 0 ≤ now ∧ ∀ e ∈ l, emitTime e ≤ now := by
    intro l
    induction l with
    | nil => intro h; exact ⟨by simpa [monotoneUpTo] using h, by simp⟩
    | cons e l ih =>
      intro h
      simp only [monotoneUpTo, Bool.and_eq_true, decide_eq_true_eq] at h
      obtain ⟨⟨⟨_, _⟩, hle⟩, hrest⟩ := h
      obtain ⟨i0, il⟩ := ih hrest
      refine ⟨i0, fun e' he' => ?_⟩
      rcases List.mem_cons.mp he' with rfl | he'
      · exact hle
      · exact il e' he'
  obtain ⟨h0, hle⟩ := key emits hmono
  rw [sums_snd]
  apply List.map_congr_left
  intro k _
  exact rolling_getR k n dur pn pdur psize mh hn hw emits now h0 (fun k t d h => hle _ h)

/-- ROLLING SUMS, ANY ORDER: the same for callbacks delivered in ANY timestamp order (completions stamped late — by less
    or by more than a window —, set-back clocks, events before the start), as long as the read is not older than what
    was delivered: only `0 ≤ now` and "every stamp ≤ now" are needed -/
theorem rolling_eq_windowed_any_order (n : Nat) (dur : Int) (pn : Nat) (pdur : Int) (psize : Nat) (mh : Int) (hn : 0 < n)
    (hw : 0 < tdiv dur n) (emits : List Emit) (now : Int) (h0 : 0 ≤ now) (hle : ∀ e ∈ emits, emitTime e ≤ now) :
    let a := (All.new n dur pn pdur psize mh).feed emits
    (a.run.sums now).2 = kinds.map (fun k => rolling n (tdiv dur n) (histOf emits) k now) := by
  intro a
  rw [sums_snd]
  apply List.map_congr_left
  intro k _
  exact rolling_getR k n dur pn pdur psize mh hn hw emits now h0 (fun k t d h => hle _ h)

/-- ERROR PERCENTAGE: the double the code computes is the correctly rounded quotient (failures+timeouts) /
    (successes+failures+timeouts), and 0 when there were no attempts (counts below 2^53) -/
theorem error_percentage_correct (s f t : Int) (hs : 0 ≤ s) (hf : 0 ≤ f) (ht : 0 ≤ t) (hb : s + f + t ≤ 9007199254740992) :
    Cons.errorPercentage s f t = (if s + f + t = 0 then 0 else F64.rne (((f + t : Int) : Rat) / ((s + f + t : Int) : Rat))) := by
  exact errorPercentage_eq s f t hs hf ht hb

/-- so it lies in [0,1] -/
theorem error_percentage_bounds (s f t : Int) (hs : 0 ≤ s) (hf : 0 ≤ f) (ht : 0 ≤ t) (hb : s + f + t ≤ 9007199254740992) :
    0 ≤ Cons.errorPercentage s f t ∧ Cons.errorPercentage s f t ≤ 1 := by
  exact errorPercentage_bounds s f t hs hf ht hb

/-- SLO TABLE: after ANY history the tracker counts a pass for each success within MaximumHealthyTime and a fail for
    each slower success, failure, timeout, rejection, short-circuit and interrupt longer than that time — nothing else -/
theorem slo_table (n : Nat) (dur : Int) (pn : Nat) (pdur : Int) (psize : Nat) (mh : Int) (emits : List Emit) :
    let a := (All.new n dur pn pdur psize mh).feed emits
    a.slo.pass = sloPass mh (histOf emits) ∧ a.slo.fail = sloFail mh (histOf emits) ∧ a.slo.maxHealthy = mh := by
  exact slo_feed n dur pn pdur psize mh emits

/-- bad requests and fast interrupts move neither SLO count -/
theorem slo_ignores (s : Slo) (k : Kind) (d : Int) (h : k = .badRequest ∨ (k = .interrupt ∧ d ≤ s.maxHealthy)) :
    s.onRun k d = s := by
  rcases h with rfl | ⟨rfl, hd⟩
  · rfl
  · have : ¬ d > s.maxHealthy := by omega
    simp only [Slo.onRun, if_neg this]

example : ((All.new 2 20 1 20 2 5).feed [.run .success 1 3, .run .success 2 9, .run .interrupt 3 9, .run .badRequest 4 99, .fb .failure 5 1]).slo.fail = 2 := by decide

end CM.Props.C20

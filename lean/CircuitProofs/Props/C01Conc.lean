/-
  Props/C01Conc.lean — C01 under schedules: any number of concurrent callers racing each other, OpenCircuit,
  CloseCircuit and the opening / closing transitions their own outcomes trigger, every interleaving of the
  individual atomic loads, lock operations, notification deliveries and stores (Conc/Call).
-/
import CircuitModel.Conc.Call
import CircuitProofs.Lemmas.ConcCall
namespace CM.Props.C01
open CM.Conc CM.Conc.Call

/-- RAN ONLY IF ADMITTED, under every schedule and for every mix of jobs: a run function is invoked only by a call
    whose own reading of the circuit said "closed" — or said "open" while ForceOpen was off and the closer admitted
    it — and which the opener did not veto -/
theorem ran_only_if_admitted (fo fc io : Bool) (jobs : List Job) (sched : List Nat) (i : Nat) :
    let c := run sys (init fo fc io jobs) sched
    (i, Outcome.ran) ∈ c.shared.events →
    ∃ sc l, jobs[i]? = some (.call sc) ∧ c.locals[i]? = some l ∧ sc.prevent = false ∧
      (l.sawOpen = some false ∨ (l.sawOpen = some true ∧ sc.allow = true ∧ fo = false)) := by
  intro c hr
  have h := ccall_reach fo fc io jobs sched
  obtain ⟨sc, l, h1, h2, h3, h4, _⟩ := ccall_Inv_ran fo jobs _ h.1 h.2 i hr
  exact ⟨sc, l, h1, h2, h3, h4⟩

/-- what a call read is what the circuit was: a call that read "closed" did so while ForceOpen was off (and the flag
    was false or ForcedClosed on) — stated as: with ForceOpen set, no call ever reads closed and NO run function is
    ever invoked, whatever the closer answers -/
theorem force_open_sheds_every_call (fc io : Bool) (jobs : List Job) (sched : List Nat) (i : Nat) :
    let c := run sys (init true fc io jobs) sched
    (i, Outcome.ran) ∉ c.shared.events := by
  intro c hr
  have h := ccall_reach true fc io jobs sched
  obtain ⟨sc, l, _, _, _, h4, h5⟩ := ccall_Inv_ran true jobs _ h.1 h.2 i hr
  rcases h4 with h4 | ⟨_, _, h4⟩
  · exact absurd (h5 h4) (by decide)
  · exact absurd h4 (by decide)

/-- OPEN AND NOT ADMITTED ⇒ NEVER RUN: from an open circuit (not forced closed) whose closer admits nobody, no run
    function is invoked under any schedule, by any number of callers, racing any number of OpenCircuit calls — and
    the circuit stays open -/
theorem open_circuit_sheds_all (fo : Bool) (jobs : List Job) (sched : List Nat)
    (hadm : closerAdmitsNone jobs = true) (hnc : jobs.all (· != .close) = true) :
    let c := run sys (init fo false true jobs) sched
    (∀ i, (i, Outcome.ran) ∉ c.shared.events) ∧ c.shared.t.isOpen = true := by
  intro c
  have h := ccall_AllShed_run _ (ccall_AllShed_init fo jobs hadm hnc) sched
  exact ⟨h.2.2.1, h.2.1⟩

/-- once open, open for good, when nothing can close it: the flag is monotone under every schedule -/
theorem flag_monotone_without_closers (fo fc : Bool) (jobs : List Job) (s1 s2 : List Nat)
    (hnc : neverCloses jobs = true) :
    let c1 := run sys (init fo fc false jobs) s1
    let c2 := run sys c1 s2
    c1.shared.t.isOpen = true → c2.shared.t.isOpen = true := by
  intro c1 c2 h1
  exact ccall_NC_mono c1 (ccall_NC_run _ (ccall_NC_init fo fc false jobs hnc) s1) h1 s2

/-- a completed opening has set the flag: when an OpenCircuit thread has returned (no ForcedClosed, nothing that
    closes), the circuit is open -/
theorem returned_open_means_open (fo : Bool) (jobs : List Job) (sched : List Nat) (k : Nat) (l : Local)
    (hnc : neverCloses jobs = true) :
    let c := run sys (init fo false false jobs) sched
    jobs[k]? = some .open → c.locals[k]? = some l → l.pc = .done → (c.shared.t.isOpen = true ∨ fo = true) := by
  intro c hj hl hpc
  exact ccall_OT_returned fo jobs sched k l hnc hj hl hpc

/-- REAL-TIME SHEDDING: every call that STARTS after the circuit was opened is shed.  Whatever happened before
    (`s1`: any interleaving of callers, failing calls that open the circuit, OpenCircuit), if at that moment the
    circuit is open (flag set, or ForceOpen), the closer admits nobody and nothing can close the circuit, then a
    caller that has not taken its first step yet never invokes its run function, however the rest (`s2`) is
    scheduled; and when it returns, it returns the refusal -/
theorem calls_starting_after_open_are_shed (fo : Bool) (jobs : List Job) (s1 s2 : List Nat) (i : Nat) (l : Local)
    (hadm : closerAdmitsNone jobs = true) (hnc : neverCloses jobs = true) :
    let c1 := run sys (init fo false false jobs) s1
    let c2 := run sys c1 s2
    (c1.shared.t.isOpen = true ∨ fo = true) → c1.locals[i]? = some l → notStarted l = true →
    (i, Outcome.ran) ∉ c2.shared.events ∧
    (∀ l2, c2.locals[i]? = some l2 → l2.pc = .done → (∃ sc, l.job = .call sc) → (i, Outcome.shed) ∈ c2.shared.events) := by
  intro c1 c2 hopen hl hns
  exact ccall_late_shed fo jobs s1 s2 i l hadm hnc hopen hl hns

/-- each call decides exactly once: at most one outcome per thread at any instant, none for OpenCircuit /
    CloseCircuit threads, and exactly one once the call has returned -/
theorem one_outcome_per_call (fo fc io : Bool) (jobs : List Job) (sched : List Nat) :
    let c := run sys (init fo fc io jobs) sched
    (c.shared.events.map (·.1)).Nodup ∧
    (∀ e ∈ c.shared.events, ∃ sc, jobs[e.1]? = some (.call sc)) ∧
    (∀ i sc l, jobs[i]? = some (.call sc) → c.locals[i]? = some l → l.pc = .done → (outcomeOf c i).isSome) := by
  intro c
  have h := ccall_reach fo fc io jobs sched
  exact ccall_Inv_outcomes fo jobs _ h.1 h.2

/-- the calls and transitions never deadlock: while some thread has not returned, some thread can step -/
theorem calls_never_deadlock (fo fc io : Bool) (jobs : List Job) (sched : List Nat) :
    let c := run sys (init fo fc io jobs) sched
    allDone c = false → ∃ i l, c.locals[i]? = some l ∧ (step i c.shared l).isSome := by
  intro c hnd
  exact ccall_no_deadlock c (ccall_Hold_run _ (ccall_Hold_init fo fc io jobs) sched) hnd

/-- non-vacuity: a caller that read "closed" before the opening still runs (admitted earlier); a caller starting
    after OpenCircuit returned is shed -/
example :
    let jobs := [Job.call {}, Job.open, Job.call {}]
    let c := run sys (init false false false jobs) ([0, 0, 0] ++ List.replicate 12 1 ++ List.replicate 12 0 ++ List.replicate 12 2)
    allDone c = true ∧ outcomeOf c 0 = some .ran ∧ outcomeOf c 2 = some .shed ∧ c.shared.t.isOpen = true := by
  decide

end CM.Props.C01

import CircuitModel.CloserOps
namespace CM.Props.C03
theorem placeholder : True := trivial
end CM.Props.C03

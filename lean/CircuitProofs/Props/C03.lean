/- Props/C03.lean — property C03: all theorems live in namespace CM.Props.C03, split over two files. -/
import CircuitProofs.Props.C03Tie
import CircuitProofs.Props.C03Closer
import CircuitProofs.Props.C03Circuit

/-
  Props/C15Snapshot.lean — property C15, first sentence: SnapshotAt returns, in ascending order, exactly the
  durations added to buckets inside the current window, keeping per bucket the most recent BucketSize values;
  samples before the start or older than the window are ignored; nothing panics.
  Property theorems only; helper lemmas live in CircuitProofs/Lemmas/RP.lean.
-/
import CircuitModel.Spec.C15
import CircuitProofs.Lemmas.RP
namespace CM.Props.C15
open CM CM.SpecC15

/-- REFINEMENT.  For every positive bucket count, every width, every per-bucket capacity (including 0 and
    overflowing buckets) and every sequence of AddDuration / SnapshotAt / Reset with arbitrary timestamps and
    durations, the ring-of-circular-buffers model answers exactly what the history-based specification dictates. -/
theorem snapshot_refines (n : Nat) (w : Int) (size : Nat) (hn : 0 < n) (ops : List RPOp) :
    (RP.new n w size).run ops = SpecC15.run n w size ops :=
  RInv.run hn ops _ _ (RInv.new n w size hn)

/-- every snapshot the specification (hence, by `snapshot_refines`, the model) returns is ascending -/
theorem snapshot_sorted (n : Nat) (w : Int) (size : Nat) (h : List RPOp) :
    (snapshot n w size h).Pairwise (· ≤ ·) :=
  isort_pairwise _

/-- a sample stamped before the start, or older than the window, is ignored: it changes no later snapshot -/
theorem stale_sample_ignored (n : Nat) (w : Int) (size : Nat) (h : List RPOp) (dur d : Int)
    (hstale : d < 0 ∨ absIdx w d + n ≤ hi w h) :
    snapshot n w size (.add dur d :: h) = snapshot n w size h :=
  snapshot_add_stale n w size h dur d hstale

/-- a bucket keeps at most BucketSize samples -/
theorem bucket_sample_bounded (w : Int) (size : Nat) (h : List RPOp) (e : Nat) :
    (bucketSample w size h e).length ≤ size :=
  bucketSample_length w size h e

/-- non-vacuity: capacity 2 overflows, the window (3 buckets of width 10) rolls, a stale and a pre-start sample
    are ignored -/
example : (RP.new 3 10 2).run
      [.add 5 100, .add 6 100, .add 7 100, .add 1 95, .add 9 10, .add 4 (-1), .snap 100, .snap 125, .reset 125, .add 3 120, .snap 125]
    = [.ok, .ok, .ok, .ok, .ok, .ok, .ints [1, 6, 7], .ints [6, 7], .ok, .ok, .ints [3]] := by decide

end CM.Props.C15

/-
  Props/C03.lean — recovery: sleep window, bounded half-open probes, close on successes (closer level; the
  circuit-level composition is in Props/C03Circuit.lean).
-/
import CircuitModel.CloserOps
import CircuitProofs.Props.C16
import CircuitProofs.Lemmas.Closer
namespace CM.Props.C03
open CM CM.SpecC03

/-- the closer's admission gate IS a TimedCheck: for every op sequence on the closer, its gate state is the
    TimedCheck model run over the corresponding gate ops, so everything proved for C16 (sleep respected whatever
    callbacks fire, per-arming budget, exactness) holds for Allow. -/
theorem gate_is_timedcheck (sleep half req : Int) (ops : List ClOp) :
    (clexec (HCloser.init sleep half req) ops).tc = (({ sleep := sleep, allow := half } : TC).exec (ops.flatMap toTC)) := by
  exact clexec_tc (HCloser.init sleep half req) ops

/-- Allow's answer is the gate's Check answer -/
theorem allow_is_check (c : HCloser) (t : Int) :
    (clstep c (.allow t)).2 = some (c.tc.check t).2 ∧ (clstep c (.allow t)).1.tc = (c.tc.check t).1 := by
  rw [clstep_allow]
  exact ⟨rfl, rfl⟩

/-- SENTENCE 1 (closer level).  After Opened at `T` with SleepWindow `c.tc.sleep` in force, whatever callbacks fire,
    whatever events arrive, whatever settings change and however many admission attempts with start readings inside
    the window are made, Allow(now) is false for every now < T + SleepWindow. -/
def insideWindow (limit : Int) : ClOp → Bool
  | .opened _ => false
  | .closed _ => false
  | .allow t' => decide (t' < limit)
  | _ => true

theorem no_admission_within_sleep_window (c : HCloser) (T : Int) (ops : List ClOp) (now : Int)
    (hops : ∀ op ∈ ops, insideWindow (T + c.tc.sleep) op = true) (hnow : now < T + c.tc.sleep) :
    (clstep (clexec (c.transition T) ops) (.allow now)).2 = some false := by
  rw [clstep_allow, clexec_tc]
  show some ((((c.tc.resetOpen T).exec (ops.flatMap toTC)).check now).2) = some false
  rw [CM.Props.C16.sleep_respected c.tc T (ops.flatMap toTC) now ?_ hnow]
  intro op' hop'
  obtain ⟨op, hop, hmem⟩ := List.mem_flatMap.mp hop'
  have hin := hops op hop
  cases op with
  | ev k t => simp [toTC] at hmem
  | opened t => simp [insideWindow] at hin
  | closed t => simp [insideWindow] at hin
  | allow t =>
    have : op' = .check t := by simpa [toTC] using hmem
    subst this
    simpa [insideWindow, CM.Props.C16.insidePeriod] using hin
  | shouldClose t => simp [toTC] at hmem
  | fire k =>
    have : op' = .fire k := by simpa [toTC] using hmem
    subst this; rfl
  | cfg s h r =>
    have : op' = .setSleep s ∨ op' = .setAllow h := by simpa [toTC] using hmem
    rcases this with h1 | h1 <;> subst h1 <;> rfl

/-- SENTENCE 3 (closer level).  ShouldClose is true exactly when the successes completed since the last of
    {Opened, Closed, failure, timeout} number at least RequiredConcurrentSuccessful (live changes included);
    bad requests, interrupts, short-circuits and rejections neither count nor reset. -/
theorem shouldClose_iff (sleep half req : Int) (ops : List ClOp) (t : Int) :
    (clstep (clexec (HCloser.init sleep half req) ops) (.shouldClose t)).2 = some (shouldCloseSpec req ops.reverse) := by
  have h := clexec_succ_required sleep half req ops
  show some (decide (_ ≥ _)) = some (shouldCloseSpec req ops.reverse)
  rw [h.1, h.2]
  rfl

/-- SENTENCE 2, span form, for start readings that reach the gate in non-decreasing order.
    `admitted c ops` = the timestamps of the successful Allow calls, oldest first. -/
def admitted (c : HCloser) : List ClOp → List Int
  | [] => []
  | op :: ops =>
    let r := clstep c op
    match op, r.2 with
    | .allow t, some true => t :: admitted r.1 ops
    | _, _ => admitted r.1 ops

def allowTimes : List ClOp → List Int
  | [] => []
  | .allow t :: ops => t :: allowTimes ops
  | _ :: ops => allowTimes ops

def staticOps : ClOp → Bool        -- no transition and no reconfiguration during the open period
  | .opened _ => false
  | .closed _ => false
  | .cfg _ _ _ => false
  | _ => true

theorem span_bound_monotone (c : HCloser) (T : Int) (ops : List ClOp)
    (hsleep : 0 ≤ c.tc.sleep) (hstatic : ∀ op ∈ ops, staticOps op = true)
    (hmono : nonDecreasing (allowTimes ops) = true) :
    spanViolated c.tc.sleep (maxOne c.tc.allow) (admitted (c.transition T) ops) = false := by
  have _ := hsleep   -- not needed: on a sorted list the bound is vacuous for a negative window
  have hadm : ∀ (ops : List ClOp) (c : HCloser), admitted c ops = admittedL c ops := by
    intro ops
    induction ops with
    | nil => intro c; rfl
    | cons op ops ih =>
      intro c
      simp only [admitted, admittedL, ih]
      rfl
  have hall : ∀ ops : List ClOp, allowTimes ops = allowTimesL ops := by
    intro ops
    induction ops with
    | nil => rfl
    | cons op ops ih => cases op <;> simp [allowTimes, allowTimesL, ih]
  have hst : ∀ op ∈ ops, staticOpL op = true := by
    intro op hop
    have := hstatic op hop
    cases op <;> first | rfl | simp [staticOps] at this
  rw [hadm, hall] at *
  exact span_after_transition c T ops hst hmono

/-- the literal span bound is FALSE for budgets ≥ 2 when readings arrive out of order (finding F-C03-stale;
    reproduced on the real closer by the harness): budget 2, window 60, readings 100, 99, 159, 159 all pass. -/
theorem stale_reading_witness :
    let ops : List ClOp := [.fire 0, .allow 100, .allow 99, .fire 1, .allow 159, .allow 159]
    admitted ((HCloser.init 60 2 1).transition 0) ops = [100, 99, 159, 159] ∧
    spanViolated 60 2 (admitted ((HCloser.init 60 2 1).transition 0) ops) = true := by
  decide

/-- with one probe per window (the default) the span bound needs no ordering assumption: whatever the order of the
    readings, two admissions are never closer than… — covered by C16 `sleep_respected` per arming; here the
    per-arming statement for the closer: an admission that re-arms forbids every reading before its own + window. -/
theorem rearm_forbids_until_window (c c' : HCloser) (now : Int) (h : clstep c (.allow now) = (c', some true))
    (hbudget : c.tc.count + 1 ≥ c.tc.allow) :
    c'.tc.nextOpen = some (now + c.tc.sleep) ∧ c'.tc.fastFail = true := by
  rw [clstep_allow] at h
  have h1 : (c.tc.check now).1 = c'.tc := by rw [← (Prod.mk.inj h).1]
  have h2 : (c.tc.check now).2 = true := by simpa using (Prod.mk.inj h).2
  have hpair : c.tc.check now = (c'.tc, true) := by rw [← h1, ← h2]
  rcases CM.Props.C16.successful_check_counts_or_rearms c.tc c'.tc now hpair with hA | hB
  · omega
  · exact ⟨hB.2.2.2.1, hB.2.2.2.2⟩

end CM.Props.C03

/-
  Props/C11Mid.lean — C11, "each call observes, for every setting, either the old or the new value", for a
  reconfiguration that lands while the call is in flight (CircuitModel/CircuitMid.lean: the settings are replaced at
  the moment the protected function runs).  Generic in the open/close logic.
-/
import CircuitModel.CircuitMid
import CircuitProofs.Lemmas.CircuitMid
namespace CM.Props.C11
open CM

variable {σo σc : Type} (O : OpenerI σo) (C : CloserI σc)

/-- CONSERVATIVE EXTENSION: with no reconfiguration in flight the extended model IS the model every circuit-level
    theorem (C01, C05–C10, C12) speaks about -/
theorem executeMid_none (c : Circ σo σc) (ctx : CallerCtx) (run fb : Option Script) :
    executeMid O C c ctx run fb none = execute O C c ctx run fb := by
  exact cmid_executeMid_none O C c ctx run fb

/-- THE EXECUTION TIMEOUT IS OBSERVED ONCE: a change of the timeout that lands while a call is in flight is invisible
    to that call — what it returns, what the functions saw (the derived deadline included), every event with its kind,
    timestamp and duration, every clock reading: all exactly as under the old value; only the stored setting differs
    afterwards (and not even that if the function never ran) -/
theorem timeout_change_mid_call_invisible (c : Circ σo σc) (ctx : CallerCtx) (run fb : Option Script) (t' : Int) :
    let r := executeMid O C c ctx run fb (some { c.cfg with timeout := t' })
    let r0 := execute O C c ctx run fb
    r.2 = r0.2 ∧ (r.1 = r0.1 ∨ r.1 = { r0.1 with cfg := { r0.1.cfg with timeout := t' } }) := by
  exact cmid_timeout_invisible O C c ctx run fb t'

/-- ForceOpen switched on under a call: that call delivers no Closed notification (it cannot close a circuit the
    operator has just forced open), whatever the closer answers -/
theorem forceOpen_mid_call_never_closes (c : Circ σo σc) (ctx : CallerCtx) (run fb : Option Script) (m : LiveCfg)
    (hen : c.cfg.disabled = false) (hfo : m.forceOpen = true) :
    let r := executeMid O C c ctx run fb (some m)
    r.2.1.runSeen.isSome → ∀ t, Emit.closed t ∉ r.2.1.emits := by
  intro r hseen t
  exact cmid_forceOpen_never_closes O C c ctx run fb m hen hfo hseen t

/-- ForcedClosed switched on under a call: that call delivers no Opened notification, whatever the opener answers -/
theorem forcedClosed_mid_call_never_opens (c : Circ σo σc) (ctx : CallerCtx) (run fb : Option Script) (m : LiveCfg)
    (hen : c.cfg.disabled = false) (hfc : m.forcedClosed = true) :
    let r := executeMid O C c ctx run fb (some m)
    r.2.1.runSeen.isSome → ∀ t, Emit.opened t ∉ r.2.1.emits := by
  intro r hseen t
  exact cmid_forcedClosed_never_opens O C c ctx run fb m hen hfc hseen t

/-- the settings are replaced exactly when the function ran: afterwards the circuit carries the new settings iff the
    run function was invoked, the old ones otherwise -/
theorem mid_call_settings_take_effect (c : Circ σo σc) (ctx : CallerCtx) (run fb : Option Script) (m : LiveCfg)
    (hen : c.cfg.disabled = false) :
    let r := executeMid O C c ctx run fb (some m)
    r.1.cfg = (if r.2.1.runSeen.isSome then m else c.cfg) := by
  exact cmid_settings_take_effect O C c ctx run fb m hen

end CM.Props.C11

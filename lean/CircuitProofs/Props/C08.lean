/-
  Props/C08.lean — operator overrides and pass-through modes do exactly what they say.
-/
import CircuitProofs.Props.C08Tie
import CircuitProofs.Props.CircuitCommon
import CircuitProofs.Lemmas.CircuitB
namespace CM.Props.C08
open CM CM.SpecCircuit CM.Props

/-- MAIN: the model's outcome passes the C08 verdict for every logic, state and call: ForceOpen ⇒ IsOpen and no call
    admitted; ForcedClosed (without ForceOpen) ⇒ not IsOpen, every call admitted subject only to the concurrency
    limit (and a custom veto), never opened; Disabled ⇒ the function runs with the caller's context, its result is
    returned, no events, no fallback. -/
theorem c08_holds {σo σc : Type} (O : OpenerI σo) (C : CloserI σc) (c : Circ σo σc) (hq : Quiescent c) (op : ExecOp) :
    verdictC08 c.cfg (isOpenEff c) (actualPrevent O c) op (execObs O C c op) = none := by
  have htr := (tr_execute O C c op.ctx op.run op.fb).from_empty
  obtain ⟨hcfg, -, -, hfcl⟩ := htr
  cases hd : c.cfg.disabled with
  | true =>
    apply verdictC08_disabled _ hd
    intro sc hsc
    show (mkObs (execute O C c op.ctx op.run op.fb).1 (execute O C c op.ctx op.run op.fb).2.1
        (execute O C c op.ctx op.run op.fb).2.2 op).runCalls = 1 ∧
      (∃ s, (mkObs (execute O C c op.ctx op.run op.fb).1 (execute O C c op.ctx op.run op.fb).2.1
        (execute O C c op.ctx op.run op.fb).2.2 op).seen = some s ∧ s.sameAsCaller = true) ∧
      (mkObs (execute O C c op.ctx op.run op.fb).1 (execute O C c op.ctx op.run op.fb).2.1
        (execute O C c op.ctx op.run op.fb).2.2 op).fbCalls = 0 ∧
      (mkObs (execute O C c op.ctx op.run op.fb).1 (execute O C c op.ctx op.run op.fb).2.1
        (execute O C c op.ctx op.run op.fb).2.2 op).emits = [] ∧
      (mkObs (execute O C c op.ctx op.run op.fb).1 (execute O C c op.ctx op.run op.fb).2.1
        (execute O C c op.ctx op.run op.fb).2.2 op).res = _
    rw [hsc, execute_disabled_some O C c hd]
    refine ⟨rfl, ⟨_, rfl, rfl⟩, rfl, rfl, ?_⟩
    show (match sc.act with
      | .panic v => Res.panic v
      | _ => Res.ret (actValue sc (ctxErrAfter op.ctx sc))) = _
    unfold runValue
    rw [hsc]
    rfl
  | false =>
    have hrun : op.run.isSome = true → ∃ sc, op.run = some sc := by
      intro h
      cases hr : op.run with
      | none => rw [hr] at h; cases h
      | some sc => exact ⟨sc, rfl⟩
    cases hfo : c.cfg.forceOpen with
    | true =>
      apply verdictC08_forceOpen _ hd hfo
      · simp [isOpenEff, hfo]
      · show isOpenEff (execute O C c op.ctx op.run op.fb).1 = true
        simp [isOpenEff, hcfg, hfo]
      · intro hrs
        obtain ⟨sc, hsc⟩ := hrun hrs
        show (if (execute O C c op.ctx op.run op.fb).2.1.runSeen.isSome = true then 1 else 0) = 0
        rw [hsc, execute_shed_runSeen O C c hd op.ctx sc op.fb (actualAdmission_forceOpen C c hfo)]
        rfl
    | false =>
      cases hfc : c.cfg.forcedClosed with
      | false =>
        unfold verdictC08
        simp [hd, hfo, hfc]
      | true =>
        have hclosed : isOpenEff c = false := by simp [isOpenEff, hfo, hfc]
        apply verdictC08_forcedClosed _ hd hfo hfc
        · exact hclosed
        · show isOpenEff (execute O C c op.ctx op.run op.fb).1 = false
          simp [isOpenEff, hcfg, hfo, hfc]
        · exact notifs_no_true _ (hfcl hfc).1
        · intro hrs hmc hpv
          obtain ⟨sc, hsc⟩ := hrun hrs
          have hth : ¬ (c.cfg.maxConc ≥ 0 ∧ c.conc + 1 > c.cfg.maxConc) := by
            rw [hq.1]; omega
          show (if (execute O C c op.ctx op.run op.fb).2.1.runSeen.isSome = true then 1 else 0) ≠ 0
          rw [hsc, execute_invoked_runSeen O C c hd op.ctx sc op.fb (actualAdmission_of_closed C c hclosed) hpv hth]
          decide

/-- ForceOpen wins when both are set; clearing both resumes the underlying state; changing overrides never touches
    the underlying state -/
theorem forceOpen_wins {σo σc : Type} (c : Circ σo σc) (h : c.cfg.forceOpen = true) : isOpenEff c = true := by
  simp [isOpenEff, h]
theorem forcedClosed_reads_closed {σo σc : Type} (c : Circ σo σc) (h1 : c.cfg.forceOpen = false) (h2 : c.cfg.forcedClosed = true) :
    isOpenEff c = false := by
  simp [isOpenEff, h1, h2]
theorem clearing_resumes_underlying {σo σc : Type} (c : Circ σo σc) (cfg : LiveCfg)
    (h1 : cfg.forceOpen = false) (h2 : cfg.forcedClosed = false) :
    isOpenEff (setConfig c cfg) = c.isOpen ∧ (setConfig c cfg).isOpen = c.isOpen := by
  simp [isOpenEff, setConfig, h1, h2]

/-- while ForcedClosed is set nothing opens the circuit: no operation other than a reconfiguration delivers an
    Opened notification or sets the underlying flag -/
theorem forcedClosed_blocks_opening {σo σc : Type} (O : OpenerI σo) (C : CloserI σc) (c : Circ σo σc)
    (h : c.cfg.forcedClosed = true) (op : CircOp σo σc) (hop : ∀ cfg, op ≠ .setcfg cfg) :
    let r := stepOp O C c op
    (∀ t, Emit.opened t ∉ r.2) ∧ (r.1.isOpen = true → c.isOpen = true) := by
  intro r
  cases op with
  | exec eop =>
    have h4 := (tr_execute O C c eop.ctx eop.run eop.fb).from_empty.2.2.2 h
    exact h4
  | openC =>
    have h4 := (tr_manualOpen O C c).from_empty.2.2.2 h
    exact h4
  | closeC =>
    have h4 := (tr_manualClose O C c).from_empty.2.2.2 h
    exact h4
  | setcfg cfg => exact absurd rfl (hop cfg)
  | tick d => exact ⟨fun t ht => (by cases ht), fun h => h⟩
  | env f g => exact ⟨fun t ht => (by cases ht), fun h => h⟩

/-- an override is in force for every call that starts after SetConfigThreadSafe returned: the very next call after
    `setcfg` with ForceOpen is rejected without running -/
theorem override_effective_immediately {σo σc : Type} (O : OpenerI σo) (C : CloserI σc) (c : Circ σo σc) (cfg : LiveCfg)
    (hfo : cfg.forceOpen = true) (hdis : cfg.disabled = false) (op : ExecOp) :
    (execute O C (setConfig c cfg) op.ctx op.run op.fb).2.1.runSeen = none := by
  cases hr : op.run with
  | none =>
    rw [execute_runSeen O C _ hdis]
    rfl
  | some sc =>
    exact execute_shed_runSeen O C _ hdis op.ctx sc op.fb (actualAdmission_forceOpen C _ hfo)

example : (execute openerI closerI ({ cfg := { disabled := true }, isOpen := true, opener := .never, closer := .never } : Circ OState CState) {}
    (some { act := .ret (some (.plain 3 false)) }) (some { act := .ret none })).2.2 = .ret (some (.plain 3 false)) := by decide

end CM.Props.C08

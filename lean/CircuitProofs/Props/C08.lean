/-
  Props/C08.lean — operator overrides and pass-through modes do exactly what they say.
-/
import CircuitProofs.Props.CircuitCommon
import CircuitProofs.Lemmas.Circuit
namespace CM.Props.C08
open CM CM.SpecCircuit CM.Props

/-- MAIN: the model's outcome passes the C08 verdict for every logic, state and call: ForceOpen ⇒ IsOpen and no call
    admitted; ForcedClosed (without ForceOpen) ⇒ not IsOpen, every call admitted subject only to the concurrency
    limit (and a custom veto), never opened; Disabled ⇒ the function runs with the caller's context, its result is
    returned, no events, no fallback. -/
theorem c08_holds {σo σc : Type} (O : OpenerI σo) (C : CloserI σc) (c : Circ σo σc) (hq : Quiescent c) (op : ExecOp) :
    verdictC08 c.cfg (isOpenEff c) (actualPrevent O c) op (execObs O C c op) = none := by
  sorry

/-- ForceOpen wins when both are set; clearing both resumes the underlying state; changing overrides never touches
    the underlying state -/
theorem forceOpen_wins {σo σc : Type} (c : Circ σo σc) (h : c.cfg.forceOpen = true) : isOpenEff c = true := by
  sorry
theorem forcedClosed_reads_closed {σo σc : Type} (c : Circ σo σc) (h1 : c.cfg.forceOpen = false) (h2 : c.cfg.forcedClosed = true) :
    isOpenEff c = false := by
  sorry
theorem clearing_resumes_underlying {σo σc : Type} (c : Circ σo σc) (cfg : LiveCfg)
    (h1 : cfg.forceOpen = false) (h2 : cfg.forcedClosed = false) :
    isOpenEff (setConfig c cfg) = c.isOpen ∧ (setConfig c cfg).isOpen = c.isOpen := by
  sorry

/-- while ForcedClosed is set nothing opens the circuit: no operation other than a reconfiguration delivers an
    Opened notification or sets the underlying flag -/
theorem forcedClosed_blocks_opening {σo σc : Type} (O : OpenerI σo) (C : CloserI σc) (c : Circ σo σc)
    (h : c.cfg.forcedClosed = true) (op : CircOp σo σc) (hop : ∀ cfg, op ≠ .setcfg cfg) :
    let r := stepOp O C c op
    (∀ t, Emit.opened t ∉ r.2) ∧ (r.1.isOpen = true → c.isOpen = true) := by
  sorry

/-- an override is in force for every call that starts after SetConfigThreadSafe returned: the very next call after
    `setcfg` with ForceOpen is rejected without running -/
theorem override_effective_immediately {σo σc : Type} (O : OpenerI σo) (C : CloserI σc) (c : Circ σo σc) (cfg : LiveCfg)
    (hfo : cfg.forceOpen = true) (hdis : cfg.disabled = false) (op : ExecOp) :
    (execute O C (setConfig c cfg) op.ctx op.run op.fb).2.1.runSeen = none := by
  sorry

example : (execute openerI closerI ({ cfg := { disabled := true }, isOpen := true, opener := .never, closer := .never } : Circ OState CState) {}
    (some { act := .ret (some (.plain 3 false)) }) (some { act := .ret none })).2.2 = .ret (some (.plain 3 false)) := by decide

end CM.Props.C08

/-
  Props/ExecFbView.lean — the fallback phase of Conc/Exec IS the bulkhead thread of Conc/Gauge (the model `Circuit.fallback`'s
  body is tied to under arbitrary interference by K6, GoTie/I_Fb): every step a thread takes between `concurrentFallbacks.Add(1)`
  and its deferred `Add(-1)` is the step `Gauge.step` takes on (gauge, limit) from the corresponding local state, or a
  delivery of an event that leaves the bulkhead alone.  (Conc/Gauge also carries a ghost `region`; its value is irrelevant
  to what the step does to gauge, limit and local state, so it is universally quantified here.)
-/
import CircuitModel.Conc.Exec
import CircuitModel.Conc.Gauge
namespace CM.Props.ExecFbView
open CM.Conc CM.Conc.Exec

/-- the bulkhead thread's local state for a program counter of the fallback phase -/
def toFb : Exec.Pc → Option Gauge.Local
  | .fbAdd => some .idle
  | .fbLoadLimit obs => some (.incd obs)
  | .fbDeliverReject => some .rejecting
  | .fbDec .limit => some .rejecting
  | .fbInvoke => some .running
  | .fbDeliver _ => some .leaving
  | .fbDec .fbOk | .fbDec .fbErr | .fbDec .fbPanic => some .leaving
  | .done .limit => some (.finished false)
  | .done .fbOk | .done .fbErr | .done .fbPanic => some (.finished true)
  | _ => none

theorem fb_phase_is_gauge_step (i : Nat) (s s' : Exec.Shared) (l l' : Run.Local) (fb fb' : FbScript) (pc pc' : Exec.Pc)
    (g : Gauge.Local) (hg : toFb pc = some g) (region : List Gauge.Entry)
    (h : Exec.step i s (.call l fb pc) = some (s', .call l' fb' pc')) :
    s'.fbLimit = s.fbLimit ∧ s'.r = s.r ∧ l' = l ∧ fb' = fb ∧
    ((toFb pc' = some g ∧ s'.fbGauge = s.fbGauge) ∨      -- an event delivery: the bulkhead does not move
     (∃ sg g', Gauge.step i { gauge := s.fbGauge, limit := s.fbLimit, region := region } g = some (sg, g') ∧
        toFb pc' = some g' ∧ sg.gauge = s'.fbGauge ∧ sg.limit = s'.fbLimit)) := by
  cases pc <;> simp [toFb] at hg
  case fbAdd =>
    subst hg; simp [Exec.step] at h; obtain ⟨rfl, rfl, rfl, rfl⟩ := h
    simp [toFb, Gauge.step]; exact ⟨_, _, ⟨rfl, rfl⟩, rfl, rfl, rfl⟩
  case fbLoadLimit obs =>
    subst hg; simp only [Exec.step] at h
    by_cases hc : s.fbLimit ≥ 0 ∧ obs > s.fbLimit
    · simp [hc] at h; obtain ⟨rfl, rfl, rfl, rfl⟩ := h
      refine ⟨rfl, rfl, rfl, rfl, Or.inr ⟨{ gauge := s.fbGauge, limit := s.fbLimit, region := region }, .rejecting, ?_, rfl, rfl, rfl⟩⟩
      simp [Gauge.step, hc]
    · simp [hc] at h; obtain ⟨rfl, rfl, rfl, rfl⟩ := h
      refine ⟨rfl, rfl, rfl, rfl, Or.inr ⟨{ gauge := s.fbGauge, limit := s.fbLimit, region := region.map fun e => if e.tid = i then { e with running := true } else e }, .running, ?_, rfl, rfl, rfl⟩⟩
      simp [Gauge.step, hc]
  case fbDeliverReject => subst hg; simp [Exec.step] at h; obtain ⟨rfl, rfl, rfl, rfl⟩ := h; simp [toFb]
  case fbInvoke =>
    subst hg; simp only [Exec.step] at h
    by_cases hp : fb.panics = true
    · simp [hp] at h; obtain ⟨rfl, rfl, rfl, rfl⟩ := h
      exact ⟨rfl, rfl, rfl, rfl, Or.inr ⟨{ gauge := s.fbGauge, limit := s.fbLimit, region := region }, .leaving, by simp [Gauge.step], rfl, rfl, rfl⟩⟩
    · simp [hp] at h; obtain ⟨rfl, rfl, rfl, rfl⟩ := h
      exact ⟨rfl, rfl, rfl, rfl, Or.inr ⟨{ gauge := s.fbGauge, limit := s.fbLimit, region := region }, .leaving, by simp [Gauge.step], rfl, rfl, rfl⟩⟩
  case fbDeliver ok =>
    subst hg; simp [Exec.step] at h; obtain ⟨rfl, rfl, rfl, rfl⟩ := h
    cases ok <;> simp [toFb]
  case fbDec o =>
    simp [Exec.step] at h; obtain ⟨rfl, rfl, rfl, rfl⟩ := h
    cases o <;> simp [toFb] at hg <;> subst hg <;> simp [toFb, Gauge.step] <;> exact ⟨_, _, ⟨rfl, rfl⟩, rfl, rfl, rfl⟩
  case done o => simp [Exec.step] at h

/-- … and inside `c.run` a thread of the whole-Execute model takes exactly `Run.step` — the step function `run`'s body is tied to
    under arbitrary interference (GoTie/I_Run), on the `r` part of the shared state, leaving everything else alone -/
theorem run_phase_is_run_step (i : Nat) (s : Exec.Shared) (l : Run.Local) (fb : FbScript) (hnd : ∀ r, l.pc ≠ .done r) :
    Exec.step i s (.call l fb .running) = (Run.step i s.r l).map fun p => ({ s with r := p.1 }, .call p.2 fb .running) := by
  cases hl : l.pc <;> simp_all [Exec.step]

end CM.Props.ExecFbView

/-
  Props/RunDynAll.lean — whole calls racing live reconfiguration (Conc/RunDyn: call / OpenCircuit / CloseCircuit threads
  plus operator threads storing new override flags and a new run limit at arbitrary moments), EVERY schedule:
  each call still ends with exactly the run events its outcome calls for (C05, C10, C01, C04), the gauge is never
  negative and reads zero once everybody has returned (C04, C10), the Opened / Closed notifications strictly alternate
  and the state flag is the last notification whenever the transition mutex is free (C09), and nothing deadlocks —
  whatever the operators do.  (What does NOT survive a live change of the limit is "in flight ≤ limit": it holds for the
  largest limit ever in force; that is C11's old-or-new matter, not stated here.)
-/
import CircuitModel.Conc.RunDyn
import CircuitProofs.Props.RunAll
import CircuitProofs.Lemmas.TransDyn
import CircuitProofs.Lemmas.RunDyn
namespace CM.Props.RunDynAll
open CM.Conc CM.Conc.RunDyn

theorem exactly_the_right_events_dyn (fo fc io : Bool) (m : Int) (jobs : List RunDyn.Job) (sched : List Nat) (i : Nat)
    (sc : Run.Script) (r : Run.Res) :
    let c := run RunDyn.sys (RunDyn.init fo fc io m jobs) sched
    jobs[i]? = some (.run (.call sc)) → RunDyn.resultOf c i = some r →
    CM.Props.RunAll.expectedEvents sc r (RunDyn.eventsOf c i) ∧
    RunDyn.invokedCount c i = (match r with | .ran _ | .panicked => 1 | _ => 0) := by
  intro c hj hr
  obtain ⟨h1, h2⟩ := CM.Lemmas.RunDynL.rd_exact jobs c (CM.Lemmas.RunDynL.rd_EInv_run fo fc io m jobs sched) i sc r hj hr
  refine ⟨?_, h2⟩
  cases r <;> exact h1

theorem at_most_one_event_ever_dyn (fo fc io : Bool) (m : Int) (jobs : List RunDyn.Job) (sched : List Nat) (i : Nat) :
    let c := run RunDyn.sys (RunDyn.init fo fc io m jobs) sched
    (RunDyn.eventsOf c i).length ≤ 1 ∧ RunDyn.invokedCount c i ≤ 1 := by
  intro c
  exact CM.Lemmas.RunDynL.rd_at_most_one jobs c (CM.Lemmas.RunDynL.rd_EInv_run fo fc io m jobs sched) i

/-- operators and OpenCircuit / CloseCircuit threads tell the run collectors nothing -/
theorem others_silent_dyn (fo fc io : Bool) (m : Int) (jobs : List RunDyn.Job) (sched : List Nat) (i : Nat)
    (hj : (∃ a b k, jobs[i]? = some (.reconfigure a b k)) ∨ jobs[i]? = some (.run .open) ∨ jobs[i]? = some (.run .close)) :
    let c := run RunDyn.sys (RunDyn.init fo fc io m jobs) sched
    RunDyn.eventsOf c i = [] ∧ RunDyn.invokedCount c i = 0 := by
  intro c
  exact CM.Lemmas.RunDynL.rd_silent jobs c (CM.Lemmas.RunDynL.rd_EInv_run fo fc io m jobs sched) i hj

theorem gauge_never_negative_dyn (fo fc io : Bool) (m : Int) (jobs : List RunDyn.Job) (sched : List Nat) :
    0 ≤ (run RunDyn.sys (RunDyn.init fo fc io m jobs) sched).shared.gauge := by
  rw [CM.Lemmas.RunDynL.rd_GInv_run fo fc io m jobs sched]
  exact CM.Lemmas.RunDynL.rd_cnt_nonneg _

theorem quiescent_gauge_zero_dyn (fo fc io : Bool) (m : Int) (jobs : List RunDyn.Job) (sched : List Nat)
    (hq : RunDyn.allDone (run RunDyn.sys (RunDyn.init fo fc io m jobs) sched) = true) :
    (run RunDyn.sys (RunDyn.init fo fc io m jobs) sched).shared.gauge = 0 := by
  rw [CM.Lemmas.RunDynL.rd_GInv_run fo fc io m jobs sched]
  exact CM.Lemmas.RunDynL.rd_cnt_allDone _ hq

/-- C09 for whole calls under override changes -/
theorem notifications_alternate_dyn (fo fc io : Bool) (m : Int) (jobs : List RunDyn.Job) (sched : List Nat) :
    let c := run RunDyn.sys (RunDyn.init fo fc io m jobs) sched
    Trans.alternates io c.shared.t.log = true ∧
    (c.shared.t.holder = none → c.shared.t.isOpen = (c.shared.t.log.getLast?).getD io) := by
  intro c
  have I := CM.Lemmas.RunDynL.rd_TInv_run fo fc io m jobs sched
  exact ⟨I.alt, I.free⟩

theorem never_deadlocks_dyn (fo fc io : Bool) (m : Int) (jobs : List RunDyn.Job) (sched : List Nat) :
    let c := run RunDyn.sys (RunDyn.init fo fc io m jobs) sched
    RunDyn.allDone c = false → ∃ i l, c.locals[i]? = some l ∧ (RunDyn.step i c.shared l).isSome := by
  intro c hnd
  exact CM.Lemmas.RunDynL.rd_progress io c (CM.Lemmas.RunDynL.rd_TInv_run fo fc io m jobs sched) hnd

/-- callers inside the protected function -/
def inFlight (c : Config Run.Shared RunDyn.Local) : Nat :=
  (c.locals.filter fun l => match l with | .call l => l.pc == .invoke | _ => false).length

/-- the largest limit any operator of the job list installs, or the initial one -/
def largestLimit (m : Int) (jobs : List RunDyn.Job) : Int :=
  jobs.foldl (fun acc j => match j with | .reconfigure _ _ k => max acc k | _ => acc) m

/-- C04 / C11 under live changes of the limit: as long as no limit ever in force is negative (= unlimited), the number of
    callers inside the protected function never exceeds the LARGEST limit that was ever in force — each admission was
    decided against one of them (the old or the new one), never against a mixture -/
theorem inflight_le_largest_limit_dyn (fo fc io : Bool) (m : Int) (jobs : List RunDyn.Job) (sched : List Nat)
    (hm : 0 ≤ m) (hj : ∀ j ∈ jobs, match j with | .reconfigure _ _ k => 0 ≤ k | _ => True) :
    (inFlight (run RunDyn.sys (RunDyn.init fo fc io m jobs) sched) : Int) ≤ largestLimit m jobs := by
  exact CM.Lemmas.RunDynL.rd_inflight_le fo fc io m jobs sched hm hj

/-! non-vacuity: a failing call wants to open the circuit while an operator switches ForcedClosed on and lowers the limit
    to 0 — early enough (sched1) the override suppresses the transition, later (sched2) the circuit opens; either way the
    third call is turned away by the new limit -/
def jobs1 : List RunDyn.Job := [.run (.call { failed := true, shouldOpen := true }), .reconfigure false true 0, .run (.call {})]
def sched1 : List Nat := List.replicate 17 0 ++ [1,1,1] ++ List.replicate 12 0 ++ List.replicate 10 2
def sched2 : List Nat := List.replicate 23 0 ++ [1,1,1] ++ List.replicate 8 0 ++ List.replicate 10 2
example : RunDyn.allDone (run RunDyn.sys (RunDyn.init false false false 5 jobs1) sched1) = true := by decide +kernel
example : (run RunDyn.sys (RunDyn.init false false false 5 jobs1) sched1).shared.t.log = [] := by decide +kernel
example : RunDyn.allDone (run RunDyn.sys (RunDyn.init false false false 5 jobs1) sched2) = true := by decide +kernel
example : (run RunDyn.sys (RunDyn.init false false false 5 jobs1) sched2).shared.t.log = [true] := by decide +kernel
example : RunDyn.resultOf (run RunDyn.sys (RunDyn.init false false false 5 jobs1) sched2) 2 = some .rejected := by decide +kernel
example : RunDyn.resultOf (run RunDyn.sys (RunDyn.init false false false 5 jobs1) sched2) 0 = some (.ran .failure) := by decide +kernel

end CM.Props.RunDynAll

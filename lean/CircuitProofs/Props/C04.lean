import CircuitModel.Basic
namespace CM.Props.C04
theorem placeholder : True := trivial
end CM.Props.C04

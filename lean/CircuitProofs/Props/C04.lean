/-
  Props/C04.lean — bulkhead: concurrency caps hold at every instant and never leak.
  Every theorem quantifies over ALL schedules and ANY number of callers.
-/
import CircuitProofs.Props.C04Tie
import CircuitModel.Conc.Gauge
import CircuitProofs.Lemmas.Conc
namespace CM.Props.C04
open CM.Conc CM.Conc.Gauge

/-- generic: an invariant preserved by every enabled step of every thread holds after every schedule -/
theorem inv_all_schedules {σ loc : Type} (S : Sys σ loc) (Inv : Config σ loc → Prop)
    (hstep : ∀ (c : Config σ loc) (i : Nat) (l : loc) (s' : σ) (l' : loc), Inv c → c.locals[i]? = some l →
      S.step i c.shared l = some (s', l') → Inv { shared := s', locals := c.locals.set i l' })
    (sched : List Nat) (c : Config σ loc) (h : Inv c) : Inv (run S c sched) := by
  induction sched generalizing c with
  | nil => exact h
  | cons i rest ih =>
    unfold run
    split
    · exact ih c h
    · rename_i l hl
      split
      · exact ih c h
      · rename_i s' l' hs
        exact ih _ (hstep c i l s' l' h hl hs)

/-- AT NO INSTANT are more than `m` protected functions in flight: for every limit m ≥ 0, every number of callers
    n and every schedule -/
theorem inflight_le_limit (m : Int) (hm : 0 ≤ m) (n : Nat) (sched : List Nat) :
    (inFlight (run sys (init m n) sched) : Int) ≤ m := by
  have h := inv_all_schedules sys (fun c => GInv m c.shared c.locals)
    (fun c i l s' l' hc hi hs => hc.step hi hs) sched (init m n) (GInv.init m n)
  exact h.inFlight_le hm

/-- a negative limit means unlimited: nobody is ever refused -/
theorem negative_unlimited (m : Int) (hm : m < 0) (n : Nat) (sched : List Nat) :
    ∀ l ∈ (run sys (init m n) sched).locals, l ≠ .rejecting ∧ l ≠ .finished false := by
  have h := inv_all_schedules sys (fun c => NoReject m c.shared c.locals)
    (fun c i l s' l' hc hi hs => hc.step hm hi hs) sched (init m n) (NoReject.init m n)
  exact h.2

/-- the gauge counts exactly the callers between their increment and their decrement, and is never negative -/
theorem gauge_counts_region (m : Int) (n : Nat) (sched : List Nat) :
    let c := run sys (init m n) sched
    c.shared.gauge = c.shared.region.length ∧
    c.shared.region.length = (c.locals.filter fun l => match l with
      | .incd _ | .running | .rejecting | .leaving => true | _ => false).length := by
  have h := inv_all_schedules sys (fun c => GInv m c.shared c.locals)
    (fun c i l s' l' hc hi hs => hc.step hi hs) sched (init m n) (GInv.init m n)
  refine ⟨h.gauge, ?_⟩
  rw [h.len, List.countP_eq_length_filter]
  congr 2

/-- NO LEAK: once all calls have returned — by normal return, by panic or by rejection — the gauge reads zero -/
theorem quiescent_gauge_zero (m : Int) (n : Nat) (sched : List Nat)
    (hq : allFinished (run sys (init m n) sched) = true) : (run sys (init m n) sched).shared.gauge = 0 := by
  have h := inv_all_schedules sys (fun c => GInv m c.shared c.locals)
    (fun c i l s' l' hc hi hs => hc.step hi hs) sched (init m n) (GInv.init m n)
  have h0 := allFinished_countP hq
  have h1 := h.len
  have h2 := h.gauge
  omega

/-- a refused call never runs the function: `finished false` is reached only through `rejecting`, and a thread that
    was ever `running` finishes with `true` (stated on the step function) -/
theorem rejected_never_runs (tid : Nat) (s s' : Shared) (l : Local) (h : step tid s l = some (s', .finished false)) :
    l = .rejecting := by
  cases l with
  | rejecting => rfl
  | incd obs =>
    simp only [step] at h
    split at h <;> simp at h
  | _ => simp [step] at h

/-- with limit 0 everybody is refused; with limit ≥ number of callers nobody is -/
theorem limit_zero_rejects_all (n : Nat) (sched : List Nat) : inFlight (run sys (init 0 n) sched) = 0 := by
  have := inflight_le_limit 0 (Int.le_refl 0) n sched
  omega

/-- THE GAUGE IS A HEAD COUNT, at every instant of every schedule and for every limit (also negative = unlimited):
    0 ≤ gauge ≤ number of callers — it can neither go negative (a double decrement) nor exceed the callers that
    exist (a double increment) -/
theorem gauge_between_zero_and_callers (m : Int) (n : Nat) (sched : List Nat) :
    let c := run sys (init m n) sched
    0 ≤ c.shared.gauge ∧ c.shared.gauge ≤ (n : Int) := by
  have h := inv_all_schedules sys (fun c => GInv m c.shared c.locals ∧ c.locals.length = n)
    (fun c i l s' l' hc hi hs => ⟨hc.1.step hi hs, by simp only [List.length_set]; exact hc.2⟩) sched (init m n)
    ⟨GInv.init m n, by simp [init]⟩
  have h1 := h.1.gauge
  have h2 := h.1.len
  have h3 : (run sys (init m n) sched).locals.countP inRegion ≤ (run sys (init m n) sched).locals.length := List.countP_le_length
  have h4 := h.2
  show 0 ≤ (run sys (init m n) sched).shared.gauge ∧ (run sys (init m n) sched).shared.gauge ≤ (n : Int)
  omega
/-- ROOM FOR EVERYBODY: when the limit is at least the number of callers, NOBODY is ever refused — under every
    schedule (the counterpart of `limit_zero_rejects_all`; a throttle that refuses below its limit, e.g. one that
    compares with `≥`, or reads the gauge twice, breaks this) -/
theorem large_limit_never_rejects (m : Int) (n : Nat) (hmn : (n : Int) ≤ m) (sched : List Nat) :
    ∀ l ∈ (run sys (init m n) sched).locals, l ≠ .rejecting ∧ l ≠ .finished false := by
  have h := inv_all_schedules sys (fun c => Roomy m n c.shared c.locals)
    (fun c i l s' l' hc hi hs => hc.step hmn hi hs) sched (init m n) (Roomy.init m n)
  exact h.2.2.1

/-- hence at quiescence every one of the n callers has run the protected function -/
theorem large_limit_all_run (m : Int) (n : Nat) (hmn : (n : Int) ≤ m) (sched : List Nat)
    (hq : allFinished (run sys (init m n) sched) = true) :
    ∀ l ∈ (run sys (init m n) sched).locals, l = .finished true := by
  intro l hl
  have h1 := large_limit_never_rejects m n hmn sched l hl
  have h2 := (List.all_eq_true.mp hq) l hl
  cases l with
  | finished b => cases b with
    | true => rfl
    | false => exact (h1.2 rfl).elim
  | _ => simp at h2

/-- non-vacuity: limit 2, two callers interleaved step by step: both run -/
example : (run sys (init 2 2) [0, 1, 0, 1, 0, 1, 0, 1]).locals = [.finished true, .finished true] := by decide
/-- non-vacuity: limit 1, three callers, a schedule in which the second and third are refused while the first is inside -/
example : (run sys (init 1 3) [0, 0, 1, 1, 2, 2, 1, 2, 0, 0]).locals = [.finished true, .finished false, .finished false] := by decide

end CM.Props.C04

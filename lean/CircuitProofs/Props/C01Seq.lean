/-
  Props/C01.lean — an open circuit sheds load: the protected function is not called.
-/
import CircuitProofs.Props.CircuitCommon
import CircuitProofs.Lemmas.CircuitB
namespace CM.Props.C01
open CM CM.SpecCircuit CM.Props

/-- MAIN (every open/close logic, every state).  If the call is not admitted (circuit effectively open and the closer
    refuses, or ForceOpen) or the opener vetoes it, the run function is not invoked; the caller gets the open error,
    or the fallback's result with the open error handed to the fallback; a rejection caused by the open state records
    exactly one short-circuit event and no other run event, a veto records none. -/
theorem c01_holds {σo σc : Type} (O : OpenerI σo) (C : CloserI σc) (c : Circ σo σc) (hq : Quiescent c) (op : ExecOp) :
    verdictC01 c.cfg (some (actualAdmission C c)) (actualPrevent O c) op (execObs O C c op) = none := by
  by_cases hskip : c.cfg.disabled = true ∨ op.run.isNone = true
  · unfold verdictC01
    rw [if_pos hskip]
  · have hd : c.cfg.disabled = false := by
      cases h : c.cfg.disabled with
      | false => rfl
      | true => exact absurd (Or.inl h) hskip
    have hrun : ∃ sc, op.run = some sc := by
      cases h : op.run with
      | none => exact absurd (Or.inr (by rw [h]; rfl)) hskip
      | some sc => exact ⟨sc, rfl⟩
    obtain ⟨sc, hsc⟩ := hrun
    show verdictC01 c.cfg (some (actualAdmission C c)) (actualPrevent O c) op
      (mkObs (execute O C c op.ctx op.run op.fb).1 (execute O C c op.ctx op.run op.fb).2.1
        (execute O C c op.ctx op.run op.fb).2.2 op) = none
    cases hadm : actualAdmission C c with
    | false =>
      have hr : runStep O C (c, {}) op.ctx op.run = (shedState O C c, .ret (some .circuitOpen)) := by
        rw [hsc]; exact runStep_shed O C c op.ctx sc hadm
      rw [execute_rejected O C c hd op.ctx op.run op.fb _ hr]
      have hobs := shedState_obs O C c
      refine c01_core c (shedState O C c) ?_ ?_ ?_ ?_ false _ op ?_
      · rw [hobs]
      · rw [hobs]
      · rw [(fr_shedState O C c).concFb]; exact hq.2
      · exact (tr_shedState O C c).cfg
      · rw [hobs]; rfl
    | true =>
      cases hpv : actualPrevent O c with
      | false =>
        unfold verdictC01
        rw [if_neg hskip]
        simp
      | true =>
        have hr : runStep O C (c, {}) op.ctx op.run = (vetoState O C c, .ret (some .circuitOpen)) := by
          rw [hsc]; exact runStep_veto O C c op.ctx sc hadm hpv
        rw [execute_rejected O C c hd op.ctx op.run op.fb _ hr]
        have hobs := vetoState_obs O C c
        refine c01_core c (vetoState O C c) ?_ ?_ ?_ ?_ true _ op ?_
        · rw [hobs]
        · rw [hobs]
        · rw [(fr_vetoState O C c).concFb]; exact hq.2
        · exact (tr_vetoState O C c).cfg
        · rw [hobs]; rfl

/-- explicitly, for the open-state rejection -/
theorem open_sheds {σo σc : Type} (O : OpenerI σo) (C : CloserI σc) (c : Circ σo σc) (op : ExecOp) (sc : Script)
    (hen : c.cfg.disabled = false) (hrun : op.run = some sc) (hadm : actualAdmission C c = false) :
    let r := execute O C c op.ctx op.run op.fb
    r.2.1.runSeen = none ∧ runEvents r.2.1.emits = [(.shortCircuit, c.clock, 0)] ∧
      (r.2.2 = .ret (some .circuitOpen) ∨ r.2.1.fbArg = some .circuitOpen ∨ r.2.2 = .ret (some .concLimit)) := by
  intro r
  have hr : runStep O C (c, {}) op.ctx op.run = (shedState O C c, .ret (some .circuitOpen)) := by
    rw [hrun]; exact runStep_shed O C c op.ctx sc hadm
  have he : r = _ := execute_rejected O C c hen op.ctx op.run op.fb _ hr
  have hfr := fallbackStep_frame (shedState O C c) op.ctx op.run .circuitOpen op.fb
  have hobs := shedState_obs O C c
  rw [he]
  refine ⟨?_, ?_, ?_⟩
  · show (fallbackStep (shedState O C c) op.ctx op.run .circuitOpen op.fb).1.2.runSeen = none
    rw [hfr.1, hobs]
  · show runEvents (fallbackStep (shedState O C c) op.ctx op.run .circuitOpen op.fb).1.2.emits = _
    rw [hfr.2, hobs]; rfl
  · show (fallbackStep (shedState O C c) op.ctx op.run .circuitOpen op.fb).2 = _ ∨
      (fallbackStep (shedState O C c) op.ctx op.run .circuitOpen op.fb).1.2.fbArg = _ ∨
      (fallbackStep (shedState O C c) op.ctx op.run .circuitOpen op.fb).2 = _
    by_cases hskip : op.fb = none ∨ (shedState O C c).1.cfg.fbDisabled = true
    · left
      rw [fallbackStep_skip _ _ _ _ _ hskip]
    · have hfb : ∃ fsc, op.fb = some fsc := by
        cases h : op.fb with
        | none => exact absurd (Or.inl h) hskip
        | some fsc => exact ⟨fsc, rfl⟩
      obtain ⟨fsc, hfsc⟩ := hfb
      have hdis : (shedState O C c).1.cfg.fbDisabled = false := by
        cases h : (shedState O C c).1.cfg.fbDisabled with
        | false => rfl
        | true => exact absurd (Or.inr h) hskip
      by_cases hth : (shedState O C c).1.cfg.fbMaxConc ≥ 0 ∧
          (shedState O C c).1.concFb + 1 > (shedState O C c).1.cfg.fbMaxConc
      · right; right
        rw [hfsc, fallbackStep_throttled _ _ _ _ fsc hdis hth]
      · right; left
        rw [hfsc]
        exact (fallbackStep_invoked _ op.ctx op.run .circuitOpen fsc hdis hth).1

/-- lifted to histories: as long as a history leaves the circuit effectively open and its closer refusing, no run
    function of that history is ever invoked (stated for the next call after ANY history) -/
theorem open_sheds_after_any_history {σo σc : Type} (O : OpenerI σo) (C : CloserI σc) (c0 : Circ σo σc)
    (ops : List (CircOp σo σc)) (op : ExecOp) (sc : Script) (hrun : op.run = some sc) :
    let c := (runOps O C c0 ops).1
    c.cfg.disabled = false → actualAdmission C c = false →
    (execute O C c op.ctx op.run op.fb).2.1.runSeen = none := by
  intro c hen hadm
  exact (open_sheds O C c op sc hen hrun hadm).1

example : (execute openerI closerI ({ isOpen := true, opener := .never, closer := .never } : Circ OState CState) {}
    (some { act := .ret none }) none).2.2 = .ret (some .circuitOpen) := by decide

end CM.Props.C01

/-
  Props/C10.lean — panics pass through to the caller and leave the circuit usable (sequential part; the gauge part
  under schedules is Conc/Gauge, the Go wrapper is C18).
-/
import CircuitProofs.Props.CircuitCommon
import CircuitProofs.Lemmas.Circuit
namespace CM.Props.C10
open CM CM.SpecCircuit CM.Props

theorem c10_holds {σo σc : Type} (O : OpenerI σo) (C : CloserI σc) (c : Circ σo σc) (op : ExecOp) :
    verdictC10 c.cfg (isOpenEff c) c.conc c.concFb op (execObs O C c op) = none := by
  sorry

/-- a panicking run function on a closed, enabled circuit whose opener's Prevent is a pure query leaves the whole
    state as it was — only time has passed (one reading plus the function's own duration) -/
theorem run_panic_restores_state {σo σc : Type} (O : OpenerI σo) (C : CloserI σc) (c : Circ σo σc) (op : ExecOp)
    (sc : Script) (v : Nat) (hen : c.cfg.disabled = false) (hclosed : isOpenEff c = false)
    (hpure : O.prevent c.opener c.clock = (c.opener, false))
    (hthr : ¬ (c.cfg.maxConc ≥ 0 ∧ c.conc + 1 > c.cfg.maxConc))
    (hrun : op.run = some sc) (hact : sc.act = .panic v) :
    let r := execute O C c op.ctx op.run op.fb
    r.2.2 = .panic v ∧ r.2.1.emits = [] ∧
      r.1.cfg = c.cfg ∧ r.1.isOpen = c.isOpen ∧ r.1.conc = c.conc ∧ r.1.concFb = c.concFb ∧
      r.1.opener = c.opener ∧ r.1.closer = c.closer ∧ r.1.clock = c.clock + 1 + sc.adv := by
  sorry

/-- hence later calls behave as if the panicking call had not happened (time having passed): any continuation of
    the history gives the same callbacks and the same final flags -/
theorem later_calls_unaffected {σo σc : Type} (O : OpenerI σo) (C : CloserI σc) (c : Circ σo σc) (op : ExecOp)
    (sc : Script) (v : Nat) (hen : c.cfg.disabled = false) (hclosed : isOpenEff c = false)
    (hpure : O.prevent c.opener c.clock = (c.opener, false))
    (hthr : ¬ (c.cfg.maxConc ≥ 0 ∧ c.conc + 1 > c.cfg.maxConc))
    (hrun : op.run = some sc) (hact : sc.act = .panic v) (rest : List (CircOp σo σc)) :
    let after := (execute O C c op.ctx op.run op.fb).1
    let skipped := (stepOp O C c (.tick (1 + sc.adv))).1
    (runOps O C after rest).2 = (runOps O C skipped rest).2 ∧
      (runOps O C after rest).1.isOpen = (runOps O C skipped rest).1.isOpen := by
  sorry

/-- the literal claim fails for a panicking HALF-OPEN PROBE with the hystrix closer: the probe slot is spent.
    Open circuit, sleep 10, one probe per window, callback fired.  With the panicking call the next call is
    short-circuited; with the panicking call replaced by the passage of time it runs and closes the circuit.
    (finding F-C10-probe; reproduced on the real code by the harness) -/
def probeState : Circ OState CState :=
  { isOpen := true, clock := 100, opener := .never,
    closer := .hystrix { tc := { sleep := 10, allow := 1, nextOpen := some 50, version := 1, armed := [1], fastFail := false } } }

theorem panicking_probe_consumes_slot_witness :
    let panicking : ExecOp := { run := some { act := .panic 1 } }
    let good : ExecOp := { run := some { act := .ret none } }
    (runOps openerI closerI probeState [.exec panicking, .exec good]).1.isOpen = true ∧
    (runOps openerI closerI probeState [.tick 1, .exec good]).1.isOpen = false := by
  sorry

end CM.Props.C10

/-
  Props/C10.lean — panics pass through to the caller and leave the circuit usable (sequential part; the gauge part
  under schedules is Conc/Gauge, the Go wrapper is C18).
-/
import CircuitProofs.Props.C10Tie
import CircuitProofs.Props.CircuitCommon
import CircuitProofs.Lemmas.CircuitC
namespace CM.Props.C10
open CM CM.SpecCircuit CM.Props

theorem c10_holds {σo σc : Type} (O : OpenerI σo) (C : CloserI σc) (c : Circ σo σc) (op : ExecOp) :
    verdictC10 c.cfg (isOpenEff c) c.conc c.concFb op (execObs O C c op) = none := by
  cases hd : c.cfg.disabled with
  | true =>
    unfold execObs
    dsimp only
    rw [execute_disabled O C c _ _ _ hd]
    cases hrun : op.run with
    | none => simp [verdictC10, mkObs]
    | some sc =>
      cases hp : runPanics op with
      | none => simp [verdictC10, mkObs, hp]
      | some v =>
        have := (runPanics_iff hrun v).1 hp
        simp [verdictC10, mkObs, hp, this, hd, runEvents]
  | false =>
    have sp := execute_spec O C c op.ctx op.run op.fb hd
    unfold execObs
    dsimp only
    generalize execute O C c op.ctx op.run op.fb = r at *
    unfold verdictC10
    dsimp only [mkObs]
    split
    · rfl
    · rename_i v hrp
      rcases sp.seen with ⟨h1, -⟩ | ⟨sc, h1, h2, -, h4⟩
      · simp [h1] at hrp
      · simp only [h2, Option.isSome_some, if_true] at hrp
        obtain ⟨hres, hem, hop⟩ := h4 v ((runPanics_iff h1 v).1 hrp)
        simp [hres, hem, sp.conc, sp.concFb, isOpenEff, sp.cfg, hop, runEvents]
    · rename_i v hrp hfp
      rcases sp.arg with h1 | ⟨sc, h1, h2⟩
      · simp [h1] at hfp
      · have hfp' : fbPanics op = some v := by
          split at hfp
          · exact hfp
          · cases hfp
        obtain ⟨hres, hem⟩ := h2 v ((fbPanics_iff h1 v).1 hfp')
        simp [hres, hem, sp.conc, sp.concFb]

/-- a panicking run function on a closed, enabled circuit whose opener's Prevent is a pure query leaves the whole
    state as it was — only time has passed (one reading plus the function's own duration) -/
theorem run_panic_restores_state {σo σc : Type} (O : OpenerI σo) (C : CloserI σc) (c : Circ σo σc) (op : ExecOp)
    (sc : Script) (v : Nat) (hen : c.cfg.disabled = false) (hclosed : isOpenEff c = false)
    (hpure : O.prevent c.opener c.clock = (c.opener, false))
    (hthr : ¬ (c.cfg.maxConc ≥ 0 ∧ c.conc + 1 > c.cfg.maxConc))
    (hrun : op.run = some sc) (hact : sc.act = .panic v) :
    let r := execute O C c op.ctx op.run op.fb
    r.2.2 = .panic v ∧ r.2.1.emits = [] ∧
      r.1.cfg = c.cfg ∧ r.1.isOpen = c.isOpen ∧ r.1.conc = c.conc ∧ r.1.concFb = c.concFb ∧
      r.1.opener = c.opener ∧ r.1.closer = c.closer ∧ r.1.clock = c.clock + 1 + sc.adv := by
  have hr : execute O C c op.ctx op.run op.fb =
      ({ c with conc := c.conc + 1 - 1, clock := c.clock + 1 + sc.adv },
       { readings := [c.clock], runSeen := some (derivedSeen c.cfg op.ctx c.clock),
         released := if !(derivedSeen c.cfg op.ctx c.clock).sameAsCaller then some true else none },
       .panic v) := by
    rw [execute_enabled O C c _ _ _ hen, hrun,
      runStep_panic_closed O C ((c, {}) : St σo σc) op.ctx sc v hclosed hpure hthr hact]
    rfl
  intro r
  have hr' : r = _ := hr
  rw [hr']
  refine ⟨rfl, rfl, rfl, rfl, ?_, rfl, rfl, rfl, rfl⟩
  show c.conc + 1 - 1 = c.conc
  omega

/-- hence later calls behave as if the panicking call had not happened (time having passed): any continuation of
    the history gives the same callbacks and the same final flags -/
theorem later_calls_unaffected {σo σc : Type} (O : OpenerI σo) (C : CloserI σc) (c : Circ σo σc) (op : ExecOp)
    (sc : Script) (v : Nat) (hen : c.cfg.disabled = false) (hclosed : isOpenEff c = false)
    (hpure : O.prevent c.opener c.clock = (c.opener, false))
    (hthr : ¬ (c.cfg.maxConc ≥ 0 ∧ c.conc + 1 > c.cfg.maxConc))
    (hrun : op.run = some sc) (hact : sc.act = .panic v) (rest : List (CircOp σo σc)) :
    let after := (execute O C c op.ctx op.run op.fb).1
    let skipped := (stepOp O C c (.tick (1 + sc.adv))).1
    (runOps O C after rest).2 = (runOps O C skipped rest).2 ∧
      (runOps O C after rest).1.isOpen = (runOps O C skipped rest).1.isOpen := by
  have hr : execute O C c op.ctx op.run op.fb =
      ({ c with conc := c.conc + 1 - 1, clock := c.clock + 1 + sc.adv },
       { readings := [c.clock], runSeen := some (derivedSeen c.cfg op.ctx c.clock),
         released := if !(derivedSeen c.cfg op.ctx c.clock).sameAsCaller then some true else none },
       .panic v) := by
    rw [execute_enabled O C c _ _ _ hen, hrun,
      runStep_panic_closed O C ((c, {}) : St σo σc) op.ctx sc v hclosed hpure hthr hact]
    rfl
  intro after skipped
  have h : after = skipped := by
    show (execute O C c op.ctx op.run op.fb).1 = ({ c with clock := c.clock + (1 + sc.adv) } : Circ σo σc)
    rw [hr]
    dsimp only
    rw [Int.add_sub_cancel, Int.add_assoc]
  rw [h]
  exact ⟨rfl, rfl⟩

/-- the literal claim fails for a panicking HALF-OPEN PROBE with the hystrix closer: the probe slot is spent.
    Open circuit, sleep 10, one probe per window, callback fired.  With the panicking call the next call is
    short-circuited; with the panicking call replaced by the passage of time it runs and closes the circuit.
    (finding F-C10-probe; reproduced on the real code by the harness) -/
def probeState : Circ OState CState :=
  { isOpen := true, clock := 100, opener := .never,
    closer := .hystrix { tc := { sleep := 10, allow := 1, nextOpen := some 50, version := 1, armed := [1], fastFail := false } } }

theorem panicking_probe_consumes_slot_witness :
    let panicking : ExecOp := { run := some { act := .panic 1 } }
    let good : ExecOp := { run := some { act := .ret none } }
    (runOps openerI closerI probeState [.exec panicking, .exec good]).1.isOpen = true ∧
    (runOps openerI closerI probeState [.tick 1, .exec good]).1.isOpen = false := by
  decide

end CM.Props.C10

/-
  Props/C16Conc.lean — C16 under schedules: concurrent Check callers, SleepStart and timer callbacks, every
  interleaving of the individual atomic / lock steps, any number of threads (static settings).
  Shape: (1) the arming events and successful checks, in the order of their write-locked regions, form a log that the
  sequential gate ACCEPTS (every success eligible, re-arming exactly when the budget is used up) — for every schedule;
  (2) about accepted logs (pure list facts): sleep respected, budget per arming, the one-period bound.
-/
import CircuitModel.Conc.TC
import CircuitProofs.Lemmas.ConcTC
namespace CM.Props.C16
open CM.Conc CM.Conc.TC

/-- LINEARISATION, every schedule: the ghost log is accepted by the sequential gate, and whenever nobody holds the
    write lock the protected fields are exactly what replaying the log gives -/
theorem log_is_sequential (sleep allow : Int) (jobs : List Job) (sched : List Nat) :
    let c := run sys (init sleep allow jobs) sched
    ∃ g, replay sleep allow {} c.shared.events = some g ∧
      (c.shared.writer = none → c.shared.nextOpen = g.nextOpen ∧ c.shared.count = g.count) := by
  obtain ⟨g, hg, hnone, _⟩ := (inv_run sleep allow jobs sched).data
  exact ⟨g, hg, hnone⟩

/-- a Check returns true only through a logged success with its own timestamp; the number of checks that have
    returned true never exceeds the number of logged successes -/
theorem true_means_logged (sleep allow : Int) (jobs : List Job) (sched : List Nat) :
    let c := run sys (init sleep allow jobs) sched
    (∀ l ∈ c.locals, ∀ t, l.job = .check t → l.pc = .done (some true) → ∃ b, Ev.success t b ∈ c.shared.events) ∧
    (c.locals.filter fun l => l.pc == .done (some true)).length ≤ (c.shared.events.filter Ev.isSuccess).length := by
  have h := inv_run sleep allow jobs sched
  refine ⟨?_, ?_⟩
  · intro l hmem t hjob hpc
    obtain ⟨i, hi⟩ := List.mem_iff_getElem?.mp hmem
    exact h.logged i l t hi hjob (by rw [hpc]; rfl)
  · rw [← List.countP_eq_length_filter, ← List.countP_eq_length_filter]
    refine Nat.le_trans (List.countP_mono_left ?_) h.counted
    intro l _ hl
    have : l.pc = .done (some true) := by simpa using hl
    simp [isT, this, T]

/-- SENTENCE 1 on accepted logs: after an arming at `ta` (SleepStart, or a budget-exhausting success), every success
    logged before the next arming has a timestamp ≥ ta + sleep — whatever callbacks fired, whatever the schedule -/
theorem accepted_sleep_respected (sleep allow : Int) (pre mid : List Ev) (arm : Ev) (t : Int) (b : Bool) (g : Gate)
    (harm : arm.isArming = true) (hmid : ∀ e ∈ mid, e.isArming = false)
    (hacc : replay sleep allow {} (pre ++ [arm] ++ mid ++ [.success t b]) = some g) :
    arm.time + sleep ≤ t :=
  accepted_sleep_respected' sleep allow pre mid arm t b g harm hmid hacc

/-- SENTENCE 2 on accepted logs: the successes since the last arming (the gate's count) never reach max(1, budget) -/
theorem accepted_budget (sleep allow : Int) (log : List Ev) (g : Gate) (hacc : replay sleep allow {} log = some g) :
    0 ≤ g.count ∧ g.count < max 1 allow ∧
    g.count = ((log.reverse.takeWhile fun e => !e.isArming).length : Int) :=
  accepted_budget' sleep allow log g hacc

/-- the schedule-independent bound the harness monitors: if every timestamp of a run lies inside one sleep period,
    at most max(1, budget) checks succeed in total -/
theorem one_period_budget (sleep allow lo : Int) (log : List Ev) (g : Gate) (hs : 0 < sleep)
    (htimes : ∀ e ∈ log, lo ≤ e.time ∧ e.time < lo + sleep) (hacc : replay sleep allow {} log = some g) :
    ((log.filter Ev.isSuccess).length : Int) ≤ max 1 allow := by
  have _ := hs
  rcases one_period_inv sleep allow lo log htimes g hacc with ⟨_, h2, h3⟩ | ⟨L, _, _, h3⟩ <;> omega

/-- mutual exclusion of the RWMutex in the model, and no deadlock -/
theorem rwmutex_exclusive (sleep allow : Int) (jobs : List Job) (sched : List Nat) :
    let c := run sys (init sleep allow jobs) sched
    (c.shared.writer.isSome → c.shared.readers = 0) :=
  (inv_run sleep allow jobs sched).wr

theorem never_deadlocks (sleep allow : Int) (jobs : List Job) (sched : List Nat) :
    let c := run sys (init sleep allow jobs) sched
    quiescent c = false → ∃ i l, c.locals[i]? = some l ∧ (step i c.shared l).isSome :=
  no_deadlock sleep allow _ (inv_run sleep allow jobs sched)

/-- non-vacuity: budget 1, two callers racing past the read-locked test; the loser is refused under the write lock -/
example : (run sys (init 100 1 [.check 5, .check 6]) [0,0, 1,1, 0,1, 0,0,0,0,0,0,0,0, 1,1,1,1]).locals.map (·.pc)
    = [.done (some true), .done (some false)] := by decide

end CM.Props.C16

import CircuitModel.Basic
namespace CM.Props.C11
theorem placeholder : True := trivial
end CM.Props.C11

/- Props/C11.lean — property C11: all theorems live in namespace CM.Props.C11, split over two files. -/
import CircuitProofs.Props.C11Tie
import CircuitProofs.Props.C11Base
import CircuitProofs.Props.C11Mid

/-
  Props/C11.lean — live reconfiguration and diagnostics are safe under traffic (partial by nature: the Go memory
  model, fairness and network-facing diagnostics are outside the model).
  Obligations: (1) no data race = lock discipline on facts REGENERATED from the source + soundness of the discipline;
  (2) no deadlock = acyclic lock order on regenerated edges + soundness; (3) per-setting atomicity = a decision that
  loads its setting once sees the old or the new value under every schedule; (4) no panic with partial configs is
  tied by the differential harness (diagnostics after partial SetConfigThreadSafe).
-/
import CircuitModel.LockLang
import CircuitModel.Conc.Cfg
import Generated.LockFacts
import CircuitProofs.Lemmas.Lock
namespace CM.Props.C11
open CM.Lock

/-- THE REGENERATED OBLIGATIONS (facts re-extracted from today's Go source on every run): every non-atomic field of
    every mutex-owning type is either never written after construction or protected by one common mutex, and the
    acquired-while-holding relation between mutexes is acyclic -/
theorem discipline_ok : disciplineOk CM.Generated.lockFacts = true := by decide
theorem lock_order_ok : lockOrderOk CM.Generated.lockEdges = true := by decide

/-! ### (1) soundness of the discipline -/

/-- a thread, as far as locks go: the mutexes it currently holds -/
structure Thread where
  held : List Held

/-- mutual exclusion of the mutexes: if two different threads hold the same mutex, both hold it shared -/
def Exclusive (ts : List Thread) : Prop :=
  ∀ (i j : Nat) (ti tj : Thread), ts[i]? = some ti → ts[j]? = some tj → i ≠ j →
    ∀ h ∈ ti.held, ∀ h' ∈ tj.held, h.lock = h'.lock → h.write = false ∧ h'.write = false

/-- a thread can be at an access only while holding (at least) what the analysis says is definitely held there -/
def AtAccess (t : Thread) (a : Access) : Prop :=
  ∀ h ∈ a.held, ∃ h' ∈ t.held, h'.lock = h.lock ∧ (h.write = true → h'.write = true)

/-- NO DATA RACE: under the discipline, two different threads are never simultaneously at conflicting live accesses
    (at least one of them a write) of the same field -/
theorem lockset_sound (f : FieldFacts) (hok : fieldOk f = true) (ts : List Thread) (hex : Exclusive ts)
    (i j : Nat) (ti tj : Thread) (hi : ts[i]? = some ti) (hj : ts[j]? = some tj) (hij : i ≠ j)
    (a1 a2 : Access) (h1 : a1 ∈ live f) (h2 : a2 ∈ live f) (p1 : AtAccess ti a1) (p2 : AtAccess tj a2)
    (hconf : a1.write = true ∨ a2.write = true) : False := by
  unfold fieldOk at hok
  rw [Bool.or_eq_true] at hok
  rcases hok with hro | hprot
  · rw [List.all_eq_true] at hro
    have r1 := hro a1 h1
    have r2 := hro a2 h2
    simp only [Bool.not_eq_true'] at r1 r2
    rcases hconf with h | h
    · rw [h] at r1; cases r1
    · rw [h] at r2; cases r2
  · rw [List.any_eq_true] at hprot
    obtain ⟨h, _, hp⟩ := hprot
    obtain ⟨k1, hk1, hl1, hw1⟩ := protects_mem hp h1
    obtain ⟨k2, hk2, hl2, hw2⟩ := protects_mem hp h2
    obtain ⟨k1', hk1', hl1', hw1'⟩ := p1 k1 hk1
    obtain ⟨k2', hk2', hl2', hw2'⟩ := p2 k2 hk2
    have hsame : k1'.lock = k2'.lock := by rw [hl1', hl2', hl1, hl2]
    obtain ⟨e1, e2⟩ := hex i j ti tj hi hj hij k1' hk1' k2' hk2' hsame
    rcases hconf with hc | hc
    · rcases hw1 with hw | hw
      · rw [hw1' hw] at e1; cases e1
      · rw [hc] at hw; cases hw
    · rcases hw2 with hw | hw
      · rw [hw2' hw] at e2; cases e2
      · rw [hc] at hw; cases hw

/-! ### (2) acyclic lock order ⇒ no deadlock -/

/-- a blocked thread: holds some mutexes, waits for one; every (held, wanted) pair is an acquired-while-holding edge -/
structure Blocked where
  holds : List String
  wants : String

/-- if the checker accepts the edges, there is no deadlock: no non-empty set of blocked threads in which everybody
    waits for a mutex held by somebody of the set -/
theorem ordered_locks_no_deadlock (edges : List (String × String)) (hok : lockOrderOk edges = true)
    (bs : List Blocked) (hne : bs ≠ [])
    (hedges : ∀ b ∈ bs, ∀ h ∈ b.holds, (h, b.wants) ∈ edges)
    (hheld : ∀ b ∈ bs, ∃ b' ∈ bs, b.wants ∈ b'.holds) : False := by
  obtain ⟨b, hb, hmax⟩ :=
    exists_max (fun b : Blocked => rankOf edges (edges.length + 1) b.wants) bs hne
  obtain ⟨b', hb', hin⟩ := hheld b hb
  have hedge := hedges b' hb' b.wants hin
  have hlt := lockOrderOk_edge hok hedge
  have hle := hmax b' hb'
  omega

/-! ### (3) per-setting atomicity -/
open CM.Conc.Cfg in
/-- a decision that loads its setting ONCE observes the old or the new value, under every schedule -/
theorem old_or_new (old new : Int) (sched : List Actor) :
    (run 1 (init old new) sched).loads = [] ∨ (run 1 (init old new) sched).loads = [old] ∨
    (run 1 (init old new) sched).loads = [new] := by
  have hinit : Inv1 old new (init old new) := ⟨Or.inl rfl, rfl, Or.inl rfl⟩
  exact (inv1_run sched hinit).2.2

open CM.Conc.Cfg in
/-- hence the throttle decision of a call racing a limit change is the decision under the old or under the new limit -/
theorem throttle_old_or_new (old new count : Int) (sched : List Actor) (b : Bool)
    (h : rejectOnce count (run 1 (init old new) sched).loads = some b) :
    b = decide (old ≥ 0 ∧ count > old) ∨ b = decide (new ≥ 0 ∧ count > new) := by
  rcases old_or_new old new sched with h0 | h0 | h0
  · rw [h0] at h; simp [rejectOnce] at h
  · rw [h0] at h; simp only [rejectOnce, Option.some.injEq] at h; exact Or.inl h.symm
  · rw [h0] at h; simp only [rejectOnce, Option.some.injEq] at h; exact Or.inr h.symm

open CM.Conc.Cfg in
/-- the legacy shape (two loads) is NOT atomic: limit 5 → -1 between the loads rejects a first call that both
    configurations admit (the defect repaired in /repo; reproduced on the real code by the schedule harness) -/
theorem double_read_witness :
    rejectTwice 1 (run 2 (init 5 (-1)) [.load, .store, .load]).loads = some true ∧
    decide ((5 : Int) ≥ 0 ∧ (1 : Int) > 5) = false ∧ decide ((-1 : Int) ≥ 0 ∧ (1 : Int) > -1) = false := by
  decide

end CM.Props.C11

/- Props/C09.lean — property C09: all theorems live in namespace CM.Props.C09, split over two files. -/
import CircuitProofs.Props.C09Tie
import CircuitProofs.Props.C09Seq
import CircuitProofs.Props.C09Conc
import CircuitProofs.Props.C09Dyn

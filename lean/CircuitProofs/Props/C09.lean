/-
  Props/C09.lean — Opened/Closed notifications mirror real transitions one-to-one (histories; the racing-transition
  part under schedules is Conc/Trans).
-/
import CircuitProofs.Props.CircuitCommon
import CircuitProofs.Lemmas.Circuit
namespace CM.Props.C09
open CM CM.SpecCircuit CM.Props

/-- MAIN, over all histories and all logic: starting from a closed circuit, after ANY history of calls (any outcome),
    OpenCircuit, CloseCircuit, override changes, clock steps and arbitrary outside interference with the logic's
    state, the notifications delivered strictly alternate starting with Opened, and the underlying flag is true
    exactly when the last notification was Opened. -/
theorem notifications_alternate {σo σc : Type} (O : OpenerI σo) (C : CloserI σc) (c0 : Circ σo σc)
    (h0 : c0.isOpen = false) (ops : List (CircOp σo σc)) :
    let r := runOps O C c0 ops
    alternates false (notifs r.2) = true ∧ r.1.isOpen = ((notifs r.2).getLast?).getD false := by
  sorry

/-- so when no override is in force IsOpen() is true exactly when the last notification was Opened -/
theorem flag_tracks_last {σo σc : Type} (O : OpenerI σo) (C : CloserI σc) (c0 : Circ σo σc)
    (h0 : c0.isOpen = false) (ops : List (CircOp σo σc)) :
    let r := runOps O C c0 ops
    r.1.cfg.forceOpen = false → r.1.cfg.forcedClosed = false →
    isOpenEff r.1 = ((notifs r.2).getLast?).getD false := by
  sorry

/-- calls that change nothing notify nobody -/
theorem noop_open_silent {σo σc : Type} (O : OpenerI σo) (C : CloserI σc) (c : Circ σo σc)
    (h : isOpenEff c = true ∨ c.cfg.forcedClosed = true) :
    (manualOpen O C c).2.emits = [] ∧ (manualOpen O C c).1.isOpen = c.isOpen := by
  sorry
theorem noop_close_silent {σo σc : Type} (O : OpenerI σo) (C : CloserI σc) (c : Circ σo σc)
    (h : isOpenEff c = false ∨ c.cfg.forceOpen = true) :
    (manualClose O C c).2.emits = [] ∧ (manualClose O C c).1.isOpen = c.isOpen := by
  sorry

/-- and the calls that do change something notify exactly once -/
theorem effective_open_notifies_once {σo σc : Type} (O : OpenerI σo) (C : CloserI σc) (c : Circ σo σc)
    (h1 : isOpenEff c = false) (h2 : c.cfg.forcedClosed = false) :
    (manualOpen O C c).2.emits = [.opened c.clock] ∧ (manualOpen O C c).1.isOpen = true := by
  sorry
theorem effective_close_notifies_once {σo σc : Type} (O : OpenerI σo) (C : CloserI σc) (c : Circ σo σc)
    (h1 : isOpenEff c = true) (h2 : c.cfg.forceOpen = false) :
    (manualClose O C c).2.emits = [.closed c.clock] ∧ (manualClose O C c).1.isOpen = false := by
  sorry

/-- per-call form used by the run-time monitor: one Execute passes the C09 verdict -/
theorem c09_exec_holds {σo σc : Type} (O : OpenerI σo) (C : CloserI σc) (c : Circ σo σc) (op : ExecOp) :
    let o := execObs O C c op
    verdictC09 c.cfg (some c.isOpen) o.emits o.openAfter true = none := by
  sorry

example : (notifs (runOps openerI closerI ({ opener := .never, closer := .never } : Circ OState CState)
    [.openC, .openC, .closeC, .closeC, .openC]).2) = [true, false, true] := by decide

end CM.Props.C09

/-
  Props/C12Ordered.lean — C12, the stricter reading of "every reported duration is the difference of two such
  readings": a LATER reading of the call minus an EARLIER one (positions in the order the readings were taken) — so a
  clamped, rounded or otherwise adjusted duration is excluded even when the substitute clock is set back inside a call.
-/
import CircuitModel.CircuitMid
import CircuitProofs.Lemmas.CircuitOrd
namespace CM.Props.C12
open CM CM.SpecCircuit

/-- EXECUTE, every logic, every state, every context and scripts (clock advances of ANY sign inside the functions):
    every duration reported on run and fallback events (rejections and short-circuits carry none) is a later
    TimeKeeper reading of this call minus an earlier one -/
theorem execute_durations_are_later_minus_earlier {σo σc : Type} (O : OpenerI σo) (C : CloserI σc) (c : Circ σo σc)
    (ctx : CallerCtx) (run fb : Option Script) :
    let r := execute O C c ctx run fb
    verdictC12o r.2.1.emits r.2.1.readings = none := by
  intro r
  exact cord_verdict_of_prov (cord_execute_prov O C c ctx run fb)

/-- the same when a reconfiguration lands while the call is in flight -/
theorem executeMid_durations_are_later_minus_earlier {σo σc : Type} (O : OpenerI σo) (C : CloserI σc) (c : Circ σo σc)
    (ctx : CallerCtx) (run fb : Option Script) (mid : Option LiveCfg) :
    let r := executeMid O C c ctx run fb mid
    verdictC12o r.2.1.emits r.2.1.readings = none := by
  intro r
  exact cord_verdict_of_prov (cord_executeMid_prov O C c ctx run fb mid)

/-- the monitor does reject a clamped duration: readings 5, 1 (clock set back by the function), reported 0 -/
example : verdictC12o [.run .success 1 0] [5, 1] ≠ none := by decide
example : verdictC12o [.run .success 1 (-4)] [5, 1] = none := by decide

end CM.Props.C12

/-
  Props/C19.lean — config merging only fills gaps, for every field of every config type.
  `checker_sound` is proved once, for ALL programs, tables and values.  `all_merges_ok` re-checks, by kernel
  evaluation, the programs REGENERATED from today's Go source (Generated/MergeProgs.lean): a new exported field the
  merge forgets, an overwrite instead of a fill, a reversed append or a wrongly biased map union makes it false
  (or turns the statement into `.opaque`, which the checker rejects).
-/
import CircuitModel.MergeLang
import Generated.MergeProgs
import CircuitProofs.Lemmas.Merge
namespace CM.Props.C19
open CM.Merge

/-- SOUNDNESS of the checker.  If a type passes `checkType` (and so do all types, for the nested ones), then for every
    receiver and other value of the right shape, evaluating the translated merge body equals the specification:
    every field the receiver had set is unchanged and every unset field takes other's value; booleans are OR-ed;
    lists become receiver-then-other; maps are united with the receiver's entries winning; nested structs likewise.
    No field of the table is left out (specStruct maps over ALL fields). -/
theorem checker_sound (types : List TypeDef) (hall : checkAll types = true) (fuel : Nat) (td : TypeDef) (htd : td ∈ types)
    (r o : List (String × Val)) (hr : conforms types fuel td.fields r = true) (ho : conforms types fuel td.fields o = true) :
    evalStmts types fuel td.fields td.prog r o = specStruct types fuel td.fields r o :=
  sound_all types hall fuel td htd r o hr ho

/-- what the specification says for the basic kinds, spelled out -/
theorem spec_scalar (types : List TypeDef) (fuel a b : Nat) :
    fillGap types fuel .scalar (.scalar a) (.scalar b) = .scalar (if a = 0 then b else a) := by
  simp [fillGap]
theorem spec_bool (types : List TypeDef) (fuel : Nat) (a b : Bool) :
    fillGap types fuel .bool (.bool a) (.bool b) = .bool (a || b) := by
  simp [fillGap]
theorem spec_list (types : List TypeDef) (fuel : Nat) (a b : List Nat) :
    fillGap types fuel .list (.list a) (.list b) = .list (a ++ b) := by
  simp [fillGap]
/-- map union: the receiver's entries win, other's missing keys are added -/
theorem spec_map_receiver_wins (r o : List (Nat × Nat)) (k : Nat) (hk : mapHas r k = true) :
    (mapUnionLeft r o).filter (·.1 == k) = r.filter (·.1 == k) :=
  mapUnionLeft_filter_of_has o r k hk
theorem spec_map_adds_missing (r o : List (Nat × Nat)) (k v : Nat) (hk : mapHas r k = false) (hv : (k, v) ∈ o) :
    mapHas (mapUnionLeft r o) k = true := by
  have _ := hk
  exact mapUnionLeft_has_of_mem o r k v hv

/-- layered merging (Manager.CreateCircuit, the factories): folding merges over layers takes each scalar from the
    FIRST layer that sets it, ORs the booleans and concatenates the lists in layer order -/
theorem fold_first_set (layers : List Nat) :
    layers.foldl (fun acc l => if acc = 0 then l else acc) 0 = (layers.find? (· ≠ 0)).getD 0 := by
  rw [foldl_first_set]; simp
theorem fold_or (layers : List Bool) : layers.foldl (fun acc l => acc || l) false = layers.any id := by
  rw [foldl_or]; simp
theorem fold_append (layers : List (List Nat)) : layers.foldl (fun acc l => acc ++ l) [] = layers.flatten := by
  rw [foldl_append]; simp

/-- THE REGENERATED OBLIGATION: every config type with a Merge method found in the Go source today passes the checker -/
theorem all_merges_ok : checkAll CM.Generated.mergeTypes = true := by decide

/-- the generated table is not empty and contains the types the property names -/
theorem generated_covers_named_types :
    ["circuit.Config", "circuit.GeneralConfig", "circuit.ExecutionConfig", "circuit.FallbackConfig", "circuit.MetricsCollectors",
     "hystrix.ConfigureOpener", "hystrix.ConfigureCloser", "simplelogic.ConfigConsecutiveErrOpener",
     "rolling.RunStatsConfig", "rolling.FallbackStatsConfig", "responsetimeslo.Config"].all
      (fun n => (typeOf CM.Generated.mergeTypes n).isSome) = true := by decide

/-- non-vacuity: the checker does reject a forgotten field, an overwrite and an unrecognised statement -/
example : checkType [] { name := "T", fields := [⟨"A", .scalar⟩, ⟨"B", .scalar⟩], prog := [.fillIfZero "A"] } = false := by decide
example : checkType [] { name := "T", fields := [⟨"A", .bool⟩], prog := [.fillIfZero "A"] } = false := by decide
example : checkType [] { name := "T", fields := [⟨"A", .scalar⟩], prog := [.opaque "c.A = other.A"] } = false := by decide

end CM.Props.C19

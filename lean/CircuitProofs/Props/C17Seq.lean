/-
  Props/C17.lean — Manager: unique names, stable handles, harmless failed creates, precedence.
  Every public method of Manager holds its mutex for its whole body (obligation of C11's lock discipline), so under
  any interleaving the operations take effect in SOME order: the theorems below quantify over ALL operation
  sequences, which covers all schedules of concurrent callers.
-/
import CircuitModel.Manager
import CircuitProofs.Lemmas.Mgr
namespace CM.Props.C17
open CM.Mgr

/-- a CreateCircuit that fails because the name exists changes NOTHING: not the registry, not the stat factory's
    binding, not the counters -/
theorem failed_create_changes_nothing (s : State) (name : String) (cfgs : List Layer) (c : Circuit)
    (h : s.get name = some c) : create s name cfgs = (s, .exists_) := by
  exact create_some cfgs h

/-- for every history, the creations of one name succeed EXACTLY ONCE if attempted at all (one winner) -/
def createdCount (name : String) : List Op → List Out → Nat
  | .create n _ :: ops, .created _ :: outs => (if n = name then 1 else 0) + createdCount name ops outs
  | _ :: ops, _ :: outs => createdCount name ops outs
  | _, _ => 0

def attempts (name : String) (ops : List Op) : Nat :=
  (ops.filter fun o => match o with | .create n _ => n = name | _ => false).length

theorem one_winner (ctors : List Ctor) (ops : List Op) (name : String) :
    createdCount name ops (run { ctors := ctors } ops) = (if attempts name ops = 0 then 0 else 1) := by
  have attempts_create : ∀ (n : String) (cs : List Layer) (ops : List Op),
      attempts name (.create n cs :: ops) = (if n = name then 1 else 0) + attempts name ops := by
    intro n cs ops
    by_cases hn : n = name
    · simp [attempts, hn]; omega
    · simp [attempts, hn]
  have gen : ∀ (ops : List Op) (s : State), createdCount name ops (run s ops) =
      if (s.get name).isSome then 0 else (if attempts name ops = 0 then 0 else 1) := by
    intro ops
    induction ops with
    | nil => intro s; simp [createdCount, attempts]
    | cons op ops ih =>
      intro s
      rw [run_cons]
      cases op with
      | create n cs =>
        show createdCount name (Op.create n cs :: ops) ((create s n cs).2 :: run (create s n cs).1 ops) = _
        rw [attempts_create]
        cases hg : s.get n with
        | some c =>
          rw [create_some cs hg]
          simp only [createdCount, ih]
          by_cases hn : n = name
          · subst hn; simp [hg]
          · simp [hn]
        | none =>
          have hc : (create s n cs).2 = .created (mkCircuit s n cs) := by rw [create_none cs hg]
          rw [hc]
          simp only [createdCount, ih]
          by_cases hn : n = name
          · subst hn; simp [create_get_same cs hg, hg]
          · simp [create_get_other s cs hn, hn]
      | get n =>
        show createdCount name (Op.get n :: ops) (Out.got (s.get n) :: run s ops) = _
        simp [createdCount, ih, attempts]
      | all =>
        show createdCount name (Op.all :: ops) (Out.all _ :: run s ops) = _
        simp [createdCount, ih, attempts]
      | stats n =>
        show createdCount name (Op.stats n :: ops) (Out.bound _ :: run s ops) = _
        simp [createdCount, ih, attempts]
  rw [gen]
  simp [State.get]

/-- the handle is stable: once created, GetCircuit returns that same circuit after ANY further history -/
theorem get_returns_it (s : State) (name : String) (c : Circuit) (h : s.get name = some c) (ops : List Op) :
    (exec s ops).get name = some c := by
  exact exec_inv (fun s => s.get name = some c) (fun s op hs => step_get_preserve hs op) s ops h

/-- AllCircuits holds exactly the successfully created circuits: ids 0 … k-1 where k creations succeeded -/
theorem all_is_exactly_created (ctors : List Ctor) (ops : List Op) :
    let s := exec { ctors := ctors } ops
    (step s .all).2 = .all (List.range s.nextId) ∧ s.circuits.length = s.nextId := by
  intro s
  have hinv : IdsInv s := exec_inv IdsInv idsInv_step _ ops (by simp [IdsInv])
  unfold IdsInv at hinv
  refine ⟨?_, ?_⟩
  · show Out.all (sortNat (s.circuits.map (·.2.id))) = _
    rw [hinv, sortNat_range]
  · have := congrArg List.length hinv
    simpa using this

/-- PRECEDENCE: a created circuit's settings are taken, field by field, from the explicit configs in argument
    order, then from the default constructors from last to first, then from the library defaults; booleans are set
    if any layer sets them -/
theorem precedence_holds (s : State) (name : String) (cfgs : List Layer) (h : s.get name = none) :
    ∃ c s', create s name cfgs = (s', .created c) ∧ c.cfg = specCfg s.ctors cfgs := by
  refine ⟨mkCircuit s name cfgs, _, create_none cfgs h, ?_⟩
  rw [mkCircuit_cfg, foldl_merge_eq_spec]

/-- the stats a StatFactory hands out for a live name are the ones attached to the live circuit, after ANY history
    (with at most one stat factory among the constructors) -/
theorem stats_stay_bound (ctors : List Ctor) (hone : (ctors.filter (· == .statFactory)).length ≤ 1) (ops : List Op)
    (name : String) (c : Circuit) (h : (exec { ctors := ctors } ops).get name = some c) :
    c.stats = (if ctors.contains .statFactory then (exec { ctors := ctors } ops).statFor name else none) := by
  have hinv : StatInv ctors (exec { ctors := ctors } ops) :=
    exec_inv (StatInv ctors) (statInv_step ctors hone) _ ops
      ⟨rfl, by intro n c hget; simp [State.get] at hget⟩
  exact hinv.2 name c h

example : run { ctors := [.layer { timeout := 5 }, .statFactory, .layer { timeout := 7, maxConc := 3 }] }
    [.create "a" [{ maxConc := 9 }], .create "a" [], .stats "a", .get "a"]
  = [.created { id := 0, cfg := { timeout := 7, maxConc := 9, fbMaxConc := 10 }, stats := some 0 }, .exists_, .bound (some true),
     .got (some { id := 0, cfg := { timeout := 7, maxConc := 9, fbMaxConc := 10 }, stats := some 0 })] := by decide

end CM.Props.C17

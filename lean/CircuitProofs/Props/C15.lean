import CircuitModel.Spec.C15
namespace CM.Props.C15
theorem placeholder : (RP.new 1 1 1).n = 1 := rfl
end CM.Props.C15

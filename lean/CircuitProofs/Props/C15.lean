/- Props/C15.lean — property C15: all theorems live in namespace CM.Props.C15, split over two files. -/
import CircuitProofs.Props.C15Tie
import CircuitProofs.Props.C15Snapshot
import CircuitProofs.Props.C15Percentile

/-
  Props/C09Conc.lean — C09 under schedules: racing transitions (any number of threads, every schedule of the
  individual lock / load / deliver / store steps), on the small-step model of the serialised transitions.
-/
import CircuitModel.Conc.Trans
import CircuitProofs.Lemmas.Trans
namespace CM.Props.C09
open CM.Conc CM.Conc.Trans

/-- ALTERNATION UNDER EVERY SCHEDULE: whatever the jobs (OpenCircuit, failing calls whose opener said yes,
    CloseCircuit, succeeding probes with any ShouldClose answer), however many threads, and however their steps
    interleave, the notifications delivered strictly alternate starting from the initial state, and whenever no
    transition is in progress the flag equals the last notification (the initial state if there was none) -/
theorem racing_transitions_alternate (fo fc io : Bool) (jobs : List Job) (sched : List Nat) :
    let c := run sys (init fo fc io jobs) sched
    alternates io c.shared.log = true ∧
    (c.shared.holder = none → c.shared.isOpen = (c.shared.log.getLast?).getD io) := by
  intro c
  have I := Inv_run fo fc io jobs sched
  exact ⟨I.alt, I.free⟩

/-- in particular at quiescence -/
theorem quiescent_flag_is_last_notification (fo fc io : Bool) (jobs : List Job) (sched : List Nat)
    (hq : quiescent (run sys (init fo fc io jobs) sched) = true) :
    let c := run sys (init fo fc io jobs) sched
    c.shared.isOpen = (c.shared.log.getLast?).getD io ∧ c.shared.holder = none := by
  intro c
  have I := Inv_run fo fc io jobs sched
  have hn := Inv_quiescent fo fc io _ I hq
  exact ⟨I.free hn, hn⟩

/-- calls that change nothing notify nobody, under every schedule: with a contrary override in force nothing is
    ever delivered and the underlying flag never moves -/
theorem overrides_silence_transitions (fo fc io : Bool) (h : fo = true ∨ fc = true) (jobs : List Job) (sched : List Nat) :
    let c := run sys (init fo fc io jobs) sched
    c.shared.log = [] ∧ c.shared.isOpen = io := by
  intro c
  have I := QInv_run fo fc io h jobs sched
  exact ⟨I.hlog, I.hio⟩

/-- exactly once per transition: the number of Opened notifications and the number of Closed notifications differ by
    at most one (a consequence of alternation, stated for counting) -/
theorem opened_closed_balance (fo fc io : Bool) (jobs : List Job) (sched : List Nat) :
    let log := (run sys (init fo fc io jobs) sched).shared.log
    ((log.filter id).length : Int) - (log.filter (!·)).length ≤ 1 ∧
    ((log.filter (!·)).length : Int) - (log.filter id).length ≤ 1 := by
  intro log
  exact alternates_balance io log (Inv_run fo fc io jobs sched).alt

/-- no deadlock: as long as some thread has not finished, some thread can take a step -/
theorem transitions_never_deadlock (fo fc io : Bool) (jobs : List Job) (sched : List Nat) :
    let c := run sys (init fo fc io jobs) sched
    quiescent c = false → ∃ i l, c.locals[i]? = some l ∧ (step i c.shared l).isSome := by
  intro c hq
  exact Inv_progress fo fc io c (Inv_run fo fc io jobs sched) hq

/-- non-vacuity: two OpenCircuit and one CloseCircuit racing from a closed circuit: one Opened, then Closed -/
example : (run sys (init false false false [.open, .open, .close true false])
    [0,0,0,0,0, 1, 2, 0,0,0, 1,1,1,1,1,1, 2,2,2,2,2,2,2,2,2]).shared.log = [true, false] := by decide

end CM.Props.C09

/-
  Props/C12.lean — one clock: every timestamp and duration comes from the configured TimeKeeper.
  In the model the only source of time is `now` (a TimeKeeper reading, recorded in `Obs.readings`); these theorems
  show that every time handed to opener, closer and collectors — on every entry point — is such a reading taken
  during that very call, and every duration the difference of two of them.
-/
import CircuitProofs.Props.CircuitCommon
import CircuitProofs.Lemmas.CircuitC
namespace CM.Props.C12
open CM CM.SpecCircuit CM.Props

theorem execute_timestamps_are_readings {σo σc : Type} (O : OpenerI σo) (C : CloserI σc) (c : Circ σo σc) (op : ExecOp) :
    let r := execute O C c op.ctx op.run op.fb
    verdictC12 r.2.1.emits r.2.1.readings = none := by
  intro r
  apply verdictC12_of_prov
  cases h : c.cfg.disabled with
  | true =>
    have he : r.2.1.emits = [] := by
      show (execute O C c op.ctx op.run op.fb).2.1.emits = []
      rw [execute_disabled O C c _ _ _ h]
      cases op.run <;> rfl
    intro e hm
    rw [he] at hm
    cases hm
  | false => exact (execute_spec O C c op.ctx op.run op.fb h).prov

theorem openCircuit_timestamps_are_readings {σo σc : Type} (O : OpenerI σo) (C : CloserI σc) (c : Circ σo σc) :
    let r := manualOpen O C c
    verdictC12 r.2.emits r.2.readings = none ∧ r.2.readings = [c.clock] := by
  intro r
  have hr : r = openCircuit O C (now ((c, {}) : St σo σc)).2 c.clock := rfl
  have hm : c.clock ∈ (now ((c, {}) : St σo σc)).2.2.readings := now_mem _
  refine ⟨verdictC12_of_prov ?_, ?_⟩
  · rw [hr]
    exact (rel_openCircuit O C _ c.clock hm).prov ((rel_now _).prov prov_init)
  · rw [hr, openCircuit_readings]
    rfl

theorem closeCircuit_timestamps_are_readings {σo σc : Type} (O : OpenerI σo) (C : CloserI σc) (c : Circ σo σc) :
    let r := manualClose O C c
    verdictC12 r.2.emits r.2.readings = none ∧ r.2.readings = [c.clock] := by
  intro r
  have hr : r = closeCircuit O C (now ((c, {}) : St σo σc)).2 c.clock true := rfl
  have hm : c.clock ∈ (now ((c, {}) : St σo σc)).2.2.readings := now_mem _
  refine ⟨verdictC12_of_prov ?_, ?_⟩
  · rw [hr]
    exact (rel_closeCircuit O C _ c.clock true hm).prov ((rel_now _).prov prov_init)
  · rw [hr, closeCircuit_readings]
    rfl

/-- the times handed to the open/close logic's queries are readings of this call too: Allow and Prevent get the
    start reading (the clock value when the call began) -/
theorem queries_use_the_start_reading {σo σc : Type} (O : OpenerI σo) (C : CloserI σc) (c : Circ σo σc) (op : ExecOp)
    (sc : Script) (hen : c.cfg.disabled = false) (hrun : op.run = some sc) :
    (execute O C c op.ctx op.run op.fb).2.1.readings.head? = some c.clock := by
  obtain ⟨l, hl⟩ := (execute_spec O C c op.ctx op.run op.fb hen).readings sc hrun
  rw [hl]
  rfl

example : verdictC12 [.opened 77] [3] ≠ none := by decide   -- the monitor does reject a foreign timestamp

end CM.Props.C12

/-
  Props/C15Percentile.lean — property C15, second and third sentences: for a non-empty snapshot Percentile is
  non-decreasing in p on [0,100], equals Min at 0 and Max at 100 and stays between them, Mean lies between Min and
  Max, and the published summary labels each pNN with Percentile(NN).
  The model evaluates the Go expression in exact-rational binary64 arithmetic (CircuitModel/F64.lean), so these are
  statements about the rounded computation, for EVERY rational p (in particular every binary64 p), not a grid.
  Property theorems only; helper lemmas live in CircuitProofs/Lemmas/F64.lean and CircuitProofs/Lemmas/SD.lean.
-/
import CircuitModel.Spec.C15
import CircuitProofs.Lemmas.SD
namespace CM.Props.C15
open CM CM.F64

/-- the guard under which the bounds are claimed: ascending, every duration within ±2^52 ns (≈ 52 days; differences
    are then exactly representable), fewer than 2^53 samples.  Outside it the Go code can overflow or lose
    precision (finding F-C15-overflow). -/
def Exact (s : List Int) : Prop :=
  s.Pairwise (· ≤ ·) ∧ (∀ x ∈ s, -(4503599627370496 : Int) ≤ x ∧ x ≤ 4503599627370496) ∧ s.length < 9007199254740992

/-- no finite p makes Percentile panic (index out of range) on a guarded sample -/
theorem percentile_defined (s : List Int) (hs : Exact s) (p : Rat) :
    ∃ v, SD.percentile s (.fin p) = some v := by
  have hg : SD.Guard s := hs
  match s, hg with
  | [], _ => exact ⟨-1, rfl⟩
  | [x], _ => exact ⟨x, rfl⟩
  | x0 :: x1 :: rest, hg => exact ⟨_, SD.percentile_eq_PV hg (by simp) p⟩

/-- Percentile equals Min for every p ≤ 0 (and for -∞) -/
theorem percentile_le_zero (s : List Int) (hne : s ≠ []) (p : Rat) (hp : p ≤ 0) :
    SD.percentile s (.fin p) = some (SD.min s) ∧ SD.percentile s .ninf = some (SD.min s) := by
  exact ⟨SD.percentile_fin_le_zero s hne hp, SD.percentile_ninf s hne⟩

/-- Percentile equals Max for every p ≥ 100 (and for +∞) -/
theorem percentile_ge_hundred (s : List Int) (hne : s ≠ []) (p : Rat) (hp : 100 ≤ p) :
    SD.percentile s (.fin p) = some (SD.max s) ∧ SD.percentile s .pinf = some (SD.max s) := by
  exact ⟨SD.percentile_fin_ge_hundred s hne hp, SD.percentile_pinf s hne⟩

/-- Percentile stays between Min and Max -/
theorem percentile_between (s : List Int) (hs : Exact s) (hne : s ≠ []) (p : Rat) (v : Int)
    (h : SD.percentile s (.fin p) = some v) : SD.min s ≤ v ∧ v ≤ SD.max s := by
  have hg : SD.Guard s := hs
  match s, hne, hg, h with
  | [x], _, _, h =>
    have hv : x = v := Option.some.inj h
    subst hv
    exact ⟨le_refl _, le_refl _⟩
  | x0 :: x1 :: rest, _, hg, h =>
    rw [SD.percentile_eq_PV hg (by simp) p] at h
    have hv := Option.some.inj h
    subst hv
    exact SD.PV_between hg (by simp) p

/-- Percentile is non-decreasing in p — over all rationals, hence over all binary64 values -/
theorem percentile_mono (s : List Int) (hs : Exact s) (hne : s ≠ []) (p q : Rat) (vp vq : Int) (hpq : p ≤ q)
    (hp : SD.percentile s (.fin p) = some vp) (hq : SD.percentile s (.fin q) = some vq) : vp ≤ vq := by
  have hg : SD.Guard s := hs
  match s, hne, hg, hp, hq with
  | [x], _, _, hp, hq =>
    have h1 : x = vp := Option.some.inj hp
    have h2 : x = vq := Option.some.inj hq
    omega
  | x0 :: x1 :: rest, _, hg, hp, hq =>
    rw [SD.percentile_eq_PV hg (by simp) p] at hp
    rw [SD.percentile_eq_PV hg (by simp) q] at hq
    have h1 := Option.some.inj hp
    have h2 := Option.some.inj hq
    subst h1; subst h2
    exact SD.PV_mono hg (by simp) hpq

/-- Mean lies between Min and Max whenever the exact sum fits in int64 -/
theorem mean_between (s : List Int) (hsorted : s.Pairwise (· ≤ ·)) (hne : s ≠ [])
    (hsum : -(9223372036854775808 : Int) ≤ s.sum ∧ s.sum ≤ 9223372036854775807) :
    SD.min s ≤ SD.mean s ∧ SD.mean s ≤ SD.max s := by
  exact SD.mean_bounds hsorted hne hsum

/-- the published summary passes NN for the label pNN -/
theorem summary_labels : SD.varLabels = [("p25", 25), ("p50", 50), ("p90", 90), ("p99", 99)] := by
  rfl

/-- outside the guard the claim is false: the mean of two samples of 2^62 ns is negative (F-C15-overflow) -/
theorem mean_overflow_witness : SD.mean [4611686018427387904, 4611686018427387904] < SD.min [4611686018427387904, 4611686018427387904] := by
  decide

/-- non-vacuity of the guard and a concrete interpolation: the median of [10,20,40,80] is 30 -/
example : Exact [10, 20, 40, 80] := by
  refine ⟨by decide, by decide, by decide⟩

end CM.Props.C15

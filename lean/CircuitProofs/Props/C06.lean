/-
  Props/C06.lean — return-value contract: errors pass through unchanged, fallbacks decide.
-/
import CircuitProofs.Props.CircuitCommon
import CircuitProofs.Lemmas.Circuit
namespace CM.Props.C06
open CM CM.SpecCircuit CM.Props

/-- MAIN.  For every open/close logic, quiescent state, context and scripts the model's outcome passes the C06
    verdict: run and fallback invoked at most once; nil exactly when the run step returned nil (or the function was
    nil) or an invoked fallback returned nil; a non-bad-request failure goes to an enabled fallback with that very
    error and Execute returns exactly the fallback's result — or a ConcurrencyLimitReached error without invoking
    it when the fallback limit is exhausted; otherwise the run step's own error is returned unchanged; bad requests
    never reach the fallback. -/
theorem c06_holds {σo σc : Type} (O : OpenerI σo) (C : CloserI σc) (c : Circ σo σc) (hq : Quiescent c) (op : ExecOp) :
    verdictC06 c.cfg op (execObs O C c op) = none := by
  sorry

/-- explicitly: Execute returns nil iff the run step returned nil / was nil, or an invoked fallback returned nil -/
theorem nil_iff {σo σc : Type} (O : OpenerI σo) (C : CloserI σc) (c : Circ σo σc) (hq : Quiescent c) (op : ExecOp)
    (hen : c.cfg.disabled = false) :
    let o := execObs O C c op
    o.res = .ret none ↔
      (op.run = none ∨ (o.runCalls = 1 ∧ (runPanics op).isNone ∧ runValue op = none) ∨
       (o.fbCalls = 1 ∧ (fbPanics op).isNone ∧ fbValue op o.runCalls = none)) := by
  sorry

/-- a bad request (whatever its wrapping) is returned as is and never reaches the fallback -/
theorem bad_request_bypasses_fallback {σo σc : Type} (O : OpenerI σo) (C : CloserI σc) (c : Circ σo σc) (op : ExecOp)
    (e : ErrV) (hen : c.cfg.disabled = false) (hbad : e.isBad = true)
    (hres : (execute O C c op.ctx op.run op.fb).2.2 = .ret (some e)) :
    (execute O C c op.ctx op.run op.fb).2.1.fbArg = none := by
  sorry

example : (execute openerI closerI ({ opener := .never, closer := .never } : Circ OState CState) {}
    (some { act := .ret (some (.plain 1 false)) }) (some { act := .ret (some (.plain 2 false)) })).2.2 = .ret (some (.plain 2 false)) := by decide

end CM.Props.C06

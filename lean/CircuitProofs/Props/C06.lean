/-
  Props/C06.lean — return-value contract: errors pass through unchanged, fallbacks decide.
-/
import CircuitProofs.Props.C06Tie
import CircuitProofs.Props.CircuitCommon
import CircuitProofs.Lemmas.CircuitA
namespace CM.Props.C06
open CM CM.SpecCircuit CM.Props

/-- MAIN.  For every open/close logic, quiescent state, context and scripts the model's outcome passes the C06
    verdict: run and fallback invoked at most once; nil exactly when the run step returned nil (or the function was
    nil) or an invoked fallback returned nil; a non-bad-request failure goes to an enabled fallback with that very
    error and Execute returns exactly the fallback's result — or a ConcurrencyLimitReached error without invoking
    it when the fallback limit is exhausted; otherwise the run step's own error is returned unchanged; bad requests
    never reach the fallback. -/
theorem c06_holds {σo σc : Type} (O : OpenerI σo) (C : CloserI σc) (c : Circ σo σc) (hq : Quiescent c) (op : ExecOp) :
    verdictC06 c.cfg op (execObs O C c op) = none := by
  obtain ⟨hq1, hq2⟩ := hq
  by_cases hdis : c.cfg.disabled = true
  · have h1 : ¬ (execObs O C c op).runCalls > 1 := by
      simp only [execObs, mkObs]; split <;> omega
    have h2 : ¬ (execObs O C c op).fbCalls > 1 := by
      simp only [execObs, mkObs]; split <;> omega
    simp [verdictC06, hdis, h1, h2]
  have hen : c.cfg.disabled = false := by simpa using hdis
  obtain ⟨ctx, run, fb⟩ := op
  cases run with
  | none =>
    simp [verdictC06, hen, execObs, mkObs, execute_enabled O C c ctx none fb hen, runStep, execTail, isPanic]
  | some sc =>
    obtain ⟨seen, evs, res1, arg, fevs, res, hrc, e1, e2, e3, e4, e5, hfb⟩ := exec_cases O C c ctx sc fb hq1 hq2 hen
    refine c06_pure c.cfg _ _ ctx sc fb _ _ hen seen evs res1 arg fevs res hrc ?_ e3 ?_ e5 hfb
    · simp only [execObs, mkObs]
      rw [e1]
    · simp only [execObs, mkObs]
      rw [e3]

/-- explicitly: Execute returns nil iff the run step returned nil / was nil, or an invoked fallback returned nil -/
theorem nil_iff {σo σc : Type} (O : OpenerI σo) (C : CloserI σc) (c : Circ σo σc) (hq : Quiescent c) (op : ExecOp)
    (hen : c.cfg.disabled = false) :
    let o := execObs O C c op
    o.res = .ret none ↔
      (op.run = none ∨ (o.runCalls = 1 ∧ (runPanics op).isNone ∧ runValue op = none) ∨
       (o.fbCalls = 1 ∧ (fbPanics op).isNone ∧ fbValue op o.runCalls = none)) := by
  obtain ⟨hq1, hq2⟩ := hq
  obtain ⟨ctx, run, fb⟩ := op
  cases run with
  | none =>
    simp [execObs, mkObs, execute_enabled O C c ctx none fb hen, runStep, execTail]
  | some sc =>
    obtain ⟨seen, evs, res1, arg, fevs, res, hrc, e1, e2, e3, e4, e5, hfb⟩ := exec_cases O C c ctx sc fb hq1 hq2 hen
    refine nil_pure c.cfg _ _ ctx sc fb _ _ seen evs res1 arg fevs res hrc ?_ ?_ e5 hfb
    · simp only [execObs, mkObs]
      rw [e1]
    · simp only [execObs, mkObs]
      rw [e3]

/-- a bad request returned by the run function (whatever its wrapping) is returned as is and never reaches the fallback -/
theorem bad_request_bypasses_fallback {σo σc : Type} (O : OpenerI σo) (C : CloserI σc) (c : Circ σo σc) (op : ExecOp)
    (e : ErrV) (hen : c.cfg.disabled = false) (hbad : e.isBad = true) (hval : runValue op = some e)
    (hinv : (execute O C c op.ctx op.run op.fb).2.1.runSeen.isSome = true) :
    (execute O C c op.ctx op.run op.fb).2.1.fbArg = none ∧
    (execute O C c op.ctx op.run op.fb).2.2 = .ret (some e) := by
  obtain ⟨ctx, run, fb⟩ := op
  cases run with
  | none => simp [runValue] at hval
  | some sc => exact execute_bad_request O C c ctx sc fb e hen hbad hval hinv

example : (execute openerI closerI ({ opener := .never, closer := .never } : Circ OState CState) {}
    (some { act := .ret (some (.plain 1 false)) }) (some { act := .ret (some (.plain 2 false)) })).2.2 = .ret (some (.plain 2 false)) := by decide

end CM.Props.C06

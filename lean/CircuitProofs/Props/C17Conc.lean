/-
  Props/C17Conc.lean — C17 under schedules: any number of threads calling CreateCircuit / GetCircuit / AllCircuits
  on one Manager, every interleaving of the lock-acquire / body / release steps (Conc/Mgr).  The linearisation
  theorem turns the "∀ operation sequences" theorems of C17Seq into "∀ schedules" statements instead of arguing it.
-/
import CircuitModel.Conc.Mgr
import CircuitProofs.Lemmas.ConcMgr
namespace CM.Props.C17
open CM.Conc CM.Conc.Mgr CM.Mgr

/-- LINEARISATION, for every set of jobs and every schedule: the bodies took effect in the order of the ghost log;
    the outputs the threads computed are exactly those of the SEQUENTIAL model run on the jobs in that order, the
    registry is the sequential model's state after them, every thread took effect at most once and with its own job,
    and what a thread returned is what its body computed -/
theorem linearizable (ctors : List Ctor) (jobs : List Op) (sched : List Nat) :
    let c := run sys (init { ctors := ctors } jobs) sched
    let order := c.shared.log.map (·.2.1)
    c.shared.log.map (·.2.2) = CM.Mgr.run { ctors := ctors } order ∧
    c.shared.st = CM.Mgr.exec { ctors := ctors } order ∧
    (c.shared.log.map (·.1)).Nodup ∧
    (∀ e ∈ c.shared.log, jobs[e.1]? = some e.2.1) ∧
    (∀ i o, result c i = some o → ∃ j, jobs[i]? = some j ∧ (i, j, o) ∈ c.shared.log) := by
  exact cmgr_linearizable (cmgr_inv_run ctors jobs sched)

/-- the lock really excludes: a writer is never inside together with a reader; only lock holders run bodies -/
theorem mutual_exclusion (ctors : List Ctor) (jobs : List Op) (sched : List Nat) :
    let c := run sys (init { ctors := ctors } jobs) sched
    (c.shared.writer.isSome → c.shared.readers = []) ∧
    (∀ i l, c.locals[i]? = some l → (l.pc = .locked ∨ ∃ o, l.pc = .ran o) →
        (if isWriter l.job then c.shared.writer = some i else i ∈ c.shared.readers)) := by
  exact cmgr_mutual_exclusion (cmgr_inv_run ctors jobs sched)

/-- ONE WINNER UNDER EVERY SCHEDULE: of all the CreateCircuit calls for one name that have returned, at most one
    returned a circuit -/
theorem one_winner_concurrent (ctors : List Ctor) (jobs : List Op) (sched : List Nat) (name : String) :
    let c := run sys (init { ctors := ctors } jobs) sched
    (winners jobs c name).length ≤ 1 := by
  exact cmgr_one_winner (cmgr_inv_run ctors jobs sched) name

/-- ... and once every creator of the name has returned, exactly one of them won (if there was any) -/
theorem exactly_one_winner_at_quiescence (ctors : List Ctor) (jobs : List Op) (sched : List Nat) (name : String) :
    let c := run sys (init { ctors := ctors } jobs) sched
    allDone c = true → (∃ (k : Nat) (cs : List Layer), jobs[k]? = some (Op.create name cs)) →
    (winners jobs c name).length = 1 := by
  exact cmgr_exactly_one_winner (cmgr_inv_run ctors jobs sched) name

/-- STABLE HANDLE UNDER EVERY SCHEDULE: whatever GetCircuit(name) returned to any thread, if it returned a circuit,
    it is the one the winning CreateCircuit(name) returned -/
theorem get_returns_the_winner (ctors : List Ctor) (jobs : List Op) (sched : List Nat) (name : String)
    (i j : Nat) (cs : List Layer) (w g : Circuit) :
    let c := run sys (init { ctors := ctors } jobs) sched
    jobs[i]? = some (.create name cs) → result c i = some (.created w) →
    jobs[j]? = some (.get name) → result c j = some (.got (some g)) → g = w := by
  exact cmgr_get_winner (cmgr_inv_run ctors jobs sched) name i j cs w g

/-- a loser changed nothing: the registry at any instant holds exactly the circuits returned by `created` bodies -/
theorem registry_is_exactly_the_created (ctors : List Ctor) (jobs : List Op) (sched : List Nat) :
    let c := run sys (init { ctors := ctors } jobs) sched
    c.shared.st.circuits.map (·.2) = c.shared.log.filterMap fun e => match e.2.2 with | .created x => some x | _ => none := by
  exact cmgr_registry (cmgr_inv_run ctors jobs sched)

/-- the manager's lock never deadlocks: while some thread has not returned, some thread can step; and when all
    have returned the lock is free and every job took effect exactly once -/
theorem manager_never_deadlocks (ctors : List Ctor) (jobs : List Op) (sched : List Nat) :
    let c := run sys (init { ctors := ctors } jobs) sched
    (allDone c = false → ∃ i l, c.locals[i]? = some l ∧ (step i c.shared l).isSome) ∧
    (allDone c = true → c.shared.writer = none ∧ c.shared.readers = [] ∧ c.shared.log.length = jobs.length) := by
  exact cmgr_never_deadlocks (cmgr_inv_run ctors jobs sched)

/-- non-vacuity: two racing creators and a reader; the reader sneaks in first, thread 1 wins -/
example :
    let c := run sys (init { ctors := [] } [.create "x" [], .create "x" [], .get "x"]) [2, 2, 1, 2, 1, 1, 1, 0, 0, 0]
    allDone c = true ∧ result c 2 = some (.got none) ∧ result c 0 = some .exists_ ∧
    winners [.create "x" [], .create "x" [], .get "x"] c "x" = [1] := by
  decide

end CM.Props.C17

/-
  Props/C07.lean — deadline and context propagation into the protected function.
  Modelled (trusted): the context package — a derived context carries the parent's values and error state, its
  deadline is the earlier of the two.  Proved here: WHICH context goes where, the `Timeout > 0` guard, the deadline's
  base (the start reading), the release, and that the fallback always gets the caller's own context.
-/
import CircuitProofs.Props.C07Tie
import CircuitProofs.Props.CircuitCommon
import CircuitProofs.Lemmas.CircuitC
namespace CM.Props.C07
open CM CM.SpecCircuit CM.Props

theorem c07_holds {σo σc : Type} (O : OpenerI σo) (C : CloserI σc) (c : Circ σo σc) (op : ExecOp) :
    verdictC07 c.cfg op (execObs O C c op) = none := by
  cases hd : c.cfg.disabled with
  | true => simp [verdictC07, hd]
  | false =>
    have sp := execute_spec O C c op.ctx op.run op.fb hd
    unfold execObs
    dsimp only
    generalize execute O C c op.ctx op.run op.fb = r at *
    have hfb := sp.fbSameCtx
    rcases sp.seen with ⟨h1, h2⟩ | ⟨sc, h1, h2, h3, h4⟩
    · simp [verdictC07, mkObs, hd, h1, hfb]
    · obtain ⟨l, hl⟩ := sp.readings sc h1
      by_cases ht : c.cfg.timeout > 0
      · simp [verdictC07, mkObs, hd, h1, h2, h3, hl, hfb, derivedSeen, ht]
        cases op.ctx.deadline <;> rfl
      · simp [verdictC07, mkObs, hd, h1, h2, h3, hl, hfb, derivedSeen, ht]

/-- explicitly: what the run function is handed -/
theorem ctx_for_run {σo σc : Type} (O : OpenerI σo) (C : CloserI σc) (c : Circ σo σc) (op : ExecOp) (s : Seen)
    (hen : c.cfg.disabled = false) (hs : (execute O C c op.ctx op.run op.fb).2.1.runSeen = some s) :
    (c.cfg.timeout > 0 →
      s.sameAsCaller = false ∧ s.hasVal = op.ctx.hasVal ∧ s.err = op.ctx.err ∧
      s.deadline = some (match op.ctx.deadline with
        | some cd => if cd < c.clock + c.cfg.timeout then cd else c.clock + c.cfg.timeout
        | none => c.clock + c.cfg.timeout) ∧
      (execute O C c op.ctx op.run op.fb).2.1.released = some true) ∧
    (c.cfg.timeout ≤ 0 → s.sameAsCaller = true ∧ s.deadline = op.ctx.deadline ∧
      (execute O C c op.ctx op.run op.fb).2.1.released = none) := by
  have sp := execute_spec O C c op.ctx op.run op.fb hen
  generalize execute O C c op.ctx op.run op.fb = r at *
  rcases sp.seen with ⟨h1, -⟩ | ⟨sc, -, h2, h3, -⟩
  · rw [h1] at hs; cases hs
  · rw [h2] at hs
    cases hs
    refine ⟨fun ht => ?_, fun ht => ?_⟩
    · simp [h3, derivedSeen, ht]
      cases op.ctx.deadline <;> rfl
    · have ht' : ¬ c.cfg.timeout > 0 := by omega
      simp [h3, derivedSeen, ht']

/-- the fallback always receives the caller's original context -/
theorem fallback_gets_caller_ctx {σo σc : Type} (O : OpenerI σo) (C : CloserI σc) (c : Circ σo σc) (op : ExecOp) :
    (execute O C c op.ctx op.run op.fb).2.1.fbSameCtx = true := by
  cases hd : c.cfg.disabled with
  | true =>
    rw [execute_disabled O C c _ _ _ hd]
    cases op.run <;> rfl
  | false => exact (execute_spec O C c op.ctx op.run op.fb hd).fbSameCtx

example : ((execute openerI closerI ({ cfg := { timeout := 100 }, clock := 7, opener := .never, closer := .never } : Circ OState CState)
    { deadline := some 50 } (some {}) none).2.1.runSeen.map (·.deadline)) = some (some 50) := by decide

end CM.Props.C07

/-
  Props/C07.lean — deadline and context propagation into the protected function.
  Modelled (trusted): the context package — a derived context carries the parent's values and error state, its
  deadline is the earlier of the two.  Proved here: WHICH context goes where, the `Timeout > 0` guard, the deadline's
  base (the start reading), the release, and that the fallback always gets the caller's own context.
-/
import CircuitProofs.Props.CircuitCommon
import CircuitProofs.Lemmas.Circuit
namespace CM.Props.C07
open CM CM.SpecCircuit CM.Props

theorem c07_holds {σo σc : Type} (O : OpenerI σo) (C : CloserI σc) (c : Circ σo σc) (op : ExecOp) :
    verdictC07 c.cfg op (execObs O C c op) = none := by
  sorry

/-- explicitly: what the run function is handed -/
theorem ctx_for_run {σo σc : Type} (O : OpenerI σo) (C : CloserI σc) (c : Circ σo σc) (op : ExecOp) (s : Seen)
    (hen : c.cfg.disabled = false) (hs : (execute O C c op.ctx op.run op.fb).2.1.runSeen = some s) :
    (c.cfg.timeout > 0 →
      s.sameAsCaller = false ∧ s.hasVal = op.ctx.hasVal ∧ s.err = op.ctx.err ∧
      s.deadline = some (match op.ctx.deadline with
        | some cd => if cd < c.clock + c.cfg.timeout then cd else c.clock + c.cfg.timeout
        | none => c.clock + c.cfg.timeout) ∧
      (execute O C c op.ctx op.run op.fb).2.1.released = some true) ∧
    (c.cfg.timeout ≤ 0 → s.sameAsCaller = true ∧ s.deadline = op.ctx.deadline ∧
      (execute O C c op.ctx op.run op.fb).2.1.released = none) := by
  sorry

/-- the fallback always receives the caller's original context -/
theorem fallback_gets_caller_ctx {σo σc : Type} (O : OpenerI σo) (C : CloserI σc) (c : Circ σo σc) (op : ExecOp) :
    (execute O C c op.ctx op.run op.fb).2.1.fbSameCtx = true := by
  sorry

example : ((execute openerI closerI ({ cfg := { timeout := 100 }, clock := 7, opener := .never, closer := .never } : Circ OState CState)
    { deadline := some 50 } (some {}) none).2.1.runSeen.map (·.deadline)) = some (some 50) := by decide

end CM.Props.C07

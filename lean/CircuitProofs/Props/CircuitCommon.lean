/- shared definitions for the circuit-level property files (no theorems) -/
import CircuitModel.CircuitOps
import CircuitModel.Logic
namespace CM.Props
open CM CM.SpecCircuit

/-- no call in flight: the state between the calls of a sequential history -/
def Quiescent {σo σc : Type} (c : Circ σo σc) : Prop := c.conc = 0 ∧ c.concFb = 0

/-- the observable outcome of one model Execute -/
def execObs {σo σc : Type} (O : OpenerI σo) (C : CloserI σc) (c : Circ σo σc) (op : ExecOp) : ExecObs :=
  let r := execute O C c op.ctx op.run op.fb
  mkObs r.1 r.2.1 r.2.2 op

/-- strictly alternating continuation of a notification sequence whose previous element was `prev` -/
def alternates (prev : Bool) : List Bool → Bool
  | [] => true
  | b :: r => b != prev && alternates b r

end CM.Props

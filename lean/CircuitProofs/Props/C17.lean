/- Props/C17.lean — property C17: all theorems live in namespace CM.Props.C17, split over two files. -/
import CircuitProofs.Props.C17Tie
import CircuitProofs.Props.C17Seq
import CircuitProofs.Props.C17Conc

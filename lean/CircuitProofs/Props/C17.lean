/-
  Props/C17.lean — Manager: unique names, stable handles, harmless failed creates, precedence.
  Every public method of Manager holds its mutex for its whole body (obligation of C11's lock discipline), so under
  any interleaving the operations take effect in SOME order: the theorems below quantify over ALL operation
  sequences, which covers all schedules of concurrent callers.
-/
import CircuitModel.Manager
import CircuitProofs.Lemmas.Mgr
namespace CM.Props.C17
open CM.Mgr

/-- a CreateCircuit that fails because the name exists changes NOTHING: not the registry, not the stat factory's
    binding, not the counters -/
theorem failed_create_changes_nothing (s : State) (name : String) (cfgs : List Layer) (c : Circuit)
    (h : s.get name = some c) : create s name cfgs = (s, .exists_) := by
  sorry

/-- for every history, the creations of one name succeed EXACTLY ONCE if attempted at all (one winner) -/
def createdCount (name : String) : List Op → List Out → Nat
  | .create n _ :: ops, .created _ :: outs => (if n = name then 1 else 0) + createdCount name ops outs
  | _ :: ops, _ :: outs => createdCount name ops outs
  | _, _ => 0

def attempts (name : String) (ops : List Op) : Nat :=
  (ops.filter fun o => match o with | .create n _ => n = name | _ => false).length

theorem one_winner (ctors : List Ctor) (ops : List Op) (name : String) :
    createdCount name ops (run { ctors := ctors } ops) = (if attempts name ops = 0 then 0 else 1) := by
  sorry

/-- the handle is stable: once created, GetCircuit returns that same circuit after ANY further history -/
theorem get_returns_it (s : State) (name : String) (c : Circuit) (h : s.get name = some c) (ops : List Op) :
    (exec s ops).get name = some c := by
  sorry

/-- AllCircuits holds exactly the successfully created circuits: ids 0 … k-1 where k creations succeeded -/
theorem all_is_exactly_created (ctors : List Ctor) (ops : List Op) :
    let s := exec { ctors := ctors } ops
    (step s .all).2 = .all (List.range s.nextId) ∧ s.circuits.length = s.nextId := by
  sorry

/-- PRECEDENCE: a created circuit's settings are taken, field by field, from the explicit configs in argument
    order, then from the default constructors from last to first, then from the library defaults; booleans are set
    if any layer sets them -/
theorem precedence_holds (s : State) (name : String) (cfgs : List Layer) (h : s.get name = none) :
    ∃ c s', create s name cfgs = (s', .created c) ∧ c.cfg = specCfg s.ctors cfgs := by
  sorry

/-- the stats a StatFactory hands out for a live name are the ones attached to the live circuit, after ANY history
    (with at most one stat factory among the constructors) -/
theorem stats_stay_bound (ctors : List Ctor) (hone : (ctors.filter (· == .statFactory)).length ≤ 1) (ops : List Op)
    (name : String) (c : Circuit) (h : (exec { ctors := ctors } ops).get name = some c) :
    c.stats = (if ctors.contains .statFactory then (exec { ctors := ctors } ops).statFor name else none) := by
  sorry

example : run { ctors := [.layer { timeout := 5 }, .statFactory, .layer { timeout := 7, maxConc := 3 }] }
    [.create "a" [{ maxConc := 9 }], .create "a" [], .stats "a", .get "a"]
  = [.created { id := 0, cfg := { timeout := 7, maxConc := 9, fbMaxConc := 10 }, stats := some 0 }, .exists_, .bound (some true),
     .got (some { id := 0, cfg := { timeout := 7, maxConc := 9, fbMaxConc := 10 }, stats := some 0 })] := by decide

end CM.Props.C17

import CircuitModel.Manager
namespace CM.Props.C17
theorem placeholder : True := trivial
end CM.Props.C17

import CircuitModel.Spec.C20
namespace CM.Props.C20
theorem placeholder : True := trivial
end CM.Props.C20

/- Props/C20.lean — property C20: all theorems live in namespace CM.Props.C20, split over two files. -/
import CircuitProofs.Props.C20Base
import CircuitProofs.Props.C20Stream
import CircuitProofs.Props.C20Tie

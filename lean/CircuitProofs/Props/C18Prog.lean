/-
  Props/C18Prog.lean — the tie of the small-step model Conc/GoWrap.lean to today's gowrapper.go: the concurrency
  structure of the Go source, REGENERATED on every run (tools/extract/chanfacts → Generated/ChanFacts.lean), is the
  program the model was written for (Spec/C18Prog.lean), and has the structural properties the model relies on.
  Every obligation on the regenerated term is closed by `decide` (kernel evaluation): a changed capacity, a missing
  `recover`, a send moved into a defer, a `close` or a select case added / removed / moved, a changed guard of the
  waiter goroutine, or any statement the translator does not understand (`.opaque`) makes this file fail to build.
  The `_sound` theorems say, for ALL programs, what a passed check means.
-/
import CircuitModel.Spec.C18Prog
import Generated.ChanFacts
namespace CM.Props.C18
open CM.ChanLang CM.SpecC18Prog
open CM.Generated

/-- (a) today's gowrapper.go is, statement by statement, the program the model was written for -/
theorem chan_program_is_the_modelled_one : ChanFacts.program = expected := by decide

/-- nothing was left untranslated -/
theorem chan_no_opaque : (ChanFacts.program.all fun f => noOpaque f.body) = true := by decide

/-- both channels have capacity 1 — the model's `Option` buffers -/
theorem chan_capacities_are_the_modelled_ones :
    capacityOf ChanFacts.run.body "runFuncErr" = some 1 ∧ capacityOf ChanFacts.run.body "panicResult" = some 1 := by decide

/-- for ALL programs: a passed `goSendsBuffered` means every channel a `go func` body sends into, plainly or from its
    deferred recover, was made with capacity ≥ 1 -/
theorem goSendsBuffered_sound (p : Block) (h : goSendsBuffered p = true) :
    ∀ b ∈ goBodies p, ∀ ch ∈ sendsOf b, ∃ c, capacityOf p ch = some c ∧ 1 ≤ c := by
  intro b hb ch hch
  have := List.all_eq_true.mp (List.all_eq_true.mp h b hb) ch hch
  split at this
  · exact ⟨_, ‹_›, by simpa using this⟩
  · cases this

/-- the worker never blocks: no receiver is guaranteed (the caller may have left through ctx.Done(), no waiter may have
    been started), so what it sends into must be buffered -/
theorem chan_worker_sends_are_buffered : goSendsBuffered ChanFacts.run.body = true := by decide

theorem Block.of_toList : (b : Block) → Block.of b.toList = b
  | .nil => rfl
  | .cons s r => by simp [Block.toList, Block.of, Block.of_toList r]

/-- for ALL blocks: a worker is exactly a deferred recover-send followed by one plain send into another channel — so it
    sends at most once into each channel, and ends after its one plain send -/
theorem isWorker_sound (b : Block) (h : isWorker b = true) :
    ∃ pan res what, pan ≠ res ∧ b = .of [.deferRecoverSend pan (some (pan ++ " != nil")), .send res what] := by
  unfold isWorker at h
  split at h
  · next pan g res what heq =>
    simp only [Bool.and_eq_true, bne_iff_ne, ne_eq, beq_iff_eq] at h
    refine ⟨pan, res, what, h.1, ?_⟩
    rw [← Block.of_toList b, heq, h.2]
  · cases h

/-- every `go` statement starts a worker (a closure ending after one send, its panic send inside a deferred recover)
    or the waiter (a select with exactly the two receives, then the two closes) -/
theorem chan_every_go_is_worker_or_waiter :
    goroutinesOk ChanFacts.program = true ∧ (goBodies ChanFacts.run.body).length = 1 ∧ isWaiter ChanFacts.waitForErrors = true := by decide

/-- the waiter goroutine is started in one place only, with the two channels, under the guard `g.lostErrors != nil`
    (the model's `waiterSpawned := sc.lostErrors`) -/
theorem chan_waiter_guard_is_lostErrors :
    ChanFacts.program.flatMap (fun f => goCalls f.body) =
      [("g.waitForErrors", ["runFuncErr", "panicResult"], some "g.lostErrors != nil")] := by decide

/-- the caller's select — the only one of `run` — has exactly the three cases ctx.Done() / result / panic -/
theorem chan_caller_select_is_ctx_result_panic :
    (selectsOf ChanFacts.run.body).length = 1 ∧
    (selectsOf ChanFacts.run.body).all (isCallerSelect "g.waitForErrors" "g.lostErrors != nil") = true := by decide

/-- what the caller re-panics was recovered: the panic channel is sent into from the deferred recover only -/
theorem chan_panic_only_from_recover :
    panicChannels ChanFacts.run.body = ["panicResult"] ∧ panicOnlyFromRecover ChanFacts.run.body = true ∧
    plainSendsOf ChanFacts.run.body = ["runFuncErr"] := by decide

/-! the checks are not vacuous: small wrong programs are rejected -/
example : goSendsBuffered (.of [.makeChan "c" 0 none, .goFunc (.of [.send "c" "f()"])]) = false := by decide
example : goSendsBuffered (.of [.makeChan "c" 1 none, .makeChan "p" 0 none,
    .goFunc (.of [.deferRecoverSend "p" (some "p != nil"), .send "c" "f()"])]) = false := by decide
example : isWorker (.of [.deferFunc (.of [.send "c" "f()"])]) = false := by decide                       -- send moved into a defer
example : isWorker (.of [.send "c" "f()"]) = false := by decide                                          -- no recover
example : isWaiter { waitForErrors with body := .of (waitForErrors.body.toList.take 2) } = false := by decide  -- a close removed
example : noOpaque (.of [.goFunc (.of [.opaque "for { c <- 1 }"])]) = false := by decide

end CM.Props.C18

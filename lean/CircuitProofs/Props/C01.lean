/- Props/C01.lean — property C01: all theorems live in namespace CM.Props.C01, split over two files. -/
import CircuitProofs.Props.C01Tie
import CircuitProofs.Props.C01Seq
import CircuitProofs.Props.C01Conc

/-
  Props/C01.lean — an open circuit sheds load: the protected function is not called.
-/
import CircuitProofs.Props.CircuitCommon
import CircuitProofs.Lemmas.Circuit
namespace CM.Props.C01
open CM CM.SpecCircuit CM.Props

/-- MAIN (every open/close logic, every state).  If the call is not admitted (circuit effectively open and the closer
    refuses, or ForceOpen) or the opener vetoes it, the run function is not invoked; the caller gets the open error,
    or the fallback's result with the open error handed to the fallback; a rejection caused by the open state records
    exactly one short-circuit event and no other run event, a veto records none. -/
theorem c01_holds {σo σc : Type} (O : OpenerI σo) (C : CloserI σc) (c : Circ σo σc) (hq : Quiescent c) (op : ExecOp) :
    verdictC01 c.cfg (some (actualAdmission C c)) (actualPrevent O c) op (execObs O C c op) = none := by
  sorry

/-- explicitly, for the open-state rejection -/
theorem open_sheds {σo σc : Type} (O : OpenerI σo) (C : CloserI σc) (c : Circ σo σc) (op : ExecOp) (sc : Script)
    (hen : c.cfg.disabled = false) (hrun : op.run = some sc) (hadm : actualAdmission C c = false) :
    let r := execute O C c op.ctx op.run op.fb
    r.2.1.runSeen = none ∧ runEvents r.2.1.emits = [(.shortCircuit, c.clock, 0)] ∧
      (r.2.2 = .ret (some .circuitOpen) ∨ r.2.1.fbArg = some .circuitOpen ∨ r.2.2 = .ret (some .concLimit)) := by
  sorry

/-- lifted to histories: as long as a history leaves the circuit effectively open and its closer refusing, no run
    function of that history is ever invoked (stated for the next call after ANY history) -/
theorem open_sheds_after_any_history {σo σc : Type} (O : OpenerI σo) (C : CloserI σc) (c0 : Circ σo σc)
    (ops : List (CircOp σo σc)) (op : ExecOp) (sc : Script) (hrun : op.run = some sc) :
    let c := (runOps O C c0 ops).1
    c.cfg.disabled = false → actualAdmission C c = false →
    (execute O C c op.ctx op.run op.fb).2.1.runSeen = none := by
  sorry

example : (execute openerI closerI ({ isOpen := true, opener := .never, closer := .never } : Circ OState CState) {}
    (some { act := .ret none }) none).2.2 = .ret (some .circuitOpen) := by decide

end CM.Props.C01

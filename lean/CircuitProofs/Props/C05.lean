/-
  Props/C05.lean — every attempt is reported exactly once, as the right kind, to all collectors.
  All theorems are quantified over EVERY open/close logic (arbitrary state types and functions).
-/
import CircuitProofs.Props.C05Tie
import CircuitProofs.Props.CircuitCommon
import CircuitProofs.Lemmas.CircuitA
namespace CM.Props.C05
open CM CM.SpecCircuit CM.Props

/-- MAIN.  For every open/close logic, every quiescent circuit state (any configuration, open or closed, any
    override), every caller context, every run/fallback script: the model's observable outcome passes the C05
    verdict — exactly one run event (none only for a veto by the custom opener or a panicking run function), of the
    first applicable kind in the order short-circuit, rejection, bad request, timeout, interrupt, failure, success;
    and exactly one fallback event of the right kind per fallback attempt. -/
theorem c05_holds {σo σc : Type} (O : OpenerI σo) (C : CloserI σc) (c : Circ σo σc) (hq : Quiescent c) (op : ExecOp) :
    verdictC05 c.cfg (some (actualAdmission C c)) (actualPrevent O c) op (execObs O C c op) = none := by
  obtain ⟨hq1, hq2⟩ := hq
  by_cases hdis : c.cfg.disabled = true
  · simp [verdictC05, hdis]
  have hen : c.cfg.disabled = false := by simpa using hdis
  obtain ⟨ctx, run, fb⟩ := op
  cases run with
  | none => simp [verdictC05, hen]
  | some sc =>
    obtain ⟨seen, evs, res1, arg, fevs, res, hrc, e1, e2, e3, e4, e5, hfb⟩ := exec_cases O C c ctx sc fb hq1 hq2 hen
    refine c05_pure c.cfg _ _ ctx sc fb _ _ hen rfl seen evs res1 arg fevs res hrc ?_ e2 e4 hfb
    simp only [execObs, mkObs]
    rw [e1]

/-- explicitly: an enabled circuit, a supplied run function that does not panic, no veto ⇒ exactly one run event -/
theorem exactly_one_run_event {σo σc : Type} (O : OpenerI σo) (C : CloserI σc) (c : Circ σo σc) (op : ExecOp)
    (sc : Script) (hen : c.cfg.disabled = false) (hrun : op.run = some sc) (hnp : ∀ v, sc.act ≠ .panic v)
    (hveto : ¬ (actualAdmission C c = true ∧ actualPrevent O c = true)) :
    (runEvents (execute O C c op.ctx op.run op.fb).2.1.emits).length = 1 := by
  rw [hrun]
  exact execute_one_run_event O C c op.ctx sc op.fb hen hnp hveto

/-- delivered identically: with recording (scripted) logic on both sides, closer and opener each receive exactly
    the run events and notifications the collectors receive, in the same order -/
theorem fanout_identical (c : Circ OState CState) (so : ScriptedO) (sc : ScriptedC)
    (ho : c.opener = .scripted so) (hc : c.closer = .scripted sc) (op : ExecOp) :
    let r := execute openerI closerI c op.ctx op.run op.fb
    let nonFb := r.2.1.emits.filter (fun e => match e with | .fb _ _ _ => false | _ => true)
    ∃ so' sc', r.1.opener = .scripted so' ∧ r.1.closer = .scripted sc' ∧
      so'.log = so.log ++ nonFb ∧ sc'.log = sc.log ++ nonFb := by
  intro r nonFb
  have h0 : LogInv so sc ((c, {}) : St OState CState) := ⟨so, sc, ho, hc, by simp, by simp⟩
  obtain ⟨so', sc', h1, h2, h3, h4⟩ := execute_inv c h0 op.ctx op.run op.fb
  exact ⟨so', sc', h1, h2, h3, h4⟩

/-- non-vacuity: a failing call that also ran past its timeout is a timeout; a bad request wins over the timeout -/
example : (runEvents (execute openerI closerI ({ cfg := { timeout := 5 }, opener := .never, closer := .never } : Circ OState CState)
    {} (some { adv := 10, act := .ret (some (.plain 1 false)) }) none).2.1.emits).map (·.1) = [.timeout] := by decide
example : (runEvents (execute openerI closerI ({ cfg := { timeout := 5 }, opener := .never, closer := .never } : Circ OState CState)
    {} (some { adv := 10, act := .ret (some (.plain 1 true)) }) none).2.1.emits).map (·.1) = [.badRequest] := by decide

end CM.Props.C05

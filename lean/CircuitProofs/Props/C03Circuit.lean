/-
  Props/C03Circuit.lean — recovery at the circuit level: what the circuit does with the closer's answers (every
  closer), and the composition with the hystrix closer.
-/
import CircuitProofs.Props.C03Closer
import CircuitProofs.Props.CircuitCommon
import CircuitProofs.Lemmas.CircuitD
namespace CM.Props.C03
open CM CM.SpecCircuit CM.Props

/-- EVERY CLOSER: on an open, not overridden circuit a call that the closer admits, that is not vetoed / throttled and
    does not panic, closes the circuit exactly when it is classified a success and the closer — having been told of
    it — says ShouldClose; a failed or timed-out probe (or any other kind) leaves it open. -/
theorem closes_iff_closer_says_so {σo σc : Type} (O : OpenerI σo) (C : CloserI σc) (c : Circ σo σc) (op : ExecOp) (sc : Script)
    (hen : c.cfg.disabled = false) (hfo : c.cfg.forceOpen = false) (hfc : c.cfg.forcedClosed = false)
    (hopen : c.isOpen = true) (hrun : op.run = some sc) (hnp : ∀ v, sc.act ≠ .panic v)
    (hallow : (C.allow c.closer c.clock).2 = true)
    (hpv : ∀ s, O.prevent s c.clock = (s, false))
    (hthr : ¬ (c.cfg.maxConc ≥ 0 ∧ c.conc + 1 > c.cfg.maxConc)) :
    let r := execute O C c op.ctx op.run op.fb
    let k := expectedExecutedKind c.cfg op sc
    let doneT := c.clock + 1 + sc.adv + 1
    let total := sc.adv + 1
    let closer1 := (C.allow c.closer c.clock).1
    (r.1.isOpen = false ↔ (k = .success ∧ (C.shouldClose (C.onRun closer1 .success doneT total) doneT).2 = true)) ∧
    (r.1.isOpen = false → Emit.closed doneT ∈ r.2.1.emits) := by
  intro r k doneT total closer1
  exact closes_core O C c op sc hen hfo hfc hopen hrun hnp hallow (hpv c.opener) hthr

/-- while ForceOpen is set nothing closes the circuit -/
theorem forceOpen_blocks_closing {σo σc : Type} (O : OpenerI σo) (C : CloserI σc) (c : Circ σo σc)
    (h : c.cfg.forceOpen = true) (op : CircOp σo σc) (hop : ∀ cfg, op ≠ .setcfg cfg) :
    let r := stepOp O C c op
    (∀ t, Emit.closed t ∉ r.2) ∧ (c.isOpen = true → r.1.isOpen = true) := by
  intro r
  obtain ⟨a, b⟩ := stepOp_forceOpen O C c h op hop
  exact ⟨a, fun hc => b.trans hc⟩

/-- once closed (and not forced open) every call is admitted again -/
theorem closed_admits_all {σo σc : Type} (C : CloserI σc) (c : Circ σo σc) (h : isOpenEff c = false) :
    actualAdmission C c = true := by
  unfold actualAdmission
  rw [h]
  rfl

/-- HYSTRIX CLOSER, sentence 1 at the circuit level: while the gate's nextOpen lies after the call's start reading,
    an open (not forced-closed) circuit does not admit the call, whatever the gate's other state -/
theorem hystrix_not_admitted_before_nextOpen (c : Circ OState CState) (h : HCloser)
    (hc : c.closer = .hystrix h) (hopen : isOpenEff c = true) (hnext : h.tc.nextAfter c.clock = true) :
    actualAdmission closerI c = false := by
  have hcheck : (h.tc.check c.clock).2 = false := by
    unfold TC.check
    rw [hnext]
    split <;> rfl
  unfold actualAdmission
  rw [hopen, hc]
  cases c.cfg.forceOpen with
  | true => rfl
  | false => exact hcheck

/-- HYSTRIX CLOSER, sentence 3 at the circuit level: the closer's ShouldClose after being told of a success is
    `succ + 1 ≥ required` -/
theorem hystrix_shouldClose_after_success (h : HCloser) (t d : Int) :
    (closerI.shouldClose (closerI.onRun (.hystrix h) .success t d) t).2 = decide (h.succ + 1 ≥ h.required) := by
  rfl

/-- and a failure or timeout resets the count, bad requests / interrupts / rejections / short-circuits leave it -/
theorem hystrix_count_moves (h : HCloser) (k : Kind) (t d : Int) :
    closerI.onRun (.hystrix h) k t d = .hystrix
      (match k with
       | .success => { h with succ := h.succ + 1 }
       | .failure | .timeout => { h with succ := 0 }
       | _ => h) := by
  cases k <;> rfl

end CM.Props.C03

/-
  Props/C16.lean — property C16 (sequential part): TimedCheck never lets more than its budget through per sleep
  period.  Property theorems only; helper lemmas live in CircuitProofs/Lemmas/TC.lean.
-/
import CircuitModel.Spec.C16
import CircuitProofs.Lemmas.TC
namespace CM.Props.C16
open CM CM.SpecC16

/-- the trace the model produces for an op sequence -/
def trace (ops : List TCOp) : List (TCOp × TCOut) := ops.zip (({} : TC).run ops)

/-- MAIN.  For every op sequence — timestamps in any order, any budget including 0 and negatives, live changes of
    the sleep duration and of the budget, callbacks of any arming firing at any moment (early, late, stale, twice) —
    the model's answers satisfy the property monitor: no check succeeds inside the sleep period of the current
    arming, and once the current arming's callback has fired every eligible check succeeds. -/
theorem model_satisfies_spec (ops : List TCOp) : holds (trace ops) = true := by
  exact Sim.monitor_run ops {} {} Sim.init

/-- Sentence 1, explicitly.  After an arming at `t` (SleepStart, or the re-arming done by a budget-exhausting check)
    with sleep duration `c.sleep` in force, whatever callbacks fire, whatever settings change and however many
    checks with timestamps inside the period are attempted, `Check now` is false for `now < t + sleep`. -/
def insidePeriod (limit : Int) : TCOp → Bool
  | .start _ => false
  | .check t' => decide (t' < limit)
  | _ => true

theorem sleep_respected (c : TC) (t : Int) (ops : List TCOp) (now : Int)
    (hops : ∀ op ∈ ops, insidePeriod (t + c.sleep) op = true) (hnow : now < t + c.sleep) :
    (((c.resetOpen t).exec ops).check now).2 = false := by
  have hinv : ((c.resetOpen t).exec ops).nextOpen = some (t + c.sleep) := by
    refine TC.exec_induction (fun c1 => c1.nextOpen = some (t + c.sleep))
      (fun op => insidePeriod (t + c.sleep) op = true) ?_ ops (c.resetOpen t) hops rfl
    intro c1 op hok h1
    apply TC.step_nextOpen_inside c1 (t + c.sleep) op h1
    · intro t' heq; subst heq; simp [insidePeriod] at hok
    · intro t' heq; subst heq; simpa [insidePeriod] using hok
  rw [TC.check_snd_false_iff]
  right
  simp [TC.nextAfter, hinv, hnow]

/-- a refused check changes nothing -/
theorem refused_check_is_noop (c c' : TC) (now : Int) (h : c.check now = (c', false)) : c' = c := by
  have h2 : (c.check now).2 = false := by rw [h]
  rw [TC.check_refused c now ((TC.check_snd_false_iff c now).mp h2)] at h
  exact (congrArg Prod.fst h).symm

/-- a successful check either just counts, or (when it uses up the budget) re-arms from its own timestamp -/
theorem successful_check_counts_or_rearms (c c' : TC) (now : Int) (h : c.check now = (c', true)) :
    (c'.count = c.count + 1 ∧ c'.count < c.allow ∧ c'.armed = c.armed ∧ c'.nextOpen = c.nextOpen) ∨
    (c.count + 1 ≥ c.allow ∧ c'.count = 0 ∧ c'.armed.length = c.armed.length + 1 ∧
      c'.nextOpen = some (now + c.sleep) ∧ c'.fastFail = true) := by
  have h2 : ¬ ((c.check now).2 = false) := by rw [h]; simp
  rw [TC.check_snd_false_iff] at h2
  have hf : c.fastFail = false := by
    cases hc : c.fastFail <;> simp [hc] at h2 ⊢
  have hn : c.nextAfter now = false := by
    cases hc : c.nextAfter now <;> simp [hc] at h2 ⊢
  rw [TC.check_eligible c now hf hn] at h
  split at h
  · next hge =>
    right
    have hc' := (congrArg Prod.fst h).symm
    subst hc'
    exact ⟨hge, rfl, by simp [TC.resetOpen], rfl, rfl⟩
  · next hlt =>
    left
    have hc' := (congrArg Prod.fst h).symm
    subst hc'
    exact ⟨rfl, by simpa using hlt, rfl, rfl⟩

/-- Sentence 2 as an invariant: with a static budget `k`, the number of successes since the last arming
    (`count`; see the two lemmas above) never reaches max(1,k) — the success that would reach it re-arms. -/
theorem budget_invariant (k : Int) (ops : List TCOp) (hstatic : ∀ op ∈ ops, ∀ j, op ≠ .setAllow j) :
    let c := ({ allow := k } : TC).exec ops
    0 ≤ c.count ∧ c.count < max 1 k := by
  have hb : TC.Budget k (({ allow := k } : TC).exec ops) := by
    refine TC.exec_induction (TC.Budget k) (fun op => ∀ j, op ≠ .setAllow j) ?_ ops _ hstatic ?_
    · intro c op hop hc; exact hc.step op hop
    · exact ⟨rfl, Int.le_refl 0, by show (0 : Int) < max 1 k; omega⟩
  exact hb.2

/-- a callback left over from an older arming is harmless: firing it changes nothing -/
theorem stale_callback_harmless (ops : List TCOp) (k : Nat) :
    let c := ({} : TC).exec ops
    k + 1 < c.armed.length → c.fire k = c := by
  intro c hk
  have hwf : c.WF := TC.WF.init.exec ops
  rw [hwf.fire_eq]
  have : ¬ k + 1 = c.armed.length := by omega
  simp [this]

/-- Sentence 3 (exactness), explicitly: once the current arming's callback has fired, a check at or after
    `nextOpen` succeeds. -/
theorem eligible_check_succeeds (ops : List TCOp) (now : Int) :
    let c := ({} : TC).exec ops
    c.fastFail = false → c.nextAfter now = false → (c.check now).2 = true := by
  intro c hf hn
  rw [TC.check_eligible c now hf hn]
  split <;> rfl

/-- non-vacuity: budget 2, sleep 60: armed at 0, callback fires, two successes at 60/61 re-arm to 121, a stale
    callback (arming 0) fires without effect, the check at 100 is refused -/
example : ({} : TC).run [.setSleep 60, .setAllow 2, .start 0, .check 10, .fire 0, .check 59, .check 60, .check 61,
      .fire 0, .check 100, .fire 1, .check 120, .check 121]
    = [.ok, .ok, .ok, .bool false, .ok, .bool false, .bool true, .bool true, .ok, .bool false, .ok, .bool false, .bool true] := by
  decide

end CM.Props.C16

/-
  Props/C02.lean — built-in openers trip exactly on their documented threshold.
-/
import CircuitProofs.Props.C02Tie
import CircuitModel.OpenerOps
import CircuitModel.CircuitOps
import CircuitProofs.Lemmas.RC
import CircuitProofs.Props.C13
import CircuitProofs.Lemmas.Opener
namespace CM.Props.C02
open CM CM.SpecC02 CM.SpecCircuit

/-- HYSTRIX.  For every bucket count and width, every threshold and volume (live changes included) and every history
    of events, transitions and earlier queries whose timestamps are non-negative and non-decreasing, the opener
    model (two ring-buffer counters) answers ShouldOpen exactly as the property dictates: attempts ≥ volume (and at
    least one) and 100·errors ≥ pct·attempts, counting successes/failures/timeouts (errors: failures/timeouts)
    completed inside the rolling window since the last transition.  Every (errors, attempts) pair — integers, no
    floating point. -/
theorem hystrix_opens_iff (n : Nat) (dur pct vol : Int) (hn : 0 < n) (hw : 0 < tdiv dur n) (ops : List OOp) (t : Int)
    (hmono : monotone (.should t :: ops.reverse) = true) :
    (ostep (oexec (.hystrix (HOpener.new n dur pct vol)) ops) (.should t)).2
      = some (hystrixShould n (tdiv dur n) pct vol ops.reverse t) := by
  obtain ⟨o', e, I⟩ := HInv.exec hn ops _ [] (HInv.new n dur pct vol hn)
  rw [List.append_nil] at I
  have hm : (decide (0 ≤ t) && (ops.reverse.all fun o => match o.time with | some t' => decide (t' ≤ t) | none => true)
      && monotone ops.reverse) = true := hmono
  rw [Bool.and_eq_true, Bool.and_eq_true, decide_eq_true_iff] at hm
  rw [e]
  show some (o'.shouldOpen t).2 = _
  rw [I.answer hn t hm.1.1 (ohi_le_of_all hw t _ hm.1.2)]

/-- HYSTRIX, ANY ORDER.  The same for histories in ANY timestamp order (completions stamped late — by less or by
    more than a window —, earlier queries and view reads at arbitrary times), provided the query itself is asked at a
    time not before anything presented so far: events stamped a full window or more behind are ignored, the others
    count.  (`hystrix_opens_iff` is the special case of non-decreasing histories.) -/
theorem hystrix_opens_iff_any_order (n : Nat) (dur pct vol : Int) (hn : 0 < n) (hw : 0 < tdiv dur n) (ops : List OOp) (t : Int)
    (hl : latest ops.reverse t = true) :
    (ostep (oexec (.hystrix (HOpener.new n dur pct vol)) ops) (.should t)).2
      = some (hystrixShould n (tdiv dur n) pct vol ops.reverse t) := by
  obtain ⟨o', e, I⟩ := HInv.exec hn ops _ [] (HInv.new n dur pct vol hn)
  rw [List.append_nil] at I
  unfold latest at hl
  rw [Bool.and_eq_true, decide_eq_true_iff] at hl
  rw [e]
  show some (o'.shouldOpen t).2 = _
  rw [I.answer hn t hl.1 (ohi_le_of_all hw t _ hl.2)]

/-- a late-stamped failure exactly one window behind the newest bucket is ignored; one bucket less behind counts -/
example : (ostep (oexec (.hystrix (HOpener.new 4 40 50 1)) [.ev .success 45, .ev .failure 5]) (.should 45)).2 = some false ∧
          (ostep (oexec (.hystrix (HOpener.new 4 40 50 1)) [.ev .success 45, .ev .failure 15]) (.should 45)).2 = some true := by
  decide

/-- CONSECUTIVE.  For every threshold (live changes included) and every history, in any timestamp order: ShouldOpen
    iff the outcomes since the last success or transition that count (failures, timeouts) number ≥ ErrorThreshold. -/
theorem consecutive_opens_iff (thr : Int) (ops : List OOp) (t : Int) :
    (ostep (oexec (.consec { threshold := thr }) ops) (.should t)).2 = some (consecShould thr ops.reverse) := by
  have e := consec_exec thr ops []
  rw [List.append_nil] at e
  show (ostep (oexec (.consec { count := trailingErrors (sinceTransition []), threshold := consecThreshold thr [] }) ops)
    (.should t)).2 = _
  rw [e]
  rfl

/-- bad requests, caller interrupts, short-circuits and concurrency rejections never move either opener -/
theorem neutral_events_inert_hystrix (o : HOpener) (k : Kind) (t : Int)
    (hk : k = .badRequest ∨ k = .interrupt ∨ k = .shortCircuit ∨ k = .reject) :
    ostep (.hystrix o) (.ev k t) = (.hystrix o, none) := by
  rcases hk with rfl | rfl | rfl | rfl <;> rfl
theorem neutral_events_inert_consec (o : ConsecOpener) (k : Kind) (t : Int)
    (hk : k = .badRequest ∨ k = .interrupt ∨ k = .shortCircuit ∨ k = .reject) :
    ostep (.consec o) (.ev k t) = (.consec o, none) := by
  rcases hk with rfl | rfl | rfl | rfl <;> rfl

/-- the spec side of "never move in either direction": neutral kinds change no answer of the specification -/
theorem neutral_events_inert_spec (n : Nat) (w pct vol thr : Int) (h : List OOp) (k : Kind) (t t' : Int)
    (hk : k = .badRequest ∨ k = .interrupt ∨ k = .shortCircuit ∨ k = .reject) :
    hystrixShould n w pct vol (.ev k t :: h) t' = hystrixShould n w pct vol h t' ∧
    consecShould thr (.ev k t :: h) = consecShould thr h := by
  rcases hk with rfl | rfl | rfl | rfl <;> exact ⟨rfl, rfl⟩

/-- READING THE VIEW IS INERT: a JSON / expvar read of the opener (taken while the injected clock shows any `t`)
    changes no answer of the specification — and `hystrix_opens_iff` above holds for histories that contain such
    reads anywhere, so the code's later decisions are those of the history without them -/
theorem view_reads_inert_spec (n : Nat) (w pct vol thr : Int) (h : List OOp) (t t' : Int) :
    hystrixShould n w pct vol (.view t :: h) t' = hystrixShould n w pct vol h t' ∧
    consecShould thr (.view t :: h) = consecShould thr h := ⟨rfl, rfl⟩

/-- CIRCUIT LEVEL, every opener: a closed, not-overridden circuit opens at the completion of a call exactly when
    the call is classified failure or timeout and the opener — having been told of it — says ShouldOpen.
    Here the call runs (closed circuit, no veto, not throttled), returns `ret` without panicking. -/
theorem opens_iff_opener_says_so {σo σc : Type} (O : OpenerI σo) (C : CloserI σc) (c : Circ σo σc) (op : ExecOp) (sc : Script)
    (hen : c.cfg.disabled = false) (hfo : c.cfg.forceOpen = false) (hfc : c.cfg.forcedClosed = false)
    (hclosed : c.isOpen = false) (hrun : op.run = some sc) (hnp : ∀ v, sc.act ≠ .panic v)
    (hpv : O.prevent c.opener c.clock = (c.opener, false))
    (hthr : ¬ (c.cfg.maxConc ≥ 0 ∧ c.conc + 1 > c.cfg.maxConc)) :
    let r := execute O C c op.ctx op.run op.fb
    let k := expectedExecutedKind c.cfg op sc
    let doneT := c.clock + 1 + sc.adv + 1
    let total := sc.adv + 1
    (r.1.isOpen = true ↔ ((k = .failure ∨ k = .timeout) ∧ (O.shouldOpen (O.onRun c.opener k doneT total) doneT).2 = true)) ∧
    (r.1.isOpen = true → Emit.opened doneT ∈ r.2.1.emits) := by
  exact opens_core O C c op sc hen hfo hfc hclosed hrun hnp hpv hthr

/-- non-vacuity / the old defect's inputs: 57 errors of 100 at 57 %, 29 of 100 at 29 % open -/
example : (ostep (oexec (.hystrix (HOpener.new 5 50 29 100))
    ((List.replicate 29 (.ev .failure 65)) ++ (List.replicate 71 (.ev .success 65)))) (.should 65)).2 = some true := by decide +kernel

end CM.Props.C02

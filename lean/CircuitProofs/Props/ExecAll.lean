/-
  Props/ExecAll.lean — the whole `Execute` (Conc/Exec: c.run, Execute's decision, c.fallback) for any number of concurrent
  callers racing OpenCircuit / CloseCircuit and operators that store, at arbitrary moments, EVERY setting the model reads
  (override flags, kill switch, run limit, Fallback.Disabled, fallback limit), EVERY schedule:
  what the caller gets is what the return-value contract says (C06), the fallback tells its collectors exactly one thing
  per attempted fallback and is invoked exactly once iff it decided the answer (C05), a bad request and a nil never reach
  it (C06), both gauges are never negative and read zero once everybody has returned — by return, refusal or PANIC of
  either function (C04, C10) —, never more fallbacks in flight than the fallback limit (C04), the run side keeps telling
  exactly the right run events (C05), nothing deadlocks.
-/
import CircuitModel.Conc.Exec
import CircuitProofs.Props.RunDynAll
import CircuitProofs.Lemmas.Exec
namespace CM.Props.ExecAll
open CM.Conc CM.Conc.Exec
open CM.Lemmas.ExecL

/-- the return-value contract, as a relation between what `c.run` returned (`r`, with the script saying whether that
    was an error and whether a bad request), the fallback's script, the settings, and what Execute's caller gets -/
def contract (sc : Run.Script) (fb : FbScript) (mayBeDisabled : Bool) (mayBeLimited : Bool) (r : Run.Res) (o : Out) : Prop :=
  match r with
  | .manual => o = .manual
  | .panicked => o = .runPanic
  | _ =>
    if !runFailed sc r then o = .ok
    else if runBad sc r then o = .runErr
    else if !fb.present then o = .runErr
    else (o = .runErr ∧ mayBeDisabled = true) ∨ (o = .limit ∧ mayBeLimited = true) ∨ (o = .fbPanic ∧ fb.panics = true) ∨
         (o = .fbOk ∧ fb.panics = false ∧ fb.fails = false) ∨ (o = .fbErr ∧ fb.panics = false ∧ fb.fails = true)

/-- values a setting can ever have: the initial one or one an operator of the job list installs -/
def everDisabled (dis : Bool) (jobs : List Exec.Job) : Bool :=
  dis || jobs.any fun j => match j with | .reconfigure cfg => cfg.dis | _ => false
def alwaysDisabled (dis : Bool) (jobs : List Exec.Job) : Bool :=
  dis && jobs.all fun j => match j with | .reconfigure cfg => cfg.dis | _ => true
def everFbDisabled (fd : Bool) (jobs : List Exec.Job) : Bool :=
  fd || jobs.any fun j => match j with | .reconfigure cfg => cfg.fbDis | _ => false
def someFbLimitNonneg (fm : Int) (jobs : List Exec.Job) : Bool :=
  decide (0 ≤ fm) || jobs.any fun j => match j with | .reconfigure cfg => decide (0 ≤ cfg.fbLimit) | _ => false
def largestFbLimit (fm : Int) (jobs : List Exec.Job) : Int :=
  jobs.foldl (fun acc j => match j with | .reconfigure cfg => max acc cfg.fbLimit | _ => acc) fm

/-- what the fallback collectors must have been told, given the outcome -/
def expectedFbEvents : Out → List FbEv
  | .limit => [.reject]
  | .fbOk => [.success]
  | .fbErr => [.failure]
  | _ => []

theorem return_value_contract (fo fc io : Bool) (m fm : Int) (fd : Bool) (dis : Bool) (jobs : List Exec.Job) (sched : List Nat) (i : Nat)
    (sc : Run.Script) (fb : FbScript) (o : Out) :
    let c := run Exec.sys (Exec.init fo fc io m fm fd jobs dis) sched
    everDisabled dis jobs = false → jobs[i]? = some (.exec sc fb) → Exec.outOf c i = some o →
    ∃ r, Exec.runResOf c i = some r ∧ contract sc fb (everFbDisabled fd jobs) (someFbLimitNonneg fm jobs) r o ∧ Exec.directCount c i = 0 := by
  intro c hd hj ho
  obtain ⟨r, hr, hc, hdc⟩ := ex_return_value jobs dis fd fm c (ex_Inv_run fo fc io m fm fd jobs dis sched) hd i sc fb o hj ho
  refine ⟨r, hr, ?_, hdc⟩
  cases r <;> exact hc

theorem exactly_the_right_fallback_events (fo fc io : Bool) (m fm : Int) (fd : Bool) (dis : Bool) (jobs : List Exec.Job) (sched : List Nat) (i : Nat) (o : Out) :
    let c := run Exec.sys (Exec.init fo fc io m fm fd jobs dis) sched
    Exec.outOf c i = some o →
    Exec.fbEventsOf c i = expectedFbEvents o ∧
    Exec.fbInvokedCount c i = (match o with | .fbOk | .fbErr | .fbPanic => 1 | _ => 0) := by
  intro c ho
  have he := ex_done_events jobs dis fd fm c (ex_FInv_run fo fc io m fm fd jobs dis sched) i o ho
  rw [ex_fbEventsOf, ex_fbInvokedCount, he]
  cases o <;> exact ⟨rfl, rfl⟩

theorem at_most_one_fallback_event_ever (fo fc io : Bool) (m fm : Int) (fd : Bool) (dis : Bool) (jobs : List Exec.Job) (sched : List Nat) (i : Nat) :
    let c := run Exec.sys (Exec.init fo fc io m fm fd jobs dis) sched
    (Exec.fbEventsOf c i).length ≤ 1 ∧ Exec.fbInvokedCount c i ≤ 1 := by
  intro c
  rw [ex_fbEventsOf, ex_fbInvokedCount]
  rcases ex_shapes jobs dis fd fm c (ex_FInv_run fo fc io m fm fd jobs dis sched) i with e | e | e | e | e <;> rw [e] <;>
    exact ⟨by decide, by decide⟩

/-- a bad request, a nil and a panic of the run function never reach the fallback, whatever is being reconfigured -/
theorem fallback_not_consulted (fo fc io : Bool) (m fm : Int) (fd : Bool) (dis : Bool) (jobs : List Exec.Job) (sched : List Nat) (i : Nat)
    (sc : Run.Script) (fb : FbScript) (r : Run.Res) :
    let c := run Exec.sys (Exec.init fo fc io m fm fd jobs dis) sched
    jobs[i]? = some (.exec sc fb) → Exec.runResOf c i = some r →
    (runFailed sc r = false ∨ runBad sc r = true ∨ r = .panicked ∨ fb.present = false) →
    Exec.fbInvokedCount c i = 0 ∧ Exec.fbEventsOf c i = [] := by
  intro c hj hr h
  have he := ex_not_consulted jobs dis fd fm c (ex_FInv_run fo fc io m fm fd jobs dis sched) i sc fb r hj hr h
  rw [ex_fbEventsOf, ex_fbInvokedCount, he]
  exact ⟨rfl, rfl⟩

/-- the run side is untouched by what follows it: each finished `c.run` told the run collectors exactly what its outcome calls for -/
theorem exactly_the_right_run_events (fo fc io : Bool) (m fm : Int) (fd : Bool) (dis : Bool) (jobs : List Exec.Job) (sched : List Nat) (i : Nat)
    (sc : Run.Script) (fb : FbScript) (r : Run.Res) :
    let c := run Exec.sys (Exec.init fo fc io m fm fd jobs dis) sched
    jobs[i]? = some (.exec sc fb) → Exec.runResOf c i = some r →
    CM.Props.RunAll.expectedEvents sc r (Exec.runEventsOf c i) ∧
    Exec.runInvokedCount c i = (match r with | .ran _ | .panicked => 1 | _ => 0) := by
  intro c hj hr
  obtain ⟨h1, h2⟩ := ex_run_events jobs c (ex_EInv_run fo fc io m fm fd jobs dis sched) i sc fb r hj hr
  refine ⟨?_, h2⟩
  cases r <;> exact h1

theorem gauges_never_negative (fo fc io : Bool) (m fm : Int) (fd : Bool) (dis : Bool) (jobs : List Exec.Job) (sched : List Nat) :
    let c := run Exec.sys (Exec.init fo fc io m fm fd jobs dis) sched
    0 ≤ c.shared.r.gauge ∧ 0 ≤ c.shared.fbGauge := by
  intro c
  constructor
  · have hg : c.shared.r.gauge = _ := ex_GInv_run fo fc io m fm fd jobs dis sched
    rw [hg]
    exact CM.Lemmas.RunDynL.rd_cnt_nonneg _
  · obtain ⟨reg, G⟩ := ex_BInv_run fo fc io m fm fd jobs dis sched
    have h1 : c.shared.fbGauge = (reg.length : Int) := G.gauge
    omega

theorem quiescent_gauges_zero (fo fc io : Bool) (m fm : Int) (fd : Bool) (dis : Bool) (jobs : List Exec.Job) (sched : List Nat)
    (hq : Exec.allDone (run Exec.sys (Exec.init fo fc io m fm fd jobs dis) sched) = true) :
    let c := run Exec.sys (Exec.init fo fc io m fm fd jobs dis) sched
    c.shared.r.gauge = 0 ∧ c.shared.fbGauge = 0 := by
  intro c
  constructor
  · have hg : c.shared.r.gauge = _ := ex_GInv_run fo fc io m fm fd jobs dis sched
    rw [hg]
    exact ex_allDone_cnt jobs dis fd fm c (ex_FInv_run fo fc io m fm fd jobs dis sched) hq
  · obtain ⟨reg, G⟩ := ex_BInv_run fo fc io m fm fd jobs dis sched
    have h1 : c.shared.fbGauge = (reg.length : Int) := G.gauge
    have h2 : reg.length = (c.locals.map ex_glL).countP inRegion := G.len
    have h3 : (c.locals.map ex_glL).countP inRegion = 0 := ex_allDone_inRegion c hq
    omega

/-- … the LARGEST fallback limit ever in force, when none of them is negative (= unlimited): each admission is decided against
    one of them, never a mixture -/
theorem fallbacks_in_flight_le_limit (fo fc io : Bool) (m fm : Int) (fd : Bool) (dis : Bool) (hfm : 0 ≤ fm) (jobs : List Exec.Job) (sched : List Nat)
    (hj : ∀ j ∈ jobs, match j with | .reconfigure cfg => 0 ≤ cfg.fbLimit | _ => True) :
    (Exec.fbInFlight (run Exec.sys (Exec.init fo fc io m fm fd jobs dis) sched) : Int) ≤ largestFbLimit fm jobs := by
  obtain ⟨reg, G⟩ := (ex_LInv_run fo fc io m fm fd jobs dis sched hfm hj).b
  rw [ex_fbInFlight_eq]
  exact G.inFlight_le (Int.le_trans hfm (ex_largest_ge fm jobs))

theorem negative_fallback_limit_refuses_nobody (fo fc io : Bool) (m fm : Int) (fd : Bool) (dis : Bool) (jobs : List Exec.Job) (hfm : someFbLimitNonneg fm jobs = false) (sched : List Nat) (i : Nat) :
    Exec.outOf (run Exec.sys (Exec.init fo fc io m fm fd jobs dis) sched) i ≠ some .limit := by
  exact ex_never_limit jobs dis fd fm _ (ex_FInv_run fo fc io m fm fd jobs dis sched) hfm i

theorem never_deadlocks (fo fc io : Bool) (m fm : Int) (fd : Bool) (dis : Bool) (jobs : List Exec.Job) (sched : List Nat) :
    let c := run Exec.sys (Exec.init fo fc io m fm fd jobs dis) sched
    Exec.allDone c = false → ∃ i l, c.locals[i]? = some l ∧ (Exec.step i c.shared l).isSome := by
  intro c hnd
  exact ex_progress jobs dis fd fm io c (ex_FInv_run fo fc io m fm fd jobs dis sched)
    (ex_TInv_run fo fc io m fm fd jobs dis sched) hnd

/-- the kill switch: with `Disabled` on — and every reconfiguration keeping it on —, Execute is the run function called directly — its answer, its error or its panic
    straight to the caller, exactly one direct call, no admission, no run event, no fallback, no fallback event, and both
    gauges stay at zero whatever everybody is doing (OpenCircuit / CloseCircuit and operators included) -/
theorem disabled_is_pass_through (fo fc io : Bool) (m fm : Int) (fd : Bool) (jobs : List Exec.Job) (sched : List Nat)
    (hd : alwaysDisabled true jobs = true) :
    let c := run Exec.sys (Exec.init fo fc io m fm fd jobs true) sched
    c.shared.r.gauge = 0 ∧ c.shared.fbGauge = 0 ∧
    ∀ i sc fb, jobs[i]? = some (.exec sc fb) →
      Exec.runEventsOf c i = [] ∧ Exec.runInvokedCount c i = 0 ∧ Exec.fbEventsOf c i = [] ∧ Exec.fbInvokedCount c i = 0 ∧
      Exec.directCount c i ≤ 1 ∧
      ∀ o, Exec.outOf c i = some o →
        o = (if sc.panics then .runPanic else if sc.failed then .runErr else .ok) ∧ Exec.directCount c i = 1 := by
  intro c
  have I := ex_Inv_run fo fc io m fm fd jobs true sched
  obtain ⟨g1, g2⟩ := ex_kill_gauges jobs true fd fm c I hd
  refine ⟨?_, ?_, ?_⟩
  · have hg : c.shared.r.gauge = _ := ex_GInv_run fo fc io m fm fd jobs true sched
    rw [hg]
    exact g1
  · obtain ⟨reg, G⟩ := ex_BInv_run fo fc io m fm fd jobs true sched
    have h1 : c.shared.fbGauge = (reg.length : Int) := G.gauge
    have h2 : reg.length = (c.locals.map ex_glL).countP inRegion := G.len
    omega
  · intro i sc fb hj
    obtain ⟨he, hdc, _, ho⟩ := ex_kill_exec jobs true fd fm c I.F hd i sc fb hj
    have hr := ex_kill_run_events jobs true fd fm c I hd i sc fb hj
    have h1 : Exec.runEventsOf c i = (CM.Lemmas.RunEvents.re_evs i c.shared.r.events).filter
        (fun e => e != .invoked && e != .vetoed) := CM.Lemmas.RunDynL.rd_eventsOf (ex_proj c) i
    have h2 : Exec.runInvokedCount c i = ((CM.Lemmas.RunEvents.re_evs i c.shared.r.events).filter
        (fun e => e == .invoked)).length := CM.Lemmas.RunDynL.rd_invokedCount (ex_proj c) i
    refine ⟨by rw [h1, hr]; rfl, by rw [h2, hr]; rfl, by rw [ex_fbEventsOf, he]; rfl,
      by rw [ex_fbInvokedCount, he]; rfl, hdc, ?_⟩
    intro o hoo
    exact ho o hoo

/-- a LIVE kill switch is read once per call: every finished Execute went EITHER straight to its run function (one direct
    call, no run event, no fallback event, nothing invoked through the circuit) OR through the circuit (no direct call) —
    never a mixture, whatever the operators were storing meanwhile -/
theorem kill_switch_old_or_new (fo fc io : Bool) (m fm : Int) (fd : Bool) (dis : Bool) (jobs : List Exec.Job) (sched : List Nat) (i : Nat)
    (sc : Run.Script) (fb : FbScript) (o : Out) :
    let c := run Exec.sys (Exec.init fo fc io m fm fd jobs dis) sched
    jobs[i]? = some (.exec sc fb) → Exec.outOf c i = some o →
    (Exec.directCount c i = 1 ∧ Exec.runEventsOf c i = [] ∧ Exec.runInvokedCount c i = 0 ∧ Exec.fbEventsOf c i = [] ∧
       Exec.fbInvokedCount c i = 0 ∧ o = (if sc.panics then .runPanic else if sc.failed then .runErr else .ok) ∧ everDisabled dis jobs = true) ∨
    (Exec.directCount c i = 0 ∧ ∃ r, Exec.runResOf c i = some r ∧
       contract sc fb (everFbDisabled fd jobs) (someFbLimitNonneg fm jobs) r o) := by
  intro c hj ho
  have I := ex_Inv_run fo fc io m fm fd jobs dis sched
  rcases ex_old_or_new jobs dis fd fm c I i sc fb o hj ho with ⟨hdc, hr, he, hoo, hed⟩ | ⟨hdc, r, hr, hc⟩
  · have h1 : Exec.runEventsOf c i = (CM.Lemmas.RunEvents.re_evs i c.shared.r.events).filter
        (fun e => e != .invoked && e != .vetoed) := CM.Lemmas.RunDynL.rd_eventsOf (ex_proj c) i
    have h2 : Exec.runInvokedCount c i = ((CM.Lemmas.RunEvents.re_evs i c.shared.r.events).filter
        (fun e => e == .invoked)).length := CM.Lemmas.RunDynL.rd_invokedCount (ex_proj c) i
    exact Or.inl ⟨hdc, by rw [h1, hr]; rfl, by rw [h2, hr]; rfl, by rw [ex_fbEventsOf, he]; rfl,
      by rw [ex_fbInvokedCount, he]; rfl, hoo, hed⟩
  · refine Or.inr ⟨hdc, r, hr, ?_⟩
    cases r <;> exact hc

/-! non-vacuity: fallback limit 1; a failing call whose fallback is inside its function when a second failing call arrives
    (refused: limit), a bad request (never reaches its fallback) and a call whose fallback panics -/
def jobs1 : List Exec.Job :=
  [.exec { failed := true } {}, .exec { failed := true } {}, .exec { failed := true, bad := true } {}, .exec { failed := true } { panics := true }]
def sched1 : List Nat := List.replicate 23 0 ++ List.replicate 40 1 ++ List.replicate 10 0 ++ List.replicate 40 2 ++ List.replicate 40 3
def c1 := run Exec.sys (Exec.init false false false 10 1 false jobs1) sched1
example : Exec.allDone c1 = true := by decide +kernel
example : Exec.outOf c1 0 = some .fbOk ∧ Exec.outOf c1 1 = some .limit ∧ Exec.outOf c1 2 = some .runErr ∧ Exec.outOf c1 3 = some .fbPanic := by decide +kernel
example : c1.shared.fbGauge = 0 ∧ c1.shared.r.gauge = 0 := by decide +kernel
/-- … a reconfiguration that switches fallbacks off and the kill switch on while callers are under way -/
def jobs3 : List Exec.Job := [.exec { failed := true } {}, .reconfigure { dis := true, fbDis := true }, .exec { failed := true } {}, .exec { failed := true } {}]
def c3 := run Exec.sys (Exec.init false false false 10 10 false jobs3) (List.replicate 21 0 ++ List.replicate 5 1 ++ List.replicate 40 0 ++ List.replicate 1 1 ++ List.replicate 40 2 ++ [1] ++ List.replicate 40 3)
example : Exec.allDone c3 = true ∧ (List.range 4).map (Exec.outOf c3) = [some .runErr, none, some .runErr, some .runErr] ∧ c3.shared.direct = [2, 3] := by decide +kernel
/-- … and the same callers under the kill switch -/
def c2 := run Exec.sys (Exec.init false false false 10 1 false jobs1 true) (List.replicate 3 0 ++ List.replicate 3 1 ++ List.replicate 3 2 ++ List.replicate 3 3)
example : Exec.allDone c2 = true ∧ (List.range 4).map (Exec.outOf c2) = [some .runErr, some .runErr, some .runErr, some .runErr] ∧ c2.shared.direct = [0, 1, 2, 3] := by decide +kernel

end CM.Props.ExecAll

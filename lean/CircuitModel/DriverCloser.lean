import CircuitModel.CloserOps
import CircuitModel.DriverOpener
namespace CM
open SpecC03

def parseClOp (line : String) : Option ClOp :=
  let toks := line.splitOn " "
  match toks with
  | ["ev", k, t] => do pure (.ev (← parseKind k) (← t.toInt?))
  | ["opened", t] => t.toInt?.map .opened
  | ["closed", t] => t.toInt?.map .closed
  | ["allow", t] => t.toInt?.map .allow
  | ["shouldclose", t] => t.toInt?.map .shouldClose
  | ["fire", k] => k.toNat?.map .fire
  | ["view"] => some (.shouldClose 0)      -- a pure read: steps the model like ShouldClose (no state change); see `isView`
  | "cfg" :: rest => let kvs := parseKVs rest; some (.cfg (kvInt kvs "sleep" 0) (kvInt kvs "half" 0) (kvInt kvs "req" 0))
  | _ => none

structure ClBook where
  epoch : SpecC16.Epoch
  sleepAtArm : Int
  halfAtArm : Int
  cfgChanged : Bool := false
  armed : Bool := false
  admissions : List Int := []

/-- suite `closer`: header sleep= half= req= -/
def suiteCloser (kvs : List (String × String)) (lines : List (String × String)) : List String :=
  -- a setting left unset (0) at construction is the documented default: 5 s, 1 half-open probe, 1 required success
  let orDefault (v d : Int) : Int := if v == 0 then d else v
  let sleep := orDefault (kvInt kvs "sleep" 5000000000) 5000000000
  let half := orDefault (kvInt kvs "half" 1) 1
  let req := orDefault (kvInt kvs "req" 1) 1
  match lines.mapM (fun l => parseClOp l.1) with
  | none => lines.map fun _ => "bad-op\t-"
  | some ops =>
    let isView := lines.map fun l => l.1 == "view"
    let rec states (c : HCloser) : List ClOp → List HCloser
      | [] => []
      | op :: r => c :: states (clstep c op).1 r
    let m0 := (clrun (HCloser.init sleep half req) ops).map fun | none => "ok" | some b => fmtBool b
    let m := ((m0.zip (states (HCloser.init sleep half req) ops)).zip isView).map fun ((o, c), v) =>
      if v then s!"succ={c.succ} sleep={c.tc.sleep} half={c.tc.allow} req={c.required}" else o
    let reals := lines.map (·.2)
    let rec go (h : List ClOp) (b : ClBook) : List (ClOp × String) → List String
      | [] => []
      | (op, real) :: rest =>
        let realB : Option Bool := if real == "1" then some true else if real == "0" then some false else none
        -- C16 monitor on the gate
        let tcOps := toTC op
        let out : TCOut := match op, realB with | .allow _, some x => .bool x | _, _ => .ok
        let v16 := tcOps.foldl (fun acc o => acc.orElse fun _ => b.epoch.verdict o out) none
        let epoch' := tcOps.foldl (fun e o => e.next o out) b.epoch
        let b1 : ClBook := match op with
          | .opened _ | .closed _ => { b with epoch := epoch', sleepAtArm := epoch'.sleep, halfAtArm := epoch'.allow, cfgChanged := false, armed := true, admissions := [] }
          | .cfg _ _ _ => { b with epoch := epoch', cfgChanged := true }
          | _ => { b with epoch := epoch' }
        let (spec, b2) : String × ClBook := match op with
          | .allow t =>
            if realB == some true then
              let adm := b1.admissions ++ [t]
              let b2 := { b1 with admissions := adm }
              match v16 with
              | some msg => ("!" ++ msg, b2)
              | none =>
                if b1.armed ∧ !b1.cfgChanged ∧ spanViolated b1.sleepAtArm (maxOne b1.halfAtArm) adm then
                  ((if nonDecreasing adm then "!" else "!stale:") ++ "more than max(1,HalfOpenAttempts) admissions within a span shorter than SleepWindow", b2)
                else ("-", b2)
            else ((match v16 with | some msg => "!" ++ msg | none => "-"), b1)
          | .shouldClose _ => (fmtBool (shouldCloseSpec req h), b1)
          | _ => ("-", b1)
        spec :: go (op :: h) b2 rest
    let specs := go [] { epoch := { sleep := sleep, allow := half }, sleepAtArm := sleep, halfAtArm := half } (ops.zip reals)
    ((m.zip specs).zip isView).map fun ((a, s), v) => a ++ "\t" ++ (if v then "-" else s)

end CM

import CircuitModel.OpenerOps
namespace CM
open SpecC02

def parseKind : String → Option Kind
  | "success" => some .success | "failure" => some .failure | "timeout" => some .timeout
  | "badrequest" => some .badRequest | "interrupt" => some .interrupt | "reject" => some .reject
  | "shortcircuit" => some .shortCircuit | _ => none

def parseOOp (line : String) : Option OOp :=
  let toks := line.splitOn " "
  match toks with
  | ["ev", k, t] => do pure (.ev (← parseKind k) (← t.toInt?))
  | ["opened", t] => t.toInt?.map .opened
  | ["closed", t] => t.toInt?.map .closed
  | ["should", t] => t.toInt?.map .should
  | ["view", t] => t.toInt?.map .view
  | "cfg" :: rest =>
    let kvs := parseKVs rest
    match kvGet kvs "thr" with
    | some v => v.toInt?.map .cfgC
    | none => some (.cfgH (kvInt kvs "pct" 0) (kvInt kvs "vol" 0))
  | _ => none

/-- suite `opener`: header kind=hystrix n= dur= pct= vol= | kind=consec thr= -/
def suiteOpener (kvs : List (String × String)) (lines0 : List (String × String)) : List String :=
  let lines := lines0.map (·.1)
  match lines.mapM parseOOp with
  | none => lines.map fun _ => "bad-op\t-"
  | some ops =>
    let hyst := kvGet kvs "kind" != some "consec"
    let n := if kvNat kvs "n" 10 == 0 then 10 else kvNat kvs "n" 10                       -- unset: 10 buckets …
    let dur := if kvInt kvs "dur" 10000000000 == 0 then 10000000000 else kvInt kvs "dur" 10000000000   -- … over 10 s
    let w := tdiv dur n
    -- a threshold left unset (0) at construction is the documented default: 50 % of at least 20 requests; 10 consecutive failures
    let orDefault (v d : Int) : Int := if v == 0 then d else v
    let pct0 := orDefault (kvInt kvs "pct" 50) 50
    let vol0 := orDefault (kvInt kvs "vol" 20) 20
    let thr0 := orDefault (kvInt kvs "thr" 10) 10
    let s0 : OState := if hyst then .hystrix (HOpener.new n dur pct0 vol0) else .consec { threshold := thr0 }
    let rec outs (s : OState) : List OOp → List String
      | [] => []
      | op :: rest =>
        let (s', o) := ostep s op
        (match op, o with
         | .view _, _ => oviewOut s'
         | _, none => "ok"
         | _, some b => fmtBool b) :: outs s' rest
    let m := outs s0 ops
    -- spec column, op by op, from the reversed prefix
    let rec specs (h : List OOp) : List OOp → List String
      | [] => []
      | op :: rest =>
        let h' := op :: h
        let s := match op with
          | .should t =>
            if hyst then (if latest h t then fmtBool (hystrixShould n w pct0 vol0 h t) else "-")
            else fmtBool (consecShould thr0 h)
          | _ => "-"
        s :: specs h' rest
    (m.zip (specs [] ops)).map fun (a, b) => a ++ "\t" ++ b

end CM

/-
  TimedCheck.lean — sequential model of faststats.TimedCheck (faststats/timedcheck.go), statement by statement.
  `nextOpen = none` is Go's zero `time.Time` (never `After` any harness time).  Timer callbacks are explicit ops:
  `fire k` runs the callback created by the k-th arming (0-based), whenever the environment pleases — a stopped
  timer may still fire (Stop does not wait), so the model lets *any* armed callback fire at any time.
-/
import CircuitModel.Basic
namespace CM

structure TC where
  sleep : Int := 0            -- sleepDuration (ns)
  allow : Int := 0            -- eventCountToAllow
  fastFail : Bool := false    -- isFastFail
  version : Int := 0          -- isFailFastVersion
  nextOpen : Option Int := none
  count : Int := 0            -- currentlyAllowedEventCount
  armed : List Int := []      -- version captured by each callback, oldest first
  deriving Repr, DecidableEq

/-- `resetOpenTimeWithLock(now)` -/
def TC.resetOpen (c : TC) (now : Int) : TC :=
  let v := c.version + 1
  { c with nextOpen := some (now + c.sleep), count := 0, fastFail := true, version := v, armed := c.armed ++ [v] }

/-- `nextOpenTime.After(now)` -/
def TC.nextAfter (c : TC) (now : Int) : Bool :=
  match c.nextOpen with
  | none => false
  | some t => decide (now < t)

/-- `Check(now)` (sequentially the RLock fast path and the re-validation under Lock read the same value) -/
def TC.check (c : TC) (now : Int) : TC × Bool :=
  if c.fastFail then (c, false)
  else if c.nextAfter now then (c, false)
  else
    let c := { c with count := c.count + 1 }
    if c.count ≥ c.allow then (c.resetOpen now, true) else (c, true)

/-- the callback created by the k-th arming: `if currentVersion == isFailFastVersion.Get() { isFastFail.Set(false) }` -/
def TC.fire (c : TC) (k : Nat) : TC :=
  match c.armed[k]? with
  | none => c
  | some v => if v = c.version then { c with fastFail := false } else c

inductive TCOp where
  | start (t : Int) | check (t : Int) | setSleep (d : Int) | setAllow (k : Int) | fire (k : Nat) | dump
  deriving Repr, DecidableEq

inductive TCOut where
  | ok | bool (b : Bool) | state (count : Int) (next : Option Int) (sleep allow : Int)
  deriving Repr, DecidableEq

def TC.step (c : TC) : TCOp → TC × TCOut
  | .start t => (c.resetOpen t, .ok)
  | .check t => let (c, b) := c.check t; (c, .bool b)
  | .setSleep d => ({ c with sleep := d }, .ok)
  | .setAllow k => ({ c with allow := k }, .ok)
  | .fire k => (c.fire k, .ok)
  | .dump => (c, .state c.count c.nextOpen c.sleep c.allow)

def TC.run (c : TC) : List TCOp → List TCOut
  | [] => []
  | op :: ops => let (c', o) := c.step op; o :: TC.run c' ops

def TC.exec (c : TC) (ops : List TCOp) : TC := ops.foldl (fun c op => (c.step op).1) c

end CM

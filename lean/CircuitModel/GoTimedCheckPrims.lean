/-
  GoTimedCheckPrims.lean — what the selector paths of faststats/timedcheck.go MEAN in terms of the model `TC`
  (TimedCheck.lean).  The closure that `resetOpenTimeWithLock` hands to the timer hook is a first-order value `Clo`
  (its generated name + the captured integers); `recv_afterFunc` — the nil-check wrapper around the injected
  `TimeAfterFunc` / `time.AfterFunc`, not translated — records it (and the model's `armed` entry) and returns a timer
  identity.  WHEN a recorded closure runs is the environment's choice (model: `TC.fire k`); WHAT it does then is the
  generated `go_resetOpenTimeWithLock_apply`, tied to `TC.fire` in CircuitProofs/GoTie/T_GoTimedCheck.lean.
  Mutexes are no-ops (sequential semantics).  Hand-written, trusted, validated by K1 / K2 like the model itself.
-/
import CircuitModel.TimedCheck
import CircuitModel.GoSem
namespace CM.GoTimedCheck
open CM CM.Go

structure Clo where
  name : String
  env : List Int
  deriving Repr, DecidableEq

structure TCW where
  tc : TC
  timer : Option Nat := none       -- lastSetTimer: which arming it belongs to
  clos : List Clo := []            -- every closure handed to the timer hook, oldest first
  stuck : Bool := false            -- something without a meaning here was run

abbrev TM := M TCW String

def recv_mu_Lock : TM Unit := pure ()
def recv_mu_Unlock : TM Unit := pure ()
def recv_mu_RLock : TM Unit := pure ()
def recv_mu_RUnlock : TM Unit := pure ()

def runTok : String → TM Unit
  | "recv_mu_Unlock" => pure ()
  | _ => fun g => (.ok (), { g with st := { g.st with stuck := true } })
def deferPrim (call : String) : TM Unit := Go.pushDefer call
def fn (body : TM α) : TM α := goFunc runTok body
def cloStuck : TM Unit := fun g => (.ok (), { g with st := { g.st with stuck := true } })

def onTC (f : TC → TC) : TM Unit := fun g => (.ok (), { g with st := { g.st with tc := f g.st.tc } })
def rdTC (f : TC → α) : TM α := fun g => (.ok (f g.st.tc), g)

def recv_isFastFail_Get : TM Bool := rdTC (·.fastFail)
def recv_isFastFail_Set (b : Bool) : TM Unit := onTC fun c => { c with fastFail := b }
def recv_isFailFastVersion_Get : TM Int := rdTC (·.version)
def recv_isFailFastVersion_Add (n : Int) : TM Int := fun g =>
  (.ok (g.st.tc.version + n), { g with st := { g.st with tc := { g.st.tc with version := g.st.tc.version + n } } })
def recv_sleepDuration_Duration : TM Int := rdTC (·.sleep)
def recv_sleepDuration_Set (d : Int) : TM Unit := onTC fun c => { c with sleep := d }
def recv_eventCountToAllow_Get : TM Int := rdTC (·.allow)
def recv_eventCountToAllow_Set (k : Int) : TM Unit := onTC fun c => { c with allow := k }
def recv_nextOpenTime_After (now : Int) : TM Bool := rdTC (·.nextAfter now)
def recv_nextOpenTime_set (t : Int) : TM Unit := onTC fun c => { c with nextOpen := some t }
def recv_currentlyAllowedEventCount : TM Int := rdTC (·.count)
def recv_currentlyAllowedEventCount_set (k : Int) : TM Unit := onTC fun c => { c with count := k }
def recv_lastSetTimer : TM (Option Nat) := fun g => (.ok g.st.timer, g)
def recv_lastSetTimer_set (t : Option Nat) : TM Unit := fun g => (.ok (), { g with st := { g.st with timer := t } })
/-- `Stop` does not wait for (or prevent) a callback that is already due: no effect on what may still run -/
def recv_lastSetTimer_Stop : TM Unit := pure ()
/-- `c.afterFunc(d, f)`: the closure is now in the environment's hands -/
def recv_afterFunc (_d : Int) (f : Clo) : TM (Option Nat) := fun g =>
  (.ok (some g.st.clos.length),
   { g with st := { g.st with clos := g.st.clos ++ [f], tc := { g.st.tc with armed := g.st.tc.armed ++ [f.env.headD 0] } } })

/-! ### statement side of the tie -/
/-- the closure value `resetOpenTimeWithLock` creates when the version becomes `v` -/
def cloFor (v : Int) : Clo := ⟨"resetOpenTimeWithLock_lit1", [v]⟩
/-- the recorded closures are exactly the model's armed versions -/
def TCW.Inv (w : TCW) : Prop := w.clos = w.tc.armed.map cloFor
/-- `resetOpenTimeWithLock(now)` in the model's terms (`TC.resetOpen` without its own `armed` bookkeeping, which the
    timer hook does here) -/
def TCW.reset (w : TCW) (now : Int) : TCW :=
  { w with tc := w.tc.resetOpen now, timer := some w.clos.length, clos := w.clos ++ [cloFor (w.tc.version + 1)] }

end CM.GoTimedCheck

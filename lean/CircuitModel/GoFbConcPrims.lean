/-
  GoFbConcPrims.lean — INTERFERENCE primitives for `Circuit.fallback` (K6; C04's fallback side, C06): the body is
  translated once more (Generated/GoFbI) over these.  The state is the SHARED state of the bulkhead model `Conc/Gauge`
  (the same model serves the run gauge and the fallback gauge) plus an oracle: the Add on `concurrentFallbacks`, the load
  of `Fallback.MaxConcurrentRequests`, the execution of the user's fallback function and the deferred Add(-1) first let the
  other goroutines move.  Deliveries to the fallback collectors, the clock and the `Fallback.Disabled` switch are outside
  this model (no step; the switch is the thread's script).
-/
import CircuitModel.Conc.GaugeSolo
import CircuitModel.GoSem
namespace CM.GoFbI
open CM CM.Go CM.Conc CM.Conc.Gauge

/-- what the configuration and the user's fallback answer -/
structure Script where
  disabled : Bool := false      -- Fallback.Disabled
  fails : Bool := false         -- the fallback returns a non-nil error
  panics : Bool := false        -- … or panics
  deriving Repr, DecidableEq

structure FS where
  sh : Shared
  tid : Nat
  sc : Script
  obs : Int := 0
  envs : List (Shared → Shared)
  trace : List Lab := []
  stuck : Bool := false

abbrev FM := M FS String

structure Ctx where
  deriving Repr
abbrev Err := Option Nat
abbrev GoTime := Int
abbrev Dur := Int
structure FbFn where
  deriving Repr
instance : IsNil FbFn := ⟨fun _ => false⟩

def recv_timeNow : FM GoTime := pure 1
def recv_threadSafeConfig_Fallback_Disabled_Get : FM Bool := fun g => (.ok g.st.sc.disabled, g)
/-- the error of a refused fallback -/
def lit_circuitError_concurrencyLimitReached_true : Err := some 102
/-- the error a failing fallback returns -/
def fbErr : Err := some 8

def recv_concurrentFallbacks_Add (n : Int) : FM Int := fun g =>
  let p := popEnv g.st.envs g.st.sh
  let v := p.1.gauge + n
  let region := if n > 0 then p.1.region ++ [{ tid := g.st.tid, obs := v, running := false }] else p.1.region.filter (·.tid ≠ g.st.tid)
  (.ok v, { g with st := { g.st with sh := { p.1 with gauge := v, region := region }, obs := (if n > 0 then v else g.st.obs), envs := p.2,
                                      trace := g.st.trace ++ [.addGauge n v] } })
def recv_threadSafeConfig_Fallback_MaxConcurrentRequests_Get : FM Int := fun g =>
  let p := popEnv g.st.envs g.st.sh
  let admitted := !(decide (p.1.limit ≥ 0 ∧ g.st.obs > p.1.limit))
  let region := if admitted then p.1.region.map (fun e => if e.tid = g.st.tid then { e with running := true } else e) else p.1.region
  (.ok p.1.limit, { g with st := { g.st with sh := { p.1 with region := region }, envs := p.2, trace := g.st.trace ++ [.loadLimit p.1.limit] } })

def recv_FallbackMetricCollector_ErrConcurrencyLimitReject (_ctx : Ctx) (_t : GoTime) : FM Unit := pure ()
def recv_FallbackMetricCollector_ErrFailure (_ctx : Ctx) (_t : GoTime) (_d : Dur) : FM Unit := pure ()
def recv_FallbackMetricCollector_Success (_ctx : Ctx) (_t : GoTime) (_d : Dur) : FM Unit := pure ()

/-- the user's fallback: one step; it returns its error or panics -/
instance : Call2 FM FbFn Ctx Err Err where
  call _ _ _ := fun g =>
    let p := popEnv g.st.envs g.st.sh
    let st := { g.st with sh := p.1, envs := p.2, trace := g.st.trace ++ [.invoke] }
    if g.st.sc.panics then (.panic 1, { g with st := st }) else (.ok (if g.st.sc.fails then fbErr else none), { g with st := st })

def runTok : String → FM Unit
  | "recv_concurrentFallbacks_Add (-1)" => do let _ ← recv_concurrentFallbacks_Add (-1); pure ()
  | _ => fun g => (.ok (), { g with st := { g.st with stuck := true } })
def deferPrim (call : String) : FM Unit := Go.pushDefer call
def fn (body : FM α) : FM α := goFunc runTok body

end CM.GoFbI

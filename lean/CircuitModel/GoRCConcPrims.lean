/-
  GoRCConcPrims.lean — INTERFERENCE primitives for faststats/rolling_counter.go and rolling_bucket.go (K6, C14).
  The same Go bodies that the sequential units translate (GoRollingBuckets, GoRollingCounter) are translated once more
  over these primitives: the state is the SHARED state of the small-step model `Conc/RC` plus an oracle; every
  sync/atomic operation first lets the oracle (the other goroutines) change the shared state arbitrarily, then does
  what sync/atomic does — CompareAndSwap succeeds iff the word NOW holds the expected value — and records a label.
  Immutable configuration (NumBuckets, BucketWidth, StartTime, `len(r.buckets)`) is read without a step.
  Three units, because the source is mutually dependent across two files: `clearBucket` (K), `Advance` (B, calls K
  through the `func(int)` argument), the counter's operations (C, call B's `Advance` and K's `clearBucket`).
-/
import CircuitModel.Conc.RCSolo
import CircuitModel.GoConsumerPrims
namespace CM.GoRCI
open CM CM.Go CM.Conc CM.Conc.RC

structure IS where
  sh : Shared
  w : Int                           -- BucketWidth in ns (immutable)
  fuel : Nat                        -- bound on the self-calls of Advance (the ties say when it is enough)
  envs : List (Shared → Shared)     -- the oracle
  trace : List Lab := []

abbrev IM := M IS NoTok
def fn (body : IM α) : IM α := goFunc noTok body

/-- one sync/atomic operation: the others move first -/
def atomicOp (f : Shared → Shared × α × Lab) : IM α := fun g =>
  let p := popEnv g.st.envs g.st.sh
  let r := f p.1
  (.ok r.2.1, { g with st := { g.st with sh := r.1, envs := p.2, trace := g.st.trace ++ [r.2.2] } })

def goOutOfFuel : IM α := Go.nilCall
def goRange (n : Int) : List Int := (List.range n.toNat).map Int.ofNat
def goDiv (a b : Int) : Int := tdiv a b
def goMod (a b : Int) : Int := Int.tmod a b
def goMakeZeros (n : Int) : List Int := List.replicate n.toNat 0
def goSet (l : List Int) (i v : Int) : List Int := l.set i.toNat v
def goLen (l : List α) : Int := l.length
def pkg_int (x : Int) : IM Int := pure x
def pkg_int64 (x : Int) : IM Int := pure x

inductive ClearFn where
  | counter
  deriving Repr, DecidableEq

def addBucket (idx n : Int) : IM Int := atomicOp fun s =>
  let v := s.buckets.getD idx.toNat 0 + n
  ({ s with buckets := s.buckets.set idx.toNat v }, v, .add (.bucket idx.toNat) n v)
def swapBucket (idx v : Int) : IM Int := atomicOp fun s =>
  let old := s.buckets.getD idx.toNat 0
  ({ s with buckets := s.buckets.set idx.toNat v }, old, .swap (.bucket idx.toNat) v old)
def getBucket (idx : Int) : IM Int := atomicOp fun s =>
  (s, s.buckets.getD idx.toNat 0, .load (.bucket idx.toNat) (s.buckets.getD idx.toNat 0))
def addRolling (n : Int) : IM Int := atomicOp fun s => ({ s with rolling := s.rolling + n }, s.rolling + n, .add .rolling n (s.rolling + n))

-- unit K: `RollingCounter.clearBucket`
namespace K
def recv_buckets_at_Swap := swapBucket
def recv_rollingSum_Add := addRolling
end K

end CM.GoRCI

/-
  F64.lean — IEEE-754 binary64 as exact rationals (core Lean `Rat`), for the three float expressions the library
  evaluates (percentile interpolation, the opener's error percentage, the stream's error percentage).
  `rne` is round-to-nearest-even onto the binary64 grid (normal and subnormal); overflow to infinity is outside the
  model (every value the modelled code can produce has magnitude < 2^128).  NaN and infinities are represented at
  the decoding boundary only (`F64.Val`).
-/
import CircuitModel.Basic
namespace CM.F64

def pow2 (e : Int) : Rat :=
  if e ≥ 0 then ((2 ^ e.toNat : Nat) : Rat) else 1 / ((2 ^ (-e).toNat : Nat) : Rat)

/-- floor(log2 x) for x > 0 -/
def ilog2 (x : Rat) : Int :=
  let e0 : Int := (x.num.natAbs.log2 : Int) - (x.den.log2 : Int)
  if pow2 e0 ≤ x then (if pow2 (e0 + 1) ≤ x then e0 + 1 else e0) else e0 - 1

/-- round half to even of a rational to an integer -/
def roundHalfEven (q : Rat) : Int :=
  let f := q.floor
  let r := q - f
  if r < 1/2 then f
  else if r > 1/2 then f + 1
  else if f % 2 = 0 then f else f + 1

/-- unit in the last place of the binade of x (x ≠ 0), with the subnormal clamp -/
def ulpOf (x : Rat) : Rat :=
  let e := ilog2 (if x < 0 then -x else x)
  pow2 ((if e < -1022 then -1022 else e) - 52)

/-- round to nearest binary64, ties to even (no overflow handling) -/
def rne (x : Rat) : Rat :=
  if x = 0 then 0
  else
    let u := ulpOf x
    (roundHalfEven (x / u) : Rat) * u

inductive Val where
  | fin (x : Rat) | nan | pinf | ninf
  deriving Repr, DecidableEq

/-- decode the 64 bits of a double -/
def ofBits (b : Nat) : Val :=
  let sign : Nat := b / 2^63 % 2
  let ex : Nat := b / 2^52 % 2^11
  let man : Nat := b % 2^52
  if ex = 2047 then (if man ≠ 0 then .nan else if sign = 1 then .ninf else .pinf)
  else
    let mag : Rat := if ex = 0 then ((man : Nat) : Rat) * pow2 (-1074) else (((2^52 + man : Nat)) : Rat) * pow2 ((ex : Int) - 1075)
    .fin (if sign = 1 then -mag else mag)

def mul (a b : Rat) : Rat := rne (a * b)
def div (a b : Rat) : Rat := rne (a / b)
def sub (a b : Rat) : Rat := rne (a - b)
/-- `float64(i)` for an int64 -/
def ofInt (i : Int) : Rat := rne (i : Rat)
/-- `int64(f)` for a finite double inside the int64 range: truncation toward zero -/
def toInt (x : Rat) : Int := if x < 0 then -((-x).floor) else x.floor

end CM.F64

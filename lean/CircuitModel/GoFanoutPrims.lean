/-
  GoFanoutPrims.lean — the three collector fan-outs of metrics.go (`RunMetricsCollection`, `FallbackMetricsCollection`,
  `MetricsCollection`: slices of collectors; each method tells every element).  The receiver is DATA here: the list of
  collectors is a parameter of every translated function.  A collector is an identity; being told something appends
  (identity, what it was told) to a log.  Hand-written, trusted; the loops are regenerated (Generated/GoFan*/F_*.lean).
-/
import CircuitModel.Circuit
import CircuitModel.GoConsumerPrims
namespace CM
open CM.Go

structure Coll where
  id : Nat
  deriving Repr, DecidableEq

abbrev XM := M (List (Nat × Emit)) NoTok
def tellC (c : Coll) (e : Emit) : XM Unit := upd fun l => l ++ [(c.id, e)]

namespace GoFanRun
def fn (body : XM α) : XM α := goFunc noTok body
def _root_.CM.Coll.m_Success (c : Coll) (_ : Unit) (t d : Int) : XM Unit := tellC c (.run .success t d)
def _root_.CM.Coll.m_ErrFailure (c : Coll) (_ : Unit) (t d : Int) : XM Unit := tellC c (.run .failure t d)
def _root_.CM.Coll.m_ErrTimeout (c : Coll) (_ : Unit) (t d : Int) : XM Unit := tellC c (.run .timeout t d)
def _root_.CM.Coll.m_ErrBadRequest (c : Coll) (_ : Unit) (t d : Int) : XM Unit := tellC c (.run .badRequest t d)
def _root_.CM.Coll.m_ErrInterrupt (c : Coll) (_ : Unit) (t d : Int) : XM Unit := tellC c (.run .interrupt t d)
def _root_.CM.Coll.m_ErrConcurrencyLimitReject (c : Coll) (_ : Unit) (t : Int) : XM Unit := tellC c (.run .reject t 0)
def _root_.CM.Coll.m_ErrShortCircuit (c : Coll) (_ : Unit) (t : Int) : XM Unit := tellC c (.run .shortCircuit t 0)
end GoFanRun

/-- a fallback collector (its `Success` is a different callback than a run collector's) -/
structure FColl where
  id : Nat
  deriving Repr, DecidableEq
namespace GoFanFb
def fn (body : XM α) : XM α := goFunc noTok body
def _root_.CM.FColl.m_Success (c : FColl) (_ : Unit) (t d : Int) : XM Unit := upd fun l => l ++ [(c.id, .fb .success t d)]
def _root_.CM.FColl.m_ErrFailure (c : FColl) (_ : Unit) (t d : Int) : XM Unit := upd fun l => l ++ [(c.id, .fb .failure t d)]
def _root_.CM.FColl.m_ErrConcurrencyLimitReject (c : FColl) (_ : Unit) (t : Int) : XM Unit := upd fun l => l ++ [(c.id, .fb .reject t 0)]
end GoFanFb

/-- a circuit-level collector -/
structure MColl where
  id : Nat
  deriving Repr, DecidableEq
namespace GoFanCirc
def fn (body : XM α) : XM α := goFunc noTok body
def _root_.CM.MColl.m_Opened (c : MColl) (_ : Unit) (t : Int) : XM Unit := upd fun l => l ++ [(c.id, .opened t)]
def _root_.CM.MColl.m_Closed (c : MColl) (_ : Unit) (t : Int) : XM Unit := upd fun l => l ++ [(c.id, .closed t)]
end GoFanCirc

end CM

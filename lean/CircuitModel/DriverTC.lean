import CircuitModel.TimedCheck
import CircuitModel.Spec.C16
namespace CM

def parseTCOp (line : String) : Option TCOp :=
  match line.splitOn " " with
  | ["start", t] => t.toInt?.map .start
  | ["check", t] => t.toInt?.map .check
  | ["sleep", d] => d.toInt?.map .setSleep
  | ["allow", k] => k.toInt?.map .setAllow
  | ["fire", k] => k.toNat?.map .fire
  | ["dump"] => some .dump
  | _ => none

def TCOut.fmt : TCOut → String
  | .ok => "ok"
  | .bool b => fmtBool b
  | .state c nx s a => s!"count={c} next={match nx with | none => "zero" | some t => toString t} sleep={s} allow={a}"

/-- parse a real output line back into a `TCOut` for the trace monitor (only check answers matter to it) -/
def parseTCOut (op : TCOp) (s : String) : TCOut :=
  match op, s with
  | .check _, "1" => .bool true
  | .check _, "0" => .bool false
  | _, _ => .ok

/-- suite `tc`: model output, and the C16 monitor's verdict on the REAL trace (`-` fine, `!msg` violated) -/
def suiteTC (_kvs : List (String × String)) (lines : List (String × String)) : List String :=
  match lines.mapM (fun l => parseTCOp l.1) with
  | none => lines.map fun _ => "bad-op\t-"
  | some ops =>
    let m := (({} : TC).run ops).map TCOut.fmt
    let realTrace := ops.zip ((ops.zip (lines.map (·.2))).map fun (op, r) => parseTCOut op r)
    let v := SpecC16.monitor {} realTrace
    (m.zip v).map fun (a, b) => a ++ "\t" ++ (match b with | none => "-" | some msg => "!" ++ msg)

end CM

import CircuitModel.TimedCheck
import CircuitModel.Spec.C16
namespace CM

def parseTCOp (line : String) : Option TCOp :=
  match line.splitOn " " with
  | ["start", t] => t.toInt?.map .start
  | ["check", t] => t.toInt?.map .check
  | ["sleep", d] => d.toInt?.map .setSleep
  | ["allow", k] => k.toInt?.map .setAllow
  | ["fire", k] => k.toNat?.map .fire
  | ["dump"] => some .dump
  | _ => none

def TCOut.fmt : TCOut → String
  | .ok => "ok"
  | .bool b => fmtBool b
  | .state c nx s a => s!"count={c} next={match nx with | none => "zero" | some t => toString t} sleep={s} allow={a}"

/-- parse a real output line back into a `TCOut` for the trace monitor (only check answers matter to it) -/
def parseTCOut (op : TCOp) (s : String) : TCOut :=
  match op, s with
  | .check _, "1" => .bool true
  | .check _, "0" => .bool false
  | _, _ => .ok

/-- `restore`: the gate is marshalled and unmarshalled into a FRESH TimedCheck, which is used from then on (same timer
    hook).  What JSON carries — sleep duration, budget, next open time, the count of the running period — continues; what it
    does not — the fast-fail flag and its version — starts from zero, and the callbacks armed by the old object can no
    longer reach the new one.  (Handled here, outside `TC.step`: the theorems speak about one object.) -/
def TC.restored (c : TC) : TC := { c with fastFail := false, version := 0, armed := c.armed.map fun _ => -1 }

/-- suite `tc`: model output, and the C16 monitor's verdict on the REAL trace (`-` fine, `!msg` violated) -/
def suiteTC (_kvs : List (String × String)) (lines : List (String × String)) : List String :=
  let isRestore (l : String × String) : Bool := l.1 == "restore"
  match (lines.filter (fun l => !isRestore l)).mapM (fun l => parseTCOp l.1) with
  | none => lines.map fun _ => "bad-op\t-"
  | some opsOnly =>
    -- model outputs, line by line
    let step (acc : TC × List String) (l : String × String) : TC × List String :=
      if isRestore l then (acc.1.restored, acc.2 ++ ["ok"])
      else match parseTCOp l.1 with
        | some op => let r := acc.1.step op; (r.1, acc.2 ++ [r.2.fmt])
        | none => (acc.1, acc.2 ++ ["bad-op"])
    let m := (lines.foldl step (({} : TC), [])).2
    -- the monitor sees the real trace without the restore lines (a restore continues the period it lands in)
    let realOnly := (lines.filter (fun l => !isRestore l)).map (·.2)
    let realTrace := opsOnly.zip ((opsOnly.zip realOnly).map fun (op, r) => parseTCOut op r)
    let v := SpecC16.monitor {} realTrace
    -- put the verdicts back on their lines
    let rec place (ls : List (String × String)) (vs : List (Option String)) : List (Option String) :=
      match ls with
      | [] => []
      | l :: rest => if isRestore l then none :: place rest vs else (vs.headD none) :: place rest vs.tail
    (m.zip (place lines v)).map fun (a, b) => a ++ "\t" ++ (match b with | none => "-" | some msg => "!" ++ msg)

end CM

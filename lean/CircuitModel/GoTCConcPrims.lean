/-
  GoTCConcPrims.lean — INTERFERENCE primitives for faststats/timedcheck.go (K6; C16 and the gate of C03).
  The bodies of `Check`, `SleepStart`, `resetOpenTimeWithLock` and its timer closure are translated once more
  (Generated/GoTCI) over these: the state is the SHARED state of the small-step model `Conc/TC` plus an oracle; every
  sync/atomic operation and every RWMutex operation first lets the oracle (the other goroutines) move, then does what
  the operation does and records a label.  A lock operation on a lock that is not available ends the run (`blocked`):
  a goroutine waits there, and the ties speak about runs that get through.  Plain fields (`nextOpenTime`,
  `currentlyAllowedEventCount`, `lastSetTimer`) are read and written without a step.  The model's ghost event log is not
  touched here (the ties compare everything else).
-/
import CircuitModel.Conc.TCSolo
import CircuitModel.GoSem
namespace CM.GoTCI
open CM CM.Go CM.Conc CM.Conc.TC

/-- the closure handed to the timer hook: generated name + captured integers -/
structure Clo where
  name : String
  env : List Int
  deriving Repr, DecidableEq

structure TS where
  sh : Shared
  tid : Nat
  timer : Option Nat := none        -- lastSetTimer (plain field, touched under the write lock only)
  envs : List (Shared → Shared)     -- the oracle
  trace : List Lab := []
  blocked : Bool := false           -- a lock operation found the lock taken
  stuck : Bool := false             -- something without a meaning here was run

abbrev TM := M TS String

def atomicOp (f : Shared → Shared × α × Lab) : TM α := fun g =>
  let p := popEnv g.st.envs g.st.sh
  let r := f p.1
  (.ok r.2.1, { g with st := { g.st with sh := r.1, envs := p.2, trace := g.st.trace ++ [r.2.2] } })

/-- a lock operation: enabled iff `ok`; otherwise the goroutine waits (the run ends here, the oracle's move applied) -/
def lockOp (ok : Nat → Shared → Bool) (f : Nat → Shared → Shared) (lab : Lab) : TM Unit := fun g =>
  let p := popEnv g.st.envs g.st.sh
  if ok g.st.tid p.1 then
    (.ok (), { g with st := { g.st with sh := f g.st.tid p.1, envs := p.2, trace := g.st.trace ++ [lab] } })
  else (.nilCall, { g with st := { g.st with sh := p.1, envs := p.2, blocked := true } })

def plainRd (f : Shared → α) : TM α := fun g => (.ok (f g.st.sh), g)
def plainWr (f : Shared → Shared) : TM Unit := fun g => (.ok (), { g with st := { g.st with sh := f g.st.sh } })

def recv_mu_RLock : TM Unit := lockOp (fun _ s => s.writer.isNone) (fun _ s => { s with readers := s.readers + 1 }) .rlock
def recv_mu_RUnlock : TM Unit := lockOp (fun _ _ => true) (fun _ s => { s with readers := s.readers - 1 }) .runlock
def recv_mu_Lock : TM Unit := lockOp (fun _ s => s.writer.isNone && s.readers == 0) (fun tid s => { s with writer := some tid }) .lock
def recv_mu_Unlock : TM Unit := lockOp (fun _ _ => true) (fun _ s => { s with writer := none }) .unlock

def runTok : String → TM Unit
  | "recv_mu_Unlock" => recv_mu_Unlock
  | _ => fun g => (.ok (), { g with st := { g.st with stuck := true } })
def deferPrim (call : String) : TM Unit := Go.pushDefer call
def fn (body : TM α) : TM α := goFunc runTok body
def cloStuck : TM Unit := fun g => (.ok (), { g with st := { g.st with stuck := true } })

def recv_isFastFail_Get : TM Bool := atomicOp fun s => (s, s.fastFail, .loadFF s.fastFail)
def recv_isFastFail_Set (b : Bool) : TM Unit := atomicOp fun s => ({ s with fastFail := b }, (), .storeFF b)
def recv_isFailFastVersion_Get : TM Int := atomicOp fun s => (s, s.version, .loadVersion s.version)
def recv_isFailFastVersion_Add (n : Int) : TM Int := atomicOp fun s => ({ s with version := s.version + n }, s.version + n, .addVersion (s.version + n))
def recv_sleepDuration_Duration : TM Int := atomicOp fun s => (s, s.sleep, .loadSleep s.sleep)
def recv_eventCountToAllow_Get : TM Int := atomicOp fun s => (s, s.allow, .loadAllow s.allow)
def recv_nextOpenTime_After (now : Int) : TM Bool := plainRd fun s => nextAfter s now
def recv_nextOpenTime_set (t : Int) : TM Unit := plainWr fun s => { s with nextOpen := some t }
def recv_currentlyAllowedEventCount : TM Int := plainRd (·.count)
def recv_currentlyAllowedEventCount_set (k : Int) : TM Unit := plainWr fun s => { s with count := k }
def recv_lastSetTimer : TM (Option Nat) := fun g => (.ok g.st.timer, g)
def recv_lastSetTimer_set (t : Option Nat) : TM Unit := fun g => (.ok (), { g with st := { g.st with timer := t } })
def recv_lastSetTimer_Stop : TM Unit := pure ()
/-- `c.afterFunc(d, f)`: the closure is in the environment's hands from now on (the model's `armed` entry) -/
def recv_afterFunc (_d : Int) (f : Clo) : TM (Option Nat) := fun g =>
  (.ok (some g.st.sh.armed.length), { g with st := { g.st with sh := { g.st.sh with armed := g.st.sh.armed ++ [f.env.headD 0] } } })

end CM.GoTCI

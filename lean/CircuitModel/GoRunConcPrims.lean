/-
  GoRunConcPrims.lean — INTERFERENCE primitives for the WHOLE `Circuit.run` (K6; C01, C04, C05, C09, C10): `run`,
  `throttleConcurrentCommands`, `allowNewRun`, `IsOpen`, the five links of the classification chain, `attemptToOpen`,
  `openCircuit`, `close`, `now` are translated once more (Generated/GoRunI) over these.  The state is the SHARED state of
  the small-step model `Conc/Run` plus an oracle: every atomic load / store of the three flags, every operation on
  `transitionMu`, every Add on the run gauge, the load of the limit, every delivery to the run collectors and to the
  circuit-level collectors, and the execution of the user's run function first let the other goroutines move, then do
  what they do and record a label.  What user code, the pluggable logic, the clock and the caller's context answer is the
  thread's script.  Configuration that is static in the model (timeout, IgnoreInterrupts, the interrupt classifier and
  the mutex around it) is read without a step.
-/
import CircuitModel.Conc.RunSolo
import CircuitModel.GoSem
namespace CM.GoRunI
open CM CM.Go CM.Conc CM.Conc.Run

structure RS where
  sh : Shared
  tid : Nat
  sc : Script
  obs : Int := 0                    -- what this call's Add(1) returned (for the ghost `running` mark)
  envs : List (Shared → Shared)
  trace : List Lab := []
  blocked : Bool := false
  stuck : Bool := false

abbrev RM := M RS String

def atomicOp (f : Shared → Shared × α × Lab) : RM α := fun g =>
  let p := popEnv g.st.envs g.st.sh
  let r := f p.1
  (.ok r.2.1, { g with st := { g.st with sh := r.1, envs := p.2, trace := g.st.trace ++ [r.2.2] } })

def lockOp (ok : Shared → Bool) (f : Nat → Shared → Shared) (lab : Lab) : RM Unit := fun g =>
  let p := popEnv g.st.envs g.st.sh
  if ok p.1 then
    (.ok (), { g with st := { g.st with sh := f g.st.tid p.1, envs := p.2, trace := g.st.trace ++ [lab] } })
  else (.nilCall, { g with st := { g.st with sh := p.1, envs := p.2, blocked := true } })

/-- a delivery to the run collectors -/
def deliver (e : Ev) : RM Unit := fun g =>
  let p := popEnv g.st.envs g.st.sh
  (.ok (), { g with st := { g.st with sh := { p.1 with events := p.1.events ++ [(g.st.tid, e)] }, envs := p.2, trace := g.st.trace ++ [.deliver e] } })

/-! ### Go types as they appear in the signatures -/
structure Ctx where
  deriving Repr
abbrev Err := Option Nat
abbrev Dur := Int
abbrev GoTime := Int
structure RunFn where
  deriving Repr
inductive Fn0 where
  | nilFn | release
  deriving Repr, DecidableEq
instance : GoZero Fn0 := ⟨.nilFn⟩
instance : IsNil RunFn := ⟨fun _ => false⟩

/-- a constructed circuit is not nil -/
def recv : Option Unit := some ()

def pkg_errCircuitOpen : Err := some 100
def pkg_errThrottledConcurrentCommands : Err := some 101
/-- the error a failing run function returns -/
def userErr : Err := some 7

/-! ### the clock and the timeout context: no steps (the model's script says whether there is a deadline and whether it passed) -/
def recv_timeNow : RM GoTime := pure 1
def recv_threadSafeConfig_Execution_ExecutionTimeout_Duration : RM Dur := fun g => (.ok (if g.st.sc.deadline then 1 else 0), g)
def context_WithDeadline (ctx : Ctx) (_t : GoTime) : RM (Ctx × Fn0) := pure (ctx, .release)
def deferCall0 (_f : Fn0) : RM Unit := Go.pushDefer "cancel"
def _root_.Int.m_IsZero (t : Int) : RM Bool := pure (t == 0)
def _root_.Int.m_Before (_t _u : Int) : RM Bool := fun g => (.ok g.st.sc.late, g)
def Ctx.m_Err (_ : Ctx) : RM Err := fun g => (.ok (if g.st.sc.ctxDone then some 9 else none), g)

/-! ### flags, mutex, notifications (as in GoCallConcPrims) -/
def recv_transitionMu_Lock : RM Unit := lockOp (fun s => s.t.holder.isNone) (fun tid s => { s with t := { s.t with holder := some tid } }) .lock
def recv_transitionMu_Unlock : RM Unit := lockOp (fun _ => true) (fun _ s => { s with t := { s.t with holder := none } }) .unlock
def recv_threadSafeConfig_CircuitBreaker_ForceOpen_Get : RM Bool := atomicOp fun s => (s, s.t.forceOpen, .loadFO s.t.forceOpen)
def recv_threadSafeConfig_CircuitBreaker_ForcedClosed_Get : RM Bool := atomicOp fun s => (s, s.t.forcedClosed, .loadFC s.t.forcedClosed)
def recv_isOpen_Get : RM Bool := atomicOp fun s => (s, s.t.isOpen, .loadFlag s.t.isOpen)
def recv_isOpen_Set (b : Bool) : RM Unit := atomicOp fun s => ({ s with t := { s.t with isOpen := b } }, (), .storeFlag b)
def recv_CircuitMetricsCollector_Opened (_ctx : Ctx) (_now : GoTime) : RM Unit :=
  atomicOp fun s => ({ s with t := { s.t with log := s.t.log ++ [true] } }, (), .notify true)
def recv_CircuitMetricsCollector_Closed (_ctx : Ctx) (_now : GoTime) : RM Unit :=
  atomicOp fun s => ({ s with t := { s.t with log := s.t.log ++ [false] } }, (), .notify false)

/-! ### the pluggable logic: scripted answers (no step); a veto leaves the model's ghost marker -/
def recv_OpenToClose_Allow (_ctx : Ctx) (_now : GoTime) : RM Bool := fun g => (.ok g.st.sc.allow, g)
def recv_OpenToClose_ShouldClose (_ctx : Ctx) (_now : GoTime) : RM Bool := fun g => (.ok g.st.sc.shouldClose, g)
def recv_ClosedToOpen_ShouldOpen (_ctx : Ctx) (_now : GoTime) : RM Bool := fun g => (.ok g.st.sc.shouldOpen, g)
def recv_ClosedToOpen_Prevent (_ctx : Ctx) (_now : GoTime) : RM Bool := fun g =>
  if g.st.sc.prevent then
    (.ok true, { g with st := { g.st with sh := { g.st.sh with events := g.st.sh.events ++ [(g.st.tid, .vetoed)] } } })
  else (.ok false, g)

/-! ### the bulkhead -/
def recv_concurrentCommands_Add (n : Int) : RM Int := fun g =>
  let p := popEnv g.st.envs g.st.sh
  let v := p.1.gauge + n
  let region := if n > 0 then p.1.region ++ [{ tid := g.st.tid, obs := v, running := false }] else p.1.region.filter (·.tid ≠ g.st.tid)
  (.ok v, { g with st := { g.st with sh := { p.1 with gauge := v, region := region }, obs := (if n > 0 then v else g.st.obs), envs := p.2,
                                      trace := g.st.trace ++ [.addGauge n v] } })
def recv_threadSafeConfig_Execution_MaxConcurrentRequests_Get : RM Int := fun g =>
  let p := popEnv g.st.envs g.st.sh
  let admitted := !(decide (p.1.limit ≥ 0 ∧ g.st.obs > p.1.limit))
  let region := if admitted then p.1.region.map (fun e => if e.tid = g.st.tid then { e with running := true } else e) else p.1.region
  (.ok p.1.limit, { g with st := { g.st with sh := { p.1 with region := region }, envs := p.2, trace := g.st.trace ++ [.loadLimit p.1.limit] } })

/-! ### the run collectors -/
def recv_CmdMetricCollector_ErrShortCircuit (_ctx : Ctx) (_t : GoTime) : RM Unit := deliver .shortCircuit
def recv_CmdMetricCollector_ErrConcurrencyLimitReject (_ctx : Ctx) (_t : GoTime) : RM Unit := deliver .reject
def recv_CmdMetricCollector_Success (_ctx : Ctx) (_t : GoTime) (_d : Dur) : RM Unit := deliver (.ran .success)
def recv_CmdMetricCollector_ErrFailure (_ctx : Ctx) (_t : GoTime) (_d : Dur) : RM Unit := deliver (.ran .failure)
def recv_CmdMetricCollector_ErrTimeout (_ctx : Ctx) (_t : GoTime) (_d : Dur) : RM Unit := deliver (.ran .timeout)
def recv_CmdMetricCollector_ErrBadRequest (_ctx : Ctx) (_t : GoTime) (_d : Dur) : RM Unit := deliver (.ran .badRequest)
def recv_CmdMetricCollector_ErrInterrupt (_ctx : Ctx) (_t : GoTime) (_d : Dur) : RM Unit := deliver (.ran .interrupt)

/-! ### the user's run function: one step; it returns its error or panics -/
instance : Call1 RM RunFn Ctx Err where
  call _ _ := fun g =>
    let p := popEnv g.st.envs g.st.sh
    let st := { g.st with sh := { p.1 with events := p.1.events ++ [(g.st.tid, .invoked)] }, envs := p.2, trace := g.st.trace ++ [.invoke] }
    if g.st.sc.panics then (.panic 1, { g with st := st }) else (.ok (if g.st.sc.failed then userErr else none), { g with st := st })

/-! ### classification: what the chain asks -/
def pkg_IsBadRequest (e : Err) : RM Bool := fun g => (.ok (e.isSome && g.st.sc.bad), g)
def recv_notThreadSafeConfigMu_Lock : RM Unit := pure ()
def recv_notThreadSafeConfigMu_Unlock : RM Unit := pure ()
def recv_notThreadSafeConfig_Execution_IsErrInterrupt : RM (Option (Err → Bool)) := fun g => (.ok (some fun _ => g.st.sc.classifier), g)
def recv_threadSafeConfig_GoSpecific_IgnoreInterrupts_Get : RM Bool := fun g => (.ok g.st.sc.ignoreInterrupts, g)

/-! ### deferred calls -/
def runTokLive : String → RM Unit
  | "recv_transitionMu_Unlock" => recv_transitionMu_Unlock
  | "recv_concurrentCommands_Add (-1)" => do let _ ← recv_concurrentCommands_Add (-1); pure ()
  | "cancel" => pure ()
  | _ => fun g => (.ok (), { g with st := { g.st with stuck := true } })
/-- a goroutine that WAITS for a lock has not left its functions: nothing deferred runs (the `.nilCall` outcome only
    ends the symbolic run there) -/
def runTok (t : String) : RM Unit := fun g => if g.st.blocked then (.ok (), g) else runTokLive t g
def deferPrim (call : String) : RM Unit := Go.pushDefer call
def fn (body : RM α) : RM α := goFunc runTok body

end CM.GoRunI

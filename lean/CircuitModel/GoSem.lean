/-
  GoSem.lean — the (small) part of Go's semantics that the TRANSLATED functions (Generated/Go*.lean, written on every
  run by tools/extract/gotrans from today's Go source) are expressed in: a state monad with Go's three ways of
  leaving a function (normal return, a panic raised by a user function, the runtime panic of calling a nil func
  value), `defer` (a stack of first-order tokens unwound by `goFunc` on every exit, panics included), short-circuit
  `&&` / `||`, nil / zero values and calls of func-typed values.
  The translator prints Go statements as `do`-notation over this monad one to one (early `return`, mutable locals,
  `if` with init statement); what each selector path rooted at the receiver MEANS is given per package in a
  hand-written primitives file (GoCircuitPrims.lean …) — that file and this one are the trusted part of the tie,
  the generated file is not.
-/
namespace CM.Go

inductive Out (α : Type) where
  | ok (a : α)
  | panic (v : Nat)
  | nilCall
  deriving Repr, DecidableEq

/-- state of the translated package + pending deferred calls (innermost first) -/
structure GS (σ tok : Type) where
  st : σ
  defers : List tok := []

def M (σ tok α : Type) := GS σ tok → Out α × GS σ tok

instance : Monad (M σ tok) where
  pure a := fun s => (.ok a, s)
  bind m f := fun s =>
    match m s with
    | (.ok a, s') => f a s'
    | (.panic v, s') => (.panic v, s')
    | (.nilCall, s') => (.nilCall, s')

/-- read / update the package state -/
def get : M σ tok σ := fun s => (.ok s.st, s)
def set (x : σ) : M σ tok Unit := fun s => (.ok (), { s with st := x })
def modify (f : σ → σ) : M σ tok Unit := fun s => (.ok (), { s with st := f s.st })
def raise (v : Nat) : M σ tok α := fun s => (.panic v, s)
def nilCall : M σ tok α := fun s => (.nilCall, s)

/-- `defer <call>` -/
def pushDefer (t : tok) : M σ tok Unit := fun s => (.ok (), { s with defers := t :: s.defers })

/-- run the deferred calls registered above height `h`, innermost first (a deferred call here never panics: what it
    returns besides the state is dropped) -/
def unwind (runTok : tok → M σ tok Unit) (h : Nat) : Nat → GS σ tok → GS σ tok
  | 0, s => s
  | n + 1, s =>
    if s.defers.length ≤ h then s
    else match s.defers with
      | [] => s
      | t :: rest => unwind runTok h n (runTok t { s with defers := rest }).2

/-- a Go function body: whatever way it is left, its deferred calls run before the caller continues -/
def goFunc (runTok : tok → M σ tok Unit) (body : M σ tok α) : M σ tok α := fun s =>
  let h := s.defers.length
  let r := body s
  (r.1, unwind runTok h r.2.defers.length r.2)

/-- Go's short-circuit operators over effectful operands -/
def goOr (a b : M σ tok Bool) : M σ tok Bool := do
  if (← a) then pure true else b
def goAnd (a b : M σ tok Bool) : M σ tok Bool := do
  if (← a) then b else pure false

class IsNil (α : Type) where
  isNil : α → Bool
class GoNil (α : Type) where
  nil : α
class GoZero (α : Type) where
  zero : α
export IsNil (isNil)

instance : IsNil (Option α) := ⟨Option.isNone⟩
instance : GoNil (Option α) := ⟨none⟩
instance : GoZero (Option α) := ⟨none⟩
instance : GoZero Int := ⟨0⟩
instance : GoZero Bool := ⟨false⟩

/-- calling a func-typed VALUE (a parameter, a local, a field read into a local) -/
class Call0 (m : Type → Type) (φ : Type) (β : outParam Type) where
  call : φ → m β
class Call1 (m : Type → Type) (φ α : Type) (β : outParam Type) where
  call : φ → α → m β
class Call2 (m : Type → Type) (φ α₁ α₂ : Type) (β : outParam Type) where
  call : φ → α₁ → α₂ → m β

/-- a pure Go closure of one argument (nil-able) -/
instance : Call1 (M σ tok) (Option (α → β)) α β where
  call f a := match f with
    | some g => pure (g a)
    | none => nilCall

/-- where times and durations are plain nanosecond integers (the consumers, the gate): `d.Nanoseconds()`, `t.Add(d)` -/
def _root_.Int.m_Nanoseconds (d : Int) : M σ tok Int := pure d
def _root_.Int.m_Add (t d : Int) : M σ tok Int := pure (t + d)
def _root_.Int.m_Sub (t u : Int) : M σ tok Int := pure (t - u)

/-- final state and outcome of running a translated function from package state `x` with no pending defers -/
def run (m : M σ tok α) (x : σ) : Out α × σ :=
  let r := m { st := x, defers := [] }
  (r.1, r.2.st)

end CM.Go

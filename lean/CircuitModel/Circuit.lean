/-
  Circuit.lean — sequential model of circuit.Circuit (circuit.go) following the Go control flow statement by
  statement: Execute / run / fallback / allowNewRun / the five check* functions / attemptToOpen / openCircuit /
  close / IsOpen / OpenCircuit / CloseCircuit / SetConfigThreadSafe.  It is parametric in the open/close logic
  (`OpenerI`, `CloserI`: any state type, any functions), so every theorem about it is quantified over *every*
  opener/closer pairing.  The clock is a counter: each `Now()` returns the current value and advances it by 1 ns
  (the harness's substitute clock does exactly that), so a timestamp identifies the reading that produced it.
-/
import CircuitModel.Basic
namespace CM

inductive Kind where
  | success | failure | timeout | badRequest | interrupt | reject | shortCircuit
  deriving Repr, DecidableEq

inductive FbKind where
  | success | failure | reject
  deriving Repr, DecidableEq

/-- a callback delivered by the circuit: run event, fallback event, or transition notification -/
inductive Emit where
  | run (k : Kind) (t : Int) (dur : Int)        -- dur = 0 for the two kinds without a duration
  | fb (k : FbKind) (t : Int) (dur : Int)
  | opened (t : Int)
  | closed (t : Int)
  deriving Repr, DecidableEq

/-- ClosedToOpen as the circuit uses it -/
structure OpenerI (σ : Type) where
  onRun : σ → Kind → Int → Int → σ
  onOpened : σ → Int → σ
  onClosed : σ → Int → σ
  shouldOpen : σ → Int → σ × Bool
  prevent : σ → Int → σ × Bool

/-- OpenToClosed as the circuit uses it -/
structure CloserI (σ : Type) where
  onRun : σ → Kind → Int → Int → σ
  onOpened : σ → Int → σ
  onClosed : σ → Int → σ
  shouldClose : σ → Int → σ × Bool
  allow : σ → Int → σ × Bool

inductive CtxErr where
  | canceled | deadline
  deriving Repr, DecidableEq

/-- error values: `plain id bad` is a caller-made error object with identity `id` whose `IsBadRequest` verdict is
    `bad` (computed from its shape by the driver: errors.As finds the first BadRequest implementor);
    `ctx` are the context package's sentinels; `open`/`conc` the library's rejections -/
inductive ErrV where
  | plain (id : Nat) (bad : Bool)
  | ctx (e : CtxErr)
  | circuitOpen
  | concLimit
  deriving Repr, DecidableEq

def ErrV.isBad : ErrV → Bool
  | .plain _ b => b
  | _ => false

/-- the live (atomic) configuration mirror + the stored config's IsErrInterrupt -/
inductive IEI where
  | unset | always | never | onlyCanceled
  deriving Repr, DecidableEq

structure LiveCfg where
  forceOpen : Bool := false
  forcedClosed : Bool := false
  disabled : Bool := false
  timeout : Int := 0
  maxConc : Int := 10
  ignoreInterrupts : Bool := false
  fbDisabled : Bool := false
  fbMaxConc : Int := 10
  iei : IEI := .unset
  deriving Repr, DecidableEq

def IEI.verdict : IEI → CtxErr → Bool
  | .unset, _ => true
  | .always, _ => true
  | .never, _ => false
  | .onlyCanceled, e => e == .canceled

/-- caller context: optional deadline, whether it is already done, whether it carries the probe value -/
structure CallerCtx where
  deadline : Option Int := none
  err : Option CtxErr := none
  hasVal : Bool := false
  deriving Repr, DecidableEq

/-- what a protected function does when invoked -/
inductive Action where
  | ret (e : Option ErrV)          -- return this value
  | retCtxErr                      -- return the Err() of the context it was handed
  | panic (v : Nat)
  deriving Repr, DecidableEq

structure Script where
  adv : Int := 0                   -- advance the clock by this much while running
  cancelCaller : Bool := false     -- the caller's context is cancelled while the function runs
  act : Action := .ret none
  deriving Repr, DecidableEq

/-- what the function observed about the context it was handed -/
structure Seen where
  deadline : Option Int
  hasVal : Bool
  err : Option CtxErr
  sameAsCaller : Bool              -- is it the caller's context itself (no derived context)?
  deriving Repr, DecidableEq

structure Circ (σo σc : Type) where
  cfg : LiveCfg := {}
  isOpen : Bool := false
  conc : Int := 0
  concFb : Int := 0
  clock : Int := 0
  opener : σo
  closer : σc

/-- per-call observations -/
structure Obs where
  emits : List Emit := []
  readings : List Int := []
  runSeen : Option Seen := none
  fbArg : Option ErrV := none      -- some e ⇔ the fallback was invoked with e
  fbSameCtx : Bool := true
  released : Option Bool := none   -- some b ⇔ a derived context existed; b = it was released by the time the call returned
  deriving Repr, DecidableEq

inductive Res where
  | ret (e : Option ErrV)
  | panic (v : Nat)
  | nilFunc                        -- Go: call of a nil func value
  deriving Repr, DecidableEq

section
variable {σo σc : Type} (O : OpenerI σo) (C : CloserI σc)

abbrev St (σo σc : Type) := Circ σo σc × Obs

def now (s : St σo σc) : Int × St σo σc :=
  (s.1.clock, ({ s.1 with clock := s.1.clock + 1 }, { s.2 with readings := s.2.readings ++ [s.1.clock] }))

def isOpenEff (c : Circ σo σc) : Bool :=
  if c.cfg.forceOpen then true else if c.cfg.forcedClosed then false else c.isOpen

/-- deliver one run event to closer, opener and (observably) every run collector -/
def emitRun (s : St σo σc) (k : Kind) (t dur : Int) : St σo σc :=
  ({ s.1 with closer := C.onRun s.1.closer k t dur, opener := O.onRun s.1.opener k t dur },
   { s.2 with emits := s.2.emits ++ [.run k t dur] })

def emitFb (s : St σo σc) (k : FbKind) (t dur : Int) : St σo σc :=
  (s.1, { s.2 with emits := s.2.emits ++ [.fb k t dur] })

/-- `openCircuit(ctx, now)` -/
def openCircuit (s : St σo σc) (t : Int) : St σo σc :=
  if s.1.cfg.forcedClosed then s
  else if isOpenEff s.1 then s
  else
    ({ s.1 with closer := C.onOpened s.1.closer t, opener := O.onOpened s.1.opener t, isOpen := true },
     { s.2 with emits := s.2.emits ++ [.opened t] })

/-- `attemptToOpen(ctx, now)` -/
def attemptToOpen (s : St σo σc) (t : Int) : St σo σc :=
  if s.1.cfg.forcedClosed then s
  else if isOpenEff s.1 then s
  else
    let (o, ans) := O.shouldOpen s.1.opener t
    let s : St σo σc := ({ s.1 with opener := o }, s.2)
    if ans then openCircuit O C s t else s

/-- `close(ctx, now, forceClosed)` -/
def closeCircuit (s : St σo σc) (t : Int) (force : Bool) : St σo σc :=
  if !isOpenEff s.1 then s
  else if s.1.cfg.forceOpen then s
  else
    let (s, ans) : St σo σc × Bool :=
      if force then (s, true)
      else let (c, a) := C.shouldClose s.1.closer t; (({ s.1 with closer := c }, s.2), a)
    if ans then
      ({ s.1 with closer := C.onClosed s.1.closer t, opener := O.onClosed s.1.opener t, isOpen := false },
       { s.2 with emits := s.2.emits ++ [.closed t] })
    else s

/-- `allowNewRun(ctx, now)` -/
def allowNewRun (s : St σo σc) (t : Int) : St σo σc × Bool :=
  if !isOpenEff s.1 then (s, true)
  else if s.1.cfg.forceOpen then (s, false)
  else
    let (c, a) := C.allow s.1.closer t
    (({ s.1 with closer := c }, s.2), a)

/-- the context handed to the run function and what it looks like from inside -/
def derivedSeen (cfg : LiveCfg) (ctx : CallerCtx) (start : Int) : Seen :=
  if cfg.timeout > 0 then
    let d := start + cfg.timeout
    { deadline := some (match ctx.deadline with | some cd => if cd < d then cd else d | none => d),
      hasVal := ctx.hasVal, err := ctx.err, sameAsCaller := false }
  else { deadline := ctx.deadline, hasVal := ctx.hasVal, err := ctx.err, sameAsCaller := true }

/-- error state of the caller's context after the function ran -/
def ctxErrAfter (ctx : CallerCtx) (sc : Script) : Option CtxErr :=
  match ctx.err with
  | some e => some e
  | none => if sc.cancelCaller then some .canceled else none

/-- value a function returns for `retCtxErr`: the Err() of the context it holds, after any cancellation it caused -/
def actValue (sc : Script) (ctxErr : Option CtxErr) : Option ErrV :=
  match sc.act with
  | .ret e => e
  | .retCtxErr => ctxErr.map ErrV.ctx
  | .panic _ => none

/-- the classification chain after runFunc returned `ret` (steps 9 of `run`) -/
def classify (s : St σo σc) (ctx : CallerCtx) (sc : Script) (ret : Option ErrV) (start : Int) : St σo σc :=
  let (endT, s) := now s
  let total := endT - start
  let (doneT, s) := now s
  if (match ret with | some e => e.isBad | none => false) then emitRun O C s .badRequest doneT total
  else if s.1.cfg.timeout > 0 ∧ start + s.1.cfg.timeout < doneT then
    let s := emitRun O C s .timeout doneT total
    if !isOpenEff s.1 then attemptToOpen O C s doneT else s
  else
    let callerErr := ctxErrAfter ctx sc
    if ret.isSome && callerErr.isSome && !s.1.cfg.ignoreInterrupts &&
        (match callerErr with | some e => s.1.cfg.iei.verdict e | none => false) then
      emitRun O C s .interrupt doneT total
    else if ret.isSome then
      let s := emitRun O C s .failure doneT total
      if !isOpenEff s.1 then attemptToOpen O C s doneT else s
    else
      let s := emitRun O C s .success doneT total
      if isOpenEff s.1 then closeCircuit O C s doneT false else s

/-- `run(ctx, runFunc)`; `none` script = nil runFunc -/
def runStep (s : St σo σc) (ctx : CallerCtx) (run : Option Script) : St σo σc × Res :=
  match run with
  | none => (s, .ret none)
  | some sc =>
    let (start, s) := now s
    let (s, allowed) := allowNewRun C s start
    if !allowed then (emitRun O C s .shortCircuit start 0, .ret (some .circuitOpen))
    else
      let (o, pv) := O.prevent s.1.opener start
      let s : St σo σc := ({ s.1 with opener := o }, s.2)
      if pv then (s, .ret (some .circuitOpen))
      else
        let s : St σo σc := ({ s.1 with conc := s.1.conc + 1 }, s.2)
        if s.1.cfg.maxConc ≥ 0 ∧ s.1.conc > s.1.cfg.maxConc then
          let s := emitRun O C s .reject start 0
          (({ s.1 with conc := s.1.conc - 1 }, s.2), .ret (some .concLimit))
        else
          let seen := derivedSeen s.1.cfg ctx start
          let derived := !seen.sameAsCaller
          -- invoke runFunc
          let s : St σo σc := ({ s.1 with clock := s.1.clock + sc.adv }, { s.2 with runSeen := some seen })
          let after := ctxErrAfter ctx sc
          match sc.act with
          | .panic v =>
            (({ s.1 with conc := s.1.conc - 1 }, { s.2 with released := if derived then some true else none }), .panic v)
          | _ =>
            let ret := actValue sc after
            let s := classify O C s ctx sc ret start
            (({ s.1 with conc := s.1.conc - 1 }, { s.2 with released := if derived then some true else none }), .ret ret)

/-- `fallback(ctx, err, fallbackFunc)` -/
def fallbackStep (s : St σo σc) (ctx : CallerCtx) (runSc : Option Script) (err : ErrV) (fb : Option Script) : St σo σc × Res :=
  match fb with
  | none => (s, .ret (some err))
  | some sc =>
    if s.1.cfg.fbDisabled then (s, .ret (some err))
    else
      let s : St σo σc := ({ s.1 with concFb := s.1.concFb + 1 }, s.2)
      if s.1.cfg.fbMaxConc ≥ 0 ∧ s.1.concFb > s.1.cfg.fbMaxConc then
        let (t, s) := now s
        let s := emitFb s .reject t 0
        (({ s.1 with concFb := s.1.concFb - 1 }, s.2), .ret (some .concLimit))
      else
        let (start, s) := now s
        let s : St σo σc := ({ s.1 with clock := s.1.clock + sc.adv }, { s.2 with fbArg := some err, fbSameCtx := true })
        match sc.act with
        | .panic v => (({ s.1 with concFb := s.1.concFb - 1 }, s.2), .panic v)
        | _ =>
          -- the run function's own cancellation of the caller's context happened only if it was invoked
          let callerErr := match runSc with
            | some r => if s.2.runSeen.isSome then ctxErrAfter ctx r else ctx.err
            | none => ctx.err
          let callerErr := match callerErr with | some e => some e | none => if sc.cancelCaller then some .canceled else none
          let r := actValue sc callerErr
          let (endT, s) := now s
          let total := endT - start
          let s := match r with
            | some _ => emitFb s .failure start total
            | none => emitFb s .success start total
          (({ s.1 with concFb := s.1.concFb - 1 }, s.2), .ret r)

/-- `Execute(ctx, runFunc, fallbackFunc)` on a non-nil, constructed circuit -/
def execute (c : Circ σo σc) (ctx : CallerCtx) (run fb : Option Script) : Circ σo σc × Obs × Res :=
  let s : St σo σc := (c, {})
  if c.cfg.disabled then
    -- pass-through: `return runFunc(ctx)`
    match run with
    | none => (c, {}, .nilFunc)
    | some sc =>
      let seen : Seen := { deadline := ctx.deadline, hasVal := ctx.hasVal, err := ctx.err, sameAsCaller := true }
      let c := { c with clock := c.clock + sc.adv }
      let obs : Obs := { runSeen := some seen }
      match sc.act with
      | .panic v => (c, obs, .panic v)
      | _ => (c, obs, .ret (actValue sc (ctxErrAfter ctx sc)))
  else
    let (s, r) := runStep O C s ctx run
    match r with
    | .ret none => (s.1, s.2, .ret none)
    | .ret (some e) =>
      if e.isBad then (s.1, s.2, .ret (some e))
      else
        let (s, r) := fallbackStep s ctx run e fb
        (s.1, s.2, r)
    | other => (s.1, s.2, other)

/-- `OpenCircuit(ctx)`: stamps the configured clock -/
def manualOpen (c : Circ σo σc) : Circ σo σc × Obs :=
  let (t, s) := now ((c, {}) : St σo σc)
  openCircuit O C s t

/-- `CloseCircuit(ctx)` -/
def manualClose (c : Circ σo σc) : Circ σo σc × Obs :=
  let (t, s) := now ((c, {}) : St σo σc)
  closeCircuit O C s t true

/-- `SetConfigThreadSafe(cfg)` (the live mirror; hystrix logic is not `Configurable`) -/
def setConfig (c : Circ σo σc) (cfg : LiveCfg) : Circ σo σc := { c with cfg := cfg }

end
end CM

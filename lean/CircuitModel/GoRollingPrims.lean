/-
  GoRollingPrims.lean — what the names in faststats/rolling_bucket.go (`RollingBuckets.Advance`) and
  faststats/rolling_counter.go (`RollingCounter`'s methods) MEAN in terms of the model `RC` (RollingCounter.lean):
  the atomic words are the model's fields, CompareAndSwap has its SEQUENTIAL meaning (it succeeds iff the word holds the
  expected value — lost races are the business of the small-step model `Conc/RC`, C14), times are offsets from
  `StartTime`, Go's `/` and `%` on ints truncate.
  Two units share the state: in unit B (`Advance`) the clear callback is the model's `RC.clear` (tied to
  `RollingCounter.clearBucket` in unit C: `go_clearBucket_eq`); in unit C `r.rollingBucket.Advance(now, r.clearBucket)` is
  the model's `RC.advance` (tied to the translated `Advance` in unit B: `go_Advance_eq`).
  Hand-written, trusted; the bodies are regenerated (Generated/GoRollingBuckets, Generated/GoRollingCounter).
-/
import CircuitModel.RollingCounter
import CircuitModel.GoConsumerPrims
namespace CM.GoRolling
open CM CM.Go

abbrev QM := M RC NoTok
def fn (body : QM α) : QM α := goFunc noTok body

/-- a function that calls itself is translated with a fuel argument; this is what running out of it yields -/
def goOutOfFuel : QM α := Go.nilCall

def goRange (n : Int) : List Int := (List.range n.toNat).map Int.ofNat
def goDiv (a b : Int) : Int := tdiv a b
def goMod (a b : Int) : Int := Int.tmod a b
def goMakeZeros (n : Int) : List Int := List.replicate n.toNat 0
def goSet (l : List Int) (i v : Int) : List Int := l.set i.toNat v
def goLen (l : List α) : Int := l.length
def pkg_int (x : Int) : QM Int := pure x
def pkg_int64 (x : Int) : QM Int := pure x

/-- `func(int)`: only the counter's own `clearBucket` is ever passed -/
inductive ClearFn where
  | counter
  deriving Repr, DecidableEq

/-- `Advance`'s answer as Go returns it -/
def idxOf : Option Nat → Int
  | none => -1
  | some i => i

namespace B
def recv_NumBuckets : QM Int := rd fun c => (c.n : Int)
def recv_StartTime : QM Int := pure 0
def recv_BucketWidth_Nanoseconds : QM Int := rd (·.w)
def recv_LastAbsIndex_Get : QM Int := rd fun c => (c.last : Int)
def recv_LastAbsIndex_CompareAndSwap (old new : Int) : QM Bool :=
  updRet fun c => if (c.last : Int) = old then ({ c with last := new.toNat }, true) else (c, false)
instance : Call1 QM ClearFn Int Unit where
  call _ idx := upd fun c => c.clear idx.toNat
end B

namespace C
def recvMethod_clearBucket : ClearFn := .counter
def recv_totalSum_Add (n : Int) : QM Int := updRet fun c => ({ c with total := c.total + n }, c.total + n)
def recv_totalSum_Get : QM Int := rd (·.total)
def recv_rollingSum_Add (n : Int) : QM Int := updRet fun c => ({ c with rolling := c.rolling + n }, c.rolling + n)
def recv_rollingSum_Get : QM Int := rd (·.rolling)
def recv_buckets : QM (List Int) := rd (·.buckets)
def recv_buckets_at_Add (idx n : Int) : QM Int :=
  updRet fun c => ({ c with buckets := c.buckets.set idx.toNat (c.buckets.getD idx.toNat 0 + n) }, c.buckets.getD idx.toNat 0 + n)
def recv_buckets_at_Swap (idx v : Int) : QM Int :=
  updRet fun c => ({ c with buckets := c.buckets.set idx.toNat v }, c.buckets.getD idx.toNat 0)
def recv_buckets_at_Get (idx : Int) : QM Int := rd fun c => c.buckets.getD idx.toNat 0
def recv_rollingBucket_Advance (now : Int) (_ : ClearFn) : QM Int := updRet fun c => ((c.advance now).1, idxOf (c.advance now).2)
def recv_rollingBucket_LastAbsIndex_Get : QM Int := rd fun c => (c.last : Int)
def recv_rollingBucket_NumBuckets : QM Int := rd fun c => (c.n : Int)
end C

end CM.GoRolling

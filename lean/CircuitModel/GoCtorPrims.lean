/-
  GoCtorPrims.lean — what the names mean in the translated bodies of six small units (tools/extract/gotrans/units_ctor.go):

    GoCtor         circuit.go   `NewCircuitFromConfig`          (a circuit VALUE under construction; `Merge` is a primitive;
                                                                 `ret.SetConfigNotThreadSafe(cfg)` IS the translated body of unit GoSetCfg)
    GoCircMisc     circuit.go   `Circuit.Name`, `Circuit.Go`     (the receiver may be nil; `Execute` and the goroutine wrapper are primitives)
    GoManagerAll   manager.go   `Manager.AllCircuits`            (the map is ranged over in an order the state chooses)
    GoTCHook       timedcheck.go `TimedCheck.afterFunc`, `SetTimeAfterFunc`  (which timer factory is called, with what)
    GoSloFactory   responsetime.go `Factory.getConfig`, `Factory.CommandProperties`
    GoRollingStore rolling_bucket.go `RollingBuckets.Store`

  Hand-written, trusted; the bodies are regenerated (Generated/<Unit>/F_*.lean).  Core Lean only.
-/
import CircuitModel.GoSetCfgPrims
import CircuitModel.GoManagerPrims
import CircuitModel.GoTimedCheckPrims
import CircuitModel.GoLiveLogicPrims
import Generated.GoSetCfg.F_SetConfigNotThreadSafe
import Generated.GoSloCfg.F_SetConfigThreadSafe
namespace CM
open CM.Go

/-- run a translated method of ANOTHER object (own state `τ`, own defer stack, starting empty) from inside a function whose
    state is `σ`: the outcome is passed on, the object's state afterwards is handed back -/
def runOn {σ tok τ tok' α : Type} (m : M τ tok' α) (x : τ) : M σ tok (α × τ) := fun g =>
  match m { st := x, defers := [] } with
  | (.ok a, g') => (.ok (a, g'.st), g)
  | (.panic v, _) => (.panic v, g)
  | (.nilCall, _) => (.nilCall, g)

/-! ## GoCtor — `NewCircuitFromConfig` -/
namespace GoCtor
abbrev CfgB := GoSetCfg.CfgB
abbrev BuildW := GoSetCfg.BuildW

/-- the package state of circuit.go as this function sees it: what `Config.Merge` computes (tied to the source by C19's
    regenerated merge programs; ANY function here) -/
structure CtorW where
  merge : CfgB → CfgB → CfgB
abbrev NCM := M CtorW NoTok
def fn (body : NCM α) : NCM α := goFunc noTok body

/-- a `Circuit` value under construction: the two fields the literal names, and everything else (zero) -/
structure Circuit where
  name : String
  notThreadSafeConfig : CfgB
  rest : BuildW := {}

/-- the circuit as unit GoSetCfg sees it: the stored config is the `notThreadSafeConfig` field -/
def Circuit.toW (c : Circuit) : BuildW := { c.rest with stored := c.notThreadSafeConfig.tag, storedCfg := some c.notThreadSafeConfig }
/-- … and back (a circuit whose config was stored) -/
def Circuit.ofW (name : String) (dflt : CfgB) (w : BuildW) : Circuit := { name := name, notThreadSafeConfig := w.storedCfg.getD dflt, rest := w }

/-- `defaultCommandProperties` (config.go): 1 s timeout, 10 / 10 concurrent, the never-opens / never-closes factories (not
    Configurable), wall-clock hooks (identity 1), NO collectors -/
def pkg_defaultCommandProperties : CfgB :=
  { tag := 0, f_General_GoLostErrors := 0, f_General_TimeKeeper_Now := 1, closerConf := false, openerConf := false,
    f_Metrics_Run := [], f_Metrics_Fallback := [], f_Metrics_Circuit := [],
    live := { f_General_ForceOpen := false, f_General_ForcedClosed := false, f_General_Disabled := false, f_Execution_Timeout := 1000000000,
              f_Execution_MaxConcurrentRequests := 10, f_Execution_IgnoreInterrupts := false, f_Fallback_Disabled := false,
              f_Fallback_MaxConcurrentRequests := 10 } }

/-- `config.Merge(other)` on the function's own copy of the config -/
def CfgB.m_Merge (c other : CfgB) : NCM CfgB := rd fun w => w.merge c other

/-- `ret.SetConfigNotThreadSafe(config)`: the translated body of unit GoSetCfg, run on the new circuit -/
def Circuit.m_SetConfigNotThreadSafe (c : Circuit) (cfg : CfgB) : NCM Circuit := do
  let r ← runOn (CM.Generated.GoSetCfg.go_SetConfigNotThreadSafe cfg) c.toW
  pure (Circuit.ofW c.name c.notThreadSafeConfig r.2)

/-! statement side -/
/-- the circuit `NewCircuitFromConfig(name, cfg)` returns, `merged` being `cfg` merged with the package defaults: a zero
    circuit with that name on which `SetConfigNotThreadSafe(merged)` ran -/
def newCircuit (name : String) (merged : CfgB) : Circuit :=
  { name := name, notThreadSafeConfig := merged, rest := ({ stored := merged.tag, storedCfg := some merged } : GoSetCfg.BuildW).rebuild merged }

/-- a merge that fills gaps the way `Config.Merge` does (enough for the examples): hooks and settings when unset, switches
    or-ed, lists receiver-then-other -/
def stdMerge (a b : CfgB) : CfgB :=
  { tag := a.tag,
    f_General_GoLostErrors := if a.f_General_GoLostErrors = 0 then b.f_General_GoLostErrors else a.f_General_GoLostErrors,
    f_General_TimeKeeper_Now := if a.f_General_TimeKeeper_Now = 0 then b.f_General_TimeKeeper_Now else a.f_General_TimeKeeper_Now,
    closerConf := a.closerConf, openerConf := a.openerConf,
    f_Metrics_Run := a.f_Metrics_Run ++ b.f_Metrics_Run, f_Metrics_Fallback := a.f_Metrics_Fallback ++ b.f_Metrics_Fallback,
    f_Metrics_Circuit := a.f_Metrics_Circuit ++ b.f_Metrics_Circuit,
    live := { f_General_ForceOpen := a.live.f_General_ForceOpen || b.live.f_General_ForceOpen,
              f_General_ForcedClosed := a.live.f_General_ForcedClosed || b.live.f_General_ForcedClosed,
              f_General_Disabled := a.live.f_General_Disabled || b.live.f_General_Disabled,
              f_Execution_Timeout := if a.live.f_Execution_Timeout = 0 then b.live.f_Execution_Timeout else a.live.f_Execution_Timeout,
              f_Execution_MaxConcurrentRequests :=
                if a.live.f_Execution_MaxConcurrentRequests = 0 then b.live.f_Execution_MaxConcurrentRequests else a.live.f_Execution_MaxConcurrentRequests,
              f_Execution_IgnoreInterrupts := a.live.f_Execution_IgnoreInterrupts || b.live.f_Execution_IgnoreInterrupts,
              f_Fallback_Disabled := a.live.f_Fallback_Disabled || b.live.f_Fallback_Disabled,
              f_Fallback_MaxConcurrentRequests :=
                if a.live.f_Fallback_MaxConcurrentRequests = 0 then b.live.f_Fallback_MaxConcurrentRequests else a.live.f_Fallback_MaxConcurrentRequests } }
end GoCtor

/-! ## GoCircMisc — `Circuit.Name`, `Circuit.Go` -/
namespace GoCircMisc
/-- the receiver pointer: nil or a circuit -/
structure Recv where
  isNilPtr : Bool
  deriving Repr, DecidableEq
instance : IsNil Recv := ⟨(·.isNilPtr)⟩

/-- `goroutineWrapper` as a value: its two fields (0 = nil hook) -/
structure GW where
  lostErrors : Nat := 0
  skipCatchPanics : Bool := false
  deriving Repr, DecidableEq
instance : GoZero GW := ⟨{}⟩

abbrev Ctx := Nat
abbrev Err := Option Nat
/-- user functions by identity (`none` = nil) -/
abbrev RunFn := Option Nat
abbrev FbFn := Option Nat
/-- what is handed to `Execute`: a function made by `wrapper.run` / `wrapper.fallback` from a user function -/
inductive Wrapped where
  | run (w : GW) (f : RunFn)
  | fallback (w : GW) (f : FbFn)
  deriving Repr, DecidableEq

/-- the circuit's fields these two functions read, the calls of `Execute` they make, and what `Execute` will answer -/
structure MiscW where
  name : String := ""
  wrapper : GW := {}
  execCalls : List (Ctx × Wrapped × Wrapped) := []
  execAnswer : Ctx → Wrapped → Wrapped → Err := fun _ _ _ => none
abbrev CMM := M MiscW NoTok
def fn (body : CMM α) : CMM α := goFunc noTok body

def recv_name : CMM String := rd (·.name)
/-- `c.Execute(ctx, r, f)` (its own body: unit GoCircuit, works on a nil receiver too) -/
def recv_Execute (ctx : Ctx) (r f : Wrapped) : CMM Err :=
  updRet fun w => ({ w with execCalls := w.execCalls ++ [(ctx, r, f)] }, w.execAnswer ctx r f)
/-- `wrapper.run(f)` / `wrapper.fallback(f)` on a LOCAL wrapper value; gowrapper.go (goroutines, channels) is not translated -/
def GW.m_run (w : GW) (f : RunFn) : CMM Wrapped := pure (.run w f)
def GW.m_fallback (w : GW) (f : FbFn) : CMM Wrapped := pure (.fallback w f)
/-- … and on the circuit's own wrapper -/
def recv_goroutineWrapper_run (f : RunFn) : CMM Wrapped := rd fun w => .run w.wrapper f
def recv_goroutineWrapper_fallback (f : FbFn) : CMM Wrapped := rd fun w => .fallback w.wrapper f

/-- statement side: the wrapper `Go` uses -/
def wrapperOf (recv : Recv) (w : MiscW) : GW := if recv.isNilPtr then {} else w.wrapper
end GoCircMisc

/-! ## GoManagerAll — `Manager.AllCircuits` -/
namespace GoManagerAll
open CM.Mgr
structure Recv where
  isNilPtr : Bool
  deriving Repr, DecidableEq
instance : IsNil Recv := ⟨(·.isNilPtr)⟩
abbrev CircP := Option Circuit
instance : GoNil (List CircP) := ⟨[]⟩

/-- the registry (model `Mgr.State`) and the order in which THIS range over the map visits the entries (Go leaves it
    unspecified: any function; the statements ask it to be a permutation) -/
structure AllW where
  s : State
  order : List (String × Circuit) → List (String × Circuit) := id
  rlocks : Nat := 0           -- RLock / RUnlock calls so far
  runlocks : Nat := 0
  stuck : Bool := false
abbrev AM := M AllW String
def runTok : String → AM Unit
  | "recv_mu_RUnlock" => upd fun w => { w with runlocks := w.runlocks + 1 }
  | _ => upd fun w => { w with stuck := true }
def deferPrim (call : String) : AM Unit := Go.pushDefer call
def fn (body : AM α) : AM α := goFunc runTok body
def recv_mu_RLock : AM Unit := upd fun w => { w with rlocks := w.rlocks + 1 }
/-- the values of `h.circuitMap`, as a `range` meets them -/
def recv_circuitMap : AM (List CircP) := rd fun w => (w.order w.s.circuits).map fun e => some e.2
def goLen (l : List α) : Int := l.length
end GoManagerAll

/-! ## GoTCHook — `TimedCheck.afterFunc`, `TimedCheck.SetTimeAfterFunc` -/
namespace GoTCHook
open CM.GoTimedCheck
abbrev Clo := GoTimedCheck.Clo
/-- an injected `TimeAfterFunc` by identity (`none` = nil) -/
abbrev Hook := Option Nat
abbrev Timer := Option Nat
/-- who was asked to arm a timer -/
inductive Factory where
  | stdlib                -- `time.AfterFunc`
  | injected (h : Nat)    -- the `TimeAfterFunc` field
  deriving Repr, DecidableEq

/-- the gate (unit GoTimedCheck's state) + the hook field + every timer-factory call: who, duration, closure -/
structure HookW where
  w : TCW
  hook : Hook := none
  asked : List (Factory × Int × Clo) := []
abbrev HM := M HookW String
def fn (body : HM α) : HM α := goFunc (fun _ => pure ()) body
def recv_mu_Lock : HM Unit := pure ()
def recv_mu_Unlock : HM Unit := pure ()

/-- a timer factory was called with `(d, f)`: besides the record of who was asked, exactly what unit GoTimedCheck's
    PRIMITIVE `recv_afterFunc d f` does to the gate (the closure is in the environment's hands; timer identity) -/
def arm (who : Factory) (d : Int) (f : Clo) : HM Timer := fun g =>
  let r := GoTimedCheck.recv_afterFunc d f { st := g.st.w, defers := [] }
  (.ok (some g.st.w.clos.length), { g with st := { g.st with w := r.2.st, asked := g.st.asked ++ [(who, d, f)] } })

namespace Field
/-- reading the field `c.TimeAfterFunc` -/
def recv_TimeAfterFunc : HM Hook := rd (·.hook)
end Field
namespace Call
/-- CALLING the field `c.TimeAfterFunc(d, f)` (nil: Go's nil-func panic) -/
def recv_TimeAfterFunc (d : Int) (f : Clo) : HM Timer := fun g =>
  match g.st.hook with
  | some h => arm (.injected h) d f g
  | none => (.nilCall, g)
end Call
def recv_TimeAfterFunc_set (h : Hook) : HM Unit := upd fun w => { w with hook := h }
def time_AfterFunc (d : Int) (f : Clo) : HM Timer := arm .stdlib d f

/-- statement side: the factory `afterFunc` asks -/
def factoryOf (w : HookW) : Factory := match w.hook with | some h => .injected h | none => .stdlib
end GoTCHook

/-! ## GoSloFactory — `Factory.getConfig`, `Factory.CommandProperties` -/
namespace GoSloFactory
open CM.Cons
/-- `responsetimeslo.Config` (0 = unset) -/
structure Config where
  f_MaximumHealthyTime : Int := 0
  deriving Repr, DecidableEq
/-- `Config.Merge`: fill the gap (tied to the source by C19) -/
def Config.merge (a b : Config) : Config := if a.f_MaximumHealthyTime = 0 then b else a
/-- `defaultConfig`: 250 ms -/
def pkg_defaultConfig : Config := { f_MaximumHealthyTime := 250000000 }

/-- user-supplied constructors by identity; what they return for a circuit name -/
structure CfgCtor where
  id : Nat
  make : String → Config
structure Collector where
  id : Nat
  name : String
  deriving Repr, DecidableEq
structure CollCtor where
  id : Nat

/-- the factory's three fields and the constructor calls made so far (constructor identity, argument) -/
structure FacW where
  config : Config := {}
  cfgCtors : List CfgCtor := []
  collCtors : List CollCtor := []
  cfgCalls : List (Nat × String) := []
  collCalls : List (Nat × String) := []
abbrev FAM := M FacW NoTok
def fn (body : FAM α) : FAM α := goFunc noTok body

def Config.m_Merge (a b : Config) : FAM Config := pure (a.merge b)
def goLen (l : List α) : Int := l.length
def goCountdown (n : Int) : List Int := ((List.range n.toNat).map Int.ofNat).reverse
def recv_Config : FAM Config := rd (·.config)
def recv_ConfigConstructor : FAM (List CfgCtor) := rd (·.cfgCtors)
/-- `r.ConfigConstructor[i](name)` -/
def recv_ConfigConstructor_call (i : Int) (name : String) : FAM Config := fun g =>
  match g.st.cfgCtors[i.toNat]? with
  | none => (.nilCall, g)
  | some c => (.ok (c.make name), { g with st := { g.st with cfgCalls := g.st.cfgCalls ++ [(c.id, name)] } })
def recv_CollectorConstructors : FAM (List CollCtor) := rd (·.collCtors)
instance : Call1 FAM CollCtor String Collector where
  call c name := updRet fun w => ({ w with collCalls := w.collCalls ++ [(c.id, name)] }, { id := c.id, name := name })

/-- a `Tracker` value: its collectors, and the part unit GoSloCfg works on (the `Slo` words + stored config); the zero
    value has zero counters and a zero healthy time -/
structure Tracker where
  Collectors : List Collector := []
  w : GoSloCfg.W := { slo := { maxHealthy := 0 } }
def toSlo (c : Config) : GoSloCfg.SloConfig := { tag := 0, f_MaximumHealthyTime := c.f_MaximumHealthyTime }
/-- `tracker.SetConfigThreadSafe(cfg)`: the translated body of unit GoSloCfg, run on the new tracker -/
def Tracker.m_SetConfigThreadSafe (t : Tracker) (cfg : Config) : FAM Tracker := do
  let r ← runOn (CM.Generated.GoSloCfg.go_SetConfigThreadSafe (toSlo cfg)) t.w
  pure { t with w := r.2 }

/-- `circuit.Config` / `circuit.MetricsCollectors` as this function fills them (every other section stays zero) -/
structure circuit_MetricsCollectors where
  Run : List Tracker := []
structure circuit_Config where
  Metrics : circuit_MetricsCollectors := {}

/-! statement side -/
/-- the constructors' answers in the order of PRECEDENCE the code gives them: last constructor first, then the factory's own
    `Config`, then the package default -/
def layers (w : FacW) (name : String) : List Config := (w.cfgCtors.reverse.map fun c => c.make name) ++ [w.config, pkg_defaultConfig]
/-- the first layer that sets the healthy time wins -/
def specConfig (w : FacW) (name : String) : Config := (layers w name).foldl Config.merge {}
/-- the factory after `getConfig(name)`: every config constructor was called once, from LAST to first -/
def FacW.afterGet (w : FacW) (name : String) : FacW := { w with cfgCalls := w.cfgCalls ++ w.cfgCtors.reverse.map fun c => (c.id, name) }
/-- the tracker `CommandProperties(name)` makes -/
def newTracker (w : FacW) (name : String) : Tracker :=
  { Collectors := w.collCtors.map fun c => { id := c.id, name := name },
    w := { slo := { maxHealthy := (specConfig w name).f_MaximumHealthyTime }, config := some (toSlo (specConfig w name)) } }
end GoSloFactory

/-! ## GoRollingStore — `RollingBuckets.Store` -/
namespace GoRollingStore
/-- a `RollingBuckets`: three plain fields and one atomic word -/
structure RB where
  f_NumBuckets : Int := 0
  f_StartTime : Int := 0
  f_BucketWidth : Int := 0
  lastAbsIndex : Int := 0
  deriving Repr, DecidableEq
abbrev RSM := M RB NoTok
def fn (body : RSM α) : RSM α := goFunc noTok body
def recv_NumBuckets_set (n : Int) : RSM Unit := upd fun r => { r with f_NumBuckets := n }
def recv_StartTime_set (t : Int) : RSM Unit := upd fun r => { r with f_StartTime := t }
def recv_BucketWidth_set (d : Int) : RSM Unit := upd fun r => { r with f_BucketWidth := d }
def recv_LastAbsIndex_Store (v : Int) : RSM Unit := upd fun r => { r with lastAbsIndex := v }
def RB.m_LastAbsIndex_Get (b : RB) : RSM Int := pure b.lastAbsIndex
end GoRollingStore

end CM

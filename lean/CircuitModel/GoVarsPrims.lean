/-
  GoVarsPrims.lean — what the names MEAN in the translated bodies of the expvar publishing methods (tag "vars"):
    Fb    `(*FallbackStats).Var`            metrics/rolling/rolling.go                — unit GoFbStatsVar
    Run   `(*RunStats).Var`                 metrics/rolling/rolling.go                — unit GoRunStatsVar
    Slo   `(*Tracker).Var`                  metrics/responsetimeslo/responsetime.go   — unit GoSloVar
    RPV   `(*RollingPercentile).Var`        faststats/rolling_percentile.go           — unit GoRPVar
    Mgr   `(*Manager).Var`                  manager.go                                — unit GoManagerVar
    E2V   `expvarToVal`                     metrics.go                                — unit GoExpvarToVal
    Fan   `RunMetricsCollection.Var`, `FallbackMetricsCollection.Var`   metrics.go    — units GoFanRunVar, GoFanFbVar
    Circ  `(*Circuit).Var`                  circuit.go                                — unit GoCircuitVar

  Every one of them is `return expvar.Func(func() interface{} { … })`.  `expvar.Func(f)` is a type conversion; the function
  value is first order (`CloV`: the generated name of its body, the receiver it closes over — `()` where the receiver is
  the pointer to THE object that is the state, the slice of collector pointers for the two collections, the circuit pointer
  (nil or not) for the circuit — and its captured locals: there are none, and a captured local has no type in these units,
  so a body that captured one would not translate).  EVALUATING the value — what `expvar` does when the variable is read,
  and what `expvarToVal` / `evar.ForExpvar` do through `Value()` — is the generated `go_Var_lit1_eval`, run on the state OF
  THAT MOMENT.

  An expvar value (`interface{}` on its way to `encoding/json`) is a small tree `EV`.  Boxing a Go value into `interface{}`
  is a coercion into `EV` (an int64, a bool, a string; a struct or interface value that is not looked into — the SLO
  config, the circuit's Config, the closer / opener objects, a pointer to a live RollingCounter — is an opaque `handle`
  with an identity: what `json` later prints for it is not modelled).  A `map[string]interface{}` literal is its
  (key, value) pairs in SOURCE order (Go evaluates the values in that order); `m[k] = v` on such a map replaces or appends.
  `d.String()` of a duration is `durStr d` ("the text Go prints for d", not interpreted, as in GoFsnewPrims.SV).

  Objects that have their own model are that model: a RollingCounter field is `RC` (`TotalSum()` = `.total`), the
  RollingPercentile is `RP` (`Snapshot()` = one wall-clock reading, then `RP.snapshot`: tied in T_GoRPSnap), the SLO
  tracker is `Cons.Slo` + its stored config (GoLiveLogicPrims.GoSloCfg.W), the manager's registry is `Mgr.State`, the
  circuit's words are `Circ` (`IsOpen()` = `isOpenEff`: tied in GoTie/F_IsOpen; the gauges are `.conc`, `.concFb`).
  Callees that are themselves translated in another unit are primitives here whose meaning is that unit's tie statement:
  `evar.ForExpvar(x)` = evaluate `x.Var()` when x's type has one (`*RollingPercentile`: unit GoRPVar; `SortedDurations`:
  unit GoSDVar), else x itself (`*RollingCounter` has no `Var`: the POINTER is published);  `expvarToVal(v)` = `v.Value()`
  = one evaluation (unit GoExpvarToVal).  What evaluating ANOTHER object's function value yields now (a registered
  circuit's, a collector's, the circuit's two collections') is a component of the state (`view`), and that it was
  evaluated — in which order, and for the manager between which lock operations — is recorded in a log.
  Mutexes: sequential meaning (the manager's RLock / RUnlock are log entries, so that the tie says WHEN they happen).

  Hand-written, trusted; the bodies are regenerated (Generated/Go{FbStats,RunStats,Slo,RP,Manager,FanRun,FanFb,Circuit}Var,
  GoExpvarToVal).
-/
import CircuitModel.GoConsumerPrims
import CircuitModel.GoFsnewPrims
import CircuitModel.GoLiveLogicPrims
import CircuitModel.GoManagerPrims
namespace CM.GoVars
open CM CM.Go

/-! ## expvar values -/

/-- an `interface{}` on its way to `encoding/json` -/
inductive EV where
  | nil
  | int (v : Int)
  | bool (b : Bool)
  | str (s : String)
  | durStr (d : Int)                      -- the text `time.Duration(d).String()` prints
  | map (kv : List (String × EV))         -- (key, value) pairs; in source order for a literal
  | list (l : List EV)
  | handle (kind : String) (id : Nat)     -- a value / pointer that is published as it is, not looked into here
  deriving Repr, Inhabited

instance : IsNil EV := ⟨fun | .nil => true | _ => false⟩
instance : GoNil EV := ⟨.nil⟩
instance : Coe Int EV := ⟨.int⟩
instance : Coe Bool EV := ⟨.bool⟩
instance : Coe String EV := ⟨.str⟩
instance : Coe (List EV) EV := ⟨.list⟩
instance : GoZero Unit := ⟨()⟩

/-- `map[string]interface{}{k1: v1, …}` -/
def goMapLit (l : List (String × EV)) : EV := .map l

/-- `m[k] = v` on an association list: replace the entry with that key, else append -/
def storeKV (k : String) (v : EV) : List (String × EV) → List (String × EV)
  | [] => [(k, v)]
  | (k', v') :: rest => if k' = k then (k, v) :: rest else (k', v') :: storeKV k v rest

/-- `m[k]` -/
def EV.lookup : EV → String → Option EV
  | .map kv, k => (kv.find? (·.1 = k)).map (·.2)
  | _, _ => none

/-- the published summary of a sorted snapshot (`SortedDurations.Var()` evaluated: unit GoSDVar, `GoFsNew.varSummary`), as an `EV` -/
def sdEV (s : List Int) : Option EV := (GoFsNew.varSummary s).map fun m => .map (m.map fun e => (e.1, .durStr e.2.of))

/-- what evaluating `(*RollingPercentile).Var()`'s function does to a percentile ring when the wall clock reads `t`:
    the ring as `Snapshot()` leaves it, and `{"snap": summary of that snapshot}` (`none`: a percentile without a value — Go panics) -/
def rpPublish (r : RP) (t : Int) : RP × Option EV :=
  ((r.snapshot t).1, (sdEV (r.snapshot t).2).map fun m => .map [("snap", m)])

/-- an optional result as an outcome: `none` is Go's runtime panic -/
def outOpt {σ tok α : Type} (o : Option α) : M σ tok α := match o with | some a => pure a | none => Go.nilCall

/-! ## Fb — `(*FallbackStats).Var` -/
namespace Fb
abbrev FVM := M Cons.FbStats NoTok
def fn (body : FVM α) : FVM α := goFunc noTok body
/-- a `func() interface{}` value made by `(*FallbackStats).Var` -/
structure CloV where
  name : String
  recv : Unit         -- the receiver pointer: THE FallbackStats that is the state
  env : List Unit     -- captured locals (none)
  deriving Repr, DecidableEq
def cloStuckV : FVM EV := Go.nilCall
def expvar_Func (f : CloV) : FVM CloV := pure f
def recv_Successes_TotalSum : FVM Int := rd (·.successes.total)
def recv_ErrConcurrencyLimitRejects_TotalSum : FVM Int := rd (·.rejects.total)
def recv_ErrFailures_TotalSum : FVM Int := rd (·.failures.total)
end Fb

/-- what a FallbackStats publishes: the three TOTALS -/
def fbSummary (f : Cons.FbStats) : EV :=
  .map [("Successes", .int f.successes.total), ("ErrConcurrencyLimitRejects", .int f.rejects.total), ("ErrFailures", .int f.failures.total)]

/-! ## Run — `(*RunStats).Var` -/
namespace Run
open CM.GoFsNew
abbrev RVM := M (Walled Cons.RunStats) NoTok
def fn (body : RVM α) : RVM α := goFunc noTok body
structure CloV where
  name : String
  recv : Unit
  env : List Unit
  deriving Repr, DecidableEq
def cloStuckV : RVM EV := Go.nilCall
def expvar_Func (f : CloV) : RVM CloV := pure f
/-- `&r.F`: the address of a field of the receiver (no memory is read) -/
inductive Fld where
  | successes | rejects | failures | shortCircuits | timeouts | badRequests | interrupts | latencies
  deriving Repr, DecidableEq
def recvAddr_Successes : Fld := .successes
def recvAddr_ErrConcurrencyLimitRejects : Fld := .rejects
def recvAddr_ErrFailures : Fld := .failures
def recvAddr_ErrShortCircuits : Fld := .shortCircuits
def recvAddr_ErrTimeouts : Fld := .timeouts
def recvAddr_ErrBadRequests : Fld := .badRequests
def recvAddr_ErrInterrupts : Fld := .interrupts
def recvAddr_Latencies : Fld := .latencies
/-- the pointer to the i-th counter, published as it is -/
def ctrHandle (i : Nat) : EV := .handle "*faststats.RollingCounter" i
/-- `evar.ForExpvar(p)`: `*RollingPercentile` has a `Var()` — it is evaluated NOW (one wall-clock reading, `Snapshot()`, the
    summary: `rpPublish`, tied in unit GoRPVar); `*RollingCounter` has none — the pointer itself is the value (nothing of the
    counter is read here: `encoding/json` reads it through `MarshalJSON` when the page is rendered) -/
def evar_ForExpvar : Fld → RVM EV
  | .successes => pure (ctrHandle 0)
  | .rejects => pure (ctrHandle 1)
  | .failures => pure (ctrHandle 2)
  | .shortCircuits => pure (ctrHandle 3)
  | .timeouts => pure (ctrHandle 4)
  | .badRequests => pure (ctrHandle 5)
  | .interrupts => pure (ctrHandle 6)
  | .latencies => fun g =>
    let t := g.st.clock g.st.reads
    let g' : GS (Walled Cons.RunStats) NoTok :=
      { g with st := { g.st with obj := { g.st.obj with latencies := (rpPublish g.st.obj.latencies t).1 }, reads := g.st.reads + 1 } }
    match (rpPublish g.st.obj.latencies t).2 with
    | some m => (.ok m, g')
    | none => (.nilCall, g')
end Run

/-- what a RunStats publishes when the wall clock reads `t`: the seven counters BY REFERENCE (in field order: successes,
    rejects, failures, short circuits, timeouts, bad requests, interrupts), and the latencies' summary as of `t` -/
def runSummary (r : Cons.RunStats) (t : Int) : Option EV :=
  (rpPublish r.latencies t).2.map fun lat =>
    .map [("Successes", Run.ctrHandle 0), ("ErrConcurrencyLimitRejects", Run.ctrHandle 1), ("ErrFailures", Run.ctrHandle 2),
          ("ErrShortCircuits", Run.ctrHandle 3), ("ErrTimeouts", Run.ctrHandle 4), ("ErrBadRequests", Run.ctrHandle 5),
          ("ErrInterrupts", Run.ctrHandle 6), ("Latencies", lat)]

/-! ## Slo — `(*Tracker).Var` -/
namespace Slo
open CM.GoSloCfg
abbrev SVM := M GoSloCfg.W NoTok
def fn (body : SVM α) : SVM α := goFunc noTok body
structure CloV where
  name : String
  recv : Unit
  env : List Unit
  deriving Repr, DecidableEq
def cloStuckV : SVM EV := Go.nilCall
def expvar_Func (f : CloV) : SVM CloV := pure f
/-- `r.Config()` (unit GoSloCfg: the stored config, under the tracker's mutex); a tracker that was never configured holds
    Go's zero value -/
def recv_Config : SVM SloConfig := rd fun w => w.config.getD ⟨0, 0⟩
def recv_MeetsSLOCount_Get : SVM Int := rd (·.slo.pass)
def recv_FailsSLOCount_Get : SVM Int := rd (·.slo.fail)
/-- a `responsetimeslo.Config` value, boxed: which config it is -/
instance : Coe SloConfig EV := ⟨fun c => .handle "responsetimeslo.Config" c.tag⟩
end Slo

/-- what an SLO tracker publishes: its current config and the two counts -/
def sloSummary (w : GoSloCfg.W) : EV :=
  .map [("config", .handle "responsetimeslo.Config" (w.config.getD ⟨0, 0⟩).tag), ("pass", .int w.slo.pass), ("fail", .int w.slo.fail)]

/-! ## RPV — `(*RollingPercentile).Var` -/
namespace RPV
open CM.GoFsNew
abbrev PVM := M (Walled RP) NoTok
def fn (body : PVM α) : PVM α := goFunc noTok body
structure CloV where
  name : String
  recv : Unit
  env : List Unit
  deriving Repr, DecidableEq
def cloStuckV : PVM EV := Go.nilCall
def expvar_Func (f : CloV) : PVM CloV := pure f
/-- `r.Snapshot()`: one wall-clock reading `t`, then `SnapshotAt(t)` (unit GoRPSnap: `go_Snapshot_eq`) -/
def recv_Snapshot : PVM (List Int) := atWallTime fun t (r : RP) => r.snapshot t
/-- `evar.ForExpvar(s)` of a `SortedDurations` value: it has a `Var()`, which is evaluated at once (unit GoSDVar:
    `go_Var_eval_eq`) — the summary of `s`, or Go's panic where a percentile has no value -/
def evar_ForExpvar (s : List Int) : PVM EV := outOpt (sdEV s)
end RPV

/-! ## Mgr — `(*Manager).Var` -/
namespace Mgr
open CM.Mgr
/-- what happens, in order -/
inductive MEvt where
  | rlock
  | runlock
  | evalCircuit (id : Nat)     -- circuit #id's published function is evaluated
  deriving Repr, DecidableEq
/-- the registry (model `Mgr.State`), the order in which a `range` over the map visits the entries (Go leaves it unspecified:
    any function; the statements that care ask for a permutation), and what evaluating circuit #id's `Var()` yields NOW
    (unit GoCircuitVar says what that is: never nil for a registered circuit — the code tests all the same) -/
structure VarW where
  s : State
  view : Nat → EV
  order : List (String × Circuit) → List (String × Circuit) := id
  log : List MEvt := []
  stuck : Bool := false
abbrev MVM := M VarW String
def runTok : String → MVM Unit
  | "recv_mu_RUnlock" => upd fun w => { w with log := w.log ++ [.runlock] }
  | _ => upd fun w => { w with stuck := true }
def deferPrim (call : String) : MVM Unit := Go.pushDefer call
def fn (body : MVM α) : MVM α := goFunc runTok body
structure CloV where
  name : String
  recv : Unit
  env : List Unit
  deriving Repr, DecidableEq
def cloStuckV : MVM EV := Go.nilCall
def expvar_Func (f : CloV) : MVM CloV := pure f
def recv_mu_RLock : MVM Unit := upd fun w => { w with log := w.log ++ [.rlock] }
/-- the entries of `h.circuitMap`, as a `range` meets them -/
def recv_circuitMap : MVM (List (String × Circuit)) := rd fun w => w.order w.s.circuits
/-- the function value circuit #id's `Var()` returns -/
structure CircClo where
  id : Nat
  deriving Repr, DecidableEq
/-- `v.Var()` on a registered circuit: computes nothing (unit GoCircuitVar: `go_Var_eq`) -/
def _root_.CM.Mgr.Circuit.m_Var (c : Circuit) : MVM CircClo := pure ⟨c.id⟩
/-- `expvarToVal(f)`: one evaluation of `f` (unit GoExpvarToVal) -/
def pkg_expvarToVal (f : CircClo) : MVM EV := updRet fun w => ({ w with log := w.log ++ [.evalCircuit f.id] }, w.view f.id)
/-- `make(map[string]interface{})` -/
def goMakeMap : EV := .map []
/-- `ret[k] = ev` on a local map -/
def goSet (m : EV) (k : String) (v : EV) : EV := match m with | .map kv => .map (storeKV k v kv) | other => other
end Mgr

/-- what a manager publishes when its registry's entries are met in the order `es`: one entry per circuit whose own
    published function does not evaluate to nil -/
def mgrCollect (view : Nat → EV) (es : List (String × CM.Mgr.Circuit)) : List (String × EV) :=
  es.foldl (fun acc e => if isNil (view e.2.id) then acc else storeKV e.1 (view e.2.id) acc) []
def mgrSummary (w : Mgr.VarW) : EV := .map (mgrCollect w.view (w.order w.s.circuits))

/-! ## E2V — `expvarToVal` -/
namespace E2V
/-- an `expvar.Var` as `expvarToVal` looks at it: an `expvar.Func` (it has `Value() interface{}`, which CALLS the function)
    or some other implementation without that method (`*expvar.Int`'s `Value()` returns int64, `*expvar.String`'s a string) -/
inductive CloV where
  | func (id : Nat)
  | other (id : Nat)
  deriving Repr, DecidableEq
/-- what calling function #id yields now, and which functions have been called -/
structure E2W where
  result : Nat → EV
  calls : List Nat := []
abbrev EVM := M E2W NoTok
def fn (body : EVM α) : EVM α := goFunc noTok body
/-- `in.(iv)`: the value itself and whether its dynamic type has `Value() interface{}` -/
def as_iv (v : CloV) : EVM (CloV × Bool) := pure (v, match v with | .func _ => true | .other _ => false)
/-- `rawVal.Value()` -/
def CloV.m_Value : CloV → EVM EV
  | .func id => updRet fun w => ({ w with calls := w.calls ++ [id] }, w.result id)
  | .other _ => Go.nilCall
end E2V

/-! ## Fan — the two collections' `Var` -/
namespace Fan
/-- a collector in the slice: its identity and whether its dynamic type has `Var() expvar.Var` -/
structure CollP where
  id : Nat
  varable : Bool
  deriving Repr, DecidableEq
/-- what evaluating collector #id's `Var()` yields now; which have been evaluated, in order -/
structure FanW where
  view : Nat → EV
  evals : List Nat := []
abbrev NVM := M FanW NoTok
def fn (body : NVM α) : NVM α := goFunc noTok body
/-- the function value a collection's `Var` returns: it closes over the slice VALUE (the collector pointers) -/
structure CloV where
  name : String
  recv : List CollP
  env : List Unit
  deriving Repr, DecidableEq
def cloStuckV : NVM EV := Go.nilCall
def expvar_Func (f : CloV) : NVM CloV := pure f
/-- `c.(varable)` -/
def as_varable (c : CollP) : NVM (CollP × Bool) := pure (c, c.varable)
structure CollClo where
  id : Nat
  deriving Repr, DecidableEq
/-- `v.Var()` of a collector: computes nothing (units GoRunStatsVar, GoFbStatsVar, GoSloVar: `go_Var_eq`) -/
def CollP.m_Var (c : CollP) : NVM CollClo := pure ⟨c.id⟩
/-- `expvarToVal(f)`: one evaluation (unit GoExpvarToVal) -/
def pkg_expvarToVal (f : CollClo) : NVM EV := updRet fun w => ({ w with evals := w.evals ++ [f.id] }, w.view f.id)
end Fan

/-- what a collection publishes: for every collector that has a `Var`, in slice order, what it evaluates to now — nils dropped -/
def fanSummary (view : Nat → EV) (r : List Fan.CollP) : EV :=
  .list (((r.filter (·.varable)).map fun c => view c.id).filter fun v => !isNil v)

/-! ## Circ — `(*Circuit).Var` -/
namespace Circ
/-- the receiver pointer -/
inductive CircPtr where
  | nil
  | obj
  deriving Repr, DecidableEq
instance : IsNil CircPtr := ⟨fun p => p == .nil⟩
/-- which read happens when -/
inductive CEvt where
  | config | isOpen | name | runMetrics | concCommands | concFallbacks | closer | opener | fbMetrics
  deriving Repr, DecidableEq
/-- the circuit's words (model `Circ`), its name, which Config value `Config()` returns now, the identities of its closer and
    opener objects, what evaluating its two collections' `Var()` yields now (units GoFanRunVar / GoFanFbVar), and the reads so far -/
structure CircW (σo σc : Type) where
  c : CM.Circ σo σc
  name : String := ""
  cfgTag : Nat := 0
  closerId : Nat := 0
  openerId : Nat := 0
  runView : EV := .list []
  fbView : EV := .list []
  reads : List CEvt := []
abbrev CVM (σo σc : Type) := M (CircW σo σc) NoTok
variable {σo σc : Type}
def fn (body : CVM σo σc α) : CVM σo σc α := goFunc noTok body
structure CloV where
  name : String
  recv : CircPtr
  env : List Unit
  deriving Repr, DecidableEq
def cloStuckV : CVM σo σc EV := Go.nilCall
def expvar_Func (f : CloV) : CVM σo σc CloV := pure f
def note (e : CEvt) (f : CircW σo σc → α) : CVM σo σc α := updRet fun w => ({ w with reads := w.reads ++ [e] }, f w)
/-- a Config value / an interface value, boxed -/
structure CfgH where
  tag : Nat
structure IfaceH where
  kind : String
  id : Nat
instance : Coe CfgH EV := ⟨fun c => .handle "circuit.Config" c.tag⟩
instance : Coe IfaceH EV := ⟨fun c => .handle c.kind c.id⟩
/-- `c.Config()` (unit GoSetCfg) -/
def recv_Config : CVM σo σc CfgH := note .config fun w => ⟨w.cfgTag⟩
/-- `c.IsOpen()` (unit GoCircuit, `go_IsOpen_eq`): ForceOpen, else not ForcedClosed and the stored flag -/
def recv_IsOpen : CVM σo σc Bool := note .isOpen fun w => isOpenEff w.c
/-- `c.Name()` (unit GoCircMisc) -/
def recv_Name : CVM σo σc String := note .name (·.name)
/-- the two gauges (unit GoCircuit) -/
def recv_ConcurrentCommands : CVM σo σc Int := note .concCommands (·.c.conc)
def recv_ConcurrentFallbacks : CVM σo σc Int := note .concFallbacks (·.c.concFb)
/-- the fields holding the closer / opener objects -/
def recv_OpenToClose : CVM σo σc IfaceH := note .closer fun w => ⟨"closer", w.closerId⟩
def recv_ClosedToOpen : CVM σo σc IfaceH := note .opener fun w => ⟨"opener", w.openerId⟩
/-- the function values of the two collections (`Var()` computes nothing: units GoFanRunVar / GoFanFbVar `go_Var_eq`) -/
inductive CollClo where
  | run | fb
  deriving Repr, DecidableEq
def recv_CmdMetricCollector_Var : CVM σo σc CollClo := pure .run
def recv_FallbackMetricCollector_Var : CVM σo σc CollClo := pure .fb
/-- `expvarToVal(f)`: one evaluation (unit GoExpvarToVal) -/
def pkg_expvarToVal : CollClo → CVM σo σc EV
  | .run => note .runMetrics (·.runView)
  | .fb => note .fbMetrics (·.fbView)
end Circ

/-- what a circuit publishes: the nine keys, each read from the state of the moment -/
def circSummary {σo σc : Type} (w : Circ.CircW σo σc) : EV :=
  .map [("config", .handle "circuit.Config" w.cfgTag), ("is_open", .bool (isOpenEff w.c)), ("name", .str w.name),
        ("run_metrics", w.runView), ("concurrent_commands", .int w.c.conc), ("concurrent_fallbacks", .int w.c.concFb),
        ("closer", .handle "closer" w.closerId), ("opener", .handle "opener" w.openerId), ("fallback_metrics", w.fbView)]
/-- the order in which they are read: source order of the map literal -/
def circReads : List Circ.CEvt :=
  [.config, .isOpen, .name, .runMetrics, .concCommands, .concFallbacks, .closer, .opener, .fbMetrics]

end CM.GoVars

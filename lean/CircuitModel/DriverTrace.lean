/-
  DriverTrace.lean — K2 trace conformance: every labelled atomic step of a REAL scheduled run (the code driven by the
  cooperative scheduler) must be exactly the step the Lean small-step model takes for that thread in the model's
  current shared state: same operation, same variable, same observed value.  Steps on variables a model does not
  mention are ignored.  Suites `tr-rc` (Conc/RC) and `tr-gauge` (Conc/Gauge).
-/
import CircuitModel.Conc.RC
import CircuitModel.Conc.Gauge
import CircuitModel.Conc.Trans
import CircuitModel.Conc.TransDyn
import CircuitModel.Conc.TC
import CircuitModel.Conc.Mgr
import CircuitModel.Conc.Call
import CircuitModel.Conc.Run
import CircuitModel.Conc.Exec
import CircuitModel.Basic
namespace CM
open Conc

/-! ### rc -/
namespace TrRC
open Conc.RC

def parseProg (s : String) : List Op :=
  (s.splitOn "+").filterMap fun o =>
    match o.splitOn "@" with
    | [k, b] => (b.toNat?).bind fun n =>
        if k == "i" then some (Op.inc (some n)) else if k == "s" then some (.sumAt (some n))
        else if k == "b" then some (.getBuckets (some n)) else if k == "r" then some (.reset (some n)) else none
    | _ => none

def lastVar := "rc.rollingBucket.LastAbsIndex"
def bucketVar (i : Nat) : String := s!"rc.buckets[{i}]"

/-- is the thread's next model step silent (no Go atomic)? -/
def silent (s : Shared) (l : Local) : Bool :=
  match l.pc, l.prog with
  | .next, (.inc _ :: _) => false
  | .next, (_ :: _) => true
  | .rsSwap i, _ => decide (s.n ≤ i)
  | _, _ => false

/-- the atomic step the model expects next from this thread, in the trace's text form -/
def expected (s : Shared) (l : Local) : Option String :=
  match l.pc with
  | .next => (match l.prog with | .inc _ :: _ => some s!"add rc.totalSum 1 -> {s.total + 1}" | _ => none)
  | .advLoad _ _ => some s!"load {lastVar} -> {s.last}"
  | .advCas _ lastVal _ _ => some s!"cas {lastVar} {lastVal} {lastVal + 1} -> {decide (s.last = lastVal)}"
  | .advSwap _ lastVal _ _ => some s!"swap {bucketVar (lastVal % s.n)} 0 -> {s.buckets.getD (lastVal % s.n) 0}"
  | .advDec _ _ _ x _ => some s!"add rc.rollingSum {-x} -> {s.rolling - x}"
  | .advFinalCas abs lastVal _ => some s!"cas {lastVar} {lastVal} {abs} -> {decide (s.last = lastVal)}"
  | .incBucket idx => some s!"add {bucketVar idx} 1 -> {s.buckets.getD idx 0 + 1}"
  | .incRolling => some s!"add rc.rollingSum 1 -> {s.rolling + 1}"
  | .sumLoad => some s!"load rc.rollingSum -> {s.rolling}"
  | .gbLast => some s!"load {lastVar} -> {s.last}"
  | .gbLoad startIdx i =>
    let idx := if startIdx < i then startIdx + s.n - i else startIdx - i
    some s!"load {bucketVar idx} -> {s.buckets.getD idx 0}"
  | .rsSwap i => some s!"swap {bucketVar i} 0 -> {s.buckets.getD i 0}"
  | .rsDec _ x => some s!"add rc.rollingSum {-x} -> {s.rolling - x}"

def advanceSilent (c : Config Shared Local) (tid : Nat) : Nat → Config Shared Local
  | 0 => c
  | fuel + 1 =>
    match c.locals[tid]? with
    | some l => if silent c.shared l then
        (match step tid c.shared l with
         | some (s', l') => advanceSilent { shared := s', locals := c.locals.set tid l' } tid fuel
         | none => c)
      else c
    | none => c

def conform (c : Config Shared Local) : List String → List String
  | [] => []
  | line :: rest =>
    match line.splitOn " " with
    | tidS :: toks =>
      let body := " ".intercalate toks
      if !(body.splitOn " ").any (fun t => t.startsWith "rc.") then "skip" :: conform c rest else
      match tidS.toNat? with
      | none => "bad-line" :: conform c rest
      | some tid =>
        let c := advanceSilent c tid 8
        match c.locals[tid]? with
        | none => s!"MISMATCH no such thread {tid}" :: conform c rest
        | some l =>
          match expected c.shared l with
          | none => s!"MISMATCH model expects no atomic step from thread {tid} but the code did: {body}" :: conform c rest
          | some e =>
            if e != body then s!"MISMATCH thread {tid}: model expects [{e}] code did [{body}]" :: conform c rest
            else match step tid c.shared l with
              | some (s', l') => "ok" :: conform { shared := s', locals := c.locals.set tid l' } rest
              | none => "MISMATCH model step disabled" :: conform c rest
    | _ => "bad-line" :: conform c rest

end TrRC

def suiteTrRC (kvs : List (String × String)) (lines : List (String × String)) : List String :=
  let n := kvNat kvs "n" 1
  let progs := ((kvGet kvs "ops").getD "").splitOn "/" |>.map TrRC.parseProg
  -- a counter restored from JSON starts with a total the rolling sum does not contain
  let c0 := Conc.RC.init n progs
  let c0 := { c0 with shared := { c0.shared with total := c0.shared.total + kvInt kvs "pre" 0 } }
  (TrRC.conform c0 (lines.map (·.1))).map fun r => r ++ "\t-"

/-! ### gauge -/
namespace TrGauge
open Conc.Gauge

structure Names where
  gauge : String
  limit : String
  marker : String

def expected (nm : Names) (s : Shared) (l : Local) : Option String :=
  match l with
  | .idle => some s!"add {nm.gauge} 1 -> {s.gauge + 1}"
  | .incd _ => some s!"load {nm.limit} -> {s.limit}"
  | .running => some nm.marker
  | .rejecting | .leaving => some s!"add {nm.gauge} -1 -> {s.gauge - 1}"
  | .finished _ => none

def relevant (nm : Names) (body : String) : Bool :=
  -- a bare READ of a gauge (`ConcurrentCommands()` / `ConcurrentFallbacks()`: the monitors' own look at it) is nobody's model step
  !(body.startsWith "load c.concurrentCommands " || body.startsWith "load c.concurrentFallbacks ") &&
  (body == nm.marker || (body.splitOn " ").any fun t => t == nm.gauge || t == nm.limit)

def conform (nm : Names) (c : Config Shared Local) : List String → List String
  | [] => []
  | line :: rest =>
    match line.splitOn " " with
    | tidS :: toks =>
      let body := " ".intercalate toks
      if !relevant nm body then "skip" :: conform nm c rest else
      match tidS.toNat?, (tidS.toNat?).bind (c.locals[·]?) with
      | some tid, some l =>
        (match expected nm c.shared l with
         | none => s!"MISMATCH thread {tid} finished in the model but the code did: {body}" :: conform nm c rest
         | some e =>
           if e != body then s!"MISMATCH thread {tid}: model expects [{e}] code did [{body}]" :: conform nm c rest
           else match step tid c.shared l with
             | some (s', l') => "ok" :: conform nm { shared := s', locals := c.locals.set tid l' } rest
             | none => "MISMATCH model step disabled" :: conform nm c rest)
      | _, _ => "bad-line" :: conform nm c rest
    | _ => "bad-line" :: conform nm c rest

end TrGauge

/-- one trace is checked against BOTH gauge instances (run gauge and fallback gauge); a line is `ok` if the instance
    it concerns accepts it -/
def suiteTrGauge (kvs : List (String × String)) (lines : List (String × String)) : List String :=
  if kvNat kvs "dis" 0 == 1 then lines.map fun _ => "skip\t-" else   -- the kill switch is in Conc/Exec only
  let k := kvNat kvs "k" 2
  let ls := lines.map (·.1)
  let run := TrGauge.conform { gauge := "c.concurrentCommands", limit := "c.threadSafeConfig.Execution.MaxConcurrentRequests", marker := "in-run" }
    (Conc.Gauge.init (kvInt kvs "mc" 10) k) ls
  let fb := TrGauge.conform { gauge := "c.concurrentFallbacks", limit := "c.threadSafeConfig.Fallback.MaxConcurrentRequests", marker := "in-fallback" }
    (Conc.Gauge.init (kvInt kvs "fbmc" 10) k) ls
  (run.zip fb).map fun (a, b) => (if a == "skip" then b else a) ++ "\t-"

end CM

/-! ### trans -/
namespace CM
open Conc
namespace TrTrans
open Conc.Trans

def mu := "c.transitionMu"
def fo := "c.threadSafeConfig.CircuitBreaker.ForceOpen"
def fc := "c.threadSafeConfig.CircuitBreaker.ForcedClosed"

/-- the step the model expects from the lock holder, in the trace's text form; `none` = a silent model step
    (the ShouldClose call has no scheduling point of its own) -/
def expected (s : Shared) (l : Local) : Option String :=
  match l.pc with
  | .start => some s!"lock {mu}"
  | .guard1 => some s!"load {fc} -> {s.forcedClosed}"
  | .isOpenFO => some s!"load {fo} -> {s.forceOpen}"
  | .isOpenFC => some s!"load {fc} -> {s.forcedClosed}"
  | .isOpenFlag => some s!"load c.isOpen -> {s.isOpen}"
  | .guard2 => some s!"load {fo} -> {s.forceOpen}"
  | .decide => none
  | .notify => some (match l.job with | .open => "deliver-opened" | .close _ _ => "deliver-closed")
  | .store => some s!"store c.isOpen {match l.job with | .open => true | .close _ _ => false}"
  | .unlock => some s!"unlock {mu}"
  | .done => none

def advanceSilent (c : Config Shared Local) (tid : Nat) : Config Shared Local :=
  match c.locals[tid]? with
  | some l => if l.pc == .decide then
      (match step tid c.shared l with
       | some (s', l') => { shared := s', locals := c.locals.set tid l' }
       | none => c)
    else c
  | none => c

/-- only the steps a thread takes while it holds (or acquires) the transition mutex belong to the model -/
def conform (c : Config Shared Local) : List String → List String
  | [] => []
  | line :: rest =>
    match line.splitOn " " with
    | tidS :: toks =>
      let body := " ".intercalate toks
      match tidS.toNat? with
      | none => "bad-line" :: conform c rest
      | some tid =>
        let holds := c.shared.holder == some tid
        if !holds && body != s!"lock {mu}" then "skip" :: conform c rest else
        let c := advanceSilent c tid
        match c.locals[tid]? with
        | none => s!"MISMATCH no such thread {tid}" :: conform c rest
        | some l =>
          match expected c.shared l with
          | none => s!"MISMATCH model expects nothing from thread {tid} but the code did: {body}" :: conform c rest
          | some e =>
            if e != body then s!"MISMATCH thread {tid}: model expects [{e}] code did [{body}]" :: conform c rest
            else match step tid c.shared l with
              | some (s', l') => "ok" :: conform { shared := s', locals := c.locals.set tid l' } rest
              | none => "MISMATCH model step disabled" :: conform c rest
    | _ => "bad-line" :: conform c rest

end TrTrans

/-! the same scenario with operator threads storing new override flags while the transitions run: the model is
    Conc/TransDyn — an operator's two stores (ForcedClosed, then ForceOpen) are model steps of its own thread, whatever the
    transition threads are doing; the values stored are taken from the trace at the first store (they depend on the
    configuration the operator read), the ORDER and the effect on the flags every later load must show are the model's -/
namespace TrTransDyn
open Conc.TransDyn

def setLocal (c : Config Trans.Shared Local) (i : Nat) (l : Local) : Config Trans.Shared Local := { c with locals := c.locals.set i l }

def advanceSilent (c : Config Trans.Shared Local) (tid : Nat) : Config Trans.Shared Local :=
  match c.locals[tid]? with
  | some (.tr l) => if l.pc == .decide then
      (match step tid c.shared (.tr l) with
       | some (s', l') => { shared := s', locals := c.locals.set tid l' }
       | none => c)
    else c
  | _ => c

def parseBool (v : String) : Option Bool := if v == "true" then some true else if v == "false" then some false else none

def conform (c : Config Trans.Shared Local) : List String → List String
  | [] => []
  | line :: rest =>
    match line.splitOn " " with
    | tidS :: toks =>
      let body := " ".intercalate toks
      match tidS.toNat? with
      | none => "bad-line" :: conform c rest
      | some tid =>
        match toks, c.locals[tid]? with
        | ["store", var, v], some (.op fo fc stage) =>
          if var != TrTrans.fc && var != TrTrans.fo then "skip" :: conform c rest else
          (match parseBool v with
           | none => "bad-line" :: conform c rest
           | some b =>
             -- the operator's parameters are read off its first store; from then on it must do what the model's operator does
             let l : Local := if stage == 0 then .op fo b 0 else if stage == 1 then .op b fc 1 else .op fo fc stage
             let wantVar := if stage == 0 then TrTrans.fc else TrTrans.fo
             if stage ≥ 2 then s!"MISMATCH operator thread {tid} stores {var} after its reconfiguration is complete in the model" :: conform c rest
             else if var != wantVar then s!"MISMATCH operator thread {tid}: model expects a store to [{wantVar}] next, code stored [{var}]" :: conform c rest
             else match step tid c.shared l with
               | some (s', l') => "ok" :: conform { shared := s', locals := c.locals.set tid l' } rest
               | none => "MISMATCH model step disabled" :: conform c rest)
        | _, some (.op ..) => "skip" :: conform c rest
        | _, some (.tr _) =>
          let holds := c.shared.holder == some tid
          if !holds && body != s!"lock {TrTrans.mu}" then "skip" :: conform c rest else
          let c := advanceSilent c tid
          (match c.locals[tid]? with
           | some (.tr l) =>
             (match TrTrans.expected c.shared l with
              | none => s!"MISMATCH model expects nothing from thread {tid} but the code did: {body}" :: conform c rest
              | some e =>
                if e != body then s!"MISMATCH thread {tid}: model expects [{e}] code did [{body}]" :: conform c rest
                else match step tid c.shared (.tr l) with
                  | some (s', l') => "ok" :: conform { shared := s', locals := c.locals.set tid l' } rest
                  | none => "MISMATCH model step disabled" :: conform c rest)
           | _ => s!"MISMATCH no such thread {tid}" :: conform c rest)
        | _, none => s!"MISMATCH no such thread {tid}" :: conform c rest
    | _ => "bad-line" :: conform c rest

end TrTransDyn

/-- header: init=(0|1) fo0=(0|1) fc0=(0|1) ops=<one letter per thread: O C F S X Y Z V W>; F = failing call (opens if it gets
    there), S = succeeding probe whose closer says ShouldClose, X Y Z V W = operators switching overrides -/
def suiteTrTrans (kvs : List (String × String)) (lines : List (String × String)) : List String :=
  let ops := ((kvGet kvs "ops").getD "").toList
  let isOp (ch : Char) : Bool := ch == 'X' || ch == 'Y' || ch == 'Z' || ch == 'V' || ch == 'W'
  let tjob (ch : Char) : Conc.Trans.Job := if ch == 'O' || ch == 'F' then .open else if ch == 'C' then .close true false else .close false true
  let fo0 := kvNat kvs "fo0" 0 == 1
  let fc0 := kvNat kvs "fc0" 0 == 1
  if ops.any isOp || fo0 || fc0 then
    let jobs : List Conc.TransDyn.Job := ops.map fun ch => if isOp ch then .setFlags false false else .trans (tjob ch)
    (TrTransDyn.conform (Conc.TransDyn.init fo0 fc0 (kvBool kvs "init" false) jobs) (lines.map (·.1))).map fun r => r ++ "\t-"
  else
  (TrTrans.conform (Conc.Trans.init false false (kvBool kvs "init" false) (ops.map tjob)) (lines.map (·.1))).map fun r => r ++ "\t-"

end CM

/-! ### tc -/
namespace CM
open Conc
namespace TrTC
open Conc.TC

def expected (s : Shared) (l : Local) : Option String :=
  match l.pc with
  | .begin => (match l.job with | .check _ => some s!"load tc.isFastFail -> {s.fastFail}" | _ => none)
  | .rlock => some "rlock tc.mu"
  | .runlock _ => some "runlock tc.mu"
  | .wlock => some "lock tc.mu"
  | .critical => none
  | .loadAllow => some s!"load tc.eventCountToAllow -> {s.allow}"
  | .resetLoadSleep _ _ => some s!"load tc.sleepDuration -> {s.sleep}"
  | .resetStoreFF _ _ => some "store tc.isFastFail true"
  | .resetAddVersion _ _ => some s!"add tc.isFailFastVersion 1 -> {s.version + 1}"
  | .resetArm _ _ => some s!"load tc.sleepDuration -> {s.sleep}"
  | .wunlock _ => some "unlock tc.mu"
  | .cbLoadVersion _ => some s!"load tc.isFailFastVersion -> {s.version}"
  | .cbStoreFF => some "store tc.isFastFail false"
  | .done _ => none

def silentPc (l : Local) : Bool :=
  match l.pc, l.job with
  | .critical, _ => true
  | .begin, .start _ => true
  | .begin, .fire _ => true
  | _, _ => false

def advanceSilent (c : Config Shared Local) (i : Nat) : Nat → Config Shared Local
  | 0 => c
  | fuel + 1 =>
    match c.locals[i]? with
    | some l => if silentPc l then
        (match step i c.shared l with
         | some (s', l') => advanceSilent { shared := s', locals := c.locals.set i l' } i fuel
         | none => c)
      else c
    | none => c

structure St where
  c : Config Shared Local
  timerTid : Nat
  fired : Nat            -- callbacks the timer thread has started so far
  cur : Option Nat       -- model thread currently standing for the timer thread

def conform (st : St) : List String → List String
  | [] => []
  | line :: rest =>
    match line.splitOn " " with
    | tidS :: toks =>
      let body := " ".intercalate toks
      if !(body.splitOn " ").any (fun t => t.startsWith "tc.") then "skip" :: conform st rest else
      match tidS.toNat? with
      | none => "bad-line" :: conform st rest
      | some tid =>
        -- the timer thread runs one callback after the other: each is a fresh model thread `fire k`
        let (st, idx) : St × Nat :=
          if tid == st.timerTid then
            (match st.cur.bind (fun i => st.c.locals[i]?.bind fun l => match l.pc with | .done _ => none | _ => some i) with
             | some i => (st, i)
             | none =>
               let i := st.c.locals.length
               ({ st with c := { st.c with locals := st.c.locals ++ [{ job := .fire st.fired }] }, fired := st.fired + 1, cur := some i }, i))
          else (st, tid)
        let c := advanceSilent st.c idx 4
        match c.locals[idx]? with
        | none => s!"MISMATCH no such thread {tid}" :: conform { st with c := c } rest
        | some l =>
          match expected c.shared l with
          | none => s!"MISMATCH model expects nothing from thread {tid} (pc done) but the code did: {body}" :: conform { st with c := c } rest
          | some e =>
            if e != body then s!"MISMATCH thread {tid}: model expects [{e}] code did [{body}]" :: conform { st with c := c } rest
            else match step idx c.shared l with
              | some (s', l') => "ok" :: conform { st with c := { shared := s', locals := c.locals.set idx l' } } rest
              | none => "MISMATCH model step disabled" :: conform { st with c := c } rest
    | _ => "bad-line" :: conform st rest

/-- apply a whole job sequentially (set-up done before the scheduled run) -/
def runJob (s : Shared) (j : Job) : Shared :=
  let rec go (s : Shared) (l : Local) : Nat → Shared
    | 0 => s
    | f + 1 => match step 0 s l with | some (s', l') => go s' l' f | none => s
  go s { job := j } 20

end TrTC

/-- header of the `tc` scenario: k= budget= mode=(period|asleep) armed=(0|1) restart=(0|1); sleep is 1000 -/
def suiteTrTC (kvs : List (String × String)) (lines : List (String × String)) : List String :=
  let k := kvNat kvs "k" 2
  let mode := (kvGet kvs "mode").getD "period"
  let armed := kvBool kvs "armed" false
  let s0 : Conc.TC.Shared := { sleep := 1000, allow := kvInt kvs "budget" 1 }
  -- the set-up the scenario performs before the scheduled run
  let s1 := if mode == "asleep" then TrTC.runJob s0 (.start 100) else if armed then TrTC.runJob s0 (.start (-2000)) else s0
  let preFired := (mode == "asleep" && armed) || (mode != "asleep" && armed)
  let s2 := if preFired then TrTC.runJob s1 (.fire 0) else s1
  let s2 := { s2 with events := [] }
  let checks : List Conc.TC.Job := (List.range k).map fun (i : Nat) => Conc.TC.Job.check (100 + 37 * (i : Int))
  let jobs := checks ++ [.fire 0] ++ (if kvBool kvs "restart" false && mode == "asleep" then [.start 150] else [])
  let locals : List Conc.TC.Local := jobs.mapIdx fun i j => if i == k then { job := j, pc := .done none } else { job := j }
  let st : TrTC.St := { c := { shared := s2, locals := locals }, timerTid := k, fired := if preFired then 1 else 0, cur := none }
  (TrTC.conform st (lines.map (·.1))).map fun r => r ++ "\t-"

end CM

/-! ### mgr -/
namespace CM
open Conc
namespace TrMgr
open Conc.Mgr CM.Mgr

/-- creator thread of the model circuit with this id (from the linearisation log) -/
def creatorOf (log : List (Nat × Op × Out)) (cid : Nat) : Option Nat :=
  (log.find? fun e => match e.2.2 with | .created c => c.id == cid | _ => false).map (·.1)

def fmtResult (log : List (Nat × Op × Out)) : Out → String
  | .created _ => "created"
  | .exists_ => "exists"
  | .got none => "got nil"
  | .got (some c) => "got " ++ (match creatorOf log c.id with | some t => toString t | none => "unknown")
  | .all ids => "all " ++ ",".intercalate ((sortNat (ids.filterMap (creatorOf log))).map toString)
  | .bound _ => "bound"

/-- run the body silently right after the acquisition (bodies are not trace steps) -/
def afterAcquire (c : Config Shared Local) (i : Nat) : Config Shared Local :=
  match c.locals[i]? with
  | some l => (match l.pc with
      | .locked => (match step i c.shared l with
          | some (s', l') => { shared := s', locals := c.locals.set i l' }
          | none => c)
      | _ => c)
  | none => c

def conform (ignoreResult : Nat → Bool) (c : Config Shared Local) : List String → List String
  | [] => []
  | line :: rest =>
    match line.splitOn " " with
    | ["R", iS, kind] | ["R", iS, kind, _] =>
      let body := " ".intercalate ((line.splitOn " ").drop 2)
      let _ := kind
      (match iS.toNat? with
       | none => "bad-line" :: conform ignoreResult c rest
       | some i =>
         if ignoreResult i then "skip" :: conform ignoreResult c rest else
         match result c i with
         | none => s!"MISMATCH thread {i} returned [{body}] but has not returned in the model" :: conform ignoreResult c rest
         | some o =>
           let e := fmtResult c.shared.log o
           if e == body || (e == "all " && body == "all") then "ok" :: conform ignoreResult c rest
           else s!"MISMATCH thread {i}: the model (bodies in lock order) returns [{e}], the code returned [{body}]" :: conform ignoreResult c rest)
    | [tidS, act, "mgr.mu"] =>
      (match tidS.toNat?, c.locals[tidS.toNat?.getD 0]? with
       | some tid, some l =>
         let want : Option String := match l.pc with
           | .begin => some (if isWriter l.job then "lock" else "rlock")
           | .ran _ => some (if isWriter l.job then "unlock" else "runlock")
           | _ => none
         if want != some act then s!"MISMATCH thread {tid}: model expects [{want.getD "nothing"} mgr.mu] code did [{act} mgr.mu]" :: conform ignoreResult c rest
         else match step tid c.shared l with
           | some (s', l') => "ok" :: conform ignoreResult (afterAcquire { shared := s', locals := c.locals.set tid l' } tid) rest
           | none => s!"MISMATCH thread {tid}: [{act} mgr.mu] is not enabled in the model (lock held)" :: conform ignoreResult c rest
       | _, _ => "bad-line" :: conform ignoreResult c rest)
    | _ => "skip" :: conform ignoreResult c rest

end TrMgr

/-- header of the `mgr` scenario: ops=<c|o|g|a|v...> sf=(0|1) -/
def suiteTrMgr (kvs : List (String × String)) (lines : List (String × String)) : List String :=
  let ops := ((kvGet kvs "ops").getD "").toList
  let jobs : List Mgr.Op := ops.mapIdx fun i ch =>
    if ch == 'c' then .create "x" [] else if ch == 'o' then .create s!"other{i}" [] else if ch == 'g' then .get "x" else .all
  let ignore : Nat → Bool := fun i => match ops[i]? with | some 'v' => true | _ => false
  let st : Mgr.State := { ctors := if kvNat kvs "sf" 0 == 1 then [.statFactory] else [] }
  (TrMgr.conform ignore (Conc.Mgr.init st jobs) (lines.map (·.1))).map fun r => r ++ "\t-"

end CM

/-! ### shed (whole calls racing the transitions) -/
namespace CM
open Conc
namespace TrCall
open Conc.Call

def tracked (body : String) : Bool :=
  body == "run-invoked" || body == "deliver-opened" || body == "deliver-closed" ||
  (body.splitOn " ").any fun t => t == "c.isOpen" || t == TrTrans.fo || t == TrTrans.fc || t == TrTrans.mu

/-- the trace text of the step the model expects next from a thread; `none` = a silent model step -/
def expected (s : Shared) (l : Local) : Option String :=
  let ldFO := s!"load {TrTrans.fo} -> {s.t.forceOpen}"
  let ldFC := s!"load {TrTrans.fc} -> {s.t.forcedClosed}"
  let ldFl := s!"load c.isOpen -> {s.t.isOpen}"
  match l.pc with
  | .aFO | .gFO | .pFO | .oFO => some ldFO
  | .aFC | .pFC | .oFC | .oFC2 => some ldFC
  | .aFlag | .pFlag | .oFlag => some ldFl
  | .askAllow | .askPrevent | .shedNow | .askShouldOpen => none
  | .invoke => some "run-invoked"
  | .trans tl => TrTrans.expected s.t tl
  | .done => none

def isSilent (s : Shared) (l : Local) : Bool :=
  match l.pc with
  | .done => false
  | _ => (expected s l).isNone

def advanceSilent (c : Config Shared Local) (i : Nat) : Nat → Config Shared Local
  | 0 => c
  | fuel + 1 =>
    match c.locals[i]? with
    | some l => if isSilent c.shared l then
        (match step i c.shared l with
         | some (s', l') => advanceSilent { shared := s', locals := c.locals.set i l' } i fuel
         | none => c)
      else c
    | none => c

def conform (c : Config Shared Local) : List String → List String
  | [] => []
  | line :: rest =>
    match line.splitOn " " with
    | ["R", iS, what] =>
      (match iS.toNat? with
       | none => "bad-line" :: conform c rest
       | some i =>
         let c := advanceSilent c i 6
         let e := match outcomeOf c i with | some .ran => "ran" | some .shed => "shed" | none => "nothing"
         if e == what then "ok" :: conform c rest
         else s!"MISMATCH thread {i}: in the model the call ends as [{e}], the code reports [{what}]" :: conform c rest)
    | tidS :: toks =>
      let body := " ".intercalate toks
      if !tracked body then "skip" :: conform c rest else
      (match tidS.toNat? with
       | none => "bad-line" :: conform c rest
       | some tid =>
         let c := advanceSilent c tid 6
         match c.locals[tid]? with
         | none => s!"MISMATCH no such thread {tid}" :: conform c rest
         | some l =>
           match expected c.shared l with
           | none => s!"MISMATCH model expects nothing more from thread {tid} but the code did: {body}" :: conform c rest
           | some e =>
             if e != body then s!"MISMATCH thread {tid}: model expects [{e}] code did [{body}]" :: conform c rest
             else match step tid c.shared l with
               | some (s', l') => "ok" :: conform { shared := s', locals := c.locals.set tid l' } rest
               | none => s!"MISMATCH thread {tid}: [{body}] is not enabled in the model" :: conform c rest)
    | _ => "bad-line" :: conform c rest

end TrCall

/-! the same traces against the WHOLE-CALL model Conc/Run: besides the admission reads, the invocation and the transitions,
    the bulkhead's `Add(1)`, the limit read and the deferred `Add(-1)` are model steps, in the model's order -/
namespace TrRun
open Conc.Run

def gaugeVar := "c.concurrentCommands"
def limitVar := "c.threadSafeConfig.Execution.MaxConcurrentRequests"

def tracked (body : String) : Bool :=
  !(body.startsWith "load c.concurrentCommands " || body.startsWith "load c.concurrentFallbacks ") &&
  (TrCall.tracked body || body == "in-run" || (body.splitOn " ").any fun t => t == gaugeVar || t == limitVar)

def expected (marker : String) (s : Shared) (l : Local) : Option String :=
  let ldFO := s!"load {TrTrans.fo} -> {s.t.forceOpen}"
  let ldFC := s!"load {TrTrans.fc} -> {s.t.forcedClosed}"
  let ldFl := s!"load c.isOpen -> {s.t.isOpen}"
  match l.pc with
  | .aFO | .gFO | .pFO _ | .oFO _ => some ldFO
  | .aFC | .pFC _ | .oFC _ | .oFC2 _ => some ldFC
  | .aFlag | .pFlag _ | .oFlag _ => some ldFl
  | .askAllow | .askPrevent | .deliverShort | .vetoed | .deliverReject | .classify | .deliver _ | .askShouldOpen _ => none
  | .gaugeAdd => some s!"add {gaugeVar} 1 -> {s.gauge + 1}"
  | .loadLimit _ => some s!"load {limitVar} -> {s.limit}"
  | .invoke => some marker
  | .trans tl _ => TrTrans.expected s.t tl
  | .gaugeDec _ => some s!"add {gaugeVar} -1 -> {s.gauge - 1}"
  | .done _ => none

def isSilent (marker : String) (s : Shared) (l : Local) : Bool :=
  match l.pc with
  | .done _ => false
  | _ => (expected marker s l).isNone

def advanceSilent (marker : String) (c : Config Shared Local) (i : Nat) : Nat → Config Shared Local
  | 0 => c
  | fuel + 1 =>
    match c.locals[i]? with
    | some l => if isSilent marker c.shared l then
        (match step i c.shared l with
         | some (s', l') => advanceSilent marker { shared := s', locals := c.locals.set i l' } i fuel
         | none => c)
      else c
    | none => c

def conform (marker : String) (c : Config Shared Local) : List String → List String
  | [] => []
  | line :: rest =>
    match line.splitOn " " with
    | ["R", iS, what] =>
      (match iS.toNat? with
       | none => "bad-line" :: conform marker c rest
       | some i =>
         let c := advanceSilent marker c i 8
         let e := match resultOf c i with | some (.ran _) => "ran" | some .shed => "shed" | some .manual => "ran" | some .rejected => "rejected" | some .panicked => "panicked" | none => "nothing"
         if e == what then "ok" :: conform marker c rest
         else s!"MISMATCH thread {i}: in the whole-call model the call ends as [{e}], the code reports [{what}]" :: conform marker c rest)
    | tidS :: toks =>
      let body := " ".intercalate toks
      if !tracked body then "skip" :: conform marker c rest else
      (match tidS.toNat? with
       | none => "bad-line" :: conform marker c rest
       | some tid =>
         let c := advanceSilent marker c tid 8
         match c.locals[tid]? with
         | none => s!"MISMATCH no such thread {tid}" :: conform marker c rest
         | some l =>
           match expected marker c.shared l with
           | none => s!"MISMATCH whole-call model expects nothing more from thread {tid} but the code did: {body}" :: conform marker c rest
           | some e =>
             if e != body then s!"MISMATCH thread {tid}: whole-call model expects [{e}] code did [{body}]" :: conform marker c rest
             else match step tid c.shared l with
               | some (s', l') => "ok" :: conform marker { shared := s', locals := c.locals.set tid l' } rest
               | none => s!"MISMATCH thread {tid}: [{body}] is not enabled in the whole-call model" :: conform marker c rest)
    | _ => "bad-line" :: conform marker c rest

end TrRun

/-- the `shed` scenario judged against Conc/Run (limit -1: nobody is refused by the bulkhead) -/
def suiteTrRun (kvs : List (String × String)) (lines : List (String × String)) : List String :=
  let jobs : List Conc.Run.Job := ((kvGet kvs "ops").getD "").toList.map fun ch =>
    if ch == 'O' then .open else if ch == 'F' then .call { failed := true, shouldOpen := true } else .call {}
  (TrRun.conform "run-invoked" (Conc.Run.init false false (kvBool kvs "init" false) (-1) jobs) (lines.map (·.1))).map fun r => r ++ "\t-"

/-- the `gauge` scenario (callers that succeed, fail or PANIC against a finite run limit; a collector that may panic on a
    rejection) judged against Conc/Run: admission reads, `Add(1)`, the limit read, the invocation, the reads of
    checkSuccess / checkErrFailure / attemptToOpen and the deferred `Add(-1)` on EVERY exit, in the model's order -/
def suiteTrRunGauge (kvs : List (String × String)) (lines : List (String × String)) : List String :=
  if kvNat kvs "dis" 0 == 1 then lines.map fun _ => "skip\t-" else   -- the kill switch is in Conc/Exec only
  let jobs : List Conc.Run.Job := ((kvGet kvs "acts").getD "").toList.map fun ch =>
    if ch == 's' then .call {} else if ch == 'p' then .call { panics := true } else .call { failed := true }
  (TrRun.conform "in-run" (Conc.Run.init false false false (kvInt kvs "mc" 10) jobs) (lines.map (·.1))).map fun r => r ++ "\t-"

/-! the `gauge` traces against the WHOLE-EXECUTE model Conc/Exec: after the run side (as in `tr-run-gauge`) Execute's decision
    and the fallback — the Disabled read, `concurrentFallbacks.Add(1)`, the limit read, the fallback function, the deferred
    `Add(-1)` on every exit incl. the fallback's panic -/
namespace TrExec
open Conc.Exec

def fbGaugeVar := "c.concurrentFallbacks"
def fbLimitVar := "c.threadSafeConfig.Fallback.MaxConcurrentRequests"
def fbDisabledVar := "c.threadSafeConfig.Fallback.Disabled"
def disabledVar := "c.threadSafeConfig.CircuitBreaker.Disabled"

def tracked (body : String) : Bool :=
  !(body.startsWith "load c.concurrentCommands " || body.startsWith "load c.concurrentFallbacks ") &&
  (TrRun.tracked body || body == "in-fallback" || (body.splitOn " ").any fun t => t == fbGaugeVar || t == fbLimitVar || t == fbDisabledVar || t == disabledVar)

def expected (s : Shared) : Local → Option String
  | .op .. => none
  | .call l _ pc =>
    match pc with
    | .gate => some s!"load {disabledVar} -> {s.disabled}"
    | .passthru => some "in-run"
    | .running => (match l.pc with | .done _ => none | _ => TrRun.expected "in-run" s.r l)
    | .decide _ | .fbDeliverReject | .fbDeliver _ => none
    | .loadDisabled => some s!"load {fbDisabledVar} -> {s.fbDisabled}"
    | .fbAdd => some s!"add {fbGaugeVar} 1 -> {s.fbGauge + 1}"
    | .fbLoadLimit _ => some s!"load {fbLimitVar} -> {s.fbLimit}"
    | .fbInvoke => some "in-fallback"
    | .fbDec _ => some s!"add {fbGaugeVar} -1 -> {s.fbGauge - 1}"
    | .done _ => none

def isDone : Local → Bool
  | .call _ _ (.done _) => true
  | _ => false

def advanceSilent (c : Config Shared Local) (i : Nat) : Nat → Config Shared Local
  | 0 => c
  | fuel + 1 =>
    match c.locals[i]? with
    | some l => if !isDone l && (expected c.shared l).isNone then
        (match step i c.shared l with
         | some (s', l') => advanceSilent { shared := s', locals := c.locals.set i l' } i fuel
         | none => c)
      else c
    | none => c

def conform (c : Config Shared Local) : List String → List String
  | [] => []
  | line :: rest =>
    match line.splitOn " " with
    | tidS :: toks =>
      let body := " ".intercalate toks
      if !tracked body then "skip" :: conform c rest else
      (match tidS.toNat? with
       | none => "bad-line" :: conform c rest
       | some tid =>
         let c := advanceSilent c tid 10
         match c.locals[tid]? with
         | none => s!"MISMATCH no such thread {tid}" :: conform c rest
         | some l =>
           match expected c.shared l with
           | none => s!"MISMATCH whole-Execute model expects nothing more from thread {tid} but the code did: {body}" :: conform c rest
           | some e =>
             if e != body then s!"MISMATCH thread {tid}: whole-Execute model expects [{e}] code did [{body}]" :: conform c rest
             else match step tid c.shared l with
               | some (s', l') => "ok" :: conform { shared := s', locals := c.locals.set tid l' } rest
               | none => s!"MISMATCH thread {tid}: [{body}] is not enabled in the whole-Execute model" :: conform c rest)
    | _ => "bad-line" :: conform c rest

end TrExec

/-- `gauge` scenario, header k= mc= fbmc= acts=<s|f|p|F|P per caller> pr=(0|1).  With pr=1 a COLLECTOR panics when told about
    a rejection — user code the model has no step for: those traces are judged by `tr-run-gauge` (run side) only -/
def suiteTrExecGauge (kvs : List (String × String)) (lines : List (String × String)) : List String :=
  if kvNat kvs "pr" 0 == 1 then lines.map fun _ => "skip\t-" else
  let jobs : List Conc.Exec.Job := ((kvGet kvs "acts").getD "").toList.map fun ch =>
    if ch == 's' then .exec {} {} else if ch == 'p' then .exec { panics := true } {}
    else if ch == 'f' then .exec { failed := true } {} else if ch == 'F' then .exec { failed := true } { fails := true }
    else .exec { failed := true } { panics := true }
  (TrExec.conform (Conc.Exec.init false false false (kvInt kvs "mc" 10) (kvInt kvs "fbmc" 10) false jobs (kvNat kvs "dis" 0 == 1)) (lines.map (·.1))).map fun r => r ++ "\t-"

/-- header of the `shed` scenario: init=(0|1) ops=<O|F|S per thread>; the closer admits nobody and never closes,
    the opener says open after every failure -/
def suiteTrCall (kvs : List (String × String)) (lines : List (String × String)) : List String :=
  let jobs : List Conc.Call.Job := ((kvGet kvs "ops").getD "").toList.map fun ch =>
    if ch == 'O' then .open else if ch == 'F' then .call { fails := true, shouldOpen := true } else .call {}
  (TrCall.conform (Conc.Call.init false false (kvBool kvs "init" false) jobs) (lines.map (·.1))).map fun r => r ++ "\t-"

end CM

/-
  GoFsnewPrims.lean — what the names MEAN in the translated bodies of
    H   `NewRollingCounter` (faststats/rolling_counter.go), `NewRollingPercentile` / `makeBuckets` / `newDurationsBucket`
        (faststats/rolling_percentile.go) — units GoNewRC, GoNewRP
    CW  `RollingCounter.RollingSum()`                                         — unit GoRCWall
    PW  `RollingPercentile.SnapshotAt(now)` / `Snapshot()`                    — unit GoRPSnap
    IT  `durationsBucket.IterateDurations(startingIndex, callback)`           — unit GoDBIter
    SV  `SortedDurations.Var()` (on top of GoSortedDurationsPrims)               — unit GoSDVar

  H.  A constructor's whole point is WHICH memory the new object owns, so here (and only here) slices of atomic cells are
  not values but REFERENCES: the state is a heap — the list of every array `make([]AtomicInt64, k)` has produced so far,
  oldest first, an array's identity being its position — and a `[]AtomicInt64` value is `Slice.mk base len`: all `len`
  cells of array number `base` (the translated subset has no slice expressions, so a slice never covers part of an array).
  `make([]AtomicInt64, n)` appends an array of `n` zero cells and returns the slice over it; a negative length is Go's
  runtime panic.  The Go struct types are mirrored field by field (absent fields of a literal keep Go's zero values).
  `make([]durationsBucket, n)` is the list of `n` zero buckets (a local value: the translated code fills it by index).
  `absRC` / `absRP` read such an object back into the models `RC` / `RP` (RollingCounter.lean, RollingPercentile.lean):
  a slot's buffer must be EXACTLY the array it points to (same length), else there is no abstraction.

  CW / PW.  `time.Now()` is one reading of the environment's wall clock: the state carries the clock as a stream
  (`clock k` = what the k-th reading yields, as an offset from StartTime like every time in the `RC` / `RP` models) and the
  number of readings taken so far.  Everything else is the object's existing meaning (GoRollingPrims.C, GoRollingPercentilePrims.P)
  run on the `obj` component; `r.SortedDurations(now)` is the model's `RP.snapshot` (tied to today's translated body by
  `CM.GoTie.GoRP.go_SortedDurations_eq`); the conversion `SortedDurations(x)` changes the static type only.

  IT.  One `durationsBucket` (`DSlot`) plus the list of values the callback has been handed, in order (the callback is the
  environment's: all that is modelled of it is what it receives; it does not touch the bucket).  An index outside the
  buffer is Go's runtime panic (with an empty buffer `i % 0` is one too: here `goMod i 0 = i`, and the index that follows
  is outside the empty buffer, so the outcome is a runtime panic either way).

  SV.  `Var()` returns `expvar.Func(func() interface{} { return map[string]string{…} })`.  The function value is first
  order (`CloV`: the generated name of its body + the receiver it closes over); EVALUATING it is the generated
  `go_Var_lit1_eval`.  A `map[string]string` literal is its (key, value) pairs in source order.  `d.String()` is NOT
  interpreted: `DurStr.mk d` stands for "the text Go prints for the duration d" — what the tie is about is WHICH duration
  stands under which key.  `expvar.Func(f)` is a type conversion.

  Hand-written, trusted; the bodies are regenerated (Generated/GoNewRC, GoNewRP, GoRCWall, GoRPSnap, GoDBIter, GoSDVar).
-/
import CircuitModel.GoRollingPrims
import CircuitModel.GoRollingPercentilePrims
import CircuitModel.GoSortedDurationsPrims
namespace CM.GoFsNew
open CM CM.Go

/-! ## H — constructors over a heap of cell arrays -/

/-- a `[]AtomicInt64` value: nil, or ALL `len` cells of the heap's array number `base` -/
inductive Slice where
  | nil
  | mk (base len : Nat)
  deriving Repr, DecidableEq

/-- every array `make([]AtomicInt64, k)` has produced so far, oldest first -/
structure Heap where
  cells : List (List Int) := []
  deriving Repr, DecidableEq

structure RollingBuckets where
  NumBuckets : Int := 0
  StartTime : Int := 0
  BucketWidth : Int := 0
  LastAbsIndex : Int := 0
  deriving Repr, DecidableEq

structure RollingCounter where
  buckets : Slice := .nil
  rollingSum : Int := 0
  totalSum : Int := 0
  rollingBucket : RollingBuckets := {}
  deriving Repr, DecidableEq

structure durationsBucket where
  durationsSomeInvalid : Slice := .nil
  currentIndex : Int := 0
  deriving Repr, DecidableEq

structure RollingPercentile where
  buckets : List durationsBucket := []
  rollingBucket : RollingBuckets := {}
  deriving Repr, DecidableEq

namespace H
abbrev HM := M Heap NoTok
def fn (body : HM α) : HM α := goFunc noTok body

/-- `make([]AtomicInt64, n)`: a NEW array of `n` zero cells (its number is the count of arrays made before it) -/
def goMake_AtomicInt64 (n : Int) : HM Slice := fun g =>
  if n < 0 then (.nilCall, g)
  else (.ok (.mk g.st.cells.length n.toNat), { g with st := { cells := g.st.cells ++ [List.replicate n.toNat 0] } })

/-- `make([]durationsBucket, n)`: `n` zero buckets -/
def goMake_durationsBucket (n : Int) : HM (List durationsBucket) :=
  if n < 0 then Go.nilCall else pure (List.replicate n.toNat {})

def goRange (n : Int) : List Int := (List.range n.toNat).map Int.ofNat
def goSet (l : List α) (i : Int) (v : α) : List α := l.set i.toNat v
end H

/-- the cells a slice denotes — only if it is exactly one whole array of the heap -/
def Heap.read (h : Heap) : Slice → Option (List Int)
  | .nil => some []
  | .mk b n => match h.cells[b]? with
    | some a => if a.length = n then some a else none
    | none => none

def sliceLen : Slice → Nat
  | .nil => 0
  | .mk _ n => n

/-- a constructed counter, read back into the model `RC` -/
def absRC (h : Heap) (c : RollingCounter) : Option RC :=
  (h.read c.buckets).map fun b =>
    { n := c.rollingBucket.NumBuckets.toNat, w := c.rollingBucket.BucketWidth, last := c.rollingBucket.LastAbsIndex.toNat,
      buckets := b, rolling := c.rollingSum, total := c.totalSum }

def absSlot (h : Heap) (b : durationsBucket) : Option DSlot :=
  (h.read b.durationsSomeInvalid).map fun a =>
    { size := sliceLen b.durationsSomeInvalid, cur := b.currentIndex.toNat, arr := a }

def absSlots (h : Heap) : List durationsBucket → Option (List DSlot)
  | [] => some []
  | b :: bs => match absSlot h b, absSlots h bs with
    | some s, some ss => some (s :: ss)
    | _, _ => none

/-- a constructed percentile ring, read back into the model `RP` -/
def absRP (h : Heap) (r : RollingPercentile) : Option RP :=
  (absSlots h r.buckets).map fun ss =>
    { n := r.rollingBucket.NumBuckets.toNat, w := r.rollingBucket.BucketWidth, last := r.rollingBucket.LastAbsIndex.toNat, slots := ss }

/-- the arrays a list of buckets points to, in order -/
def bases : List durationsBucket → List Nat
  | [] => []
  | b :: bs => match b.durationsSomeInvalid with
    | .mk a _ => a :: bases bs
    | .nil => bases bs

/-! ### statement side: what the constructors return when `k` arrays existed before the call -/

/-- `NewRollingCounter(w, n, now)`: its buckets are array number `k`, `n` cells; both sums 0; ring of `n` buckets of width `w`
    starting at `now`, newest index 0 -/
def newRC (w n now : Int) (k : Nat) : RollingCounter :=
  { buckets := .mk k n.toNat, rollingSum := 0, totalSum := 0,
    rollingBucket := { NumBuckets := n, StartTime := now, BucketWidth := w, LastAbsIndex := 0 } }

/-- `newDurationsBucket(size)`: buffer = array number `k`, `size` cells; cursor 0 -/
def newSlot (size : Int) (k : Nat) : durationsBucket := { durationsSomeInvalid := .mk k size.toNat, currentIndex := 0 }

/-- `makeBuckets(n, size)`: bucket `i` owns array number `k + i` -/
def newSlots (n size : Int) (k : Nat) : List durationsBucket := (List.range n.toNat).map fun i => newSlot size (k + i)

def newRP (w n size now : Int) (k : Nat) : RollingPercentile :=
  { buckets := newSlots n size k, rollingBucket := { NumBuckets := n, StartTime := now, BucketWidth := w, LastAbsIndex := 0 } }

/-- the heap after `m` more arrays of `size` zero cells -/
def Heap.grow (h : Heap) (m size : Nat) : Heap := { cells := h.cells ++ List.replicate m (List.replicate size 0) }

/-- a constructor as an action: a runtime panic (nothing allocated) when `bad`; else `m` new arrays of `size` zero cells
    are appended to the heap and the object built over them — `mk k`, `k` = number of arrays before the call — is returned -/
def H.construct (bad : Prop) [Decidable bad] (mk : Nat → α) (m size : Nat) : H.HM α := fun g =>
  if bad then (.nilCall, g) else (.ok (mk g.st.cells.length), { g with st := g.st.grow m size })

/-! ## CW / PW — wall-clock wrappers -/

/-- an object together with the environment's wall clock -/
structure Walled (σ : Type) where
  obj : σ
  clock : Nat → Int      -- the k-th reading of `time.Now()` (offset from StartTime)
  reads : Nat := 0       -- readings taken so far

/-- `time.Now()` -/
def wallNow : M (Walled σ) NoTok Int := updRet fun w => ({ w with reads := w.reads + 1 }, w.clock w.reads)

/-- an action of the object, run inside the walled state -/
def onObj (m : M σ NoTok α) : M (Walled σ) NoTok α := fun g =>
  ((m { st := g.st.obj, defers := g.defers }).1,
   { st := { g.st with obj := (m { st := g.st.obj, defers := g.defers }).2.st }, defers := (m { st := g.st.obj, defers := g.defers }).2.defers })

/-- "take one reading `t`, then do `f t` to the object" -/
def atWallTime (f : Int → σ → σ × α) : M (Walled σ) NoTok α :=
  updRet fun w => ({ w with obj := (f (w.clock w.reads) w.obj).1, reads := w.reads + 1 }, (f (w.clock w.reads) w.obj).2)

namespace CW
abbrev CWM := M (Walled RC) NoTok
def fn (body : CWM α) : CWM α := goFunc noTok body
def time_Now : CWM Int := wallNow
def recvMethod_clearBucket : GoRolling.ClearFn := GoRolling.C.recvMethod_clearBucket
def recv_rollingBucket_Advance (now : Int) (f : GoRolling.ClearFn) : CWM Int := onObj (GoRolling.C.recv_rollingBucket_Advance now f)
def recv_rollingSum_Get : CWM Int := onObj GoRolling.C.recv_rollingSum_Get
/-! `StringAt`: its callees are the model's operations (tied in unit GoRollingCounter); `GetBuckets` on a counter with no
    buckets is Go's runtime panic (integer divide by zero), the model's `none` -/
def recv_GetBuckets (now : Int) : CWM (List Int) := onObj fun g =>
  match (g.st.getBuckets now).2 with
  | some l => (.ok l, { g with st := (g.st.getBuckets now).1 })
  | none => (.nilCall, { g with st := (g.st.getBuckets now).1 })
def recv_RollingSumAt (now : Int) : CWM Int := onObj (updRet fun c => c.sumAt now)
def recv_TotalSum : CWM Int := onObj (rd (·.total))
/-- `strconv.FormatInt(v, base)`: decimal only -/
def strconv_FormatInt (v base : Int) : CWM String := pure (if base = 10 then toString v else "?")
def strings_Join (l : List String) (sep : String) : CWM String := pure (sep.intercalate l)
/-- `fmt.Sprintf` for the verbs `%d` (of an integer: decimal) and `%s` (of a string: itself): each verb takes the next operand -/
def sprintfAux : List Char → List String → List Char
  | '%' :: 'd' :: cs, a :: as => a.toList ++ sprintfAux cs as
  | '%' :: 's' :: cs, a :: as => a.toList ++ sprintfAux cs as
  | c :: cs, as => c :: sprintfAux cs as
  | [], _ => []
def fmt_Sprintf (f : String) (a b : Int) (c : String) : CWM String :=
  pure (String.ofList (sprintfAux f.toList [toString a, toString b, c]))
end CW

/-- how `StringAt` renders a rolling sum, a total and the bucket counts (newest first):
    `Sprintf("rolling_sum=%d total_sum=%d parts=(%s)", rolling, total, Join(decimal counts, ","))` -/
def rcRender (rolling total : Int) (bs : List Int) : String :=
  String.ofList (CW.sprintfAux "rolling_sum=%d total_sum=%d parts=(%s)".toList
    [toString rolling, toString total, ",".intercalate (bs.map toString)])

namespace PW
abbrev PWM := M (Walled RP) NoTok
def fn (body : PWM α) : PWM α := goFunc noTok body
def time_Now : PWM Int := wallNow
/-- `r.SortedDurations(now)` (translated in unit GoRollingPercentile) -/
def recv_SortedDurations (now : Int) : PWM (List Int) := onObj (updRet fun r => r.snapshot now)
/-- the conversion `SortedDurations(x)` -/
def pkg_SortedDurations (x : List Int) : PWM (List Int) := pure x
end PW

/-! ## IT — the bucket iterator -/

/-- a bucket and what the callback has been handed so far -/
structure ITW where
  slot : DSlot
  seen : List Int := []
  deriving Repr, DecidableEq

/-- `func(time.Duration)`: the environment's callback -/
inductive DurCb where
  | record
  deriving Repr, DecidableEq

namespace IT
abbrev ITM := M ITW NoTok
def fn (body : ITM α) : ITM α := goFunc noTok body
def pkg_int64 (x : Int) : ITM Int := pure x
def goMod (a b : Int) : Int := Int.tmod a b
def goLen (l : List α) : Int := l.length
/-- `A, A-1, …, B` (nothing when `A < B`) -/
def goDownFrom (a b : Int) : List Int := (List.range (a - b + 1).toNat).map fun (k : Nat) => a - Int.ofNat k
def recv_currentIndex_Get : ITM Int := rd fun s => (s.slot.cur : Int)
def recv_durationsSomeInvalid : ITM (List Int) := rd (·.slot.arr)
/-- `b.durationsSomeInvalid[i].Duration()`: Go panics outside the buffer -/
def recv_durationsSomeInvalid_at_Duration (i : Int) : ITM Int := fun g =>
  if i < 0 then (.nilCall, g) else match g.st.slot.arr[i.toNat]? with
    | some v => (.ok v, g)
    | none => (.nilCall, g)
instance : Call1 ITM DurCb Int Unit where
  call _ v := upd fun s => { s with seen := s.seen ++ [v] }
end IT

/-! ## SV — `SortedDurations.Var()` -/
namespace SV
open CM.GoSD

/-- the text `time.Duration.String()` prints for a duration (not interpreted) -/
structure DurStr where
  of : Int
  deriving Repr, DecidableEq

abbrev VarMap := List (String × DurStr)

/-- a `func() interface{}` value: the generated name of its body and the receiver (a slice value) it closes over -/
structure CloV where
  name : String
  recv : List I64
  env : List Int
  deriving Repr, DecidableEq

def cloStuckV : DM VarMap := Go.nilCall
def goMapLit (l : List (String × DurStr)) : VarMap := l
def expvar_Func (f : CloV) : DM CloV := pure f
end SV
def _root_.CM.GoSD.I64.m_String (d : GoSD.I64) : GoSD.DM SV.DurStr := pure ⟨d.v⟩

/-- what evaluating `s.Var()` publishes: each `pNN` is `Percentile(NN)` of `s` (NN on the 0–100 scale), next to min, max, mean;
    `none` where a percentile has no value (Go panics) -/
def varSummary (s : List Int) : Option SV.VarMap :=
  match SD.percentile s (.fin 25), SD.percentile s (.fin 50), SD.percentile s (.fin 90), SD.percentile s (.fin 99) with
  | some a, some b, some c, some d =>
    some [("min", ⟨SD.min s⟩), ("p25", ⟨a⟩), ("p50", ⟨b⟩), ("p90", ⟨c⟩), ("p99", ⟨d⟩), ("max", ⟨SD.max s⟩), ("mean", ⟨SD.mean s⟩)]
  | _, _, _, _ => none

/-- what `IterateDurations(start, cb)` hands to the callback: the cells at `i % size` for `i = cur-1, cur-2, …, start` -/
def iterValues (s : DSlot) (start : Int) : List Int :=
  (IT.goDownFrom ((s.cur : Int) - 1) start).map fun i => s.arr.getD (Int.tmod i s.size).toNat 0

end CM.GoFsNew

/-
  RollingPercentile.lean — model of faststats.RollingPercentile, durationsBucket and SortedDurations
  (faststats/rolling_percentile.go).  The ring logic is `RollingBuckets.Advance` again, here factored as a *plan*
  (new newest index, slots to clear in order, resulting slot) so that it can be shared.
-/
import CircuitModel.RollingCounter
import CircuitModel.F64
namespace CM

/-- slots cleared by the `for` loop of Advance: (last+1)%n, (last+2)%n, … at most `fuel` of them while last < abs -/
def ringClears (n : Nat) (last abs : Nat) : Nat → List Nat
  | 0 => []
  | k+1 => if last < abs then ((last + 1) % n) :: ringClears n (last + 1) abs k else []

/-- `Advance` as a plan: (new LastAbsIndex, slots cleared in order, returned index or none for -1) -/
def ringPlan (n : Nat) (w : Int) (last : Nat) (d : Int) : Nat × List Nat × Option Nat :=
  if n = 0 then (last, [], none)
  else if d < 0 then (last, [], none)
  else
    let abs := absIdx w d
    if abs = last then (last, [], some (abs % n))
    else if abs < last then
      if last - abs ≥ n then (last, [], none) else (last, [], some (abs % n))
    else (abs, ringClears n last abs n, some (abs % n))

/-- durationsBucket -/
structure DSlot where
  size : Nat              -- len(durationsSomeInvalid)
  cur : Nat := 0          -- currentIndex
  arr : List Int          -- len = size
  deriving Repr, DecidableEq

def DSlot.new (size : Nat) : DSlot := { size := size, arr := List.replicate size 0 }
def DSlot.clear (s : DSlot) : DSlot := { s with cur := 0 }
def DSlot.add (s : DSlot) (d : Int) : DSlot :=
  if s.size = 0 then s else { s with cur := s.cur + 1, arr := s.arr.set (s.cur % s.size) d }
def DSlot.durations (s : DSlot) : List Int := s.arr.take (min s.cur s.size)

structure RP where
  n : Nat
  w : Int
  last : Nat := 0
  slots : List DSlot
  deriving Repr, DecidableEq

def RP.new (n : Nat) (w : Int) (size : Nat) : RP := { n := n, w := w, slots := List.replicate n (DSlot.new size) }

def RP.clearSlot (r : RP) (i : Nat) : RP :=
  match r.slots[i]? with
  | some s => { r with slots := r.slots.set i s.clear }
  | none => r

def RP.advance (r : RP) (d : Int) : RP × Option Nat :=
  let (last', clears, idx) := ringPlan r.n r.w r.last d
  (clears.foldl RP.clearSlot { r with last := last' }, idx)

/-- `AddDuration(d, now)`: returns early for an empty ring and for Advance's -1 -/
def RP.add (r : RP) (dur : Int) (d : Int) : RP :=
  if r.slots.length = 0 then r
  else
    match r.advance d with
    | (r, none) => r
    | (r, some idx) =>
      match r.slots[idx]? with
      | some s => { r with slots := r.slots.set idx (s.add dur) }
      | none => r

/-- insertion sort on integers (structurally recursive, so the kernel can evaluate it); Go uses `sort.Slice`,
    any correct sort gives the same list of integers -/
def insertSorted (x : Int) : List Int → List Int
  | [] => [x]
  | y :: ys => if x ≤ y then x :: y :: ys else y :: insertSorted x ys

def isort : List Int → List Int
  | [] => []
  | x :: xs => insertSorted x (isort xs)

/-- `SortedDurations(now)` / `SnapshotAt(now)` -/
def RP.snapshot (r : RP) (d : Int) : RP × List Int :=
  if r.slots.length = 0 then (r, [])
  else
    let r := (r.advance d).1
    (r, isort ((r.slots.map DSlot.durations).flatten))

def RP.reset (r : RP) (d : Int) : RP :=
  let r := (r.advance d).1
  (List.range r.n).foldl RP.clearSlot r

inductive RPOp where
  | add (dur d : Int) | snap (d : Int) | reset (d : Int)
  deriving Repr, DecidableEq

inductive RPOut where
  | ok | ints (l : List Int)
  deriving Repr, DecidableEq

def RP.step (r : RP) : RPOp → RP × RPOut
  | .add dur d => (r.add dur d, .ok)
  | .snap d => let (r, l) := r.snapshot d; (r, .ints l)
  | .reset d => (r.reset d, .ok)

def RP.run (r : RP) : List RPOp → List RPOut
  | [] => []
  | op :: ops => let (r', o) := r.step op; o :: RP.run r' ops

/-! ### SortedDurations -/
namespace SD
open F64

def min (s : List Int) : Int := match s with | [] => -1 | x :: _ => x
def max (s : List Int) : Int := match s.getLast? with | none => -1 | some x => x

/-- `Mean`: int64 sum (wrapping) then truncated division -/
def mean (s : List Int) : Int :=
  if s.length = 0 then -1 else tdiv (wrap64 s.sum) s.length

/-- `Percentile(p)`; `none` where Go's result is unspecified (NaN p) or an index would be out of range (panic) -/
def percentile (s : List Int) (p : Val) : Option Int :=
  match s with
  | [] => some (-1)
  | [x] => some x
  | x0 :: _ =>
    match p with
    | .nan => none
    | .ninf => some x0
    | .pinf => some (max s)
    | .fin pv =>
      if pv ≤ 0 then some x0
      else if pv ≥ 100 then some (max s)
      else
        let abs := mul (div pv 100) (ofInt ((s.length : Int) - 1))
        let fl := abs.floor
        let ce := abs.ceil
        match s[fl.toNat]?, s[ce.toNat]? with
        | some first, some second =>
          if fl < 0 then none else
          let weight := sub abs (fl : Rat)
          some (wrap64 (first + toInt (mul (ofInt (wrap64 (second - first))) weight)))
        | _, _ => none

/-- the (label, percentile argument) pairs published by `Var()` -/
def varLabels : List (String × Rat) := [("p25", 25), ("p50", 50), ("p90", 90), ("p99", 99)]

end SD
end CM

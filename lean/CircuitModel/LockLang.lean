/-
  LockLang.lean — lock-discipline facts (REGENERATED from the Go source by tools/extract/lockfacts into
  Generated/LockFacts.lean) and the checker whose soundness is proved once in CircuitProofs/Props/C11.
-/
namespace CM.Lock

/-- a mutex held at an access; `write` = held exclusively (Lock) rather than shared (RLock) -/
structure Held where
  lock : String
  write : Bool
  deriving Repr, DecidableEq

structure Access where
  fn : String
  write : Bool
  construction : Bool        -- inside a construction-phase function (not concurrent with anything)
  held : List Held
  deriving Repr, DecidableEq

structure FieldFacts where
  field : String
  accesses : List Access
  deriving Repr, DecidableEq

def live (f : FieldFacts) : List Access := f.accesses.filter (!·.construction)

/-- lock `L` protects the live accesses: every one holds it, and every write holds it exclusively -/
def protects (L : String) (as : List Access) : Bool :=
  as.all fun a => a.held.any fun h => h.lock == L && (h.write || !a.write)

/-- a field is fine if it is never written after construction, or one common mutex protects all live accesses -/
def fieldOk (f : FieldFacts) : Bool :=
  (live f).all (!·.write) ||
  ((live f).flatMap (·.held)).any fun h => protects h.lock (live f)

def disciplineOk (facts : List FieldFacts) : Bool := facts.all fieldOk

/-- lock order: rank = length of the longest chain of acquired-while-holding edges leading to a lock (fuel-bounded) -/
def rankStep (edges : List (String × String)) (r : String → Nat) : String → Nat :=
  fun x => ((edges.filter (·.2 == x)).map fun e => r e.1 + 1).foldl max 0

def rankOf (edges : List (String × String)) : Nat → String → Nat
  | 0 => fun _ => 0
  | k + 1 => rankStep edges (rankOf edges k)

/-- the acquired-while-holding relation is acyclic: the fuel-bounded rank strictly increases along every edge -/
def lockOrderOk (edges : List (String × String)) : Bool :=
  let r := rankOf edges (edges.length + 1)
  edges.all fun e => decide (r e.1 < r e.2)

end CM.Lock

/-
  GoStreamPrims.lean — what the names in `collectCommandMetrics` / `generateLatencyTimings`
  (metriceventstream/metriceventstream.go) MEAN: the circuit handle's read-side methods, the attached rolling
  collectors (the models of Consumers.lean; a missing collector is the zero value, whose every reading is 0), the clocks,
  Go's truncating integer division, float64 multiplication and the float→int conversion (F64.lean).
  `attachHystrixProperties` (three configuration values read through type assertions) is not translated.
  The two Lean structures mirror the Go struct types field by field; absent fields of a literal keep Go's zero values.
  Hand-written, trusted; the BODIES — which counter goes into which field — are regenerated (Generated/GoStream/F_*.lean).
-/
import CircuitModel.Consumers
import CircuitModel.GoConsumerPrims
namespace CM.GoStream
open CM CM.Go CM.Cons

structure streamCmdLatency where
  Timing0 : Int := 0
  Timing25 : Int := 0
  Timing50 : Int := 0
  Timing75 : Int := 0
  Timing90 : Int := 0
  Timing95 : Int := 0
  Timing99 : Int := 0
  Timing995 : Int := 0
  Timing100 : Int := 0
  deriving Repr, DecidableEq

structure streamCmdMetric where
  «v_Type» : String := ""
  Name : String := ""
  Group : String := ""
  Time : Int := 0
  ReportingHosts : Int := 0
  RequestCount : Int := 0
  ErrorCount : Int := 0
  ErrorPct : Int := 0
  RollingCountCollapsedRequests : Int := 0
  RollingCountExceptionsThrown : Int := 0
  RollingCountResponsesFromCache : Int := 0
  RollingCountFallbackFailure : Int := 0
  RollingCountFallbackRejection : Int := 0
  RollingCountFallbackSuccess : Int := 0
  RollingCountFailure : Int := 0
  RollingCountSemaphoreRejected : Int := 0
  RollingCountShortCircuited : Int := 0
  RollingCountSuccess : Int := 0
  RollingCountThreadPoolRejected : Int := 0
  RollingCountTimeout : Int := 0
  RollingCountBadRequests : Int := 0
  CurrentConcurrentExecutionCount : Int := 0
  LatencyExecuteMean : Int := 0
  LatencyTotalMean : Int := 0
  LatencyExecute : streamCmdLatency := {}
  LatencyTotal : streamCmdLatency := {}
  CircuitBreakerRequestVolumeThreshold : Int := 0
  CircuitBreakerSleepWindow : Int := 0
  CircuitBreakerErrorThresholdPercent : Int := 0
  ExecutionIsolationStrategy : String := ""
  ExecutionIsolationThreadPoolKeyOverride : String := ""
  ExecutionIsolationThreadTimeout : Int := 0
  ExecutionIsolationSemaphoreMaxConcurrentRequests : Int := 0
  FallbackIsolationSemaphoreMaxConcurrentRequests : Int := 0
  RollingStatsWindow : Int := 0
  CircuitBreakerForceOpen : Bool := false
  CircuitBreakerForceClosed : Bool := false
  CircuitBreakerEnabled : Bool := false
  ExecutionIsolationThreadInterruptOnTimeout : Bool := false
  RequestCacheEnabled : Bool := false
  RequestLogEnabled : Bool := false
  CircuitBreakerOpen : Bool := false
  TotalCountFallbackSuccess : Int := 0
  TotalCountFallbackFailure : Int := 0
  TotalCountFallbackRejection : Int := 0
  TotalCountSuccess : Int := 0
  TotalCountSemaphoreRejected : Int := 0
  TotalCountFailure : Int := 0
  TotalCountShortCircuited : Int := 0
  TotalCountTimeout : Int := 0
  TotalCountBadRequests : Int := 0
  deriving Repr, DecidableEq

/-- the stored configuration as the record reads it -/
structure TKV where
  f_Now : Option Unit          -- the TimeKeeper's Now: nil after a partial live reconfiguration
structure GenV where
  f_TimeKeeper : TKV
  f_Disabled : Bool
  f_ForcedClosed : Bool
  f_ForceOpen : Bool
structure CfgV where
  f_General : GenV
  f_Execution_MaxConcurrentRequests : Int
  f_Execution_Timeout : Int
  f_Fallback_MaxConcurrentRequests : Int
def CfgV.f_General_Disabled (c : CfgV) : Bool := c.f_General.f_Disabled
def CfgV.f_General_ForcedClosed (c : CfgV) : Bool := c.f_General.f_ForcedClosed
def CfgV.f_General_ForceOpen (c : CfgV) : Bool := c.f_General.f_ForceOpen

/-- everything the record is computed from -/
structure StreamW where
  all : All                    -- the attached collectors' state
  runAttached : Bool := true
  fbAttached : Bool := true
  statsDur : Int := 0          -- RunStats' RollingStatsDuration
  cfg : CfgV
  isOpen : Bool                -- what `cb.IsOpen()` answers
  name : String
  conc : Int
  clock : Int                  -- what the configured TimeKeeper reads (diagnostics do not move it)
  wall : Int                   -- time.Now()

abbrev EM := M StreamW NoTok
def fn (body : EM α) : EM α := goFunc noTok body

def goDiv (a b : Int) : Int := tdiv a b
def time_Millisecond_Nanoseconds : EM Int := pure 1000000
def time_Now : EM Int := rd (·.wall)
def _root_.Int.m_UnixNano (t : Int) : M σ tok Int := pure t
instance : Call0 EM (Option Unit) Int where
  call f := match f with
    | some _ => rd (·.clock)
    | none => Go.nilCall

/-- float64 values (exact rationals, F64.lean) -/
structure GoF64 where
  r : Rat
instance : OfNat GoF64 n := ⟨⟨F64.ofInt n⟩⟩
instance : HMul GoF64 GoF64 GoF64 := ⟨fun a b => ⟨F64.mul a.r b.r⟩⟩
def pkg_int64 (x : GoF64) : EM Int := pure (F64.toInt x.r)

/-- the circuit handle -/
structure CircH where
def CircH.m_Config (_ : CircH) : EM CfgV := rd (·.cfg)
def CircH.m_Name (_ : CircH) : EM String := rd (·.name)
def CircH.m_IsOpen (_ : CircH) : EM Bool := rd (·.isOpen)
def CircH.m_ConcurrentCommands (_ : CircH) : EM Int := rd (·.conc)
def pkg_attachHystrixProperties (_ : CircH) (m : streamCmdMetric) : EM streamCmdMetric := pure m

/-- `*rolling.RunStats`: nil, the one attached to the circuit, or a fresh zero value -/
inductive RSH where
  | nil | attached | zero
  deriving Repr, DecidableEq
inductive FSH where
  | nil | attached | zero
  deriving Repr, DecidableEq
instance : IsNil RSH := ⟨fun h => h == .nil⟩
instance : IsNil FSH := ⟨fun h => h == .nil⟩
def rolling_FindCommandMetrics (_ : CircH) : EM RSH := rd fun w => if w.runAttached then .attached else .nil
def rolling_FindFallbackMetrics (_ : CircH) : EM FSH := rd fun w => if w.fbAttached then .attached else .nil
def lit_rolling_RunStats : RSH := .zero
def lit_rolling_FallbackStats : FSH := .zero

/-- a rolling sum of one run counter at `now` (reading rolls that counter's window) -/
def runSum (get : RunStats → RC) (put : RunStats → RC → RunStats) (h : RSH) (now : Int) : EM Int :=
  match h with
  | .attached => updRet fun w => ({ w with all := { w.all with run := put w.all.run ((get w.all.run).sumAt now).1 } }, ((get w.all.run).sumAt now).2)
  | _ => pure 0
def runTotal (get : RunStats → RC) (h : RSH) : EM Int :=
  match h with
  | .attached => rd fun w => (get w.all.run).total
  | _ => pure 0
def RSH.m_Successes_RollingSumAt := runSum (·.successes) (fun r c => { r with successes := c })
def RSH.m_ErrConcurrencyLimitRejects_RollingSumAt := runSum (·.rejects) (fun r c => { r with rejects := c })
def RSH.m_ErrFailures_RollingSumAt := runSum (·.failures) (fun r c => { r with failures := c })
def RSH.m_ErrShortCircuits_RollingSumAt := runSum (·.shortCircuits) (fun r c => { r with shortCircuits := c })
def RSH.m_ErrTimeouts_RollingSumAt := runSum (·.timeouts) (fun r c => { r with timeouts := c })
def RSH.m_ErrBadRequests_RollingSumAt := runSum (·.badRequests) (fun r c => { r with badRequests := c })
def RSH.m_ErrInterrupts_RollingSumAt := runSum (·.interrupts) (fun r c => { r with interrupts := c })
def RSH.m_Successes_TotalSum := runTotal (·.successes)
def RSH.m_ErrConcurrencyLimitRejects_TotalSum := runTotal (·.rejects)
def RSH.m_ErrFailures_TotalSum := runTotal (·.failures)
def RSH.m_ErrShortCircuits_TotalSum := runTotal (·.shortCircuits)
def RSH.m_ErrTimeouts_TotalSum := runTotal (·.timeouts)
def RSH.m_ErrBadRequests_TotalSum := runTotal (·.badRequests)
def RSH.m_ErrInterrupts_TotalSum := runTotal (·.interrupts)
/-- `ErrorsAt`, `LegitimateAttemptsAt`, `ErrorPercentageAt`: their own bodies are translated and tied in unit GoRunStats
    (`go_ErrorsAt_eq`, `go_LegitimateAttemptsAt_eq`); here they are those specifications -/
def RSH.m_ErrorsAt (h : RSH) (now : Int) : EM Int := do
  return (← h.m_ErrFailures_RollingSumAt now) + (← h.m_ErrTimeouts_RollingSumAt now)
def RSH.m_LegitimateAttemptsAt (h : RSH) (now : Int) : EM Int := do
  return (← h.m_Successes_RollingSumAt now) + (← h.m_ErrorsAt now)
def RSH.m_ErrorPercentageAt (h : RSH) (now : Int) : EM GoF64 := do
  let attempts ← h.m_LegitimateAttemptsAt now
  if attempts == 0 then return ⟨0⟩
  let errs ← h.m_ErrorsAt now
  return ⟨F64.div (F64.ofInt errs) (F64.ofInt attempts)⟩

structure RSCfg where
  f_RollingStatsDuration : Int
def RSH.m_Config (h : RSH) : EM RSCfg := match h with
  | .attached => rd fun w => ⟨w.statsDur⟩
  | _ => pure ⟨0⟩

/-- the latency snapshot -/
structure Snap where
  l : List Int
def RSH.m_Latencies_SnapshotAt (h : RSH) (now : Int) : EM Snap :=
  match h with
  | .attached => updRet fun w => ({ w with all := { w.all with run := { w.all.run with latencies := (w.all.run.latencies.snapshot now).1 } } },
                                   ⟨(w.all.run.latencies.snapshot now).2⟩)
  | _ => pure ⟨[]⟩
/-- a percentile argument (a float64 constant in the source) -/
structure GoP where
  q : Rat
instance : OfNat GoP n := ⟨⟨(n : Rat)⟩⟩
instance : OfScientific GoP := ⟨fun m s e => ⟨if s then (m : Rat) / ((10 ^ e : Nat) : Rat) else (m : Rat) * ((10 ^ e : Nat) : Rat)⟩⟩
def Snap.m_Mean (s : Snap) : EM Int := pure (SD.mean s.l)
def Snap.m_Percentile (s : Snap) (p : GoP) : EM Int := pure ((SD.percentile s.l (.fin p.q)).getD (-1))

def fbSum (get : FbStats → RC) (put : FbStats → RC → FbStats) (h : FSH) (now : Int) : EM Int :=
  match h with
  | .attached => updRet fun w => ({ w with all := { w.all with fb := put w.all.fb ((get w.all.fb).sumAt now).1 } }, ((get w.all.fb).sumAt now).2)
  | _ => pure 0
def fbTotal (get : FbStats → RC) (h : FSH) : EM Int :=
  match h with
  | .attached => rd fun w => (get w.all.fb).total
  | _ => pure 0
def FSH.m_Successes_RollingSumAt := fbSum (·.successes) (fun r c => { r with successes := c })
def FSH.m_ErrFailures_RollingSumAt := fbSum (·.failures) (fun r c => { r with failures := c })
def FSH.m_ErrConcurrencyLimitRejects_RollingSumAt := fbSum (·.rejects) (fun r c => { r with rejects := c })
def FSH.m_Successes_TotalSum := fbTotal (·.successes)
def FSH.m_ErrFailures_TotalSum := fbTotal (·.failures)
def FSH.m_ErrConcurrencyLimitRejects_TotalSum := fbTotal (·.rejects)

def CfgV.m_Execution_Timeout_Nanoseconds (c : CfgV) : EM Int := pure c.f_Execution_Timeout

/-! ### statement side of the tie -/
/-- the count fields of a record, in the vocabulary of `Cons.StreamCounts` (which the C20 theorems speak about) -/
def countsOf (m : streamCmdMetric) : StreamCounts :=
  { requestCount := m.RequestCount, errorCount := m.ErrorCount,
    rollS := m.RollingCountSuccess, rollRej := m.RollingCountSemaphoreRejected, rollF := m.RollingCountFailure,
    rollSC := m.RollingCountShortCircuited, rollT := m.RollingCountTimeout, rollBad := m.RollingCountBadRequests,
    cntS := m.TotalCountSuccess, cntRej := m.TotalCountSemaphoreRejected, cntF := m.TotalCountFailure,
    cntSC := m.TotalCountShortCircuited, cntT := m.TotalCountTimeout, cntBad := m.TotalCountBadRequests,
    fbRollS := m.RollingCountFallbackSuccess, fbRollRej := m.RollingCountFallbackRejection, fbRollF := m.RollingCountFallbackFailure,
    fbCntS := m.TotalCountFallbackSuccess, fbCntRej := m.TotalCountFallbackRejection, fbCntF := m.TotalCountFallbackFailure,
    isOpen := m.CircuitBreakerOpen }

/-- the instant every rolling number of the record is read at: the configured clock when the stored config has one -/
def StreamW.now (w : StreamW) : Int := match w.cfg.f_General.f_TimeKeeper.f_Now with | some _ => w.clock | none => w.wall

end CM.GoStream

/-
  GoConsumerPrims.lean — what the selector paths MEAN for the translated consumers of the circuit's callbacks
  (one namespace per translated receiver type):
    GoHOpener   closers/hystrix/opener.go        *Opener               state `HOpener`  (Logic.lean)
    GoHCloser   closers/hystrix/closer.go        *Closer               state `HCloser`
    GoConsec    closers/simplelogic/closers.go   *ConsecutiveErrOpener state `ConsecOpener`
    GoRunStats  metrics/rolling/rolling.go       *RunStats             state `Cons.RunStats` (Consumers.lean)
    GoFbStats   metrics/rolling/rolling.go       *FallbackStats        state `Cons.FbStats`
    GoSlo       metrics/responsetimeslo          *Tracker              state `Cons.Slo` + what each attached collector was told
  A field that is a RollingCounter / RollingPercentile / TimedCheck / atomic word is the corresponding model object;
  its methods are the model's operations (those objects have their own models, ties and theorems: C13–C16).
  Hand-written and trusted like GoCircuitPrims.lean; the method BODIES that combine these primitives are regenerated
  from the source (Generated/Go*/F_*.lean) and proved equal to the model's functions in CircuitProofs/GoTie/Consumers.lean.
-/
import CircuitModel.Logic
import CircuitModel.Consumers
import CircuitModel.GoSem
namespace CM
open CM.Go

/-- the consumers defer nothing -/
inductive NoTok where
  deriving Repr

def noTok : NoTok → M σ NoTok Unit := fun t => nomatch t

/-- read something off the state / replace the state / both -/
def rd (f : σ → α) : M σ tok α := fun g => (.ok (f g.st), g)
def upd (f : σ → σ) : M σ tok Unit := fun g => (.ok (), { g with st := f g.st })
def updRet (f : σ → σ × α) : M σ tok α := fun g => (.ok (f g.st).2, { g with st := (f g.st).1 })

namespace GoHOpener
abbrev OM := M HOpener NoTok
def fn (body : OM α) : OM α := goFunc noTok body
def recv_errorsCount_Inc (t : Int) : OM Unit := upd fun o => { o with errors := o.errors.inc t }
def recv_legitimateAttemptsCount_Inc (t : Int) : OM Unit := upd fun o => { o with attempts := o.attempts.inc t }
def recv_errorsCount_Reset (t : Int) : OM Unit := upd fun o => { o with errors := o.errors.reset t }
def recv_legitimateAttemptsCount_Reset (t : Int) : OM Unit := upd fun o => { o with attempts := o.attempts.reset t }
def recv_errorsCount_RollingSumAt (t : Int) : OM Int := updRet fun o => ({ o with errors := (o.errors.sumAt t).1 }, (o.errors.sumAt t).2)
def recv_legitimateAttemptsCount_RollingSumAt (t : Int) : OM Int := updRet fun o => ({ o with attempts := (o.attempts.sumAt t).1 }, (o.attempts.sumAt t).2)
def recv_requestVolumeThreshold_Get : OM Int := rd (·.vol)
def recv_errorPercentage_Get : OM Int := rd (·.pct)
end GoHOpener

namespace GoHCloser
abbrev CLM := M HCloser NoTok
def fn (body : CLM α) : CLM α := goFunc noTok body
def recv_concurrentSuccessfulAttempts_Set (n : Int) : CLM Unit := upd fun c => { c with succ := n }
def recv_concurrentSuccessfulAttempts_Add (n : Int) : CLM Int := updRet fun c => ({ c with succ := c.succ + n }, c.succ + n)
def recv_concurrentSuccessfulAttempts_Get : CLM Int := rd (·.succ)
def recv_closeOnCurrentCount_Get : CLM Int := rd (·.required)
def recv_reopenCircuitCheck_SleepStart (t : Int) : CLM Unit := upd fun c => { c with tc := c.tc.resetOpen t }
def recv_reopenCircuitCheck_Check (t : Int) : CLM Bool := updRet fun c => ({ c with tc := (c.tc.check t).1 }, (c.tc.check t).2)
end GoHCloser

namespace GoConsec
abbrev KM := M ConsecOpener NoTok
def fn (body : KM α) : KM α := goFunc noTok body
structure ConfigConsecutiveErrOpener where
  f_ErrorThreshold : Int
def recv_consecutiveCount_Set (n : Int) : KM Unit := upd fun o => { o with count := n }
def recv_consecutiveCount_Add (n : Int) : KM Int := updRet fun o => ({ o with count := o.count + n }, o.count + n)
def recv_consecutiveCount_Get : KM Int := rd (·.count)
def recv_closeThreshold_Get : KM Int := rd (·.threshold)
def recv_closeThreshold_Set (n : Int) : KM Unit := upd fun o => { o with threshold := n }
end GoConsec

namespace GoRunStats
open CM.Cons
abbrev RM := M RunStats NoTok
def fn (body : RM α) : RM α := goFunc noTok body
def recv_Successes_Inc (t : Int) : RM Unit := upd fun r => { r with successes := r.successes.inc t }
def recv_ErrConcurrencyLimitRejects_Inc (t : Int) : RM Unit := upd fun r => { r with rejects := r.rejects.inc t }
def recv_ErrFailures_Inc (t : Int) : RM Unit := upd fun r => { r with failures := r.failures.inc t }
def recv_ErrShortCircuits_Inc (t : Int) : RM Unit := upd fun r => { r with shortCircuits := r.shortCircuits.inc t }
def recv_ErrTimeouts_Inc (t : Int) : RM Unit := upd fun r => { r with timeouts := r.timeouts.inc t }
def recv_ErrBadRequests_Inc (t : Int) : RM Unit := upd fun r => { r with badRequests := r.badRequests.inc t }
def recv_ErrInterrupts_Inc (t : Int) : RM Unit := upd fun r => { r with interrupts := r.interrupts.inc t }
def recv_Latencies_AddDuration (d t : Int) : RM Unit := upd fun r => { r with latencies := r.latencies.add d t }
def recv_Successes_RollingSumAt (t : Int) : RM Int := updRet fun r => ({ r with successes := (r.successes.sumAt t).1 }, (r.successes.sumAt t).2)
def recv_ErrFailures_RollingSumAt (t : Int) : RM Int := updRet fun r => ({ r with failures := (r.failures.sumAt t).1 }, (r.failures.sumAt t).2)
def recv_ErrTimeouts_RollingSumAt (t : Int) : RM Int := updRet fun r => ({ r with timeouts := (r.timeouts.sumAt t).1 }, (r.timeouts.sumAt t).2)
end GoRunStats

namespace GoFbStats
open CM.Cons
abbrev FM := M FbStats NoTok
def fn (body : FM α) : FM α := goFunc noTok body
def recv_Successes_Inc (t : Int) : FM Unit := upd fun r => { r with successes := r.successes.inc t }
def recv_ErrConcurrencyLimitRejects_Inc (t : Int) : FM Unit := upd fun r => { r with rejects := r.rejects.inc t }
def recv_ErrFailures_Inc (t : Int) : FM Unit := upd fun r => { r with failures := r.failures.inc t }
end GoFbStats

namespace GoSlo
open CM.Cons
/-- the tracker and its attached collectors: collector `i` has been told `told[i]` = (passes, fails) -/
structure SloW where
  slo : Slo
  collectors : List Nat             -- identities, in the order they are attached
  told : List (Nat × Bool) := []    -- (collector, passed?) in the order the callbacks were made
abbrev SM := M SloW NoTok
def fn (body : SM α) : SM α := goFunc noTok body
structure Collector where
  id : Nat
def recv_FailsSLOCount_Add (n : Int) : SM Int := updRet fun w => ({ w with slo := { w.slo with fail := w.slo.fail + n } }, w.slo.fail + n)
def recv_MeetsSLOCount_Add (n : Int) : SM Int := updRet fun w => ({ w with slo := { w.slo with pass := w.slo.pass + n } }, w.slo.pass + n)
def recv_MaximumHealthyTime_Get : SM Int := rd (·.slo.maxHealthy)
def recv_Collectors : SM (List Collector) := rd fun w => w.collectors.map Collector.mk
def Collector.m_Failed (c : Collector) : SM Unit := upd fun w => { w with told := w.told ++ [(c.id, false)] }
def Collector.m_Passed (c : Collector) : SM Unit := upd fun w => { w with told := w.told ++ [(c.id, true)] }
end GoSlo

end CM

/-! ### what the SLO tracker's methods have to compute (statement side of the tie) -/
namespace CM.GoSlo
open CM.Cons
/-- one verdict: the counter moves and every attached collector is told, in attachment order -/
def SloW.tell (w : SloW) (passed : Bool) : SloW :=
  { w with slo := if passed then { w.slo with pass := w.slo.pass + 1 } else { w.slo with fail := w.slo.fail + 1 },
           told := w.told ++ w.collectors.map fun c => (c, passed) }
def SloW.onRun (w : SloW) (k : Kind) (d : Int) : SloW :=
  match k with
  | .success => w.tell (decide (d ≤ w.slo.maxHealthy))
  | .failure | .timeout | .reject | .shortCircuit => w.tell false
  | .interrupt => if d > w.slo.maxHealthy then w.tell false else w
  | .badRequest => w
end CM.GoSlo

/-
  GoLiveLogicPrims.lean — primitives for five small units:
    GoNever        closers.go: the default `neverOpens` / `neverCloses` logic (no state at all)
    GoHOpenerCfg   hystrix.Opener.SetConfigThreadSafe / Config   (state: the `HOpener` + the stored config)
    GoHCloserCfg   hystrix.Closer.SetConfigThreadSafe / SetConfigNotThreadSafe / Config  (state: the `HCloser` + stored config + timer hook)
    GoSloCfg       responsetimeslo.Tracker.SetConfigThreadSafe / Config  (state: the `Slo` + stored config)
  A live reconfiguration stores the config under the object's mutex (a no-op here) and pushes each setting into its atomic
  word; for the closer the gate's own setters are the targets (their bodies are tied in unit GoTimedCheck).
  Hand-written, trusted; the bodies are regenerated.
-/
import CircuitModel.Logic
import CircuitModel.Consumers
import CircuitModel.GoConsumerPrims
namespace CM
open CM.Go

/-- a mutex-owning object whose only deferred call is the unlock -/
def unlockTok (σ : Type) : String → M σ String Unit
  | "recv_mu_Unlock" => pure ()
  | _ => Go.nilCall       -- never registered by the translated bodies; a panic here would show in every statement

namespace GoNever
abbrev NM := M Unit NoTok
def fn (body : NM α) : NM α := goFunc noTok body
end GoNever

namespace GoHOpenerCfg
structure ConfigureOpener where
  tag : Nat
  f_ErrorThresholdPercentage : Int
  f_RequestVolumeThreshold : Int
structure W where
  o : HOpener
  config : Option ConfigureOpener := none
abbrev OCM := M W String
def fn (body : OCM α) : OCM α := goFunc (unlockTok W) body
def deferPrim (c : String) : OCM Unit := Go.pushDefer c
def recv_mu_Lock : OCM Unit := pure ()
def recv_config_set (c : ConfigureOpener) : OCM Unit := upd fun w => { w with config := some c }
def recv_config : OCM ConfigureOpener := fun g => match g.st.config with | some c => (.ok c, g) | none => (.nilCall, g)
def recv_errorPercentage_Set (n : Int) : OCM Unit := upd fun w => { w with o := { w.o with pct := n } }
def recv_requestVolumeThreshold_Set (n : Int) : OCM Unit := upd fun w => { w with o := { w.o with vol := n } }
end GoHOpenerCfg

namespace GoHCloserCfg
structure ConfigureCloser where
  tag : Nat
  f_AfterFunc : Nat                 -- identity of the timer hook
  f_SleepWindow : Int
  f_HalfOpenAttempts : Int
  f_RequiredConcurrentSuccessful : Int
structure W where
  c : HCloser
  afterFunc : Nat := 0
  config : Option ConfigureCloser := none
abbrev CCM := M W String
def fn (body : CCM α) : CCM α := goFunc (unlockTok W) body
def deferPrim (c : String) : CCM Unit := Go.pushDefer c
def recv_mu_Lock : CCM Unit := pure ()
def recv_config_set (c : ConfigureCloser) : CCM Unit := upd fun w => { w with config := some c }
def recv_config : CCM ConfigureCloser := fun g => match g.st.config with | some c => (.ok c, g) | none => (.nilCall, g)
def recv_reopenCircuitCheck_SetTimeAfterFunc (h : Nat) : CCM Unit := upd fun w => { w with afterFunc := h }
def recv_reopenCircuitCheck_SetSleepDuration (d : Int) : CCM Unit := upd fun w => { w with c := { w.c with tc := { w.c.tc with sleep := d } } }
def recv_reopenCircuitCheck_SetEventCountToAllow (k : Int) : CCM Unit := upd fun w => { w with c := { w.c with tc := { w.c.tc with allow := k } } }
def recv_closeOnCurrentCount_Set (n : Int) : CCM Unit := upd fun w => { w with c := { w.c with required := n } }
/-- statement side: what a (re)configuration of the closer leaves behind -/
def W.configured (w : W) (cfg : ConfigureCloser) : W :=
  { c := { w.c with tc := { w.c.tc with sleep := cfg.f_SleepWindow, allow := cfg.f_HalfOpenAttempts }, required := cfg.f_RequiredConcurrentSuccessful },
    afterFunc := cfg.f_AfterFunc, config := some cfg }
end GoHCloserCfg

namespace GoSloCfg
open CM.Cons
structure SloConfig where
  tag : Nat
  f_MaximumHealthyTime : Int
def SloConfig.m_MaximumHealthyTime_Nanoseconds (c : SloConfig) : M σ tok Int := pure c.f_MaximumHealthyTime
structure W where
  slo : Slo
  config : Option SloConfig := none
abbrev SCM := M W String
def fn (body : SCM α) : SCM α := goFunc (unlockTok W) body
def deferPrim (c : String) : SCM Unit := Go.pushDefer c
def recv_mu_Lock : SCM Unit := pure ()
def recv_config_set (c : SloConfig) : SCM Unit := upd fun w => { w with config := some c }
def recv_config : SCM SloConfig := fun g => match g.st.config with | some c => (.ok c, g) | none => (.nilCall, g)
def recv_MaximumHealthyTime_Set (n : Int) : SCM Unit := upd fun w => { w with slo := { w.slo with maxHealthy := n } }
end GoSloCfg

end CM

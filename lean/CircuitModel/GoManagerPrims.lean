/-
  GoManagerPrims.lean — what the names in `Manager.CreateCircuit` / `GetCircuit` / `MustCreateCircuit` (manager.go) MEAN
  in terms of the model `Mgr.State` (Manager.lean): the circuit map, the default constructors (a constructor may be
  the stat factory, whose call re-binds the name: that side effect happens when the constructor is CALLED), `Config.Merge`
  (tied to the Go source by C19's regenerated merge programs), `NewCircuitFromConfig` (merges the library defaults and
  makes a circuit with the next identity).  The RWMutex is a no-op here (sequential; every schedule: `Conc/Mgr`, C17).
  A `Config` is the settings layer plus the first stats collector the constructors produced for it.
  Hand-written, trusted; the bodies are regenerated (Generated/GoManager/F_*.lean).
-/
import CircuitModel.Manager
import CircuitModel.GoConsumerPrims
namespace CM.GoManager
open CM CM.Go CM.Mgr

abbrev Lay := Layer × Option Nat
abbrev CircP := Option Circuit
abbrev MErr := Option String

structure MW where
  s : State
  stuck : Bool := false

abbrev GMM := M MW String
def runTok : String → GMM Unit
  | "recv_mu_Unlock" => pure ()
  | "recv_mu_RUnlock" => pure ()
  | _ => fun g => (.ok (), { g with st := { g.st with stuck := true } })
def deferPrim (call : String) : GMM Unit := Go.pushDefer call
def fn (body : GMM α) : GMM α := goFunc runTok body

def recv_mu_Lock : GMM Unit := pure ()
def recv_mu_Unlock : GMM Unit := pure ()
def recv_mu_RLock : GMM Unit := pure ()
def recv_mu_RUnlock : GMM Unit := pure ()

structure Recv where
instance : IsNil Recv := ⟨fun _ => false⟩
def recv : Recv := {}

/-- the map itself: the model does not distinguish a nil map from an empty one (a nil map is made on first use) -/
structure MapH where
  isNilMap : Bool
instance : IsNil MapH := ⟨(·.isNilMap)⟩
def recv_circuitMap : GMM MapH := rd fun w => ⟨w.s.circuits.isEmpty⟩
def goMakeMap : MapH := ⟨false⟩
def recv_circuitMap_set (_ : MapH) : GMM Unit := pure ()
def recv_circuitMap_lookup (name : String) : GMM (CircP × Bool) := rd fun w => (w.s.get name, (w.s.get name).isSome)
def recv_circuitMap_at (name : String) : GMM CircP := rd fun w => w.s.get name
def recv_circuitMap_store (name : String) (c : CircP) : GMM Unit :=
  match c with
  | some c => upd fun w => { w with s := { w.s with circuits := w.s.circuits ++ [(name, c)] } }
  | none => pure ()

def errors_New (msg : String) : GMM MErr := pure (some msg)
def lit_Config : Lay := ({}, none)
def _root_.Prod.m_Merge (a b : Lay) : GMM Lay := pure (merge a.1 b.1, a.2.orElse fun _ => b.2)

def goLen (l : List α) : Int := l.length
def goCountdown (n : Int) : List Int := ((List.range n.toNat).map Int.ofNat).reverse
def recv_DefaultCircuitProperties : GMM (List Ctor) := rd (·.s.ctors)
/-- calling the i-th default constructor for `name` -/
def recv_DefaultCircuitProperties_call (i : Int) (name : String) : GMM Lay := fun g =>
  match g.st.s.ctors[i.toNat]? with
  | none => (.nilCall, g)
  | some (.layer l) => (.ok (l, none), g)
  | some .statFactory =>
    let sid := g.st.s.nextStat
    (.ok ({}, some sid), { g with st := { g.st with s := { g.st.s with statBinding := (name, sid) :: g.st.s.statBinding, nextStat := sid + 1 } } })
/-- `NewCircuitFromConfig(name, cfg)`: library defaults merged last, next identity -/
def pkg_NewCircuitFromConfig (_name : String) (cfg : Lay) : GMM CircP := fun g =>
  (.ok (some { id := g.st.s.nextId, cfg := merge cfg.1 libDefaults, stats := cfg.2 }),
   { g with st := { g.st with s := { g.st.s with nextId := g.st.s.nextId + 1 } } })
def goPanic (_ : MErr) : GMM Unit := Go.raise 0

end CM.GoManager

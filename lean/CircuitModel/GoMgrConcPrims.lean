/-
  GoMgrConcPrims.lean — INTERFERENCE primitives for manager.go (K6; C17): `Manager.CreateCircuit`, `GetCircuit` (unit GoMgrI)
  and `AllCircuits` (unit GoMgrIAll) are translated once more over these.  The state is the SHARED state of the small-step
  model `Conc/Mgr` (the registry `st`, who holds the RWMutex) plus an oracle.  The four operations on `Manager.mu` are
  STEPS: the other goroutines move first, then the operation happens — if the lock is available; otherwise this
  goroutine WAITS: the run ends there (`.nilCall`, `blocked`), and nothing deferred runs.  Everything else — the map, the
  default constructors, `Config.Merge`, `NewCircuitFromConfig` — is a plain access made while the lock is held: no step,
  and the SAME meaning as in the sequential primitives (GoManagerPrims), whose definitions are lifted, not repeated
  (`liftG`: run a `GMM` action on the `st` component).  The model's ghost `log` is not touched.
-/
import CircuitModel.Conc.MgrSolo
import CircuitModel.GoManagerPrims
namespace CM.GoMgrI
open CM CM.Go CM.Conc CM.Conc.Mgr

structure MS where
  sh : Shared
  tid : Nat
  envs : List (Shared → Shared)     -- the oracle
  trace : List Lab := []
  blocked : Bool := false           -- a lock operation found the lock taken
  stuck : Bool := false             -- something without a meaning here was run

abbrev MM := M MS String

/-! ### the sequential primitives, lifted -/

/-- the part of the state a sequential action sees: the registry (and the `stuck` flag) -/
def proj (g : GS MS String) : GS GoManager.MW String := ⟨⟨g.st.sh.st, g.st.stuck⟩, g.defers⟩
def put (g : GS MS String) (x : GS GoManager.MW String) : GS MS String :=
  ⟨{ g.st with sh := { g.st.sh with st := x.st.s }, stuck := x.st.stuck }, x.defers⟩
/-- a sequential action, run on the registry: no step (the oracle does not move, nothing is recorded) -/
def liftG (m : GoManager.GMM α) : MM α := fun g =>
  let r := m (proj g)
  (r.1, put g r.2)

export CM.GoManager (CircP MErr MapH goMakeMap goLen goCountdown Recv recv)
/-- `Config` as the manager sees it; its own name so that `x.Merge(y)` means the lifted action here -/
abbrev LayI := GoManager.Lay

def recv_circuitMap : MM MapH := liftG GoManager.recv_circuitMap
def recv_circuitMap_set (m : MapH) : MM Unit := liftG (GoManager.recv_circuitMap_set m)
def recv_circuitMap_lookup (name : String) : MM (CircP × Bool) := liftG (GoManager.recv_circuitMap_lookup name)
def recv_circuitMap_at (name : String) : MM CircP := liftG (GoManager.recv_circuitMap_at name)
def recv_circuitMap_store (name : String) (c : CircP) : MM Unit := liftG (GoManager.recv_circuitMap_store name c)
def errors_New (msg : String) : MM MErr := liftG (GoManager.errors_New msg)
def lit_Config : LayI := GoManager.lit_Config
def LayI.m_Merge (a b : LayI) : MM LayI := liftG (Prod.m_Merge a b)
def recv_DefaultCircuitProperties : MM (List Mgr.Ctor) := liftG GoManager.recv_DefaultCircuitProperties
def recv_DefaultCircuitProperties_call (i : Int) (name : String) : MM LayI := liftG (GoManager.recv_DefaultCircuitProperties_call i name)
def pkg_NewCircuitFromConfig (name : String) (cfg : LayI) : MM CircP := liftG (GoManager.pkg_NewCircuitFromConfig name cfg)

/-! ### the RWMutex: four steps -/

/-- a lock operation: the others move, then it happens iff `ok`; otherwise the goroutine waits (the run ends here, the
    oracle's move applied) -/
def lockOp (ok : Shared → Bool) (f : Nat → Shared → Shared) (lab : Lab) : MM Unit := fun g =>
  let p := popEnv g.st.envs g.st.sh
  if ok p.1 then
    (.ok (), { g with st := { g.st with sh := f g.st.tid p.1, envs := p.2, trace := g.st.trace ++ [lab] } })
  else (.nilCall, { g with st := { g.st with sh := p.1, envs := p.2, blocked := true } })

def recv_mu_Lock : MM Unit :=
  lockOp (fun s => s.writer.isNone && s.readers.isEmpty) (fun tid s => { s with writer := some tid }) .lock
def recv_mu_Unlock : MM Unit := lockOp (fun _ => true) (fun _ s => { s with writer := none }) .unlock
def recv_mu_RLock : MM Unit := lockOp (fun s => s.writer.isNone) (fun tid s => { s with readers := tid :: s.readers }) .rlock
def recv_mu_RUnlock : MM Unit := lockOp (fun _ => true) (fun tid s => { s with readers := s.readers.erase tid }) .runlock

/-! ### deferred calls -/
def runTokLive : String → MM Unit
  | "recv_mu_Unlock" => recv_mu_Unlock
  | "recv_mu_RUnlock" => recv_mu_RUnlock
  | _ => fun g => (.ok (), { g with st := { g.st with stuck := true } })
/-- a goroutine that WAITS for the lock has not left its function: nothing deferred runs (the `.nilCall` outcome only
    ends the symbolic run there) -/
def runTok (t : String) : MM Unit := fun g => if g.st.blocked then (.ok (), g) else runTokLive t g
def deferPrim (call : String) : MM Unit := Go.pushDefer call
def fn (body : MM α) : MM α := goFunc runTok body

end CM.GoMgrI

/-! `AllCircuits` ranges over the map: there `h.circuitMap` is its values (in the order the model keeps them; Go's
    iteration order is unspecified — the model's answer is the SORTED list of identities, and the tie compares sorted) -/
namespace CM.GoMgrIAll
open CM CM.Go CM.Conc CM.Conc.Mgr
export CM.GoMgrI (MM CircP Recv recv recv_mu_RLock recv_mu_RUnlock deferPrim fn)

/-- a nil slice -/
scoped instance : GoNil (List CircP) := ⟨[]⟩
def recv_circuitMap : MM (List CircP) := GoMgrI.liftG (rd fun w => w.s.circuits.map fun p => some p.2)

end CM.GoMgrIAll

/-
  GoCallConcPrims.lean — INTERFERENCE primitives for the transition and admission code of circuit.go (K6; C09, C01):
  `IsOpen`, `openCircuit`, `close`, `attemptToOpen`, `allowNewRun`, `checkSuccess`, `checkErrFailure` are translated once
  more (Generated/GoCallI) over these.  The state is the SHARED state of the small-step model `Conc/Call` (which embeds
  `Conc/Trans`) plus an oracle: every atomic load / store of the three flags, every operation on `transitionMu` and
  every delivery of Opened / Closed to the collectors first lets the other goroutines move, then does what it does and
  records a label.  What the pluggable logic answers (Allow, ShouldOpen, ShouldClose) is the thread's script; the run
  collectors (`CmdMetricCollector.*`) are outside this model (no step).
-/
import CircuitModel.Conc.CallSolo
import CircuitModel.GoSem
namespace CM.GoCallI
open CM CM.Go CM.Conc CM.Conc.Call

structure CS where
  sh : Shared
  tid : Nat
  sc : Script
  envs : List (Shared → Shared)
  trace : List Lab := []
  blocked : Bool := false
  stuck : Bool := false

abbrev KM := M CS String

def atomicOp (f : Shared → Shared × α × Lab) : KM α := fun g =>
  let p := popEnv g.st.envs g.st.sh
  let r := f p.1
  (.ok r.2.1, { g with st := { g.st with sh := r.1, envs := p.2, trace := g.st.trace ++ [r.2.2] } })

def lockOp (ok : Shared → Bool) (f : Nat → Shared → Shared) (lab : Lab) : KM Unit := fun g =>
  let p := popEnv g.st.envs g.st.sh
  if ok p.1 then
    (.ok (), { g with st := { g.st with sh := f g.st.tid p.1, envs := p.2, trace := g.st.trace ++ [lab] } })
  else (.nilCall, { g with st := { g.st with sh := p.1, envs := p.2, blocked := true } })

/-- a constructed circuit is not nil -/
def recv : Option Unit := some ()

def recv_transitionMu_Lock : KM Unit := lockOp (fun s => s.t.holder.isNone) (fun tid s => { s with t := { s.t with holder := some tid } }) .lock
def recv_transitionMu_Unlock : KM Unit := lockOp (fun _ => true) (fun _ s => { s with t := { s.t with holder := none } }) .unlock
def runTok : String → KM Unit
  | "recv_transitionMu_Unlock" => recv_transitionMu_Unlock
  | _ => fun g => (.ok (), { g with st := { g.st with stuck := true } })
def deferPrim (call : String) : KM Unit := Go.pushDefer call
def fn (body : KM α) : KM α := goFunc runTok body

def recv_threadSafeConfig_CircuitBreaker_ForceOpen_Get : KM Bool := atomicOp fun s => (s, s.t.forceOpen, .loadFO s.t.forceOpen)
def recv_threadSafeConfig_CircuitBreaker_ForcedClosed_Get : KM Bool := atomicOp fun s => (s, s.t.forcedClosed, .loadFC s.t.forcedClosed)
def recv_isOpen_Get : KM Bool := atomicOp fun s => (s, s.t.isOpen, .loadFlag s.t.isOpen)
def recv_isOpen_Set (b : Bool) : KM Unit := atomicOp fun s => ({ s with t := { s.t with isOpen := b } }, (), .storeFlag b)
def recv_CircuitMetricsCollector_Opened (_ctx : Unit) (_now : Int) : KM Unit :=
  atomicOp fun s => ({ s with t := { s.t with log := s.t.log ++ [true] } }, (), .deliver true)
def recv_CircuitMetricsCollector_Closed (_ctx : Unit) (_now : Int) : KM Unit :=
  atomicOp fun s => ({ s with t := { s.t with log := s.t.log ++ [false] } }, (), .deliver false)
def recv_OpenToClose_Allow (_ctx : Unit) (_now : Int) : KM Bool := fun g => (.ok g.st.sc.allow, g)
def recv_OpenToClose_ShouldClose (_ctx : Unit) (_now : Int) : KM Bool := fun g => (.ok g.st.sc.shouldClose, g)
def recv_ClosedToOpen_ShouldOpen (_ctx : Unit) (_now : Int) : KM Bool := fun g => (.ok g.st.sc.shouldOpen, g)
def recv_CmdMetricCollector_Success (_ctx : Unit) (_t _d : Int) : KM Unit := pure ()
def recv_CmdMetricCollector_ErrFailure (_ctx : Unit) (_t _d : Int) : KM Unit := pure ()

end CM.GoCallI

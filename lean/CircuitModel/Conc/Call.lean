/-
  Conc/Call.lean — small-step model of whole calls racing the open ⇄ closed transitions (circuit.go: `run`,
  `allowNewRun`, `IsOpen`, `checkSuccess`, `checkErrFailure`, `attemptToOpen`, and — embedded from Conc/Trans —
  `openCircuit` / `close` under `transitionMu`).  One model step per atomic load of a flag, per lock operation, per
  notification delivery and per store; the answers of the user's code and of the pluggable logic (does the run
  function fail? Allow? Prevent? ShouldOpen? ShouldClose?) are arbitrary Booleans carried by the calling thread.
  Any number of threads, each one call, one OpenCircuit or one CloseCircuit.  The override flags are static.
  Not modelled here (they touch other variables): the concurrency gauges (Conc/Gauge), timeouts, fallbacks.
-/
import CircuitModel.Conc.Trans
namespace CM.Conc.Call
open CM.Conc

inductive Outcome where
  | ran        -- the run function was invoked
  | shed       -- the call was refused with the circuit-open error (short-circuit, or the opener's veto)
  deriving Repr, DecidableEq

/-- what user code and logic answer for this call, if asked -/
structure Script where
  allow : Bool := false
  prevent : Bool := false
  fails : Bool := false
  shouldOpen : Bool := false
  shouldClose : Bool := false
  deriving Repr, DecidableEq

inductive Job where
  | call (sc : Script)
  | open               -- OpenCircuit
  | close              -- CloseCircuit
  deriving Repr, DecidableEq

inductive Pc where
  | aFO | aFC | aFlag            -- allowNewRun → IsOpen(): load ForceOpen, ForcedClosed, isOpen
  | gFO                          -- allowNewRun: the ForceOpen guard (reached only when IsOpen said open)
  | askAllow                     -- closer.Allow (no scheduling point of its own)
  | askPrevent                   -- opener.Prevent
  | invoke                       -- the run function is invoked
  | shedNow                      -- the refusal is returned
  | pFO | pFC | pFlag            -- IsOpen() in checkSuccess / checkErrFailure, after the run function returned
  | oFC                          -- attemptToOpen: load ForcedClosed
  | oFO | oFC2 | oFlag           -- attemptToOpen: IsOpen()
  | askShouldOpen
  | trans (l : Trans.Local)      -- inside openCircuit / close (Conc/Trans)
  | done
  deriving Repr, DecidableEq

structure Local where
  job : Job
  pc : Pc
  sawOpen : Option Bool := none   -- ghost: what IsOpen() answered at admission
  deriving Repr, DecidableEq

structure Shared where
  t : Trans.Shared
  events : List (Nat × Outcome) := []
  deriving Repr, DecidableEq

def startPc : Job → Pc
  | .call _ => .aFO
  | .open => .trans { job := .open }
  | .close => .trans { job := .close true false }

def step (tid : Nat) (s : Shared) (l : Local) : Option (Shared × Local) :=
  let sc : Script := match l.job with | .call sc => sc | _ => {}
  let goto (pc : Pc) : Option (Shared × Local) := some (s, { l with pc := pc })
  match l.pc with
  -- admission
  | .aFO => if s.t.forceOpen then some (s, { l with pc := .gFO, sawOpen := some true }) else goto .aFC
  | .aFC => if s.t.forcedClosed then some (s, { l with pc := .askPrevent, sawOpen := some false }) else goto .aFlag
  | .aFlag => if s.t.isOpen then some (s, { l with pc := .gFO, sawOpen := some true })
              else some (s, { l with pc := .askPrevent, sawOpen := some false })
  | .gFO => if s.t.forceOpen then goto .shedNow else goto .askAllow
  | .askAllow => if sc.allow then goto .askPrevent else goto .shedNow
  | .askPrevent => if sc.prevent then goto .shedNow else goto .invoke
  | .shedNow => some ({ s with events := s.events ++ [(tid, .shed)] }, { l with pc := .done })
  | .invoke => some ({ s with events := s.events ++ [(tid, .ran)] }, { l with pc := .pFO })
  -- after the run function returned: `if c.IsOpen()` (success) / `if !c.IsOpen()` (failure)
  | .pFO => if s.t.forceOpen then (if sc.fails then goto .done else goto (.trans { job := .close false sc.shouldClose })) else goto .pFC
  | .pFC => if s.t.forcedClosed then (if sc.fails then goto .oFC else goto .done) else goto .pFlag
  | .pFlag =>
    if s.t.isOpen then (if sc.fails then goto .done else goto (.trans { job := .close false sc.shouldClose }))
    else (if sc.fails then goto .oFC else goto .done)
  -- attemptToOpen
  | .oFC => if s.t.forcedClosed then goto .done else goto .oFO
  | .oFO => if s.t.forceOpen then goto .done else goto .oFC2
  | .oFC2 => if s.t.forcedClosed then goto .askShouldOpen else goto .oFlag
  | .oFlag => if s.t.isOpen then goto .done else goto .askShouldOpen
  | .askShouldOpen => if sc.shouldOpen then goto (.trans { job := .open }) else goto .done
  -- the transition itself
  | .trans tl =>
    (match tl.pc with
     | .done => goto .done
     | _ => (match Trans.step tid s.t tl with
        | some (t', tl') => some ({ s with t := t' }, { l with pc := if tl'.pc == .done then .done else .trans tl' })
        | none => none))
  | .done => none

def sys : Sys Shared Local := { step := step }

def init (forceOpen forcedClosed isOpen : Bool) (jobs : List Job) : Config Shared Local :=
  { shared := { t := { forceOpen := forceOpen, forcedClosed := forcedClosed, isOpen := isOpen } },
    locals := jobs.map fun j => { job := j, pc := startPc j } }

def allDone (c : Config Shared Local) : Bool := c.locals.all (·.pc == .done)

/-- the thread has not taken any step yet -/
def notStarted (l : Local) : Bool := l.pc == startPc l.job

def outcomeOf (c : Config Shared Local) (i : Nat) : Option Outcome := (c.shared.events.find? (·.1 == i)).map (·.2)

/-- no job of the list can ever close the circuit: no CloseCircuit, and no call whose closer would say ShouldClose -/
def neverCloses (jobs : List Job) : Bool :=
  jobs.all fun j => match j with | .close => false | .call sc => !sc.shouldClose | .open => true

/-- no call of the list is admitted by the closer while the circuit is open -/
def closerAdmitsNone (jobs : List Job) : Bool :=
  jobs.all fun j => match j with | .call sc => !sc.allow | _ => true

end CM.Conc.Call

/-
  Conc/GoWrap.lean — small-step model of goroutineWrapper.run / waitForErrors (gowrapper.go): the caller's select,
  the worker goroutine (runs the wrapped function, recovers a panic, sends into a capacity-1 channel), the optional
  waiter goroutine (started only when the context ended first and GoLostErrors is configured), and the environment
  (the context may end at any time; the wrapped function finishes whenever it pleases, or never).
  Channel semantics are MODELLED (trusted): a buffered channel of capacity 1 is an Option; `select` takes any ready
  branch.
-/
import CircuitModel.Conc.Core
namespace CM.Conc.GoWrap

/-- how the wrapped function ends -/
inductive Outcome where
  | ret (err : Option Nat)        -- returned nil / error object #n
  | panic (v : Nat)
  deriving Repr, DecidableEq

/-- what the caller of the wrapper gets -/
inductive CallerResult where
  | fn (o : Outcome)              -- the function's own result (returned, or re-panicked on the caller's goroutine)
  | ctxErr                        -- the context's error
  deriving Repr, DecidableEq

structure Scenario where
  outcome : Outcome               -- what the function does when it finishes
  fnMayFinish : Bool := true      -- false: it never returns during the run
  ctxMayEnd : Bool := true        -- may the context end (cancel or deadline)?
  ctxEndedAtStart : Bool := false -- was it already done when the call started?
  lostErrors : Bool := false      -- GoLostErrors configured
  deriving Repr, DecidableEq

structure State where
  sc : Scenario
  ctxDone : Bool
  fnFinished : Bool := false
  resCh : Option (Option Nat) := none     -- runFuncErr   (cap 1)
  panCh : Option Nat := none              -- panicResult  (cap 1)
  workerDone : Bool := false
  caller : Option CallerResult := none    -- some = the wrapper has returned / panicked
  waiterSpawned : Bool := false
  waiterDone : Bool := false
  lost : List Outcome := []               -- what GoLostErrors was told
  deriving Repr, DecidableEq

def init (sc : Scenario) : State := { sc := sc, ctxDone := sc.ctxEndedAtStart }

/-- the actors; a schedule is a list of these -/
inductive Actor where
  | envCtx            -- the context ends
  | envFn             -- the wrapped function finishes
  | worker            -- the worker delivers the function's outcome into its channel
  | callerCtx         -- the caller's select takes the ctx.Done() branch
  | callerRes         -- … the runFuncErr branch
  | callerPan         -- … the panicResult branch
  | waiterRes         -- the waiter's select takes runFuncErr
  | waiterPan         -- … panicResult
  deriving Repr, DecidableEq

/-- one step of an actor; `none` = not enabled -/
def step (s : State) : Actor → Option State
  | .envCtx => if s.sc.ctxMayEnd ∧ !s.ctxDone then some { s with ctxDone := true } else none
  | .envFn => if s.sc.fnMayFinish ∧ !s.fnFinished then some { s with fnFinished := true } else none
  | .worker =>
    if s.fnFinished ∧ !s.workerDone then
      match s.sc.outcome with
      | .ret e => some { s with resCh := some e, workerDone := true }          -- `runFuncErr <- runFunc(ctx)`
      | .panic v => some { s with panCh := some v, workerDone := true }        -- deferred recover: `panicResult <- r`
    else none
  | .callerCtx =>
    if s.caller.isNone ∧ s.ctxDone then
      some { s with caller := some .ctxErr, waiterSpawned := s.sc.lostErrors }  -- `go g.waitForErrors(...)` only if configured
    else none
  | .callerRes =>
    match s.caller, s.resCh with
    | none, some e => some { s with caller := some (.fn (.ret e)), resCh := none }
    | _, _ => none
  | .callerPan =>
    match s.caller, s.panCh with
    | none, some v => some { s with caller := some (.fn (.panic v)), panCh := none }
    | _, _ => none
  | .waiterRes =>
    if s.waiterSpawned ∧ !s.waiterDone then
      match s.resCh with
      | some e => some { s with resCh := none, waiterDone := true, lost := s.lost ++ [.ret e] }
      | none => none
    else none
  | .waiterPan =>
    if s.waiterSpawned ∧ !s.waiterDone then
      match s.panCh with
      | some v => some { s with panCh := none, waiterDone := true, lost := s.lost ++ [.panic v] }
      | none => none
    else none

/-- run a schedule; disabled steps are skipped -/
def run (s : State) : List Actor → State
  | [] => s
  | a :: rest => match step s a with | some s' => run s' rest | none => run s rest

def actors : List Actor := [.envCtx, .envFn, .worker, .callerCtx, .callerRes, .callerPan, .waiterRes, .waiterPan]

/-- nothing can move any more -/
def quiescent (s : State) : Bool := actors.all fun a => (step s a).isNone

/-- how often the function's outcome has been surfaced: as the wrapper's own result/panic, or through GoLostErrors -/
def surfaced (s : State) : Nat :=
  (match s.caller with | some (.fn _) => 1 | _ => 0) + s.lost.length

/-- all states reachable within `fuel` steps (exhaustive exploration of the tiny model; used by the K4 check to decide
    whether an observed real outcome is one the model allows) -/
def reachable : Nat → List State → List State
  | 0, frontier => frontier
  | fuel + 1, frontier =>
    let next := frontier.flatMap fun s => actors.filterMap (step s)
    let all := (frontier ++ next).eraseDups
    if all.length = frontier.length then frontier else reachable fuel all

/-- the (caller result, lost reports) pairs the model allows at quiescence -/
def allowedFinal (sc : Scenario) : List (Option CallerResult × List Outcome) :=
  (((reachable 12 [init sc]).filter quiescent).map fun s => (s.caller, s.lost)).eraseDups

end CM.Conc.GoWrap

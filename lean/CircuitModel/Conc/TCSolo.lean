/-
  Conc/TCSolo.lean — how a thread of the gate's small-step model (Conc/TC) is seen from outside (K6): silent steps, and
  the Go operation (atomic or RWMutex) each visible step stands for — the structured form of DriverTrace.TrTC.expected.
-/
import CircuitModel.Conc.TC
import CircuitModel.Conc.Solo
namespace CM.Conc.TC

inductive Lab where
  | loadFF (b : Bool) | storeFF (b : Bool)
  | rlock | runlock | lock | unlock
  | loadAllow (v : Int) | loadSleep (v : Int)
  | addVersion (res : Int) | loadVersion (v : Int)
  deriving Repr, DecidableEq

def silent (_s : Shared) (l : Local) : Bool :=
  match l.pc, l.job with
  | .critical, _ => true
  | .begin, .start _ => true
  | .begin, .fire _ => true
  | _, _ => false

def label (s : Shared) (l : Local) : Option Lab :=
  match l.pc with
  | .begin => (match l.job with | .check _ => some (.loadFF s.fastFail) | _ => none)
  | .rlock => some .rlock
  | .runlock _ => some .runlock
  | .wlock => some .lock
  | .critical => none
  | .loadAllow => some (.loadAllow s.allow)
  | .resetLoadSleep _ _ => some (.loadSleep s.sleep)
  | .resetStoreFF _ _ => some (.storeFF true)
  | .resetAddVersion _ _ => some (.addVersion (s.version + 1))
  | .resetArm _ _ => some (.loadSleep s.sleep)
  | .wunlock _ => some .unlock
  | .cbLoadVersion _ => some (.loadVersion s.version)
  | .cbStoreFF => some (.storeFF false)
  | .done _ => none

def view : View Shared Local Lab :=
  { silent := silent, label := label, fin := fun l => match l.pc with | .done _ => true | _ => false }

/-- one job by thread `tid`, alone against the oracle, from program counter `pc` -/
def soloJob (tid k : Nat) (job : Job) (pc : Pc) (s : Shared) (envs : List (Shared → Shared)) : SoloSt Shared Local Lab :=
  solo sys view tid k { sh := s, loc := { job := job, pc := pc }, envs := envs }

/-- what the lock discipline (C11: `discipline_ok` on the regenerated lock facts) guarantees about the other goroutines:
    while this thread holds the write lock nobody else releases it, nobody else writes the plain field
    `currentlyAllowedEventCount`, publishes a version or arms a timer (all of that happens under the write lock only:
    `resetOpenTimeWithLock`, `Check`'s critical section); and the ghost event log is invisible to everybody -/
def Rely (tid : Nat) (envs : List (Shared → Shared)) : Prop :=
  ∀ e ∈ envs,
    (∀ x : Shared, x.writer = some tid →
      (e x).writer = some tid ∧ (e x).count = x.count ∧ (e x).version = x.version ∧ (e x).armed = x.armed) ∧
    (∀ (x : Shared) (evs : List Ev), e { x with events := evs } = { e x with events := evs })

end CM.Conc.TC

/-
  Conc/RCSolo.lean — how a thread of the counter's small-step model (Conc/RC) is seen from outside: which of its steps
  are silent, and which Go atomic operation each visible step stands for (the structured form of the text labels the K2
  trace conformance compares with the real scheduled runs: DriverTrace.TrRC.expected).
-/
import CircuitModel.Conc.RC
import CircuitModel.Conc.Solo
namespace CM.Conc.RC

inductive Var where
  | total | rolling | last
  | bucket (i : Nat)
  deriving Repr, DecidableEq

/-- one Go atomic operation with the value it observed -/
inductive Lab where
  | load (v : Var) (obs : Int)
  | add (v : Var) (d res : Int)
  | swap (v : Var) (new old : Int)
  | cas (v : Var) (old new : Int) (ok : Bool)
  deriving Repr, DecidableEq

def silent (s : Shared) (l : Local) : Bool :=
  match l.pc, l.prog with
  | .next, (.inc _ :: _) => false
  | .next, (_ :: _) => true
  | .rsSwap i, _ => decide (s.n ≤ i)
  | _, _ => false

def label (s : Shared) (l : Local) : Option Lab :=
  match l.pc with
  | .next => (match l.prog with | .inc _ :: _ => some (.add .total 1 (s.total + 1)) | _ => none)
  | .advLoad _ _ => some (.load .last s.last)
  | .advCas _ lastVal _ _ => some (.cas .last lastVal (lastVal + 1) (decide (s.last = lastVal)))
  | .advSwap _ lastVal _ _ => some (.swap (.bucket (lastVal % s.n)) 0 (s.buckets.getD (lastVal % s.n) 0))
  | .advDec _ _ _ x _ => some (.add .rolling (-x) (s.rolling - x))
  | .advFinalCas abs lastVal _ => some (.cas .last lastVal abs (decide (s.last = lastVal)))
  | .incBucket idx => some (.add (.bucket idx) 1 (s.buckets.getD idx 0 + 1))
  | .incRolling => some (.add .rolling 1 (s.rolling + 1))
  | .sumLoad => some (.load .rolling s.rolling)
  | .gbLast => some (.load .last s.last)
  | .gbLoad startIdx i =>
    let idx := if startIdx < i then startIdx + s.n - i else startIdx - i
    some (.load (.bucket idx) (s.buckets.getD idx 0))
  | .rsSwap i => some (.swap (.bucket i) 0 (s.buckets.getD i 0))
  | .rsDec _ x => some (.add .rolling (-x) (s.rolling - x))

def view : View Shared Local Lab :=
  { silent := silent, label := label, fin := fun l => l.prog.isEmpty && l.pc == .next }

/-- the bucket index a time (offset from the counter's start, ns) falls in; `none`: before the start -/
def reqOf (w now : Int) : Option Nat := if now < 0 then none else some (now / w).toNat

/-- one operation by one thread, alone against the oracle -/
def soloOp (k : Nat) (op : Op) (s : Shared) (envs : List (Shared → Shared)) : SoloSt Shared Local Lab :=
  solo sys view 0 k { sh := s, loc := { prog := [op] }, envs := envs }

end CM.Conc.RC

/-
  Conc/Run.lean — small-step model of the WHOLE `Circuit.run` (circuit.go) for any number of concurrent callers: the
  admission (`allowNewRun`, `IsOpen`, the opener's veto), the bulkhead gauge (`concurrentCommands.Add(1)`, the limit,
  the deferred `Add(-1)` on every exit — return, refusal, panic), the invocation of the run function, the
  classification chain with its precedence (bad request, timeout, interrupt, failure, success), the delivery of the one
  run event, and the transitions the outcome triggers (`checkSuccess` → `close`, `checkErrFailure` / `checkErrTimeout` →
  `attemptToOpen` → `openCircuit`, both embedded from Conc/Trans under `transitionMu`).
  One model step per atomic load / store / add, per lock operation, per delivery to the collectors and for the
  execution of the user's function; what user code, the pluggable logic and the clock answer is the calling thread's
  script.  Jobs `open` / `close` are OpenCircuit / CloseCircuit.  The override flags and the limit are static here.
  It COMBINES what Conc/Call (admission + transitions) and Conc/Gauge (bulkhead) model separately; `toCall` / `toGauge`
  project it onto them (CircuitProofs/Props/RunProj.lean: every step of this model is a step of those, or nothing),
  so their all-schedule theorems hold of it, and K6 ties today's `run` to `step` (GoTie/I_Run.lean).
-/
import CircuitModel.Conc.Call
import CircuitModel.Conc.Gauge
namespace CM.Conc.Run
open CM.Conc

/-- the kind of the one run event of an executed call -/
inductive Kind where
  | success | failure | timeout | badRequest | interrupt
  deriving Repr, DecidableEq

/-- what user code, logic, clock and caller context answer for this call, if asked -/
structure Script where
  allow : Bool := false             -- closer.Allow
  prevent : Bool := false           -- opener.Prevent
  shouldOpen : Bool := false
  shouldClose : Bool := false
  panics : Bool := false            -- the run function panics
  failed : Bool := false            -- … returns a non-nil error
  bad : Bool := false               -- IsBadRequest of that error
  deadline : Bool := false          -- Execution.Timeout > 0: the call has a deadline of its own
  late : Bool := false              -- … and the function was done after it
  ctxDone : Bool := false           -- the caller's own context has ended
  ignoreInterrupts : Bool := false
  classifier : Bool := true         -- IsErrInterrupt's verdict (true when unset)
  deriving Repr, DecidableEq

/-- the precedence order of the classification chain -/
def Script.kind (sc : Script) : Kind :=
  if sc.failed && sc.bad then .badRequest
  else if sc.deadline && sc.late then .timeout
  else if sc.failed && sc.ctxDone && !sc.ignoreInterrupts && sc.classifier then .interrupt
  else if sc.failed then .failure
  else .success

inductive Ev where
  | shortCircuit | reject | invoked
  | ran (k : Kind)
  | vetoed               -- ghost marker: the opener's veto refused the call (nothing is delivered to the collectors)
  deriving Repr, DecidableEq

/-- how a call ended -/
inductive Res where
  | shed                 -- refused: circuit open (short-circuit event) or vetoed by the opener (no event)
  | rejected             -- refused: concurrency limit
  | ran (k : Kind)
  | panicked
  | manual               -- OpenCircuit / CloseCircuit returned
  deriving Repr, DecidableEq

inductive Job where
  | call (sc : Script)
  | open
  | close
  deriving Repr, DecidableEq

inductive Pc where
  | aFO | aFC | aFlag | gFO | askAllow        -- allowNewRun (IsOpen inlined)
  | deliverShort                               -- CmdMetricCollector.ErrShortCircuit
  | askPrevent
  | vetoed                                     -- the opener said Prevent: the refusal is returned, no event
  | gaugeAdd                                   -- concurrentCommands.Add(1)
  | loadLimit (obs : Int)                      -- MaxConcurrentRequests.Get()
  | deliverReject
  | invoke                                     -- the run function executes (return or panic)
  | classify
  | deliver (k : Kind)                         -- the run event
  | pFO (k : Kind) | pFC (k : Kind) | pFlag (k : Kind)   -- IsOpen() in checkSuccess / checkErrFailure / checkErrTimeout
  | oFC (k : Kind) | oFO (k : Kind) | oFC2 (k : Kind) | oFlag (k : Kind) | askShouldOpen (k : Kind)   -- attemptToOpen
  | trans (l : Trans.Local) (after : Res)      -- inside openCircuit / close; `after` = how the call ends afterwards
  | gaugeDec (r : Res)                         -- the deferred concurrentCommands.Add(-1)
  | done (r : Res)
  deriving Repr, DecidableEq

structure Local where
  job : Job
  pc : Pc
  sawOpen : Option Bool := none   -- ghost: what IsOpen() answered at admission
  deriving Repr, DecidableEq

structure Shared where
  t : Trans.Shared
  gauge : Int := 0
  limit : Int
  region : List Gauge.Entry := []      -- ghost, as in Conc/Gauge
  events : List (Nat × Ev) := []       -- ghost: what was delivered to the run collectors / which functions were invoked
  deriving Repr, DecidableEq

def startPc : Job → Pc
  | .call _ => .aFO
  | .open => .trans { job := .open } .manual
  | .close => .trans { job := .close true false } .manual

/-- does this kind of outcome make the call look at the state afterwards? (success may close; failure and timeout may open) -/
def Kind.looks : Kind → Bool
  | .success | .failure | .timeout => true
  | _ => false

def step (tid : Nat) (s : Shared) (l : Local) : Option (Shared × Local) :=
  let sc : Script := match l.job with | .call sc => sc | _ => {}
  let goto (pc : Pc) : Option (Shared × Local) := some (s, { l with pc := pc })
  let ev (e : Ev) (pc : Pc) : Option (Shared × Local) := some ({ s with events := s.events ++ [(tid, e)] }, { l with pc := pc })
  match l.pc with
  -- admission
  | .aFO => if s.t.forceOpen then some (s, { l with pc := .gFO, sawOpen := some true }) else goto .aFC
  | .aFC => if s.t.forcedClosed then some (s, { l with pc := .askPrevent, sawOpen := some false }) else goto .aFlag
  | .aFlag => if s.t.isOpen then some (s, { l with pc := .gFO, sawOpen := some true })
              else some (s, { l with pc := .askPrevent, sawOpen := some false })
  | .gFO => if s.t.forceOpen then goto .deliverShort else goto .askAllow
  | .askAllow => if sc.allow then goto .askPrevent else goto .deliverShort
  | .deliverShort => ev .shortCircuit (.done .shed)
  | .askPrevent => if sc.prevent then goto .vetoed else goto .gaugeAdd
  | .vetoed => ev .vetoed (.done .shed)
  -- bulkhead
  | .gaugeAdd =>
    let g := s.gauge + 1
    some ({ s with gauge := g, region := s.region ++ [{ tid := tid, obs := g, running := false }] }, { l with pc := .loadLimit g })
  | .loadLimit obs =>
    if s.limit ≥ 0 ∧ obs > s.limit then goto .deliverReject
    else some ({ s with region := s.region.map fun e => if e.tid = tid then { e with running := true } else e }, { l with pc := .invoke })
  | .deliverReject => ev .reject (.gaugeDec .rejected)
  -- the protected function
  | .invoke => ev .invoked (if sc.panics then .gaugeDec .panicked else .classify)
  | .classify => goto (.deliver sc.kind)
  | .deliver k => ev (.ran k) (if k.looks then .pFO k else .gaugeDec (.ran k))
  -- `if c.IsOpen()` (success) / `if !c.IsOpen()` (failure, timeout)
  | .pFO k =>
    if s.t.forceOpen then (if k = .success then goto (.trans { job := .close false sc.shouldClose } (.ran k)) else goto (.gaugeDec (.ran k)))
    else goto (.pFC k)
  | .pFC k =>
    if s.t.forcedClosed then (if k = .success then goto (.gaugeDec (.ran k)) else goto (.oFC k))
    else goto (.pFlag k)
  | .pFlag k =>
    if s.t.isOpen then (if k = .success then goto (.trans { job := .close false sc.shouldClose } (.ran k)) else goto (.gaugeDec (.ran k)))
    else (if k = .success then goto (.gaugeDec (.ran k)) else goto (.oFC k))
  -- attemptToOpen
  | .oFC k => if s.t.forcedClosed then goto (.gaugeDec (.ran k)) else goto (.oFO k)
  | .oFO k => if s.t.forceOpen then goto (.gaugeDec (.ran k)) else goto (.oFC2 k)
  | .oFC2 k => if s.t.forcedClosed then goto (.askShouldOpen k) else goto (.oFlag k)
  | .oFlag k => if s.t.isOpen then goto (.gaugeDec (.ran k)) else goto (.askShouldOpen k)
  | .askShouldOpen k => if sc.shouldOpen then goto (.trans { job := .open } (.ran k)) else goto (.gaugeDec (.ran k))
  -- the transition itself
  | .trans tl after =>
    let fin : Pc := match after with | .manual => .done .manual | r => .gaugeDec r
    (match tl.pc with
     | .done => goto fin
     | _ => (match Trans.step tid s.t tl with
        | some (t', tl') => some ({ s with t := t' }, { l with pc := if tl'.pc == .done then fin else .trans tl' after })
        | none => none))
  -- every exit of a call that entered the bulkhead
  | .gaugeDec r => some ({ s with gauge := s.gauge - 1, region := s.region.filter (·.tid ≠ tid) }, { l with pc := .done r })
  | .done _ => none

def sys : Sys Shared Local := { step := step }

def init (forceOpen forcedClosed isOpen : Bool) (limit : Int) (jobs : List Job) : Config Shared Local :=
  { shared := { t := { forceOpen := forceOpen, forcedClosed := forcedClosed, isOpen := isOpen }, limit := limit },
    locals := jobs.map fun j => { job := j, pc := startPc j } }

def allDone (c : Config Shared Local) : Bool := c.locals.all fun l => match l.pc with | .done _ => true | _ => false

/-- callers inside the protected function: admitted by the bulkhead, the function not yet finished -/
def inFlight (c : Config Shared Local) : Nat := (c.locals.filter fun l => l.pc == .invoke).length

def resultOf (c : Config Shared Local) (i : Nat) : Option Res :=
  match c.locals[i]? with
  | some { pc := .done r, .. } => some r
  | _ => none

/-- run events delivered to the collectors for thread `i` (everything but the ghost markers) -/
def runEventsOf (c : Config Shared Local) (i : Nat) : List Ev :=
  (c.shared.events.filter fun e => e.1 == i && e.2 != .invoked && e.2 != .vetoed).map (·.2)

def invokedCount (c : Config Shared Local) (i : Nat) : Nat :=
  (c.shared.events.filter fun e => e.1 == i && e.2 == .invoked).length

end CM.Conc.Run

/-! ### projections onto the two partial models -/
namespace CM.Conc.Run
open CM.Conc

/-- what Conc/Call's thread would be asked -/
def toCallScript (sc : Script) : Call.Script :=
  { allow := sc.allow, prevent := sc.prevent, fails := sc.kind == .failure || sc.kind == .timeout,
    shouldOpen := sc.shouldOpen, shouldClose := sc.shouldClose }

def toCallJob : Job → Call.Job
  | .call sc => .call (toCallScript sc)
  | .open => .open
  | .close => .close

/-- the whole-call model seen through Conc/Call: the bulkhead steps are "about to invoke", the classification and the
    delivery are "about to look at the state", the deferred decrement is "done"; a call that Conc/Call has no outcome
    for (refused by the bulkhead, panicked, bad request, interrupt) is a Conc/Call thread that simply takes no further
    step -/
def toCallPc : Pc → Call.Pc
  | .aFO => .aFO | .aFC => .aFC | .aFlag => .aFlag | .gFO => .gFO | .askAllow => .askAllow
  | .deliverShort => .shedNow
  | .askPrevent => .askPrevent
  | .vetoed => .shedNow
  | .gaugeAdd | .loadLimit _ | .deliverReject | .invoke => .invoke
  | .classify | .deliver _ => .pFO
  | .pFO _ => .pFO | .pFC _ => .pFC | .pFlag _ => .pFlag
  | .oFC _ => .oFC | .oFO _ => .oFO | .oFC2 _ => .oFC2 | .oFlag _ => .oFlag | .askShouldOpen _ => .askShouldOpen
  | .trans tl _ => .trans tl
  | .gaugeDec r | .done r =>
    match r with
    | .shed | .manual => .done
    | .rejected => .invoke
    | .panicked => .pFO
    | .ran k => if k.looks then .done else .pFO

def toCallLocal (l : Local) : Call.Local := { job := toCallJob l.job, pc := toCallPc l.pc, sawOpen := l.sawOpen }

def toCallEv : Nat × Ev → Option (Nat × Call.Outcome)
  | (i, .shortCircuit) => some (i, .shed)
  | (i, .vetoed) => some (i, .shed)
  | (i, .invoked) => some (i, .ran)
  | _ => none

def toCallShared (s : Shared) : Call.Shared := { t := s.t, events := s.events.filterMap toCallEv }

def toCall (c : Config Shared Local) : Config Call.Shared Call.Local :=
  { shared := toCallShared c.shared, locals := c.locals.map toCallLocal }

/-- … and through Conc/Gauge: everything before the increment is "has not started", everything between the function's
    end and the deferred decrement is "leaving" -/
def toGaugeLocal (l : Local) : Gauge.Local :=
  match l.pc with
  | .loadLimit obs => .incd obs
  | .deliverReject => .rejecting
  | .invoke => .running
  | .classify | .deliver _ | .pFO _ | .pFC _ | .pFlag _ | .oFC _ | .oFO _ | .oFC2 _ | .oFlag _ | .askShouldOpen _ => .leaving
  | .trans _ after => (match after with | .manual => .idle | _ => .leaving)
  | .gaugeDec r => (match r with | .rejected => .rejecting | _ => .leaving)
  | .done r => (match r with | .rejected => .finished false | .ran _ | .panicked => .finished true | _ => .idle)
  | _ => .idle

def toGaugeShared (s : Shared) : Gauge.Shared := { gauge := s.gauge, limit := s.limit, region := s.region }

def toGauge (c : Config Shared Local) : Config Gauge.Shared Gauge.Local :=
  { shared := toGaugeShared c.shared, locals := c.locals.map toGaugeLocal }

end CM.Conc.Run

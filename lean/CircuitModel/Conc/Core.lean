/-
  Conc/Core.lean — generic interleaving semantics: any number of threads, each with a local state, taking atomic
  steps on a shared state in the order a schedule (a list of thread indices) dictates.  `inv_all_schedules` (proved in
  CircuitProofs) lifts step-preservation of an invariant to every schedule, for every number of threads.
-/
namespace CM.Conc

/-- a concurrent system: one atomic step of thread `tid` in local state `l` on shared state `s`;
    `none` = the thread has nothing (enabled) to do -/
structure Sys (σ loc : Type) where
  step : Nat → σ → loc → Option (σ × loc)

structure Config (σ loc : Type) where
  shared : σ
  locals : List loc

/-- run a schedule; a scheduled thread that does not exist or cannot step is skipped -/
def run {σ loc : Type} (S : Sys σ loc) (c : Config σ loc) : List Nat → Config σ loc
  | [] => c
  | i :: rest =>
    match c.locals[i]? with
    | none => run S c rest
    | some l =>
      match S.step i c.shared l with
      | none => run S c rest
      | some (s', l') => run S { shared := s', locals := c.locals.set i l' } rest

end CM.Conc

/-
  Conc/TC.lean — small-step model of CONCURRENT use of faststats.TimedCheck (timedcheck.go): one model step per atomic
  operation and per RWMutex operation of `Check`, `SleepStart` and the timer callback, in program order.
  The plain fields nextOpenTime / currentlyAllowedEventCount are read and written only between the corresponding lock
  steps (they are not scheduling points of their own: the lock discipline of C11 makes those regions atomic).
  Settings (sleep duration, budget) are static during a run.
  GHOST state: `events`, the arming events and successful checks in the order of their write-locked regions.
-/
import CircuitModel.Conc.Core
namespace CM.Conc.TC

inductive Ev where
  | start (t : Int)                       -- SleepStart(t) re-armed
  | success (t : Int) (rearmed : Bool)    -- Check(t) returned true; `rearmed` = it used up the budget and re-armed
  deriving Repr, DecidableEq

structure Shared where
  sleep : Int
  allow : Int
  fastFail : Bool := false
  version : Int := 0
  nextOpen : Option Int := none
  count : Int := 0
  readers : Nat := 0
  writer : Option Nat := none
  armed : List Int := []                  -- version captured by each timer callback, oldest first
  events : List Ev := []
  deriving Repr, DecidableEq

inductive Job where
  | check (t : Int)
  | start (t : Int)
  | fire (k : Nat)                        -- the timer callback created by the k-th arming (may fire at any time)
  deriving Repr, DecidableEq

inductive Pc where
  | begin
  | rlock                                  -- Check: about to RLock
  | runlock (after : Bool)                 -- Check: holds the read lock, has compared nextOpenTime; about to RUnlock
  | wlock                                  -- about to Lock
  | critical                               -- holds the write lock: re-validation / count / budget test (plain fields)
  | loadAllow                              -- Check: about to load eventCountToAllow (count already incremented)
  | resetLoadSleep (t : Int) (ret : Bool)  -- resetOpenTimeWithLock: about to load sleepDuration
  | resetStoreFF (t : Int) (ret : Bool)    -- about to isFastFail.Set(true)
  | resetAddVersion (t : Int) (ret : Bool) -- about to isFailFastVersion.Add(1)
  | resetArm (t : Int) (ret : Bool)        -- afterFunc: load sleepDuration again, create the callback
  | wunlock (ret : Bool)                   -- about to Unlock, will return `ret`
  | cbLoadVersion (v : Int)                -- callback: about to load isFailFastVersion
  | cbStoreFF                              -- callback: about to isFastFail.Set(false)
  | done (ret : Option Bool)
  deriving Repr, DecidableEq

structure Local where
  job : Job
  pc : Pc := .begin
  deriving Repr, DecidableEq

def nextAfter (s : Shared) (now : Int) : Bool := match s.nextOpen with | none => false | some t => decide (now < t)

def step (tid : Nat) (s : Shared) (l : Local) : Option (Shared × Local) :=
  match l.pc, l.job with
  | .begin, .check _ =>
    -- `if c.isFastFail.Get() { return false }`
    if s.fastFail then some (s, { l with pc := .done (some false) }) else some (s, { l with pc := .rlock })
  | .begin, .start _ => some (s, { l with pc := .wlock })
  | .begin, .fire k =>
    (match s.armed[k]? with
     | some v => some (s, { l with pc := .cbLoadVersion v })
     | none => some (s, { l with pc := .done none }))          -- nothing armed under that number (yet): no-op
  | .rlock, .check t => if s.writer.isNone then some ({ s with readers := s.readers + 1 }, { l with pc := .runlock (nextAfter s t) }) else none
  | .runlock after, _ => some ({ s with readers := s.readers - 1 }, { l with pc := if after then .done (some false) else .wlock })
  | .wlock, _ => if s.writer.isNone ∧ s.readers = 0 then some ({ s with writer := some tid }, { l with pc := .critical }) else none
  | .critical, .check t =>
    if nextAfter s t then some (s, { l with pc := .wunlock false })
    else some ({ s with count := s.count + 1 }, { l with pc := .loadAllow })
  | .critical, .start t => some (s, { l with pc := .resetLoadSleep t false })
  | .loadAllow, .check t =>
    if s.count ≥ s.allow then some (s, { l with pc := .resetLoadSleep t true })
    else some ({ s with events := s.events ++ [.success t false] }, { l with pc := .wunlock true })
  | .resetLoadSleep t ret, _ =>
    some ({ s with nextOpen := some (t + s.sleep), count := 0 }, { l with pc := .resetStoreFF t ret })
  | .resetStoreFF t ret, _ => some ({ s with fastFail := true }, { l with pc := .resetAddVersion t ret })
  | .resetAddVersion t ret, _ => some ({ s with version := s.version + 1 }, { l with pc := .resetArm t ret })
  | .resetArm t ret, _ =>
    some ({ s with armed := s.armed ++ [s.version],
                   events := s.events ++ [if ret then .success t true else .start t] }, { l with pc := .wunlock ret })
  | .wunlock ret, job =>
    some ({ s with writer := none }, { l with pc := .done (match job with | .check _ => some ret | _ => none) })
  | .cbLoadVersion v, _ => if v = s.version then some (s, { l with pc := .cbStoreFF }) else some (s, { l with pc := .done none })
  | .cbStoreFF, _ => some ({ s with fastFail := false }, { l with pc := .done none })
  | .done _, _ => none
  | _, _ => none

def sys : Sys Shared Local := { step := step }

def init (sleep allow : Int) (jobs : List Job) : Config Shared Local :=
  { shared := { sleep := sleep, allow := allow }, locals := jobs.map fun j => { job := j } }

def quiescent (c : Config Shared Local) : Bool := c.locals.all fun l => match l.pc with | .done _ => true | _ => false

/-! ### the event log replayed sequentially: what the gate's protected state must be, and whether every success was
      eligible and re-armed exactly when the budget was used up -/
structure Gate where
  nextOpen : Option Int := none
  count : Int := 0
  deriving Repr, DecidableEq

def Gate.after (g : Gate) (now : Int) : Bool := match g.nextOpen with | none => false | some t => decide (now < t)

/-- one event; `none` = the event is not allowed in this state -/
def Gate.apply (sleep allow : Int) (g : Gate) : Ev → Option Gate
  | .start t => some { nextOpen := some (t + sleep), count := 0 }
  | .success t rearmed =>
    if g.after t then none                                   -- a success inside the sleep period: never allowed
    else if decide (g.count + 1 ≥ allow) != rearmed then none   -- re-arm exactly when the budget is used up
    else if rearmed then some { nextOpen := some (t + sleep), count := 0 } else some { g with count := g.count + 1 }

def replay (sleep allow : Int) (g : Gate) : List Ev → Option Gate
  | [] => some g
  | e :: rest => match g.apply sleep allow e with | some g' => replay sleep allow g' rest | none => none

def Ev.isSuccess : Ev → Bool | .success _ _ => true | _ => false
def Ev.isArming : Ev → Bool | .start _ => true | .success _ b => b
def Ev.time : Ev → Int | .start t => t | .success t _ => t

end CM.Conc.TC

/-
  Conc/Mgr.lean — small-step model of concurrent use of one circuit.Manager (manager.go): every method takes the
  manager's RWMutex (CreateCircuit exclusively; GetCircuit / AllCircuits shared), performs its body, releases it.
  Steps: acquire, body, release — any number of threads, every schedule.  The body is the sequential model's
  `Mgr.step`; the ghost `log` records the bodies in the order they took effect (the linearisation).
-/
import CircuitModel.Conc.Core
import CircuitModel.Manager
namespace CM.Conc.Mgr
open CM.Mgr

inductive Pc where
  | begin
  | locked                 -- holds the lock (exclusively or shared, by the kind of job), body not yet run
  | ran (out : Out)        -- body done, lock still held
  | done (out : Out)
  deriving Repr, DecidableEq

structure Local where
  job : Op
  pc : Pc := .begin
  deriving Repr, DecidableEq

structure Shared where
  st : State
  writer : Option Nat := none        -- thread holding the lock exclusively
  readers : List Nat := []           -- threads holding it shared
  log : List (Nat × Op × Out) := []  -- ghost: bodies in the order they took effect
  deriving Repr, DecidableEq

/-- which jobs take the lock exclusively (CreateCircuit); `stats` is not a Manager method and is not a thread job
    here (it is asked at quiescence) — it is treated as a reader for totality -/
def isWriter : Op → Bool
  | .create _ _ => true
  | _ => false

def step (tid : Nat) (s : Shared) (l : Local) : Option (Shared × Local) :=
  match l.pc with
  | .begin =>
    if isWriter l.job then
      (if s.writer.isNone && s.readers.isEmpty then some ({ s with writer := some tid }, { l with pc := .locked }) else none)
    else
      (if s.writer.isNone then some ({ s with readers := tid :: s.readers }, { l with pc := .locked }) else none)
  | .locked =>
    let (st', out) := CM.Mgr.step s.st l.job
    some ({ s with st := st', log := s.log ++ [(tid, l.job, out)] }, { l with pc := .ran out })
  | .ran out =>
    if isWriter l.job then some ({ s with writer := none }, { l with pc := .done out })
    else some ({ s with readers := s.readers.erase tid }, { l with pc := .done out })
  | .done _ => none

def sys : Sys Shared Local := { step := step }

def init (st : State) (jobs : List Op) : Config Shared Local :=
  { shared := { st := st }, locals := jobs.map fun j => { job := j } }

/-- the result thread `i` returned (if it has returned) -/
def result (c : Config Shared Local) (i : Nat) : Option Out :=
  match c.locals[i]? with
  | some { pc := .done o, .. } => some o
  | _ => none

/-- thread `i` is a CreateCircuit(name) that has returned a circuit -/
def isWinner (jobs : List Op) (c : Config Shared Local) (name : String) (i : Nat) : Bool :=
  match jobs[i]? with
  | some (Op.create n _) => n == name && (match result c i with | some (Out.created _) => true | _ => false)
  | _ => false

def winners (jobs : List Op) (c : Config Shared Local) (name : String) : List Nat :=
  (List.range jobs.length).filter (isWinner jobs c name)

def allDone (c : Config Shared Local) : Bool := c.locals.all fun l => match l.pc with | .done _ => true | _ => false

end CM.Conc.Mgr

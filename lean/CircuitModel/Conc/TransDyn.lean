/-
  Conc/TransDyn.lean — the serialised transitions (Conc/Trans) racing LIVE CHANGES of the override flags: besides the
  transition threads of Conc/Trans there are operator threads, each performing one `SetConfigThreadSafe` as far as this
  model is concerned: an atomic store of ForcedClosed followed by an atomic store of ForceOpen (the order of
  `atomicCircuitConfig.reset`), at any moment, without taking the transition mutex.  A transition thread's steps are
  exactly `Trans.step`.  Since the repair of D16 every decision to notify is taken on the STATE FLAG read under the
  mutex, so the notifications alternate whatever the operators do (Props/C09Dyn.lean) — which the model before the
  repair (two reads of one override per decision) did not satisfy.
-/
import CircuitModel.Conc.Trans
namespace CM.Conc.TransDyn
open CM.Conc

inductive Local where
  | tr (l : Trans.Local)                       -- a transition thread of Conc/Trans
  | op (fo fc : Bool) (stage : Nat)            -- an operator: stage 0 = about to store ForcedClosed, 1 = about to store ForceOpen, 2 = done
  deriving Repr, DecidableEq

def step (tid : Nat) (s : Trans.Shared) : Local → Option (Trans.Shared × Local)
  | .tr l => (Trans.step tid s l).map fun p => (p.1, .tr p.2)
  | .op fo fc 0 => some ({ s with forcedClosed := fc }, .op fo fc 1)
  | .op fo fc 1 => some ({ s with forceOpen := fo }, .op fo fc 2)
  | .op _ _ _ => none

def sys : Sys Trans.Shared Local := { step := step }

inductive Job where
  | trans (j : Trans.Job)
  | setFlags (fo fc : Bool)
  deriving Repr, DecidableEq

def startLocal : Job → Local
  | .trans j => .tr { job := j }
  | .setFlags fo fc => .op fo fc 0

def init (forceOpen forcedClosed isOpen : Bool) (jobs : List Job) : Config Trans.Shared Local :=
  { shared := { forceOpen := forceOpen, forcedClosed := forcedClosed, isOpen := isOpen }, locals := jobs.map startLocal }

def quiescent (c : Config Trans.Shared Local) : Bool :=
  c.locals.all fun l => match l with | .tr l => l.pc == .done | .op _ _ k => decide (2 ≤ k)

end CM.Conc.TransDyn

/-
  Conc/MgrSolo.lean — how a thread of the manager's small-step model (Conc/Mgr) is seen from outside (K6): the two
  visible steps of every method are the operations on the manager's RWMutex (`Lock`/`Unlock` for CreateCircuit,
  `RLock`/`RUnlock` for the readers); the body step `.locked → .ran` is silent — it stands for the plain accesses to
  `circuitMap` (and the constructor calls) made while the lock is held, none of which is a synchronisation operation.
-/
import CircuitModel.Conc.Mgr
import CircuitModel.Conc.Solo
namespace CM.Conc.Mgr
open CM.Mgr

inductive Lab where
  | lock | rlock | unlock | runlock
  deriving Repr, DecidableEq

/-- the body runs between the two lock operations without a scheduling point -/
def silent (_s : Shared) (l : Local) : Bool :=
  match l.pc with
  | .locked => true
  | _ => false

def label (_s : Shared) (l : Local) : Option Lab :=
  match l.pc with
  | .begin => some (if isWriter l.job then .lock else .rlock)
  | .locked => none
  | .ran _ => some (if isWriter l.job then .unlock else .runlock)
  | .done _ => none

def view : View Shared Local Lab :=
  { silent := silent, label := label, fin := fun l => match l.pc with | .done _ => true | _ => false }

/-- one method call by thread `tid`, alone against the oracle, from program counter `pc` -/
def soloJob (tid k : Nat) (job : Op) (pc : Pc) (s : Shared) (envs : List (Shared → Shared)) : SoloSt Shared Local Lab :=
  solo sys view tid k { sh := s, loc := { job := job, pc := pc }, envs := envs }

/-- the ghost linearisation log aside -/
def noLog (s : Shared) : Shared := { s with log := [] }

/-- What the tie needs from the other goroutines: what they do to the real fields does not depend on the ghost
    linearisation log (no Go code reads it; the other threads of the MODEL append to it and satisfy this:
    `GoTie/I_Mgr.model_steps_rely`,
    `schedule_oracles_rely`).  NOTHING about the registry `st` is needed: the code as translated (plain accesses to
    `circuitMap` are not scheduling points) and the model (the body is ONE silent step) both run the body without
    letting the oracle move between the acquisition and the body, and the oracle's next move comes before the release on
    both sides.  That plain accesses may be treated so is what the RWMutex gives — while this thread holds it
    exclusively nobody else touches `st`, while it holds it shared nobody else writes `st` (C11's lock discipline on the
    regenerated lock facts; `Conc/Mgr.step` changes `st` only at the `.locked` step of a writer) — and is a fact about
    the primitives' meaning, not a hypothesis of the theorems. -/
def Rely (envs : List (Shared → Shared)) : Prop :=
  ∀ e ∈ envs, ∀ (x : Shared) (lg : List (Nat × Op × Out)), noLog (e { x with log := lg }) = noLog (e x)

end CM.Conc.Mgr

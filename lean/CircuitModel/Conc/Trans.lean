/-
  Conc/Trans.lean — small-step model of the open ⇄ closed transitions of circuit.go after they were serialised
  (`openCircuit`, `close` under `transitionMu`): one model step per lock operation, per atomic load of a flag, per
  notification delivery and per store.  Any number of threads, each performing one transition attempt:
    open            `openCircuit(ctx, now)`   (from OpenCircuit, or from attemptToOpen once the opener said yes)
    close force?    `close(ctx, now, forceClosed)`; for forceClosed = false the closer's ShouldClose answer is an
                    arbitrary Boolean carried by the thread (the circuit uses nothing of that call but its answer)
  The override flags are static during a run (a reconfiguration racing a transition is outside this model).
-/
import CircuitModel.Conc.Core
namespace CM.Conc.Trans

structure Shared where
  forceOpen : Bool
  forcedClosed : Bool
  isOpen : Bool
  holder : Option Nat := none        -- transitionMu
  log : List Bool := []              -- notifications delivered: true = Opened, false = Closed
  deriving Repr, DecidableEq

inductive Job where
  | open
  | close (force : Bool) (shouldClose : Bool)
  deriving Repr, DecidableEq

inductive Pc where
  | start                 -- about to Lock(transitionMu)
  | guard1                -- open: load ForcedClosed          close: IsOpen → load ForceOpen
  | isOpenFO              -- IsOpen(): load ForceOpen
  | isOpenFC              -- IsOpen(): load ForcedClosed
  | isOpenFlag            -- IsOpen(): load isOpen
  | guard2                -- close: load ForceOpen (the `if ForceOpen { return }` guard)
  | decide                -- close: forceClosed || ShouldClose
  | notify                -- deliver Opened / Closed to the collectors
  | store                 -- isOpen.Set(…)
  | unlock
  | done
  deriving Repr, DecidableEq

structure Local where
  job : Job
  pc : Pc := .start
  deriving Repr, DecidableEq

def step (tid : Nat) (s : Shared) (l : Local) : Option (Shared × Local) :=
  let goUnlock : Option (Shared × Local) := some (s, { l with pc := .unlock })
  match l.pc with
  | .start => if s.holder.isNone then some ({ s with holder := some tid }, { l with pc := match l.job with | .open => .guard1 | .close _ _ => .isOpenFO }) else none
  | .guard1 => if s.forcedClosed then goUnlock else some (s, { l with pc := .isOpenFO })        -- open only
  | .isOpenFO =>
    -- IsOpen() answers true as soon as ForceOpen is set
    if s.forceOpen then (match l.job with | .open => goUnlock | .close _ _ => some (s, { l with pc := .guard2 }))
    else some (s, { l with pc := .isOpenFC })
  | .isOpenFC =>
    if s.forcedClosed then (match l.job with | .open => some (s, { l with pc := .notify }) | .close _ _ => goUnlock)
    else some (s, { l with pc := .isOpenFlag })
  | .isOpenFlag =>
    (match l.job with
     | .open => if s.isOpen then goUnlock else some (s, { l with pc := .notify })
     | .close _ _ => if s.isOpen then some (s, { l with pc := .guard2 }) else goUnlock)
  | .guard2 => if s.forceOpen then goUnlock else some (s, { l with pc := .decide })               -- close only
  | .decide => (match l.job with | .close f a => if f || a then some (s, { l with pc := .notify }) else goUnlock | .open => goUnlock)
  | .notify => some ({ s with log := s.log ++ [match l.job with | .open => true | .close _ _ => false] }, { l with pc := .store })
  | .store => some ({ s with isOpen := match l.job with | .open => true | .close _ _ => false }, { l with pc := .unlock })
  | .unlock => some ({ s with holder := none }, { l with pc := .done })
  | .done => none

def sys : Sys Shared Local := { step := step }

def init (forceOpen forcedClosed isOpen : Bool) (jobs : List Job) : Config Shared Local :=
  { shared := { forceOpen := forceOpen, forcedClosed := forcedClosed, isOpen := isOpen }, locals := jobs.map fun j => { job := j } }

def quiescent (c : Config Shared Local) : Bool := c.locals.all (·.pc == .done)

/-- strictly alternating continuation of a notification sequence whose previous element was `prev` -/
def alternates (prev : Bool) : List Bool → Bool
  | [] => true
  | b :: r => b != prev && alternates b r

end CM.Conc.Trans

/-
  Conc/Trans.lean — small-step model of the open ⇄ closed transitions of circuit.go after they were serialised
  (`openCircuit`, `close` under `transitionMu`): one model step per lock operation, per atomic load of a flag, per
  notification delivery and per store.  Any number of threads, each performing one transition attempt:
    open            `openCircuit(ctx, now)`   (from OpenCircuit, or from attemptToOpen once the opener said yes)
    close force?    `close(ctx, now, forceClosed)`; for forceClosed = false the closer's ShouldClose answer is an
                    arbitrary Boolean carried by the thread (the circuit uses nothing of that call but its answer)
  The override flags are static during a run (a reconfiguration racing a transition is outside this model).
-/
import CircuitModel.Conc.Core
namespace CM.Conc.Trans

structure Shared where
  forceOpen : Bool
  forcedClosed : Bool
  isOpen : Bool
  holder : Option Nat := none        -- transitionMu
  log : List Bool := []              -- notifications delivered: true = Opened, false = Closed
  deriving Repr, DecidableEq

inductive Job where
  | open
  | close (force : Bool) (shouldClose : Bool)
  deriving Repr, DecidableEq

inductive Pc where
  | start                 -- about to Lock(transitionMu)
  | guard1                -- open: load ForcedClosed
  | isOpenFO              -- load ForceOpen (open: "already open?"; close: "held open by the operator?")
  | isOpenFC              -- close: load ForcedClosed
  | isOpenFlag            -- load isOpen
  | guard2                -- (unused since the flags are loaded once per decision)
  | decide                -- close: forceClosed || ShouldClose
  | notify                -- deliver Opened / Closed to the collectors
  | store                 -- isOpen.Set(…)
  | unlock
  | done
  deriving Repr, DecidableEq

structure Local where
  job : Job
  pc : Pc := .start
  deriving Repr, DecidableEq

def step (tid : Nat) (s : Shared) (l : Local) : Option (Shared × Local) :=
  let goUnlock : Option (Shared × Local) := some (s, { l with pc := .unlock })
  match l.pc with
  | .start => if s.holder.isNone then some ({ s with holder := some tid }, { l with pc := match l.job with | .open => .guard1 | .close _ _ => .isOpenFO }) else none
  | .guard1 => if s.forcedClosed then goUnlock else some (s, { l with pc := .isOpenFO })        -- open only
  | .isOpenFO =>
    -- each override flag is loaded ONCE per decision.  open: ForcedClosed is known to be off (guard1), so the circuit is
    -- open iff ForceOpen or the flag;  close: under ForceOpen nothing is closed
    if s.forceOpen then goUnlock
    else (match l.job with | .open => some (s, { l with pc := .isOpenFlag }) | .close _ _ => some (s, { l with pc := .isOpenFC }))
  | .isOpenFC =>                                                                                     -- close only
    if s.forcedClosed then goUnlock else some (s, { l with pc := .isOpenFlag })
  | .isOpenFlag =>
    (match l.job with
     | .open => if s.isOpen then goUnlock else some (s, { l with pc := .notify })
     | .close _ _ => if s.isOpen then some (s, { l with pc := .decide }) else goUnlock)
  | .guard2 => goUnlock                                             -- not reached any more (the second load of ForceOpen is gone)
  | .decide => (match l.job with | .close f a => if f || a then some (s, { l with pc := .notify }) else goUnlock | .open => goUnlock)
  | .notify => some ({ s with log := s.log ++ [match l.job with | .open => true | .close _ _ => false] }, { l with pc := .store })
  | .store => some ({ s with isOpen := match l.job with | .open => true | .close _ _ => false }, { l with pc := .unlock })
  | .unlock => some ({ s with holder := none }, { l with pc := .done })
  | .done => none

def sys : Sys Shared Local := { step := step }

def init (forceOpen forcedClosed isOpen : Bool) (jobs : List Job) : Config Shared Local :=
  { shared := { forceOpen := forceOpen, forcedClosed := forcedClosed, isOpen := isOpen }, locals := jobs.map fun j => { job := j } }

def quiescent (c : Config Shared Local) : Bool := c.locals.all (·.pc == .done)

/-- strictly alternating continuation of a notification sequence whose previous element was `prev` -/
def alternates (prev : Bool) : List Bool → Bool
  | [] => true
  | b :: r => b != prev && alternates b r

end CM.Conc.Trans

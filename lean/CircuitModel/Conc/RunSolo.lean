/-
  Conc/RunSolo.lean — how a thread of the whole-call model (Conc/Run) is seen from outside (K6): silent steps and the Go
  operation each visible step stands for.
-/
import CircuitModel.Conc.Run
import CircuitModel.Conc.Solo
namespace CM.Conc.Run

inductive Lab where
  | loadFO (b : Bool) | loadFC (b : Bool) | loadFlag (b : Bool) | storeFlag (b : Bool)
  | lock | unlock
  | notify (opened : Bool)          -- Opened / Closed delivered to the circuit-level collectors
  | addGauge (d res : Int)
  | loadLimit (v : Int)
  | invoke                          -- the run function executes
  | deliver (e : Ev)                -- a run event delivered to the run collectors
  deriving Repr, DecidableEq

def transLabel (s : Trans.Shared) (l : Trans.Local) : Option Lab :=
  match l.pc with
  | .start => some .lock
  | .guard1 => some (.loadFC s.forcedClosed)
  | .isOpenFO => some (.loadFO s.forceOpen)
  | .isOpenFC => some (.loadFC s.forcedClosed)
  | .isOpenFlag => some (.loadFlag s.isOpen)
  | .guard2 => some (.loadFO s.forceOpen)
  | .decide => none
  | .notify => some (.notify (match l.job with | .open => true | .close _ _ => false))
  | .store => some (.storeFlag (match l.job with | .open => true | .close _ _ => false))
  | .unlock => some .unlock
  | .done => none

def label (s : Shared) (l : Local) : Option Lab :=
  match l.pc with
  | .aFO | .gFO | .pFO _ | .oFO _ => some (.loadFO s.t.forceOpen)
  | .aFC | .pFC _ | .oFC _ | .oFC2 _ => some (.loadFC s.t.forcedClosed)
  | .aFlag | .pFlag _ | .oFlag _ => some (.loadFlag s.t.isOpen)
  | .askAllow | .askPrevent | .vetoed | .classify | .askShouldOpen _ => none
  | .deliverShort => some (.deliver .shortCircuit)
  | .gaugeAdd => some (.addGauge 1 (s.gauge + 1))
  | .loadLimit _ => some (.loadLimit s.limit)
  | .deliverReject => some (.deliver .reject)
  | .invoke => some .invoke
  | .deliver k => some (.deliver (.ran k))
  | .trans tl _ => transLabel s.t tl
  | .gaugeDec _ => some (.addGauge (-1) (s.gauge - 1))
  | .done _ => none

def silent (s : Shared) (l : Local) : Bool :=
  match l.pc with
  | .done _ => false
  | _ => (label s l).isNone

def view : View Shared Local Lab :=
  { silent := silent, label := label, fin := fun l => match l.pc with | .done _ => true | _ => false }

def soloCall (tid k : Nat) (job : Job) (s : Shared) (envs : List (Shared → Shared)) : SoloSt Shared Local Lab :=
  solo sys view tid k { sh := s, loc := { job := job, pc := startPc job }, envs := envs }

end CM.Conc.Run

/-
  Conc/GaugeSolo.lean — how a thread of the bulkhead model (Conc/Gauge) is seen from outside (K6): every step is visible
  (the increment, the load of the limit, the execution of the protected function, the decrement).
-/
import CircuitModel.Conc.Gauge
import CircuitModel.Conc.Solo
namespace CM.Conc.Gauge

inductive Lab where
  | addGauge (d res : Int)
  | loadLimit (v : Int)
  | invoke
  deriving Repr, DecidableEq

def label (s : Shared) : Local → Option Lab
  | .idle => some (.addGauge 1 (s.gauge + 1))
  | .incd _ => some (.loadLimit s.limit)
  | .running => some .invoke
  | .rejecting | .leaving => some (.addGauge (-1) (s.gauge - 1))
  | .finished _ => none

def view : View Shared Local Lab :=
  { silent := fun _ _ => false, label := label, fin := fun l => match l with | .finished _ => true | _ => false }

def soloCaller (tid k : Nat) (s : Shared) (envs : List (Shared → Shared)) : SoloSt Shared Local Lab :=
  solo sys view tid k { sh := s, loc := .idle, envs := envs }

end CM.Conc.Gauge

/-
  Conc/Gauge.lean — small-step model of the bulkhead gauge of `Circuit.run` / `Circuit.fallback` (circuit.go):
      g := gauge.Add(1)  ·  limit := MaxConcurrentRequests.Get()  ·  [reject: event, gauge.Add(-1)] | [invoke … gauge.Add(-1)]
  one model step per Go atomic (plus the function's own execution as one step that may end by return or panic).
  The list `region` is GHOST state: the threads between their increment and their decrement, in increment order,
  with the gauge value each observed.  The same model serves the run gauge and the fallback gauge.
-/
import CircuitModel.Conc.Core
namespace CM.Conc.Gauge

structure Entry where
  tid : Nat
  obs : Int            -- value returned by Add(1)
  running : Bool       -- admitted (inside or about to enter the protected function)
  deriving Repr, DecidableEq

structure Shared where
  gauge : Int := 0
  limit : Int          -- static during a run (live changes: C11)
  region : List Entry := []
  deriving Repr, DecidableEq

inductive Local where
  | idle                         -- has not started
  | incd (obs : Int)             -- did Add(1), saw obs; about to read the limit
  | running                      -- admitted: the protected function is (about to be) executing
  | rejecting                    -- refused: rejection event delivered, about to Add(-1)
  | leaving                      -- function returned or panicked (deferred Add(-1) pending)
  | finished (ran : Bool)
  deriving Repr, DecidableEq

def step (tid : Nat) (s : Shared) : Local → Option (Shared × Local)
  | .idle =>
    let g := s.gauge + 1
    some ({ s with gauge := g, region := s.region ++ [{ tid := tid, obs := g, running := false }] }, .incd g)
  | .incd obs =>
    if s.limit ≥ 0 ∧ obs > s.limit then some (s, .rejecting)
    else some ({ s with region := s.region.map fun e => if e.tid = tid then { e with running := true } else e }, .running)
  | .running => some (s, .leaving)       -- the function ran (return or panic: both reach the deferred decrement)
  | .rejecting => some ({ s with gauge := s.gauge - 1, region := s.region.filter (·.tid ≠ tid) }, .finished false)
  | .leaving => some ({ s with gauge := s.gauge - 1, region := s.region.filter (·.tid ≠ tid) }, .finished true)
  | .finished _ => none

def sys : Sys Shared Local := { step := step }

/-- `n` callers on a fresh gauge with limit `m` -/
def init (m : Int) (n : Nat) : Config Shared Local := { shared := { limit := m }, locals := List.replicate n .idle }

/-- number of callers inside the protected function -/
def inFlight (c : Config Shared Local) : Nat := (c.locals.filter (· == .running)).length

def allFinished (c : Config Shared Local) : Bool := c.locals.all fun l => match l with | .finished _ => true | _ => false

end CM.Conc.Gauge

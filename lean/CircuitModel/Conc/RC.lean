/-
  Conc/RC.lean — small-step model of concurrent use of faststats.RollingCounter (rolling_counter.go) over
  RollingBuckets.Advance (rolling_bucket.go): ONE model step per Go atomic operation, in program order, with the
  CAS retries and the tail-recursive re-entry of Advance.  A time is represented by the absolute bucket index it
  falls in (`none`: before the counter's start — Advance returns -1 without touching anything).
-/
import CircuitModel.Conc.Core
namespace CM.Conc.RC

inductive Op where
  | inc (req : Option Nat)
  | sumAt (req : Option Nat)
  | getBuckets (req : Option Nat)
  | reset (req : Option Nat)
  deriving Repr, DecidableEq

structure Shared where
  n : Nat                 -- NumBuckets (> 0)
  total : Int := 0
  last : Nat := 0         -- LastAbsIndex
  buckets : List Int      -- len = n
  rolling : Int := 0
  deriving Repr, DecidableEq

/-- what the thread does once Advance has returned -/
inductive Cont where
  | inc | sumAt | getBuckets | reset
  deriving Repr, DecidableEq

/-- program counter of one thread -/
inductive Pc where
  | next                                                    -- about to start the next op of its program
  | advLoad (abs : Nat) (k : Cont)                          -- Advance: about to `LastAbsIndex.Get()`
  | advCas (abs lastVal i : Nat) (k : Cont)                 -- loop: about to CAS(lastVal, lastVal+1)
  | advSwap (abs lastVal i : Nat) (k : Cont)                -- clearBucket: about to Swap(0) bucket lastVal % n
  | advDec (abs lastVal i : Nat) (x : Int) (k : Cont)       -- clearBucket: about to rollingSum.Add(-x)
  | advFinalCas (abs lastVal : Nat) (k : Cont)              -- about to CAS(lastVal, abs), then re-enter Advance
  | incBucket (idx : Nat)                                   -- Inc: about to buckets[idx].Add(1)
  | incRolling                                              -- Inc: about to rollingSum.Add(1)
  | sumLoad                                                 -- RollingSumAt: about to rollingSum.Get()
  | gbLast                                                  -- GetBuckets: about to LastAbsIndex.Get()
  | gbLoad (startIdx i : Nat)                               -- GetBuckets: about to load bucket i of the answer
  | rsSwap (i : Nat)                                        -- Reset: about to Swap(0) bucket i
  | rsDec (i : Nat) (x : Int)                               -- Reset: about to rollingSum.Add(-x)
  deriving Repr, DecidableEq

structure Local where
  prog : List Op
  pc : Pc := .next
  incsStarted : Nat := 0      -- ghost: Inc calls whose totalSum.Add(1) has happened
  maxReq : Nat := 0           -- ghost: largest index this thread has requested so far
  sawLast : Nat := 0          -- ghost: largest LastAbsIndex value this thread has observed
  deriving Repr, DecidableEq

/-- what happens when Advance returns `idx?` to continuation `k` -/
def afterAdvance (k : Cont) (idx? : Option Nat) : Pc :=
  match k, idx? with
  | .inc, some idx => .incBucket idx
  | .inc, none => .next
  | .sumAt, _ => .sumLoad
  | .getBuckets, _ => .gbLast
  | .reset, _ => .rsSwap 0

/-- enter Advance for a request -/
def enterAdvance (req : Option Nat) (k : Cont) : Pc :=
  match req with
  | none => afterAdvance k none          -- before start: -1, no atomic step
  | some abs => .advLoad abs k

def step (_tid : Nat) (s : Shared) (l : Local) : Option (Shared × Local) :=
  match l.pc with
  | .next =>
    match l.prog with
    | [] => none
    | .inc req :: rest =>
      -- `totalSum.Add(1)` is the first atomic step of Inc
      some ({ s with total := s.total + 1 },
            { l with prog := rest, pc := enterAdvance req .inc, incsStarted := l.incsStarted + 1,
                     maxReq := match req with | some a => max l.maxReq a | none => l.maxReq })
    | op :: rest =>
      -- the other operations start with Advance; the dispatch into it is modelled as a silent step that touches
      -- nothing shared (the first atomic step of Advance follows)
      let (req, k) := match op with
        | .sumAt r => (r, Cont.sumAt) | .getBuckets r => (r, Cont.getBuckets) | .reset r => (r, Cont.reset) | .inc r => (r, Cont.inc)
      some (s, { l with prog := rest, pc := enterAdvance req k,
                        maxReq := match req with | some a => max l.maxReq a | none => l.maxReq })
  | .advLoad abs k =>
    let lastVal := s.last
    let l := { l with sawLast := max l.sawLast lastVal }
    if abs = lastVal then some (s, { l with pc := afterAdvance k (some (abs % s.n)) })
    else if abs < lastVal then
      (if lastVal - abs ≥ s.n then some (s, { l with pc := afterAdvance k none })
       else some (s, { l with pc := afterAdvance k (some (abs % s.n)) }))
    else some (s, { l with pc := if 0 < s.n then .advCas abs lastVal 0 k else .advFinalCas abs lastVal k })
  | .advCas abs lastVal i k =>
    if s.last = lastVal then
      some ({ s with last := lastVal + 1 }, { l with pc := .advSwap abs (lastVal + 1) i k })
    else some (s, { l with pc := .advLoad abs k })           -- someone else is swapping: re-enter Advance
  | .advSwap abs lastVal i k =>
    let idx := lastVal % s.n
    let x := s.buckets.getD idx 0
    some ({ s with buckets := s.buckets.set idx 0 }, { l with pc := .advDec abs lastVal i x k })
  | .advDec abs lastVal i x k =>
    let i' := i + 1
    some ({ s with rolling := s.rolling - x },
          { l with pc := if i' < s.n ∧ lastVal < abs then .advCas abs lastVal i' k else .advFinalCas abs lastVal k })
  | .advFinalCas abs lastVal k =>
    some ((if s.last = lastVal then { s with last := abs } else s), { l with pc := .advLoad abs k })
  | .incBucket idx =>
    some ({ s with buckets := s.buckets.set idx (s.buckets.getD idx 0 + 1) }, { l with pc := .incRolling })
  | .incRolling => some ({ s with rolling := s.rolling + 1 }, { l with pc := .next })
  | .sumLoad => some (s, { l with pc := .next })
  | .gbLast => some (s, { l with pc := if 0 < s.n then .gbLoad (s.last % s.n) 0 else .next, sawLast := max l.sawLast s.last })
  | .gbLoad startIdx i => some (s, { l with pc := if i + 1 < s.n then .gbLoad startIdx (i + 1) else .next })
  | .rsSwap i =>
    if i < s.n then
      let x := s.buckets.getD i 0
      some ({ s with buckets := s.buckets.set i 0 }, { l with pc := .rsDec i x })
    else some (s, { l with pc := .next })
  | .rsDec i x => some ({ s with rolling := s.rolling - x }, { l with pc := .rsSwap (i + 1) })

def sys : Sys Shared Local := { step := step }

def init (n : Nat) (progs : List (List Op)) : Config Shared Local :=
  { shared := { n := n, buckets := List.replicate n 0 }, locals := progs.map fun p => { prog := p } }

/-- every thread has run its program to the end -/
def quiescent (c : Config Shared Local) : Bool := c.locals.all fun l => l.prog.isEmpty && l.pc == .next

def incCount (progs : List (List Op)) : Nat :=
  (progs.map fun p => (p.filter fun o => match o with | .inc _ => true | _ => false).length).sum

def Op.req : Op → Option Nat
  | .inc r | .sumAt r | .getBuckets r | .reset r => r

/-- largest index any operation requests (0 if none) -/
def maxRequested (progs : List (List Op)) : Nat :=
  (progs.flatten.filterMap Op.req).foldl max 0

end CM.Conc.RC

/-
  Conc/CallSolo.lean — how a thread of the whole-call model (Conc/Call, which embeds Conc/Trans) is seen from outside
  (K6): silent steps and the Go operation each visible step stands for — the structured form of
  DriverTrace.TrCall.expected / TrTrans.expected.
-/
import CircuitModel.Conc.Call
import CircuitModel.Conc.Solo
namespace CM.Conc.Call

inductive Lab where
  | loadFO (b : Bool) | loadFC (b : Bool) | loadFlag (b : Bool) | storeFlag (b : Bool)
  | lock | unlock
  | deliver (opened : Bool)
  | runInvoked
  deriving Repr, DecidableEq

def transLabel (s : Trans.Shared) (l : Trans.Local) : Option Lab :=
  match l.pc with
  | .start => some .lock
  | .guard1 => some (.loadFC s.forcedClosed)
  | .isOpenFO => some (.loadFO s.forceOpen)
  | .isOpenFC => some (.loadFC s.forcedClosed)
  | .isOpenFlag => some (.loadFlag s.isOpen)
  | .guard2 => some (.loadFO s.forceOpen)
  | .decide => none
  | .notify => some (.deliver (match l.job with | .open => true | .close _ _ => false))
  | .store => some (.storeFlag (match l.job with | .open => true | .close _ _ => false))
  | .unlock => some .unlock
  | .done => none

def label (s : Shared) (l : Local) : Option Lab :=
  match l.pc with
  | .aFO | .gFO | .pFO | .oFO => some (.loadFO s.t.forceOpen)
  | .aFC | .pFC | .oFC | .oFC2 => some (.loadFC s.t.forcedClosed)
  | .aFlag | .pFlag | .oFlag => some (.loadFlag s.t.isOpen)
  | .askAllow | .askPrevent | .shedNow | .askShouldOpen => none
  | .invoke => some .runInvoked
  | .trans tl => transLabel s.t tl
  | .done => none

def silent (s : Shared) (l : Local) : Bool :=
  match l.pc with
  | .done => false
  | _ => (label s l).isNone

/-- the thread is seen until it reaches a program counter satisfying `stop` -/
def viewUntil (stop : Pc → Bool) : View Shared Local Lab :=
  { silent := silent, label := label, fin := fun l => stop l.pc }

def soloFrom (tid k : Nat) (stop : Pc → Bool) (job : Job) (pc : Pc) (s : Shared) (envs : List (Shared → Shared)) : SoloSt Shared Local Lab :=
  solo sys (viewUntil stop) tid k { sh := s, loc := { job := job, pc := pc }, envs := envs }

end CM.Conc.Call

/-
  Conc/Solo.lean — ONE thread of a concurrent system seen alone (K6, the "interference tie").
  The rest of the world is an oracle: a list of arbitrary functions on the shared state, one consumed before each
  VISIBLE step of the thread (a step that corresponds to an atomic / lock operation of the Go code); silent steps
  (bookkeeping of the model that touches nothing shared) consume none.  `solo` runs the thread of a `Sys` that way and
  records the label of every visible step (operation, variable, value observed).  The Go function bodies translated over
  the interference primitives (`Go*ConcPrims`) consume the SAME oracle at their atomic operations and record the same
  kind of label, so "translated body = solo run of the model's thread" can be stated — and is proved in
  CircuitProofs/GoTie/I_* — for EVERY oracle: whatever the other goroutines do between two atomic operations of this
  one, today's source takes the steps the small-step model takes.
-/
import CircuitModel.Conc.Core
namespace CM.Conc

structure SoloSt (σ loc lab : Type) where
  sh : σ
  loc : loc
  envs : List (σ → σ)
  trace : List lab := []

/-- how one thread's steps are seen from outside -/
structure View (σ loc lab : Type) where
  silent : σ → loc → Bool          -- the next step is model bookkeeping: no Go atomic, nothing shared touched
  label : σ → loc → Option lab     -- the Go operation the next visible step stands for, with the value it observes
  fin : loc → Bool                 -- the thread has nothing left to do

/-- the other goroutines take their turn -/
def popEnv (envs : List (σ → σ)) (s : σ) : σ × List (σ → σ) :=
  match envs with
  | [] => (s, [])
  | e :: r => (e s, r)

/-- at most `k` steps of thread `tid` alone, the oracle acting before each visible one; a blocked step (a lock that is
    taken) ends the run with the oracle's last move applied -/
def solo (S : Sys σ loc) (V : View σ loc lab) (tid : Nat) : Nat → SoloSt σ loc lab → SoloSt σ loc lab
  | 0, st => st
  | k + 1, st =>
    if V.fin st.loc then st
    else if V.silent st.sh st.loc then
      match S.step tid st.sh st.loc with
      | some (s', l') => solo S V tid k { st with sh := s', loc := l' }
      | none => st
    else
      let p := popEnv st.envs st.sh
      match S.step tid p.1 st.loc with
      | some (s', l') =>
        solo S V tid k { sh := s', loc := l', envs := p.2,
                         trace := match V.label p.1 st.loc with | some a => st.trace ++ [a] | none => st.trace }
      | none => { st with sh := p.1, envs := p.2 }

/-- the same thread with the oracle acting before EVERY step (what a schedule of the whole system looks like from one
    thread: `thread_view` in CircuitProofs/GoTie/I_Core.lean) -/
def soloAll (S : Sys σ loc) (tid : Nat) : List (σ → σ) → σ → loc → σ × loc
  | [], s, l => (s, l)
  | e :: rest, s, l =>
    match S.step tid (e s) l with
    | some (s', l') => soloAll S tid rest s' l'
    | none => soloAll S tid rest (e s) l

end CM.Conc

/-
  Conc/Cfg.lean — one call reading a live setting, racing one SetConfigThreadSafe that changes that setting.
  `readsOnce`: the decision loads the setting once into a local and uses the local (the code after the D9 repair);
  `readsTwice`: the legacy shape (guard and use load separately).
-/
import CircuitModel.Conc.Core
namespace CM.Conc.Cfg

inductive Actor where
  | store          -- SetConfigThreadSafe stores the new value (an atomic Set)
  | load           -- the call loads the setting (an atomic Get)
  deriving Repr, DecidableEq

structure State where
  cur : Int                  -- the atomic
  new : Int
  stored : Bool := false
  loads : List Int := []     -- values the call has loaded so far
  deriving Repr, DecidableEq

def step (need : Nat) (s : State) : Actor → Option State
  | .store => if s.stored then none else some { s with cur := s.new, stored := true }
  | .load => if s.loads.length < need then some { s with loads := s.loads ++ [s.cur] } else none

def run (need : Nat) (s : State) : List Actor → State
  | [] => s
  | a :: rest => match step need s a with | some s' => run need s' rest | none => run need s rest

def init (old new : Int) : State := { cur := old, new := new }

/-- the throttle decision as a function of the loaded value(s): reject iff limit ≥ 0 ∧ count > limit -/
def rejectOnce (count : Int) (loads : List Int) : Option Bool :=
  match loads with | [v] => some (decide (v ≥ 0 ∧ count > v)) | _ => none
def rejectTwice (count : Int) (loads : List Int) : Option Bool :=
  match loads with | [v1, v2] => some (decide (v1 ≥ 0 ∧ count > v2)) | _ => none

end CM.Conc.Cfg

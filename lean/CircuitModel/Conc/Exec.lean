/-
  Conc/Exec.lean — the WHOLE `Circuit.Execute` for any number of concurrent callers: `c.run` (the thread of Conc/Run, through
  Conc/RunDyn so that OpenCircuit / CloseCircuit threads and operators storing override flags and the run limit are in the
  system too) followed by Execute's decision and `c.fallback`:
    err == nil → return nil;  IsBadRequest(err) → return err;  no fallback function or Fallback.Disabled → return err;
    concurrentFallbacks.Add(1), deferred Add(-1), the limit read ONCE, refusal = one fallback-rejection event;
    the fallback function (return or panic), then exactly one of fallback-success / fallback-failure.
  What `c.run` returns is decided by the script as in the code: nil unless the run function failed (a nil return that was
  late is a TIMEOUT for the circuit and still nil for the caller), the circuit-open / limit error for a refused call.
  Before all that Execute reads the kill switch: `Disabled` → the run function is called directly, as if there were no
  circuit (no admission, no gauge, no events, no fallback; its error or panic goes straight to the caller).
  Operators (`SetConfigThreadSafe` as far as this model goes) store, at arbitrary moments and in the order of
  `atomicCircuitConfig.reset`: ForcedClosed, ForceOpen, the kill switch Disabled, the run limit, Fallback.Disabled, the
  fallback limit — so every setting the model reads is LIVE.
-/
import CircuitModel.Conc.RunDyn
namespace CM.Conc.Exec
open CM.Conc

structure FbScript where
  present : Bool := true        -- a fallback function was given
  fails : Bool := false         -- it returns an error
  panics : Bool := false
  deriving Repr, DecidableEq

inductive FbEv where
  | reject | success | failure
  | invoked                      -- ghost: the fallback function was called
  deriving Repr, DecidableEq

/-- what Execute's caller gets -/
inductive Out where
  | ok                           -- nil from the run step
  | runErr                       -- the run step's own error, unchanged (bad request, no fallback, fallback disabled)
  | fbOk | fbErr                 -- the fallback's answer
  | limit                        -- the fallback was refused: ConcurrencyLimitReached
  | runPanic | fbPanic           -- the panic passes through
  | manual                       -- OpenCircuit / CloseCircuit returned
  deriving Repr, DecidableEq

inductive Pc where
  | gate                         -- Execute's first line: CircuitBreaker.Disabled.Get()
  | passthru                     -- Disabled: runFunc(ctx) directly
  | running                      -- inside c.run / OpenCircuit / CloseCircuit: the Conc/Run thread
  | decide (r : Run.Res)
  | loadDisabled
  | fbAdd
  | fbLoadLimit (obs : Int)
  | fbDeliverReject
  | fbInvoke
  | fbDeliver (ok : Bool)
  | fbDec (o : Out)              -- the deferred concurrentFallbacks.Add(-1)
  | done (o : Out)
  deriving Repr, DecidableEq

/-- what one reconfiguration installs -/
structure OpCfg where
  fo : Bool := false
  fc : Bool := false
  dis : Bool := false
  limit : Int := 10
  fbDis : Bool := false
  fbLimit : Int := 10
  deriving Repr, DecidableEq

inductive Local where
  | call (l : Run.Local) (fb : FbScript) (pc : Pc)
  | op (cfg : OpCfg) (stage : Nat)     -- stages 0..5: the six stores, in reset's order; 6 = returned
  deriving Repr, DecidableEq

structure Shared where
  r : Run.Shared
  fbGauge : Int := 0
  fbLimit : Int
  fbDisabled : Bool := false
  disabled : Bool := false             -- CircuitBreaker.Disabled
  fbEvents : List (Nat × FbEv) := []
  direct : List Nat := []              -- ghost: threads whose run function was called directly (pass-through)
  deriving Repr, DecidableEq

/-- does `c.run` hand Execute a non-nil error, and is it a bad request? -/
def runFailed (sc : Run.Script) : Run.Res → Bool
  | .ran _ => sc.failed
  | .shed | .rejected => true
  | _ => false
def runBad (sc : Run.Script) : Run.Res → Bool
  | .ran _ => sc.failed && sc.bad
  | _ => false

def step (tid : Nat) (s : Shared) : Local → Option (Shared × Local)
  | .op cfg 0 => some ({ s with r := { s.r with t := { s.r.t with forcedClosed := cfg.fc } } }, .op cfg 1)
  | .op cfg 1 => some ({ s with r := { s.r with t := { s.r.t with forceOpen := cfg.fo } } }, .op cfg 2)
  | .op cfg 2 => some ({ s with disabled := cfg.dis }, .op cfg 3)
  | .op cfg 3 => some ({ s with r := { s.r with limit := cfg.limit } }, .op cfg 4)
  | .op cfg 4 => some ({ s with fbDisabled := cfg.fbDis }, .op cfg 5)
  | .op cfg 5 => some ({ s with fbLimit := cfg.fbLimit }, .op cfg 6)
  | .op _ _ => none
  | .call l fb pc =>
    let sc : Run.Script := match l.job with | .call sc => sc | _ => {}
    let goto (pc : Pc) : Option (Shared × Local) := some (s, .call l fb pc)
    let ev (e : FbEv) (pc : Pc) : Option (Shared × Local) := some ({ s with fbEvents := s.fbEvents ++ [(tid, e)] }, .call l fb pc)
    match pc with
    | .gate => if s.disabled then goto .passthru else goto .running
    | .passthru =>
      some ({ s with direct := s.direct ++ [tid] }, .call l fb (.done (if sc.panics then .runPanic else if sc.failed then .runErr else .ok)))
    | .running =>
      (match l.pc with
       | .done r => goto (.decide r)
       | _ => (Run.step tid s.r l).map fun p => ({ s with r := p.1 }, .call p.2 fb .running))
    | .decide r =>
      (match r with
       | .manual => goto (.done .manual)
       | .panicked => goto (.done .runPanic)
       | _ => if !runFailed sc r then goto (.done .ok)
              else if runBad sc r then goto (.done .runErr)
              else if !fb.present then goto (.done .runErr)
              else goto .loadDisabled)
    | .loadDisabled => if s.fbDisabled then goto (.done .runErr) else goto .fbAdd
    | .fbAdd => let g := s.fbGauge + 1; some ({ s with fbGauge := g }, .call l fb (.fbLoadLimit g))
    | .fbLoadLimit obs => if s.fbLimit ≥ 0 ∧ obs > s.fbLimit then goto .fbDeliverReject else goto .fbInvoke
    | .fbDeliverReject => ev .reject (.fbDec .limit)
    | .fbInvoke => ev .invoked (if fb.panics then .fbDec .fbPanic else .fbDeliver (!fb.fails))
    | .fbDeliver ok => ev (if ok then .success else .failure) (.fbDec (if ok then .fbOk else .fbErr))
    | .fbDec o => some ({ s with fbGauge := s.fbGauge - 1 }, .call l fb (.done o))
    | .done _ => none

def sys : Sys Shared Local := { step := step }

inductive Job where
  | exec (sc : Run.Script) (fb : FbScript)
  | open | close
  | reconfigure (cfg : OpCfg)
  deriving Repr, DecidableEq

def startLocal : Job → Local
  | .exec sc fb => .call { job := .call sc, pc := Run.startPc (.call sc) } fb .gate
  | .open => .call { job := .open, pc := Run.startPc .open } {} .running
  | .close => .call { job := .close, pc := Run.startPc .close } {} .running
  | .reconfigure cfg => .op cfg 0

def init (forceOpen forcedClosed isOpen : Bool) (limit fbLimit : Int) (fbDisabled : Bool) (jobs : List Job) (disabled : Bool := false) : Config Shared Local :=
  { shared := { r := { t := { forceOpen := forceOpen, forcedClosed := forcedClosed, isOpen := isOpen }, limit := limit },
                fbLimit := fbLimit, fbDisabled := fbDisabled, disabled := disabled },
    locals := jobs.map startLocal }

def allDone (c : Config Shared Local) : Bool :=
  c.locals.all fun l => match l with | .call _ _ (.done _) => true | .call .. => false | .op _ k => decide (6 ≤ k)

def outOf (c : Config Shared Local) (i : Nat) : Option Out :=
  match c.locals[i]? with | some (.call _ _ (.done o)) => some o | _ => none

/-- what `c.run` returned for thread `i`, once it has -/
def runResOf (c : Config Shared Local) (i : Nat) : Option Run.Res :=
  match c.locals[i]? with
  | some (.call l _ pc) => (match pc, l.pc with | .running, _ => none | .gate, _ => none | .passthru, _ => none | _, .done r => some r | _, _ => none)
  | _ => none

/-- fallback events delivered to the collectors for thread `i` -/
def fbEventsOf (c : Config Shared Local) (i : Nat) : List FbEv :=
  (c.shared.fbEvents.filter fun e => e.1 == i && e.2 != .invoked).map (·.2)
def fbInvokedCount (c : Config Shared Local) (i : Nat) : Nat :=
  (c.shared.fbEvents.filter fun e => e.1 == i && e.2 == .invoked).length
/-- run events of thread `i` (as in Conc/Run) -/
def runEventsOf (c : Config Shared Local) (i : Nat) : List Run.Ev :=
  (c.shared.r.events.filter fun e => e.1 == i && e.2 != .invoked && e.2 != .vetoed).map (·.2)
def runInvokedCount (c : Config Shared Local) (i : Nat) : Nat :=
  (c.shared.r.events.filter fun e => e.1 == i && e.2 == .invoked).length

/-- how often thread `i`'s run function was called directly (pass-through) -/
def directCount (c : Config Shared Local) (i : Nat) : Nat := (c.shared.direct.filter (· == i)).length

/-- callers inside a fallback function -/
def fbInFlight (c : Config Shared Local) : Nat :=
  (c.locals.filter fun l => match l with | .call _ _ .fbInvoke => true | _ => false).length

end CM.Conc.Exec

/-
  Conc/RunDyn.lean — whole calls (Conc/Run) racing LIVE RECONFIGURATION: besides the call / OpenCircuit / CloseCircuit
  threads of Conc/Run there are operator threads, each one `SetConfigThreadSafe` as far as this model is concerned: atomic
  stores of ForcedClosed, ForceOpen and the run limit, in that order, at arbitrary moments, without any of the locks the
  calls take.  A call thread's steps are exactly `Run.step`.
-/
import CircuitModel.Conc.Run
namespace CM.Conc.RunDyn
open CM.Conc

inductive Local where
  | call (l : Run.Local)
  | op (fo fc : Bool) (limit : Int) (stage : Nat)     -- stage 0: store ForcedClosed, 1: store ForceOpen, 2: store the limit, 3: done
  deriving Repr, DecidableEq

def step (tid : Nat) (s : Run.Shared) : Local → Option (Run.Shared × Local)
  | .call l => (Run.step tid s l).map fun p => (p.1, .call p.2)
  | .op fo fc m 0 => some ({ s with t := { s.t with forcedClosed := fc } }, .op fo fc m 1)
  | .op fo fc m 1 => some ({ s with t := { s.t with forceOpen := fo } }, .op fo fc m 2)
  | .op fo fc m 2 => some ({ s with limit := m }, .op fo fc m 3)
  | .op _ _ _ _ => none

def sys : Sys Run.Shared Local := { step := step }

inductive Job where
  | run (j : Run.Job)
  | reconfigure (fo fc : Bool) (limit : Int)
  deriving Repr, DecidableEq

def startLocal : Job → Local
  | .run j => .call { job := j, pc := Run.startPc j }
  | .reconfigure fo fc m => .op fo fc m 0

def init (forceOpen forcedClosed isOpen : Bool) (limit : Int) (jobs : List Job) : Config Run.Shared Local :=
  { shared := { t := { forceOpen := forceOpen, forcedClosed := forcedClosed, isOpen := isOpen }, limit := limit },
    locals := jobs.map startLocal }

def allDone (c : Config Run.Shared Local) : Bool :=
  c.locals.all fun l => match l with | .call l => (match l.pc with | .done _ => true | _ => false) | .op _ _ _ k => decide (3 ≤ k)

/-- the `Run` view of a configuration: operator threads become calls that are not there (for `Run.runEventsOf` etc.) -/
def callOf : Local → Option Run.Local
  | .call l => some l
  | .op .. => none

def resultOf (c : Config Run.Shared Local) (i : Nat) : Option Run.Res :=
  match c.locals[i]? with
  | some (.call { pc := .done r, .. }) => some r
  | _ => none

def eventsOf (c : Config Run.Shared Local) (i : Nat) : List Run.Ev :=
  (c.shared.events.filter fun e => e.1 == i && e.2 != .invoked && e.2 != .vetoed).map (·.2)

def invokedCount (c : Config Run.Shared Local) (i : Nat) : Nat :=
  (c.shared.events.filter fun e => e.1 == i && e.2 == .invoked).length

end CM.Conc.RunDyn

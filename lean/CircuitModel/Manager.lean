/-
  Manager.lean — model of circuit.Manager (manager.go) with config layering and of rolling.StatFactory's per-name
  binding (metrics/rolling/rolling.go).  CreateCircuit follows the code order: existence test, then merge the explicit
  configs in argument order, then the DefaultCircuitProperties constructors from last to first (a constructor may
  have side effects: the stat factory re-binds the name to fresh stats), then the library defaults.
-/
import CircuitModel.Basic
namespace CM.Mgr

/-- the settings a layer may carry (0 / false = unset) -/
structure Layer where
  timeout : Int := 0
  maxConc : Int := 0
  fbMaxConc : Int := 0
  forceOpen : Bool := false
  forcedClosed : Bool := false
  disabled : Bool := false
  fbDisabled : Bool := false
  ignoreInterrupts : Bool := false
  deriving Repr, DecidableEq

/-- `Config.Merge`: fill gaps of `a` from `b` -/
def merge (a b : Layer) : Layer :=
  { timeout := if a.timeout = 0 then b.timeout else a.timeout,
    maxConc := if a.maxConc = 0 then b.maxConc else a.maxConc,
    fbMaxConc := if a.fbMaxConc = 0 then b.fbMaxConc else a.fbMaxConc,
    forceOpen := a.forceOpen || b.forceOpen, forcedClosed := a.forcedClosed || b.forcedClosed,
    disabled := a.disabled || b.disabled, fbDisabled := a.fbDisabled || b.fbDisabled,
    ignoreInterrupts := a.ignoreInterrupts || b.ignoreInterrupts }

/-- the library defaults (`defaultCommandProperties`) -/
def libDefaults : Layer := { timeout := 1000000000, maxConc := 10, fbMaxConc := 10 }

/-- a default constructor: a fixed layer, or the stat factory (which also returns an empty layer of settings) -/
inductive Ctor where
  | layer (l : Layer)
  | statFactory
  deriving Repr, DecidableEq

structure Circuit where
  id : Nat
  cfg : Layer
  stats : Option Nat        -- id of the RunStats collector attached to it (if the stat factory is configured)
  deriving Repr, DecidableEq

structure State where
  ctors : List Ctor                          -- DefaultCircuitProperties, in slice order
  circuits : List (String × Circuit) := []   -- circuitMap
  statBinding : List (String × Nat) := []    -- StatFactory.runStatsByCircuit (latest binding first)
  nextId : Nat := 0
  nextStat : Nat := 0
  deriving Repr, DecidableEq

def State.get (s : State) (name : String) : Option Circuit := (s.circuits.find? (·.1 == name)).map (·.2)
def State.statFor (s : State) (name : String) : Option Nat := (s.statBinding.find? (·.1 == name)).map (·.2)

/-- run the constructors from last to first, accumulating the merged layer and the factory's side effects -/
def runCtors (name : String) : List Ctor → Layer × State × Option Nat → Layer × State × Option Nat
  | [], acc => acc
  | c :: rest, acc =>
    -- `for i := len-1; i >= 0; i--`: the LAST constructor is merged first
    let (cfg, s, st) := runCtors name rest acc
    match c with
    | .layer l => (merge cfg l, s, st)
    | .statFactory =>
      let sid := s.nextStat
      (cfg, { s with statBinding := (name, sid) :: s.statBinding, nextStat := sid + 1 }, st.orElse fun _ => some sid)

inductive Out where
  | created (c : Circuit)
  | exists_
  | got (c : Option Circuit)
  | all (ids : List Nat)
  | bound (b : Option Bool)     -- is the stat factory's entry for the name the collector attached to the live circuit?
  deriving Repr, DecidableEq

/-- `CreateCircuit(name, configs...)` -/
def create (s : State) (name : String) (configs : List Layer) : State × Out :=
  match s.get name with
  | some _ => (s, .exists_)
  | none =>
    let explicit := configs.foldl merge {}
    let (cfg, s, st) := runCtors name s.ctors (explicit, s, none)
    let c : Circuit := { id := s.nextId, cfg := merge cfg libDefaults, stats := st }
    ({ s with circuits := s.circuits ++ [(name, c)], nextId := s.nextId + 1 }, .created c)

inductive Op where
  | create (name : String) (configs : List Layer)
  | get (name : String)
  | all
  | stats (name : String)
  deriving Repr, DecidableEq

def insertNat (x : Nat) : List Nat → List Nat
  | [] => [x]
  | y :: ys => if x ≤ y then x :: y :: ys else y :: insertNat x ys
def sortNat : List Nat → List Nat
  | [] => []
  | x :: xs => insertNat x (sortNat xs)

def step (s : State) : Op → State × Out
  | .create n cs => create s n cs
  | .get n => (s, .got (s.get n))
  | .all => (s, .all (sortNat (s.circuits.map (·.2.id))))
  | .stats n => (s, .bound (match s.get n with
      | none => none
      | some c => some (decide (c.stats.isSome ∧ c.stats = s.statFor n))))

def run (s : State) : List Op → List Out
  | [] => []
  | op :: ops => let (s', o) := step s op; o :: run s' ops

def exec (s : State) (ops : List Op) : State := ops.foldl (fun s op => (step s op).1) s

/-! ### the specification of precedence: first layer that sets it -/
def firstSet (f : Layer → Int) (layers : List Layer) : Int := ((layers.map f).find? (· ≠ 0)).getD 0
def anySet (f : Layer → Bool) (layers : List Layer) : Bool := layers.any f

/-- the layers in precedence order: explicit configs in argument order, then default constructors from last to
    first, then the library defaults -/
def precedence (ctors : List Ctor) (configs : List Layer) : List Layer :=
  configs ++ (ctors.reverse.map fun c => match c with | .layer l => l | .statFactory => {}) ++ [libDefaults]

def specCfg (ctors : List Ctor) (configs : List Layer) : Layer :=
  let ls := precedence ctors configs
  { timeout := firstSet (·.timeout) ls, maxConc := firstSet (·.maxConc) ls, fbMaxConc := firstSet (·.fbMaxConc) ls,
    forceOpen := anySet (·.forceOpen) ls, forcedClosed := anySet (·.forcedClosed) ls, disabled := anySet (·.disabled) ls,
    fbDisabled := anySet (·.fbDisabled) ls, ignoreInterrupts := anySet (·.ignoreInterrupts) ls }

end CM.Mgr

import CircuitModel.Manager
namespace CM
open Mgr

/-- layer text: `to=5,mc=3,fo=1` (missing = unset); `-` = empty layer; `SF` = the stat factory (constructors only) -/
def parseLayer (s : String) : Layer :=
  if s == "-" then {} else
  let kvs := (s.splitOn ",").filterMap fun t => match (t.replace ":" "=").splitOn "=" with | [k, v] => some (k, v) | _ => none
  { timeout := kvInt kvs "to" 0, maxConc := kvInt kvs "mc" 0, fbMaxConc := kvInt kvs "fbmc" 0,
    forceOpen := kvBool kvs "fo" false, forcedClosed := kvBool kvs "fc" false, disabled := kvBool kvs "dis" false,
    fbDisabled := kvBool kvs "fbd" false, ignoreInterrupts := kvBool kvs "ii" false }

def fmtLayer (l : Layer) : String :=
  s!"to={l.timeout} mc={l.maxConc} fbmc={l.fbMaxConc} fo={fmtBool l.forceOpen} fc={fmtBool l.forcedClosed} dis={fmtBool l.disabled} fbd={fmtBool l.fbDisabled} ii={fmtBool l.ignoreInterrupts}"

def parseMgrOp (line : String) : Option Op :=
  match line.splitOn " " with
  | "create" :: name :: layers => some (.create name (layers.map parseLayer))
  | ["get", n] => some (.get n)
  | ["all"] => some .all
  | ["var"] => some .all           -- the expvar view lists exactly the registered circuits: observationally `all`
  | ["stats", n] => some (.stats n)
  | _ => none

def Mgr.Out.fmt : Mgr.Out → String
  | .created c => s!"ok id={c.id} {fmtLayer c.cfg} cc=1"
  | .exists_ => "err"
  | .got none => "nil"
  | .got (some c) => s!"id={c.id}"
  | .all ids => "[" ++ ",".intercalate (ids.map toString) ++ "]"
  | .bound none => "none"
  | .bound (some b) => "bound=" ++ fmtBool b

/-- suite `manager`: header `ctors=<layer>|<layer>|SF|...` (slice order; `-` none) -/
def suiteManager (kvs : List (String × String)) (lines0 : List (String × String)) : List String :=
  let lines := lines0.map (·.1)
  let ctorTxt := (kvGet kvs "ctors").getD "-"
  let ctors : List Ctor := if ctorTxt == "-" then [] else
    (ctorTxt.splitOn "|").map fun t => if t == "SF" then .statFactory else .layer (parseLayer t)
  let hasSF := ctors.any (· == .statFactory)
  match lines.mapM parseMgrOp with
  | none => lines.map fun _ => "bad-op\t-"
  | some ops =>
    let m := (Mgr.run { ctors := ctors } ops).map Mgr.Out.fmt
    -- spec column from the history: names created so far (first create of a name wins)
    let rec specs (created : List String) : List Op → List String
      | [] => []
      | op :: rest =>
        match op with
        | .create n cs =>
          if created.contains n then "err" :: specs created rest
          else s!"ok id={created.length} {fmtLayer (specCfg ctors cs)} cc=1" :: specs (created ++ [n]) rest
        | .get n => (match created.idxOf? n with | some i => s!"id={i}" | none => "nil") :: specs created rest
        | .all => ("[" ++ ",".intercalate ((List.range created.length).map toString) ++ "]") :: specs created rest
        | .stats n =>
          -- a failed create changes nothing observable: the factory's stats for a live name stay bound to the live circuit
          (if created.contains n then (if hasSF then "bound=1" else "bound=0") else "none") :: specs created rest
    (m.zip (specs [] ops)).map fun (a, b) => a ++ "\t" ++ b

end CM
